(* C05: the main theorems about the encoder model, assembled from
   EncodeProofs.v (all commands but SGR) and EncodeSgrProofs.v (Face, FaceModify). *)
From Coq Require Import List NArith ZArith Bool Lia ZifyBool ZifyN.
From SNT Require Import Base.Outcome Encoder.Decimal Encoder.DecimalProofs Encoder.Utf8
  Encoder.VT Encoder.VTProofs Encoder.Encode Encoder.EncodeOrig Encoder.EncodeStream Encoder.Denote Encoder.EncodeProofs Encoder.EncodeSgrProofs
  Encoder.Color256 Encoder.Color256Proofs Encoder.EncodeC20 Encoder.Term Gen.TabEncoder.
Import ListNotations.
Local Open Scope N_scope.
Arguments print : simpl never.

Lemma app5 {A} (x y z w t : list A) : x ++ y ++ z ++ w ++ t = (x ++ y ++ z ++ w) ++ t.
Proof. rewrite <- !app_assoc. reflexivity. Qed.

Ltac bsplit H :=
  repeat match type of H with
         | _ && _ = true => let H2 := fresh "Hb" in apply andb_prop in H; destruct H as [H H2]
         end.

Section Meaning.
  Variable pal256 : rgba -> N.
  Variable gray4 : rgba -> N.
  Hypothesis pal256_byte : forall c, pal256 c < 256.

  Notation encode := (encode pal256 gray4).
  Notation denote := (denote pal256 gray4).

  Lemma sgr_good ps :
    wf_params ps -> good (CSI ++ print_params ps ++ [109]) [OSgr (sgr_trans ps)].
  Proof. intros Hw. destruct (csi_good ps 109 Hw) as [tok H]; [lia | exact H]. Qed.

  Lemma face_good cp f :
    orgba_ok (f_fg f) = true -> orgba_ok (f_bg f) = true ->
    good (sgr_bytes (face_chunks pal256 gray4 (cp_depth cp) f)) [OSgr (face_trans pal256 gray4 (cp_depth cp) f)].
  Proof.
    intros Hf Hb. rewrite face_chunks_params. rewrite <- (sgr_face pal256 gray4 pal256_byte _ f Hf Hb).
    apply (sgr_good (face_params pal256 gray4 (cp_depth cp) f)), wf_face.
  Qed.

  Lemma fm_good cp m :
    orgba_ok (fm_fg m) = true -> orgba_ok (fm_bg m) = true -> orgba_ok (fm_ucolor m) = true ->
    exists bs, encode cp (FaceModify m) = Ok bs /\ good bs (denote cp (FaceModify m)).
  Proof.
    intros Hf Hb Hu. cbn [Encode.encode Denote.denote]. rewrite fm_chunks_params.
    pose proof (fm_params_nil pal256 gray4 pal256_byte (cp_depth cp) m Hf Hb Hu) as Hnil.
    pose proof (sgr_fm pal256 gray4 pal256_byte (cp_depth cp) m Hf Hb Hu) as Htr.
    pose proof (ne_fm pal256 gray4 (cp_depth cp) m) as Hne.
    destruct (fm_params pal256 gray4 (cp_depth cp) m) as [|p ps] eqn:E.
    - exists []. split; [reflexivity|]. replace (rtrans_is_id _) with true by (symmetry; apply Hnil; reflexivity).
      apply good_nil.
    - exists (sgr_bytes (map print_param (p :: ps))). split; [reflexivity|].
      destruct (rtrans_is_id (fm_trans pal256 gray4 (cp_depth cp) m)) eqn:Eid.
      + destruct Hnil as [_ Hn]. specialize (Hn eq_refl). discriminate Hn.
      + rewrite <- Htr. apply (sgr_good (p :: ps)). split; [discriminate | exact Hne].
  Qed.

  Lemma hmove_good col :
    exists h,
      (if (0 <? col)%Z then Ok (CSI ++ print (Z.to_N col) ++ [67])
       else if (col <? 0)%Z then Ok (CSI ++ print (unsigned_abs col) ++ [68])
       else Ok []) = Ok h /\
      good h (if (0 <? col)%Z then [OCuf (Z.to_N col)] else if (col <? 0)%Z then [OCub (Z.to_N (- col))] else []).
  Proof.
    destruct (0 <? col)%Z eqn:E1; [|destruct (col <? 0)%Z eqn:E2]; eexists; (split; [reflexivity|]).
    - apply cuf_good. lia.
    - unfold unsigned_abs. replace (Z.to_N (Z.abs col)) with (Z.to_N (- col)) by lia. apply cub_good. lia.
    - apply good_nil.
  Qed.

  Lemma vmove_good row :
    exists v,
      (if (0 <? row)%Z then Ok (CSI ++ print (Z.to_N row) ++ [66])
       else if (row <? 0)%Z then Ok (CSI ++ print (unsigned_abs row) ++ [65])
       else Ok []) = Ok v /\
      good v (if (0 <? row)%Z then [OCud (Z.to_N row)] else if (row <? 0)%Z then [OCuu (Z.to_N (- row))] else []).
  Proof.
    destruct (0 <? row)%Z eqn:E1; [|destruct (row <? 0)%Z eqn:E2]; eexists; (split; [reflexivity|]).
    - apply cud_good. lia.
    - unfold unsigned_abs. replace (Z.to_N (Z.abs row)) with (Z.to_N (- row)) by lia. apply cuu_good. lia.
    - apply good_nil.
  Qed.

  (* every command other than Raw: bytes mean the command, nothing is left pending *)
  Theorem encode_good cp c :
    cmd_ok c = true -> is_raw c = false ->
    exists bs, encode cp c = Ok bs /\ good bs (denote cp c).
  Proof.
    intros Hok Hraw. destruct c; try discriminate Hraw; cbn [cmd_ok] in Hok.
    - (* Char *)
      eexists. split; [reflexivity|]. cbn [Denote.denote]. apply (char_good c Hok).
    - (* Face *)
      eexists. split; [reflexivity|]. bsplit Hok. apply face_good; assumption.
    - (* FaceModify *)
      bsplit Hok. apply fm_good; assumption.
    - eexists. split; [reflexivity|]. apply decrqss_good.
    - (* DecModeSet *)
      eexists. split; [reflexivity|]. cbn [Denote.denote]. rewrite <- decmode_code_xterm.
      destruct enable; cbn [negb andb].
      + rewrite app_nil_l, app5.
        change (ODecset (decmode_code mode) :: ?l) with ([ODecset (decmode_code mode)] ++ l).
        apply good_app; [apply decset_good|]. destruct (is_altscreen mode); [apply kitty_level_good | apply good_nil].
      + rewrite ?app_nil_r.
        apply good_app; [|apply decrst_good]. destruct (is_altscreen mode); [apply kitty_level_good | apply good_nil].
    - eexists. split; [reflexivity|]. cbn [Denote.denote]. rewrite <- decmode_code_xterm. apply decrqm_good.
    - eexists. split; [reflexivity|]. apply dsr_good.
    - eexists. split; [reflexivity|]. apply cup_good; lia.
    - (* CursorMove *)
      cbn [Encode.encode Denote.denote].
      destruct (hmove_good col) as (h & Eh & Gh). destruct (vmove_good row) as (v & Ev & Gv).
      exists (h ++ v). split; [rewrite Eh; cbn [bind]; rewrite Ev; reflexivity|]. apply good_app; assumption.
    - eexists. split; [reflexivity|]. apply decsc_good.
    - eexists. split; [reflexivity|]. apply decrc_good.
    - eexists. split; [reflexivity|]. apply el1_good.
    - eexists. split; [reflexivity|]. apply el0_good.
    - eexists. split; [reflexivity|]. apply el2_good.
    - eexists. split; [reflexivity|]. apply ed2_good.
    - (* EraseChars *)
      cbn [Encode.encode Denote.denote]. destruct (0 <? count) eqn:E.
      + replace (count =? 0) with false by lia. eexists. split; [reflexivity|]. apply ech_good. lia.
      + replace (count =? 0) with true by lia. eexists. split; [reflexivity|]. apply good_nil.
    - (* Scroll *)
      cbn [Encode.encode Denote.denote]. destruct (count <? 0)%Z eqn:E1; [|destruct (0 <? count)%Z eqn:E2].
      + replace (0 <? count)%Z with false by lia. eexists. split; [reflexivity|].
        unfold unsigned_abs. replace (Z.to_N (Z.abs count)) with (Z.to_N (- count)) by lia. apply sd_good. lia.
      + eexists. split; [reflexivity|]. apply su_good. lia.
      + eexists. split; [reflexivity|]. apply good_nil.
    - (* ScrollRegion *)
      cbn [Encode.encode Denote.denote]. destruct (start <? stop).
      + eexists. split; [reflexivity|]. apply decstbm_good; lia.
      + eexists. split; [reflexivity|]. apply decstbm_reset_good.
    - eexists. split; [reflexivity|]. apply ris_good.
    - eexists. split; [reflexivity|]. apply good_nil.
    - eexists. split; [reflexivity|]. apply good_nil.
    - (* Termcap *)
      eexists. split; [reflexivity|]. apply termcap_good. exact Hok.
    - (* Color *)
      eexists. split; [reflexivity|]. cbn [Denote.denote]. apply andb_prop in Hok. destruct Hok as [Hc _].
      change (match color with Some c => [35] ++ hex2 (cr c) ++ hex2 (cg c) ++ hex2 (cb c) | None => [63] end)
        with (spec_bytes color).
      destruct name.
      + apply (dyn_good 11); [right; reflexivity | exact Hc].
      + apply (dyn_good 10); [left; reflexivity | exact Hc].
      + apply palette_good. exact Hc.
    - eexists. split; [reflexivity|]. apply title_good. exact Hok.
    - eexists. split; [reflexivity|]. apply da1_good.
    - eexists. split; [reflexivity|]. apply kitty_level_good.
  Qed.

  (* meaning, for every command incl. Raw (whose meaning is its bytes) *)
  Theorem encode_meaning cp c :
    cmd_ok c = true ->
    exists bs, encode cp c = Ok bs /\ vt_ops bs = denote cp c /\ (is_raw c = false -> vt_complete bs = true).
  Proof.
    intros Hok. destruct (is_raw c) eqn:Hr.
    - destruct c; try discriminate Hr. exists data. split; [reflexivity|]. split; [reflexivity | discriminate].
    - destruct (encode_good cp c Hok Hr) as (bs & E & G & C). exists bs. auto.
  Qed.

  (* a stream of commands parses back into the same operations, whatever
     complete output preceded it *)
  Theorem encode_stream_meaning cp cs :
    forallb cmd_ok cs = true -> forallb (fun c => negb (is_raw c)) cs = true ->
    exists bs, encode_stream pal256 gray4 cp cs = Ok bs /\
      vt_complete bs = true /\
      forall pre, vt_complete pre = true -> vt_ops (pre ++ bs) = vt_ops pre ++ flat_map (denote cp) cs.
  Proof.
    induction cs as [|c r IH]; intros Hok Hraw.
    - exists []. split; [reflexivity|]. split; [reflexivity|]. intros pre Hp. rewrite !app_nil_r. reflexivity.
    - cbn [forallb] in Hok, Hraw. apply andb_prop in Hok. destruct Hok as [Hc Hr].
      apply andb_prop in Hraw. destruct Hraw as [Hcr Hrr].
      destruct (IH Hr Hrr) as (br & Er & Cr & Sr).
      destruct (encode_good cp c Hc) as (b & Eb & Gb & Cb); [destruct (is_raw c); [discriminate | reflexivity]|].
      exists (b ++ br). split; [cbn [encode_stream]; rewrite Eb; cbn [bind]; rewrite Er; reflexivity|].
      split; [apply vt_complete_app; assumption|].
      intros pre Hp. rewrite app_assoc. rewrite (Sr (pre ++ b)) by (apply vt_complete_app; assumption).
      rewrite (vt_ops_app pre b Hp), Gb. cbn [flat_map]. rewrite <- app_assoc. reflexivity.
  Qed.
End Meaning.

(* ---------- no panic: the model has no failing path at all ---------- *)
Theorem encode_total pal256 gray4 cp c : is_ok (encode pal256 gray4 cp c) = true.
Proof.
  destruct c; cbn [encode]; try reflexivity.
  - destruct (fm_chunks pal256 gray4 (cp_depth cp) m); reflexivity.
  - destruct (0 <? col)%Z, (col <? 0)%Z, (0 <? row)%Z, (row <? 0)%Z; reflexivity.
  - destruct (0 <? count); reflexivity.
  - destruct (count <? 0)%Z, (0 <? count)%Z; reflexivity.
  - destruct (start <? stop); reflexivity.
Qed.

(* ---------- Face in true colour: exactly the face, from any prior rendition ---------- *)
Definition colour_of_rgba (c : option rgba) : colour :=
  match c with Some c => CRgb (cr c) (cg c) (cb c) | None => CDefault end.

Definition face_rendition (f : face) : rendition :=
  mkRend (if attrs_flag (f_bits f) 0 then IBold else INormal)
         (attrs_flag (f_bits f) 1)
         (uline_of_style (attrs_underline (f_bits f)))
         (attrs_flag (f_bits f) 2)
         (attrs_flag (f_bits f) 3)
         false
         (attrs_flag (f_bits f) 4)
         (colour_of_rgba (f_fg f)) (colour_of_rgba (f_bg f)) CDefault.

Lemma face_trans_truecolor pal256 gray4 f prior :
  rt_apply (face_trans pal256 gray4 TrueColor f) prior = face_rendition f.
Proof. unfold face_trans, face_rendition, rt_apply. destruct (f_fg f), (f_bg f); reflexivity. Qed.

(* reduced depths: exactly one palette entry per colour *)
Lemma face_trans_reduced pal256 gray4 d f c prior :
  d <> TrueColor -> f_fg f = Some c ->
  exists n, r_fg (rt_apply (face_trans pal256 gray4 d f) prior) = CIdx n /\
            n = match d with EightBit => pal256 c | _ => gray_entry (gray4 c) end.
Proof.
  intros Hd Hf. unfold face_trans, rt_apply. cbn [r_fg t_fg pick]. rewrite Hf.
  destruct d; [congruence | |]; eexists; split; reflexivity.
Qed.

(* ---------- the statements of Props/C05.v ---------- *)
Lemma c05_meaning_thm :
  forall (pal256 gray4 : rgba -> N), (forall c, pal256 c < 256) ->
  forall (cp : caps) (c : cmd), cmd_ok c = true ->
  exists bs, encode pal256 gray4 cp c = Ok bs /\ vt_ops bs = denote pal256 gray4 cp c.
Proof.
  intros pal gray Hp cp c Hok. destruct (encode_meaning pal gray Hp cp c Hok) as (bs & E & M & _).
  exists bs. split; assumption.
Qed.

Lemma c05_face_exact_thm :
  forall (pal256 gray4 : rgba -> N), (forall c, pal256 c < 256) ->
  forall (glyphs kitty : bool) (f : face), cmd_ok (Face f) = true ->
  exists bs t, encode pal256 gray4 (mkCaps TrueColor glyphs kitty) (Face f) = Ok bs /\
    vt_ops bs = [OSgr t] /\ t_bad t = false /\
    forall prior : rendition, rt_apply t prior = face_rendition f.
Proof.
  intros pal gray Hp gl ki f Hok.
  destruct (encode_meaning pal gray Hp (mkCaps TrueColor gl ki) (Face f) Hok) as (bs & E & M & _).
  exists bs, (face_trans pal gray TrueColor f). split; [exact E|]. split; [exact M|]. split; [reflexivity|].
  intros prior. apply face_trans_truecolor.
Qed.



Lemma c05_selfcontained_thm :
  forall (pal256 gray4 : rgba -> N), (forall c, pal256 c < 256) ->
  forall (cp : caps) (c : cmd), cmd_ok c = true -> is_raw c = false ->
  exists bs, encode pal256 gray4 cp c = Ok bs /\ vt_complete bs = true.
Proof.
  intros pal gray Hp cp c Hok Hr. destruct (encode_meaning pal gray Hp cp c Hok) as (bs & E & _ & C).
  exists bs. split; [exact E | exact (C Hr)].
Qed.

Lemma c05_stream_thm :
  forall (pal256 gray4 : rgba -> N), (forall c, pal256 c < 256) ->
  forall (cp : caps) (cs : list cmd),
  forallb cmd_ok cs = true -> forallb (fun c => negb (is_raw c)) cs = true ->
  exists bs, encode_stream pal256 gray4 cp cs = Ok bs /\
    forall pre, vt_complete pre = true ->
      vt_ops (pre ++ bs) = vt_ops pre ++ flat_map (denote pal256 gray4 cp) cs.
Proof.
  intros pal gray Hp cp cs Hok Hr. destruct (encode_stream_meaning pal gray Hp cp cs Hok Hr) as (bs & E & _ & S).
  exists bs. split; assumption.
Qed.


(* ---------- before crate fix 73d8d1c: characters that open a control sequence ---------- *)
Lemma char_introducer_refuted_before_fix c :
  char_introducer c = true ->
  exists bs, EncodeOrig.encode_orig (Char c) = Ok bs /\ vt_complete bs = false.
Proof.
  unfold char_introducer. intros H. eexists. split; [reflexivity|].
  repeat (apply orb_prop in H; destruct H as [H|H]);
    apply N.eqb_eq in H; subst c; vm_compute; reflexivity.
Qed.

(* ---------- no panic with the colour reduction inside the model ---------- *)
Theorem encode_c20_total cp c : is_ok (encode_c20 cp c) = true.
Proof.
  unfold encode_c20. destruct (cp_depth cp); cbn [bind]; try apply encode_total.
  rewrite all_ok_pal. cbn [bind]. apply encode_total.
Qed.

Lemma encode_c20_eq cp c : encode_c20 cp c = encode pal256_exact gray4_exact cp c.
Proof. unfold encode_c20. destruct (cp_depth cp); cbn [bind]; try reflexivity. rewrite all_ok_pal. reflexivity. Qed.

Lemma pal256_exact_byte c : (pal256_exact c < 256)%N.
Proof. destruct (pal256_exact_optimal c) as [H _]. lia. Qed.

(* ---------- C20: the bytes carry the reduced colour of every role ---------- *)
Definition colours_fm (fg bg ul : rgba) : facemod :=
  mkFM false (Some fg) (Some bg) None (Some ul) None None None None.

Definition only_colours (fg bg ul : option colour) : rtrans :=
  mkRT None None None None None None None fg bg ul false.

Theorem c20_roles d gl ki fg bg ul :
  rgba_ok fg = true -> rgba_ok bg = true -> rgba_ok ul = true ->
  exists bs,
    encode_c20 (mkCaps d gl ki) (FaceModify (colours_fm fg bg ul)) = Ok bs /\
    vt_complete bs = true /\
    vt_ops bs =
      [OSgr match d with
            | TrueColor => only_colours (Some (CRgb (cr fg) (cg fg) (cb fg))) (Some (CRgb (cr bg) (cg bg) (cb bg)))
                                        (Some (CRgb (cr ul) (cg ul) (cb ul)))
            | EightBit => only_colours (Some (CIdx (pal256_exact fg))) (Some (CIdx (pal256_exact bg)))
                                       (Some (CIdx (pal256_exact ul)))
            | Gray => only_colours (Some (CIdx (gray_entry (gray4_exact fg)))) (Some (CIdx (gray_entry (gray4_exact bg))))
                                   None     (* an underline colour has no grey rendering: nothing is sent *)
            end].
Proof.
  intros Hf Hb Hu.
  assert (Hok : cmd_ok (FaceModify (colours_fm fg bg ul)) = true).
  { cbn [cmd_ok colours_fm fm_fg fm_bg fm_ucolor orgba_ok]. rewrite Hf, Hb, Hu. reflexivity. }
  destruct (encode_meaning pal256_exact gray4_exact pal256_exact_byte (mkCaps d gl ki) _ Hok) as (bs & E & M & C).
  exists bs. rewrite encode_c20_eq. split; [exact E|]. split; [apply C; reflexivity|].
  rewrite M. destruct d; reflexivity.
Qed.

(* ---------- C05: reduced depths select one palette entry per colour, every role ---------- *)
Definition reduced_entry (pal256 gray4 : rgba -> N) (d : depth) (c : rgba) : N :=
  match d with EightBit => pal256 c | _ => gray_entry (gray4 c) end.

Definition reduced_colour pal256 gray4 d (c : option rgba) : colour :=
  match c with Some c => CIdx (reduced_entry pal256 gray4 d c) | None => CDefault end.

Lemma face_trans_reduced_both pal256 gray4 d f prior :
  d <> TrueColor ->
  r_fg (rt_apply (face_trans pal256 gray4 d f) prior) = reduced_colour pal256 gray4 d (f_fg f) /\
  r_bg (rt_apply (face_trans pal256 gray4 d f) prior) = reduced_colour pal256 gray4 d (f_bg f) /\
  r_ulc (rt_apply (face_trans pal256 gray4 d f) prior) = CDefault.
Proof.
  intros Hd. unfold face_trans, rt_apply, reduced_colour, reduced_entry. cbn [r_fg r_bg r_ulc t_fg t_bg t_ulc pick].
  destruct d; [congruence | |]; destruct (f_fg f), (f_bg f); repeat split; reflexivity.
Qed.

(* FaceModify: each named colour becomes one palette entry; an unnamed one is left alone
   (or reset); under Gray the underline colour is not sent at all *)
Lemma fm_trans_reduced_fields pal256 gray4 d m :
  d <> TrueColor ->
  let t := fm_trans pal256 gray4 d m in
  let base := if fm_reset m then rt_reset else rt_id in
  let idx (c : option rgba) := option_map (fun c => CIdx (reduced_entry pal256 gray4 d c)) c in
  t_fg t = over (idx (fm_fg m)) (t_fg base) /\
  t_bg t = over (idx (fm_bg m)) (t_bg base) /\
  t_ulc t = match d with Gray => t_ulc base | _ => over (idx (fm_ucolor m)) (t_ulc base) end.
Proof.
  intros Hd. unfold fm_trans, reduced_entry. cbn [t_fg t_bg t_ulc].
  destruct d; [congruence | |]; destruct (fm_fg m), (fm_bg m), (fm_ucolor m); repeat split; reflexivity.
Qed.

Lemma c05_face_reduced_thm :
  forall (pal256 gray4 : rgba -> N), (forall c, pal256 c < 256) ->
  forall (cp : caps) (f : face), cmd_ok (Face f) = true -> cp_depth cp <> TrueColor ->
  exists bs t, encode pal256 gray4 cp (Face f) = Ok bs /\ vt_ops bs = [OSgr t] /\
    forall prior,
      r_fg (rt_apply t prior) = reduced_colour pal256 gray4 (cp_depth cp) (f_fg f) /\
      r_bg (rt_apply t prior) = reduced_colour pal256 gray4 (cp_depth cp) (f_bg f) /\
      r_ulc (rt_apply t prior) = CDefault.
Proof.
  intros pal gray Hp cp f Hok Hd.
  destruct (encode_meaning pal gray Hp cp (Face f) Hok) as (bs & E & M & _).
  exists bs, (face_trans pal gray (cp_depth cp) f). split; [exact E|]. split; [exact M|].
  intros prior. apply face_trans_reduced_both, Hd.
Qed.

Lemma c05_facemodify_reduced_thm :
  forall (pal256 gray4 : rgba -> N), (forall c, pal256 c < 256) ->
  forall (cp : caps) (m : facemod), cmd_ok (FaceModify m) = true -> cp_depth cp <> TrueColor ->
  exists bs, encode pal256 gray4 cp (FaceModify m) = Ok bs /\
    let t := fm_trans pal256 gray4 (cp_depth cp) m in
    let base := if fm_reset m then rt_reset else rt_id in
    let idx (c : option rgba) := option_map (fun c => CIdx (reduced_entry pal256 gray4 (cp_depth cp) c)) c in
    vt_ops bs = (if rtrans_is_id t then [] else [OSgr t]) /\
    t_fg t = over (idx (fm_fg m)) (t_fg base) /\
    t_bg t = over (idx (fm_bg m)) (t_bg base) /\
    t_ulc t = match cp_depth cp with Gray => t_ulc base | _ => over (idx (fm_ucolor m)) (t_ulc base) end.
Proof.
  intros pal gray Hp cp m Hok Hd.
  destruct (encode_meaning pal gray Hp cp (FaceModify m) Hok) as (bs & E & M & _).
  exists bs. split; [exact E|]. split; [exact M|]. apply fm_trans_reduced_fields, Hd.
Qed.

(* ---------- one encoder object: its state never reaches the output ---------- *)
Lemma encode_some pal256 gray4 cp c : exists b, encode pal256 gray4 cp c = Ok b.
Proof.
  pose proof (encode_total pal256 gray4 cp c) as T.
  destruct (encode pal256 gray4 cp c) as [b| | |]; try discriminate T. eauto.
Qed.

Theorem encode_st_stateless pal256 gray4 cp s c :
  exists b s', encode_st pal256 gray4 cp s c = Ok (b, s') /\ encode pal256 gray4 cp c = Ok b.
Proof.
  destruct (encode_some pal256 gray4 cp c) as [b E].
  destruct c; cbn [encode_st]; try (rewrite E; cbn [bind]; eauto; fail).
  - (* FaceModify; the Face arm is closed by computation above *) cbn [chunks_clear app]. cbn [encode] in *.
    destruct (fm_chunks pal256 gray4 (cp_depth cp) m); eauto.
Qed.

(* through ONE encoder object, from any state of its scratch buffer: the concatenation of the
   self-contained per-command encodings *)
Theorem encode_stream_st_concat pal256 gray4 cp : forall cs s,
  exists bs s', encode_stream_st pal256 gray4 cp s cs = Ok (bs, s') /\
                encode_stream pal256 gray4 cp cs = Ok bs.
Proof.
  induction cs as [|c r IH]; intros s.
  - exists [], s. split; reflexivity.
  - destruct (encode_st_stateless pal256 gray4 cp s c) as (b & s1 & E1 & E2).
    destruct (IH s1) as (br & s2 & E3 & E4).
    exists (b ++ br), s2. cbn [encode_stream_st encode_stream].
    rewrite E1. cbn [bind fst snd]. rewrite E3. cbn [bind fst snd]. rewrite E2. cbn [bind]. rewrite E4.
    split; reflexivity.
Qed.

(* equal operation lists lead to equal terminal states, from any initial state *)
Lemma run_ops_app s a b : run_ops s (a ++ b) = run_ops (run_ops s a) b.
Proof. unfold run_ops. apply fold_left_app. Qed.

Lemma c05_stream_one_encoder_thm :
  forall (pal256 gray4 : rgba -> N), (forall c, pal256 c < 256) ->
  forall (cp : caps) (cs : list cmd) (s : enc_state),
  forallb cmd_ok cs = true -> forallb (fun c => negb (is_raw c)) cs = true ->
  exists bs s',
    encode_stream_st pal256 gray4 cp s cs = Ok (bs, s') /\
    encode_stream pal256 gray4 cp cs = Ok bs /\
    forall pre, vt_complete pre = true ->
      vt_ops (pre ++ bs) = vt_ops pre ++ flat_map (denote pal256 gray4 cp) cs /\
      forall t : tstate,
        run_ops t (vt_ops (pre ++ bs)) = run_ops (run_ops t (vt_ops pre)) (flat_map (denote pal256 gray4 cp) cs).
Proof.
  intros pal gray Hp cp cs s Hok Hr.
  destruct (encode_stream_st_concat pal gray cp cs s) as (bs & s' & E1 & E2).
  destruct (encode_stream_meaning pal gray Hp cp cs Hok Hr) as (bs' & E & _ & S).
  rewrite E2 in E. injection E as <-.
  exists bs, s'. split; [exact E1|]. split; [exact E2|]. intros pre Hpre. split; [apply S, Hpre|].
  intros t. rewrite (S pre Hpre). apply run_ops_app.
Qed.

Lemma c20_roles_opaque d gl ki fg bg ul :
  rgba_ok fg = true -> rgba_ok bg = true -> rgba_ok ul = true ->
  ca fg = 255%N -> ca bg = 255%N -> ca ul = 255%N ->
  exists bs,
    encode_c20 (mkCaps d gl ki) (FaceModify (colours_fm fg bg ul)) = Ok bs /\
    vt_complete bs = true /\
    vt_ops bs =
      [OSgr match d with
            | TrueColor => only_colours (Some (CRgb (cr fg) (cg fg) (cb fg))) (Some (CRgb (cr bg) (cg bg) (cb bg)))
                                        (Some (CRgb (cr ul) (cg ul) (cb ul)))
            | EightBit => only_colours (Some (CIdx (pal256_exact fg))) (Some (CIdx (pal256_exact bg)))
                                       (Some (CIdx (pal256_exact ul)))
            | Gray => only_colours (Some (CIdx (gray_entry (gray4_exact fg)))) (Some (CIdx (gray_entry (gray4_exact bg))))
                                   None
            end].
Proof. intros Hf Hb Hu _ _ _. apply c20_roles; assumption. Qed.

(* ---------- a failing writer: what reaches the output, and what the encoder keeps ---------- *)
Theorem encode_stw_spec pal256 gray4 cp s c b :
  exists e ok s' b' bs,
    encode_stw pal256 gray4 cp s c b = Ok (e, ok, s', b') /\
    encode pal256 gray4 cp c = Ok bs /\
    e = delivered b bs /\ ok = accepts b (length bs).
Proof.
  destruct (encode_some pal256 gray4 cp c) as [bs E].
  destruct c; cbn [encode_stw]; try (rewrite E; cbn [bind]; do 5 eexists; repeat split; reflexivity).
  - (* Face *) cbn [encode] in E. injection E as <-. unfold sgr_w. cbn [chunks_clear app].
    do 5 eexists. repeat split; reflexivity.
  - (* FaceModify *) clear E. cbn [chunks_clear app encode]. unfold sgr_w. cbn [chunks_clear app].
    destruct (fm_chunks pal256 gray4 (cp_depth cp) m) eqn:F.
    + exists [], true, [], b, []. repeat split; destruct b as [[|k]|]; reflexivity.
    + do 5 eexists. repeat split; reflexivity.
Qed.

(* after a call on a failing writer -- whatever it left in the scratch buffer -- every later command
   on this encoder object encodes exactly as on a fresh encoder *)
Lemma c05_failed_write_harmless_thm :
  forall (pal256 gray4 : rgba -> N) (cp : caps) (s : enc_state) (c : cmd) (b : budget),
  exists e ok s' b' bs,
    encode_stw pal256 gray4 cp s c b = Ok (e, ok, s', b') /\
    encode pal256 gray4 cp c = Ok bs /\
    e = delivered b bs /\ ok = accepts b (length bs) /\
    forall later : list cmd,
      exists out s'', encode_stream_st pal256 gray4 cp s' later = Ok (out, s'') /\
                      encode_stream pal256 gray4 cp later = Ok out.
Proof.
  intros pal gray cp s c b.
  destruct (encode_stw_spec pal gray cp s c b) as (e & ok & s' & b' & bs & E1 & E2 & E3 & E4).
  exists e, ok, s', b', bs. repeat split; try assumption.
  intros later. apply encode_stream_st_concat.
Qed.
