(* An independent VT / xterm control-sequence parser and interpreter, written
   from the standards and NOT from the encoder:

   - ECMA-48 5th ed. (control functions, 5.4 control sequences: parameter bytes
     3/0-3/15, intermediate bytes 2/0-2/15, final bytes 4/0-7/14; parameter
     sub-strings separated by 3/11 `;`, parts of a sub-string by 3/10 `:`;
     a leading 3/12-3/15 marks a private parameter string; 8.3.117 SGR),
   - the DEC-compatible parser state machine (P. Williams, vt100.net
     "A parser for DEC's ANSI-compatible video terminals"): ground, escape,
     CSI, DCS (hook/put/unhook), OSC, SOS/PM/APC strings, CAN/SUB/ESC anywhere,
   - XTerm Control Sequences (ctlseqs): OSC terminated by BEL or ST, DECSET/
     DECRST/DECRQM, DECSTBM, ECH/SU/SD, OSC 0/1/2/4/10/11, XTGETTCAP
     (DCS + q hex;hex ST), DECRQSS (DCS $ q .. ST), SGR incl. 38/48/58 in both
     the semicolon and the colon form, 4:n underline styles; zero/omitted
     numeric parameters of cursor/erase/scroll functions mean 1,
   - the kitty keyboard protocol (CSI = flags ; mode u, CSI > flags u,
     CSI < n u, CSI ? u).

   The terminal is in UTF-8 mode: input bytes are decoded first (Utf8.v) and
   C1 controls are recognised as decoded code points U+0080..U+009F.

   Executable definitions only; facts are in VTProofs.v. *)
From Coq Require Import List NArith Bool.
From SNT Require Import Encoder.Decimal Encoder.Utf8.
Import ListNotations.
Local Open Scope N_scope.

(* ====================================================================== *)
(* 1. Tokeniser                                                            *)
(* ====================================================================== *)

Inductive token :=
| TPrint (c : N)                                  (* graphic character *)
| TExec (c : N)                                   (* C0 / C1 control *)
| TEsc (ints : list N) (final : N)                (* ESC I.. F *)
| TCsi (params ints : list N) (final : N)         (* CSI P.. I.. F, raw parameter bytes *)
| TDcs (params ints : list N) (final : N) (data : list N)   (* DCS P.. I.. F data ST *)
| TOsc (data : list N).                           (* OSC data (BEL | ST) *)

(* accumulators are kept reversed *)
Inductive pstate :=
| SGround
| SEsc (ints : list N)
| SCsi (params ints : list N)
| SCsiIgnore
| SDcs (params ints : list N)
| SDcsPass (params ints : list N) (final : N) (data : list N)
| SDcsIgnore
| SOsc (data : list N)
| SString.                                        (* SOS / PM / APC: ignored until ST *)

Definition is_c0 (c : N) : bool := c <? 32.
Definition is_c1 (c : N) : bool := between 128 c 159.

(* leaving a string state through ST / ESC / BEL completes the string *)
Definition finish (s : pstate) : list token :=
  match s with
  | SOsc d => [TOsc (rev d)]
  | SDcsPass p i f d => [TDcs (rev p) (rev i) f (rev d)]
  | _ => []
  end.

Definition feed (s : pstate) (c : N) : pstate * list token :=
  (* --- transitions from anywhere --- *)
  if c =? 27 then (SEsc [], finish s)
  else if (c =? 24) || (c =? 26) then (SGround, [TExec c])          (* CAN, SUB cancel *)
  else if is_c1 c then
    if c =? 144 then (SDcs [] [], finish s)                          (* DCS *)
    else if c =? 155 then (SCsi [] [], finish s)                     (* CSI *)
    else if c =? 157 then (SOsc [], finish s)                        (* OSC *)
    else if (c =? 152) || (c =? 158) || (c =? 159) then (SString, finish s)   (* SOS PM APC *)
    else if c =? 156 then (SGround, finish s)                        (* ST *)
    else (SGround, [TExec c])
  else
  match s with
  | SGround =>
      if is_c0 c then (SGround, [TExec c])
      else if c =? 127 then (SGround, [])
      else (SGround, [TPrint c])
  | SEsc ints =>
      if is_c0 c then (s, [TExec c])
      else if c =? 127 then (s, [])
      else if between 32 c 47 then (SEsc (c :: ints), [])
      else if between 48 c 126 then
        match ints with
        | [] =>
            if c =? 80 then (SDcs [] [], [])                          (* ESC P *)
            else if c =? 91 then (SCsi [] [], [])                     (* ESC [ *)
            else if c =? 93 then (SOsc [], [])                        (* ESC ] *)
            else if (c =? 88) || (c =? 94) || (c =? 95) then (SString, [])   (* ESC X ^ _ *)
            else (SGround, [TEsc [] c])
        | _ => (SGround, [TEsc (rev ints) c])
        end
      else (SGround, [TPrint c])
  | SCsi ps ints =>
      if is_c0 c then (s, [TExec c])
      else if c =? 127 then (s, [])
      else if between 48 c 63 then
        match ints with
        | [] => (SCsi (c :: ps) [], [])
        | _ => (SCsiIgnore, [])                                       (* parameter after intermediate *)
        end
      else if between 32 c 47 then (SCsi ps (c :: ints), [])
      else if between 64 c 126 then (SGround, [TCsi (rev ps) (rev ints) c])
      else (SCsiIgnore, [])
  | SCsiIgnore =>
      if is_c0 c then (s, [TExec c])
      else if between 64 c 126 then (SGround, [])
      else (s, [])
  | SDcs ps ints =>
      if is_c0 c then (s, [])
      else if c =? 127 then (s, [])
      else if between 48 c 63 then
        match ints with
        | [] => (SDcs (c :: ps) [], [])
        | _ => (SDcsIgnore, [])
        end
      else if between 32 c 47 then (SDcs ps (c :: ints), [])
      else if between 64 c 126 then (SDcsPass ps ints c [], [])       (* hook *)
      else (SDcsIgnore, [])
  | SDcsPass ps ints f d =>
      if c =? 127 then (s, []) else (SDcsPass ps ints f (c :: d), [])  (* put *)
  | SDcsIgnore => (s, [])
  | SOsc d =>
      if c =? 7 then (SGround, finish s)                              (* BEL terminates (xterm) *)
      else if is_c0 c then (s, [])
      else (SOsc (c :: d), [])
  | SString => (s, [])
  end.

(* --- byte level: UTF-8 decoding in front of the state machine --- *)
Definition vstate : Type := (ustate * pstate)%type.
Definition vinit : vstate := (UStart, SGround).

Fixpoint feed_all (s : pstate) (cs : list N) : pstate * list token :=
  match cs with
  | [] => (s, [])
  | c :: r =>
      let '(s1, t1) := feed s c in
      let '(s2, t2) := feed_all s1 r in
      (s2, t1 ++ t2)
  end.

Definition vstep (v : vstate) (b : N) : vstate * list token :=
  let '(u, s) := v in
  let '(u', cs) := ustep u b in
  let '(s', ts) := feed_all s cs in
  ((u', s'), ts).

Fixpoint vrun (v : vstate) (bs : list N) : vstate * list token :=
  match bs with
  | [] => (v, [])
  | b :: r =>
      let '(v1, t1) := vstep v b in
      let '(v2, t2) := vrun v1 r in
      (v2, t1 ++ t2)
  end.

Definition vt_parse (bs : list N) : list token := snd (vrun vinit bs).
Definition vt_final (bs : list N) : vstate := fst (vrun vinit bs).

Definition vstate_eqb (a b : vstate) : bool :=
  match a, b with
  | (UStart, SGround), (UStart, SGround) => true
  | _, _ => false
  end.
(* the parser is back in its initial state: nothing of `bs` is pending *)
Definition vt_complete (bs : list N) : bool := vstate_eqb (vt_final bs) vinit.

(* ====================================================================== *)
(* 2. Parameters                                                           *)
(* ====================================================================== *)

(* one numeric parameter: empty = default *)
Definition parse_opt (bs : list N) : option (option N) :=
  match bs with
  | [] => Some None
  | _ => match parse_dec bs with Some n => Some (Some n) | None => None end
  end.

Fixpoint sequence {A} (l : list (option A)) : option (list A) :=
  match l with
  | [] => Some []
  | None :: _ => None
  | Some a :: r => match sequence r with Some t => Some (a :: t) | None => None end
  end.

(* a parameter string: sub-strings separated by `;`, their parts by `:` *)
Definition param := list (option N).
Definition parse_params (bs : list N) : option (list param) :=
  sequence (map (fun g => sequence (map parse_opt (split 58 g))) (split 59 bs)).

(* leading private marker 3/12..3/15 *)
Definition split_marker (bs : list N) : option N * list N :=
  match bs with
  | b :: r => if between 60 b 63 then (Some b, r) else (None, bs)
  | [] => (None, [])
  end.

(* a parameter without sub-parameters *)
Definition simple (p : param) : option (option N) :=
  match p with [v] => Some v | _ => None end.
Definition simples (ps : list param) : option (list (option N)) := sequence (map simple ps).

Definition dflt (d : N) (v : option N) : N := match v with Some n => n | None => d end.
(* xterm: omitted or zero means one *)
Definition one_if_default (v : option N) : N :=
  match v with Some 0 | None => 1 | Some n => n end.
Definition nonzero (v : option N) : option N :=
  match v with Some 0 | None => None | Some n => Some n end.

(* ====================================================================== *)
(* 3. Graphic rendition                                                    *)
(* ====================================================================== *)

Inductive colour := CDefault | CIdx (n : N) | CRgb (r g b : N).
Inductive intensity := INormal | IBold | IFaint.
Inductive uline := LNone | LSingle | LDouble | LCurly | LDotted | LDashed.

Record rendition := mkRend {
  r_intensity : intensity; r_italic : bool; r_uline : uline; r_blink : bool;
  r_inverse : bool; r_invisible : bool; r_strike : bool;
  r_fg : colour; r_bg : colour; r_ulc : colour }.

(* An SGR sequence denotes a transformer of renditions.  Every SGR parameter
   overwrites some aspects with constants and leaves the others alone, so a
   transformer is a record of optional new values (None = aspect untouched).
   `t_bad` records a parameter this interpreter does not know. *)
Record rtrans := mkRT {
  t_intensity : option intensity; t_italic : option bool; t_uline : option uline;
  t_blink : option bool; t_inverse : option bool; t_invisible : option bool;
  t_strike : option bool;
  t_fg : option colour; t_bg : option colour; t_ulc : option colour;
  t_bad : bool }.

Definition rt_id : rtrans :=
  mkRT None None None None None None None None None None false.
Definition rt_reset : rtrans :=
  mkRT (Some INormal) (Some false) (Some LNone) (Some false) (Some false) (Some false)
       (Some false) (Some CDefault) (Some CDefault) (Some CDefault) false.

Definition pick {A} (o : option A) (a : A) : A := match o with Some x => x | None => a end.
Definition rt_apply (t : rtrans) (r : rendition) : rendition :=
  mkRend (pick (t_intensity t) (r_intensity r)) (pick (t_italic t) (r_italic r))
         (pick (t_uline t) (r_uline r)) (pick (t_blink t) (r_blink r))
         (pick (t_inverse t) (r_inverse r)) (pick (t_invisible t) (r_invisible r))
         (pick (t_strike t) (r_strike r))
         (pick (t_fg t) (r_fg r)) (pick (t_bg t) (r_bg r)) (pick (t_ulc t) (r_ulc r)).

Definition set_intensity v t := mkRT (Some v) (t_italic t) (t_uline t) (t_blink t) (t_inverse t) (t_invisible t) (t_strike t) (t_fg t) (t_bg t) (t_ulc t) (t_bad t).
Definition set_italic v t := mkRT (t_intensity t) (Some v) (t_uline t) (t_blink t) (t_inverse t) (t_invisible t) (t_strike t) (t_fg t) (t_bg t) (t_ulc t) (t_bad t).
Definition set_uline v t := mkRT (t_intensity t) (t_italic t) (Some v) (t_blink t) (t_inverse t) (t_invisible t) (t_strike t) (t_fg t) (t_bg t) (t_ulc t) (t_bad t).
Definition set_blink v t := mkRT (t_intensity t) (t_italic t) (t_uline t) (Some v) (t_inverse t) (t_invisible t) (t_strike t) (t_fg t) (t_bg t) (t_ulc t) (t_bad t).
Definition set_inverse v t := mkRT (t_intensity t) (t_italic t) (t_uline t) (t_blink t) (Some v) (t_invisible t) (t_strike t) (t_fg t) (t_bg t) (t_ulc t) (t_bad t).
Definition set_invisible v t := mkRT (t_intensity t) (t_italic t) (t_uline t) (t_blink t) (t_inverse t) (Some v) (t_strike t) (t_fg t) (t_bg t) (t_ulc t) (t_bad t).
Definition set_strike v t := mkRT (t_intensity t) (t_italic t) (t_uline t) (t_blink t) (t_inverse t) (t_invisible t) (Some v) (t_fg t) (t_bg t) (t_ulc t) (t_bad t).
Definition set_fg v t := mkRT (t_intensity t) (t_italic t) (t_uline t) (t_blink t) (t_inverse t) (t_invisible t) (t_strike t) (Some v) (t_bg t) (t_ulc t) (t_bad t).
Definition set_bg v t := mkRT (t_intensity t) (t_italic t) (t_uline t) (t_blink t) (t_inverse t) (t_invisible t) (t_strike t) (t_fg t) (Some v) (t_ulc t) (t_bad t).
Definition set_ulc v t := mkRT (t_intensity t) (t_italic t) (t_uline t) (t_blink t) (t_inverse t) (t_invisible t) (t_strike t) (t_fg t) (t_bg t) (Some v) (t_bad t).
Definition set_bad t := mkRT (t_intensity t) (t_italic t) (t_uline t) (t_blink t) (t_inverse t) (t_invisible t) (t_strike t) (t_fg t) (t_bg t) (t_ulc t) true.

Inductive crole := KFg | KBg | KUl.
Definition set_colour (k : crole) (c : colour) (t : rtrans) : rtrans :=
  match k with KFg => set_fg c t | KBg => set_bg c t | KUl => set_ulc c t end.

Definition byte_val (v : option N) : option N :=
  match v with Some n => if n <? 256 then Some n else None | None => None end.

(* colon form: the parts after 38 / 48 / 58 inside one parameter
     5 : n            2 : r : g : b          2 : colourspace-id : r : g : b *)
Definition colon_colour (parts : list (option N)) : option colour :=
  match parts with
  | [Some 5; n] => match byte_val n with Some n => Some (CIdx n) | None => None end
  | [Some 2; r; g; b] | [Some 2; _; r; g; b] =>
      match byte_val r, byte_val g, byte_val b with
      | Some r, Some g, Some b => Some (CRgb r g b)
      | _, _, _ => None
      end
  | _ => None
  end.

(* semicolon form (xterm): `38;5;n` consumes two further parameters,
   `38;2;r;g;b` consumes exactly four; returns the colour and the rest *)
Definition semi_colour (rest : list param) : option (colour * list param) :=
  match rest with
  | [Some 5] :: [n] :: rest' =>
      match byte_val n with Some n => Some (CIdx n, rest') | None => None end
  | [Some 2] :: [r] :: [g] :: [b] :: rest' =>
      match byte_val r, byte_val g, byte_val b with
      | Some r, Some g, Some b => Some (CRgb r g b, rest')
      | _, _, _ => None
      end
  | _ => None
  end.

Definition uline_of (n : N) : option uline :=
  match n with
  | 0 => Some LNone | 1 => Some LSingle | 2 => Some LDouble | 3 => Some LCurly
  | 4 => Some LDotted | 5 => Some LDashed | _ => None
  end.

(* 0: everything back to default *)
Definition do_reset (t : rtrans) : rtrans :=
  mkRT (Some INormal) (Some false) (Some LNone) (Some false) (Some false) (Some false)
       (Some false) (Some CDefault) (Some CDefault) (Some CDefault) (t_bad t).

(* one parameter without sub-parameters, other than 38/48/58 (ECMA-48 8.3.117, xterm) *)
Definition sgr_simple (n : N) (t : rtrans) : rtrans :=
  if n =? 0 then do_reset t
  else if n =? 1 then set_intensity IBold t
  else if n =? 2 then set_intensity IFaint t
  else if n =? 3 then set_italic true t
  else if n =? 4 then set_uline LSingle t
  else if (n =? 5) || (n =? 6) then set_blink true t
  else if n =? 7 then set_inverse true t
  else if n =? 8 then set_invisible true t
  else if n =? 9 then set_strike true t
  else if n =? 21 then set_uline LDouble t
  else if n =? 22 then set_intensity INormal t
  else if n =? 23 then set_italic false t
  else if n =? 24 then set_uline LNone t
  else if n =? 25 then set_blink false t
  else if n =? 27 then set_inverse false t
  else if n =? 28 then set_invisible false t
  else if n =? 29 then set_strike false t
  else if between 30 n 37 then set_fg (CIdx (n - 30)) t
  else if n =? 39 then set_fg CDefault t
  else if between 40 n 47 then set_bg (CIdx (n - 40)) t
  else if n =? 49 then set_bg CDefault t
  else if n =? 59 then set_ulc CDefault t
  else if between 90 n 97 then set_fg (CIdx (n - 82)) t
  else if between 100 n 107 then set_bg (CIdx (n - 92)) t
  else set_bad t.

Definition ext_role (n : N) : option crole :=
  if n =? 38 then Some KFg else if n =? 48 then Some KBg else if n =? 58 then Some KUl else None.

Fixpoint sgr_run (ps : list param) (t : rtrans) : rtrans :=
  match ps with
  | [] => t
  | p :: rest =>
      match p with
      | [] => sgr_run rest (set_bad t)
      | [v] =>
          let n := dflt 0 v in
          match ext_role n with
          | Some k =>
              (* semicolon form: the colour description is in the following parameters *)
              match rest with
              | [Some 5] :: [i] :: rest' =>
                  match byte_val i with
                  | Some i => sgr_run rest' (set_colour k (CIdx i) t)
                  | None => sgr_run rest' (set_bad t)
                  end
              | [Some 2] :: [r] :: [g] :: [b] :: rest' =>
                  match byte_val r, byte_val g, byte_val b with
                  | Some r, Some g, Some b => sgr_run rest' (set_colour k (CRgb r g b) t)
                  | _, _, _ => sgr_run rest' (set_bad t)
                  end
              | _ => sgr_run rest (set_bad t)
              end
          | None => sgr_run rest (sgr_simple n t)
          end
      | Some n :: parts =>
          match ext_role n with
          | Some k =>
              match colon_colour parts with
              | Some c => sgr_run rest (set_colour k c t)
              | None => sgr_run rest (set_bad t)
              end
          | None =>
              if n =? 4 then
                match parts with
                | [Some s] =>
                    match uline_of s with
                    | Some u => sgr_run rest (set_uline u t)
                    | None => sgr_run rest (set_bad t)
                    end
                | _ => sgr_run rest (set_bad t)
                end
              else sgr_run rest (set_bad t)
          end
      | None :: _ => sgr_run rest (set_bad t)
      end
  end.

Definition sgr_trans (ps : list param) : rtrans := sgr_run ps rt_id.

(* ====================================================================== *)
(* 4. Operations                                                           *)
(* ====================================================================== *)

(* X colour specification (XParseColor): `#` + 3 h hex digits (h = 1..4 per
   channel) or `rgb:` h/h/h with 1..4 hex digits each; `?` asks for the value *)
Inductive cspec :=
| CsQuery
| CsSharp (digits : N) (r g b : N)
| CsRgbI (r g b : list N)
| CsBad.

Inductive op :=
| OPrint (c : N)
| OExec (c : N)
| OCup (row col : N)                   (* 1-based *)
| OCuu (n : N) | OCud (n : N) | OCuf (n : N) | OCub (n : N)
| OEd (n : N) | OEl (n : N) | OEch (n : N)
| OSu (n : N) | OSd (n : N)
| ODecstbm (top bottom : option N)     (* None = default margin *)
| ODecset (m : N) | ODecrst (m : N) | ODecrqm (m : N)
| OSm (m : N) | ORm (m : N)
| OSgr (t : rtrans)
| ODsr (n : N)
| ODa1
| ODecsc | ODecrc | ORis
| ODecrqss (what : list N)
| OXtgettcap (names : list (list N))
| OTitle (which : N) (text : list N)   (* 0 icon+title, 1 icon, 2 title *)
| OPalette (index : N) (spec : cspec)  (* OSC 4 *)
| ODynColour (which : N) (spec : cspec)   (* OSC 10 foreground, 11 background, .. *)
| OKittySet (flags mode : N)
| OKittyPush (flags : N)
| OKittyPop (n : N)
| OKittyQuery
| OUnknown (t : token).

Fixpoint hex_all (bs : list N) : option (list N) :=
  match bs with
  | [] => Some []
  | b :: r => match hex_val b, hex_all r with Some v, Some t => Some (v :: t) | _, _ => None end
  end.
Definition hex_num (vs : list N) : N := fold_left (fun a d => a * 16 + d) vs 0.

Definition parse_cspec (bs : list N) : cspec :=
  match bs with
  | [63] => CsQuery
  | 35 :: hs =>
      match hex_all hs with
      | Some vs =>
          let n := length vs in
          let h := Nat.div n 3 in
          if (Nat.eqb (Nat.modulo n 3) 0) && (Nat.leb 1 h) && (Nat.leb h 4) then
            CsSharp (N.of_nat h) (hex_num (firstn h vs)) (hex_num (firstn h (skipn h vs)))
                    (hex_num (skipn (h + h) vs))
          else CsBad
      | None => CsBad
      end
  | 114 :: 103 :: 98 :: 58 :: rest =>
      match split 47 rest with
      | [r; g; b] =>
          let ok x := match hex_all x with
                      | Some v => (Nat.leb 1 (length v)) && (Nat.leb (length v) 4)
                      | None => false end in
          match hex_all r, hex_all g, hex_all b with
          | Some r', Some g', Some b' => if ok r && ok g && ok b then CsRgbI r' g' b' else CsBad
          | _, _, _ => CsBad
          end
      | _ => CsBad
      end
  | _ => CsBad
  end.

(* OSC 4 ; index ; spec [; index ; spec ..] *)
Fixpoint palette_ops (fields : list (list N)) : option (list op) :=
  match fields with
  | [] => Some []
  | i :: s :: rest =>
      match parse_dec i, palette_ops rest with
      | Some i, Some t => Some (OPalette i (parse_cspec s) :: t)
      | _, _ => None
      end
  | _ => None
  end.

(* text after the first `;` *)
Fixpoint cut_semicolon (bs ps : list N) : list N * option (list N) :=
  match bs with
  | [] => (rev ps, None)
  | b :: r => if b =? 59 then (rev ps, Some r) else cut_semicolon r (b :: ps)
  end.

Definition interp_osc (tok : token) (data : list N) : list op :=
  match cut_semicolon data [] with
  | (ps, Some text) =>
      match parse_dec ps with
      | Some 0 => [OTitle 0 text]
      | Some 1 => [OTitle 1 text]
      | Some 2 => [OTitle 2 text]
      | Some 4 =>
          match palette_ops (split 59 text) with
          | Some (o :: l) => o :: l
          | _ => [OUnknown tok]
          end
      | Some n =>
          if between 10 n 19 then
            match split 59 text with
            | [s] => [ODynColour n (parse_cspec s)]
            | _ => [OUnknown tok]        (* several colours in one request: not modelled *)
            end
          else [OUnknown tok]
      | None => [OUnknown tok]
      end
  | _ => [OUnknown tok]
  end.

Definition interp_dcs (tok : token) (ps ints : list N) (final : N) (data : list N) : list op :=
  match ps, ints, final with
  | [], [36], 113 => [ODecrqss data]                       (* DCS $ q Pt ST *)
  | [], [43], 113 =>                                        (* DCS + q Pt ST, names in hex *)
      (* Pt = hex-encoded names separated by `;`: an empty Pt is ONE empty name *)
      match sequence (map unhex (split 59 data)) with
      | Some names => [OXtgettcap names]
      | None => [OUnknown tok]
      end
  | _, _, _ => [OUnknown tok]
  end.

Definition one_param (ps : list (option N)) : option (option N) :=
  match ps with [v] => Some v | _ => None end.

Definition csi_dispatch (tok : token) (marker : option N) (params : list param) (ints : list N) (final : N) : list op :=
    match marker, ints with
    | None, [] =>
        if final =? 109 then [OSgr (sgr_trans params)]      (* m: SGR, sub-parameters allowed *)
        else
        match simples params with
        | None => [OUnknown tok]
        | Some vs =>
          match one_param vs with
          | Some v =>
              if final =? 65 then [OCuu (one_if_default v)]
              else if final =? 66 then [OCud (one_if_default v)]
              else if final =? 67 then [OCuf (one_if_default v)]
              else if final =? 68 then [OCub (one_if_default v)]
              else if (final =? 72) || (final =? 102) then [OCup (one_if_default v) 1]
              else if final =? 74 then (if dflt 0 v <=? 3 then [OEd (dflt 0 v)] else [OUnknown tok])
              else if final =? 75 then (if dflt 0 v <=? 2 then [OEl (dflt 0 v)] else [OUnknown tok])
              else if final =? 88 then [OEch (one_if_default v)]
              else if final =? 83 then [OSu (one_if_default v)]
              else if final =? 84 then [OSd (one_if_default v)]
              else if final =? 114 then [ODecstbm (nonzero v) None]
              else if final =? 110 then [ODsr (dflt 0 v)]
              else if final =? 99 then (if dflt 0 v =? 0 then [ODa1] else [OUnknown tok])
              else if final =? 104 then [OSm (dflt 0 v)]
              else if final =? 108 then [ORm (dflt 0 v)]
              else [OUnknown tok]
          | None =>
              match vs with
              | [a; b] =>
                  if (final =? 72) || (final =? 102) then [OCup (one_if_default a) (one_if_default b)]
                  else if final =? 114 then [ODecstbm (nonzero a) (nonzero b)]
                  else [OUnknown tok]
              | _ =>
                  if final =? 104 then map (fun v => OSm (dflt 0 v)) vs
                  else if final =? 108 then map (fun v => ORm (dflt 0 v)) vs
                  else [OUnknown tok]
              end
          end
        end
    | Some 63, [] =>                                         (* CSI ? .. *)
        match simples params with
        | None => [OUnknown tok]
        | Some vs =>
            if final =? 104 then map (fun v => ODecset (dflt 0 v)) vs
            else if final =? 108 then map (fun v => ODecrst (dflt 0 v)) vs
            else if final =? 117 then
              match vs with [None] => [OKittyQuery] | _ => [OUnknown tok] end
            else [OUnknown tok]
        end
    | Some 63, [36] =>                                       (* CSI ? Ps $ p : DECRQM *)
        match simples params with
        | Some [v] => if final =? 112 then [ODecrqm (dflt 0 v)] else [OUnknown tok]
        | _ => [OUnknown tok]
        end
    | Some 61, [] =>                                         (* CSI = flags ; mode u *)
        match simples params with
        | Some [f] => if final =? 117 then [OKittySet (dflt 0 f) 1] else [OUnknown tok]
        | Some [f; m] => if final =? 117 then [OKittySet (dflt 0 f) (dflt 1 m)] else [OUnknown tok]
        | _ => [OUnknown tok]
        end
    | Some 62, [] =>                                         (* CSI > flags u *)
        match simples params with
        | Some [f] => if final =? 117 then [OKittyPush (dflt 0 f)] else [OUnknown tok]
        | _ => [OUnknown tok]
        end
    | Some 60, [] =>                                         (* CSI < n u *)
        match simples params with
        | Some [n] => if final =? 117 then [OKittyPop (one_if_default n)] else [OUnknown tok]
        | _ => [OUnknown tok]
        end
    | _, _ => [OUnknown tok]
    end.

Definition interp_csi (tok : token) (raw ints : list N) (final : N) : list op :=
  let '(marker, body) := split_marker raw in
  match parse_params body with
  | None => [OUnknown tok]
  | Some params => csi_dispatch tok marker params ints final
  end.

Definition interp_token (tok : token) : list op :=
  match tok with
  | TPrint c => [OPrint c]
  | TExec c => [OExec c]
  | TEsc [] 55 => [ODecsc]                                   (* ESC 7 *)
  | TEsc [] 56 => [ODecrc]                                   (* ESC 8 *)
  | TEsc [] 99 => [ORis]                                     (* ESC c *)
  | TEsc [] 92 => []                                         (* ESC \ : ST, closes a string *)
  | TEsc _ _ => [OUnknown tok]
  | TCsi raw ints final => interp_csi tok raw ints final
  | TDcs ps ints final data => interp_dcs tok ps ints final data
  | TOsc data => interp_osc tok data
  end.

Definition interp (ts : list token) : list op := flat_map interp_token ts.

(* what a byte stream does *)
Definition vt_ops (bs : list N) : list op := interp (vt_parse bs).

(* ---------- decidable equality of operations (for the executable checks) ---------- *)
Definition option_eq_dec {A} (d : forall a b : A, {a = b} + {a <> b}) :
  forall a b : option A, {a = b} + {a <> b}.
Proof. decide equality. Defined.
Definition colour_eq_dec : forall a b : colour, {a = b} + {a <> b}.
Proof. decide equality; apply N.eq_dec. Defined.
Definition intensity_eq_dec : forall a b : intensity, {a = b} + {a <> b}.
Proof. decide equality. Defined.
Definition uline_eq_dec : forall a b : uline, {a = b} + {a <> b}.
Proof. decide equality. Defined.
Definition rtrans_eq_dec : forall a b : rtrans, {a = b} + {a <> b}.
Proof.
  decide equality; try apply Bool.bool_dec;
    apply option_eq_dec; first [apply colour_eq_dec | apply Bool.bool_dec | apply intensity_eq_dec | apply uline_eq_dec].
Defined.
Definition nlist_eq_dec : forall a b : list N, {a = b} + {a <> b} := list_eq_dec N.eq_dec.
Definition token_eq_dec : forall a b : token, {a = b} + {a <> b}.
Proof. decide equality; first [apply N.eq_dec | apply nlist_eq_dec]. Defined.
Definition cspec_eq_dec : forall a b : cspec, {a = b} + {a <> b}.
Proof. decide equality; first [apply N.eq_dec | apply nlist_eq_dec]. Defined.
Definition op_eq_dec : forall a b : op, {a = b} + {a <> b}.
Proof.
  decide equality;
    first [apply N.eq_dec | apply nlist_eq_dec | apply (option_eq_dec N.eq_dec) | apply rtrans_eq_dec
          | apply (list_eq_dec nlist_eq_dec) | apply cspec_eq_dec | apply token_eq_dec].
Defined.
Definition ops_eqb (a b : list op) : bool := if list_eq_dec op_eq_dec a b then true else false.
