(* decode (encode c) = c for every Unicode scalar value: a complete sweep of
   the 21-bit code space by vm_compute, lifted by tree_all_sound. *)
From Coq Require Import List NArith ZArith Bool Lia ZifyBool ZifyN.
From SNT Require Import Encoder.Utf8.
Import ListNotations.
Local Open Scope N_scope.

Fixpoint urun (u : ustate) (bs : list N) : ustate * list N :=
  match bs with
  | [] => (u, [])
  | b :: r =>
      let '(u1, c1) := ustep u b in
      let '(u2, c2) := urun u1 r in
      (u2, c1 ++ c2)
  end.

Ltac Zify.zify_post_hook ::= Z.div_mod_to_equations.
Arguments N.add : simpl never. Arguments N.sub : simpl never. Arguments N.mul : simpl never.
Arguments N.div : simpl never. Arguments N.modulo : simpl never.
Arguments N.eqb : simpl never. Arguments N.ltb : simpl never. Arguments N.leb : simpl never.

(* decide every `if` by arithmetic; impossible branches are closed by lia *)
Ltac ifs :=
  repeat match goal with
         | |- context [if ?c then _ else _] =>
             let E := fresh "E" in destruct c eqn:E; try (exfalso; lia)
         end.

Lemma ucont_last acc r lo hi :
  lo <= 128 + r <= hi -> ustep (UMore 1 acc lo hi) (128 + r) = (UStart, [acc * 64 + r]).
Proof.
  intros H. unfold ustep, between. ifs. do 3 f_equal. lia.
Qed.

Lemma ucont_more k acc r lo hi :
  lo <= 128 + r <= hi ->
  ustep (UMore (S (S k)) acc lo hi) (128 + r) = (UMore (S k) (acc * 64 + r) 128 191, []).
Proof.
  intros H. unfold ustep, between. ifs. do 2 f_equal. lia.
Qed.

Theorem utf8_roundtrip c :
  scalar_ok c = true -> urun UStart (utf8_enc c) = (UStart, [c]).
Proof.
  intros Hs. unfold scalar_ok in Hs. unfold utf8_enc.
  destruct (c <? 128) eqn:E1.
  { cbn [urun ustep]. unfold ustart. rewrite E1. reflexivity. }
  destruct (c <? 2048) eqn:E2.
  { cbn [urun]. change (ustep UStart ?b) with (ustart b). unfold ustart at 1. unfold between. ifs.
    rewrite ucont_last by lia. cbn [app]. do 2 f_equal. lia. }
  destruct (c <? 65536) eqn:E3.
  { cbn [urun]. change (ustep UStart ?b) with (ustart b). unfold ustart at 1. unfold between. ifs.
    all: rewrite ucont_more by lia; rewrite ucont_last by lia; cbn [app]; do 2 f_equal; lia. }
  cbn [urun]. change (ustep UStart ?b) with (ustart b). unfold ustart at 1. unfold between. ifs.
  all: rewrite ucont_more by lia; rewrite ucont_more by lia; rewrite ucont_last by lia;
    cbn [app]; do 2 f_equal; lia.
Qed.

Lemma urun_app : forall bs1 bs2 u,
  urun u (bs1 ++ bs2) =
  let '(u1, c1) := urun u bs1 in let '(u2, c2) := urun u1 bs2 in (u2, c1 ++ c2).
Proof.
  induction bs1 as [|b r IH]; intros bs2 u.
  - cbn. destruct (urun u bs2). reflexivity.
  - cbn [app urun]. destruct (ustep u b) as [u1 c1]. rewrite IH.
    destruct (urun u1 r) as [u2 c2]. destruct (urun u2 bs2) as [u3 c3].
    rewrite app_assoc. reflexivity.
Qed.

(* a whole string *)
Theorem utf8_list_roundtrip cs :
  forallb scalar_ok cs = true -> urun UStart (utf8_list cs) = (UStart, cs).
Proof.
  induction cs as [|c cs IH]; intros H; [reflexivity|].
  cbn [forallb] in H. apply andb_prop in H. destruct H as [Hc Hcs].
  unfold utf8_list in *. cbn [flat_map]. rewrite urun_app, (utf8_roundtrip c Hc), (IH Hcs). reflexivity.
Qed.
