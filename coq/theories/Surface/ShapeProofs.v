(* Shapes obtained by any chain of view/transpose from an H x W root are
   faithful representations of matrix windows: offsets are in bounds and
   injective, reads/iteration/mutation touch exactly the window. *)
From Coq Require Import List Arith Bool ZArith Lia.
From SNT Require Import Surface.Bounds Surface.BoundsProofs Surface.Shape.
Import ListNotations.

(* ---------- representation relation ---------- *)
Definition Rep (H W : nat) (sh : shape) (w : window) : Prop :=
  sh_height sh = w_h w /\ sh_width sh = w_w w /\
  ((w_h w = 0 /\ w_w w = 0) \/
   (sh_start sh = w_r0 w * W + w_c0 w /\
    if w_t w
    then sh_rstride sh = 1 /\ sh_cstride sh = W /\ w_r0 w + w_w w <= H /\ w_c0 w + w_h w <= W
    else sh_rstride sh = W /\ sh_cstride sh = 1 /\ w_r0 w + w_h w <= H /\ w_c0 w + w_w w <= W)).

Definition valid_bounds (dim : nat) (b : option (nat * nat)) : Prop :=
  match b with Some (a, e) => a < e <= dim | None => True end.

Lemma rep_root H W : Rep H W (of_size H W) (win_root H W).
Proof. unfold Rep, of_size, win_root; cbn. repeat split; auto. right. repeat split; lia. Qed.

Lemma rep_zero H W : Rep H W zero_shape win_empty.
Proof. unfold Rep, zero_shape, win_empty; cbn. repeat split; auto. Qed.

Lemma rep_view H W sh w rows cols :
  Rep H W sh w -> valid_bounds (w_h w) rows -> valid_bounds (w_w w) cols ->
  Rep H W (view sh rows cols) (win_view w rows cols).
Proof.
  intros (Hh & Hw & Hrep) Hr Hc. unfold view, win_view.
  destruct cols as [[cs ce]|]; [|apply rep_zero].
  destruct rows as [[rs re]|]; [|apply rep_zero].
  cbn [valid_bounds] in *.
  destruct Hrep as [[H0 W0]|[Hst Hrest]]; [lia|].
  destruct (w_t w) eqn:Ht.
  - destruct Hrest as (Hrs & Hcs & HH & HW).
    unfold Rep; cbn. repeat split; auto. right. unfold offset.
    rewrite Hst, Hrs, Hcs. repeat split; try lia.
  - destruct Hrest as (Hrs & Hcs & HH & HW).
    unfold Rep; cbn. repeat split; auto. right. unfold offset.
    rewrite Hst, Hrs, Hcs. repeat split; try lia.
Qed.

Lemma rep_transpose H W sh w : Rep H W sh w -> Rep H W (transpose sh) (win_transpose w).
Proof.
  intros (Hh & Hw & Hrep). unfold Rep, transpose, win_transpose; cbn.
  repeat split; auto.
  destruct Hrep as [[H0 W0]|[Hst Hrest]]; [left; auto|right]. split; [exact Hst|].
  destruct (w_t w); cbn; destruct Hrest as (? & ? & ? & ?); repeat split; auto.
Qed.

(* selectors: the model of view_bounds is the Python slice and yields valid bounds *)
Lemma resolve_py dim s : (Z.of_nat dim <= i64_max)%Z ->
  sel_in I64 s = true -> resolve dim s = py_resolve dim s.
Proof.
  intros Hd Hs. unfold resolve, py_resolve. rewrite view_bounds_py; auto. unfold i64_max, wide_max in *. lia.
Qed.

Lemma rep_dims H W sh w : Rep H W sh w -> w_h w <= Nat.max H W /\ w_w w <= Nat.max H W.
Proof.
  intros (_ & _ & [[-> ->]|[_ Hr]]); [lia|].
  destruct (w_t w); destruct Hr as (_ & _ & ? & ?); lia.
Qed.

Lemma py_resolve_valid dim s : valid_bounds dim (py_resolve dim s).
Proof.
  unfold py_resolve. destruct (py_slice (Z.of_nat dim) s) as [[a b]|] eqn:E; cbn; [|exact I].
  apply py_slice_range in E; lia.
Qed.

Definition op_in (o : vop) : bool :=
  match o with OpView r c => sel_in I64 r && sel_in I64 c | OpT => true end.

Lemma rep_op H W sh w o : (Z.of_nat (Nat.max H W) <= i64_max)%Z ->
  op_in o = true -> Rep H W sh w -> Rep H W (apply_op sh o) (win_op w o).
Proof.
  intros Hmax Ho Hrep. destruct o as [rs cs|]; cbn [apply_op win_op].
  - cbn in Ho. apply andb_true_iff in Ho as [Hr Hc].
    pose proof (rep_dims _ _ _ _ Hrep) as [Hdh Hdw].
    destruct Hrep as (Hh & Hw & Hrest). rewrite Hh, Hw.
    rewrite !resolve_py by (assumption || lia).
    apply rep_view; [repeat split; auto| |]; apply py_resolve_valid.
  - now apply rep_transpose.
Qed.

Theorem rep_chain H W ops : (Z.of_nat (Nat.max H W) <= i64_max)%Z -> forall sh w,
  forallb op_in ops = true -> Rep H W sh w ->
  Rep H W (apply_chain sh ops) (win_chain w ops).
Proof.
  intros Hmax. induction ops as [|o ops IH]; intros sh w Hin Hrep; cbn in *; [exact Hrep|].
  apply andb_true_iff in Hin as [Ho Hin]. apply IH; [exact Hin|]. now apply rep_op.
Qed.

(* ---------- offsets are the root indices of the window's coordinates ---------- *)
Lemma rep_offset H W sh w r c :
  Rep H W sh w -> r < w_h w -> c < w_w w ->
  offset sh r c = root_index W (win_coord w r c) /\
  fst (win_coord w r c) < H /\ snd (win_coord w r c) < W.
Proof.
  intros (Hh & Hw & Hrep) Hr Hc.
  destruct Hrep as [[H0 W0]|[Hst Hrest]]; [lia|].
  unfold offset, root_index, win_coord. rewrite Hst.
  destruct (w_t w); destruct Hrest as (-> & -> & HH & HW); cbn [fst snd]; repeat split; lia.
Qed.

Lemma root_index_lt H W p : fst p < H -> snd p < W -> root_index W p < H * W.
Proof. unfold root_index. intros. nia. Qed.

Lemma root_index_inj W p q : snd p < W -> snd q < W -> root_index W p = root_index W q -> p = q.
Proof.
  unfold root_index. destruct p as [a b], q as [c d]; cbn [fst snd]. intros Hb Hd E.
  assert (a = c) by nia. subst. f_equal. lia.
Qed.

Lemma win_coord_inj w r c r' c' : win_coord w r c = win_coord w r' c' -> r = r' /\ c = c'.
Proof. unfold win_coord. destruct (w_t w); intros [= ? ?]; lia. Qed.

(* the memory-safety obligation of SurfaceMutIter: in-bounds and pairwise distinct *)
Theorem rep_good H W sh w :
  Rep H W sh w ->
  (forall r c, r < sh_height sh -> c < sh_width sh -> offset sh r c < H * W) /\
  (forall r c r' c', r < sh_height sh -> c < sh_width sh -> r' < sh_height sh -> c' < sh_width sh ->
     offset sh r c = offset sh r' c' -> r = r' /\ c = c').
Proof.
  intros Hrep. pose proof Hrep as (Hh & Hw & _). rewrite Hh, Hw. split.
  - intros r c Hr Hc. destruct (rep_offset _ _ _ _ r c Hrep Hr Hc) as (-> & ? & ?).
    now apply root_index_lt.
  - intros r c r' c' Hr Hc Hr' Hc' E.
    destruct (rep_offset _ _ _ _ r c Hrep Hr Hc) as (E1 & ? & ?).
    destruct (rep_offset _ _ _ _ r' c' Hrep Hr' Hc') as (E2 & ? & ?).
    rewrite E1, E2 in E. apply root_index_inj in E; auto. now apply win_coord_inj in E.
Qed.

(* is_empty agrees with the window being empty *)
Lemma view_nonempty_end sh rs re cs ce :
  rs < re -> cs < ce -> 0 < sh_cstride sh \/ 0 < sh_rstride sh ->
  sh_start (view sh (Some (rs, re)) (Some (cs, ce))) <= sh_end (view sh (Some (rs, re)) (Some (cs, ce))).
Proof. intros. cbn. unfold offset. nia. Qed.

(* ---------- positions and Shape::nth ---------- *)
Lemma positions_length h w : length (@positions h w) = h * w.
Proof.
  unfold positions. induction h as [|h IH]; [reflexivity|].
  rewrite seq_S, flat_map_app, app_length, IH. cbn. rewrite app_nil_r, map_length, seq_length. lia.
Qed.

Lemma positions_S h w :
  positions (S h) w = positions h w ++ map (fun c => (h, c)) (seq 0 w).
Proof. unfold positions. rewrite seq_S, flat_map_app. cbn. now rewrite app_nil_r. Qed.

Lemma div_small_iff i w h : 0 < w -> (i / w < h <-> i < h * w).
Proof.
  intros Hw. split; intros Hlt.
  - pose proof (Nat.div_mod i w ltac:(lia)). pose proof (Nat.mod_upper_bound i w ltac:(lia)). nia.
  - apply Nat.div_lt_upper_bound; lia.
Qed.

Lemma positions_nth h w i :
  nth_error (positions h w) i =
  if w =? 0 then None
  else if i / w <? h then Some (i / w, i - (i / w) * w) else None.
Proof.
  destruct (Nat.eqb_spec w 0) as [->|Hw].
  - assert (positions h 0 = []) as ->.
    { unfold positions. induction h; [reflexivity|]. rewrite seq_S, flat_map_app, IHh. reflexivity. }
    now destruct i.
  - induction h as [|h IH].
    + cbn. now destruct i.
    + rewrite positions_S.
      destruct (Nat.ltb_spec (i / w) (S h)) as [Hlt|Hge].
      * destruct (Nat.lt_ge_cases i (h * w)) as [Hi|Hi].
        -- rewrite nth_error_app1 by (rewrite positions_length; exact Hi).
           rewrite IH. apply div_small_iff in Hi; [|lia].
           apply Nat.ltb_lt in Hi. now rewrite Hi.
        -- rewrite nth_error_app2 by (rewrite positions_length; exact Hi).
           rewrite positions_length.
           assert (i < S h * w) as Hlt' by (apply div_small_iff in Hlt; lia).
           assert (i / w = h) as Hq.
           { symmetry. apply Nat.div_unique with (r := i - h * w); lia. }
           rewrite Hq.
           assert (i - h * w < w) as Hc by lia.
           rewrite nth_error_map, nth_error_nth' with (d := 0) by (rewrite seq_length; exact Hc).
           cbn. rewrite seq_nth by exact Hc. reflexivity.
      * assert (~ i < S h * w) by (rewrite <- div_small_iff; lia).
        apply nth_error_None.
        rewrite app_length, positions_length, map_length, seq_length. lia.
Qed.

Lemma nth_pos_positions sh i :
  nth_pos sh i = nth_error (positions (sh_height sh) (sh_width sh)) i.
Proof. unfold nth_pos. now rewrite positions_nth. Qed.

Lemma skipn_nth_error {A} (l : list A) i x :
  nth_error l i = Some x -> skipn i l = x :: skipn (S i) l.
Proof.
  revert i. induction l as [|a l IH]; intros [|i] E; cbn in *; try discriminate.
  - now injection E as ->.
  - now apply IH.
Qed.

Lemma NoDup_map_in {X Y} (f : X -> Y) (l : list X) :
  (forall x y, In x l -> In y l -> f x = f y -> x = y) -> NoDup l -> NoDup (map f l).
Proof.
  induction l as [|a l IH]; intros Hinj Hnd; cbn; [constructor|].
  inversion Hnd as [|? ? Hn Hnd']; subst. constructor.
  - intros Hin. apply in_map_iff in Hin as (y & E & Hy).
    assert (y = a) by (apply Hinj; [now right|now left|exact E]). subst. contradiction.
  - apply IH; auto. intros x y Hx Hy. apply Hinj; now right.
Qed.

(* ---------- iteration ---------- *)
Section WithData.
  Context {A : Type}.
  Variables (H W : nat) (sh : shape) (w : window) (data : list A).
  Hypothesis Hrep : Rep H W sh w.
  Hypothesis Hlen : H * W <= length data.

  Definition cell (p : nat * nat) : nat := offset sh (fst p) (snd p).

  Lemma in_positions p : In p (positions (sh_height sh) (sh_width sh)) ->
    fst p < sh_height sh /\ snd p < sh_width sh.
  Proof.
    unfold positions. rewrite in_flat_map. intros (r & Hr & Hp).
    apply in_map_iff in Hp as (c & <- & Hc). apply in_seq in Hr, Hc. cbn. lia.
  Qed.

  Lemma cell_in_bounds p : In p (positions (sh_height sh) (sh_width sh)) -> cell p < length data.
  Proof.
    intros Hp. apply in_positions in Hp as [Hr Hc].
    destruct (rep_good _ _ _ _ Hrep) as [Hb _]. unfold cell. specialize (Hb _ _ Hr Hc). lia.
  Qed.

  Lemma iter_from_spec : forall fuel i,
    sh_height sh * sh_width sh < fuel + i ->
    iter_from fuel i sh data =
    flat_map (fun p => match nth_error data (cell p) with Some x => [x] | None => [] end)
             (skipn i (positions (sh_height sh) (sh_width sh))).
  Proof.
    induction fuel as [|fuel IH]; intros i Hf.
    - rewrite skipn_all2 by (rewrite positions_length; lia). reflexivity.
    - cbn [iter_from]. rewrite nth_pos_positions.
      destruct (nth_error (positions (sh_height sh) (sh_width sh)) i) as [[r c]|] eqn:E.
      + rewrite (skipn_nth_error _ _ _ E). cbn [flat_map].
        assert (In (r, c) (positions (sh_height sh) (sh_width sh))) as Hin by (eapply nth_error_In; eauto).
        pose proof (cell_in_bounds _ Hin) as Hb. unfold cell in *. cbn [fst snd] in *.
        destruct (nth_error data (offset sh r c)) eqn:E2.
        * cbn [app]. f_equal. apply IH. lia.
        * apply nth_error_None in E2. lia.
      + apply nth_error_None in E. now rewrite skipn_all2.
  Qed.

  Lemma flat_some (l : list (nat * nat)) :
    (forall p, In p l -> cell p < length data) ->
    map Some (flat_map (fun p => match nth_error data (cell p) with Some x => [x] | None => [] end) l)
    = map (fun p => nth_error data (cell p)) l.
  Proof.
    induction l as [|p l IH]; intros Hb; [reflexivity|]. cbn [flat_map map].
    rewrite map_app, IH by (intros q Hq; apply Hb; now right).
    destruct (nth_error data (cell p)) eqn:E; [reflexivity|].
    apply nth_error_None in E. specialize (Hb p (or_introl eq_refl)). lia.
  Qed.

  (* iteration yields exactly height*width items: the window's cells in row-major order *)
  Theorem iter_spec :
    map Some (iter sh data) =
    map (fun p => nth_error data (cell p)) (positions (sh_height sh) (sh_width sh)).
  Proof.
    unfold iter. rewrite iter_from_spec by lia. cbn [skipn]. apply flat_some, cell_in_bounds.
  Qed.

  Corollary iter_length : length (iter sh data) = sh_height sh * sh_width sh.
  Proof.
    rewrite <- (map_length Some), iter_spec, map_length. apply positions_length.
  Qed.

  (* mutable iteration hands out exactly the window's offsets, row-major *)
  Lemma mut_offsets_from_spec : forall fuel i,
    sh_height sh * sh_width sh < fuel + i ->
    mut_offsets_from fuel i sh (length data) =
    map cell (skipn i (positions (sh_height sh) (sh_width sh))).
  Proof.
    induction fuel as [|fuel IH]; intros i Hf.
    - rewrite skipn_all2 by (rewrite positions_length; lia). reflexivity.
    - cbn [mut_offsets_from]. rewrite nth_pos_positions.
      destruct (nth_error (positions (sh_height sh) (sh_width sh)) i) as [[r c]|] eqn:E.
      + rewrite (skipn_nth_error _ _ _ E). cbn [map].
        assert (In (r, c) (positions (sh_height sh) (sh_width sh))) as Hin by (eapply nth_error_In; eauto).
        pose proof (cell_in_bounds _ Hin) as Hb. unfold cell in *. cbn [fst snd] in *.
        destruct (Nat.leb_spec (length data) (offset sh r c)); [lia|].
        f_equal. apply IH. lia.
      + apply nth_error_None in E. now rewrite skipn_all2.
  Qed.

  Theorem mut_offsets_spec :
    mut_offsets sh (length data) = map cell (positions (sh_height sh) (sh_width sh)).
  Proof. unfold mut_offsets. now rewrite mut_offsets_from_spec by lia. Qed.

  (* ---------- the iterator at index k, and with_position() from there on ---------- *)
  Lemma iter_at_spec k :
    iter_at sh data k =
    match nth_error (positions (sh_height sh) (sh_width sh)) k with
    | Some p => nth_error data (cell p)
    | None => None
    end.
  Proof. unfold iter_at. rewrite nth_pos_positions. destruct (nth_error _ k) as [[r c]|]; reflexivity. Qed.

  Lemma iter_position_spec k :
    iter_position sh k = nth k (positions (sh_height sh) (sh_width sh)) (sh_height sh, 0).
  Proof.
    unfold iter_position. rewrite nth_pos_positions.
    destruct (nth_error (positions (sh_height sh) (sh_width sh)) k) as [p|] eqn:E.
    - symmetry. apply nth_error_nth. exact E.
    - symmetry. apply nth_overflow. apply nth_error_None. exact E.
  Qed.

  Lemma mut_at_spec k :
    mut_at sh (length data) k = option_map cell (nth_error (positions (sh_height sh) (sh_width sh)) k).
  Proof.
    unfold mut_at. rewrite nth_pos_positions.
    destruct (nth_error (positions (sh_height sh) (sh_width sh)) k) as [[r c]|] eqn:E; [|reflexivity].
    assert (In (r, c) (positions (sh_height sh) (sh_width sh))) as Hin by (eapply nth_error_In; eauto).
    pose proof (cell_in_bounds _ Hin) as Hb. unfold cell in *. cbn [fst snd option_map] in *.
    destruct (Nat.leb_spec (length data) (offset sh r c)); [lia|reflexivity].
  Qed.

  Lemma pos_iter_from_spec : forall fuel i,
    sh_height sh * sh_width sh < fuel + i ->
    map (fun e => (fst e, Some (snd e))) (pos_iter_from fuel i sh data) =
    map (fun p => (p, nth_error data (cell p))) (skipn i (positions (sh_height sh) (sh_width sh))).
  Proof.
    induction fuel as [|fuel IH]; intros i Hf.
    - rewrite skipn_all2 by (rewrite positions_length; lia). reflexivity.
    - cbn [pos_iter_from]. rewrite iter_at_spec.
      destruct (nth_error (positions (sh_height sh) (sh_width sh)) i) as [p|] eqn:E.
      + rewrite (skipn_nth_error _ _ _ E). cbn [map].
        assert (In p (positions (sh_height sh) (sh_width sh))) as Hin by (eapply nth_error_In; eauto).
        pose proof (cell_in_bounds _ Hin) as Hb.
        destruct (nth_error data (cell p)) eqn:E2.
        * cbn [map fst snd]. rewrite iter_position_spec, (nth_error_nth _ _ _ E). f_equal. apply IH. lia.
        * apply nth_error_None in E2. lia.
      + apply nth_error_None in E. now rewrite skipn_all2.
  Qed.

  Lemma mut_pos_from_spec : forall fuel i,
    sh_height sh * sh_width sh < fuel + i ->
    mut_pos_from fuel i sh (length data) =
    map (fun p => (p, cell p)) (skipn i (positions (sh_height sh) (sh_width sh))).
  Proof.
    induction fuel as [|fuel IH]; intros i Hf.
    - rewrite skipn_all2 by (rewrite positions_length; lia). reflexivity.
    - cbn [mut_pos_from]. rewrite mut_at_spec.
      destruct (nth_error (positions (sh_height sh) (sh_width sh)) i) as [p|] eqn:E; cbn [option_map].
      + rewrite (skipn_nth_error _ _ _ E). cbn [map].
        rewrite iter_position_spec, (nth_error_nth _ _ _ E). f_equal. apply IH. lia.
      + apply nth_error_None in E. now rewrite skipn_all2.
  Qed.

  (* with_position() after k items: exactly the cells k.. of the window, each once, with their positions *)
  Theorem pos_iter_after_spec k :
    map (fun e => (fst e, Some (snd e))) (pos_iter_after sh data k) =
    map (fun p => (p, nth_error data (cell p))) (skipn k (positions (sh_height sh) (sh_width sh))).
  Proof. unfold pos_iter_after. apply pos_iter_from_spec. lia. Qed.

  Theorem mut_pos_after_spec k :
    mut_pos_after sh (length data) k =
    map (fun p => (p, cell p)) (skipn k (positions (sh_height sh) (sh_width sh))).
  Proof. unfold mut_pos_after. apply mut_pos_from_spec. lia. Qed.

  Theorem iterator_at_index k :
    let ps := positions (sh_height sh) (sh_width sh) in
    iter_at sh data k = match nth_error ps k with
                        | Some p => nth_error data (offset sh (fst p) (snd p))
                        | None => None
                        end /\
    iter_position sh k = nth k ps (sh_height sh, 0) /\
    mut_at sh (length data) k = option_map (fun p => offset sh (fst p) (snd p)) (nth_error ps k).
  Proof. split; [apply iter_at_spec|]. split; [apply iter_position_spec|apply mut_at_spec]. Qed.

  Theorem with_position_continues k :
    let rest := skipn k (positions (sh_height sh) (sh_width sh)) in
    map (fun e => (fst e, Some (snd e))) (pos_iter_after sh data k) =
      map (fun p => (p, nth_error data (offset sh (fst p) (snd p)))) rest /\
    mut_pos_after sh (length data) k = map (fun p => (p, offset sh (fst p) (snd p))) rest.
  Proof. split; [apply pos_iter_after_spec|apply mut_pos_after_spec]. Qed.

  Lemma positions_NoDup h w' : NoDup (positions h w').
  Proof.
    apply NoDup_nth_error. intros i j Hi E. rewrite positions_length in Hi.
    rewrite !positions_nth in E.
    destruct (Nat.eqb_spec w' 0) as [->|Hw]; [lia|].
    assert (i / w' < h) as Hq by (apply div_small_iff; lia).
    apply Nat.ltb_lt in Hq. rewrite Hq in E.
    destruct (j / w' <? h); [|discriminate]. injection E as E1 E2.
    pose proof (Nat.mul_div_le i w' Hw). pose proof (Nat.mul_div_le j w' Hw).
    rewrite E1 in *. nia.
  Qed.

  Lemma cells_NoDup : NoDup (map cell (positions (sh_height sh) (sh_width sh))).
  Proof.
    apply NoDup_map_in; [|apply positions_NoDup].
    intros p q Hp Hq E. apply in_positions in Hp as [? ?], Hq as [? ?].
    destruct (rep_good _ _ _ _ Hrep) as [_ Hinj]. unfold cell in E.
    destruct (Hinj (fst p) (snd p) (fst q) (snd q)) as [? ?]; auto.
    destruct p, q; cbn in *; congruence.
  Qed.

  (* no two references alias, every reference is inside the buffer *)
  Theorem mut_offsets_safe :
    NoDup (mut_offsets sh (length data)) /\
    Forall (fun o => o < length data) (mut_offsets sh (length data)) /\
    length (mut_offsets sh (length data)) = sh_height sh * sh_width sh.
  Proof.
    rewrite mut_offsets_spec. split; [apply cells_NoDup|]. split.
    - apply Forall_forall. intros o Ho. apply in_map_iff in Ho as (p & <- & Hp).
      now apply cell_in_bounds.
    - now rewrite map_length, positions_length.
  Qed.

  (* get: the matrix element at the window's coordinates, absent outside the window *)
  Theorem get_spec r c :
    get sh data r c =
    if (r <? w_h w) && (c <? w_w w) then nth_error data (root_index W (win_coord w r c)) else None.
  Proof.
    unfold get. pose proof Hrep as (Hh & Hw & _). rewrite Hh, Hw.
    destruct (Nat.leb_spec (w_h w) r); destruct (Nat.ltb_spec r (w_h w)); try lia; cbn [orb andb];
      [reflexivity|].
    destruct (Nat.leb_spec (w_w w) c); destruct (Nat.ltb_spec c (w_w w)); try lia; [reflexivity|].
    destruct (rep_offset _ _ _ _ r c Hrep) as (-> & _); auto.
  Qed.

  Theorem get_in_window r c : r < w_h w -> c < w_w w -> exists x, get sh data r c = Some x.
  Proof.
    intros Hr Hc. rewrite get_spec.
    destruct (Nat.ltb_spec r (w_h w)); destruct (Nat.ltb_spec c (w_w w)); try lia. cbn [andb].
    destruct (rep_offset _ _ _ _ r c Hrep Hr Hc) as (_ & Hf & Hs).
    pose proof (root_index_lt H W _ Hf Hs).
    destruct (nth_error data (root_index W (win_coord w r c))) eqn:E; [eauto|].
    apply nth_error_None in E. lia.
  Qed.

  (* ---------- mutation: fill / fill_with / clear ---------- *)
  Lemma set_nth_spec : forall (l : list A) k x, k < length l ->
    exists l', set_nth l k x = Some l' /\ length l' = length l /\
               nth_error l' k = Some x /\ (forall j, j <> k -> nth_error l' j = nth_error l j).
  Proof.
    induction l as [|a l IH]; intros k x Hk; cbn in Hk; [lia|].
    destruct k as [|k].
    - exists (x :: l). cbn. repeat split; auto. intros [|j] Hj; [lia|reflexivity].
    - destruct (IH k x ltac:(lia)) as (l' & E & Hl & Hn & Ho).
      exists (a :: l'). cbn. rewrite E. cbn. repeat split; auto.
      intros [|j] Hj; [reflexivity|]. cbn. apply Ho. lia.
  Qed.

  Lemma upd_fold (f : nat -> nat -> A -> A) : forall ps d,
    NoDup (map cell ps) -> (forall p, In p ps -> cell p < length d) ->
    exists d', fold_left (upd_step sh f) ps (Some d) = Some d' /\ length d' = length d /\
      (forall p, In p ps -> nth_error d' (cell p) = option_map (f (fst p) (snd p)) (nth_error d (cell p))) /\
      (forall k, ~ In k (map cell ps) -> nth_error d' k = nth_error d k).
  Proof.
    induction ps as [|p ps IH]; intros d Hnd Hb.
    - exists d. cbn. repeat split; auto. intros p [].
    - cbn [fold_left upd_step]. destruct p as [r c].
      pose proof (Hb (r, c) (or_introl eq_refl)) as Hbp. unfold cell in Hbp; cbn [fst snd] in Hbp.
      destruct (nth_error d (offset sh r c)) as [old|] eqn:Eold;
        [|apply nth_error_None in Eold; lia].
      destruct (set_nth_spec d (offset sh r c) (f r c old) Hbp) as (d1 & E1 & Hl1 & Hn1 & Ho1).
      rewrite E1. inversion Hnd as [|? ? Hnotin Hnd']; subst.
      destruct (IH d1 Hnd') as (d' & E & Hl & Hin & Hout).
      { intros q Hq. rewrite Hl1. apply Hb. now right. }
      exists d'. split; [exact E|]. split; [lia|]. split.
      + intros q [<-|Hq].
        * cbn [fst snd]. rewrite Hout by exact Hnotin. unfold cell; cbn [fst snd].
          rewrite Hn1, Eold. reflexivity.
        * rewrite (Hin q Hq). f_equal. apply Ho1.
          intros Eq. apply Hnotin. change (cell (r, c)) with (offset sh r c). rewrite <- Eq.
          now apply in_map.
      + intros k Hk. cbn [map] in Hk. rewrite Hout by (intros Hk'; apply Hk; now right). apply Ho1.
        intros ->. apply Hk. now left.
  Qed.

  (* fill_with / fill / clear never panic, rewrite exactly the window's cells (each once)
     and leave every other element of the backing vector untouched *)
  Theorem fill_with_spec (f : nat -> nat -> A -> A) :
    exists d', fill_with sh data f = Some d' /\ length d' = length data /\
      (forall r c, r < sh_height sh -> c < sh_width sh ->
         nth_error d' (offset sh r c) = option_map (f r c) (nth_error data (offset sh r c))) /\
      (forall k, (forall r c, r < sh_height sh -> c < sh_width sh -> offset sh r c <> k) ->
         nth_error d' k = nth_error data k).
  Proof.
    unfold fill_with.
    destruct (upd_fold f (positions (sh_height sh) (sh_width sh)) data cells_NoDup cell_in_bounds)
      as (d' & E & Hl & Hin & Hout).
    exists d'. repeat split; auto.
    - intros r c Hr Hc. apply (Hin (r, c)).
      unfold positions. apply in_flat_map. exists r. split; [apply in_seq; lia|].
      apply in_map. apply in_seq. lia.
    - intros k Hk. apply Hout. intros Hin'. apply in_map_iff in Hin' as (p & <- & Hp).
      apply in_positions in Hp as [? ?]. eapply Hk; eauto.
  Qed.
End WithData.

(* ---------- is_empty: `start >= end` says exactly "no cells" for every chain-built shape ---------- *)
Definition EndOk (sh : shape) : Prop :=
  sh_start sh < sh_end sh <-> (0 < sh_height sh /\ 0 < sh_width sh).

Lemma endok_root H W : EndOk (of_size H W).
Proof. unfold EndOk, of_size; cbn. nia. Qed.

Lemma endok_transpose sh : EndOk sh -> EndOk (transpose sh).
Proof. unfold EndOk, transpose; cbn. tauto. Qed.

Lemma endok_view H W sh w rows cols :
  Rep H W sh w -> valid_bounds (w_h w) rows -> valid_bounds (w_w w) cols -> EndOk (view sh rows cols).
Proof.
  intros (Hh & Hw & Hrep) Hr Hc. unfold view, EndOk.
  destruct cols as [[cs ce]|]; [|cbn; lia].
  destruct rows as [[rs re]|]; [|cbn; lia].
  cbn [valid_bounds] in *. cbn [sh_start sh_end sh_height sh_width]. unfold offset.
  destruct Hrep as [[H0 W0]|[Hst Hrest]]; [lia|].
  destruct (w_t w); destruct Hrest as (Hrs & Hcs & HH & HW); rewrite Hrs, Hcs; split; intros; try nia.
Qed.

Lemma endok_op H W sh w o : (Z.of_nat (Nat.max H W) <= i64_max)%Z ->
  op_in o = true -> Rep H W sh w -> EndOk sh -> EndOk (apply_op sh o).
Proof.
  intros Hmax Ho Hrep He. destruct o as [rs cs|]; cbn [apply_op].
  - cbn in Ho. apply andb_true_iff in Ho as [Hr Hc].
    pose proof (rep_dims _ _ _ _ Hrep) as [Hdh Hdw].
    pose proof Hrep as (Hh & Hw & Hrest). rewrite Hh, Hw.
    rewrite !resolve_py by (assumption || lia).
    eapply endok_view; [exact Hrep| |]; apply py_resolve_valid.
  - now apply endok_transpose.
Qed.

Theorem endok_chain H W ops : (Z.of_nat (Nat.max H W) <= i64_max)%Z -> forall sh w,
  forallb op_in ops = true -> Rep H W sh w -> EndOk sh -> EndOk (apply_chain sh ops).
Proof.
  intros Hmax. induction ops as [|o ops IH]; intros sh w Hin Hrep He; cbn in *; [exact He|].
  apply andb_true_iff in Hin as [Ho Hin].
  apply (IH (apply_op sh o) (win_op w o)); [exact Hin|now apply rep_op|now apply (endok_op H W sh w)].
Qed.

Theorem is_empty_spec H W ops : (Z.of_nat (Nat.max H W) <= i64_max)%Z -> forallb op_in ops = true ->
  let sh := apply_chain (of_size H W) ops in
  is_empty sh = (sh_height sh =? 0) || (sh_width sh =? 0).
Proof.
  intros Hmax Hin sh.
  pose proof (endok_chain H W ops Hmax (of_size H W) (win_root H W) Hin (rep_root H W) (endok_root H W)) as He.
  fold sh in He. unfold EndOk in He. unfold is_empty.
  destruct (Nat.leb_spec (sh_end sh) (sh_start sh)), (Nat.eqb_spec (sh_height sh) 0), (Nat.eqb_spec (sh_width sh) 0);
    cbn [orb]; try reflexivity; lia.
Qed.

(* ---------- insert with the usize index arithmetic ---------- *)
Section InsertAt.
  Context {A : Type}.
  Lemma insert_at_small (sh : shape) (data : list A) (r c : N) items :
    (r * N.of_nat (sh_width sh) + c < 18446744073709551615)%N ->
    insert_at sh data r c items = insert sh data (N.to_nat r) (N.to_nat c) items.
  Proof.
    intros Hb. unfold insert_at, insert.
    destruct (N.leb_spec 18446744073709551616 (r * N.of_nat (sh_width sh) + c)); [lia|].
    destruct (N.eqb_spec (r * N.of_nat (sh_width sh) + c) 18446744073709551615); [lia|]. cbn [andb].
    assert (E : N.to_nat (r * N.of_nat (sh_width sh) + c) = N.to_nat r * sh_width sh + N.to_nat c) by lia.
    destruct (N.leb_spec (N.of_nat (length (mut_offsets sh (length data)))) (r * N.of_nat (sh_width sh) + c)).
    - rewrite skipn_all2 by lia. reflexivity.
    - rewrite E. reflexivity.
  Qed.

  Lemma insert_at_overflow (sh : shape) (data : list A) (r c : N) items :
    (18446744073709551616 <= r * N.of_nat (sh_width sh) + c)%N -> insert_at sh data r c items = None.
  Proof.
    intros Hb. unfold insert_at.
    destruct (N.leb_spec 18446744073709551616 (r * N.of_nat (sh_width sh) + c)); [reflexivity|lia].
  Qed.

  Lemma insert_at_beyond (sh : shape) (data : list A) (r c : N) items :
    (18446744073709551615 <= r * N.of_nat (sh_width sh) + c)%N ->
    insert_at sh data r c items = None \/ insert_at sh data r c items = Some data.
  Proof.
    intros Hb. unfold insert_at.
    destruct (N.leb_spec 18446744073709551616 (r * N.of_nat (sh_width sh) + c)); [left; reflexivity|].
    destruct (N.eqb_spec (r * N.of_nat (sh_width sh) + c) 18446744073709551615) as [E|E]; [|lia].
    destruct items as [|x items]; [|left; reflexivity]. cbn [andb]. right.
    destruct (N.leb_spec (N.of_nat (length (mut_offsets sh (length data)))) (r * N.of_nat (sh_width sh) + c)); [reflexivity|].
    rewrite combine_nil. reflexivity.
  Qed.
End InsertAt.
