(* Model of ViewBounds / range_bounds (src/surface.rs) and the Python slice
   specification it is compared with.  Executable definitions only. *)
From Coq Require Import ZArith Bool List.
Import ListNotations.
Local Open Scope Z_scope.

(* ---------- integer types a selector can be written in ---------- *)
Inductive ity := U8 | I8 | U16 | I16 | U32 | I32 | U64 | I64 | Usize | Isize.

Definition ity_signed (t : ity) : bool :=
  match t with I8 | I16 | I32 | I64 | Isize => true | _ => false end.

Definition ity_min (t : ity) : Z :=
  match t with
  | I8 => -128 | I16 => -32768 | I32 => -2147483648
  | I64 | Isize => -9223372036854775808
  | _ => 0
  end.

Definition ity_max (t : ity) : Z :=
  match t with
  | U8 => 255 | I8 => 127 | U16 => 65535 | I16 => 32767
  | U32 => 4294967295 | I32 => 2147483647
  | U64 | Usize => 18446744073709551615
  | I64 | Isize => 9223372036854775807
  end.

Definition in_ity (t : ity) (z : Z) : bool := (ity_min t <=? z) && (z <=? ity_max t).

(* ---------- selector forms ---------- *)
Inductive sel :=
| Idx (i : Z)            (* i       *)
| Rng (a b : Z)          (* a..b    *)
| From (a : Z)           (* a..     *)
| To (b : Z)             (* ..b     *)
| RngI (a b : Z)         (* a..=b   *)
| ToI (b : Z)            (* ..=b    *)
| Full.                  (* ..      *)

Definition sel_in (t : ity) (s : sel) : bool :=
  match s with
  | Idx i => in_ity t i
  | Rng a b | RngI a b => in_ity t a && in_ity t b
  | From a => in_ity t a
  | To b | ToI b => in_ity t b
  | Full => true
  end.

(* ---------- specification: Python / NumPy slice resolution, over Z ---------- *)

(* PySlice_AdjustIndices for step 1: a slice bound *)
Definition py_bound (n i : Z) : Z :=
  if i <? 0 then Z.max 0 (i + n) else Z.min i n.

(* an element index (negative counts from the end), not clamped *)
Definition py_elem (n i : Z) : Z := if i <? 0 then i + n else i.

(* one past element e, clamped to the axis *)
Definition py_past (n e : Z) : Z := Z.max 0 (Z.min n (py_elem n e + 1)).

Definition py_slice (n : Z) (s : sel) : option (Z * Z) :=
  let '(a, b) :=
    match s with
    | Full => (0, n)
    | Rng a b => (py_bound n a, py_bound n b)
    | From a => (py_bound n a, n)
    | To b => (0, py_bound n b)
    | RngI a b => (py_bound n a, py_past n b)
    | ToI b => (0, py_past n b)
    | Idx i => if (- n <=? i) && (i <? n) then (py_elem n i, py_elem n i + 1) else (0, 0)
    end in
  if a <? b then Some (a, b) else None.

(* ---------- model of the code ---------- *)
Definition i64_min : Z := -9223372036854775808.
Definition i64_max : Z := 9223372036854775807.
Definition usize_max : Z := 18446744073709551615.
(* the arithmetic of range_bounds is done in i128 *)
Definition wide_min : Z := -170141183460469231731687303715884105728.
Definition wide_max : Z := 170141183460469231731687303715884105727.

(* i128::try_from(x).unwrap_or(i128::MAX); x ranges over values of the ten integer types and usize,
   all of which fit: the saturation never happens (BoundsProofs.index_wide_id) *)
Definition index_wide (z : Z) : Z := if z >? wide_max then wide_max else z.

(* i128::saturating_add *)
Definition sat_add (a b : Z) : Z :=
  let s := a + b in
  if s >? wide_max then wide_max else if s <? wide_min then wide_min else s.

(* common::clamp *)
Definition clampZ (v lo hi : Z) : Z := if v <? lo then lo else if v >? hi then hi else v.

Inductive bnd := Unb | Inc (z : Z) | Exc (z : Z).

Definition range_bounds (s e : bnd) (n : Z) : option (Z * Z) :=
  let size := index_wide n in
  if size =? 0 then None
  else
    let resolve := fun i => if i <? 0 then sat_add i size else i in
    let start := match s with
                 | Unb => 0
                 | Inc a => resolve a
                 | Exc a => sat_add (resolve a) 1
                 end in
    let stop := match e with
                | Unb => size
                | Inc b => sat_add (resolve b) 1
                | Exc b => resolve b
                end in
    let start := clampZ start 0 size in
    let stop := clampZ stop 0 size in
    if stop <=? start then None else Some (start, stop).

Definition view_bounds (t : ity) (s : sel) (n : Z) : option (Z * Z) :=
  match s with
  | Full => range_bounds Unb Unb n
  | Idx i =>
      if ity_signed t then range_bounds (Inc i) (Inc i) n      (* self as i128: lossless for signed types *)
      else if i >=? n then None else Some (i, i + 1)          (* self as usize: lossless for unsigned types *)
  | Rng a b => range_bounds (Inc (index_wide a)) (Exc (index_wide b)) n
  | From a => range_bounds (Inc (index_wide a)) Unb n
  | To b => range_bounds Unb (Exc (index_wide b)) n
  | RngI a b => range_bounds (Inc (index_wide a)) (Inc (index_wide b)) n
  | ToI b => range_bounds Unb (Inc (index_wide b)) n
  end.

(* ---------- what a selector means, element by element ---------- *)
(* Python: `seq[i]` with negative i is `seq[i + len]`; a slice `seq[a:b]` holds exactly the elements
   whose index k satisfies norm a <= k < norm b (bounds outside the sequence simply select nothing
   more); `a..=b` is `seq[a:b+1]` read on element indices: norm a <= k <= norm b.  This reading does
   not clamp anything: it is the membership predicate py_slice is checked against (BoundsProofs). *)
Definition norm (n i : Z) : Z := if i <? 0 then i + n else i.

Definition selects (n : Z) (s : sel) (k : Z) : Prop :=
  0 <= k < n /\
  match s with
  | Full => True
  | Idx i => k = norm n i
  | Rng a b => norm n a <= k < norm n b
  | From a => norm n a <= k
  | To b => k < norm n b
  | RngI a b => norm n a <= k <= norm n b
  | ToI b => k <= norm n b
  end.
