(* map / to_owned and insert through a represented shape: they read, resp.
   write, exactly the window's cells in row-major order. *)
From Coq Require Import List Arith Bool ZArith Lia.
From SNT Require Import Surface.Bounds Surface.BoundsProofs Surface.Shape Surface.ShapeProofs.
Import ListNotations.

Section WithData.
  Context {A : Type}.
  Variables (H W : nat) (sh : shape) (w : window) (data : list A).
  Hypothesis Hrep : Rep H W sh w.
  Hypothesis Hlen : H * W <= length data.

  Let cellp := @cell sh.

  (* ---------- map / to_owned_surf ---------- *)
  Lemma map_fold {B} (f : nat -> nat -> A -> B) : forall ps,
    (forall p, In p ps -> cellp p < length data) ->
    exists t,
      fold_right (fun (p : nat * nat) acc =>
                    match acc, nth_error data (offset sh (fst p) (snd p)) with
                    | Some t, Some x => Some (f (fst p) (snd p) x :: t)
                    | _, _ => None
                    end) (Some []) ps = Some t /\
      map Some t = map (fun p => option_map (f (fst p) (snd p)) (nth_error data (cellp p))) ps.
  Proof.
    induction ps as [|p ps IH]; intros Hb.
    - exists []. split; reflexivity.
    - destruct IH as (t & E & Ht); [intros q Hq; apply Hb; now right|].
      cbn [fold_right]. rewrite E.
      pose proof (Hb p (or_introl eq_refl)) as Hp. unfold cellp, cell in Hp.
      destruct (nth_error data (offset sh (fst p) (snd p))) as [x|] eqn:Ex;
        [|apply nth_error_None in Ex; lia].
      exists (f (fst p) (snd p) x :: t). split; [reflexivity|].
      cbn [map]. rewrite Ht. unfold cellp, cell. rewrite Ex. reflexivity.
  Qed.

  (* map never panics, produces exactly height*width items: f applied to the
     window's cells in row-major order *)
  Theorem map_spec {B} (f : nat -> nat -> A -> B) :
    exists t, map_surf sh data f = Some t /\
      length t = sh_height sh * sh_width sh /\
      map Some t = map (fun p => option_map (f (fst p) (snd p)) (nth_error data (offset sh (fst p) (snd p))))
                       (positions (sh_height sh) (sh_width sh)).
  Proof.
    unfold map_surf.
    destruct (map_fold f (positions (sh_height sh) (sh_width sh))) as (t & E & Ht).
    { intros p Hp. unfold cellp. eapply (cell_in_bounds H W sh w data Hrep Hlen); eauto. }
    exists t. split; [exact E|]. split; [|exact Ht].
    rewrite <- (map_length Some), Ht, map_length. apply positions_length.
  Qed.

  (* ---------- insert ---------- *)
  Lemma write_fold : forall (ws : list (nat * A)) d,
    NoDup (map fst ws) -> (forall o x, In (o, x) ws -> o < length d) ->
    exists d', fold_left write_at ws (Some d) = Some d' /\ length d' = length d /\
      (forall o x, In (o, x) ws -> nth_error d' o = Some x) /\
      (forall k, ~ In k (map fst ws) -> nth_error d' k = nth_error d k).
  Proof.
    induction ws as [|[o x] ws IH]; intros d Hnd Hb.
    - exists d. cbn. repeat split; auto. intros ? ? [].
    - cbn [fold_left write_at fst snd].
      pose proof (Hb o x (or_introl eq_refl)) as Ho.
      destruct (set_nth_spec H W data Hlen d o x Ho) as (d1 & E1 & Hl1 & Hn1 & Ho1).
      rewrite E1. cbn [map fst] in Hnd. inversion Hnd as [|? ? Hnotin Hnd']; subst.
      destruct (IH d1 Hnd') as (d' & E & Hl & Hin & Hout).
      { intros o' x' Hin'. rewrite Hl1. eapply Hb. right. exact Hin'. }
      exists d'. split; [exact E|]. split; [lia|]. split.
      + intros o' x' [Heq|Hin'].
        * injection Heq as <- <-. rewrite Hout by exact Hnotin. exact Hn1.
        * eapply Hin; eauto.
      + intros k Hk. cbn [map fst] in Hk.
        rewrite Hout by (intros Hk'; apply Hk; now right). apply Ho1.
        intros ->. apply Hk. now left.
  Qed.

  Lemma NoDup_skipn {X} (l : list X) n : NoDup l -> NoDup (skipn n l).
  Proof.
    revert l. induction n as [|n IH]; intros [|a l] Hnd; cbn; auto; try constructor.
    inversion Hnd; subst. now apply IH.
  Qed.

  Lemma In_skipn {X} (l : list X) n x : In x (skipn n l) -> In x l.
  Proof.
    revert l. induction n as [|n IH]; intros [|a l] Hin; cbn in *; auto.
  Qed.

  Lemma map_fst_combine {X Y} (l : list X) (m : list Y) :
    map fst (combine l m) = firstn (length m) l.
  Proof.
    revert m. induction l as [|a l IH]; intros [|b m]; cbn; auto. now rewrite IH.
  Qed.

  Lemma In_firstn {X} (l : list X) n x : In x (firstn n l) -> In x l.
  Proof.
    revert l. induction n as [|n IH]; intros [|a l] Hin; cbn in *; try contradiction.
    destruct Hin as [->|Hin]; auto.
  Qed.

  Lemma NoDup_firstn {X} (l : list X) n : NoDup l -> NoDup (firstn n l).
  Proof.
    revert l. induction n as [|n IH]; intros [|a l] Hnd; cbn; try constructor.
    - inversion Hnd as [|? ? Hnotin Hnd']; subst. intros Hin. apply Hnotin. eapply In_firstn; eauto.
    - inversion Hnd as [|? ? Hnotin Hnd']; subst. now apply IH.
  Qed.

  Lemma nth_error_combine {X Y} (l : list X) (m : list Y) i a b :
    nth_error l i = Some a -> nth_error m i = Some b -> In (a, b) (combine l m).
  Proof.
    revert m i. induction l as [|x l IH]; intros [|y m] [|i] Ea Eb; cbn in *; try discriminate.
    - injection Ea as ->. injection Eb as ->. now left.
    - right. eapply IH; eauto.
  Qed.

  Lemma nth_error_firstn_lt' {X} (l : list X) n i : i < n -> nth_error (firstn n l) i = nth_error l i.
  Proof.
    revert l i. induction n as [|n IH]; intros [|a l] [|i] Hi; cbn; auto; try lia.
    apply IH. lia.
  Qed.

  Lemma nth_error_skipn {X} (l : list X) n i : nth_error (skipn n l) i = nth_error l (n + i).
  Proof.
    revert l. induction n as [|n IH]; intros [|a l]; cbn; auto. now destruct i.
  Qed.

  (* insert(pos, items): never panics; the i-th item lands in the window cell
     with row-major index pos.row*width + pos.col + i, as long as that index is
     inside the window; every other element of the backing vector is unchanged *)
  Theorem insert_spec (r c : nat) (items : list A) :
    let start := r * sh_width sh + c in
    let cells := map cellp (positions (sh_height sh) (sh_width sh)) in
    exists d', insert sh data r c items = Some d' /\ length d' = length data /\
      (forall i o x, nth_error cells (start + i) = Some o -> nth_error items i = Some x ->
                     nth_error d' o = Some x) /\
      (forall k, (forall i, i < length items -> nth_error cells (start + i) <> Some k) ->
                 nth_error d' k = nth_error data k).
  Proof.
    intros start cells. unfold insert.
    rewrite (mut_offsets_spec H W sh w data Hrep Hlen). fold cellp. fold cells. fold start.
    assert (NoDup cells) as Hnd by (apply (cells_NoDup H W sh w data Hrep Hlen)).
    destruct (write_fold (combine (skipn start cells) items) data) as (d' & E & Hl & Hin & Hout).
    - rewrite map_fst_combine. apply NoDup_firstn, NoDup_skipn, Hnd.
    - intros o x Hox. apply in_combine_l in Hox. apply In_skipn in Hox.
      apply in_map_iff in Hox as (p & <- & Hp). unfold cellp. eapply (cell_in_bounds H W sh w data Hrep Hlen); eauto.
    - exists d'. split; [exact E|]. split; [exact Hl|]. split.
      + intros i o x Ho Hx. eapply Hin. eapply nth_error_combine; eauto.
        now rewrite nth_error_skipn.
      + intros k Hk. apply Hout. rewrite map_fst_combine. intros Hin'.
        apply In_nth_error in Hin' as (i & Ei).
        assert (i < length items) as Hi.
        { assert (i < length (firstn (length items) (skipn start cells))) as Hi'
            by (apply nth_error_Some; congruence).
          rewrite firstn_length in Hi'. lia. }
        apply (Hk i Hi).
        rewrite <- nth_error_skipn.
        rewrite <- Ei. symmetry. apply nth_error_firstn_lt'. exact Hi.
  Qed.
End WithData.
