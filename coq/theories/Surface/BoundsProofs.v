From Coq Require Import ZArith Bool List Lia.
From SNT Require Import Base.ZCases Surface.Bounds.
Local Open Scope Z_scope.

Lemma in_ity_bounds t z : in_ity t z = true -> -9223372036854775808 <= z <= 18446744073709551615.
Proof.
  unfold in_ity. intros H. apply andb_true_iff in H as [H1 H2].
  apply Z.leb_le in H1. apply Z.leb_le in H2. destruct t; cbn in *; lia.
Qed.

Lemma in_ity_signed t z : ity_signed t = true -> in_ity t z = true ->
  -9223372036854775808 <= z <= 9223372036854775807.
Proof.
  unfold in_ity. intros Hs H. apply andb_true_iff in H as [H1 H2].
  apply Z.leb_le in H1. apply Z.leb_le in H2. destruct t; cbn in *; try discriminate; lia.
Qed.

Lemma in_ity_unsigned t z : ity_signed t = false -> in_ity t z = true -> 0 <= z.
Proof.
  unfold in_ity. intros Hs H. apply andb_true_iff in H as [H1 _].
  apply Z.leb_le in H1. destruct t; cbn in *; try discriminate; lia.
Qed.

(* the core, in small pieces so that each case split stays small *)
Lemma sat_add_exact a b : wide_min <= a + b <= wide_max -> sat_add a b = a + b.
Proof. unfold sat_add, wide_min, wide_max. intros H. zcases; lia. Qed.

Definition resolve (size i : Z) : Z := if i <? 0 then sat_add i size else i.

Lemma resolve_elem n i : 0 < n <= wide_max -> wide_min <= i <= wide_max -> resolve n i = py_elem n i.
Proof.
  unfold resolve, py_elem. intros Hn Hi. destruct (Z.ltb_spec i 0); [|reflexivity].
  apply sat_add_exact. unfold wide_min, wide_max in *. lia.
Qed.

Lemma clamp_bound n i : 0 < n -> clampZ (py_elem n i) 0 n = py_bound n i.
Proof. unfold clampZ, py_elem, py_bound. intros Hn. zcases; lia. Qed.

Lemma clamp_past n e : 0 < n <= wide_max -> wide_min <= e <= wide_max ->
  clampZ (sat_add (py_elem n e) 1) 0 n = py_past n e.
Proof.
  unfold py_past. intros Hn He.
  assert (wide_min <= py_elem n e <= wide_max) as Hr.
  { unfold py_elem, wide_min, wide_max in *. destruct (Z.ltb_spec e 0); lia. }
  unfold sat_add, clampZ, wide_min, wide_max in *. zcases; lia.
Qed.

Lemma py_bound_sat n a : 0 <= n <= wide_max -> py_bound n (index_wide a) = py_bound n a.
Proof. unfold py_bound, index_wide, wide_max. intros Hn. zcases; lia. Qed.

Lemma py_past_sat n a : 0 <= n <= wide_max -> py_past n (index_wide a) = py_past n a.
Proof. unfold py_past, py_elem, index_wide, wide_max. intros Hn. zcases; lia. Qed.

Lemma index_wide_range a : wide_min <= a -> wide_min <= index_wide a <= wide_max.
Proof. unfold index_wide, wide_min, wide_max. intros. zcases; lia. Qed.

Lemma index_wide_id n : 0 <= n <= wide_max -> index_wide n = n.
Proof. unfold index_wide. intros. zcases; lia. Qed.

(* range_bounds with every piece replaced by its specification *)
Definition start_of (n : Z) (s : bnd) : Z :=
  match s with Unb => 0 | Inc a => py_bound n a | Exc a => clampZ (sat_add (py_elem n a) 1) 0 n end.
Definition stop_of (n : Z) (e : bnd) : Z :=
  match e with Unb => n | Inc b => py_past n b | Exc b => py_bound n b end.

Definition bnd_ok (b : bnd) : Prop :=
  match b with Unb => True | Inc z | Exc z => wide_min <= z <= wide_max end.

Lemma range_bounds_spec s e n : 0 <= n <= wide_max -> bnd_ok s -> bnd_ok e ->
  range_bounds s e n =
  if n =? 0 then None
  else if stop_of n e <=? start_of n s then None else Some (start_of n s, stop_of n e).
Proof.
  intros Hn Hs He. unfold range_bounds; cbv zeta. rewrite !(index_wide_id n Hn).
  destruct (Z.eqb_spec n 0) as [|Hn0]; [reflexivity|].
  assert (Hn' : 0 < n <= wide_max) by lia.
  change (if ?i <? 0 then sat_add ?i n else ?i) with (resolve n i) in *.
  assert (Hstart : clampZ match s with Unb => 0 | Inc a => resolve n a | Exc a => sat_add (resolve n a) 1 end 0 n
                   = start_of n s).
  { destruct s as [|a|a]; cbn [start_of bnd_ok] in *.
    - unfold clampZ. zcases; lia.
    - rewrite resolve_elem by assumption. apply clamp_bound. lia.
    - rewrite resolve_elem by assumption. reflexivity. }
  assert (Hstop : clampZ match e with Unb => n | Inc b => sat_add (resolve n b) 1 | Exc b => resolve n b end 0 n
                  = stop_of n e).
  { destruct e as [|b|b]; cbn [stop_of bnd_ok] in *.
    - unfold clampZ. zcases; lia.
    - rewrite resolve_elem by assumption. apply clamp_past; assumption.
    - rewrite resolve_elem by assumption. apply clamp_bound. lia. }
  cbv zeta. rewrite Hstart, Hstop. reflexivity.
Qed.

Lemma py_bound_le n i : 0 <= n -> 0 <= py_bound n i <= n.
Proof. unfold py_bound. intros. zcases; lia. Qed.
Lemma py_past_le n i : 0 <= n -> 0 <= py_past n i <= n.
Proof. unfold py_past. intros. zcases; lia. Qed.

Lemma rbw_incl_excl n a b : 0 <= n <= wide_max -> wide_min <= a -> wide_min <= b ->
  range_bounds (Inc (index_wide a)) (Exc (index_wide b)) n = py_slice n (Rng a b).
Proof.
  intros Hn Ha Hb. rewrite range_bounds_spec by (cbn; auto using index_wide_range).
  cbn [start_of stop_of py_slice]. rewrite !py_bound_sat by assumption.
  pose proof (py_bound_le n a). pose proof (py_bound_le n b).
  destruct (Z.eqb_spec n 0); zcases; try reflexivity; lia.
Qed.

Lemma rbw_incl_unb n a : 0 <= n <= wide_max -> wide_min <= a ->
  range_bounds (Inc (index_wide a)) Unb n = py_slice n (From a).
Proof.
  intros Hn Ha. rewrite range_bounds_spec by (cbn; auto using index_wide_range).
  cbn [start_of stop_of py_slice]. rewrite !py_bound_sat by assumption.
  pose proof (py_bound_le n a).
  destruct (Z.eqb_spec n 0); zcases; try reflexivity; lia.
Qed.

Lemma rbw_unb_excl n b : 0 <= n <= wide_max -> wide_min <= b ->
  range_bounds Unb (Exc (index_wide b)) n = py_slice n (To b).
Proof.
  intros Hn Hb. rewrite range_bounds_spec by (cbn; auto using index_wide_range).
  cbn [start_of stop_of py_slice]. rewrite !py_bound_sat by assumption.
  pose proof (py_bound_le n b).
  destruct (Z.eqb_spec n 0); zcases; try reflexivity; lia.
Qed.

Lemma rbw_incl_incl n a b : 0 <= n <= wide_max -> wide_min <= a -> wide_min <= b ->
  range_bounds (Inc (index_wide a)) (Inc (index_wide b)) n = py_slice n (RngI a b).
Proof.
  intros Hn Ha Hb. rewrite range_bounds_spec by (cbn; auto using index_wide_range).
  cbn [start_of stop_of py_slice]. rewrite py_bound_sat, py_past_sat by assumption.
  pose proof (py_bound_le n a). pose proof (py_past_le n b).
  destruct (Z.eqb_spec n 0); zcases; try reflexivity; lia.
Qed.

Lemma rbw_unb_incl n b : 0 <= n <= wide_max -> wide_min <= b ->
  range_bounds Unb (Inc (index_wide b)) n = py_slice n (ToI b).
Proof.
  intros Hn Hb. rewrite range_bounds_spec by (cbn; auto using index_wide_range).
  cbn [start_of stop_of py_slice]. rewrite py_past_sat by assumption.
  pose proof (py_past_le n b).
  destruct (Z.eqb_spec n 0); zcases; try reflexivity; lia.
Qed.

Lemma rbw_full n : 0 <= n <= wide_max -> range_bounds Unb Unb n = py_slice n Full.
Proof.
  intros Hn. rewrite range_bounds_spec by (cbn; auto).
  cbn [start_of stop_of py_slice].
  destruct (Z.eqb_spec n 0); zcases; try reflexivity; lia.
Qed.

Lemma rbw_idx_signed n i : 0 <= n <= wide_max -> wide_min <= i <= wide_max ->
  range_bounds (Inc i) (Inc i) n = py_slice n (Idx i).
Proof.
  intros Hn Hi. rewrite range_bounds_spec by (cbn; auto).
  cbn [start_of stop_of]. unfold py_slice, py_bound, py_past, py_elem.
  destruct (Z.eqb_spec n 0); destruct (Z.leb_spec (- n) i); destruct (Z.ltb_spec i n); cbn [andb];
    destruct (Z.ltb_spec i 0); zcases; try reflexivity; try lia; try (apply f_equal; apply f_equal2; lia).
Qed.

Lemma idx_unsigned n i : 0 <= n -> 0 <= i ->
  (if i >=? n then None else Some (i, i + 1)) = py_slice n (Idx i).
Proof.
  unfold py_slice, py_elem. intros Hn Hi.
  destruct (Z.leb_spec (- n) i); destruct (Z.ltb_spec i n); cbn [andb];
    zcases; try lia; try reflexivity; try (apply f_equal; apply f_equal2; lia).
Qed.

Theorem view_bounds_py t s n :
  0 <= n <= wide_max -> sel_in t s = true -> view_bounds t s n = py_slice n s.
Proof.
  intros Hn Hs. destruct s as [i|a b|a|b|a b|b|]; cbn [view_bounds sel_in] in *.
  - destruct (ity_signed t) eqn:Hsg.
    + apply rbw_idx_signed; [exact Hn|]. pose proof (in_ity_signed _ _ Hsg Hs). unfold wide_min, wide_max. lia.
    + apply idx_unsigned; [lia|]. eapply in_ity_unsigned; eauto.
  - apply andb_true_iff in Hs as [Ha Hb]. apply in_ity_bounds in Ha, Hb.
    apply rbw_incl_excl; unfold wide_min; lia.
  - apply in_ity_bounds in Hs. apply rbw_incl_unb; unfold wide_min; lia.
  - apply in_ity_bounds in Hs. apply rbw_unb_excl; unfold wide_min; lia.
  - apply andb_true_iff in Hs as [Ha Hb]. apply in_ity_bounds in Ha, Hb.
    apply rbw_incl_incl; unfold wide_min; lia.
  - apply in_ity_bounds in Hs. apply rbw_unb_incl; unfold wide_min; lia.
  - apply rbw_full. exact Hn.
Qed.

Theorem py_slice_range n s a b : 0 <= n -> py_slice n s = Some (a, b) -> 0 <= a /\ a < b /\ b <= n.
Proof.
  intros Hn. unfold py_slice, py_bound, py_past, py_elem.
  destruct s as [i|x y|x|y|x y|y|].
  - destruct (Z.leb_spec (- n) i); destruct (Z.ltb_spec i n); cbn [andb];
      zcases; intros [= <- <-]; lia.
  - zcases; intros [= <- <-]; lia.
  - zcases; intros [= <- <-]; lia.
  - zcases; intros [= <- <-]; lia.
  - zcases; intros [= <- <-]; lia.
  - zcases; intros [= <- <-]; lia.
  - zcases; intros [= <- <-]; lia.
Qed.

(* an empty answer means no element is selected: characterisation of None *)
Theorem py_slice_none_idx n i : 0 <= n -> (py_slice n (Idx i) = None <-> (i < - n \/ n <= i)).
Proof.
  intros Hn. unfold py_slice, py_elem.
  destruct (Z.leb_spec (- n) i); destruct (Z.ltb_spec i n); cbn [andb];
    zcases; split; intros; try discriminate; try lia; reflexivity.
Qed.

Theorem view_bounds_type_independent t1 t2 s n :
  0 <= n <= wide_max -> sel_in t1 s = true -> sel_in t2 s = true ->
  view_bounds t1 s n = view_bounds t2 s n.
Proof. intros Hn H1 H2. rewrite !view_bounds_py by assumption. reflexivity. Qed.

(* ---------- the specification itself, characterised by element membership ---------- *)
(* py_slice returns the interval of exactly the selected elements (and None when there is none) *)
Theorem py_slice_member n s k : 0 <= n ->
  (selects n s k <-> match py_slice n s with Some (a, b) => a <= k < b | None => False end).
Proof.
  intros Hn. unfold selects, py_slice, norm, py_bound, py_past, py_elem.
  destruct s as [i|a b|a|b|a b|b|]; cbv zeta;
    repeat match goal with
           | |- context [?x <? ?y] => destruct (Z.ltb_spec x y)
           | |- context [?x <=? ?y] => destruct (Z.leb_spec x y)
           | |- context [(?p && ?q)%bool] => cbn [andb]
           end; cbn [andb]; try lia.
Qed.

(* ---------- the full domain of the code: every usize axis length ---------- *)
Lemma usize_wide n : 0 <= n <= usize_max -> 0 <= n <= wide_max.
Proof. unfold usize_max, wide_max. lia. Qed.

Theorem view_bounds_py_usize t s n :
  0 <= n <= usize_max -> sel_in t s = true -> view_bounds t s n = py_slice n s.
Proof. intros Hn Hs. apply view_bounds_py; [apply usize_wide, Hn|exact Hs]. Qed.

Theorem view_bounds_range t s n a b :
  0 <= n <= usize_max -> sel_in t s = true -> view_bounds t s n = Some (a, b) -> 0 <= a /\ a < b /\ b <= n.
Proof.
  intros Hn Hs E. rewrite (view_bounds_py_usize t s n Hn Hs) in E.
  apply (py_slice_range n s a b); [lia|exact E].
Qed.

Theorem view_bounds_type_independent_usize t1 t2 s n :
  0 <= n <= usize_max -> sel_in t1 s = true -> sel_in t2 s = true ->
  view_bounds t1 s n = view_bounds t2 s n.
Proof. intros Hn H1 H2. apply view_bounds_type_independent; try assumption. apply usize_wide, Hn. Qed.

(* the saturation of index_wide never happens on values of the index types *)
Lemma index_wide_never_saturates t z : in_ity t z = true -> index_wide z = z.
Proof. intros H. apply in_ity_bounds in H. unfold index_wide, wide_max. zcases; lia. Qed.

(* the same facts under the hypotheses of the i64 era (axis length and bounds within i64), kept under
   their old names for the files of other properties that use them *)
Lemma i64_in_wide n : 0 <= n <= i64_max -> 0 <= n <= wide_max.
Proof. unfold i64_max, wide_max. lia. Qed.
Lemma i64_min_wide a : i64_min <= a -> wide_min <= a.
Proof. unfold i64_min, wide_min. lia. Qed.

Lemma rb_incl_excl n a b : 0 <= n <= i64_max -> i64_min <= a -> i64_min <= b ->
  range_bounds (Inc (index_wide a)) (Exc (index_wide b)) n = py_slice n (Rng a b).
Proof. intros. apply rbw_incl_excl; auto using i64_in_wide, i64_min_wide. Qed.
Lemma rb_incl_unb n a : 0 <= n <= i64_max -> i64_min <= a ->
  range_bounds (Inc (index_wide a)) Unb n = py_slice n (From a).
Proof. intros. apply rbw_incl_unb; auto using i64_in_wide, i64_min_wide. Qed.
Lemma rb_unb_excl n b : 0 <= n <= i64_max -> i64_min <= b ->
  range_bounds Unb (Exc (index_wide b)) n = py_slice n (To b).
Proof. intros. apply rbw_unb_excl; auto using i64_in_wide, i64_min_wide. Qed.
Lemma rb_incl_incl n a b : 0 <= n <= i64_max -> i64_min <= a -> i64_min <= b ->
  range_bounds (Inc (index_wide a)) (Inc (index_wide b)) n = py_slice n (RngI a b).
Proof. intros. apply rbw_incl_incl; auto using i64_in_wide, i64_min_wide. Qed.
Lemma rb_unb_incl n b : 0 <= n <= i64_max -> i64_min <= b ->
  range_bounds Unb (Inc (index_wide b)) n = py_slice n (ToI b).
Proof. intros. apply rbw_unb_incl; auto using i64_in_wide, i64_min_wide. Qed.
Lemma rb_full n : 0 <= n <= i64_max -> range_bounds Unb Unb n = py_slice n Full.
Proof. intros. apply rbw_full; auto using i64_in_wide. Qed.
