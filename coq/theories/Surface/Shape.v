(* Model of Shape and the Surface / SurfaceMut operations (src/surface.rs)
   over a backing vector, and the plain-matrix "window" semantics they are
   compared with.  Executable definitions only. *)
From Coq Require Import List Arith Bool ZArith NArith.
From SNT Require Import Surface.Bounds.
Import ListNotations.

Record shape := mkShape {
  sh_start : nat; sh_end : nat; sh_width : nat; sh_height : nat;
  sh_rstride : nat; sh_cstride : nat }.

Definition offset (sh : shape) (r c : nat) : nat :=
  sh_start sh + r * sh_rstride sh + c * sh_cstride sh.

Definition of_size (h w : nat) : shape :=
  {| sh_start := 0; sh_end := h * w; sh_width := w; sh_height := h;
     sh_rstride := w; sh_cstride := 1 |}.

Definition zero_shape : shape := mkShape 0 0 0 0 0 0.

(* Shape::view with already resolved bounds (Some (first, last+1)) *)
Definition view (sh : shape) (rows cols : option (nat * nat)) : shape :=
  match cols, rows with
  | Some (cs, ce), Some (rs, re) =>
      {| sh_start := offset sh rs cs; sh_end := offset sh (re - 1) ce;
         sh_width := ce - cs; sh_height := re - rs;
         sh_rstride := sh_rstride sh; sh_cstride := sh_cstride sh |}
  | _, _ => zero_shape
  end.

Definition transpose (sh : shape) : shape :=
  {| sh_start := sh_start sh; sh_end := sh_end sh;
     sh_width := sh_height sh; sh_height := sh_width sh;
     sh_rstride := sh_cstride sh; sh_cstride := sh_rstride sh |}.

Definition is_empty (sh : shape) : bool := sh_end sh <=? sh_start sh.

(* Shape::nth *)
Definition nth_pos (sh : shape) (n : nat) : option (nat * nat) :=
  if sh_width sh =? 0 then None
  else
    let row := n / sh_width sh in
    let col := n - row * sh_width sh in
    if row <? sh_height sh then Some (row, col) else None.

(* selectors resolved through the model of view_bounds (C08), written as i64 *)
Definition resolve (dim : nat) (s : sel) : option (nat * nat) :=
  match view_bounds I64 s (Z.of_nat dim) with
  | Some (a, b) => Some (Z.to_nat a, Z.to_nat b)
  | None => None
  end.

Inductive vop := OpView (rows cols : sel) | OpT.

Definition apply_op (sh : shape) (o : vop) : shape :=
  match o with
  | OpView rs cs => view sh (resolve (sh_height sh) rs) (resolve (sh_width sh) cs)
  | OpT => transpose sh
  end.

Definition apply_chain (sh : shape) (ops : list vop) : shape := fold_left apply_op ops sh.

Section Ops.
  Context {A : Type}.

  (* Surface::get *)
  Definition get (sh : shape) (data : list A) (r c : nat) : option A :=
    if (sh_height sh <=? r) || (sh_width sh <=? c) then None
    else nth_error data (offset sh r c).

  (* SurfaceIter: yields until Shape::nth or data.get returns None *)
  Fixpoint iter_from (fuel index : nat) (sh : shape) (data : list A) : list A :=
    match fuel with
    | O => []
    | S f =>
        match nth_pos sh index with
        | None => []
        | Some (r, c) =>
            match nth_error data (offset sh r c) with
            | None => []
            | Some x => x :: iter_from f (S index) sh data
            end
        end
    end.

  Definition iter (sh : shape) (data : list A) : list A :=
    iter_from (S (sh_height sh * sh_width sh)) 0 sh data.

  (* SurfaceMutIter: the offsets of the references handed out, in order *)
  Fixpoint mut_offsets_from (fuel index : nat) (sh : shape) (len : nat) : list nat :=
    match fuel with
    | O => []
    | S f =>
        match nth_pos sh index with
        | None => []
        | Some (r, c) =>
            if len <=? offset sh r c then []
            else offset sh r c :: mut_offsets_from f (S index) sh len
        end
    end.

  Definition mut_offsets (sh : shape) (len : nat) : list nat :=
    mut_offsets_from (S (sh_height sh * sh_width sh)) 0 sh len.

  (* data[k] = x; None models the index-out-of-bounds panic *)
  Fixpoint set_nth (l : list A) (k : nat) (x : A) : option (list A) :=
    match l, k with
    | [], _ => None
    | _ :: t, O => Some (x :: t)
    | h :: t, S k' => option_map (cons h) (set_nth t k' x)
    end.

  Definition positions (h w : nat) : list (nat * nat) :=
    flat_map (fun r => map (fun c => (r, c)) (seq 0 w)) (seq 0 h).

  (* fill_with / fill / clear: for row, for col: data[offset] = f(pos, data[offset]) *)
  Definition upd_step (sh : shape) (f : nat -> nat -> A -> A) (acc : option (list A)) (p : nat * nat)
    : option (list A) :=
    match acc with
    | None => None
    | Some d =>
        let (r, c) := p in
        match nth_error d (offset sh r c) with
        | None => None
        | Some old => set_nth d (offset sh r c) (f r c old)
        end
    end.

  Definition fill_with (sh : shape) (data : list A) (f : nat -> nat -> A -> A) : option (list A) :=
    fold_left (upd_step sh f) (positions (sh_height sh) (sh_width sh)) (Some data).

  Definition fill (sh : shape) (data : list A) (x : A) : option (list A) :=
    fill_with sh data (fun _ _ _ => x).

  (* SurfaceMut::insert: skip row*width+col items of iter_mut, then zip *)
  Definition write_at (acc : option (list A)) (ox : nat * A) : option (list A) :=
    match acc with None => None | Some d => set_nth d (fst ox) (snd ox) end.

  Definition insert (sh : shape) (data : list A) (r c : nat) (items : list A) : option (list A) :=
    let offs := skipn (r * sh_width sh + c) (mut_offsets sh (length data)) in
    fold_left write_at (combine offs items) (Some data).

  (* Surface::map / to_owned_surf: SurfaceOwned::new_with(size, |pos| f(pos, data[offset(pos)])) *)
  Definition map_surf {B} (sh : shape) (data : list A) (f : nat -> nat -> A -> B) : option (list B) :=
    fold_right (fun (p : nat * nat) acc =>
                  match acc, nth_error data (offset sh (fst p) (snd p)) with
                  | Some t, Some x => Some (f (fst p) (snd p) x :: t)
                  | _, _ => None
                  end)
               (Some []) (positions (sh_height sh) (sh_width sh)).

  (* SurfaceIter::nth / next at absolute index i: shape.nth(i) then data.get(offset) *)
  Definition iter_at (sh : shape) (data : list A) (i : nat) : option A :=
    match nth_pos sh i with
    | Some (r, c) => nth_error data (offset sh r c)
    | None => None
    end.

  (* SurfaceIter::position with the iterator at index i *)
  Definition iter_position (sh : shape) (i : nat) : nat * nat :=
    match nth_pos sh i with Some p => p | None => (sh_height sh, 0) end.

  (* SurfaceIter::with_position: (position, item) pairs until next() returns None *)
  Fixpoint pos_iter_from (fuel index : nat) (sh : shape) (data : list A) : list (nat * nat * A) :=
    match fuel with
    | O => []
    | S f =>
        match iter_at sh data index with
        | Some x => (iter_position sh index, x) :: pos_iter_from f (S index) sh data
        | None => []
        end
    end.
  Definition pos_iter (sh : shape) (data : list A) : list (nat * nat * A) :=
    pos_iter_from (S (sh_height sh * sh_width sh)) 0 sh data.

  (* with_position() on an iterator that has already been advanced to index k (by next / nth): the
     SurfacePosIter wraps the iterator as it is, so it goes on from index k *)
  Definition pos_iter_after (sh : shape) (data : list A) (k : nat) : list (nat * nat * A) :=
    pos_iter_from (S (sh_height sh * sh_width sh)) k sh data.

  (* SurfaceMutIter at index i: the offset of the reference nth(0) hands out *)
  Definition mut_at (sh : shape) (len i : nat) : option nat :=
    match nth_pos sh i with
    | Some (r, c) => if len <=? offset sh r c then None else Some (offset sh r c)
    | None => None
    end.

  (* SurfaceMutIter::with_position from index `index` on: (position, offset of the reference) *)
  Fixpoint mut_pos_from (fuel index : nat) (sh : shape) (len : nat) : list (nat * nat * nat) :=
    match fuel with
    | O => []
    | S f =>
        match mut_at sh len index with
        | Some o => (iter_position sh index, o) :: mut_pos_from f (S index) sh len
        | None => []
        end
    end.
  Definition mut_pos_after (sh : shape) (len k : nat) : list (nat * nat * nat) :=
    mut_pos_from (S (sh_height sh * sh_width sh)) k sh len.

  (* SurfaceMut::get_mut: same addressing as get *)
  Definition get_mut (sh : shape) (data : list A) (r c : nat) : option A := get sh data r c.

  (* SurfaceMut::set: debug_assert!(row < height), debug_assert!(col < width), then
     mem::replace(&mut data[offset], item); None models a panic; the result is (old item, new data) *)
  Definition set_at (sh : shape) (data : list A) (r c : nat) (x : A) : option (A * list A) :=
    if (r <? sh_height sh) && (c <? sh_width sh) then
      match nth_error data (offset sh r c), set_nth data (offset sh r c) x with
      | Some old, Some d => Some (old, d)
      | _, _ => None
      end
    else None.

  (* SurfaceMut::insert with the index arithmetic `pos.row * self.width() + pos.col` in usize:
     an overflow panics (debug profile), here or in the iterator's own `self.index += n + 1`;
     otherwise skip `index` references of iter_mut, then zip *)
  Definition insert_at (sh : shape) (data : list A) (r c : N) (items : list A) : option (list A) :=
    let index := (r * N.of_nat (sh_width sh) + c)%N in
    if (18446744073709551616 <=? index)%N then None
    (* the iterator is advanced to `index`; the first next() then computes index + 1 *)
    else if (index =? 18446744073709551615)%N && match items with [] => false | _ => true end then None
    else
      let offs := mut_offsets sh (length data) in
      if (N.of_nat (length offs) <=? index)%N then Some data
      else fold_left write_at (combine (skipn (N.to_nat index) offs) items) (Some data).
End Ops.

(* SurfaceMut::clear: every cell of the window becomes Default::default() *)
Definition clear {A} (dflt : A) (sh : shape) (data : list A) : option (list A) := fill sh data dflt.

(* ---------- specification: windows of a plain H x W matrix ---------- *)
(* A window maps view coordinates to coordinates of the root matrix. *)
Record window := mkWin { w_r0 : nat; w_c0 : nat; w_h : nat; w_w : nat; w_t : bool }.

Definition win_root (H W : nat) : window := mkWin 0 0 H W false.
Definition win_empty : window := mkWin 0 0 0 0 false.

Definition win_coord (w : window) (r c : nat) : nat * nat :=
  if w_t w then (w_r0 w + c, w_c0 w + r) else (w_r0 w + r, w_c0 w + c).

(* the sub-window rows [rs, re) x cols [cs, ce) of a window, in the window's own coordinates *)
Definition win_view (w : window) (rows cols : option (nat * nat)) : window :=
  match cols, rows with
  | Some (cs, ce), Some (rs, re) =>
      if w_t w then mkWin (w_r0 w + cs) (w_c0 w + rs) (re - rs) (ce - cs) true
      else mkWin (w_r0 w + rs) (w_c0 w + cs) (re - rs) (ce - cs) false
  | _, _ => win_empty
  end.

Definition win_transpose (w : window) : window :=
  mkWin (w_r0 w) (w_c0 w) (w_w w) (w_h w) (negb (w_t w)).

(* selectors resolved by the Python slice specification *)
Definition py_resolve (dim : nat) (s : sel) : option (nat * nat) :=
  match py_slice (Z.of_nat dim) s with
  | Some (a, b) => Some (Z.to_nat a, Z.to_nat b)
  | None => None
  end.

Definition win_op (w : window) (o : vop) : window :=
  match o with
  | OpView rs cs => win_view w (py_resolve (w_h w) rs) (py_resolve (w_w w) cs)
  | OpT => win_transpose w
  end.

Definition win_chain (w : window) (ops : list vop) : window := fold_left win_op ops w.

(* the element of a row-major H x W matrix (stored in `data`) at root coordinates *)
Definition root_index (W : nat) (p : nat * nat) : nat := fst p * W + snd p.
