(* Proofs about the key-map trie of Keys/KeyMap.v (C18), part 1:
   lookup after any registration history = lookup in the dictionary of chords. *)
From Coq Require Import List Bool Lia.
From SNT Require Import Keys.KeyMap.
Import ListNotations.

Section Proofs.
  Context {K V : Type}.
  Variable cmp : K -> K -> comparison.
  Hypothesis cmp_eq : forall a b, cmp a b = Eq <-> a = b.

  Local Notation keq := (keq cmp).
  Local Notation find := (find cmp).
  Local Notation insert := (insert cmp).
  Local Notation submap := (submap cmp).
  Local Notation reg_go := (reg_go cmp).
  Local Notation register := (register cmp).
  Local Notation lookup := (lookup cmp).
  Local Notation is_prefix := (is_prefix cmp).
  Local Notation chord_eqb := (chord_eqb cmp).
  Local Notation proper_prefix := (proper_prefix cmp).
  Local Notation related := (related cmp).
  Local Notation reg := (reg cmp).
  Local Notation assoc := (assoc cmp).
  Local Notation spec_lookup := (spec_lookup cmp).
  Local Notation trie := (trie K V).
  Local Notation dict := (dict K V).

  (* ------------------------------------------------------ key equality *)

  Lemma keq_true a b : keq a b = true <-> a = b.
  Proof.
    unfold KeyMap.keq. destruct (cmp a b) eqn:E.
    - split; [intros _; apply cmp_eq, E | reflexivity].
    - split; [discriminate | intros ->]. assert (H : cmp b b = Eq) by (apply cmp_eq; reflexivity). congruence.
    - split; [discriminate | intros ->]. assert (H : cmp b b = Eq) by (apply cmp_eq; reflexivity). congruence.
  Qed.

  Lemma keq_refl a : keq a a = true.
  Proof. apply keq_true. reflexivity. Qed.

  Lemma keq_false a b : keq a b = false <-> a <> b.
  Proof.
    split.
    - intros H E. apply keq_true in E. congruence.
    - intros H. destruct (keq a b) eqn:E; [|reflexivity]. apply keq_true in E. contradiction.
  Qed.

  Lemma keq_sym a b : keq a b = keq b a.
  Proof.
    destruct (keq a b) eqn:E.
    - apply keq_true in E. subst. symmetry. apply keq_refl.
    - symmetry. apply keq_false. apply keq_false in E. congruence.
  Qed.

  Lemma chord_eqb_true a b : chord_eqb a b = true <-> a = b.
  Proof.
    revert b. induction a as [|x a IH]; intros [|y b]; cbn; try (split; [discriminate|congruence]).
    - split; reflexivity.
    - rewrite andb_true_iff, keq_true, IH. split; [intros [-> ->]; reflexivity | intros E; inversion E; auto].
  Qed.

  Lemma chord_eqb_refl a : chord_eqb a a = true.
  Proof. apply chord_eqb_true. reflexivity. Qed.

  Lemma chord_eqb_false a b : chord_eqb a b = false <-> a <> b.
  Proof.
    split.
    - intros H E. apply chord_eqb_true in E. congruence.
    - intros H. destruct (chord_eqb a b) eqn:E; [|reflexivity]. apply chord_eqb_true in E. contradiction.
  Qed.

  Lemma is_prefix_true p c : is_prefix p c = true <-> exists q, c = p ++ q.
  Proof.
    revert c. induction p as [|a p IH]; intros c; cbn.
    - split; [intros _; exists c; reflexivity | reflexivity].
    - destruct c as [|b c].
      + split; [discriminate | intros [q E]; discriminate].
      + rewrite andb_true_iff, keq_true, IH. split.
        * intros [-> [q ->]]. exists q. reflexivity.
        * intros [q E]. inversion E. split; [reflexivity | exists q; reflexivity].
  Qed.

  Lemma is_prefix_refl c : is_prefix c c = true.
  Proof. apply is_prefix_true. exists []. symmetry. apply app_nil_r. Qed.

  Lemma is_prefix_nil_r p : is_prefix p [] = true -> p = [].
  Proof. destruct p; [reflexivity | discriminate]. Qed.

  Lemma is_prefix_trans a b c : is_prefix a b = true -> is_prefix b c = true -> is_prefix a c = true.
  Proof.
    rewrite !is_prefix_true. intros [q ->] [r ->]. exists (q ++ r). symmetry. apply app_assoc.
  Qed.

  Lemma is_prefix_antisym a b : is_prefix a b = true -> is_prefix b a = true -> a = b.
  Proof.
    revert b. induction a as [|x a IH]; intros [|y b]; cbn; try discriminate; try reflexivity.
    rewrite !andb_true_iff, !keq_true. intros [-> H1] [_ H2]. f_equal. apply IH; assumption.
  Qed.

  (* two prefixes of the same chord are related *)
  Lemma prefixes_related a b x :
    is_prefix a x = true -> is_prefix b x = true -> related a b = true.
  Proof.
    unfold KeyMap.related. revert b x. induction a as [|p a IH]; intros b x Ha Hb; [reflexivity|].
    destruct b as [|q b]; [cbn; rewrite ?orb_true_r; reflexivity|].
    destruct x as [|y x]; [discriminate|]. cbn in *.
    apply andb_true_iff in Ha as [Ha1 Ha2]. apply andb_true_iff in Hb as [Hb1 Hb2].
    apply keq_true in Ha1. apply keq_true in Hb1. subst.
    rewrite keq_refl. cbn. eapply IH; eassumption.
  Qed.

  Lemma related_sym a b : related a b = related b a.
  Proof. unfold KeyMap.related. apply orb_comm. Qed.

  Lemma related_refl a : related a a = true.
  Proof. unfold KeyMap.related. rewrite is_prefix_refl. reflexivity. Qed.

  (* ------------------------------------------------- BTreeMap get/insert *)

  Lemma find_cons_entry k (e : entry K V) (t : trie) k' :
    find (cons_entry k e t) k' = if keq k' k then Some e else find t k'.
  Proof. destruct e; reflexivity. Qed.

  Lemma find_insert k (e : entry K V) (t : trie) k' :
    find (insert k e t) k' = if keq k' k then Some e else find t k'.
  Proof.
    induction t as [|k0 v0 rest IH|k0 s0 _ rest IH]; cbn [KeyMap.insert].
    - apply find_cons_entry.
    - destruct (cmp k k0) eqn:E.
      + apply cmp_eq in E. subst k0. rewrite find_cons_entry. cbn [KeyMap.find].
        destruct (keq k' k); reflexivity.
      + rewrite find_cons_entry. reflexivity.
      + cbn [KeyMap.find]. rewrite IH. destruct (keq k' k0) eqn:E0; [|reflexivity].
        apply keq_true in E0. subst k'.
        assert (Hne : keq k0 k = false).
        { apply keq_false. intros ->. assert (cmp k k = Eq) by (apply cmp_eq; reflexivity). congruence. }
        rewrite Hne. reflexivity.
    - destruct (cmp k k0) eqn:E.
      + apply cmp_eq in E. subst k0. rewrite find_cons_entry. cbn [KeyMap.find].
        destruct (keq k' k); reflexivity.
      + rewrite find_cons_entry. reflexivity.
      + cbn [KeyMap.find]. rewrite IH. destruct (keq k' k0) eqn:E0; [|reflexivity].
        apply keq_true in E0. subst k'.
        assert (Hne : keq k0 k = false).
        { apply keq_false. intros ->. assert (cmp k k = Eq) by (apply cmp_eq; reflexivity). congruence. }
        rewrite Hne. reflexivity.
  Qed.

  (* --------------------------------------- lookup after one registration *)

  (* what a registration of chord c does to the answer for chord c' *)
  Definition step_spec (c : list K) (v : V) (old : kmres V) (c' : list K) : kmres V :=
    if chord_eqb c c' then Success v
    else if is_prefix c' c then Continue
    else if is_prefix c c' then Failure
    else old.

  Lemma lookup_nil_trie c : c <> [] -> lookup (TNil : trie) c = Failure.
  Proof. destruct c; [congruence | reflexivity]. Qed.

  Lemma lookup_submap (t : trie) k rest :
    rest <> [] -> lookup (submap t k) rest = lookup t (k :: rest).
  Proof.
    intros Hne. unfold KeyMap.submap. cbn [KeyMap.lookup].
    destruct (find t k) as [[v|s]|].
    - destruct rest; [congruence|reflexivity].
    - reflexivity.
    - apply lookup_nil_trie, Hne.
  Qed.

  Lemma lookup_reg_go : forall rest k v (t : trie) c',
    c' <> [] ->
    lookup (reg_go t k rest v) c' = step_spec (k :: rest) v (lookup t c') c'.
  Proof.
    induction rest as [|k2 rest2 IH]; intros k v t c' Hc'.
    - (* single key: insert k (EVal v) *)
      destruct c' as [|k' rest']; [congruence|].
      cbn [KeyMap.reg_go KeyMap.lookup]. rewrite find_insert.
      unfold step_spec. cbn [KeyMap.chord_eqb KeyMap.is_prefix].
      rewrite (keq_sym k k'). destruct (keq k' k) eqn:E; cbn [andb].
      + destruct rest' as [|k'' rest'']; cbn; reflexivity.
      + reflexivity.
    - destruct c' as [|k' rest']; [congruence|].
      cbn [KeyMap.reg_go]. cbn [KeyMap.lookup]. rewrite find_insert.
      unfold step_spec. cbn [KeyMap.chord_eqb KeyMap.is_prefix].
      rewrite (keq_sym k k'). destruct (keq k' k) eqn:E; cbn [andb].
      + apply keq_true in E. subst k'.
        destruct rest' as [|k'' rest''].
        * cbn. reflexivity.
        * rewrite IH by discriminate. unfold step_spec.
          rewrite lookup_submap by discriminate. reflexivity.
      + reflexivity.
  Qed.

  Lemma lookup_register c v (t : trie) c' :
    c <> [] -> c' <> [] ->
    lookup (register t c v) c' = step_spec c v (lookup t c') c'.
  Proof.
    intros Hc Hc'. destruct c as [|k rest]; [congruence|]. apply lookup_reg_go, Hc'.
  Qed.

  (* ------------------------------- the dictionary obeys the same equation *)

  Lemma assoc_filter_unrelated c c' (d : dict) :
    related c c' = false ->
    assoc c' (filter (fun p => negb (related c (fst p))) d) = assoc c' d.
  Proof.
    intros Hun. induction d as [|[c1 v1] d IH]; [reflexivity|].
    cbn [filter fst]. destruct (related c c1) eqn:R; cbn [negb].
    - cbn [KeyMap.assoc]. destruct (chord_eqb c1 c') eqn:E.
      + apply chord_eqb_true in E. subst. congruence.
      + exact IH.
    - cbn [KeyMap.assoc]. rewrite IH. reflexivity.
  Qed.

  Lemma assoc_filter_related c c' (d : dict) :
    related c c' = true ->
    assoc c' (filter (fun p => negb (related c (fst p))) d) = None.
  Proof.
    intros Hrel. induction d as [|[c1 v1] d IH]; [reflexivity|].
    cbn [filter fst]. destruct (related c c1) eqn:R; cbn [negb].
    - exact IH.
    - cbn [KeyMap.assoc]. destruct (chord_eqb c1 c') eqn:E.
      + apply chord_eqb_true in E. subst. congruence.
      + exact IH.
  Qed.

  Lemma proper_prefix_true p c :
    proper_prefix p c = true <-> is_prefix p c = true /\ p <> c.
  Proof.
    unfold KeyMap.proper_prefix. rewrite andb_true_iff, negb_true_iff, chord_eqb_false. reflexivity.
  Qed.

  Lemma exists_ext_filter_unrelated c c' (d : dict) :
    related c c' = false ->
    existsb (fun p => proper_prefix c' (fst p)) (filter (fun p => negb (related c (fst p))) d)
    = existsb (fun p => proper_prefix c' (fst p)) d.
  Proof.
    intros Hun. induction d as [|[c1 v1] d IH]; [reflexivity|].
    cbn [filter fst]. destruct (related c c1) eqn:R; cbn [negb existsb fst].
    - rewrite IH. destruct (proper_prefix c' c1) eqn:P; [|reflexivity].
      (* c' prefix of c1 and c related to c1 would make c, c' related *)
      exfalso. apply proper_prefix_true in P as [P _].
      unfold KeyMap.related in R. apply orb_true_iff in R as [R|R].
      + (* c prefix of c1 *)
        assert (H := prefixes_related _ _ _ R P). congruence.
      + (* c1 prefix of c, so c' prefix of c *)
        assert (H := is_prefix_trans _ _ _ P R).
        unfold KeyMap.related in Hun. rewrite H, orb_true_r in Hun. discriminate.
    - rewrite IH. reflexivity.
  Qed.

  Lemma exists_ext_filter_above c c' (d : dict) :
    is_prefix c c' = true ->
    existsb (fun p => proper_prefix c' (fst p)) (filter (fun p => negb (related c (fst p))) d) = false.
  Proof.
    intros Hpre. induction d as [|[c1 v1] d IH]; [reflexivity|].
    cbn [filter fst]. destruct (related c c1) eqn:R; cbn [negb existsb fst].
    - exact IH.
    - rewrite IH, orb_false_r. destruct (proper_prefix c' c1) eqn:P; [|reflexivity].
      exfalso. apply proper_prefix_true in P as [P _].
      assert (H := is_prefix_trans _ _ _ Hpre P).
      unfold KeyMap.related in R. rewrite H in R. discriminate.
  Qed.

  Lemma spec_lookup_reg c v (d : dict) c' :
    c <> [] ->
    spec_lookup (reg c v d) c' = step_spec c v (spec_lookup d c') c'.
  Proof.
    intros Hc.
    assert (Hreg : reg c v d = (c, v) :: filter (fun p => negb (related c (fst p))) d)
      by (destruct c; [congruence | reflexivity]).
    rewrite Hreg. clear Hreg. unfold step_spec.
    unfold KeyMap.spec_lookup at 1. cbn [KeyMap.assoc].
    destruct (chord_eqb c c') eqn:E; [reflexivity|].
    cbn [existsb fst].
    destruct (is_prefix c' c) eqn:P1.
    - (* c' a proper prefix of c *)
      rewrite assoc_filter_related by (unfold KeyMap.related; rewrite P1; apply orb_true_r).
      assert (PP : proper_prefix c' c = true).
      { apply proper_prefix_true. split; [exact P1|]. apply chord_eqb_false in E. congruence. }
      rewrite PP. reflexivity.
    - destruct (is_prefix c c') eqn:P2.
      + rewrite assoc_filter_related by (unfold KeyMap.related; rewrite P2; reflexivity).
        assert (PP : proper_prefix c' c = false).
        { unfold KeyMap.proper_prefix. rewrite P1. reflexivity. }
        rewrite PP, exists_ext_filter_above by exact P2. reflexivity.
      + assert (Hun : related c c' = false) by (unfold KeyMap.related; rewrite P1, P2; reflexivity).
        rewrite assoc_filter_unrelated by exact Hun.
        assert (PP : proper_prefix c' c = false).
        { unfold KeyMap.proper_prefix. rewrite P1. reflexivity. }
        rewrite PP, exists_ext_filter_unrelated by exact Hun. reflexivity.
  Qed.

  (* ------------------------------------------------------- all histories *)

  (* the trie t answers like the dictionary d on every non-empty chord *)
  Definition refines (t : trie) (d : dict) : Prop :=
    forall c, c <> [] -> lookup t c = spec_lookup d c.

  Lemma refines_empty : refines TNil [].
  Proof. intros c Hc. rewrite lookup_nil_trie by exact Hc. reflexivity. Qed.

  Lemma refines_register (t : trie) (d : dict) c v :
    refines t d -> refines (register t c v) (reg c v d).
  Proof.
    intros R. destruct c as [|k rest]; [exact R|].
    intros c' Hc'. rewrite lookup_register by (discriminate || exact Hc').
    rewrite spec_lookup_reg by discriminate. rewrite R by exact Hc'. reflexivity.
  Qed.

  Lemma refines_register_all l : forall (t : trie) (d : dict),
    refines t d ->
    refines (register_all cmp t l) (fold_left (fun d p => reg (fst p) (snd p) d) l d).
  Proof.
    induction l as [|[c v] l IH]; intros t d R; [exact R|].
    cbn [KeyMap.register_all fold_left fst snd]. apply IH, refines_register, R.
  Qed.

  Theorem lookup_refines (h : list (list K * V)) :
    refines (build cmp h) (spec_build cmp h).
  Proof. apply refines_register_all, refines_empty. Qed.

End Proofs.
