(* C18, part 4: the stateful matcher (KeyMap::lookup_state, KeyMapHandler::handle). *)
From Coq Require Import List Bool Lia.
From SNT Require Import Keys.KeyMap Keys.KeyMapProofs Keys.KeyMapDict.
Import ListNotations.

Section Matcher.
  Context {K V : Type}.
  Variable cmp : K -> K -> comparison.
  Hypothesis cmp_eq : forall a b, cmp a b = Eq <-> a = b.

  Local Notation lookup := (lookup cmp).
  Local Notation lookup_state := (lookup_state cmp).
  Local Notation run := (run cmp).
  Local Notation is_prefix := (is_prefix cmp).
  Local Notation proper_prefix := (proper_prefix cmp).
  Local Notation spec_lookup := (spec_lookup cmp).
  Local Notation spec_handle := (spec_handle cmp).
  Local Notation spec_run := (spec_run cmp).
  Local Notation refines := (refines cmp).
  Local Notation prefix_free := (prefix_free cmp).
  Local Notation trie := (trie K V).
  Local Notation dict := (dict K V).

  (* the coded two-iteration loop is the dictionary-level matcher *)
  Lemma lookup_state_spec (t : trie) (d : dict) st k :
    refines t d -> lookup_state t st k = spec_handle d st k.
  Proof.
    intros R. unfold KeyMap.lookup_state, KeyMap.spec_handle.
    rewrite (R (st ++ [k])) by (destruct st; discriminate).
    rewrite (R [k]) by discriminate.
    destruct (spec_lookup d (st ++ [k])); reflexivity.
  Qed.

  Lemma run_spec (t : trie) (d : dict) :
    refines t d -> forall keys st, run t st keys = spec_run d st keys.
  Proof.
    intros R. induction keys as [|k ks IH]; intros st; [reflexivity|].
    cbn [KeyMap.run KeyMap.spec_run]. rewrite (lookup_state_spec t d st k R).
    destruct (spec_handle d st k) as [st' o]. rewrite IH. reflexivity.
  Qed.

  (* what the matcher reports while a chord of n keys is typed and fires: n-1
     times nothing, then the value *)
  Definition fires_at_last (v : V) (n : nat) : list (option V) := repeat None (n - 1) ++ [Some v].

  Lemma proper_prefix_app p k q : proper_prefix (p ++ [k]) (p ++ k :: q) = (match q with [] => false | _ => true end).
  Proof.
    destruct q as [|k2 q].
    - unfold KeyMap.proper_prefix. rewrite (chord_eqb_refl cmp cmp_eq). apply andb_false_r.
    - apply (proper_prefix_true cmp cmp_eq). split.
      + apply (is_prefix_true cmp cmp_eq). exists (k2 :: q). rewrite <- app_assoc. reflexivity.
      + intros E. apply (f_equal (@length K)) in E. rewrite !app_length in E. cbn in E. lia.
  Qed.

  Lemma spec_run_cons (d : dict) st k ks :
    spec_run d st (k :: ks) =
    (let '(st', o) := spec_handle d st k in
     let '(st'', os) := spec_run d st' ks in (st'', o :: os)).
  Proof. reflexivity. Qed.

  (* with the keys p pending, where p ++ q is bound to v: typing q fires v at the last key of q *)
  Lemma spec_fires (d : dict) : prefix_free d -> forall q p v,
    In (p ++ q, v) d -> q <> [] ->
    spec_run d p q = ([], fires_at_last v (length q)).
  Proof.
    intros Hpf. induction q as [|k q IH]; intros p v Hin Hq; [congruence|].
    destruct q as [|k2 q2].
    - cbn [KeyMap.spec_run]. unfold KeyMap.spec_handle.
      assert (E : spec_lookup d (p ++ [k]) = Success v) by (apply (spec_lookup_success cmp cmp_eq); assumption).
      rewrite E. reflexivity.
    - assert (E : spec_lookup d (p ++ [k]) = Continue).
      { apply (spec_lookup_continue cmp cmp_eq); [exact Hpf|]. exists (p ++ k :: k2 :: q2), v.
        split; [exact Hin|]. rewrite proper_prefix_app. reflexivity. }
      assert (H : spec_handle d p k = (p ++ [k], None)) by (unfold KeyMap.spec_handle; rewrite E; reflexivity).
      rewrite spec_run_cons, H.
      rewrite (IH (p ++ [k]) v); [| rewrite <- app_assoc; exact Hin | discriminate].
      unfold fires_at_last. cbn [length]. rewrite !PeanoNat.Nat.sub_succ, !PeanoNat.Nat.sub_0_r. reflexivity.
  Qed.

  (* "unbound key": one that begins no bound chord *)
  Definition begins_no_chord (u : K) (d : dict) : Prop :=
    forall c v, In (c, v) d -> forall r, c <> u :: r.

  Lemma spec_lookup_unbound_head (d : dict) u r :
    prefix_free d -> begins_no_chord u d -> spec_lookup d (u :: r) = Failure.
  Proof.
    intros Hpf Hu. apply (spec_lookup_failure cmp cmp_eq); [exact Hpf|]. split.
    - intros v Hin. exact (Hu _ _ Hin r eq_refl).
    - intros c' v' Hin. destruct (proper_prefix (u :: r) c') eqn:P; [|reflexivity]. exfalso.
      apply (proper_prefix_true cmp cmp_eq) in P as [P _].
      apply (is_prefix_true cmp cmp_eq) in P as [q ->]. exact (Hu _ _ Hin (r ++ q) eq_refl).
  Qed.

  (* Whatever is pending, after a key u that begins no bound chord and does not
     continue the pending chord, a bound chord typed next fires at its last key. *)
  Theorem spec_recovers (d : dict) u c v st :
    prefix_free d -> begins_no_chord u d -> In (c, v) d -> c <> [] ->
    spec_lookup d (st ++ [u]) <> Continue ->
    exists st' o, spec_handle d st u = (st', o)
                  /\ spec_run d st' c = ([], fires_at_last v (length c)).
  Proof.
    intros Hpf Hu Hin Hc Hnc. unfold KeyMap.spec_handle.
    destruct (spec_lookup d (st ++ [u])) as [v0| |] eqn:E; [| |congruence].
    - exists [], (Some v0). split; [reflexivity|]. apply spec_fires; assumption.
    - rewrite (spec_lookup_unbound_head d u [] Hpf Hu).
      exists [u], None. split; [reflexivity|].
      destruct c as [|k1 q]; [congruence|].
      cbn [KeyMap.spec_run]. unfold KeyMap.spec_handle. cbn [app].
      rewrite (spec_lookup_unbound_head d u [k1] Hpf Hu).
      destruct q as [|k2 q2].
      + assert (E1 : spec_lookup d [k1] = Success v) by (apply (spec_lookup_success cmp cmp_eq); assumption).
        rewrite E1. reflexivity.
      + assert (E1 : spec_lookup d [k1] = Continue).
        { apply (spec_lookup_continue cmp cmp_eq); [exact Hpf|]. exists (k1 :: k2 :: q2), v.
          split; [exact Hin|]. apply (proper_prefix_app [] k1 (k2 :: q2)). }
        rewrite E1. rewrite (spec_fires d Hpf (k2 :: q2) [k1] v Hin) by discriminate.
        unfold fires_at_last. cbn [length]. rewrite !PeanoNat.Nat.sub_succ, !PeanoNat.Nat.sub_0_r. reflexivity.
  Qed.

  (* from the idle state: the unbound key reports nothing, then the chord fires *)
  Corollary spec_recovers_idle (d : dict) u c v :
    prefix_free d -> begins_no_chord u d -> In (c, v) d -> c <> [] ->
    spec_run d [] (u :: c) = ([], None :: fires_at_last v (length c)).
  Proof.
    intros Hpf Hu Hin Hc.
    destruct (spec_recovers d u c v [] Hpf Hu Hin Hc) as [st' [o [E1 E2]]].
    { cbn [app]. rewrite (spec_lookup_unbound_head d u [] Hpf Hu). discriminate. }
    cbn [KeyMap.spec_run]. rewrite E1, E2.
    unfold KeyMap.spec_handle in E1. cbn [app] in E1.
    rewrite (spec_lookup_unbound_head d u [] Hpf Hu) in E1. injection E1 as _ <-. reflexivity.
  Qed.

  (* states the matcher can be in: nothing pending, a proper prefix of a bound chord, or one rejected key *)
  Definition pending_ok (d : dict) (st : list K) : Prop :=
    st = [] \/ spec_lookup d st = Continue \/ (exists k, st = [k] /\ spec_lookup d [k] = Failure).
  Definition pending_ok_state := pending_ok.

  (* converse: the matcher fires only bound chords — the pending keys followed by
     the key, or (after a failed first pass) the key alone *)
  Lemma spec_handle_fires_bound (d : dict) st k st' v :
    prefix_free d -> spec_handle d st k = (st', Some v) ->
    st' = [] /\ (In (st ++ [k], v) d \/ (spec_lookup d (st ++ [k]) = Failure /\ In ([k], v) d)).
  Proof.
    intros Hpf. unfold KeyMap.spec_handle.
    destruct (spec_lookup d (st ++ [k])) as [v0| |] eqn:E.
    - intros H. injection H as <- <-. split; [reflexivity|]. left.
      apply (spec_lookup_success cmp cmp_eq); assumption.
    - destruct (spec_lookup d [k]) as [v1| |] eqn:E1; intros H; try discriminate.
      injection H as <- <-. split; [reflexivity|]. right. split; [reflexivity|].
      apply (spec_lookup_success cmp cmp_eq); assumption.
    - discriminate.
  Qed.

  (* the literal reading "an unbound key never prevents the chord typed right after it
     from firing", for every pending state, is false: the unbound key may continue the
     pending chord.  Stated over the dictionary; KeyMapInst lifts it to the trie. *)
  Definition never_prevents (d : dict) : Prop :=
    forall st u c v, begins_no_chord u d -> In (c, v) d -> c <> [] ->
      pending_ok_state d st ->
      exists st' o, spec_handle d st u = (st', o)
                    /\ spec_run d st' c = ([], fires_at_last v (length c)).

  (* No matcher can satisfy both clauses as the property text words them: with  a u c -> 1  and  c -> 2
     bound and u beginning no bound chord, the answers o1 o2 o3 to the keys a u c typed from idle would
     have to be (nothing, nothing, 1) by "a bound chord fires exactly at its last key" and end in 2 by
     "the chord typed immediately after the unbound key u fires".  Independent of any implementation. *)
  Lemma clauses_incompatible (v1 v2 : V) (o1 o2 o3 : option V) :
    v1 <> v2 ->
    [o1; o2; o3] = fires_at_last v1 3 ->        (* clause A for the chord a u c *)
    [o3] = fires_at_last v2 1 ->                (* clause B for the chord c typed right after u *)
    False.
  Proof. unfold fires_at_last. cbn. intros Hne HA HB. injection HA as _ _ H3. injection HB as H3'. congruence. Qed.

  (* the pending keys are always empty, a proper prefix of a bound chord, or one rejected key *)

  Lemma spec_handle_pending (d : dict) st k :
    pending_ok d (fst (spec_handle d st k)).
  Proof.
    unfold KeyMap.spec_handle.
    destruct (spec_lookup d (st ++ [k])) eqn:E; cbn [fst].
    - left. reflexivity.
    - destruct (spec_lookup d [k]) eqn:E1; cbn [fst].
      + left. reflexivity.
      + right. right. exists k. split; [reflexivity | exact E1].
      + right. left. exact E1.
    - right. left. exact E.
  Qed.

End Matcher.
