(* Model of src/keys.rs KeyMap / KeyMapHandler  (C18).

   pub struct KeyMap<V> { mapping: BTreeMap<Key, Result<V, KeyMap<V>>> }

   A BTreeMap is modelled as an association list kept ordered by key: `find`
   is BTreeMap::get, `insert` is BTreeMap::insert (replace on equal key, else
   insert at the sorted position).  The trie is one inductive type in which
   an entry `Ok(value)` is `TVal` and an entry `Err(sub_map)` is `TSub`:

       TVal k v rest   =  (k, Ok v)    :: rest
       TSub k sub rest =  (k, Err sub) :: rest

   Everything is generic in the key type `K` (with a three-way comparison
   `cmp`, the derived `Ord` of `Key`) and the value type `V`.  Keys/KeyParse.v
   instantiates `K` with the concrete key type.

   The specification side (a dictionary of chords: `reg`, `spec_lookup`,
   `spec_handle`) is at the end of this file; it never mentions the trie. *)
From Coq Require Import List Bool.
Import ListNotations.

Section KeyMap.
  Context {K V : Type}.
  Variable cmp : K -> K -> comparison.

  Definition keq (a b : K) : bool :=
    match cmp a b with Eq => true | _ => false end.

  (* ------------------------------------------------------------ the trie *)

  Inductive trie : Type :=
  | TNil
  | TVal (k : K) (v : V) (rest : trie)
  | TSub (k : K) (sub : trie) (rest : trie).

  (* Result<V, KeyMap<V>> *)
  Inductive entry : Type :=
  | EVal (v : V)
  | ESub (t : trie).

  Definition cons_entry (k : K) (e : entry) (rest : trie) : trie :=
    match e with
    | EVal v => TVal k v rest
    | ESub s => TSub k s rest
    end.

  (* BTreeMap::get *)
  Fixpoint find (t : trie) (k : K) : option entry :=
    match t with
    | TNil => None
    | TVal k' v rest => if keq k k' then Some (EVal v) else find rest k
    | TSub k' s rest => if keq k k' then Some (ESub s) else find rest k
    end.

  (* BTreeMap::insert *)
  Fixpoint insert (k : K) (e : entry) (t : trie) : trie :=
    match t with
    | TNil => cons_entry k e TNil
    | TVal k' v rest =>
        match cmp k k' with
        | Lt => cons_entry k e t
        | Eq => cons_entry k e rest
        | Gt => TVal k' v (insert k e rest)
        end
    | TSub k' s rest =>
        match cmp k k' with
        | Lt => cons_entry k e t
        | Eq => cons_entry k e rest
        | Gt => TSub k' s (insert k e rest)
        end
    end.

  (* keys.rs:436-447   entry(key).and_modify(|r| if r.is_ok() { *r = Err(new) })
                                 .or_insert_with(|| Err(new)).as_mut().err().unwrap()
     the sub-map that register_rec descends into: the existing one, or a
     fresh empty map when the key is absent or bound to a value *)
  Definition submap (t : trie) (k : K) : trie :=
    match find t k with
    | Some (ESub s) => s
    | Some (EVal _) => TNil
    | None => TNil
    end.

  (* keys.rs:431-457  register, for the chord k :: rest.
     split_last + register_rec over the prefix + insert(last, Ok(value)),
     written as one structural recursion: every key but the last descends
     (creating / replacing), the last key is inserted with the value. *)
  Fixpoint reg_go (t : trie) (k : K) (rest : list K) (v : V) : trie :=
    match rest with
    | [] => insert k (EVal v) t
    | k2 :: rest2 => insert k (ESub (reg_go (submap t k) k2 rest2 v)) t
    end.

  Definition register (t : trie) (chord : list K) (v : V) : trie :=
    match chord with
    | [] => t                      (* split_last() = None: nothing happens *)
    | k :: rest => reg_go t k rest v
    end.

  (* the value returned by register: what `insert` displaced at the last key *)
  Fixpoint register_old (t : trie) (chord : list K) : option entry :=
    match chord with
    | [] => None
    | [k] => find t k
    | k :: rest => register_old (submap t k) rest
    end.

  (* keys.rs:397-406 *)
  Inductive kmres : Type :=
  | Success (v : V)
  | Failure
  | Continue.

  (* keys.rs:492-514  lookup: the try_fold over the keys; a value met at
     index i is Success iff i + 1 = chord.len(), i.e. no key is left *)
  Fixpoint lookup (t : trie) (chord : list K) : kmres :=
    match chord with
    | [] => Continue
    | k :: rest =>
        match find t k with
        | None => Failure
        | Some (ESub s) => lookup s rest
        | Some (EVal v) => match rest with [] => Success v | _ :: _ => Failure end
        end
    end.

  (* keys.rs:474-489  for_each: depth first in BTreeMap order; `pre` is the
     chord vector on entry *)
  Fixpoint bindings (t : trie) (pre : list K) : list (list K * V) :=
    match t with
    | TNil => []
    | TVal k v rest => (pre ++ [k], v) :: bindings rest pre
    | TSub k s rest => bindings s (pre ++ [k]) ++ bindings rest pre
    end.

  Definition for_each (t : trie) : list (list K * V) := bindings t [].

  Definition register_all (t : trie) (l : list (list K * V)) : trie :=
    fold_left (fun t p => register t (fst p) (snd p)) l t.

  (* keys.rs:464-471 *)
  Definition register_override (t other : trie) : trie :=
    register_all t (for_each other).

  (* keys.rs:517-533  lookup_state: returns (chord vector afterwards, result) *)
  Definition lookup_state (t : trie) (st : list K) (key : K) : list K * option V :=
    let st1 := st ++ [key] in
    match lookup t st1 with
    | Continue => (st1, None)
    | Success v => ([], Some v)
    | Failure =>
        (* chord.clear(); chord.push(key); second iteration *)
        match lookup t [key] with
        | Continue => ([key], None)
        | Success v => ([], Some v)
        | Failure => ([key], None)   (* loop ends, chord = [key] *)
        end
    end.

  (* KeyMapHandler::handle fed a key sequence from a given state *)
  Fixpoint run (t : trie) (st : list K) (keys : list K) : list K * list (option V) :=
    match keys with
    | [] => (st, [])
    | k :: ks =>
        let '(st', o) := lookup_state t st k in
        let '(st'', os) := run t st' ks in
        (st'', o :: os)
    end.

  (* the map after a registration history *)
  Definition build (h : list (list K * V)) : trie := register_all TNil h.

  (* ------------------------------------------------ specification side *)

  Fixpoint is_prefix (p c : list K) : bool :=
    match p, c with
    | [], _ => true
    | a :: p', b :: c' => keq a b && is_prefix p' c'
    | _ :: _, [] => false
    end.

  Fixpoint chord_eqb (a b : list K) : bool :=
    match a, b with
    | [], [] => true
    | x :: a', y :: b' => keq x y && chord_eqb a' b'
    | _, _ => false
    end.

  Definition proper_prefix (p c : list K) : bool :=
    is_prefix p c && negb (chord_eqb p c).

  (* one is a prefix of the other (equal chords included) *)
  Definition related (a b : list K) : bool := is_prefix a b || is_prefix b a.

  Definition dict := list (list K * V).

  (* registering supersedes every bound chord that is a prefix or an extension *)
  Definition reg (c : list K) (v : V) (d : dict) : dict :=
    match c with
    | [] => d
    | _ :: _ => (c, v) :: filter (fun p => negb (related c (fst p))) d
    end.

  Definition spec_build (h : list (list K * V)) : dict :=
    fold_left (fun d p => reg (fst p) (snd p) d) h [].

  Fixpoint assoc (c : list K) (d : dict) : option V :=
    match d with
    | [] => None
    | (c', v) :: r => if chord_eqb c' c then Some v else assoc c r
    end.

  Definition spec_lookup (d : dict) (c : list K) : kmres :=
    match assoc c d with
    | Some v => Success v
    | None => if existsb (fun p => proper_prefix c (fst p)) d then Continue else Failure
    end.

  (* override merging: the other dictionary wins; of this one, only the
     chords unrelated to every chord of the other survive *)
  Definition spec_override (d other : dict) : dict :=
    other ++ filter (fun p => forallb (fun q => negb (related (fst q) (fst p))) other) d.

  (* the stateful matcher described over the dictionary: the pending keys are
     extended; a bound chord fires and clears; a proper prefix waits; anything
     else restarts with the last key alone *)
  Definition spec_handle (d : dict) (st : list K) (key : K) : list K * option V :=
    match spec_lookup d (st ++ [key]) with
    | Success v => ([], Some v)
    | Continue => (st ++ [key], None)
    | Failure =>
        match spec_lookup d [key] with
        | Success v => ([], Some v)
        | _ => ([key], None)
        end
    end.

  Fixpoint spec_run (d : dict) (st : list K) (keys : list K) : list K * list (option V) :=
    match keys with
    | [] => (st, [])
    | k :: ks =>
        let '(st', o) := spec_handle d st k in
        let '(st'', os) := spec_run d st' ks in
        (st'', o :: os)
    end.

End KeyMap.

Arguments trie : clear implicits.
Arguments entry : clear implicits.
Arguments kmres : clear implicits.
Arguments dict : clear implicits.
Arguments TNil {K V}.
Arguments Failure {V}.
Arguments Continue {V}.
