(* Model of the key / chord parsers and printers of src/keys.rs  (C18, C19).

   Strings are lists of Unicode scalar values (`N`).  `str::to_lowercase` is
   the only piece of the standard library the parsers lean on; it is a
   Section variable `lower` (an oracle): the theorems quantify over every
   function satisfying the two facts stated in KeyParseProofs.v
   (`lower_spec`), the correspondence run evaluates the model under the
   answers the real `to_lowercase` gave for the strings of each case. *)
From Coq Require Import List NArith Bool String Ascii.
From SNT Require Import Base.Outcome Base.Report Gen.C18Keys.
Import ListNotations.
Local Open Scope N_scope.

Notation str := (list N) (only parsing).

Fixpoint s2l (s : string) : str :=
  match s with
  | EmptyString => []
  | String a r => N_of_ascii a :: s2l r
  end.

Definition str_eqb : str -> str -> bool := list_eqb N.eqb.

(* ------------------------------------------------------------- values *)

(* keys.rs:187-210, in declaration order (the derived Ord compares the
   variant index first, then the payload) *)
Inductive key_name :=
| KBackspace | KChar (c : N) | KDelete | KInsert | KDown | KEnd | KEnter | KEsc
| KF (n : N) | KHome | KLeft | KMouseLeft | KMouseMiddle | KMouseMove | KMouseRight
| KMouseWheelDown | KMouseWheelUp | KPageDown | KPageUp | KRight | KTab | KUp.

(* keys.rs:14-19; kmode = KeyMod.bits *)
Record key := Key { kname : key_name; kmode : N }.

Definition name_idx (n : key_name) : N :=
  match n with
  | KBackspace => 0 | KChar _ => 1 | KDelete => 2 | KInsert => 3 | KDown => 4 | KEnd => 5
  | KEnter => 6 | KEsc => 7 | KF _ => 8 | KHome => 9 | KLeft => 10 | KMouseLeft => 11
  | KMouseMiddle => 12 | KMouseMove => 13 | KMouseRight => 14 | KMouseWheelDown => 15
  | KMouseWheelUp => 16 | KPageDown => 17 | KPageUp => 18 | KRight => 19 | KTab => 20 | KUp => 21
  end.

Definition name_payload (n : key_name) : N :=
  match n with KChar c => c | KF i => i | _ => 0 end.

(* derive(PartialOrd, Ord) on Key { name, mode }: lexicographic *)
Definition key_cmp (a b : key) : comparison :=
  match N.compare (name_idx (kname a)) (name_idx (kname b)) with
  | Eq => match N.compare (name_payload (kname a)) (name_payload (kname b)) with
          | Eq => N.compare (kmode a) (kmode b)
          | c => c
          end
  | c => c
  end.

(* ---------------------------------------------------------- characters *)

Definition is_digit (c : N) : bool := (48 <=? c) && (c <=? 57).
Definition is_lower_az (c : N) : bool := (97 <=? c) && (c <=? 122).
(* '`' '-' '=' '[' ']' '\\' ';' ',' '.' '/' *)
Definition punct : list N := [96; 45; 61; 91; 93; 92; 59; 44; 46; 47].
Definition is_punct (c : N) : bool := existsb (N.eqb c) punct.
(* the characters KeyName prints bare and parses back (keys.rs:230-231, 296-297) *)
Definition is_plain (c : N) : bool := is_lower_az c || is_digit c || is_punct c.

Definition len_utf8 (c : N) : N :=
  if c <? 128 then 1 else if c <? 2048 then 2 else if c <? 65536 then 3 else 4.
Definition utf8_len (s : str) : N := fold_right (fun c a => len_utf8 c + a) 0 s.

(* ------------------------------------------------------------- decimal *)

Fixpoint digits_le (fuel : nat) (n : N) : list N :=
  match fuel with
  | O => []
  | S f => (n mod 10) :: (if n <? 10 then [] else digits_le f (n / 10))
  end.

(* `{}` of a usize *)
Definition dec (n : N) : str :=
  map (fun d => 48 + d) (rev (digits_le (S (N.to_nat (N.log2 n))) n)).

Definition parse_dec (s : str) : N := fold_left (fun acc c => acc * 10 + (c - 48)) s 0.

Definition usize_max : N := 18446744073709551615.

(* str::parse::<usize>() on a string of ASCII digits: empty is an error,
   a value above usize::MAX is an error (checked_mul / checked_add) *)
Definition parse_usize (s : str) : option N :=
  match s with
  | [] => None
  | _ => if forallb is_digit s
         then (let n := parse_dec s in if n <=? usize_max then Some n else None)
         else None
  end.

(* ------------------------------------------------------------ printers *)

Fixpoint join (sep : str) (l : list str) : str :=
  match l with
  | [] => []
  | [x] => x
  | x :: r => x ++ sep ++ join sep r
  end.

(* keys.rs:222-256  Debug for KeyName (Display is the same) *)
Definition print_name (n : key_name) : str :=
  match n with
  | KBackspace => s2l "backspace"
  | KChar c =>
      if c =? 32 then s2l "space"
      else if c =? 9 then s2l "tab"
      else if c =? 10 then s2l "enter"
      else if is_lower_az c || is_digit c then [c]
      else if is_punct c then [c]
      else [34; c; 34]
  | KDelete => s2l "delete"
  | KInsert => s2l "insert"
  | KDown => s2l "down"
  | KEnd => s2l "end"
  | KEnter => s2l "enter"
  | KEsc => s2l "esc"
  | KF i => 102 :: dec i
  | KHome => s2l "home"
  | KLeft => s2l "left"
  | KMouseLeft => s2l "mouseleft"
  | KMouseMiddle => s2l "mousemiddle"
  | KMouseMove => s2l "mousemove"
  | KMouseRight => s2l "mouseright"
  | KMouseWheelDown => s2l "mousewheeldown"
  | KMouseWheelUp => s2l "mousewheelup"
  | KPageDown => s2l "pagedown"
  | KPageUp => s2l "pageup"
  | KRight => s2l "right"
  | KTab => s2l "tab"
  | KUp => s2l "up"
  end.

(* keys.rs:367-376  the flags in printing order *)
Definition mod_print_table : list (N * str) :=
  [(1, s2l "shift"); (2, s2l "alt"); (4, s2l "ctrl"); (8, s2l "super");
   (16, s2l "hyper"); (32, s2l "meta"); (256, s2l "press"); (64, s2l "capslock")].

Definition mod_contains (m flag : N) : bool := N.land m flag =? flag.

Definition mod_names (m : N) : list str :=
  map snd (filter (fun p => mod_contains m (fst p)) mod_print_table).

(* keys.rs:361-389  Debug for KeyMod *)
Definition print_mod (m : N) : str :=
  if m =? 0 then s2l "None" else join [43] (mod_names m).

(* keys.rs:45-60  Debug / Display for Key *)
Definition print_key (k : key) : str :=
  if kmode k =? 0 then print_name (kname k)
  else print_mod (kmode k) ++ [43] ++ print_name (kname k).

(* keys.rs:131-141  Display for KeyChord *)
Definition print_chord (ks : list key) : str := join [32] (map print_key ks).

(* ------------------------------------------------------------- parsers *)

(* str::split(sep): always at least one piece *)
Fixpoint split (sep : N) (s : str) : list str :=
  match s with
  | [] => [[]]
  | c :: r =>
      if c =? sep then [] :: split sep r
      else match split sep r with
           | p :: ps => (c :: p) :: ps
           | [] => [[c]]
           end
  end.

Fixpoint lookup_lit {A} (tbl : list (str * A)) (s : str) : option A :=
  match tbl with
  | [] => None
  | (l, a) :: r => if str_eqb s l then Some a else lookup_lit r s
  end.

(* The parsers' vocabulary is NOT written here: it is the list of literal match arms of
   KeyName::from_str (keys.rs:270-285) and of Key::from_str (keys.rs:70-77), re-extracted from the
   source on every run by translate/c18keys.py into Gen/C18Keys.v, in source order.  Every theorem about
   the parsers is therefore re-checked against the table the code has now: an added or changed arm whose
   value does not print to something that parses back breaks `named_keys_canon` / the round trip. *)
Definition variant_of (name : string) (payload : N) : option key_name :=
  if String.eqb name "Backspace" then Some KBackspace else if String.eqb name "Char" then Some (KChar payload)
  else if String.eqb name "Delete" then Some KDelete else if String.eqb name "Insert" then Some KInsert
  else if String.eqb name "Down" then Some KDown else if String.eqb name "End" then Some KEnd
  else if String.eqb name "Enter" then Some KEnter else if String.eqb name "Esc" then Some KEsc
  else if String.eqb name "F" then Some (KF payload) else if String.eqb name "Home" then Some KHome
  else if String.eqb name "Left" then Some KLeft else if String.eqb name "MouseLeft" then Some KMouseLeft
  else if String.eqb name "MouseMiddle" then Some KMouseMiddle else if String.eqb name "MouseMove" then Some KMouseMove
  else if String.eqb name "MouseRight" then Some KMouseRight
  else if String.eqb name "MouseWheelDown" then Some KMouseWheelDown
  else if String.eqb name "MouseWheelUp" then Some KMouseWheelUp else if String.eqb name "PageDown" then Some KPageDown
  else if String.eqb name "PageUp" then Some KPageUp else if String.eqb name "Right" then Some KRight
  else if String.eqb name "Tab" then Some KTab else if String.eqb name "Up" then Some KUp
  else None.

Definition named_keys : list (str * key_name) :=
  flat_map (fun e => match variant_of (fst (snd e)) (snd (snd e)) with
                     | Some k => [(s2l (fst e), k)]
                     | None => []
                     end) keyname_parse_arms.

Definition keymod_const (name : string) : option N :=
  match find (fun p => String.eqb (fst p) name) keymod_consts with Some p => Some (snd p) | None => None end.

Definition mod_parse_table : list (str * N) :=
  flat_map (fun e => match keymod_const (snd e) with
                     | Some b => [(s2l (fst e), b)]
                     | None => []
                     end) keymod_parse_arms.

(* no arm of the source was dropped on the way (every variant / constant name was understood) *)
Definition tables_complete : bool :=
  Nat.eqb (List.length named_keys) (List.length keyname_parse_arms)
  && Nat.eqb (List.length mod_parse_table) (List.length keymod_parse_arms).

(* `&string[1..]`: panics unless byte offset 1 is inside the string and on a
   character boundary, i.e. unless the first character is one byte long *)
Definition slice_from1 (s : str) : option str :=
  match s with
  | [] => None
  | c :: tl => if c <? 128 then Some tl else None
  end.

Definition starts_with (c : N) (s : str) : bool :=
  match s with x :: _ => x =? c | [] => false end.

(* keys.rs:264-305  FromStr for KeyName, with f = string.to_lowercase() given.
   `overflow` is what happens when the digits of an F-key index do not fit a
   usize: the original code was `.expect("coding error")` (a panic, site 290);
   the repaired code returns the ParseError. *)
Definition parse_name_core (overflow : outcome key_name) (f s : str) : outcome key_name :=
  match lookup_lit named_keys f with
  | Some k => Ok k
  | None =>
      (* the guard  f.starts_with('f') && f.len() > 1 && string[1..].chars().all(..)  *)
      let* guard :=
        (if starts_with 102 f && (1 <? utf8_len f) then
           match slice_from1 s with
           | None => Panic 288
           | Some tl => Ok (forallb is_digit tl)
           end
         else Ok false) in
      if guard then
        match slice_from1 s with
        | None => Panic 290
        | Some tl =>
            match parse_usize tl with
            | Some n => Ok (KF n)
            | None => overflow
            end
        end
      else
        (* cs.chars().count() == 1 *)
        match f with
        | [c] => if is_plain c then Ok (KChar c) else Err 1
        | _ => Err 1
        end
  end.

Section Parsers.
  Variable lower : str -> str.      (* str::to_lowercase *)
  Variable fkey_overflow : outcome key_name.

  Definition parse_name_gen (s : str) : outcome key_name :=
    parse_name_core fkey_overflow (lower s) s.

  (* keys.rs:62-94  FromStr for Key: the loop over string.split('+');
     `None` in the result = the loop ended with key_name = None *)
  Fixpoint parse_key_loop (attrs : list str) (name : option key_name) (mode : N)
    : outcome (option key_name * N) :=
    match attrs with
    | [] => Ok (name, mode)
    | a :: rest =>
        let la := lower a in
        match lookup_lit mod_parse_table la with
        | Some flag => parse_key_loop rest name (N.lor mode flag)
        | None =>
            match parse_name_gen la with
            | Ok n =>
                match name with
                | Some _ => Ok (None, mode)          (* second name: take(); break *)
                | None => parse_key_loop rest (Some n) mode
                end
            | Err _ => Ok (name, mode)               (* break *)
            | Panic p => Panic p
            | OutOfFuel => OutOfFuel
            end
        end
    end.

  Definition parse_key_gen (s : str) : outcome key :=
    let* r := parse_key_loop (split 43 s) None 0 in
    match r with
    | (Some n, m) => Ok (Key n m)
    | (None, _) => Err 2
    end.

  (* collect::<Result<Vec<Key>, Error>>(): stops at the first error *)
  Fixpoint collect_keys (l : list str) : outcome (list key) :=
    match l with
    | [] => Ok []
    | s :: r =>
        let* k := parse_key_gen s in
        let* ks := collect_keys r in
        Ok (k :: ks)
    end.

  Definition nonempty (s : str) : bool := match s with [] => false | _ => true end.

  (* keys.rs:149-164  FromStr for KeyChord *)
  Definition parse_chord_gen (s : str) : outcome (list key) :=
    let* ks := collect_keys (filter nonempty (split 32 s)) in
    match ks with
    | [] => Err 3
    | _ => Ok ks
    end.
End Parsers.

(* decidable form of "a value the name parser can return" (Keys/KeyParseProofs.v name_canon) *)
Definition name_canonb (n : key_name) : bool :=
  match n with
  | KChar c => is_plain c || (c =? 32)
  | KF i => i <=? usize_max
  | KMouseLeft | KMouseMiddle | KMouseMove | KMouseRight | KMouseWheelDown | KMouseWheelUp => false
  | _ => true
  end.

(* the code as it is now (after the `fix:` commit): overflow is a ParseError *)
Definition parse_name (lower : str -> str) := parse_name_gen lower (Err 1).
Definition parse_key (lower : str -> str) := parse_key_gen lower (Err 1).
Definition parse_chord (lower : str -> str) := parse_chord_gen lower (Err 1).

(* the code as it was: `.expect("coding error")` *)
Definition parse_name_orig (lower : str -> str) := parse_name_gen lower (Panic 290).
Definition parse_key_orig (lower : str -> str) := parse_key_gen lower (Panic 290).
Definition parse_chord_orig (lower : str -> str) := parse_chord_gen lower (Panic 290).

(* ------------------------------------------- oracle from a finite table *)

(* the correspondence run supplies the answers of the real to_lowercase for
   every string the parser can ask about; strings outside the table (never
   asked) map to themselves *)
Fixpoint table_lower (tbl : list (str * str)) (s : str) : str :=
  match tbl with
  | [] => s
  | (a, b) :: r => if str_eqb s a then b else table_lower r s
  end.

(* ASCII-only lower-casing, for the examples *)
Definition ascii_lower (s : str) : str :=
  map (fun c => if (65 <=? c) && (c <=? 90) then c + 32 else c) s.
