(* C18, part 3: the BTreeMap ordering invariant, enumeration (for_each),
   override merging, and the representation theorem for every map built by
   any finite combination of new / register / register_override. *)
From Coq Require Import List Bool Lia.
From SNT Require Import Keys.KeyMap Keys.KeyMapProofs Keys.KeyMapDict.
Import ListNotations.

Section Enum.
  Context {K V : Type}.
  Variable cmp : K -> K -> comparison.
  Hypothesis cmp_eq : forall a b, cmp a b = Eq <-> a = b.
  Hypothesis cmp_antisym : forall a b, cmp a b = CompOpp (cmp b a).
  Hypothesis cmp_trans : forall a b c, cmp a b = Lt -> cmp b c = Lt -> cmp a c = Lt.

  Local Notation keq := (keq cmp).
  Local Notation find := (find cmp).
  Local Notation insert := (insert cmp).
  Local Notation submap := (submap cmp).
  Local Notation reg_go := (reg_go cmp).
  Local Notation register := (register cmp).
  Local Notation register_all := (register_all cmp).
  Local Notation register_override := (register_override cmp).
  Local Notation lookup := (lookup cmp).
  Local Notation is_prefix := (is_prefix cmp).
  Local Notation related := (related cmp).
  Local Notation reg := (reg cmp).
  Local Notation spec_lookup := (spec_lookup cmp).
  Local Notation spec_override := (spec_override cmp).
  Local Notation refines := (refines cmp).
  Local Notation prefix_free := (prefix_free cmp).
  Local Notation trie := (trie K V).
  Local Notation dict := (dict K V).

  Lemma cmp_refl a : cmp a a = Eq.
  Proof. apply cmp_eq. reflexivity. Qed.

  Lemma cmp_lt_ne a b : cmp a b = Lt -> a <> b.
  Proof. intros H ->. rewrite cmp_refl in H. discriminate. Qed.

  (* ------------------------------------------------ ordering invariant *)

  Fixpoint top_keys (t : trie) : list K :=
    match t with
    | TNil => []
    | TVal k _ r => k :: top_keys r
    | TSub k _ r => k :: top_keys r
    end.

  (* every key of this level is above k *)
  Definition lb (k : K) (t : trie) : Prop := Forall (fun k' => cmp k k' = Lt) (top_keys t).

  (* keys strictly increasing at every level: what a BTreeMap guarantees *)
  Fixpoint wf (t : trie) : Prop :=
    match t with
    | TNil => True
    | TVal k _ r => lb k r /\ wf r
    | TSub k s r => lb k r /\ wf s /\ wf r
    end.

  Definition entry_wf (e : entry K V) : Prop :=
    match e with EVal _ => True | ESub s => wf s end.

  Lemma top_keys_cons_entry k (e : entry K V) (t : trie) :
    top_keys (cons_entry k e t) = k :: top_keys t.
  Proof. destruct e; reflexivity. Qed.

  Lemma wf_cons_entry k (e : entry K V) (t : trie) :
    lb k t -> entry_wf e -> wf t -> wf (cons_entry k e t).
  Proof. destruct e; cbn; auto. Qed.

  Lemma top_keys_insert k (e : entry K V) (t : trie) k' :
    In k' (top_keys (insert k e t)) -> k' = k \/ In k' (top_keys t).
  Proof.
    induction t as [|k0 v0 rest IH|k0 s0 _ rest IH]; cbn [KeyMap.insert].
    - rewrite top_keys_cons_entry. cbn. intros [H|[]]. left. symmetry. exact H.
    - destruct (cmp k k0) eqn:E.
      + rewrite top_keys_cons_entry. cbn. intros [H|H]; [left; symmetry; exact H | right; right; exact H].
      + rewrite top_keys_cons_entry. cbn. intros [H|H]; [left; symmetry; exact H | right; exact H].
      + cbn. intros [H|H]; [right; left; exact H|]. destruct (IH H) as [H'|H']; [left; exact H' | right; right; exact H'].
    - destruct (cmp k k0) eqn:E.
      + rewrite top_keys_cons_entry. cbn. intros [H|H]; [left; symmetry; exact H | right; right; exact H].
      + rewrite top_keys_cons_entry. cbn. intros [H|H]; [left; symmetry; exact H | right; exact H].
      + cbn. intros [H|H]; [right; left; exact H|]. destruct (IH H) as [H'|H']; [left; exact H' | right; right; exact H'].
  Qed.

  Lemma lb_trans k k0 (t : trie) : cmp k k0 = Lt -> lb k0 t -> lb k t.
  Proof.
    unfold lb. rewrite !Forall_forall. intros H H0 x Hx. eapply cmp_trans; [exact H | apply H0, Hx].
  Qed.

  Lemma wf_insert k (e : entry K V) (t : trie) : wf t -> entry_wf e -> wf (insert k e t).
  Proof.
    intros Hwf He. induction t as [|k0 v0 rest IH|k0 s0 _ rest IH]; cbn [KeyMap.insert].
    - apply wf_cons_entry; [constructor | exact He | exact I].
    - cbn in Hwf. destruct Hwf as [Hlb Hr]. destruct (cmp k k0) eqn:E.
      + apply cmp_eq in E. subst k0. apply wf_cons_entry; assumption.
      + apply wf_cons_entry; [|exact He|cbn; split; assumption].
        unfold lb. cbn. constructor; [exact E|]. apply (lb_trans k k0); assumption.
      + cbn. split; [|apply IH, Hr].
        unfold lb. rewrite Forall_forall. intros x Hx. apply top_keys_insert in Hx as [->|Hx].
        * rewrite cmp_antisym, E. reflexivity.
        * unfold lb in Hlb. rewrite Forall_forall in Hlb. apply Hlb, Hx.
    - cbn in Hwf. destruct Hwf as [Hlb [Hs Hr]]. destruct (cmp k k0) eqn:E.
      + apply cmp_eq in E. subst k0. apply wf_cons_entry; assumption.
      + apply wf_cons_entry; [|exact He|cbn; repeat split; assumption].
        unfold lb. cbn. constructor; [exact E|]. apply (lb_trans k k0); assumption.
      + cbn. split; [|split; [exact Hs | apply IH, Hr]].
        unfold lb. rewrite Forall_forall. intros x Hx. apply top_keys_insert in Hx as [->|Hx].
        * rewrite cmp_antisym, E. reflexivity.
        * unfold lb in Hlb. rewrite Forall_forall in Hlb. apply Hlb, Hx.
  Qed.

  Lemma wf_find_sub (t : trie) k s : wf t -> find t k = Some (ESub s) -> wf s.
  Proof.
    induction t as [|k0 v0 rest IH|k0 s0 _ rest IH]; cbn; [discriminate| |].
    - intros [_ Hr]. destruct (keq k k0); [discriminate | apply IH, Hr].
    - intros [_ [Hs Hr]]. destruct (keq k k0); [intros E; injection E as <-; exact Hs | apply IH, Hr].
  Qed.

  Lemma wf_submap (t : trie) k : wf t -> wf (submap t k).
  Proof.
    intros H. unfold KeyMap.submap. destruct (find t k) as [[v|s]|] eqn:E; try exact I.
    eapply wf_find_sub; eassumption.
  Qed.

  Lemma wf_reg_go : forall rest k v (t : trie), wf t -> wf (reg_go t k rest v).
  Proof.
    induction rest as [|k2 rest2 IH]; intros k v t H; cbn [KeyMap.reg_go].
    - apply wf_insert; [exact H | exact I].
    - apply wf_insert; [exact H|]. cbn. apply IH, wf_submap, H.
  Qed.

  Lemma wf_register (t : trie) c v : wf t -> wf (register t c v).
  Proof. destruct c; [auto | apply wf_reg_go]. Qed.

  Lemma wf_register_all l : forall (t : trie), wf t -> wf (register_all t l).
  Proof.
    induction l as [|[c v] l IH]; intros t H; [exact H|]. cbn. apply IH, wf_register, H.
  Qed.

  (* --------------------------------------------------------- enumeration *)

  Lemma find_some_top (t : trie) k e : find t k = Some e -> In k (top_keys t).
  Proof.
    induction t as [|k0 v0 rest IH|k0 s0 _ rest IH]; cbn; [discriminate| |].
    - destruct (keq k k0) eqn:E; [intros _; left; symmetry; apply (keq_true cmp cmp_eq), E | intros H; right; apply IH, H].
    - destruct (keq k k0) eqn:E; [intros _; left; symmetry; apply (keq_true cmp cmp_eq), E | intros H; right; apply IH, H].
  Qed.

  Lemma lookup_success_head (t : trie) k r v :
    lookup t (k :: r) = Success v -> In k (top_keys t).
  Proof.
    cbn [KeyMap.lookup]. destruct (find t k) as [e|] eqn:E; [|discriminate].
    intros _. eapply find_some_top, E.
  Qed.

  (* the answer for a chord whose first key is not the head key ignores the head *)
  Lemma lookup_skip_val k v0 (rest : trie) k1 r1 :
    k1 <> k -> lookup (TVal k v0 rest) (k1 :: r1) = lookup rest (k1 :: r1).
  Proof.
    intros Hne. cbn [KeyMap.lookup KeyMap.find].
    assert (E : keq k1 k = false) by (apply (keq_false cmp cmp_eq); exact Hne). rewrite E. reflexivity.
  Qed.

  Lemma lookup_skip_sub k s0 (rest : trie) k1 r1 :
    k1 <> k -> lookup (TSub k s0 rest) (k1 :: r1) = lookup rest (k1 :: r1).
  Proof.
    intros Hne. cbn [KeyMap.lookup KeyMap.find].
    assert (E : keq k1 k = false) by (apply (keq_false cmp cmp_eq); exact Hne). rewrite E. reflexivity.
  Qed.

  Lemma lb_not_in k (t : trie) : lb k t -> ~ In k (top_keys t).
  Proof.
    unfold lb. rewrite Forall_forall. intros H Hin. apply H in Hin. rewrite cmp_refl in Hin. discriminate.
  Qed.

  Lemma In_bindings (t : trie) : wf t -> forall pre c v,
    In (c, v) (bindings t pre) <->
    exists c0, c = pre ++ c0 /\ c0 <> [] /\ lookup t c0 = Success v.
  Proof.
    induction t as [|k v0 rest IH|k s0 IHs rest IH]; intros Hwf pre c v.
    - cbn. split; [intros [] | intros [c0 [_ [Hne H]]]]. rewrite lookup_nil_trie in H by exact Hne. discriminate.
    - cbn in Hwf. destruct Hwf as [Hlb Hr]. cbn [bindings In]. rewrite (IH Hr). split.
      + intros [E|[c0 [-> [Hne H]]]].
        * injection E as <- <-. exists [k]. split; [reflexivity|split; [discriminate|]].
          cbn. rewrite (keq_refl cmp cmp_eq). reflexivity.
        * exists c0. split; [reflexivity|split; [exact Hne|]].
          destruct c0 as [|k1 r1]; [congruence|]. rewrite lookup_skip_val; [exact H|].
          intros ->. apply lookup_success_head in H. exact (lb_not_in _ _ Hlb H).
      + intros [c0 [-> [Hne H]]]. destruct c0 as [|k1 r1]; [congruence|].
        destruct (keq k1 k) eqn:E.
        * apply (keq_true cmp cmp_eq) in E. subst k1. cbn in H. rewrite (keq_refl cmp cmp_eq) in H.
          destruct r1; [|discriminate]. injection H as ->. left. reflexivity.
        * apply (keq_false cmp cmp_eq) in E. rewrite lookup_skip_val in H by exact E.
          right. exists (k1 :: r1). split; [reflexivity|split; [discriminate|exact H]].
    - cbn in Hwf. destruct Hwf as [Hlb [Hs Hr]]. cbn [bindings]. rewrite in_app_iff, (IHs Hs), (IH Hr). split.
      + intros [[c1 [-> [Hne H]]]|[c0 [-> [Hne H]]]].
        * exists (k :: c1). split; [rewrite <- app_assoc; reflexivity|split; [discriminate|]].
          cbn. rewrite (keq_refl cmp cmp_eq). exact H.
        * exists c0. split; [reflexivity|split; [exact Hne|]].
          destruct c0 as [|k1 r1]; [congruence|]. rewrite lookup_skip_sub; [exact H|].
          intros ->. apply lookup_success_head in H. exact (lb_not_in _ _ Hlb H).
      + intros [c0 [-> [Hne H]]]. destruct c0 as [|k1 r1]; [congruence|].
        destruct (keq k1 k) eqn:E.
        * apply (keq_true cmp cmp_eq) in E. subst k1. cbn in H. rewrite (keq_refl cmp cmp_eq) in H.
          left. exists r1. split; [rewrite <- app_assoc; reflexivity|split; [|exact H]].
          intros ->. discriminate.
        * apply (keq_false cmp cmp_eq) in E. rewrite lookup_skip_sub in H by exact E.
          right. exists (k1 :: r1). split; [reflexivity|split; [discriminate|exact H]].
  Qed.

  Lemma In_for_each (t : trie) c v :
    wf t -> (In (c, v) (for_each t) <-> c <> [] /\ lookup t c = Success v).
  Proof.
    intros Hwf. unfold for_each. rewrite (In_bindings t Hwf). split.
    - intros [c0 [-> [Hne H]]]. split; assumption.
    - intros [Hne H]. exists c. split; [reflexivity|split; assumption].
  Qed.

  (* every enumerated chord starts (below `pre`) with a key of this level *)
  Lemma bindings_head (t : trie) : forall pre c v,
    In (c, v) (bindings t pre) -> exists k0 c1, c = pre ++ k0 :: c1 /\ In k0 (top_keys t).
  Proof.
    induction t as [|k v0 rest IH|k s0 IHs rest IH]; intros pre c v; cbn [bindings top_keys].
    - intros [].
    - intros [E|H].
      + injection E as <- _. exists k, []. split; [reflexivity | left; reflexivity].
      + destruct (IH _ _ _ H) as [k0 [c1 [-> Hk]]]. exists k0, c1. split; [reflexivity | right; exact Hk].
    - intros H. apply in_app_iff in H as [H|H].
      + destruct (IHs _ _ _ H) as [k0 [c1 [-> _]]]. exists k, (k0 :: c1).
        split; [rewrite <- app_assoc; reflexivity | left; reflexivity].
      + destruct (IH _ _ _ H) as [k0 [c1 [-> Hk]]]. exists k0, c1. split; [reflexivity | right; exact Hk].
  Qed.

  Lemma NoDup_app_disjoint {A} (l1 l2 : list A) :
    NoDup l1 -> NoDup l2 -> (forall x, In x l1 -> ~ In x l2) -> NoDup (l1 ++ l2).
  Proof.
    intros H1 H2 Hd. induction H1 as [|a l Ha Hl IH]; cbn; [exact H2|].
    constructor.
    - intros Hin. apply in_app_iff in Hin as [Hin|Hin]; [contradiction|]. apply (Hd a); [left; reflexivity | exact Hin].
    - apply IH. intros x Hx. apply Hd. right. exact Hx.
  Qed.

  (* no chord is enumerated twice *)
  Lemma NoDup_bindings (t : trie) : wf t -> forall pre, NoDup (map fst (bindings t pre)).
  Proof.
    induction t as [|k v0 rest IH|k s0 IHs rest IH]; intros Hwf pre; cbn [bindings map].
    - constructor.
    - cbn in Hwf. destruct Hwf as [Hlb Hr]. cbn [fst]. constructor; [|apply IH, Hr].
      intros Hin. apply in_map_iff in Hin as [[c v] [E Hin]]. cbn in E. subst c.
      destruct (bindings_head _ _ _ _ Hin) as [k0 [c1 [E Hk]]].
      apply app_inv_head in E. injection E as -> _. exact (lb_not_in _ _ Hlb Hk).
    - cbn in Hwf. destruct Hwf as [Hlb [Hs Hr]]. rewrite map_app. apply NoDup_app_disjoint.
      + apply IHs, Hs.
      + apply IH, Hr.
      + intros c H1 H2.
        apply in_map_iff in H1 as [[c' v1] [E1 H1]]. cbn in E1. subst c'.
        apply in_map_iff in H2 as [[c' v2] [E2 H2]]. cbn in E2. subst c'.
        destruct (bindings_head _ _ _ _ H1) as [k1 [c1 [E1 _]]].
        destruct (bindings_head _ _ _ _ H2) as [k2 [c2 [E2 Hk2]]].
        rewrite E1, <- app_assoc in E2. apply app_inv_head in E2. injection E2 as -> _.
        exact (lb_not_in _ _ Hlb Hk2).
  Qed.

  (* a bound chord has no bound extension *)
  Lemma lookup_success_ext (c : list K) : forall (t : trie) v q,
    lookup t c = Success v -> q <> [] -> lookup t (c ++ q) = Failure.
  Proof.
    induction c as [|k r IH]; intros t v q H Hq; [discriminate|].
    cbn [app KeyMap.lookup] in *. destruct (find t k) as [[v1|s]|]; [| |discriminate].
    - destruct r; [|discriminate]. cbn. destruct q; [congruence | reflexivity].
    - eapply IH; eassumption.
  Qed.

  Lemma FOP_of_NoDup {A B} (R : A * B -> A * B -> Prop) (l : list (A * B)) :
    NoDup (map fst l) ->
    (forall p q, In p l -> In q l -> fst p <> fst q -> R p q) ->
    ForallOrdPairs R l.
  Proof.
    induction l as [|a l IH]; intros Hnd HR; [constructor|].
    cbn in Hnd. inversion Hnd as [|x l' Hni Hnd']; subst. constructor.
    - rewrite Forall_forall. intros q Hq. apply HR; [left; reflexivity | right; exact Hq|].
      intros E. apply Hni. rewrite E. apply in_map, Hq.
    - apply IH; [exact Hnd'|]. intros p q Hp Hq. apply HR; right; assumption.
  Qed.

  Lemma prefix_free_for_each (t : trie) :
    wf t -> prefix_free (for_each t) /\ nonempty_chords (for_each t).
  Proof.
    intros Hwf. split.
    - apply FOP_of_NoDup; [apply NoDup_bindings, Hwf|].
      intros [c1 v1] [c2 v2] H1 H2 Hne. cbn [fst] in *.
      apply (In_for_each _ _ _ Hwf) in H1 as [N1 L1]. apply (In_for_each _ _ _ Hwf) in H2 as [N2 L2].
      unfold KeyMap.related. apply orb_false_iff. split.
      + destruct (is_prefix c1 c2) eqn:P; [|reflexivity]. exfalso.
        apply (is_prefix_true cmp cmp_eq) in P as [q ->].
        destruct q as [|k q]; [rewrite app_nil_r in Hne; congruence|].
        rewrite (lookup_success_ext c1 t v1 (k :: q) L1) in L2 by discriminate. discriminate.
      + destruct (is_prefix c2 c1) eqn:P; [|reflexivity]. exfalso.
        apply (is_prefix_true cmp cmp_eq) in P as [q ->].
        destruct q as [|k q]; [rewrite app_nil_r in Hne; congruence|].
        rewrite (lookup_success_ext c2 t v2 (k :: q) L2) in L1 by discriminate. discriminate.
    - unfold nonempty_chords. rewrite Forall_forall. intros [c v] Hin.
      apply (In_for_each _ _ _ Hwf) in Hin as [N _]. exact N.
  Qed.

  (* ------------------------------------------------------ representation *)

  (* t is a well-ordered trie that answers like the prefix-free dictionary d *)
  Record repr (t : trie) (d : dict) : Prop := {
    repr_wf : wf t;
    repr_pf : prefix_free d;
    repr_ne : nonempty_chords d;
    repr_refines : refines t d
  }.

  Lemma repr_enum (t : trie) (d : dict) x : repr t d -> (In x (for_each t) <-> In x d).
  Proof.
    intros [Hwf Hpf Hne Hr]. destruct x as [c v]. rewrite (In_for_each _ _ _ Hwf). split.
    - intros [N L]. rewrite Hr in L by exact N. apply (spec_lookup_success cmp cmp_eq) in L; assumption.
    - intros Hin. assert (N : c <> []).
      { unfold nonempty_chords in Hne. rewrite Forall_forall in Hne. apply (Hne (c, v) Hin). }
      split; [exact N|]. rewrite Hr by exact N. apply (spec_lookup_success cmp cmp_eq); assumption.
  Qed.

  Lemma repr_empty : repr TNil [].
  Proof. constructor; [exact I | constructor | constructor | apply refines_empty]. Qed.

  Lemma repr_register (t : trie) (d : dict) c v : repr t d -> repr (register t c v) (reg c v d).
  Proof.
    intros [Hwf Hpf Hne Hr]. constructor.
    - apply wf_register, Hwf.
    - apply prefix_free_reg, Hpf.
    - apply nonempty_reg, Hne.
    - apply (refines_register cmp cmp_eq), Hr.
  Qed.

  Lemma prefix_free_fold_reg (l : dict) : forall d : dict,
    prefix_free d -> prefix_free (fold_left (fun (d0 : dict) p => reg (fst p) (snd p) d0) l d).
  Proof.
    induction l as [|[c v] l IH]; intros d Hpf; [exact Hpf|].
    cbn [fold_left]. apply IH, prefix_free_reg, Hpf.
  Qed.

  Lemma repr_override (t o : trie) (d e : dict) :
    repr t d -> repr o e -> repr (register_override t o) (spec_override d e).
  Proof.
    intros Ht Ho. destruct Ht as [Hwf Hpf Hne Hr]. pose proof Ho as [Hwf' Hpf' Hne' Hr'].
    destruct (prefix_free_for_each o Hwf') as [Hpfo Hneo].
    set (d' := fold_left (fun (d0 : dict) p => reg (fst p) (snd p) d0) (for_each o) d).
    assert (Hpfd' : prefix_free d') by (apply prefix_free_fold_reg, Hpf).
    constructor.
    - apply wf_register_all, Hwf.
    - apply prefix_free_override; assumption.
    - apply nonempty_override; assumption.
    - intros c Hc. unfold KeyMap.register_override.
      rewrite (refines_register_all cmp cmp_eq (for_each o) t d Hr c Hc). fold d'.
      apply (spec_lookup_ext cmp cmp_eq); [exact Hpfd' | apply prefix_free_override; assumption|].
      intros x. unfold d'. rewrite (In_fold_reg cmp (for_each o) d x Hpfo Hneo).
      rewrite In_spec_override. rewrite (repr_enum o e x Ho).
      unfold unrelated_to_all. split.
      + intros [H|[H1 H2]]; [left; exact H | right; split; [exact H1|]].
        intros q Hq. apply H2. apply (repr_enum o e q Ho). exact Hq.
      + intros [H|[H1 H2]]; [left; exact H | right; split; [exact H1|]].
        intros q Hq. apply H2. apply (repr_enum o e q Ho). exact Hq.
  Qed.

  (* every map obtainable from new / register / register_override, in any
     combination and to any depth (the argument of an override is itself such
     a map) *)
  Inductive mexp : Type :=
  | MNew
  | MRegister (m : mexp) (c : list K) (v : V)
  | MOverride (m other : mexp)
  | MClear (m : mexp).                  (* KeyMap::clear: mapping.clear() *)

  Fixpoint eval_trie (m : mexp) : trie :=
    match m with
    | MNew => TNil
    | MRegister m c v => register (eval_trie m) c v
    | MOverride m o => register_override (eval_trie m) (eval_trie o)
    | MClear _ => TNil
    end.

  Fixpoint eval_dict (m : mexp) : dict :=
    match m with
    | MNew => []
    | MRegister m c v => reg c v (eval_dict m)
    | MOverride m o => spec_override (eval_dict m) (eval_dict o)
    | MClear _ => []
    end.

  Theorem repr_mexp (m : mexp) : repr (eval_trie m) (eval_dict m).
  Proof.
    induction m as [|m IH c v|m IH o IHo|m IH]; cbn.
    - apply repr_empty.
    - apply repr_register, IH.
    - apply repr_override; assumption.
    - apply repr_empty.
  Qed.

  Fixpoint mexp_of_history (h : list (list K * V)) (m : mexp) : mexp :=
    match h with
    | [] => m
    | (c, v) :: r => mexp_of_history r (MRegister m c v)
    end.

  Lemma eval_history h : forall m,
    eval_trie (mexp_of_history h m) = register_all (eval_trie m) h
    /\ eval_dict (mexp_of_history h m) = fold_left (fun (d0 : dict) p => reg (fst p) (snd p) d0) h (eval_dict m).
  Proof.
    induction h as [|[c v] h IH]; intros m; [split; reflexivity|]. cbn. apply (IH (MRegister m c v)).
  Qed.

  Theorem repr_build (h : list (list K * V)) : repr (build cmp h) (spec_build cmp h).
  Proof.
    destruct (eval_history h MNew) as [E1 E2]. unfold build, spec_build.
    cbn in E1, E2. rewrite <- E1, <- E2. apply repr_mexp.
  Qed.

End Enum.
