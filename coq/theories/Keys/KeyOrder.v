(* The derived Ord of Key is a strict total order (instantiates the
   hypotheses of the generic key-map proofs). *)
From Coq Require Import List NArith Bool Lia ZifyN ZifyBool.
From SNT Require Import Keys.KeyParse.
Local Open Scope N_scope.

Lemma name_inj n1 n2 :
  name_idx n1 = name_idx n2 -> name_payload n1 = name_payload n2 -> n1 = n2.
Proof.
  destruct n1, n2; cbn; intros H1 H2; try discriminate H1; try reflexivity; f_equal; exact H2.
Qed.

Lemma key_cmp_eq a b : key_cmp a b = Eq <-> a = b.
Proof.
  destruct a as [n1 m1], b as [n2 m2]. unfold key_cmp. cbn [kname kmode]. split.
  - destruct (N.compare_spec (name_idx n1) (name_idx n2)) as [E1|E1|E1]; try discriminate.
    destruct (N.compare_spec (name_payload n1) (name_payload n2)) as [E2|E2|E2]; try discriminate.
    intros E3. apply N.compare_eq_iff in E3. subst. f_equal. apply name_inj; assumption.
  - intros E. injection E as -> ->. rewrite !N.compare_refl. reflexivity.
Qed.

Lemma key_cmp_antisym a b : key_cmp a b = CompOpp (key_cmp b a).
Proof.
  destruct a as [n1 m1], b as [n2 m2]. unfold key_cmp. cbn [kname kmode].
  rewrite (N.compare_antisym (name_idx n1) (name_idx n2)).
  rewrite (N.compare_antisym (name_payload n1) (name_payload n2)).
  rewrite (N.compare_antisym m1 m2).
  destruct (name_idx n1 ?= name_idx n2); cbn; try reflexivity.
  destruct (name_payload n1 ?= name_payload n2); cbn; rewrite ?CompOpp_involutive; reflexivity.
Qed.

Lemma key_cmp_lt a b :
  key_cmp a b = Lt <->
  (name_idx (kname a) < name_idx (kname b)
   \/ (name_idx (kname a) = name_idx (kname b)
       /\ (name_payload (kname a) < name_payload (kname b)
           \/ (name_payload (kname a) = name_payload (kname b) /\ kmode a < kmode b)))).
Proof.
  unfold key_cmp.
  destruct (N.compare_spec (name_idx (kname a)) (name_idx (kname b))) as [E1|E1|E1];
  destruct (N.compare_spec (name_payload (kname a)) (name_payload (kname b))) as [E2|E2|E2];
  try rewrite N.compare_lt_iff; split; intros H; try discriminate; try lia; reflexivity.
Qed.

Lemma key_cmp_trans a b c : key_cmp a b = Lt -> key_cmp b c = Lt -> key_cmp a c = Lt.
Proof. rewrite !key_cmp_lt. lia. Qed.
