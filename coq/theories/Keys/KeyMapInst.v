(* The generic key-map theorems instantiated with the concrete key type of
   src/keys.rs and its derived order (Keys/KeyOrder.v). *)
From Coq Require Import List NArith Bool.
From SNT Require Import Keys.KeyMap Keys.KeyParse Keys.KeyOrder
  Keys.KeyMapProofs Keys.KeyMapDict Keys.KeyMapEnum Keys.KeyMapMatcher.
Import ListNotations.

Section Inst.
  Context {V : Type}.
  Local Notation chord := (list key).
  Local Notation history := (list (chord * V)).
  Local Notation trie := (trie key V).
  Local Notation dict := (dict key V).
  Local Notation build := (build key_cmp).
  Local Notation spec_build := (spec_build key_cmp).
  Local Notation lookup := (lookup key_cmp).
  Local Notation spec_lookup := (spec_lookup key_cmp).

  Local Ltac use L := intros; eapply L; eauto using key_cmp_eq, key_cmp_antisym, key_cmp_trans.

  Lemma k_repr_build (h : history) : repr key_cmp (build h) (spec_build h).
  Proof. use (@repr_build key V). Qed.

  Lemma k_repr_mexp (m : mexp) : repr key_cmp (eval_trie key_cmp m) (eval_dict key_cmp m : dict).
  Proof. use (@repr_mexp key V). Qed.

  Lemma k_lookup_refines (h : history) (c : chord) :
    c <> [] -> lookup (build h) c = spec_lookup (spec_build h) c.
  Proof. intros Hc. apply (repr_refines _ _ _ (k_repr_build h)), Hc. Qed.

  Lemma k_lookup_register (t : trie) (c : chord) (v : V) (c' : chord) :
    c <> [] -> c' <> [] ->
    lookup (register key_cmp t c v) c' = step_spec key_cmp c v (lookup t c') c'.
  Proof. use (@lookup_register key V). Qed.

  Lemma k_meaning (t : trie) (d : dict) (c : chord) :
    repr key_cmp t d -> c <> [] ->
    (forall v, lookup t c = Success v <-> In (c, v) d)
    /\ (lookup t c = Continue <->
        exists c' v', In (c', v') d /\ proper_prefix key_cmp c c' = true)
    /\ (lookup t c = Failure <->
        (forall v, ~ In (c, v) d)
        /\ (forall c' v', In (c', v') d -> proper_prefix key_cmp c c' = false)).
  Proof.
    intros R Hc. pose proof (repr_pf _ _ _ R) as Hpf. rewrite (repr_refines _ _ _ R c Hc).
    split; [|split].
    - intros v. use (@spec_lookup_success key V).
    - use (@spec_lookup_continue key V).
    - use (@spec_lookup_failure key V).
  Qed.

  Lemma k_last_writer (h : history) (c : chord) (v : V) :
    In (c, v) (spec_build h) <->
    exists h1 h2, h = h1 ++ (c, v) :: h2 /\ c <> [] /\ not_superseded_by key_cmp c h2.
  Proof. use (@spec_build_last_writer key V). Qed.

  Lemma k_enum (t : trie) (d : dict) :
    repr key_cmp t d ->
    (forall x, In x (for_each t) <-> In x d) /\ NoDup (map fst (for_each t)).
  Proof.
    intros R. split.
    - intros x. use (@repr_enum key V).
    - unfold for_each. use (@NoDup_bindings key V). apply (repr_wf _ _ _ R).
  Qed.

  Lemma k_In_override (d o : dict) x :
    In x (spec_override key_cmp d o) <->
    In x o \/ (In x d /\ forall q, In q o -> related key_cmp (fst q) (fst x) = false).
  Proof. apply In_spec_override. Qed.

  Lemma k_run_spec (t : trie) (d : dict) :
    repr key_cmp t d -> forall keys st, run key_cmp t st keys = spec_run key_cmp d st keys.
  Proof. intros R. use (@run_spec key V). apply (repr_refines _ _ _ R). Qed.

  Lemma k_fires (t : trie) (d : dict) (c : chord) (v : V) :
    repr key_cmp t d -> In (c, v) d ->
    run key_cmp t [] c = ([], fires_at_last v (length c)).
  Proof.
    intros R Hin. rewrite (k_run_spec t d R).
    assert (Hc : c <> []).
    { pose proof (repr_ne _ _ _ R) as N. unfold nonempty_chords in N. rewrite Forall_forall in N. apply (N _ Hin). }
    use (@spec_fires key V). apply (repr_pf _ _ _ R).
  Qed.

  Lemma k_recovers (t : trie) (d : dict) (u : key) (c : chord) (v : V) (st : chord) :
    repr key_cmp t d -> begins_no_chord u d -> In (c, v) d ->
    lookup t (st ++ [u]) <> Continue ->
    exists st' o, lookup_state key_cmp t st u = (st', o)
                  /\ run key_cmp t st' c = ([], fires_at_last v (length c)).
  Proof.
    intros R Hu Hin Hnc.
    assert (Hc : c <> []).
    { pose proof (repr_ne _ _ _ R) as N. unfold nonempty_chords in N. rewrite Forall_forall in N. apply (N _ Hin). }
    rewrite (repr_refines _ _ _ R) in Hnc by (destruct st; discriminate).
    destruct (spec_recovers key_cmp key_cmp_eq d u c v st (repr_pf _ _ _ R) Hu Hin Hc Hnc) as [st' [o [E1 E2]]].
    exists st', o. split.
    - rewrite (lookup_state_spec key_cmp t d st u (repr_refines _ _ _ R)). exact E1.
    - rewrite (k_run_spec t d R). exact E2.
  Qed.

  Lemma k_recovers_idle (t : trie) (d : dict) (u : key) (c : chord) (v : V) :
    repr key_cmp t d -> begins_no_chord u d -> In (c, v) d ->
    run key_cmp t [] (u :: c) = ([], None :: fires_at_last v (length c)).
  Proof.
    intros R Hu Hin. rewrite (k_run_spec t d R).
    assert (Hc : c <> []).
    { pose proof (repr_ne _ _ _ R) as N. unfold nonempty_chords in N. rewrite Forall_forall in N. apply (N _ Hin). }
    use (@spec_recovers_idle key V). apply (repr_pf _ _ _ R).
  Qed.

  Lemma k_fires_only_bound (t : trie) (d : dict) (st : chord) (k : key) (st' : chord) (v : V) :
    repr key_cmp t d -> lookup_state key_cmp t st k = (st', Some v) ->
    st' = [] /\ (In (st ++ [k], v) d \/ (lookup t (st ++ [k]) = Failure /\ In ([k], v) d)).
  Proof.
    intros R H. rewrite (lookup_state_spec key_cmp t d st k (repr_refines _ _ _ R)) in H.
    rewrite (repr_refines _ _ _ R) by (destruct st; discriminate).
    exact (spec_handle_fires_bound key_cmp key_cmp_eq d st k st' v (repr_pf _ _ _ R) H).
  Qed.

End Inst.

(* the literal "never prevents" claim, quantified over every state reachable by typing
   keys from idle, fails: bound  a u c -> 1  and  c -> 2 ;  u begins no bound chord; after
   typing a, the keys u c fire 1 (the three-key chord), not 2 *)
Definition literal_never_prevents (h : list (list key * N)) : Prop :=
  forall (pre : list key) (u : key) (c : list key) (v : N),
    begins_no_chord u (spec_build key_cmp h) -> In (c, v) (spec_build key_cmp h) ->
    let st := fst (run key_cmp (build key_cmp h) [] pre) in
    exists st' o, lookup_state key_cmp (build key_cmp h) st u = (st', o)
                  /\ run key_cmp (build key_cmp h) st' c = ([], fires_at_last v (length c)).

Definition ka : key := Key (KChar 97) 0.
Definition ku : key := Key (KChar 117) 0.
Definition kc' : key := Key (KChar 99) 0.

Lemma literal_never_prevents_refuted :
  exists h, ~ literal_never_prevents h.
Proof.
  exists [([ka; ku; kc'], 1%N); ([kc'], 2%N)]. intros L.
  specialize (L [ka] ku [kc'] 2%N).
  assert (Hu : begins_no_chord ku (spec_build key_cmp [([ka; ku; kc'], 1%N); ([kc'], 2%N)])).
  { intros c v Hin r. cbn in Hin. destruct Hin as [E|[E|[]]]; injection E as <- _; discriminate. }
  assert (Hin : In ([kc'], 2%N) (spec_build key_cmp [([ka; ku; kc'], 1%N); ([kc'], 2%N)])) by (cbn; auto).
  destruct (L Hu Hin) as [st' [o [E1 E2]]]. vm_compute in E1. injection E1 as <- <-.
  vm_compute in E2. discriminate.
Qed.

