(* The model's variant index of KeyName (Keys/KeyParse.v name_idx: what the derived Ord compares first)
   and the modifier masks of the parser / printer tables are those of src/keys.rs, as re-extracted on
   every run by translate/c18keys.py (Gen/C18Keys.v). *)
From Coq Require Import List NArith Bool String.
From SNT Require Import Gen.C18Keys Keys.KeyParse.
Import ListNotations.
Local Open Scope string_scope.

Definition name_label (n : key_name) : string :=
  match n with
  | KBackspace => "Backspace" | KChar _ => "Char" | KDelete => "Delete" | KInsert => "Insert"
  | KDown => "Down" | KEnd => "End" | KEnter => "Enter" | KEsc => "Esc" | KF _ => "F" | KHome => "Home"
  | KLeft => "Left" | KMouseLeft => "MouseLeft" | KMouseMiddle => "MouseMiddle" | KMouseMove => "MouseMove"
  | KMouseRight => "MouseRight" | KMouseWheelDown => "MouseWheelDown" | KMouseWheelUp => "MouseWheelUp"
  | KPageDown => "PageDown" | KPageUp => "PageUp" | KRight => "Right" | KTab => "Tab" | KUp => "Up"
  end.

(* every constructor of the model sits at the position its variant has in the source enum, and the
   source enum has no further variant *)
Lemma name_idx_is_source_order :
  (forall n : key_name, nth_error keyname_variants (N.to_nat (name_idx n)) = Some (name_label n))
  /\ List.length keyname_variants = 22%nat.
Proof. split; [intros n; destruct n; reflexivity | reflexivity]. Qed.

Definition const_of (name : string) : option N :=
  match find (fun p => String.eqb (fst p) name) keymod_consts with Some p => Some (snd p) | None => None end.

Definition upper (s : str) : string :=
  string_of_list_ascii (map (fun c => Ascii.ascii_of_N (if (N.leb 97 c && N.leb c 122)%bool then c - 32 else c)%N) s).

(* the masks of the parse table and of the print table are the source's constants of the same name *)
Lemma mod_tables_are_source_consts :
  forallb (fun p => match const_of (upper (fst p)) with Some b => N.eqb b (snd p) | None => false end) mod_parse_table = true
  /\ forallb (fun p => match const_of (upper (snd p)) with Some b => N.eqb b (fst p) | None => false end) mod_print_table = true.
Proof. split; vm_compute; reflexivity. Qed.
