(* C18 / C19: whatever the key, key-name and chord parsers accept prints to a
   string that parses back to the same value. *)
From Coq Require Import List NArith Bool Lia ZifyN ZifyBool ZifyNat String.
From SNT Require Import Base.Outcome Base.Report Base.Sweep Keys.KeyParse Keys.KeyOrder Keys.KeyParseProofs.
Import ListNotations.
Local Open Scope N_scope.

Arguments N.add : simpl never.
Arguments N.sub : simpl never.
Arguments N.mul : simpl never.
Arguments N.eqb : simpl never.
Arguments N.ltb : simpl never.
Arguments N.leb : simpl never.

Definition name_eqb (a b : key_name) : bool :=
  (name_idx a =? name_idx b) && (name_payload a =? name_payload b).

Lemma name_eqb_true a b : name_eqb a b = true -> a = b.
Proof.
  unfold name_eqb. rewrite andb_true_iff, !N.eqb_eq. intros [H1 H2]. apply name_inj; assumption.
Qed.

Definition is_none {A} (o : option A) : bool := match o with None => true | Some _ => false end.

(* everything the round trip needs to know about the printed form pn of the name n *)
Definition name_ok_check (pn : str) (n : key_name) : bool :=
  forallb is_ascii_nonupper pn
  && negb (memN 43 pn) && negb (memN 32 pn) && nonempty pn
  && is_none (lookup_lit mod_parse_table pn)
  && match parse_name_core (Err 1) pn pn with Ok n' => name_eqb n' n | _ => false end.

Lemma lookup_lit_head {A} (tbl : list (str * A)) c ds :
  forallb (fun p => negb (starts_with c (fst p))) tbl = true -> lookup_lit tbl (c :: ds) = None.
Proof.
  induction tbl as [|[l a] r IH]; cbn [forallb lookup_lit fst]; [reflexivity|].
  rewrite andb_true_iff, negb_true_iff. intros [H1 H2].
  assert (E : str_eqb (c :: ds) l = false).
  { destruct l as [|x l]; [reflexivity|]. cbn in H1. unfold str_eqb. cbn [list_eqb].
    rewrite N.eqb_sym, H1. reflexivity. }
  rewrite E. apply IH, H2.
Qed.

Lemma utf8_len_pos s : s <> [] -> 1 <= utf8_len s.
Proof.
  destruct s as [|c r]; [congruence|]. intros _. cbn [utf8_len fold_right]. unfold len_utf8.
  destruct (c <? 128); [lia|]. destruct (c <? 2048); [lia|]. destruct (c <? 65536); lia.
Qed.

Lemma forallb_digit_props ds :
  forallb is_digit ds = true ->
  forallb is_ascii_nonupper ds = true /\ memN 43 ds = false /\ memN 32 ds = false.
Proof.
  induction ds as [|c r IH]; cbn [forallb memN existsb]; [auto|].
  rewrite andb_true_iff. intros [Hc Hr]. destruct (IH Hr) as [I1 [I2 I3]].
  destruct (digit_props c Hc) as [D1 [D2 [D3 _]]]. unfold memN in *.
  rewrite D1, I1, I2, I3. repeat split; try reflexivity.
  - assert ((43 =? c) = false) by (apply N.eqb_neq; congruence). rewrite H. reflexivity.
  - assert ((32 =? c) = false) by (apply N.eqb_neq; congruence). rewrite H. reflexivity.
Qed.

Lemma name_ok_fkey i : i <= usize_max -> name_ok_check (102 :: dec i) (KF i) = true.
Proof.
  intros Hi. unfold name_ok_check.
  pose proof (dec_digits i) as Hd. destruct (forallb_digit_props _ Hd) as [D1 [D2 D3]].
  cbn [forallb memN existsb nonempty]. unfold memN in *. rewrite D1, D2, D3.
  rewrite (lookup_lit_head mod_parse_table 102 (dec i)) by (vm_compute; reflexivity).
  unfold parse_name_core.
  rewrite (lookup_lit_head named_keys 102 (dec i)) by (vm_compute; reflexivity).
  cbn [starts_with]. rewrite N.eqb_refl.
  assert (L : (1 <? utf8_len (102 :: dec i)) = true).
  { cbn [utf8_len fold_right]. fold (utf8_len (dec i)). pose proof (utf8_len_pos (dec i) (dec_nonnil i)).
    change (len_utf8 102) with 1. lia. }
  rewrite L. cbn [andb slice_from1]. change (102 <? 128) with true. cbn iota.
  rewrite Hd. cbn [bind]. rewrite parse_usize_dec by exact Hi.
  unfold name_eqb. cbn [name_idx name_payload]. rewrite !N.eqb_refl. reflexivity.
Qed.

Lemma name_ok_plain : forall c, is_plain c = true -> name_ok_check (print_name (KChar c)) (KChar c) = true.
Proof.
  assert (H : sweep1 128 (fun c => if is_plain c then name_ok_check (print_name (KChar c)) (KChar c) else true) = true)
    by (vm_compute; reflexivity).
  intros c Hc. pose proof (sweep1_sound _ _ H c) as S. cbn beta in S. rewrite Hc in S.
  apply S. apply plain_lt in Hc. exact Hc.
Qed.

Lemma name_ok_canon n : name_canon n -> name_ok_check (print_name n) n = true.
Proof.
  destruct n as [|c| | | | | | |i| | | | | | | | | | | | |]; cbn [name_canon]; intros H; try contradiction.
  2: { destruct H as [H| ->]; [apply name_ok_plain, H | vm_compute; reflexivity]. }
  8: { apply name_ok_fkey, H. }
  all: vm_compute; reflexivity.
Qed.

Lemma memN_false_not_In x l : memN x l = false -> ~ In x l.
Proof. intros H Hin. apply memN_In in Hin. congruence. Qed.

Record name_facts (pn : str) (n : key_name) : Prop := {
  nf_ascii : forallb is_ascii_nonupper pn = true;
  nf_noplus : ~ In 43 pn;
  nf_nospace : ~ In 32 pn;
  nf_nonempty : pn <> [];
  nf_notmod : lookup_lit mod_parse_table pn = None;
  nf_parse : parse_name_core (Err 1) pn pn = Ok n
}.

Lemma name_facts_canon n : name_canon n -> name_facts (print_name n) n.
Proof.
  intros H. apply name_ok_canon in H. unfold name_ok_check in H.
  repeat (apply andb_true_iff in H as [H ?]).
  constructor.
  - assumption.
  - apply memN_false_not_In, negb_true_iff. assumption.
  - apply memN_false_not_In, negb_true_iff. assumption.
  - destruct (print_name n); [discriminate | discriminate].
  - destruct (lookup_lit mod_parse_table (print_name n)); [discriminate | reflexivity].
  - destruct (parse_name_core (Err 1) (print_name n) (print_name n)) as [n'| | |]; try discriminate.
    f_equal. apply name_eqb_true. assumption.
Qed.

(* facts about the modifier tables, by evaluation *)
Definition pairN_eqb (a b : str * N) : bool := str_eqb (fst a) (fst b) && (snd a =? snd b).

Lemma mod_parse_table_facts :
  Forall (fun p => lookup_lit mod_parse_table (fst p) = Some (snd p)
                   /\ forallb is_ascii_nonupper (fst p) = true) mod_parse_table.
Proof.
  assert (H : forallb (fun p => match lookup_lit mod_parse_table (fst p) with Some b => b =? snd p | None => false end
                                && forallb is_ascii_nonupper (fst p)) mod_parse_table = true) by (vm_compute; reflexivity).
  apply Forall_forall. intros p Hp. rewrite forallb_forall in H. specialize (H p Hp).
  apply andb_true_iff in H as [H1 H2]. split; [|exact H2].
  destruct (lookup_lit mod_parse_table (fst p)) as [b|]; [|discriminate]. apply N.eqb_eq in H1. subst. reflexivity.
Qed.

Lemma mod_print_table_facts :
  Forall (fun p => In (snd p, fst p) mod_parse_table /\ ~ In 43 (snd p) /\ ~ In 32 (snd p) /\ snd p <> [])
         mod_print_table.
Proof.
  assert (H : forallb (fun p => existsb (pairN_eqb (snd p, fst p)) mod_parse_table
                                && negb (memN 43 (snd p)) && negb (memN 32 (snd p)) && nonempty (snd p))
                      mod_print_table = true) by (vm_compute; reflexivity).
  rewrite forallb_forall in H. apply Forall_forall. intros p Hp. specialize (H p Hp).
  repeat (apply andb_true_iff in H as [H ?]).
  split; [|split; [|split]].
  - apply existsb_exists in H as [[s f] [Hin E]]. unfold pairN_eqb in E. cbn [fst snd] in E.
    apply andb_true_iff in E as [E1 E2]. apply str_eqb_true in E1. apply N.eqb_eq in E2. subst. exact Hin.
  - apply memN_false_not_In, negb_true_iff. assumption.
  - apply memN_false_not_In, negb_true_iff. assumption.
  - destruct (snd p); discriminate.
Qed.

Lemma mod_names_facts m :
  Forall (fun s => ~ In 43 s /\ ~ In 32 s /\ s <> []) (mod_names m).
Proof.
  unfold mod_names. apply Forall_forall. intros s Hs. apply in_map_iff in Hs as [p [<- Hp]].
  apply filter_In in Hp as [Hp _]. pose proof mod_print_table_facts as F. rewrite Forall_forall in F.
  destruct (F p Hp) as [_ H]. exact H.
Qed.

Lemma In_join x sep (l : list str) :
  In x (join sep l) -> In x sep \/ exists p, In p l /\ In x p.
Proof.
  induction l as [|a l IH]; [intros []|]. destruct l as [|b l].
  - cbn. intros H. right. exists a. split; [left; reflexivity | exact H].
  - change (join sep (a :: b :: l)) with (a ++ sep ++ join sep (b :: l)).
    rewrite !in_app_iff. intros [H|[H|H]].
    + right. exists a. split; [left; reflexivity | exact H].
    + left. exact H.
    + destruct (IH H) as [H'|[p [Hp Hx]]]; [left; exact H' | right; exists p; split; [right; exact Hp | exact Hx]].
Qed.

Lemma join_nonnil sep (l : list str) : l <> [] -> Forall (fun s => s <> []) l -> join sep l <> [].
Proof.
  destruct l as [|a l]; [congruence|]. intros _ F. inversion F as [|a' l' Ha Hl]; subst.
  destruct l as [|b l]; [exact Ha|].
  change (join sep (a :: b :: l)) with (a ++ sep ++ join sep (b :: l)).
  destruct a; [congruence | discriminate].
Qed.

Section RoundTrip.
  Variable lower : str -> str.
  Hypothesis LS : lower_spec lower.

  Local Notation parse_name := (parse_name lower).
  Local Notation parse_key := (parse_key lower).
  Local Notation parse_chord := (parse_chord lower).
  Local Notation loop := (parse_key_loop lower (Err 1)).

  Theorem parse_print_name n : name_canon n -> parse_name (print_name n) = Ok n.
  Proof.
    intros H. destruct (name_facts_canon n H) as [A _ _ _ _ P].
    unfold KeyParse.parse_name, parse_name_gen. rewrite (lower_ascii lower LS _ A). exact P.
  Qed.

  Lemma loop_mod nm flag rest name mode :
    In (nm, flag) mod_parse_table -> loop (nm :: rest) name mode = loop rest name (N.lor mode flag).
  Proof.
    intros Hin. pose proof mod_parse_table_facts as F. rewrite Forall_forall in F.
    destruct (F _ Hin) as [L A]. cbn [fst snd] in L, A.
    cbn [parse_key_loop]. rewrite (lower_ascii lower LS _ A), L. reflexivity.
  Qed.

  Lemma loop_mods (tbl : list (N * str)) : forall rest name mode,
    Forall (fun p => In (snd p, fst p) mod_parse_table) tbl ->
    loop (map snd tbl ++ rest) name mode
    = loop rest name (fold_left (fun acc p => N.lor acc (fst p)) tbl mode).
  Proof.
    induction tbl as [|[f nm] tbl IH]; intros rest name mode F; [reflexivity|].
    inversion F as [|p l Hp Hl]; subst. cbn [map app snd fold_left fst].
    cbn [fst snd] in Hp. rewrite (loop_mod nm f _ _ _ Hp). apply IH, Hl.
  Qed.

  Lemma loop_name pn n m : name_facts pn n -> loop [pn] None m = Ok (Some n, m).
  Proof.
    intros [A _ _ _ NM P]. cbn [parse_key_loop]. rewrite (lower_ascii lower LS _ A), NM.
    unfold parse_name_gen. rewrite (lower_ascii lower LS _ A), P. reflexivity.
  Qed.

  Theorem parse_print_key k : key_canon k -> parse_key (print_key k) = Ok k.
  Proof.
    destruct k as [n m]. intros [Hn Hm]. cbn [kname kmode] in *.
    pose proof (name_facts_canon n Hn) as NF. pose proof NF as [_ NP _ _ _ _].
    unfold KeyParse.parse_key, parse_key_gen, print_key. cbn [kname kmode].
    destruct (m =? 0) eqn:E; cbv iota.
    - apply N.eqb_eq in E. subst m. rewrite split_nosep by exact NP.
      rewrite (loop_name _ _ 0 NF). reflexivity.
    - apply N.eqb_neq in E. destruct (canon_modes_mask m Hm) as [Hmask Hnn].
      unfold print_mod. assert (E0 : (m =? 0) = false) by (apply N.eqb_neq; exact E). rewrite E0.
      rewrite split_join_tail; [| apply Hnn, E | | exact NP].
      + unfold mod_names. rewrite loop_mods.
        * fold (mask_of m). rewrite Hmask, (loop_name _ _ m NF). reflexivity.
        * apply Forall_forall. intros p Hp. apply filter_In in Hp as [Hp _].
          pose proof mod_print_table_facts as F. rewrite Forall_forall in F. destruct (F p Hp) as [H _]. exact H.
      + eapply Forall_impl; [|apply mod_names_facts]. intros s [H _]. exact H.
  Qed.

  Lemma print_key_facts k : key_canon k -> ~ In 32 (print_key k) /\ print_key k <> [].
  Proof.
    destruct k as [n m]. intros [Hn Hm]. cbn [kname kmode] in *.
    pose proof (name_facts_canon n Hn) as [_ _ NS NE _ _].
    unfold print_key. cbn [kname kmode]. destruct (m =? 0) eqn:E; [split; assumption|].
    split.
    - rewrite !in_app_iff. intros [H|[H|H]].
      + unfold print_mod in H. rewrite E in H. apply In_join in H as [H|[p [Hp Hx]]].
        * destruct H as [H|[]]. discriminate.
        * pose proof (mod_names_facts m) as F. rewrite Forall_forall in F. destruct (F p Hp) as [_ [H _]]. exact (H Hx).
      + destruct H as [H|[]]. discriminate.
      + exact (NS H).
    - intros H. apply app_eq_nil in H as [_ H]. discriminate.
  Qed.

  Lemma collect_print ks : Forall key_canon ks ->
    collect_keys lower (Err 1) (map print_key ks) = Ok ks.
  Proof.
    induction 1 as [|k ks Hk Hks IH]; [reflexivity|].
    cbn [map collect_keys]. pose proof (parse_print_key k Hk) as P. unfold KeyParse.parse_key in P.
    rewrite P. cbn [bind]. rewrite IH. reflexivity.
  Qed.

  Lemma filter_all {A} (f : A -> bool) l : Forall (fun x => f x = true) l -> filter f l = l.
  Proof. induction 1 as [|x l Hx Hl IH]; [reflexivity|]. cbn. rewrite Hx, IH. reflexivity. Qed.

  Theorem parse_print_chord ks :
    ks <> [] -> Forall key_canon ks -> parse_chord (print_chord ks) = Ok ks.
  Proof.
    intros Hne Hc. unfold KeyParse.parse_chord, parse_chord_gen, print_chord.
    rewrite split_join.
    - rewrite filter_all.
      + rewrite collect_print by exact Hc. cbn [bind]. destruct ks; [congruence | reflexivity].
      + apply Forall_forall. intros s Hs. apply in_map_iff in Hs as [k [<- Hk]].
        rewrite Forall_forall in Hc. destruct (print_key_facts k (Hc k Hk)) as [_ H].
        destruct (print_key k); [congruence | reflexivity].
    - destruct ks; [congruence | discriminate].
    - apply Forall_forall. intros s Hs. apply in_map_iff in Hs as [k [<- Hk]].
      rewrite Forall_forall in Hc. destruct (print_key_facts k (Hc k Hk)) as [H _]. exact H.
  Qed.

  (* the property as stated: whatever is accepted prints to a string that parses back to the same value *)
  Corollary name_roundtrip s n : parse_name s = Ok n -> parse_name (print_name n) = Ok n.
  Proof. intros H. apply parse_print_name, (parse_name_canon lower s n H). Qed.

  Corollary key_roundtrip s k : parse_key s = Ok k -> parse_key (print_key k) = Ok k.
  Proof. intros H. apply parse_print_key, (parse_key_canon lower s k H). Qed.

  Corollary chord_roundtrip s ks : parse_chord s = Ok ks -> parse_chord (print_chord ks) = Ok ks.
  Proof. intros H. destruct (parse_chord_canon lower s ks H) as [H1 H2]. apply parse_print_chord; assumption. Qed.

End RoundTrip.
