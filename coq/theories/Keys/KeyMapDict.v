(* Facts about the specification side of C18: the dictionary of chords
   (`reg`, `spec_lookup`, `spec_override`) — prefix-freeness, what the three
   answers mean, and the closed form "bound = registered and not superseded
   since".  Nothing here mentions the trie. *)
From Coq Require Import List Bool Lia.
From SNT Require Import Keys.KeyMap Keys.KeyMapProofs.
Import ListNotations.

Section Dict.
  Context {K V : Type}.
  Variable cmp : K -> K -> comparison.
  Hypothesis cmp_eq : forall a b, cmp a b = Eq <-> a = b.

  Local Notation is_prefix := (is_prefix cmp).
  Local Notation chord_eqb := (chord_eqb cmp).
  Local Notation proper_prefix := (proper_prefix cmp).
  Local Notation related := (related cmp).
  Local Notation reg := (reg cmp).
  Local Notation assoc := (assoc cmp).
  Local Notation spec_lookup := (spec_lookup cmp).
  Local Notation spec_override := (spec_override cmp).
  Local Notation dict := (dict K V).

  (* no bound chord is a prefix of another bound chord, and none is listed twice *)
  Definition prefix_free (d : dict) : Prop :=
    ForallOrdPairs (fun p q => related (fst p) (fst q) = false) d.

  Definition nonempty_chords (d : dict) : Prop := Forall (fun p => fst p <> []) d.

  Lemma FOP_filter {A} (R : A -> A -> Prop) (f : A -> bool) l :
    ForallOrdPairs R l -> ForallOrdPairs R (filter f l).
  Proof.
    induction 1 as [|a l Ha Hl IH]; cbn; [constructor|].
    destruct (f a); [|exact IH]. constructor; [|exact IH].
    rewrite Forall_forall in *. intros x Hx. apply filter_In in Hx as [Hx _]. auto.
  Qed.

  Lemma FOP_app {A} (R : A -> A -> Prop) l1 l2 :
    ForallOrdPairs R l1 -> ForallOrdPairs R l2 ->
    (forall x y, In x l1 -> In y l2 -> R x y) ->
    ForallOrdPairs R (l1 ++ l2).
  Proof.
    intros H1 H2 Hc. induction H1 as [|a l Ha Hl IH]; cbn; [exact H2|].
    constructor.
    - rewrite Forall_forall in *. intros x Hx. apply in_app_iff in Hx as [Hx|Hx]; [auto|].
      apply Hc; [left; reflexivity | exact Hx].
    - apply IH. intros x y Hx Hy. apply Hc; [right; exact Hx | exact Hy].
  Qed.

  Lemma In_reg c v (d : dict) x :
    c <> [] ->
    (In x (reg c v d) <-> x = (c, v) \/ (In x d /\ related c (fst x) = false)).
  Proof.
    intros Hc. destruct c as [|k r]; [congruence|]. unfold KeyMap.reg.
    cbn [In]. rewrite filter_In, negb_true_iff. split.
    - intros [E|H]; [left; symmetry; exact E | right; exact H].
    - intros [E|H]; [left; symmetry; exact E | right; exact H].
  Qed.

  Lemma prefix_free_reg c v (d : dict) : prefix_free d -> prefix_free (reg c v d).
  Proof.
    intros H. destruct c as [|k r]; [exact H|]. unfold KeyMap.reg, prefix_free.
    constructor.
    - rewrite Forall_forall. intros x Hx. apply filter_In in Hx as [_ Hx].
      apply negb_true_iff in Hx. exact Hx.
    - apply FOP_filter, H.
  Qed.

  Lemma nonempty_reg c v (d : dict) : nonempty_chords d -> nonempty_chords (reg c v d).
  Proof.
    intros H. destruct c as [|k r]; [exact H|]. unfold KeyMap.reg, nonempty_chords.
    constructor; [discriminate|]. unfold nonempty_chords in H. rewrite Forall_forall in *.
    intros x Hx. apply filter_In in Hx as [Hx _]. auto.
  Qed.

  Lemma prefix_free_spec_build h : prefix_free (spec_build cmp h) /\ nonempty_chords (spec_build cmp h).
  Proof.
    unfold KeyMap.spec_build.
    assert (G : forall (d : dict), prefix_free d /\ nonempty_chords d ->
              prefix_free (fold_left (fun d p => reg (fst p) (snd p) d) h d)
              /\ nonempty_chords (fold_left (fun d p => reg (fst p) (snd p) d) h d)).
    { induction h as [|[c v] h IH]; intros d [H1 H2]; [split; assumption|].
      cbn [fold_left]. apply IH. split; [apply prefix_free_reg, H1 | apply nonempty_reg, H2]. }
    apply G. split; constructor.
  Qed.

  (* distinct entries of a prefix-free dictionary are unrelated *)
  Lemma prefix_free_In (d : dict) p q :
    prefix_free d -> In p d -> In q d -> p <> q -> related (fst p) (fst q) = false.
  Proof.
    intros H Hp Hq Hne.
    destruct (ForallOrdPairs_In H _ _ Hp Hq) as [E|[R|R]]; [contradiction | exact R |].
    rewrite related_sym. exact R.
  Qed.

  Lemma assoc_In c (d : dict) v : assoc c d = Some v -> In (c, v) d.
  Proof.
    induction d as [|[c1 v1] d IH]; cbn [KeyMap.assoc]; [discriminate|].
    destruct (chord_eqb c1 c) eqn:E.
    - intros H. injection H as ->. apply (chord_eqb_true cmp cmp_eq) in E. subst. left. reflexivity.
    - intros H. right. apply IH, H.
  Qed.

  Lemma assoc_None c (d : dict) : assoc c d = None -> forall v, ~ In (c, v) d.
  Proof.
    induction d as [|[c1 v1] d IH]; cbn [KeyMap.assoc]; [intros _ v []|].
    destruct (chord_eqb c1 c) eqn:E; [discriminate|].
    intros H v [Hin|Hin].
    - injection Hin as -> _. rewrite (chord_eqb_refl cmp cmp_eq) in E. discriminate.
    - exact (IH H v Hin).
  Qed.

  Lemma In_assoc c v (d : dict) : prefix_free d -> In (c, v) d -> assoc c d = Some v.
  Proof.
    intros Hpf Hin. destruct (assoc c d) as [v0|] eqn:E.
    - apply assoc_In in E. f_equal.
      destruct (ForallOrdPairs_In Hpf _ _ E Hin) as [Heq|[R|R]].
      + congruence.
      + cbn in R. rewrite (related_refl cmp cmp_eq) in R. discriminate.
      + cbn in R. rewrite (related_refl cmp cmp_eq) in R. discriminate.
    - exfalso. exact (assoc_None _ _ E v Hin).
  Qed.

  (* ------------------------------------------ meaning of the three answers *)

  Lemma spec_lookup_success (d : dict) c v :
    prefix_free d -> (spec_lookup d c = Success v <-> In (c, v) d).
  Proof.
    intros Hpf. unfold KeyMap.spec_lookup. split.
    - destruct (assoc c d) as [v0|] eqn:E.
      + intros H. injection H as ->. apply assoc_In, E.
      + destruct (existsb _ d); discriminate.
    - intros Hin. rewrite (In_assoc _ _ _ Hpf Hin). reflexivity.
  Qed.

  Lemma spec_lookup_continue (d : dict) c :
    prefix_free d ->
    (spec_lookup d c = Continue <->
     exists c' v', In (c', v') d /\ proper_prefix c c' = true).
  Proof.
    intros Hpf. unfold KeyMap.spec_lookup. split.
    - destruct (assoc c d) as [v0|] eqn:E; [discriminate|].
      destruct (existsb _ d) eqn:X; [|discriminate]. intros _.
      apply existsb_exists in X as [[c' v'] [Hin P]]. exists c', v'. split; assumption.
    - intros [c' [v' [Hin P]]].
      destruct (assoc c d) as [v0|] eqn:E.
      + exfalso. apply assoc_In in E.
        apply (proper_prefix_true cmp cmp_eq) in P as [P Hne].
        assert (R : related (fst (c, v0)) (fst (c', v')) = false).
        { apply (prefix_free_In d); try assumption. intros Heq. injection Heq as -> _. congruence. }
        cbn in R. unfold KeyMap.related in R. rewrite P in R. discriminate.
      + assert (X : existsb (fun p => proper_prefix c (fst p)) d = true).
        { apply existsb_exists. exists (c', v'). split; assumption. }
        rewrite X. reflexivity.
  Qed.

  Lemma spec_lookup_failure (d : dict) c :
    prefix_free d ->
    (spec_lookup d c = Failure <->
     (forall v, ~ In (c, v) d) /\
     (forall c' v', In (c', v') d -> proper_prefix c c' = false)).
  Proof.
    intros Hpf. split.
    - intros H. split.
      + intros v Hin. apply (spec_lookup_success d c v Hpf) in Hin. congruence.
      + intros c' v' Hin. destruct (proper_prefix c c') eqn:P; [|reflexivity].
        assert (X : spec_lookup d c = Continue).
        { apply spec_lookup_continue; [exact Hpf|]. exists c', v'. split; assumption. }
        congruence.
    - intros [H1 H2]. destruct (spec_lookup d c) as [v| |] eqn:E.
      + apply spec_lookup_success in E; [|exact Hpf]. exfalso. exact (H1 v E).
      + reflexivity.
      + apply spec_lookup_continue in E as [c' [v' [Hin P]]]; [|exact Hpf].
        rewrite (H2 _ _ Hin) in P. discriminate.
  Qed.

  (* dictionaries with the same entries answer alike *)
  Lemma spec_lookup_ext (d d' : dict) c :
    prefix_free d -> prefix_free d' -> (forall x, In x d <-> In x d') ->
    spec_lookup d c = spec_lookup d' c.
  Proof.
    intros H H' Hext.
    destruct (spec_lookup d c) as [v| |] eqn:E; symmetry.
    - apply spec_lookup_success; [exact H'|]. apply Hext. apply spec_lookup_success in E; assumption.
    - apply spec_lookup_failure in E as [E1 E2]; [|exact H].
      apply spec_lookup_failure; [exact H'|]. split.
      + intros v Hin. apply Hext in Hin. exact (E1 v Hin).
      + intros c' v' Hin. apply Hext in Hin. exact (E2 _ _ Hin).
    - apply spec_lookup_continue in E as [c' [v' [Hin P]]]; [|exact H].
      apply spec_lookup_continue; [exact H'|]. exists c', v'. split; [apply Hext, Hin | exact P].
  Qed.

  (* ------------------------------------------------- override, closed form *)

  Definition unrelated_to_all (l : dict) (x : list K * V) : Prop :=
    forall q, In q l -> related (fst q) (fst x) = false.

  Lemma In_spec_override (d o : dict) x :
    In x (spec_override d o) <-> In x o \/ (In x d /\ unrelated_to_all o x).
  Proof.
    unfold KeyMap.spec_override. rewrite in_app_iff, filter_In, forallb_forall.
    unfold unrelated_to_all. split.
    - intros [H|[H1 H2]]; [left; exact H | right; split; [exact H1|]].
      intros q Hq. apply negb_true_iff. apply H2, Hq.
    - intros [H|[H1 H2]]; [left; exact H | right; split; [exact H1|]].
      intros q Hq. apply negb_true_iff. apply H2, Hq.
  Qed.

  Lemma prefix_free_override (d o : dict) :
    prefix_free d -> prefix_free o -> prefix_free (spec_override d o).
  Proof.
    intros Hd Ho. unfold KeyMap.spec_override, prefix_free. apply FOP_app.
    - exact Ho.
    - apply FOP_filter, Hd.
    - intros x y Hx Hy. apply filter_In in Hy as [_ Hy]. rewrite forallb_forall in Hy.
      apply negb_true_iff. apply Hy, Hx.
  Qed.

  Lemma nonempty_override (d o : dict) :
    nonempty_chords d -> nonempty_chords o -> nonempty_chords (spec_override d o).
  Proof.
    unfold nonempty_chords, KeyMap.spec_override. rewrite !Forall_forall. intros Hd Ho x Hx.
    apply in_app_iff in Hx as [Hx|Hx]; [auto|]. apply filter_In in Hx as [Hx _]. auto.
  Qed.

  (* replaying the entries of a prefix-free list l over d, in any order, gives
     the entries of l plus the entries of d unrelated to all of l *)
  Lemma In_fold_reg (l : dict) : forall (d : dict) x,
    prefix_free l -> nonempty_chords l ->
    (In x (fold_left (fun (d0 : dict) p => reg (fst p) (snd p) d0) l d)
     <-> In x l \/ (In x d /\ unrelated_to_all l x)).
  Proof.
    induction l as [|[c v] l IH]; intros d x Hpf Hne.
    - cbn. split; [intros H; right; split; [exact H | intros q []] | intros [[]|[H _]]; exact H].
    - cbn [fold_left fst snd]. inversion Hpf as [|a l' Ha Hl]; subst.
      inversion Hne as [|a' l'' Hc Hne']; subst. cbn in Hc.
      rewrite IH by assumption. rewrite In_reg by exact Hc. cbn [In].
      unfold unrelated_to_all. split.
      + intros [H|[[E|[H1 H2]] H3]].
        * left. right. exact H.
        * left. left. symmetry. exact E.
        * right. split; [exact H1|]. intros q [<-|Hq]; [exact H2 | apply H3, Hq].
      + intros [[E|H]|[H1 H2]].
        * right. split; [left; symmetry; exact E|]. subst x. cbn [fst].
          rewrite Forall_forall in Ha. intros q Hq. rewrite related_sym. apply (Ha q Hq).
        * left. exact H.
        * right. split.
          -- right. split; [exact H1|]. apply (H2 (c, v)). left. reflexivity.
          -- intros q Hq. apply H2. right. exact Hq.
  Qed.

  (* ------------------- bound = registered, and nothing related registered since *)

  Lemma spec_build_snoc (h : list (list K * V)) c v :
    spec_build cmp (h ++ [(c, v)]) = reg c v (spec_build cmp h).
  Proof. unfold KeyMap.spec_build. rewrite fold_left_app. reflexivity. Qed.

  Definition not_superseded_by (c : list K) (h2 : list (list K * V)) : Prop :=
    forall c2 v2, In (c2, v2) h2 -> c2 = [] \/ related c2 c = false.

  Theorem spec_build_last_writer (h : list (list K * V)) c v :
    In (c, v) (spec_build cmp h) <->
    exists h1 h2, h = h1 ++ (c, v) :: h2 /\ c <> [] /\ not_superseded_by c h2.
  Proof.
    revert c v. induction h as [|[c2 v2] h IH] using rev_ind; intros c v.
    - cbn. split; [intros [] | intros [h1 [h2 [E _]]]; destruct h1; discriminate].
    - rewrite spec_build_snoc. destruct c2 as [|k2 r2].
      + (* registering the empty chord does nothing *)
        cbn [KeyMap.reg]. rewrite IH. split.
        * intros [h1 [h2 [-> [Hc Hs]]]]. exists h1, (h2 ++ [([], v2)]). split; [|split; [exact Hc|]].
          -- rewrite <- app_assoc. reflexivity.
          -- intros c3 v3 Hin. apply in_app_iff in Hin as [Hin|[Hin|[]]]; [exact (Hs _ _ Hin)|].
             injection Hin as <- _. left. reflexivity.
        * intros [h1 [h2 [E [Hc Hs]]]].
          destruct h2 as [|y h2' _] using rev_ind.
          -- apply app_inj_tail in E as [_ E]. injection E as E _. congruence.
          -- rewrite app_comm_cons, app_assoc in E. apply app_inj_tail in E as [E Ey]. subst y.
             exists h1, h2'. split; [exact E|split; [exact Hc|]].
             intros c3 v3 Hin. apply (Hs c3 v3). apply in_app_iff. left. exact Hin.
      + set (c2 := k2 :: r2) in *. rewrite In_reg by discriminate. split.
        * intros [E|[Hin R]].
          -- injection E as -> ->. exists h, []. split; [reflexivity|split; [discriminate|]].
             intros c3 v3 [].
          -- apply IH in Hin as [h1 [h2 [-> [Hc Hs]]]].
             exists h1, (h2 ++ [(c2, v2)]). split; [|split; [exact Hc|]].
             ++ rewrite <- app_assoc. reflexivity.
             ++ intros c3 v3 Hin. apply in_app_iff in Hin as [Hin|[Hin|[]]]; [exact (Hs _ _ Hin)|].
                injection Hin as <- _. right. exact R.
        * intros [h1 [h2 [E [Hc Hs]]]].
          destruct h2 as [|y h2' _] using rev_ind.
          -- apply app_inj_tail in E as [_ E]. left. symmetry. exact E.
          -- rewrite app_comm_cons, app_assoc in E. apply app_inj_tail in E as [E Ey]. subst y.
             right. split.
             ++ apply IH. exists h1, h2'. split; [exact E|split; [exact Hc|]].
                intros c3 v3 Hin. apply (Hs c3 v3). apply in_app_iff. left. exact Hin.
             ++ destruct (Hs c2 v2) as [E0|R]; [apply in_app_iff; right; left; reflexivity | discriminate | exact R].
  Qed.

End Dict.
