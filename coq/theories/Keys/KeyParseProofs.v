(* Proofs about the key / chord parsers and printers (C18, reused by C19):
   totality (no panic) and print-then-parse round trip for every value the
   parser can return.  `lower` (str::to_lowercase) is an arbitrary function
   satisfying `lower_spec`. *)
From Coq Require Import List NArith Bool Lia ZifyN ZifyBool ZifyNat String.
From SNT Require Import Base.Outcome Base.Report Base.Sweep Keys.KeyParse.
Import ListNotations.
Local Open Scope N_scope.

Arguments N.add : simpl never.
Arguments N.sub : simpl never.
Arguments N.mul : simpl never.
Arguments N.eqb : simpl never.
Arguments N.ltb : simpl never.
Arguments N.leb : simpl never.

(* ------------------------------------------------ strings, split / join *)

Lemma str_eqb_true a b : str_eqb a b = true <-> a = b.
Proof.
  unfold str_eqb. revert b. induction a as [|x a IH]; intros [|y b]; cbn; try (split; [discriminate|congruence]).
  - split; reflexivity.
  - rewrite andb_true_iff, N.eqb_eq, IH. split; [intros [-> ->]; reflexivity | intros E; inversion E; auto].
Qed.

Lemma str_eqb_refl a : str_eqb a a = true.
Proof. apply str_eqb_true. reflexivity. Qed.

Lemma split_nonnil sep s : split sep s <> [].
Proof.
  induction s as [|c r IH]; cbn; [discriminate|].
  destruct (c =? sep); [discriminate|]. destruct (split sep r); [contradiction | discriminate].
Qed.

Lemma split_nosep sep p : ~ In sep p -> split sep p = [p].
Proof.
  induction p as [|c r IH]; intros H; [reflexivity|]. cbn.
  assert (Hc : (c =? sep) = false) by (apply N.eqb_neq; intros ->; apply H; left; reflexivity).
  rewrite Hc, IH; [reflexivity|]. intros Hin. apply H. right. exact Hin.
Qed.

Lemma split_app_sep sep p r : ~ In sep p -> split sep (p ++ sep :: r) = p :: split sep r.
Proof.
  induction p as [|c p IH]; intros H; cbn.
  - rewrite N.eqb_refl. reflexivity.
  - assert (Hc : (c =? sep) = false) by (apply N.eqb_neq; intros ->; apply H; left; reflexivity).
    rewrite Hc, IH; [reflexivity|]. intros Hin. apply H. right. exact Hin.
Qed.

Lemma split_join sep (l : list str) :
  l <> [] -> Forall (fun p => ~ In sep p) l -> split sep (join [sep] l) = l.
Proof.
  induction l as [|x l IH]; intros Hne Hall; [congruence|].
  inversion Hall as [|x' l' Hx Hl]; subst. destruct l as [|y l].
  - cbn. apply split_nosep, Hx.
  - change (join [sep] (x :: y :: l)) with (x ++ [sep] ++ join [sep] (y :: l)).
    cbn [app]. rewrite split_app_sep by exact Hx. rewrite IH; [reflexivity | discriminate | exact Hl].
Qed.

Lemma split_join_tail sep (l : list str) (p : str) :
  l <> [] -> Forall (fun p => ~ In sep p) l -> ~ In sep p ->
  split sep (join [sep] l ++ [sep] ++ p) = l ++ [p].
Proof.
  intros Hne Hall Hp.
  assert (E : join [sep] l ++ [sep] ++ p = join [sep] (l ++ [p])).
  { clear Hall. induction l as [|x l IH]; [congruence|]. destruct l as [|y l].
    - reflexivity.
    - change (join [sep] (x :: y :: l)) with (x ++ [sep] ++ join [sep] (y :: l)).
      change ((x :: y :: l) ++ [p]) with (x :: (y :: l) ++ [p]).
      change (join [sep] (x :: (y :: l) ++ [p])) with (x ++ [sep] ++ join [sep] ((y :: l) ++ [p])).
      rewrite <- IH by discriminate. rewrite <- !app_assoc. reflexivity. }
  rewrite E. apply split_join.
  - destruct l; discriminate.
  - apply Forall_app. split; [exact Hall | constructor; [exact Hp | constructor]].
Qed.

Lemma lookup_lit_In {A} (tbl : list (str * A)) s a :
  lookup_lit tbl s = Some a -> In (s, a) tbl.
Proof.
  induction tbl as [|[l x] r IH]; cbn; [discriminate|].
  destruct (str_eqb s l) eqn:E.
  - intros H. injection H as ->. apply str_eqb_true in E. subst. left. reflexivity.
  - intros H. right. apply IH, H.
Qed.

(* ------------------------------------------------------------- decimal *)

Definition value_le (l : list N) : N := fold_right (fun d acc => d + 10 * acc) 0 l.

Lemma digits_le_value : forall fuel n,
  n < 2 ^ N.of_nat fuel -> value_le (digits_le fuel n) = n.
Proof.
  induction fuel as [|f IH]; intros n H.
  - cbn in H. assert (n = 0) by lia. subst. reflexivity.
  - cbn [digits_le]. destruct (n <? 10) eqn:E.
    + cbn. apply N.ltb_lt in E. rewrite N.mod_small by exact E. lia.
    + apply N.ltb_ge in E. cbn [value_le fold_right]. fold (value_le (digits_le f (n / 10))).
      rewrite IH.
      * pose proof (N.div_mod n 10). lia.
      * rewrite Nat2N.inj_succ, N.pow_succ_r' in H.
        apply N.div_lt_upper_bound; lia.
Qed.

Lemma digits_le_small : forall fuel n, Forall (fun d => d < 10) (digits_le fuel n).
Proof.
  induction fuel as [|f IH]; intros n; cbn [digits_le]; constructor.
  - apply N.mod_lt. discriminate.
  - destruct (n <? 10); [constructor | apply IH].
Qed.

Lemma parse_dec_snoc s c : parse_dec (s ++ [c]) = parse_dec s * 10 + (c - 48).
Proof. unfold parse_dec. rewrite fold_left_app. reflexivity. Qed.

Lemma parse_dec_digits l :
  parse_dec (map (fun d => 48 + d) (rev l)) = value_le l.
Proof.
  induction l as [|d l IH]; [reflexivity|].
  cbn [rev]. rewrite map_app. cbn [map]. rewrite parse_dec_snoc, IH. cbn [value_le fold_right].
  fold (value_le l). lia.
Qed.

Lemma log2_bound n : n < 2 ^ N.of_nat (S (N.to_nat (N.log2 n))).
Proof.
  rewrite Nat2N.inj_succ, N2Nat.id.
  destruct (N.eq_dec n 0) as [->|Hn]; [reflexivity|].
  apply N.log2_spec. lia.
Qed.

Lemma parse_dec_dec n : parse_dec (dec n) = n.
Proof. unfold dec. rewrite parse_dec_digits. apply digits_le_value, log2_bound. Qed.

Lemma dec_digits n : forallb is_digit (dec n) = true.
Proof.
  unfold dec. apply forallb_forall. intros c Hc. apply in_map_iff in Hc as [d [<- Hd]].
  apply in_rev in Hd. pose proof (digits_le_small (S (N.to_nat (N.log2 n))) n) as F.
  rewrite Forall_forall in F. apply F in Hd. unfold is_digit. lia.
Qed.

Lemma dec_nonnil n : dec n <> [].
Proof.
  unfold dec. cbn [digits_le]. cbn [rev]. rewrite map_app. intros E.
  apply app_eq_nil in E as [_ E]. discriminate.
Qed.

Lemma parse_usize_dec n : n <= usize_max -> parse_usize (dec n) = Some n.
Proof.
  intros H. unfold parse_usize. destruct (dec n) eqn:E; [exfalso; exact (dec_nonnil n E)|].
  rewrite <- E, dec_digits, parse_dec_dec.
  assert (L : (n <=? usize_max) = true) by (apply N.leb_le; exact H). rewrite L. reflexivity.
Qed.

Lemma parse_usize_bound s n : parse_usize s = Some n -> n <= usize_max.
Proof.
  unfold parse_usize. destruct s; [discriminate|]. destruct (forallb is_digit (n0 :: s)); [|discriminate].
  destruct (parse_dec (n0 :: s) <=? usize_max) eqn:E; [|discriminate].
  intros H. injection H as <-. apply N.leb_le, E.
Qed.

(* ------------------------------------------------ character classes *)

Definition is_ascii_nonupper (c : N) : bool := (c <? 128) && negb ((65 <=? c) && (c <=? 90)).

Lemma digit_props c : is_digit c = true -> is_ascii_nonupper c = true /\ c <> 43 /\ c <> 32 /\ len_utf8 c = 1.
Proof. unfold is_digit, is_ascii_nonupper, len_utf8. intros H. repeat split; try lia. destruct (c <? 128) eqn:E; lia. Qed.

Lemma plain_lt c : is_plain c = true -> c < 128.
Proof.
  unfold is_plain, is_lower_az, is_digit, is_punct, punct. cbn [existsb].
  intros H. repeat (apply orb_true_iff in H as [H|H]); try lia.
Qed.

(* everything the single-character branch needs, by a sweep over ASCII *)
Definition plain_check (c : N) : bool :=
  if is_plain c then
    is_ascii_nonupper c && negb (c =? 43) && negb (c =? 32) && negb (c =? 9) && negb (c =? 10)
    && negb (c =? 102 (* 'f' alone is the character f, handled separately *)) || (c =? 102)
  else true.

(* ------------------------------------------------ canonical values *)

(* the values FromStr can return *)
Definition name_canon (n : key_name) : Prop :=
  match n with
  | KChar c => is_plain c = true \/ c = 32
  | KF i => i <= usize_max
  | KMouseLeft | KMouseMiddle | KMouseMove | KMouseRight | KMouseWheelDown | KMouseWheelUp => False
  | _ => True
  end.

Lemma name_canonb_true n : name_canonb n = true <-> name_canon n.
Proof.
  destruct n; cbn; try (split; [intros _; exact I | reflexivity]); try (split; [discriminate | intros []]).
  - rewrite orb_true_iff, N.eqb_eq. reflexivity.
  - apply N.leb_le.
Qed.

(* the modifier sets FromStr can return: every subset of the eight flags it knows (NUMLOCK = 128 is not one) *)
Definition canon_modes : list N := filter (fun m => N.land m 128 =? 0) (nrange 512).
Definition mode_canon (m : N) : Prop := In m canon_modes.
Definition key_canon (k : key) : Prop := name_canon (kname k) /\ mode_canon (kmode k).

Definition memN (x : N) (l : list N) : bool := existsb (N.eqb x) l.
Lemma memN_In x l : memN x l = true <-> In x l.
Proof.
  unfold memN. rewrite existsb_exists. split.
  - intros [y [H E]]. apply N.eqb_eq in E. subst. exact H.
  - intros H. exists x. split; [exact H | apply N.eqb_refl].
Qed.

Lemma canon_modes_closed : forall m f, In m canon_modes -> In f (map snd mod_parse_table) -> In (N.lor m f) canon_modes.
Proof.
  assert (H : forallb (fun m => forallb (fun f => memN (N.lor m f) canon_modes) (map snd mod_parse_table)) canon_modes = true)
    by (vm_compute; reflexivity).
  intros m f Hm Hf. rewrite forallb_forall in H. specialize (H m Hm). rewrite forallb_forall in H.
  apply memN_In, H, Hf.
Qed.

Lemma canon_modes_zero : In 0 canon_modes.
Proof. apply memN_In. vm_compute. reflexivity. Qed.

Definition mask_of (m : N) : N :=
  fold_left (fun acc p => N.lor acc (fst p)) (filter (fun p => mod_contains m (fst p)) mod_print_table) 0.

Lemma canon_modes_mask : forall m, In m canon_modes -> mask_of m = m /\ (m <> 0 -> mod_names m <> []).
Proof.
  assert (H : forallb (fun m => (mask_of m =? m) && ((m =? 0) || negb (Nat.eqb (List.length (mod_names m)) 0))) canon_modes = true)
    by (vm_compute; reflexivity).
  intros m Hm. rewrite forallb_forall in H. specialize (H m Hm).
  apply andb_true_iff in H as [H1 H2]. apply N.eqb_eq in H1. split; [exact H1|].
  intros Hne E. rewrite E in H2. cbn in H2. rewrite orb_false_r in H2. apply N.eqb_eq in H2. contradiction.
Qed.

Global Opaque canon_modes.

(* ------------------------------------------------ the oracle *)

Record lower_spec (lower : str -> str) : Prop := {
  (* ASCII strings without capital letters are their own lower case *)
  lower_ascii : forall s, forallb is_ascii_nonupper s = true -> lower s = s;
  (* only a string beginning with f or F has a lower case beginning with f *)
  lower_f : forall s, starts_with 102 (lower s) = true ->
                      starts_with 102 s = true \/ starts_with 70 s = true
}.

Section WithLower.
  Variable lower : str -> str.
  Hypothesis LS : lower_spec lower.

  Local Notation parse_name := (parse_name lower).
  Local Notation parse_key := (parse_key lower).
  Local Notation parse_chord := (parse_chord lower).
  Local Notation loop := (parse_key_loop lower (Err 1)).

  (* ---------------------------------------------------------- no panic *)

  Definition no_panic {A} (o : outcome A) : Prop :=
    match o with Ok _ | Err _ => True | Panic _ | OutOfFuel => False end.

  Lemma slice_ok s : starts_with 102 (lower s) = true -> exists tl, slice_from1 s = Some tl.
  Proof.
    intros H. apply (lower_f lower LS) in H. destruct s as [|c tl]; [destruct H; discriminate|].
    cbn in *. exists tl. destruct H as [H|H]; apply N.eqb_eq in H; subst; reflexivity.
  Qed.

  Lemma parse_name_total s : no_panic (parse_name s).
  Proof.
    unfold KeyParse.parse_name, parse_name_gen, parse_name_core.
    destruct (lookup_lit named_keys (lower s)); [exact I|].
    destruct (starts_with 102 (lower s)) eqn:F; cbn [andb].
    - destruct (slice_ok s F) as [tl E]. rewrite E.
      destruct (1 <? utf8_len (lower s)); cbn [bind].
      + destruct (forallb is_digit tl).
        * destruct (parse_usize tl); exact I.
        * destruct (lower s) as [|c [|c2 r]]; try exact I. destruct (is_plain c); exact I.
      + destruct (lower s) as [|c [|c2 r]]; try exact I. destruct (is_plain c); exact I.
    - cbn [bind]. destruct (lower s) as [|c [|c2 r]]; try exact I. destruct (is_plain c); exact I.
  Qed.

  Lemma loop_total attrs : forall name mode, no_panic (loop attrs name mode).
  Proof.
    induction attrs as [|a rest IH]; intros name mode; cbn [parse_key_loop]; [exact I|].
    destruct (lookup_lit mod_parse_table (lower a)); [apply IH|].
    pose proof (parse_name_total (lower a)) as T. unfold KeyParse.parse_name in T.
    destruct (parse_name_gen lower (Err 1) (lower a)); try contradiction.
    - destruct name; [exact I | apply IH].
    - exact I.
  Qed.

  Lemma parse_key_total s : no_panic (parse_key s).
  Proof.
    unfold KeyParse.parse_key, parse_key_gen.
    pose proof (loop_total (split 43 s) None 0) as T.
    destruct (loop (split 43 s) None 0) as [[[n|] m]| | |]; try contradiction; exact I.
  Qed.

  Lemma collect_total l : no_panic (collect_keys lower (Err 1) l).
  Proof.
    induction l as [|s r IH]; cbn [collect_keys]; [exact I|].
    pose proof (parse_key_total s) as T. unfold KeyParse.parse_key in T.
    destruct (parse_key_gen lower (Err 1) s); try contradiction; cbn [bind]; [|exact I].
    destruct (collect_keys lower (Err 1) r); try contradiction; exact I.
  Qed.

  Theorem parse_chord_total s : no_panic (parse_chord s).
  Proof.
    unfold KeyParse.parse_chord, parse_chord_gen.
    pose proof (collect_total (filter nonempty (split 32 s))) as T.
    destruct (collect_keys lower (Err 1) (filter nonempty (split 32 s))) as [[|k ks]| | |]; try contradiction; exact I.
  Qed.

  (* ------------------------------------------- what the parsers return *)

  (* re-checked against the regenerated table on every run: every value a literal arm of the source can
     return is one that prints to something the parser accepts *)
  Lemma named_keys_canon : Forall (fun p => name_canon (snd p)) named_keys.
  Proof.
    assert (H : forallb (fun p => name_canonb (snd p)) named_keys = true) by (vm_compute; reflexivity).
    apply Forall_forall. intros p Hp. apply name_canonb_true. rewrite forallb_forall in H. apply H, Hp.
  Qed.

  Lemma tables_are_complete : tables_complete = true.
  Proof. vm_compute. reflexivity. Qed.

  Lemma parse_name_canon s n : parse_name s = Ok n -> name_canon n.
  Proof.
    unfold KeyParse.parse_name, parse_name_gen, parse_name_core.
    destruct (lookup_lit named_keys (lower s)) as [k|] eqn:L.
    - intros H. injection H as <-. apply lookup_lit_In in L.
      pose proof named_keys_canon as F. rewrite Forall_forall in F. apply (F _ L).
    - assert (Single : forall f, match f with
                                 | [c] => if is_plain c then Ok (KChar c) else Err 1
                                 | _ => Err 1
                                 end = Ok n -> name_canon n).
      { intros f. destruct f as [|c [|c2 r]]; try discriminate. destruct (is_plain c) eqn:P; [|discriminate].
        intros H. injection H as <-. left. exact P. }
      destruct (starts_with 102 (lower s) && (1 <? utf8_len (lower s))).
      + destruct (slice_from1 s) as [tl|]; [|discriminate]. cbn [bind].
        destruct (forallb is_digit tl); [|apply Single].
        destruct (parse_usize tl) as [i|] eqn:U; [|discriminate].
        intros H. injection H as <-. cbn. eapply parse_usize_bound, U.
      + cbn [bind]. apply Single.
  Qed.

  Lemma loop_canon attrs : forall name mode n m,
    loop attrs name mode = Ok (Some n, m) ->
    mode_canon mode -> (forall n0, name = Some n0 -> name_canon n0) ->
    name_canon n /\ mode_canon m.
  Proof.
    induction attrs as [|a rest IH]; intros name mode n m; cbn [parse_key_loop].
    - intros H Hm Hn. injection H as -> <-. split; [apply Hn; reflexivity | exact Hm].
    - destruct (lookup_lit mod_parse_table (lower a)) as [flag|] eqn:L.
      + intros H Hm Hn. apply (IH _ _ _ _ H); [|exact Hn].
        unfold mode_canon in *. apply canon_modes_closed; [exact Hm|]. apply lookup_lit_In in L.
        apply in_map_iff. exists (lower a, flag). split; [reflexivity | exact L].
      + destruct (parse_name_gen lower (Err 1) (lower a)) as [n1| | |] eqn:P; try discriminate.
        * destruct name as [n0|]; [discriminate|].
          intros H Hm Hn. apply (IH _ _ _ _ H Hm). intros n0 E. injection E as <-.
          apply (parse_name_canon (lower a)). exact P.
        * intros H Hm Hn. injection H as -> <-. split; [apply Hn; reflexivity | exact Hm].
  Qed.

  Lemma parse_key_canon s k : parse_key s = Ok k -> key_canon k.
  Proof.
    unfold KeyParse.parse_key, parse_key_gen.
    destruct (loop (split 43 s) None 0) as [[[n|] m]| | |] eqn:L; cbn [bind]; try discriminate.
    intros H. injection H as <-. unfold key_canon. cbn [kname kmode].
    apply (loop_canon _ _ _ _ _ L); [apply canon_modes_zero | discriminate].
  Qed.

  Lemma collect_canon l : forall ks, collect_keys lower (Err 1) l = Ok ks -> Forall key_canon ks.
  Proof.
    induction l as [|s r IH]; intros ks; cbn [collect_keys].
    - intros H. injection H as <-. constructor.
    - destruct (parse_key_gen lower (Err 1) s) as [k| | |] eqn:P; cbn [bind]; try discriminate.
      destruct (collect_keys lower (Err 1) r) as [ks'| | |]; cbn [bind]; try discriminate.
      intros H. injection H as <-. constructor; [apply (parse_key_canon s), P | apply IH; reflexivity].
  Qed.

  Lemma parse_chord_canon s ks : parse_chord s = Ok ks -> ks <> [] /\ Forall key_canon ks.
  Proof.
    unfold KeyParse.parse_chord, parse_chord_gen.
    destruct (collect_keys lower (Err 1) (filter nonempty (split 32 s))) as [ks'| | |] eqn:C; cbn [bind]; try discriminate.
    destruct ks' as [|k ks']; [discriminate|]. intros H. injection H as <-.
    split; [discriminate | apply (collect_canon _ _ C)].
  Qed.

End WithLower.

(* the ASCII lower-casing satisfies the oracle specification (non-vacuity) *)
Lemma ascii_lower_spec : lower_spec ascii_lower.
Proof.
  constructor.
  - induction s as [|c r IH]; [reflexivity|]. cbn [forallb ascii_lower map].
    rewrite andb_true_iff. intros [Hc Hr]. fold (ascii_lower r). rewrite (IH Hr).
    unfold is_ascii_nonupper in Hc. destruct ((65 <=? c) && (c <=? 90)) eqn:E; [|reflexivity].
    rewrite andb_true_iff in Hc. destruct Hc as [_ Hc]. discriminate.
  - intros [|c r]; cbn [ascii_lower map starts_with]; [discriminate|].
    destruct ((65 <=? c) && (c <=? 90)) eqn:E; intros H; apply N.eqb_eq in H.
    + right. apply N.eqb_eq. lia.
    + left. apply N.eqb_eq. exact H.
Qed.
