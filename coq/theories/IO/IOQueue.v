(* Executable model of `IOQueue` (src/common.rs:100-216), written against the
   source line by line.  The element type is a parameter: the code never
   inspects a byte, and the frame theorems instantiate it with tagged bytes.

     struct IOQueue { chunks: VecDeque<Vec<u8>>, offset: usize, length: usize }

   Panic sites (debug build: checked arithmetic, slice bounds):
     1  as_slice        &chunk[self.offset..]           offset > chunk.len()
     2  consume         self.offset + amt               usize overflow
     3  consume         self.length -= amt              underflow
     4  consume         chunk.len() - self.offset       underflow
     5  consume         self.length -= (..)             underflow
     6  clear_but_last  self.length -= chunk.len()      underflow
   `self.length += buf.len()` in write cannot overflow before memory is
   exhausted and is modelled unchecked.

   The model is of the code AFTER the two `fix:` commits of this property
   (clear_but_last keeps `length` in step; flush tests the back chunk).  The
   two functions as found are kept as `clear_but_last_orig` / `flush_orig`
   together with the executions that refute the property on them. *)
From Coq Require Import List NArith Arith Bool.
From SNT Require Import Base.Outcome.
Import ListNotations.

Definition usize_max : N := 18446744073709551615%N.

Section Queue.
  Context {A : Type}.

  Record queue := mkQ { chunks : list (list A); offset : nat; qlen : nat }.

  (* IOQueue::new *)
  Definition qempty : queue := mkQ [] 0 0.

  (* is_empty: self.chunks.is_empty() *)
  Definition is_empty (q : queue) : bool :=
    match chunks q with [] => true | _ => false end.

  (* len: self.length *)
  Definition len (q : queue) : nat := qlen q.

  (* chunks_count: self.chunks.len() *)
  Definition chunks_count (q : queue) : nat := length (chunks q).

  (* as_slice: front chunk from offset on, or the empty slice *)
  Definition as_slice (q : queue) : outcome (list A) :=
    match chunks q with
    | [] => Ok []
    | c :: _ => if offset q <=? length c then Ok (skipn (offset q) c) else Panic 1
    end.

  Definition front_len (q : queue) : nat :=
    match chunks q with c :: _ => length c | [] => 0 end.

  (* consume(amt):
       if front.len() (or 0) > offset + amt { offset += amt; length -= amt }
       else { if let Some(chunk) = pop_front() { length -= chunk.len() - offset }; offset = 0 } *)
  Definition consume (q : queue) (amt : N) : outcome queue :=
    if (usize_max <? N.of_nat (offset q) + amt)%N then Panic 2
    else if (N.of_nat (offset q) + amt <? N.of_nat (front_len q))%N then
      let a := N.to_nat amt in
      if qlen q <? a then Panic 3
      else Ok (mkQ (chunks q) (offset q + a) (qlen q - a))
    else
      match chunks q with
      | c :: rest =>
          if length c <? offset q then Panic 4
          else let d := length c - offset q in
               if qlen q <? d then Panic 5 else Ok (mkQ rest 0 (qlen q - d))
      | [] => Ok (mkQ [] 0 (qlen q))
      end.

  (* append to the last chunk (back_mut().unwrap() after the push on empty) *)
  Fixpoint push_last (cs : list (list A)) (b : list A) : list (list A) :=
    match cs with
    | [] => [b]
    | [c] => [c ++ b]
    | c :: r => c :: push_last r b
    end.

  (* Write::write: returns buf.len() *)
  Definition write (q : queue) (b : list A) : queue :=
    mkQ (push_last (chunks q) b) (offset q) (qlen q + length b).

  Definition last_nonempty (cs : list (list A)) : bool :=
    match last cs [] with [] => false | _ => true end.

  (* Write::flush (fixed): a new chunk is opened iff the back chunk holds data *)
  Definition flush (q : queue) : queue :=
    if last_nonempty (chunks q) then mkQ (chunks q ++ [[]]) (offset q) (qlen q) else q.

  (* Write::flush as found: tests the FRONT slice *)
  Definition flush_orig (q : queue) : outcome queue :=
    let* s := as_slice q in
    match s with
    | [] => Ok q
    | _ => Ok (mkQ (chunks q ++ [[]]) (offset q) (qlen q))
    end.

  (* Read::read with a destination of n bytes *)
  Definition read (q : queue) (n : nat) : outcome (queue * list A) :=
    let* s := as_slice q in
    let r := firstn (Nat.min n (length s)) s in
    let* q' := consume q (N.of_nat (length r)) in
    Ok (q', r).

  (* consume_with(consumer): the consumer sees as_slice() and answers Ok(k) *)
  Definition consume_with (q : queue) (k : list A -> N) : outcome (queue * N) :=
    let* s := as_slice q in
    let size := k s in
    let* q' := consume q size in
    Ok (q', size).

  (* consume_with whose consumer answers Err: `?` returns before consume *)
  Definition consume_with_err (q : queue) : outcome queue :=
    bind (as_slice q) (fun _ => Ok q).

  Definition total_len (cs : list (list A)) : nat := length (concat cs).

  (* clear_but_last (fixed): drain(1..) and subtract the drained lengths *)
  Definition clear_but_last (q : queue) : outcome queue :=
    match chunks q with
    | c :: (_ :: _) as rest =>
        if qlen q <? total_len rest then Panic 6
        else Ok (mkQ [c] (offset q) (qlen q - total_len rest))
    | _ => Ok q
    end.

  (* clear_but_last as found: `length` untouched *)
  Definition clear_but_last_orig (q : queue) : queue :=
    match chunks q with
    | c :: (_ :: _) => mkQ [c] (offset q) (qlen q)
    | _ => q
    end.

  (* the chunks a drop discards *)
  Definition dropped_chunks (q : queue) : list (list A) :=
    match chunks q with
    | _ :: (_ :: _) as rest => rest
    | _ => []
    end.

  (* the bytes still to be read, in order *)
  Definition pending (q : queue) : list A :=
    match chunks q with
    | [] => []
    | c :: r => skipn (offset q) c ++ concat r
    end.

  (* read until the queue reports nothing left (destination size n > 0) *)
  Fixpoint read_all (fuel : nat) (q : queue) (n : nat) (acc : list A) : outcome (queue * list A) :=
    match fuel with
    | O => OutOfFuel
    | S f =>
        let* (q', r) := read q n in
        match r with
        | [] => Ok (q', acc)
        | _ => read_all f q' n (acc ++ r)
        end
    end.
  (* std's read_to_end calls read with destinations of its own choosing until a
     read returns 0; modelled with a destination larger than any chunk
     (IOQueueProofs.read_all_any_size: the sizes do not matter) *)
  Definition read_to_end (q : queue) : outcome (queue * list A) :=
    read_all (S (length (chunks q) + total_len (chunks q))) q (S (total_len (chunks q))) [].

  (* ---------------------------------------------------------------- histories *)

  Inductive op :=
  | OWrite (b : list A)
  | OFlush
  | ORead (n : nat)
  | OConsume (amt : N)
  | OConsumeWith (k : N) (clamp : bool)   (* consumer answers Ok(min k |slice|) or Ok(k) *)
  | OConsumeWithErr
  | ODrop
  | OReadToEnd.                           (* Read::read_to_end: read until a read returns 0 *)

  Inductive ret := RUnit | RBytes (l : list A) | RNum (n : N).

  Definition consumer (k : N) (clamp : bool) (s : list A) : N :=
    if clamp then N.min k (N.of_nat (length s)) else k.

  (* bytes removed from the queue by consume(amt): the first min(amt, |slice|) of the front slice *)
  Definition taken (s : list A) (amt : N) : list A :=
    firstn (N.to_nat (N.min amt (N.of_nat (length s)))) s.

  (* one call: new state, return value, bytes handed out, chunks discarded *)
  Definition step (q : queue) (o : op) : outcome (queue * ret * list A * list (list A)) :=
    match o with
    | OWrite b => Ok (write q b, RNum (N.of_nat (length b)), [], [])
    | OFlush => Ok (flush q, RUnit, [], [])
    | ORead n => let* (q', r) := read q n in Ok (q', RBytes r, r, [])
    | OConsume amt =>
        let* s := as_slice q in
        let* q' := consume q amt in Ok (q', RUnit, taken s amt, [])
    | OConsumeWith k clamp =>
        let* s := as_slice q in
        let* (q', size) := consume_with q (consumer k clamp) in
        Ok (q', RNum size, taken s size, [])
    | OConsumeWithErr => let* q' := consume_with_err q in Ok (q', RUnit, [], [])
    | ODrop => let* q' := clear_but_last q in Ok (q', RUnit, [], dropped_chunks q)
    | OReadToEnd => let* (q', r) := read_to_end q in Ok (q', RBytes r, r, [])
    end.

  (* a history with its ghost record: everything handed out, every chunk discarded *)
  Fixpoint exec (q : queue) (ops : list op) (R : list A) (X : list (list A))
    : outcome (queue * list A * list (list A)) :=
    match ops with
    | [] => Ok (q, R, X)
    | o :: rest =>
        let* (q', _, r, x) := step q o in
        exec q' rest (R ++ r) (X ++ x)
    end.

  Fixpoint written (ops : list op) : list A :=
    match ops with
    | [] => []
    | OWrite b :: r => b ++ written r
    | _ :: r => written r
    end.

  (* what a caller can observe after each call *)
  Inductive obs :=
  | Obs (r : ret) (len : nat) (count : nat) (empty : bool) (slice : list A)
  | ObsPanic.

  Fixpoint trace (q : queue) (ops : list op) : list obs :=
    match ops with
    | [] => []
    | o :: rest =>
        match step q o with
        | Ok (q', r, _, _) =>
            match as_slice q' with
            | Ok s => Obs r (len q') (chunks_count q') (is_empty q') s :: trace q' rest
            | _ => [ObsPanic]
            end
        | _ => [ObsPanic]
        end
    end.

End Queue.

Arguments queue : clear implicits.
Arguments op : clear implicits.
Arguments ret : clear implicits.
Arguments obs : clear implicits.
