(* Proofs about the queue model IO/IOQueue.v: representation invariant over every
   history, absence of panics, exactly-once / in-order delivery (erasure
   relation), read-to-exhaustion, observers. *)
From Coq Require Import List NArith Arith Bool Lia.
From Coq Require Import ZifyBool ZifyNat ZifyN.
From SNT Require Import Base.Outcome IO.IOQueue.
Import ListNotations.

Arguments N.add : simpl never.
Arguments N.sub : simpl never.
Arguments N.mul : simpl never.
Arguments N.eqb : simpl never.
Arguments N.ltb : simpl never.
Arguments N.leb : simpl never.
Arguments N.min : simpl never.
Arguments N.of_nat : simpl never.
Arguments N.to_nat : simpl never.

(* ------------------------------------------------------------------ erasure *)
Section Erase.
  Context {A : Type}.

  (* erase w k x: k is w with the contiguous segments x (in this order) cut out *)
  Inductive erase : list A -> list A -> list (list A) -> Prop :=
  | er_nil : erase [] [] []
  | er_keep a w k x : erase w k x -> erase (a :: w) (a :: k) x
  | er_drop s w k x : erase w k x -> erase (s ++ w) k (s :: x).

  Lemma erase_refl : forall w, erase w w [].
  Proof. induction w; [constructor|now constructor]. Qed.

  Lemma erase_all_dropped : forall segs, erase (concat segs) [] segs.
  Proof.
    induction segs as [|s segs IH]; cbn [concat]; [constructor|].
    now apply er_drop.
  Qed.

  Lemma erase_drop_prefix : forall x k, erase (concat x ++ k) k x.
  Proof.
    induction x as [|s x IH]; intro k; cbn [concat app]; [apply erase_refl|].
    rewrite <- app_assoc. now apply er_drop.
  Qed.

  Lemma erase_app_keep : forall w k x b, erase w k x -> erase (w ++ b) (k ++ b) x.
  Proof.
    intros w k x b H. induction H.
    - cbn. apply erase_refl.
    - cbn. now constructor.
    - rewrite <- app_assoc. now constructor.
  Qed.

  Lemma erase_app_drop : forall w k x segs,
    erase w k x -> erase (w ++ concat segs) k (x ++ segs).
  Proof.
    intros w k x segs H. induction H.
    - cbn. apply erase_all_dropped.
    - cbn. now constructor.
    - rewrite <- app_assoc. cbn. now constructor.
  Qed.

  Lemma erase_no_drop : forall w k, erase w k [] -> w = k.
  Proof.
    intros w k H. remember [] as x eqn:E. induction H; try discriminate; auto.
    f_equal. auto.
  Qed.

  Lemma erase_length : forall w k x, erase w k x -> length w = length k + length (concat x).
  Proof.
    intros w k x H. induction H; cbn [concat length]; auto.
    - lia.
    - rewrite !app_length. lia.
  Qed.

  (* every kept element and every cut element comes from w, and w has nothing else *)
  Lemma erase_in : forall w k x, erase w k x ->
    forall a, In a w <-> In a k \/ In a (concat x).
  Proof.
    intros w k x H. induction H; intro b; cbn [concat In].
    - tauto.
    - rewrite IHerase. tauto.
    - rewrite !in_app_iff, IHerase. tauto.
  Qed.

  Lemma NoDup_app_tail : forall (s w : list A), NoDup (s ++ w) -> NoDup w.
  Proof. induction s as [|c s IH]; cbn; intros w H; auto. inversion H; auto. Qed.

  (* with pairwise distinct elements, nothing that was cut out is also kept *)
  Lemma erase_disjoint : forall w k x, erase w k x -> NoDup w ->
    forall a, In a (concat x) -> ~ In a k.
  Proof.
    intros w k x H. induction H; intros ND b Hx Hk; cbn [concat] in *.
    - contradiction.
    - inversion ND as [|? ? Hn ND']; subst. destruct Hk as [->|Hk].
      + apply Hn. apply (erase_in _ _ _ H). now right.
      + now apply (IHerase ND' b).
    - apply in_app_or in Hx. destruct Hx as [Hs|Hx].
      + (* b in s and b kept, hence in w: contradicts NoDup (s ++ w) *)
        assert (Hw : In b w) by (apply (erase_in _ _ _ H); now left).
        clear - ND Hs Hw. induction s as [|c s IHs]; [contradiction|].
        cbn in ND. inversion ND as [|? ? Hn ND']; subst. destruct Hs as [->|Hs].
        * apply Hn. apply in_or_app. now right.
        * now apply IHs.
      + apply (IHerase (NoDup_app_tail _ _ ND) b Hx Hk).
  Qed.
End Erase.

(* ------------------------------------------------------------------ the queue *)
Section QueueProofs.
  Context {A : Type}.
  Notation queue := (queue A).
  Notation op := (op A).

  Definition front_slice (q : queue) : list A :=
    match chunks q with [] => [] | c :: _ => skipn (offset q) c end.

  Definition mid_ok (cs : list (list A)) : Prop :=
    Forall (fun c => c <> []) (removelast cs).

  (* representation invariant *)
  Record Inv (q : queue) : Prop := {
    inv_len : qlen q = length (pending q);
    inv_off : offset q = 0 \/ offset q < front_len q;
    inv_mid : mid_ok (chunks q)
  }.

  Lemma pending_split : forall q : queue, pending q = front_slice q ++ concat (tl (chunks q)).
  Proof. intros [[|c r] o l]; reflexivity. Qed.

  Lemma front_slice_length : forall q : queue,
    offset q = 0 \/ offset q < front_len q ->
    length (front_slice q) = front_len q - offset q.
  Proof.
    intros [[|c r] o l] H; cbn in *; [lia|]. now rewrite skipn_length.
  Qed.

  Lemma as_slice_ok : forall q : queue,
    offset q = 0 \/ offset q < front_len q -> as_slice q = Ok (front_slice q).
  Proof.
    intros [[|c r] o l] H; cbn in *; auto.
    destruct (o <=? length c) eqn:E; auto. lia.
  Qed.

  Lemma Inv_empty : Inv qempty.
  Proof. split; cbn; auto. constructor. Qed.

  (* ---------------- list facts *)
  Lemma skipn_add : forall a o (c : list A), skipn a (skipn o c) = skipn (o + a) c.
  Proof.
    intros a o. induction o as [|o IH]; intro c; [reflexivity|].
    destruct c; cbn; [now rewrite skipn_nil|apply IH].
  Qed.

  Lemma push_last_concat : forall cs (b : list A), concat (push_last cs b) = concat cs ++ b.
  Proof.
    induction cs as [|c [|c2 r] IH]; intro b.
    - cbn. now rewrite app_nil_r.
    - cbn. now rewrite !app_nil_r.
    - change (push_last (c :: c2 :: r) b) with (c :: push_last (c2 :: r) b).
      cbn [concat]. rewrite IH. cbn [concat]. now rewrite app_assoc.
  Qed.

  Lemma push_last_cons2 : forall c c2 r (b : list A),
    push_last (c :: c2 :: r) b = c :: push_last (c2 :: r) b.
  Proof. reflexivity. Qed.

  Lemma push_last_nonnil : forall cs (b : list A), push_last cs b <> [].
  Proof. intros [|c [|c2 r]] b; cbn; discriminate. Qed.

  Lemma removelast_push_last : forall cs (b : list A),
    removelast (push_last cs b) = removelast cs.
  Proof.
    induction cs as [|c [|c2 r] IH]; intro b; auto.
    rewrite push_last_cons2.
    change (removelast (c :: c2 :: r)) with (c :: removelast (c2 :: r)).
    rewrite <- IH with (b := b).
    destruct (push_last (c2 :: r) b) eqn:E; [now apply push_last_nonnil in E|reflexivity].
  Qed.

  Lemma removelast_cons2 : forall (c c2 : list A) r,
    removelast (c :: c2 :: r) = c :: removelast (c2 :: r).
  Proof. reflexivity. Qed.

  Lemma mid_ok_tl : forall c cs, mid_ok (c :: cs) -> mid_ok cs.
  Proof.
    intros c [|c2 r] H; [constructor|].
    unfold mid_ok in *. rewrite removelast_cons2 in H. now inversion H.
  Qed.

  Lemma last_nonempty_all : forall cs,
    mid_ok cs -> last_nonempty cs = true -> Forall (fun c : list A => c <> []) cs.
  Proof.
    induction cs as [|c [|c2 r] IH]; intros Hm Hl.
    - constructor.
    - constructor; [|constructor]. unfold last_nonempty in Hl. cbn in Hl.
      destruct c; [discriminate|discriminate].
    - unfold mid_ok in Hm. rewrite removelast_cons2 in Hm. inversion Hm; subst.
      constructor; auto.
  Qed.

  Lemma removelast_snoc : forall (cs : list (list A)) x, removelast (cs ++ [x]) = cs.
  Proof. intros. apply removelast_last. Qed.

  Lemma tl_push_last : forall c c2 r (b : list A),
    tl (push_last (c :: c2 :: r) b) = push_last (c2 :: r) b.
  Proof. reflexivity. Qed.

  Lemma front_len_app : forall cs (x : list (list A)),
    cs <> [] -> match cs ++ x with c :: _ => length c | [] => 0 end
                = match cs with c :: _ => length c | [] => 0 end.
  Proof. intros [|c r] x H; [congruence|reflexivity]. Qed.

  (* ---------------- write *)
  Lemma write_front : forall (q : queue) (b : list A),
    offset q = 0 \/ offset q < front_len q ->
    (tl (chunks q) = [] ->
       front_slice (write q b) = front_slice q ++ b /\ tl (chunks (write q b)) = [])
    /\ (tl (chunks q) <> [] ->
       front_slice (write q b) = front_slice q
       /\ concat (tl (chunks (write q b))) = concat (tl (chunks q)) ++ b).
  Proof.
    intros [[|c [|c2 r]] o l] b H; unfold write, front_slice, front_len in *; cbn in *.
    - split; intro H1; [|congruence]. split; auto.
      destruct H as [->|H]; [reflexivity|lia].
    - split; intro H1; [|congruence].
      split; auto. rewrite skipn_app.
      replace (o - length c) with 0 by lia. reflexivity.
    - split; intro H1; [discriminate|]. split; auto.
      change (match r with [] => [c2 ++ b] | _ :: _ => c2 :: push_last r b end)
        with (push_last (c2 :: r) b).
      rewrite push_last_concat. reflexivity.
  Qed.

  Lemma pending_write : forall (q : queue) (b : list A),
    offset q = 0 \/ offset q < front_len q -> pending (write q b) = pending q ++ b.
  Proof.
    intros q b H. rewrite !pending_split.
    destruct (write_front q b H) as [H1 H2].
    destruct (tl (chunks q)) eqn:E.
    - destruct (H1 eq_refl) as [-> ->]. cbn. now rewrite !app_nil_r.
    - destruct H2 as [-> ->]; [discriminate|]. now rewrite app_assoc.
  Qed.

  Lemma Inv_write : forall (q : queue) (b : list A), Inv q -> Inv (write q b).
  Proof.
    intros q b [Hl Ho Hm]. split.
    - rewrite pending_write by auto. rewrite app_length. cbn [write qlen]. lia.
    - destruct q as [[|c [|c2 r]] o l]; cbn in *; auto; [lia|].
      rewrite app_length. lia.
    - unfold mid_ok, write. cbn. now rewrite removelast_push_last.
  Qed.

  (* ---------------- flush *)
  Lemma flush_cases : forall q : queue,
    (last_nonempty (chunks q) = true /\ flush q = mkQ (chunks q ++ [[]]) (offset q) (qlen q))
    \/ (last_nonempty (chunks q) = false /\ flush q = q).
  Proof. intro q. unfold flush. destruct (last_nonempty (chunks q)); auto. Qed.

  Lemma last_nonempty_nonnil : forall cs : list (list A), last_nonempty cs = true -> cs <> [].
  Proof. intros [|c r] H; [discriminate|discriminate]. Qed.

  Lemma flush_view : forall q : queue,
    front_slice (flush q) = front_slice q
    /\ concat (tl (chunks (flush q))) = concat (tl (chunks q))
    /\ (tl (chunks q) <> [] -> tl (chunks (flush q)) <> [])
    /\ front_len (flush q) = front_len q /\ offset (flush q) = offset q /\ qlen (flush q) = qlen q.
  Proof.
    intro q. destruct (flush_cases q) as [[Hn ->]|[_ ->]]; [|repeat split; auto].
    apply last_nonempty_nonnil in Hn.
    destruct q as [[|c r] o l]; cbn in Hn; [congruence|]. unfold front_slice, front_len; cbn.
    repeat split; auto.
    - rewrite concat_app. cbn. now rewrite app_nil_r.
    - destruct r; discriminate.
  Qed.

  Lemma pending_flush : forall q : queue, pending (flush q) = pending q.
  Proof.
    intro q. rewrite !pending_split.
    destruct (flush_view q) as (-> & -> & _). reflexivity.
  Qed.

  Lemma Inv_flush : forall q : queue, Inv q -> Inv (flush q).
  Proof.
    intros q [Hl Ho Hm]. destruct (flush_view q) as (_ & _ & _ & Hf & Hoff & Hq). split.
    - rewrite pending_flush. congruence.
    - rewrite Hf, Hoff. exact Ho.
    - destruct (flush_cases q) as [[Hn ->]|[_ ->]]; auto.
      unfold mid_ok. cbn [chunks]. rewrite removelast_snoc. now apply last_nonempty_all.
  Qed.

  (* after a flush the back chunk is empty or the queue has no chunk: flush is idempotent *)
  Lemma flush_idem : forall q : queue, flush (flush q) = flush q.
  Proof.
    intro q. destruct (flush_cases q) as [[Hn E]|[Hn E]]; rewrite E.
    - unfold flush at 1. cbn [chunks]. unfold last_nonempty. rewrite last_last. reflexivity.
    - unfold flush. now rewrite Hn.
  Qed.

  (* ---------------- consume *)
  Definition q_adv (q : queue) (a : nat) : queue := mkQ (chunks q) (offset q + a) (qlen q - a).
  Definition q_pop (q : queue) : queue :=
    mkQ (tl (chunks q)) 0 (qlen q - length (front_slice q)).

  Lemma consume_cases : forall (q : queue) amt,
    Inv q -> (N.of_nat (offset q) + amt <= usize_max)%N ->
    ((amt < N.of_nat (length (front_slice q)))%N /\ consume q amt = Ok (q_adv q (N.to_nat amt)))
    \/ ((N.of_nat (length (front_slice q)) <= amt)%N /\ consume q amt = Ok (q_pop q)).
  Proof.
    intros q amt [Hl Ho Hm] Hfit.
    pose proof (front_slice_length q Ho) as Hfs.
    assert (Hpl : length (front_slice q) <= qlen q).
    { rewrite Hl, pending_split, app_length. lia. }
    unfold consume.
    destruct (usize_max <? N.of_nat (offset q) + amt)%N eqn:E1; [lia|].
    destruct (N.of_nat (offset q) + amt <? N.of_nat (front_len q))%N eqn:E2.
    - left. split; [lia|].
      destruct (qlen q <? N.to_nat amt) eqn:E3; [lia|]. reflexivity.
    - right. split; [lia|]. unfold q_pop.
      destruct q as [[|c r] o l]; cbn [chunks offset qlen front_len tl] in *.
      + unfold front_slice; cbn. now rewrite Nat.sub_0_r.
      + destruct (length c <? o) eqn:E3; [lia|].
        destruct (l <? length c - o) eqn:E4; [lia|].
        unfold front_slice in *; cbn [chunks offset] in *. now rewrite Hfs.
  Qed.

  Lemma Inv_adv : forall (q : queue) a, Inv q -> a < length (front_slice q) -> Inv (q_adv q a).
  Proof.
    intros q a [Hl Ho Hm] Ha. pose proof (front_slice_length q Ho) as Hfs.
    split; cbn [q_adv chunks offset qlen]; auto.
    - destruct q as [[|c r] o l]; cbn in *; [lia|].
      unfold front_slice in *; cbn [chunks offset] in *.
      rewrite app_length, skipn_length in *. lia.
    - right. unfold front_len, q_adv in *. cbn. lia.
  Qed.

  Lemma adv_view : forall (q : queue) a,
    front_slice (q_adv q a) = skipn a (front_slice q) /\ tl (chunks (q_adv q a)) = tl (chunks q).
  Proof.
    intros [[|c r] o l] a; unfold front_slice; cbn; split; auto.
    - now rewrite skipn_nil.
    - symmetry. apply skipn_add.
  Qed.

  Lemma Inv_pop : forall q : queue, Inv q -> Inv (q_pop q).
  Proof.
    intros q [Hl Ho Hm]. split.
    - unfold q_pop. cbn. rewrite Hl, pending_split, app_length.
      destruct q as [[|c [|c2 r]] o l]; unfold pending, front_slice; cbn; try lia.
    - left. reflexivity.
    - unfold q_pop. cbn. destruct (chunks q); [constructor|]. cbn [tl]. eapply mid_ok_tl; eauto.
  Qed.

  Lemma pop_view : forall q : queue,
    front_slice (q_pop q) = hd [] (tl (chunks q)) /\ chunks (q_pop q) = tl (chunks q).
  Proof. intros [[|c [|c2 r]] o l]; unfold front_slice; cbn; auto. Qed.

  Lemma taken_adv : forall (s : list A) amt,
    (amt < N.of_nat (length s))%N -> taken s amt = firstn (N.to_nat amt) s.
  Proof. intros s amt H. unfold taken. f_equal. lia. Qed.

  Lemma taken_pop : forall (s : list A) amt,
    (N.of_nat (length s) <= amt)%N -> taken s amt = s.
  Proof.
    intros s amt H. unfold taken. replace (N.min amt (N.of_nat (length s))) with (N.of_nat (length s)) by lia.
    rewrite Nnat.Nat2N.id. apply firstn_all.
  Qed.

  (* ---------------- handing bytes out: one relation for consume / read / consume_with *)
  Definition take_rel (q : queue) (amt : N) (q' : queue) : Prop :=
    ((amt < N.of_nat (length (front_slice q)))%N /\ q' = q_adv q (N.to_nat amt))
    \/ ((N.of_nat (length (front_slice q)) <= amt)%N /\ q' = q_pop q).

  Lemma consume_take : forall (q : queue) amt,
    Inv q -> (N.of_nat (offset q) + amt <= usize_max)%N ->
    exists q', consume q amt = Ok q' /\ take_rel q amt q'.
  Proof.
    intros q amt HI Hfit. destruct (consume_cases q amt HI Hfit) as [[H E]|[H E]].
    - exists (q_adv q (N.to_nat amt)). split; auto. left; auto.
    - exists (q_pop q). split; auto. right; auto.
  Qed.

  Definition G (q : queue) (W R : list A) (X : list (list A)) : Prop :=
    exists W1, W = W1 ++ concat (tl (chunks q)) /\ erase W1 (R ++ front_slice q) X.

  Lemma total_len_tl : forall cs : list (list A), total_len (tl cs) <= total_len cs.
  Proof. intros [|c r]; unfold total_len; cbn; [lia|]. rewrite app_length. lia. Qed.

  Lemma offset_le_total : forall q : queue,
    offset q = 0 \/ offset q < front_len q -> offset q + length (front_slice q) <= total_len (chunks q).
  Proof.
    intros q H. rewrite (front_slice_length q H).
    destruct q as [[|c r] o l]; unfold total_len, front_len in *; cbn in *; [lia|].
    rewrite app_length. lia.
  Qed.

  Lemma take_sound : forall (q : queue) amt q',
    Inv q -> take_rel q amt q' ->
    Inv q' /\ total_len (chunks q') <= total_len (chunks q)
    /\ (forall W R X, G q W R X -> G q' W (R ++ taken (front_slice q) amt) X)
    /\ pending q = taken (front_slice q) amt ++ pending q'.
  Proof.
    intros q amt q' HI [[Hlt ->]|[Hge ->]].
    - assert (Ha : N.to_nat amt < length (front_slice q)) by lia.
      destruct (adv_view q (N.to_nat amt)) as [Hf Ht].
      rewrite (taken_adv _ _ Hlt).
      split; [now apply Inv_adv|]. split; [unfold q_adv, total_len; cbn; lia|]. split.
      + intros W R X (W1 & HW & He). exists W1. rewrite Ht, Hf. split; auto.
        rewrite <- app_assoc, firstn_skipn. exact He.
      + rewrite !pending_split, Ht, Hf, app_assoc, firstn_skipn. reflexivity.
    - destruct (pop_view q) as [Hf Hc].
      rewrite (taken_pop _ _ Hge).
      split; [now apply Inv_pop|]. split; [rewrite Hc; apply total_len_tl|]. split.
      + intros W R X (W1 & HW & He). exists (W1 ++ hd [] (tl (chunks q))).
        rewrite Hc, Hf. split.
        * rewrite HW, <- app_assoc. f_equal. destruct (tl (chunks q)); cbn; auto.
        * now apply erase_app_keep.
      + rewrite !pending_split, Hc, Hf. f_equal. destruct (tl (chunks q)); cbn; auto.
  Qed.

  Inductive takes : queue -> list A -> queue -> Prop :=
  | takes_nil q : takes q [] q
  | takes_cons q amt q1 out q2 :
      take_rel q amt q1 -> takes q1 out q2 ->
      takes q (taken (front_slice q) amt ++ out) q2.

  Lemma takes_one : forall (q : queue) amt q', take_rel q amt q' ->
    takes q (taken (front_slice q) amt) q'.
  Proof.
    intros. rewrite <- (app_nil_r (taken _ _)). econstructor; eauto. constructor.
  Qed.

  Lemma takes_sound : forall (q : queue) out q',
    takes q out q' -> Inv q ->
    Inv q' /\ total_len (chunks q') <= total_len (chunks q)
    /\ (forall W R X, G q W R X -> G q' W (R ++ out) X)
    /\ pending q = out ++ pending q'.
  Proof.
    intros q out q' H. induction H as [q|q amt q1 out q2 Ht Hts IH]; intro HI.
    - split; [auto|]. split; [lia|]. split; [|reflexivity]. intros W R X HG. now rewrite app_nil_r.
    - destruct (take_sound q amt q1 HI Ht) as (HI1 & Htot1 & HG1 & Hp1).
      destruct (IH HI1) as (HI2 & Htot2 & HG2 & Hp2).
      split; auto. split; [lia|]. split.
      + intros W R X HG. rewrite app_assoc. apply HG2. now apply HG1.
      + rewrite Hp1, Hp2, app_assoc. reflexivity.
  Qed.

  (* ---------------- read *)
  Lemma taken_firstn : forall (s : list A) n,
    taken s (N.of_nat (Nat.min n (length s))) = firstn (Nat.min n (length s)) s.
  Proof.
    intros s n. unfold taken. f_equal. lia.
  Qed.

  Lemma read_ok : forall (q : queue) n B,
    Inv q -> total_len (chunks q) <= B -> (N.of_nat B <= usize_max)%N ->
    let r := firstn (Nat.min n (length (front_slice q))) (front_slice q) in
    exists q', read q n = Ok (q', r)
      /\ take_rel q (N.of_nat (Nat.min n (length (front_slice q)))) q'
      /\ r = taken (front_slice q) (N.of_nat (Nat.min n (length (front_slice q)))).
  Proof.
    intros q n B HI Htot HB r. unfold read.
    rewrite (as_slice_ok q (inv_off q HI)). cbn [bind]. fold r.
    assert (Hr : length r = Nat.min n (length (front_slice q))).
    { unfold r. rewrite firstn_length. lia. }
    pose proof (offset_le_total q (inv_off q HI)) as Hot.
    destruct (consume_take q (N.of_nat (length r)) HI) as (q' & E & Ht); [lia|].
    exists q'. rewrite E. cbn [bind]. rewrite Hr in Ht. split; auto. split; auto.
    unfold r. now rewrite taken_firstn.
  Qed.

  Lemma front_empty_pending : forall q : queue,
    Inv q -> front_slice q = [] -> pending q = [] /\ tl (chunks q) = [].
  Proof.
    intros q [Hl Ho Hm] Hf. pose proof (front_slice_length q Ho) as Hfs. rewrite Hf in Hfs.
    destruct q as [[|c [|c2 r]] o l]; unfold pending, front_slice, front_len, mid_ok in *;
      cbn in *; auto.
    - rewrite Hf. auto.
    - exfalso. inversion Hm as [|? ? Hc _]; subst.
      apply Hc. apply length_zero_iff_nil. lia.
  Qed.

  (* read to exhaustion, any destination size n > 0 *)
  Lemma read_all_ok : forall fuel (q : queue) n acc B,
    Inv q -> total_len (chunks q) <= B -> (N.of_nat B <= usize_max)%N ->
    0 < n -> length (pending q) < fuel ->
    exists q', read_all fuel q n acc = Ok (q', acc ++ pending q)
      /\ takes q (pending q) q' /\ pending q' = [] /\ chunks q' = [] .
  Proof.
    induction fuel as [|fuel IH]; intros q n acc B HI Htot HB Hn Hfuel; [lia|].
    cbn [read_all].
    destruct (read_ok q n B HI Htot HB) as (q1 & E & Ht & Hr). rewrite E. cbn [bind].
    destruct (take_sound q _ q1 HI Ht) as (HI1 & Htot1 & _ & Hp1).
    rewrite <- Hr in Hp1.
    remember (firstn (Nat.min n (length (front_slice q))) (front_slice q)) as r eqn:Er.
    destruct r as [|a r'].
    - (* nothing handed out: the front slice is empty, hence nothing is pending *)
      assert (Hf : front_slice q = []).
      { destruct (front_slice q) as [|x s]; auto.
        destruct n; [lia|]. cbn in Er. discriminate. }
      destruct (front_empty_pending q HI Hf) as [Hp Htl].
      exists q1. rewrite Hp, app_nil_r. split; auto. split.
      + rewrite Hr. now apply takes_one.
      + cbn in Hp1. rewrite Hp in Hp1. split; auto.
        destruct Ht as [[Hlt _]|[_ ->]]; [rewrite Hf in Hlt; cbn in Hlt; lia|].
        unfold q_pop. cbn. exact Htl.
    - assert (Hlen : length (pending q1) < fuel).
      { rewrite Hp1 in Hfuel. rewrite app_length in Hfuel. cbn in Hfuel. lia. }
      destruct (IH q1 n (acc ++ a :: r') B HI1 ltac:(lia) HB Hn Hlen) as (q2 & E2 & Hts & Hp2 & Hc2).
      exists q2. rewrite E2, Hp1, <- app_assoc. split; auto. split; auto.
      rewrite Hr. econstructor; eauto.
  Qed.

  Lemma read_to_end_ok : forall (q : queue) B,
    Inv q -> total_len (chunks q) <= B -> (N.of_nat B <= usize_max)%N ->
    exists q', read_to_end q = Ok (q', pending q)
      /\ takes q (pending q) q' /\ pending q' = [] /\ chunks q' = [].
  Proof.
    intros q B HI Htot HB. unfold read_to_end.
    assert (Hp : length (pending q) <= total_len (chunks q)).
    { clear. destruct q as [[|c r] o l]; unfold pending, total_len; cbn; [lia|].
      rewrite !app_length, skipn_length. lia. }
    destruct (read_all_ok (S (length (chunks q) + total_len (chunks q))) q
               (S (total_len (chunks q))) [] B HI Htot HB ltac:(lia) ltac:(lia))
      as (q' & E & H). exists q'. rewrite E. auto.
  Qed.

  (* the destination sizes of read_to_end do not matter *)
  Lemma read_all_any_size : forall (q : queue) n m f1 f2 B,
    Inv q -> total_len (chunks q) <= B -> (N.of_nat B <= usize_max)%N ->
    0 < n -> 0 < m -> length (pending q) < f1 -> length (pending q) < f2 ->
    exists q1 q2, read_all f1 q n [] = Ok (q1, pending q) /\ read_all f2 q m [] = Ok (q2, pending q)
      /\ chunks q1 = [] /\ chunks q2 = [].
  Proof.
    intros q n m f1 f2 B HI Htot HB Hn Hm H1 H2.
    destruct (read_all_ok f1 q n [] B HI Htot HB Hn H1) as (q1 & E1 & _ & _ & C1).
    destruct (read_all_ok f2 q m [] B HI Htot HB Hm H2) as (q2 & E2 & _ & _ & C2).
    exists q1, q2. auto.
  Qed.

  (* ---------------- drop *)
  Lemma drop_ok : forall q : queue, Inv q ->
    exists q', clear_but_last q = Ok q' /\ Inv q'
      /\ front_slice q' = front_slice q /\ tl (chunks q') = []
      /\ dropped_chunks q = tl (chunks q)
      /\ chunks q' = firstn 1 (chunks q) /\ offset q' = offset q
      /\ qlen q' = length (front_slice q).
  Proof.
    intros q HI. pose proof HI as [Hl Ho Hm].
    destruct q as [[|c [|c2 r]] o l]; unfold clear_but_last, dropped_chunks; cbn [chunks].
    - eexists. split; [reflexivity|]. split; [exact HI|]. cbn in *. repeat split; auto.
    - eexists. split; [reflexivity|]. split; [exact HI|].
      unfold pending, front_slice in *. cbn in *. rewrite app_nil_r in Hl. repeat split; auto.
    - unfold pending, front_len, front_slice in *. cbn [chunks offset qlen] in *.
      rewrite app_length in Hl. fold (total_len (c2 :: r)) in Hl.
      destruct (l <? total_len (c2 :: r)) eqn:E; [lia|].
      eexists. split; [reflexivity|]. split.
      + split; cbn [chunks offset qlen]; auto.
        * unfold pending. cbn [chunks offset concat]. rewrite app_nil_r. lia.
        * unfold mid_ok. cbn. constructor.
      + unfold front_slice. cbn [chunks offset qlen tl firstn]. repeat split; auto. lia.
  Qed.

  (* ---------------- one call *)
  Definition wr (o : op) : list A := match o with OWrite b => b | _ => [] end.

  (* explicit amounts stay inside usize when added to the bound on the bytes in the queue *)
  Definition amt_fits (B : nat) (o : op) : Prop :=
    match o with
    | OConsume amt => (N.of_nat B + amt <= usize_max)%N
    | OConsumeWith k false => (N.of_nat B + k <= usize_max)%N
    | _ => True
    end.

  Definition step_post (q : queue) (o : op) (q' : queue) (out : list A) (x : list (list A)) : Prop :=
    Inv q'
    /\ total_len (chunks q') <= total_len (chunks q) + length (wr o)
    /\ (forall W R X, G q W R X -> G q' (W ++ wr o) (R ++ out) (X ++ x))
    /\ pending q ++ wr o = out ++ pending q' ++ concat x
    /\ x = match o with ODrop => tl (chunks q) | _ => [] end
    /\ match o with
       | OWrite b => chunks q' = push_last (chunks q) b
       | OFlush => q' = flush q
       | ODrop => chunks q' = firstn 1 (chunks q)
       | _ => exists k, chunks q' = skipn k (chunks q)
       end.

  Lemma takes_chunks : forall (q : queue) out q', takes q out q' ->
    exists k, chunks q' = skipn k (chunks q).
  Proof.
    intros q out q' H. induction H as [q|q amt q1 out q2 Ht Hts [k IH]].
    - exists 0. reflexivity.
    - destruct Ht as [[_ ->]|[_ ->]].
      + exists k. exact IH.
      + exists (1 + k). rewrite IH. unfold q_pop. cbn [chunks].
        destruct (chunks q); cbn [tl skipn plus]; [now rewrite skipn_nil|reflexivity].
  Qed.

  Definition take_op (o : op) : Prop :=
    match o with OWrite _ | OFlush | ODrop => False | _ => True end.

  Lemma takes_post : forall (q : queue) o out q',
    Inv q -> takes q out q' -> take_op o -> step_post q o q' out [].
  Proof.
    intros q o out q' HI Ht Hop.
    destruct (takes_sound q out q' Ht HI) as (HI' & Htot & HG & Hp).
    assert (Hw : wr o = []) by (destruct o; auto; contradiction).
    unfold step_post. rewrite Hw. cbn [length]. split; auto. split; [lia|]. split; [|split].
    - intros W R X HG0. rewrite !app_nil_r. now apply HG.
    - cbn. now rewrite !app_nil_r.
    - split; [destruct o; auto; contradiction|].
      destruct o; try (now apply (takes_chunks q out q')); contradiction.
  Qed.

  Lemma consume_take' : forall (q : queue) amt, Inv q ->
    (consume q amt = Panic 2 /\ (usize_max < N.of_nat (offset q) + amt)%N)
    \/ exists q', consume q amt = Ok q' /\ take_rel q amt q'.
  Proof.
    intros q amt HI.
    destruct (usize_max <? N.of_nat (offset q) + amt)%N eqn:E.
    - left. unfold consume. rewrite E. split; auto. lia.
    - right. apply consume_take; auto. lia.
  Qed.

  Lemma step_sound : forall (q : queue) o B,
    Inv q -> total_len (chunks q) <= B -> (N.of_nat B <= usize_max)%N ->
    (step q o = Panic 2 /\ ~ amt_fits B o)
    \/ exists q' r out x, step q o = Ok (q', r, out, x) /\ step_post q o q' out x.
  Proof.
    intros q o B HI Htot HB.
    pose proof (offset_le_total q (inv_off q HI)) as Hot.
    destruct o as [b| |n|amt|k clamp| | |]; cbn [step].
    - (* write *)
      right. exists (write q b), (RNum (N.of_nat (length b))), [], []. split; auto.
      destruct (write_front q b (inv_off q HI)) as [H1 H2].
      unfold step_post. cbn [wr]. split; [now apply Inv_write|]. split; [|split; [|split]]; auto.
      + unfold write, total_len. cbn. rewrite push_last_concat, app_length. lia.
      + intros W R X (W1 & HW & He). rewrite !app_nil_r.
        destruct (tl (chunks q)) eqn:Et.
        * destruct (H1 eq_refl) as [Hf Ht]. exists (W1 ++ b). rewrite Ht, Hf. cbn in *.
          rewrite app_nil_r in *. subst W. split; auto. rewrite app_assoc. now apply erase_app_keep.
        * destruct H2 as [Hf Ht]; [discriminate|]. exists W1. rewrite Hf, Ht, HW.
          split; auto. now rewrite app_assoc.
      + cbn. rewrite app_nil_r. symmetry. apply pending_write. exact (inv_off q HI).
    - (* flush *)
      right. exists (flush q), RUnit, [], []. split; auto.
      destruct (flush_view q) as (Hf & Ht & _ & Hfl & _ & _).
      unfold step_post. cbn [wr length]. split; [now apply Inv_flush|]. split; [|split; [|split]]; auto.
      + destruct (flush_cases q) as [[_ ->]|[_ ->]]; [|lia].
        unfold total_len. cbn. rewrite concat_app, app_length. cbn. lia.
      + intros W R X (W1 & HW & He). rewrite !app_nil_r. exists W1. now rewrite Hf, Ht.
      + cbn. rewrite !app_nil_r. symmetry. apply pending_flush.
    - (* read *)
      right. destruct (read_ok q n B HI Htot HB) as (q' & E & Ht & Hr). rewrite E. cbn [bind].
      eexists q', _, _, []. split; [reflexivity|].
      rewrite Hr. apply takes_post; [auto|now apply takes_one|exact I].
    - (* consume *)
      rewrite (as_slice_ok q (inv_off q HI)). cbn [bind].
      destruct (consume_take' q amt HI) as [[E Hov]|(q' & E & Ht)]; rewrite E; cbn [bind].
      + left. split; auto. cbn. lia.
      + right. eexists q', _, _, []. split; [reflexivity|].
        apply takes_post; [auto|now apply takes_one|exact I].
    - (* consume_with *)
      rewrite (as_slice_ok q (inv_off q HI)). cbn [bind]. unfold consume_with.
      rewrite (as_slice_ok q (inv_off q HI)). cbn [bind].
      destruct (consume_take' q (consumer k clamp (front_slice q)) HI) as [[E Hov]|(q' & E & Ht)];
        rewrite E; cbn [bind].
      + left. split; auto. unfold consumer in Hov. destruct clamp; cbn; lia.
      + right. eexists q', _, _, []. split; [reflexivity|].
        apply takes_post; [auto|now apply takes_one|exact I].
    - (* consume_with, consumer fails *)
      right. unfold consume_with_err. rewrite (as_slice_ok q (inv_off q HI)). cbn [bind].
      eexists q, _, [], []. split; [reflexivity|].
      apply takes_post; [auto|constructor|exact I].
    - (* drop *)
      right. destruct (drop_ok q HI) as (q' & E & HI' & Hf & Ht & Hd & Hc & Ho & Hq).
      rewrite E. cbn [bind]. eexists q', _, [], _. split; [reflexivity|].
      unfold step_post. cbn [wr length]. split; auto. split; [|split; [|split]]; auto.
      + rewrite Hc. unfold total_len. destruct (chunks q) as [|c r]; cbn; [lia|].
        rewrite !app_length. cbn. lia.
      + intros W R X (W1 & HW & He). rewrite !app_nil_r. exists (W1 ++ concat (tl (chunks q))).
        rewrite Ht, Hf, Hd. cbn. rewrite app_nil_r. split; auto. now apply erase_app_drop.
      + cbn. rewrite app_nil_r, Hd, !pending_split, Ht, Hf. cbn. now rewrite app_nil_r.
    - (* read_to_end *)
      right. destruct (read_to_end_ok q B HI Htot HB) as (q' & E & Hts & _). rewrite E. cbn [bind].
      eexists q', _, _, []. split; [reflexivity|].
      apply takes_post; [auto|auto|exact I].
  Qed.

  (* ---------------- histories *)
  Lemma written_cons : forall (o : op) ops, written (o :: ops) = wr o ++ written ops.
  Proof. intros [] ops; reflexivity. Qed.

  Lemma written_app : forall ops1 ops2 : list op, written (ops1 ++ ops2) = written ops1 ++ written ops2.
  Proof.
    induction ops1 as [|o r IH]; intro ops2; [reflexivity|].
    rewrite <- app_comm_cons, !written_cons, IH. now rewrite app_assoc.
  Qed.

  Lemma exec_sound : forall ops (q : queue) R X W B,
    Inv q -> total_len (chunks q) + length (written ops) <= B -> (N.of_nat B <= usize_max)%N ->
    G q W R X ->
    (exec q ops R X = Panic 2 /\ Exists (fun o => ~ amt_fits B o) ops)
    \/ exists q' R' X', exec q ops R X = Ok (q', R', X') /\ Inv q'
          /\ G q' (W ++ written ops) R' X' /\ total_len (chunks q') <= B.
  Proof.
    induction ops as [|o ops IH]; intros q R X W B HI Htot HB HG.
    - right. exists q, R, X. cbn [exec written]. rewrite app_nil_r. split; [reflexivity|]. split; [exact HI|]. split; [exact HG|]. cbn [written length] in Htot. lia.
    - rewrite written_cons, app_length in Htot. cbn [exec].
      destruct (step_sound q o B HI ltac:(lia) HB) as [[E Hn]|(q1 & r & out & x & E & Hpost)].
      + left. rewrite E. cbn. split; auto.
      + rewrite E. cbn [bind]. destruct Hpost as (HI1 & Htot1 & HG1 & _ & _).
        destruct (IH q1 (R ++ out) (X ++ x) (W ++ wr o) B HI1 ltac:(lia) HB (HG1 _ _ _ HG))
          as [[E2 Hex]|(q' & R' & X' & E2 & HI' & HG' & Htot')].
        * left. split; auto.
        * right. exists q', R', X'. rewrite written_cons, app_assoc. auto.
  Qed.

  Lemma G_empty : G qempty [] [] [].
  Proof. exists []. cbn. split; auto. constructor. Qed.

  Lemma G_erase : forall (q : queue) W R X, G q W R X -> erase W (R ++ pending q) X.
  Proof.
    intros q W R X (W1 & -> & He). rewrite pending_split, app_assoc. now apply erase_app_keep.
  Qed.

  Lemma G_any : forall (q : queue) R X, G q (concat X ++ R ++ pending q) R X.
  Proof.
    intros q R X. exists (concat X ++ R ++ front_slice q). split.
    - rewrite pending_split, <- !app_assoc. reflexivity.
    - apply erase_drop_prefix.
  Qed.

  (* an Ok run from a state satisfying the invariant keeps it *)
  Lemma exec_ok_inv : forall ops (q : queue) R X q' R' X' B,
    Inv q -> total_len (chunks q) + length (written ops) <= B -> (N.of_nat B <= usize_max)%N ->
    exec q ops R X = Ok (q', R', X') -> Inv q' /\ total_len (chunks q') <= B.
  Proof.
    intros ops q R X q' R' X' B HI Htot HB E.
    destruct (exec_sound ops q R X _ B HI Htot HB (G_any q R X))
      as [[E2 _]|(q2 & R2 & X2 & E2 & HI2 & _ & Htot2)]; rewrite E in E2; [discriminate|].
    inversion E2; subst. auto.
  Qed.

  (* Every history of calls on a fresh queue, as long as fewer than 2^64 bytes are written in
     total: the only possible panic is the addition `offset + amt` of a consume whose amount
     does not fit (a caller handing in an amount near usize::MAX, beyond anything the queue
     showed it); otherwise every call returns, the invariant holds and the bytes handed out
     followed by the bytes still pending are exactly the bytes written, in order, minus the
     chunks discarded by drops. *)
  Theorem queue_history : forall ops : list op,
    let B := length (written ops) in
    (N.of_nat B <= usize_max)%N ->
    (exec qempty ops [] [] = Panic 2 /\ Exists (fun o => ~ amt_fits B o) ops)
    \/ exists q R X, exec qempty ops [] [] = Ok (q, R, X) /\ Inv q
          /\ erase (written ops) (R ++ pending q) X
          /\ total_len (chunks q) <= B.
  Proof.
    intros ops B HB.
    destruct (exec_sound ops qempty [] [] [] B Inv_empty ltac:(cbn; lia) HB G_empty)
      as [H|(q & R & X & E & HI & HG & Htot)]; [left; exact H|].
    right. exists q, R, X. repeat split; auto; try apply HI. now apply G_erase in HG.
  Qed.

  Theorem queue_history_ok : forall ops : list op,
    let B := length (written ops) in
    (N.of_nat B <= usize_max)%N -> Forall (amt_fits B) ops ->
    exists q R X, exec qempty ops [] [] = Ok (q, R, X) /\ Inv q
      /\ erase (written ops) (R ++ pending q) X /\ total_len (chunks q) <= B.
  Proof.
    intros ops B HB Hfit. destruct (queue_history ops HB) as [[_ Hex]|H]; auto.
    exfalso. apply Exists_exists in Hex. destruct Hex as (o & Hin & Hn).
    rewrite Forall_forall in Hfit. auto.
  Qed.

  (* without drops nothing is cut out: handed out ++ pending = written *)
  Corollary queue_fifo_no_drop : forall (ops : list op) (q : queue) R X,
    (N.of_nat (length (written ops)) <= usize_max)%N ->
    exec qempty ops [] [] = Ok (q, R, X) -> X = [] -> R ++ pending q = written ops.
  Proof.
    intros ops q R X HB E ->. destruct (queue_history ops HB) as [[E2 _]|(q' & R' & X' & E2 & _ & He & _)];
      rewrite E in E2; [discriminate|]. inversion E2; subst. symmetry. now apply erase_no_drop.
  Qed.

  (* states a caller can reach *)
  Definition reachable (q : queue) : Prop :=
    exists ops R X, (N.of_nat (length (written ops)) <= usize_max)%N
                    /\ exec qempty ops [] [] = Ok (q, R, X).

  Lemma reachable_inv : forall q : queue, reachable q ->
    Inv q /\ (N.of_nat (total_len (chunks q)) <= usize_max)%N.
  Proof.
    intros q (ops & R & X & HB & E).
    destruct (queue_history ops HB) as [[E2 _]|(q' & R' & X' & E2 & HI & _ & Htot)];
      rewrite E in E2; [discriminate|]. inversion E2; subst. split; auto. lia.
  Qed.

  (* the reported length is the number of bytes that can still be read: reading to exhaustion,
     with destinations of any (non-zero) sizes, yields exactly len() bytes, namely the pending
     bytes in order, and leaves the queue empty *)
  Theorem len_is_readable : forall (q : queue) n, reachable q -> 0 < n ->
    len q = length (pending q)
    /\ exists q', read_all (S (length (pending q))) q n [] = Ok (q', pending q)
                  /\ is_empty q' = true /\ len q' = 0.
  Proof.
    intros q n Hr Hn. destruct (reachable_inv q Hr) as [HI HB].
    split; [apply HI|].
    destruct (read_all_ok (S (length (pending q))) q n [] (total_len (chunks q)) HI (le_n _) HB Hn
                ltac:(lia)) as (q' & E & Hts & Hp & Hc).
    exists q'. split; auto. unfold is_empty. rewrite Hc. split; auto.
    destruct (takes_sound q _ q' Hts HI) as (HI' & _). unfold len. rewrite (inv_len q' HI'), Hp. reflexivity.
  Qed.

  (* a read into a non-empty destination returns no byte only when nothing is pending *)
  Theorem read_progress : forall (q : queue) n, reachable q -> 0 < n ->
    exists q' r, read q n = Ok (q', r) /\ (r = [] <-> pending q = []) /\ pending q = r ++ pending q'
                 /\ length r <= n.
  Proof.
    intros q n Hr Hn. destruct (reachable_inv q Hr) as [HI HB].
    destruct (read_ok q n (total_len (chunks q)) HI (le_n _) HB) as (q' & E & Ht & Hr').
    destruct (take_sound q _ q' HI Ht) as (_ & _ & _ & Hp). rewrite <- Hr' in Hp.
    eexists q', _. split; [exact E|]. split; [|split; [exact Hp|]].
    - split; intro H.
      + assert (Hf : front_slice q = []).
        { destruct (front_slice q) as [|x s]; auto. destruct n; [lia|]. cbn in H. discriminate. }
        apply (front_empty_pending q HI Hf).
      + rewrite pending_split in H. apply app_eq_nil in H. destruct H as [-> _]. now rewrite firstn_nil.
    - rewrite firstn_length. lia.
  Qed.

  (* what the observers say in a reachable state *)
  Theorem observers : forall q : queue, reachable q ->
    as_slice q = Ok (front_slice q)
    /\ (exists rest, pending q = front_slice q ++ rest)
    /\ len q = length (pending q)
    /\ (is_empty q = true -> pending q = [])
    /\ (pending q <> [] -> front_slice q <> []).
  Proof.
    intros q Hr. destruct (reachable_inv q Hr) as [HI HB].
    split; [apply as_slice_ok, HI|]. split; [eexists; apply pending_split|].
    split; [apply HI|]. split.
    - unfold is_empty, pending. destruct (chunks q); [auto|discriminate].
    - intros Hp Hf. apply Hp. now apply (front_empty_pending q HI Hf).
  Qed.

  (* a drop keeps the chunk in flight, discards every other chunk whole, and the length follows *)
  Theorem drop_discards_whole_chunks : forall q : queue, reachable q ->
    exists q', clear_but_last q = Ok q'
      /\ chunks q' = firstn 1 (chunks q) /\ offset q' = offset q
      /\ dropped_chunks q = tl (chunks q)
      /\ pending q = pending q' ++ concat (dropped_chunks q)
      /\ len q' = length (pending q').
  Proof.
    intros q Hr. destruct (reachable_inv q Hr) as [HI HB].
    destruct (drop_ok q HI) as (q' & E & HI' & Hf & Ht & Hd & Hc & Ho & Hq).
    exists q'. repeat split; auto; try apply HI'.
    rewrite !pending_split, Ht, Hf, Hd. cbn. now rewrite app_nil_r.
  Qed.
End QueueProofs.

(* the two defects as found, replayed on the model of the original functions *)
Lemma clear_but_last_orig_refuted :
  let q := flush (write (flush (write (@qempty N) [1;2;3]%N)) [4;5;6;7]%N) in
  len (clear_but_last_orig q) = 7 /\ length (pending (clear_but_last_orig q)) = 3.
Proof. vm_compute. split; reflexivity. Qed.

Definition flush_o (q : queue N) : queue N :=
  match flush_orig q with Ok q' => q' | _ => q end.

(* write a; flush; flush; write b: a read into a 4-byte destination returns [a], the next one
   returns nothing although len() = 1 *)
Lemma flush_orig_refuted :
  let q := write (flush_o (flush_o (write (@qempty N) [97]%N))) [98]%N in
  exists q1 q2, read q 4 = Ok (q1, [97]%N) /\ read q1 4 = Ok (q2, []) /\ len q1 = 1 /\ pending q1 = [98]%N.
Proof. vm_compute. eexists _, _. repeat split; reflexivity. Qed.
