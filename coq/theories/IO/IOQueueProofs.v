From Coq Require Import List NArith Arith Bool Lia.
From SNT Require Import Base.Outcome IO.IOQueue.
Import ListNotations.

(* the two defects as found, replayed on the model of the original functions *)
Lemma clear_but_last_orig_refuted :
  let q := write (flush (write (flush (write (@qempty N) [1;2;3]%N)) [4;5;6;7]%N)) [] in
  len (clear_but_last_orig q) = 7 /\ length (pending (clear_but_last_orig q)) = 3.
Proof. vm_compute. split; reflexivity. Qed.
