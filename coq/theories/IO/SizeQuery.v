(* Escape sequence resize mode (src/unix.rs: `size` is Some, the terminal is asked for its size):
   the path from a SIGWINCH to the Resize event, as a transition system of its own.

     psize      the peer's (terminal emulator's) current size
     winch      signal-hook's SIGWINCH flag
     wq         the write queue, item by item: IQ = the size query CSI 18 t CSI 14 t, IO = other output
     sent       queries written to the tty that the peer has not read yet
     flying     answers the peer has sent and poll has not read yet, oldest first (each carries the
                size the peer had when it read the query)
     reported   the sizes of the Resize events queued so far, oldest first
     flag       `size_query`: a query may still be unsent (set when a query is queued, cleared when
                the write queue has been written out - since 2decf80)

   Moves, in any order and any number (the theorem quantifies over all lists of moves):
     MResize n  the window gets size n and SIGWINCH is flagged        (environment)
     MSig       poll's signal step: a flagged SIGWINCH queues a query
     MOut       the application writes something
     MSend      poll's write step sends the item at the head of the queue
     MPeer      the peer reads a query and answers with its current size   (environment)
     MRead      poll's input step reads an answer: Resize event, size() updated
     MDrop      frames_drop: everything but the head of the queue is discarded; when the flag is
                set and something was discarded the query is queued again (e293376)

   What the oracle covers: queue items are whole (a query is not split by a short write; C16
   covers bytes), every item is a chunk of its own (a query that shares a chunk with the item
   in flight survives a drop, which only helps), signals coalesce in the flag as in signal-hook.
   Not covered: hang-up, errors of the write, a peer that never answers (then nothing is owed:
   the theorem is about quiescent states). *)
From Coq Require Import List NArith Arith Bool Lia.
Import ListNotations.

Inductive item := IQ | IO.

Record sz := mkZ {
  zpsize : N; zwinch : bool; zwq : list item; zsent : nat; zflying : list N; zreported : list N; zflag : bool
}.

Inductive smove := MResize (n : N) | MSig | MOut | MSend | MPeer | MRead | MDrop.

Definition has_q (l : list item) : bool := existsb (fun i => match i with IQ => true | IO => false end) l.

Definition sstep (s : sz) (m : smove) : sz :=
  match m with
  | MResize n => mkZ n true (zwq s) (zsent s) (zflying s) (zreported s) (zflag s)
  | MSig =>
      if zwinch s then mkZ (zpsize s) false (zwq s ++ [IQ]) (zsent s) (zflying s) (zreported s) true else s
  | MOut => mkZ (zpsize s) (zwinch s) (zwq s ++ [IO]) (zsent s) (zflying s) (zreported s) (zflag s)
  | MSend =>
      match zwq s with
      | [] => s
      | i :: r =>
          mkZ (zpsize s) (zwinch s) r (match i with IQ => S (zsent s) | IO => zsent s end) (zflying s) (zreported s)
              (match r with [] => false | _ => zflag s end)
      end
  | MPeer =>
      match zsent s with
      | O => s
      | S k => mkZ (zpsize s) (zwinch s) (zwq s) k (zflying s ++ [zpsize s]) (zreported s) (zflag s)
      end
  | MRead =>
      match zflying s with
      | [] => s
      | a :: r => mkZ (zpsize s) (zwinch s) (zwq s) (zsent s) r (zreported s ++ [a]) (zflag s)
      end
  | MDrop =>
      match zwq s with
      | i :: (_ :: _) =>
          mkZ (zpsize s) (zwinch s) (if zflag s then [i; IQ] else [i]) (zsent s) (zflying s) (zreported s) (zflag s)
      | _ => s
      end
  end.

Definition srun (s : sz) (ms : list smove) : sz := fold_left sstep ms s.

(* the terminal object right after it was opened with the peer's size d *)
Definition sopened (d : N) : sz := mkZ d false [] 0 [] [d] false.

Definition latest (s : sz) : N := last (zreported s ++ zflying s) 0%N.

(* nothing is in the pipeline any more: no flagged signal, no query queued or unread, no answer unread *)
Definition quiescent (s : sz) : Prop :=
  zwinch s = false /\ has_q (zwq s) = false /\ zsent s = 0 /\ zflying s = [].

(* the invariant: either something is still in the pipeline, or the newest size on record is the
   peer's; and a queued query keeps the zflag set *)
Definition SI (s : sz) : Prop :=
  (zwinch s = true \/ has_q (zwq s) = true \/ 0 < zsent s \/ latest s = zpsize s)
  /\ (has_q (zwq s) = true -> zflag s = true)
  /\ zreported s ++ zflying s <> [].

Lemma has_q_app : forall a b, has_q (a ++ b) = has_q a || has_q b.
Proof. intros. unfold has_q. apply existsb_app. Qed.

Lemma SI_opened : forall d, SI (sopened d).
Proof. intro d. unfold SI, sopened, latest. cbn. repeat split; auto; discriminate. Qed.

Lemma SI_step : forall s m, SI s -> SI (sstep s m).
Proof.
  intros s m H0. pose proof H0 as (HJ & HK & HN). destruct m; cbn [sstep].
  - (* MResize *) unfold SI, latest. cbn [zpsize zwinch zwq zsent zflying zreported zflag].
    split; [left; reflexivity|]. split; [exact HK|exact HN].
  - (* MSig *) destruct (zwinch s) eqn:Ew; [|exact H0].
    unfold SI, latest. cbn [zpsize zwinch zwq zsent zflying zreported zflag]. rewrite has_q_app. cbn. rewrite orb_true_r.
    split; [right; left; reflexivity|]. split; [reflexivity|exact HN].
  - (* MOut *) unfold SI, latest in *. cbn [zpsize zwinch zwq zsent zflying zreported zflag].
    rewrite has_q_app. cbn. rewrite orb_false_r. split; [exact HJ|]. split; [exact HK|exact HN].
  - (* MSend *) destruct (zwq s) as [|i r] eqn:Eq; [exact H0|].
    unfold SI, latest in *. cbn [zpsize zwinch zwq zsent zflying zreported zflag].
    split; [|split; [|exact HN]].
    + destruct HJ as [H|[H|[H|H]]]; auto.
      * cbn in H. destruct i; [right; right; left; lia|cbn in H; auto].
      * right. right. left. destruct i; lia.
    + intro Hq. destruct r as [|j r']; [discriminate|]. apply HK. cbn. destruct i; auto.
  - (* MPeer *) destruct (zsent s) as [|k] eqn:Es; [exact H0|].
    unfold SI, latest in *. cbn [zpsize zwinch zwq zsent zflying zreported zflag].
    split; [|split; [exact HK|]].
    + right. right. right. rewrite app_assoc. apply last_last.
    + rewrite app_assoc. intro E. apply app_eq_nil in E. destruct E; discriminate.
  - (* MRead *) destruct (zflying s) as [|a r] eqn:Ef; [exact H0|].
    unfold SI, latest in *. cbn [zpsize zwinch zwq zsent zflying zreported zflag].
    rewrite <- app_assoc. cbn [app]. rewrite Ef in HJ. split; [exact HJ|]. split; [exact HK|exact HN].
  - (* MDrop *) destruct (zwq s) as [|i [|j r]] eqn:Eq; try exact H0.
    unfold SI, latest in *. cbn [zpsize zwinch zwq zsent zflying zreported zflag].
    split; [|split; [|exact HN]].
    + destruct HJ as [H|[H|[H|H]]]; auto.
      right. left. rewrite (HK H). cbn. destruct i; auto.
    + intro Hq. destruct (zflag s) eqn:Efl; [reflexivity|]. apply HK. cbn in *. destruct i; [auto|discriminate Hq].
Qed.

Lemma SI_run : forall ms s, SI s -> SI (srun s ms).
Proof. unfold srun. induction ms as [|m ms IH]; intros s H; cbn; auto. apply IH, SI_step, H. Qed.

(* After any interleaving of resizes, signal steps, writes of the application, sends, answers of
   the peer, reads and frame drops: once nothing is in the pipeline any more, the last Resize
   event reports the peer's final size. *)
Theorem last_resize_is_final_size : forall d ms,
  let s := srun (sopened d) ms in
  quiescent s -> last (zreported s) 0%N = zpsize s.
Proof.
  intros d ms s (Hw & Hq & Hs & Hf).
  destruct (SI_run ms (sopened d) (SI_opened d)) as (HJ & _ & _). fold s in HJ.
  unfold latest in HJ. rewrite Hf, app_nil_r in HJ.
  destruct HJ as [H|[H|[H|H]]]; try congruence. lia.
Qed.

(* ---- the two variants that lose a resize, on the same moves *)

(* the zflag as it was before 2decf80: cleared by any answer read *)
Definition sstep_answer_clears (s : sz) (m : smove) : sz :=
  match m with
  | MRead =>
      match zflying s with
      | [] => s
      | a :: r => mkZ (zpsize s) (zwinch s) (zwq s) (zsent s) r (zreported s ++ [a]) false
      end
  | MSend =>
      match zwq s with
      | [] => s
      | i :: r => mkZ (zpsize s) (zwinch s) r (match i with IQ => S (zsent s) | IO => zsent s end) (zflying s) (zreported s) (zflag s)
      end
  | _ => sstep s m
  end.

(* a query only when none is flagged as outstanding ("coalescing", the seeded C17_p) *)
Definition sstep_coalescing (s : sz) (m : smove) : sz :=
  match m with
  | MSig =>
      if zwinch s then
        if zflag s then mkZ (zpsize s) false (zwq s) (zsent s) (zflying s) (zreported s) (zflag s)
        else mkZ (zpsize s) false (zwq s ++ [IQ]) (zsent s) (zflying s) (zreported s) true
      else s
  | _ => sstep s m
  end.

(* resize to 2, query zsent and answered; resize to 3 handled while that answer is unread and
   output is queued; the answer is read; the caller drops the backlog; everything settles *)
Definition stale_drop_moves : list smove :=
  [MResize 2; MSig; MSend; MPeer; MOut; MOut; MResize 3; MSig; MRead; MDrop; MSend; MSend; MPeer; MRead].

Example stale_answer_then_drop_as_found :
  let s := fold_left sstep_answer_clears stale_drop_moves (sopened 1) in
  quiescent s /\ zpsize s = 3%N /\ zreported s = [1; 2]%N.
Proof. vm_compute. repeat split; reflexivity. Qed.

Example stale_answer_then_drop_repaired :
  let s := srun (sopened 1) stale_drop_moves in
  quiescent s /\ zpsize s = 3%N /\ zreported s = [1; 2; 3]%N.
Proof. vm_compute. repeat split; reflexivity. Qed.

(* output keeps the queue busy: the first query has been zsent and answered, the zflag is still set;
   the second signal is "coalesced" away *)
Definition busy_moves : list smove :=
  [MResize 2; MSig; MOut; MOut; MSend; MPeer; MResize 3; MSig; MRead; MSend; MSend; MSend; MPeer; MRead].

Example coalescing_loses_a_resize :
  let s := fold_left sstep_coalescing busy_moves (sopened 1) in
  quiescent s /\ zpsize s = 3%N /\ zreported s = [1; 2]%N.
Proof. vm_compute. repeat split; reflexivity. Qed.

Example busy_moves_repaired :
  let s := srun (sopened 1) busy_moves in
  quiescent s /\ zpsize s = 3%N /\ zreported s = [1; 2; 3]%N.
Proof. vm_compute. repeat split; reflexivity. Qed.
