(* Specification side of C16 for the terminal object (pty sessions): the stream the tty received
   must be the written stream, in order, with only whole frames cut out that had not started
   transmission.  Written from the property text, generic in the byte type.

   The written stream is cut into frames at every flush / poll / frames_drop (`fop`); a drop is
   recorded with the number of bytes the tty had accepted when it happened (the only oracle).
   `match_frames` walks the frames in program order against the received stream: a frame is
   either the next bytes received, or - only if the first drop after it happened when at most
   `pos` bytes had been delivered, `pos` being the position at which the frame would start, i.e.
   none of its bytes had gone out - it may be skipped whole. *)
From Coq Require Import List NArith Bool.
Import ListNotations.

Section FrameSpec.
  Context {A : Type} (aeqb : A -> A -> bool).

  Inductive item := IFrame (b : list A) | IDrop (sent : N).

  (* what the program did to the output path, as far as frames are concerned *)
  Inductive fop := FW (b : list A) | FDelim | FDrop (sent : N).

  (* if p is a prefix of l, what follows it *)
  Fixpoint strip_prefix (p l : list A) : option (list A) :=
    match p, l with
    | [], _ => Some l
    | x :: p', y :: l' => if aeqb x y then strip_prefix p' l' else None
    | _ :: _, [] => None
    end.

  Definition close_frame (cur : list A) (acc : list item) : list item :=
    match cur with [] => acc | _ => IFrame cur :: acc end.

  (* acc is kept in reverse order *)
  Fixpoint items_of (ops : list fop) (cur : list A) (acc : list item) : list item * list A :=
    match ops with
    | [] => (acc, cur)
    | FW b :: r => items_of r (cur ++ b) acc
    | FDelim :: r => items_of r [] (close_frame cur acc)
    | FDrop s :: r => items_of r [] (IDrop s :: close_frame cur acc)
    end.

  Fixpoint next_drop (its : list item) : option N :=
    match its with
    | [] => None
    | IDrop s :: _ => Some s
    | IFrame _ :: r => next_drop r
    end.

  Fixpoint match_frames (its : list item) (rest : list A) (pos : N) : bool :=
    match its with
    | [] => match rest with [] => true | _ => false end
    | IDrop _ :: r => match_frames r rest pos
    | IFrame f :: r =>
        let droppable := match next_drop r with Some s => (s <=? pos)%N | None => false end in
        match strip_prefix f rest with
        | Some rest' =>
            if match_frames r rest' (pos + N.of_nat (length f))%N then true
            else if droppable then match_frames r rest pos else false
        | None => if droppable then match_frames r rest pos else false
        end
    end.

  Definition frame_check (ops : list fop) (received : list A) : bool :=
    let '(acc, cur) := items_of ops [] [] in
    match_frames (rev (close_frame cur acc)) received 0.
End FrameSpec.

Arguments item : clear implicits.
Arguments fop : clear implicits.
