(* Frames are never torn.

   A frame is everything written between two consecutive delimiters; the delimiters are the
   calls that close a frame: flush (and poll, which flushes) and the drop itself.  The queue
   model is parametric in its element type, so the same code runs on bytes that carry the
   number of the frame they were written in and their position in the written stream
   (`tag_ops`); erasing the tags gives back the plain run (`exec_map`).  On the tagged run:

     - every chunk a drop discards is exactly the set of all bytes ever written in one frame,
       in order (whole, flush-delimited);
     - no byte of it was handed out before or is handed out later (not started, never sent). *)
From Coq Require Import List NArith Arith Bool Lia.
From SNT Require Import Base.Outcome IO.IOQueue IO.IOQueueProofs.
Import ListNotations.

(* ------------------------------------------------------------------ the model is parametric *)
Section Map.
  Context {A B : Type} (g : A -> B).

  Definition qmap (q : queue A) : queue B :=
    mkQ (map (map g) (chunks q)) (offset q) (qlen q).

  Definition op_map (o : op A) : op B :=
    match o with
    | OWrite b => OWrite (map g b)
    | OFlush => OFlush
    | ORead n => ORead n
    | OConsume a => OConsume a
    | OConsumeWith k c => OConsumeWith k c
    | OConsumeWithErr => OConsumeWithErr
    | ODrop => ODrop
    | OReadToEnd => OReadToEnd
    end.

  Definition ret_map (r : ret A) : ret B :=
    match r with RUnit => RUnit | RBytes l => RBytes (map g l) | RNum n => RNum n end.

  Definition step_map (t : queue A * ret A * list A * list (list A)) :=
    let '(q, r, out, x) := t in (qmap q, ret_map r, map g out, map (map g) x).

  Definition res_map (t : queue A * list A * list (list A)) :=
    let '(q, R, X) := t in (qmap q, map g R, map (map g) X).

  Lemma as_slice_map : forall q, as_slice (qmap q) = omap (map g) (as_slice q).
  Proof.
    intros [[|c r] o l]; cbn; auto. rewrite map_length.
    destruct (o <=? length c); cbn; auto. now rewrite skipn_map.
  Qed.

  Lemma front_len_map : forall q, front_len (qmap q) = front_len q.
  Proof. intros [[|c r] o l]; cbn; auto. apply map_length. Qed.

  Lemma consume_map : forall q amt, consume (qmap q) amt = omap qmap (consume q amt).
  Proof.
    intros q amt. unfold consume. rewrite front_len_map. cbn [qmap offset qlen chunks].
    destruct (usize_max <? N.of_nat (offset q) + amt)%N; auto.
    destruct (N.of_nat (offset q) + amt <? N.of_nat (front_len q))%N.
    - destruct (qlen q <? N.to_nat amt); reflexivity.
    - destruct (chunks q) as [|c r]; cbn [map]; auto. rewrite map_length.
      destruct (length c <? offset q); auto.
      destruct (qlen q <? length c - offset q); reflexivity.
  Qed.

  Lemma push_last_map : forall cs (b : list A),
    push_last (map (map g) cs) (map g b) = map (map g) (push_last cs b).
  Proof.
    induction cs as [|c [|c2 r] IH]; intro b; cbn [map push_last]; auto.
    - now rewrite map_app.
    - f_equal. apply (IH b).
  Qed.

  Lemma write_map : forall q b, write (qmap q) (map g b) = qmap (write q b).
  Proof.
    intros q b. unfold write, qmap. cbn [chunks offset qlen].
    now rewrite push_last_map, map_length.
  Qed.

  Lemma last_nonempty_map : forall cs : list (list A),
    last_nonempty (map (map g) cs) = last_nonempty cs.
  Proof.
    induction cs as [|c [|c2 r] IH]; auto.
    - unfold last_nonempty. cbn. destruct c; reflexivity.
  Qed.

  Lemma flush_map : forall q, flush (qmap q) = qmap (flush q).
  Proof.
    intro q. unfold flush. cbn [qmap chunks]. rewrite last_nonempty_map.
    destruct (last_nonempty (chunks q)); auto. unfold qmap. cbn. now rewrite map_app.
  Qed.

  Lemma read_map : forall q n,
    read (qmap q) n = omap (fun t => (qmap (fst t), map g (snd t))) (read q n).
  Proof.
    intros q n. unfold read. rewrite as_slice_map.
    destruct (as_slice q) as [s| | |]; cbn [omap bind]; auto.
    rewrite map_length, firstn_map, map_length, consume_map.
    destruct (consume q _); reflexivity.
  Qed.

  Lemma consumer_map : forall k c (s : list A), consumer k c (map g s) = consumer k c s.
  Proof. intros. unfold consumer. now rewrite map_length. Qed.

  Lemma taken_map : forall (s : list A) amt, taken (map g s) amt = map g (taken s amt).
  Proof. intros. unfold taken. now rewrite map_length, firstn_map. Qed.

  Lemma total_len_map : forall cs : list (list A), total_len (map (map g) cs) = total_len cs.
  Proof. intro cs. unfold total_len. now rewrite <- concat_map, map_length. Qed.

  Lemma clear_but_last_map : forall q, clear_but_last (qmap q) = omap qmap (clear_but_last q).
  Proof.
    intros [[|c [|c2 r]] o l]; auto. unfold clear_but_last. cbn [qmap chunks qlen offset map].
    change (map g c2 :: map (map g) r) with (map (map g) (c2 :: r)). rewrite total_len_map.
    destruct (l <? total_len (c2 :: r)); reflexivity.
  Qed.

  Lemma dropped_chunks_map : forall q, dropped_chunks (qmap q) = map (map g) (dropped_chunks q).
  Proof. intros [[|c [|c2 r]] o l]; reflexivity. Qed.

  Lemma read_all_map : forall fuel q n acc,
    read_all fuel (qmap q) n (map g acc)
    = omap (fun t => (qmap (fst t), map g (snd t))) (read_all fuel q n acc).
  Proof.
    induction fuel as [|fuel IH]; intros q n acc; auto.
    cbn [read_all]. rewrite read_map.
    destruct (read q n) as [[q' r]| | |]; cbn [omap bind fst snd]; auto.
    destruct r as [|a r]; cbn [map]; auto.
    change (map g acc ++ g a :: map g r) with (map g acc ++ map g (a :: r)).
    rewrite <- map_app. apply IH.
  Qed.

  Lemma step_map_ok : forall q o, step (qmap q) (op_map o) = omap step_map (step q o).
  Proof.
    intros q o. destruct o as [b| |n|amt|k clamp| | |]; cbn [step op_map].
    - rewrite write_map, map_length. reflexivity.
    - rewrite flush_map. reflexivity.
    - rewrite read_map. destruct (read q n) as [[q' r]| | |]; reflexivity.
    - rewrite as_slice_map. destruct (as_slice q) as [s| | |]; cbn [omap bind]; auto.
      rewrite consume_map. destruct (consume q amt); cbn [omap bind]; auto.
      unfold step_map. now rewrite taken_map.
    - rewrite as_slice_map. destruct (as_slice q) as [s| | |] eqn:Es; cbn [omap bind]; auto.
      unfold consume_with. rewrite as_slice_map, Es. cbn [omap bind].
      rewrite consumer_map, consume_map.
      destruct (consume q _); cbn [omap bind]; auto. unfold step_map. now rewrite taken_map.
    - unfold consume_with_err. rewrite as_slice_map. destruct (as_slice q); reflexivity.
    - rewrite clear_but_last_map. destruct (clear_but_last q); cbn [omap bind]; auto.
      unfold step_map. now rewrite dropped_chunks_map.
    - unfold read_to_end. cbn [qmap chunks]. rewrite map_length, total_len_map.
      change (@nil B) with (map g []). rewrite read_all_map.
      destruct (read_all _ q _ []) as [[q' r]| | |]; reflexivity.
  Qed.

  Lemma exec_map : forall ops q R X,
    exec (qmap q) (map op_map ops) (map g R) (map (map g) X) = omap res_map (exec q ops R X).
  Proof.
    induction ops as [|o ops IH]; intros q R X; auto.
    cbn [exec map]. rewrite step_map_ok.
    destruct (step q o) as [[[[q' r] out] x]| | |]; cbn [omap bind step_map]; auto.
    rewrite <- !map_app. apply IH.
  Qed.

  Lemma written_map : forall ops : list (op A), written (map op_map ops) = map g (written ops).
  Proof.
    induction ops as [|o ops IH]; auto. destruct o; cbn [map op_map written]; auto.
    now rewrite map_app, IH.
  Qed.
End Map.

(* ------------------------------------------------------------------ frames *)
Section Frames.
  Context {T : Type} (frame : T -> nat).

  Definition filt (f : nat) (l : list T) : list T := filter (fun e => frame e =? f) l.

  (* a history whose writes carry the number of the frame they belong to *)
  (* bd = the drop call itself closes the open frame (bumps the frame number); with bd = false only
     flushes delimit frames, which is the reading of the property for programs that drop right
     after a flush or poll *)
  Context (bd : bool).

  Fixpoint framed (fr : nat) (ops : list (op T)) : Prop :=
    match ops with
    | [] => True
    | OWrite b :: r => Forall (fun e => frame e = fr) b /\ framed fr r
    | OFlush :: r => framed (S fr) r
    | ODrop :: r => framed (if bd then S fr else fr) r
    | _ :: r => framed fr r
    end.

  Definition next_frame (fr : nat) (o : op T) : nat :=
    match o with OFlush => S fr | ODrop => if bd then S fr else fr | _ => fr end.

  Definition whole_lt (fr : nat) (Wt : list T) (c : list T) : Prop :=
    exists f, f < fr /\ c = filt f Wt.

  Definition chunks_framed (fr : nat) (Wt : list T) (t : list (list T)) : Prop :=
    match t with
    | [] => True
    | _ => Forall (whole_lt fr Wt) (removelast t) /\ last t [] = filt fr Wt
    end.

  Record FI (q : queue T) (fr : nat) (Wt : list T) (X : list (list T)) : Prop := {
    fi_le : Forall (fun e => frame e <= fr) Wt;
    fi_chunks : chunks_framed fr Wt (tl (chunks q));
    fi_X : Forall (fun c => c = [] \/ whole_lt fr Wt c) X
  }.

  Lemma filt_app : forall f a b, filt f (a ++ b) = filt f a ++ filt f b.
  Proof. intros. apply filter_app. Qed.

  Lemma filt_all : forall f b, Forall (fun e => frame e = f) b -> filt f b = b.
  Proof.
    intros f b H. induction H as [|e b He Hb IH]; auto. cbn.
    rewrite He, Nat.eqb_refl. now f_equal.
  Qed.

  Lemma filt_none : forall f b, Forall (fun e => frame e <> f) b -> filt f b = [].
  Proof.
    intros f b H. induction H as [|e b He Hb IH]; auto. cbn.
    destruct (frame e =? f) eqn:E; auto. apply Nat.eqb_eq in E. contradiction.
  Qed.

  Lemma filt_above : forall f fr Wt, Forall (fun e => frame e <= fr) Wt -> fr < f -> filt f Wt = [].
  Proof.
    intros f fr Wt H Hlt. apply filt_none. eapply Forall_impl; [|exact H]. cbn. intros; lia.
  Qed.

  Lemma whole_lt_grow : forall fr fr' Wt b c,
    whole_lt fr Wt c -> fr <= fr' -> Forall (fun e => fr <= frame e) b -> whole_lt fr' (Wt ++ b) c.
  Proof.
    intros fr fr' Wt b c (f & Hf & ->) Hle Hb. exists f. split; [lia|].
    rewrite filt_app, (filt_none f b), app_nil_r; auto.
    eapply Forall_impl; [|exact Hb]. cbn. intros; lia.
  Qed.

  Lemma whole_lt_mono : forall fr fr' Wt c, whole_lt fr Wt c -> fr <= fr' -> whole_lt fr' Wt c.
  Proof. intros fr fr' Wt c (f & Hf & ->) Hle. exists f. split; auto. lia. Qed.

  Lemma removelast_app1 : forall (t : list (list T)) x, removelast (t ++ [x]) = t.
  Proof. intros. apply removelast_last. Qed.

  Lemma removelast_last_split : forall (t : list (list T)), t <> [] -> t = removelast t ++ [last t []].
  Proof. intros t H. now apply app_removelast_last. Qed.

  Lemma chunks_framed_skipn : forall fr Wt k t,
    chunks_framed fr Wt t -> chunks_framed fr Wt (skipn k t).
  Proof.
    intros fr Wt k. induction k as [|k IH]; intros t H; auto.
    destruct t as [|c t]; auto. cbn [skipn]. apply IH.
    destruct t as [|c2 t]; [exact I|].
    cbn [chunks_framed] in *. destruct H as [Hr Hl]. split.
    - change (removelast (c :: c2 :: t)) with (c :: removelast (c2 :: t)) in Hr. now inversion Hr.
    - exact Hl.
  Qed.

  Lemma tl_skipn : forall k (cs : list (list T)), tl (skipn k cs) = skipn k (tl cs).
  Proof.
    induction k as [|k IH]; intro cs; auto. destruct cs as [|c cs]; auto.
    cbn [skipn tl]. rewrite IH. destruct cs; cbn; auto. now rewrite skipn_nil.
  Qed.

  Lemma push_last_split : forall (t : list (list T)) b, t <> [] ->
    push_last t b = removelast t ++ [last t [] ++ b].
  Proof.
    induction t as [|c [|c2 r] IH]; intros b H; [congruence|reflexivity|].
    change (push_last (c :: c2 :: r) b) with (c :: push_last (c2 :: r) b).
    rewrite IH by discriminate. reflexivity.
  Qed.

  (* one call preserves the frame invariant *)
  Lemma step_FI : forall (q : queue T) o q' out x fr Wt X,
    Inv q -> step_post q o q' out x ->
    match o with
    | OWrite b => Forall (fun e => frame e = fr) b
    | ODrop => bd = false -> filt fr Wt = []      (* nothing written since the last flush *)
    | _ => True
    end ->
    FI q fr Wt X -> FI q' (next_frame fr o) (Wt ++ wr o) (X ++ x).
  Proof.
    intros q o q' out x fr Wt X HI (HI' & _ & _ & _ & Hx & Hch) Hb [Hle Hc HX].
    assert (HXg : forall fr' b, fr <= fr' -> Forall (fun e => fr <= frame e) b ->
                  Forall (fun c => c = [] \/ whole_lt fr' (Wt ++ b) c) X).
    { intros fr' b Hf Hbb. eapply Forall_impl; [|exact HX]. intros c' [->|Hw]; [now left|right].
      eapply whole_lt_grow; eauto. }
    assert (HXm : forall fr', fr <= fr' -> Forall (fun c => c = [] \/ whole_lt fr' Wt c) X).
    { intros fr' Hf. eapply Forall_impl; [|exact HX]. intros c' [->|Hw]; [now left|right].
      eapply whole_lt_mono; eauto. }
    destruct o as [b| |n|amt|k clamp| | |]; cbn [next_frame wr] in *; subst x;
      rewrite ?app_nil_r.
    - (* write: the new bytes join the open frame *)
      assert (Hb' : Forall (fun e => fr <= frame e) b).
      { eapply Forall_impl; [|exact Hb]. cbn. intros; lia. }
      split.
      + apply Forall_app. split; auto. eapply Forall_impl; [|exact Hb]. cbn. intros; lia.
      + rewrite Hch. destruct (chunks q) as [|c [|c2 r]]; cbn [push_last tl]; try exact I.
        change (match r with [] => [c2 ++ b] | _ :: _ => c2 :: push_last r b end)
          with (push_last (c2 :: r) b).
        cbn [tl] in Hc. rewrite push_last_split by discriminate.
        destruct Hc as [Hr Hl]. unfold chunks_framed.
        destruct (removelast (c2 :: r) ++ [last (c2 :: r) [] ++ b]) eqn:E;
          [now apply app_eq_nil in E as [_ E]|]. rewrite <- E.
        rewrite removelast_app1, last_last. split.
        * eapply Forall_impl; [|exact Hr]. intros c' Hw. eapply whole_lt_grow; eauto.
        * rewrite Hl, filt_app, (filt_all fr b); auto.
      + apply HXg; auto.
    - (* flush: the frame counter moves on; a non-empty back chunk is closed *)
      subst q'. split; rewrite ?app_nil_r.
      + eapply Forall_impl; [|exact Hle]. cbn. intros; lia.
      + destruct (flush_cases q) as [[Hn ->]|[Hn ->]].
        * cbn [chunks]. destruct (chunks q) as [|c t]; [discriminate|]. cbn [app tl] in *.
          unfold chunks_framed. destruct (t ++ [[]]) eqn:E; [now apply app_eq_nil in E as [_ E]|].
          rewrite <- E, removelast_app1, last_last. split.
          -- destruct t as [|c2 r]; [constructor|]. cbn [chunks_framed] in Hc. destruct Hc as [Hr Hl].
             rewrite (removelast_last_split (c2 :: r)) by discriminate.
             apply Forall_app. split.
             ++ eapply Forall_impl; [|exact Hr]. intros c' Hw. eapply whole_lt_mono; eauto.
             ++ constructor; [|constructor]. exists fr. split; auto.
          -- symmetry. eapply filt_above; eauto.
        * destruct (tl (chunks q)) as [|c2 r] eqn:Et; [exact I|].
          cbn [chunks_framed] in *. destruct Hc as [Hr Hl]. split.
          -- eapply Forall_impl; [|exact Hr]. intros c' Hw. eapply whole_lt_mono; eauto.
          -- (* the back chunk is empty *)
             assert (Hlast : last (c2 :: r) [] = []).
             { unfold last_nonempty in Hn. destruct (chunks q) as [|c t]; [discriminate|].
               cbn [tl] in Et. subst t.
               change (last (c :: c2 :: r) []) with (last (c2 :: r) []) in Hn.
               destruct (last (c2 :: r) []); auto. discriminate. }
             rewrite Hlast. symmetry. eapply filt_above; eauto.
      + apply HXm. lia.
    - destruct Hch as [k0 Hk]. split; auto. rewrite Hk, tl_skipn. now apply chunks_framed_skipn.
    - destruct Hch as [k0 Hk]. split; auto. rewrite Hk, tl_skipn. now apply chunks_framed_skipn.
    - destruct Hch as [k0 Hk]. split; auto. rewrite Hk, tl_skipn. now apply chunks_framed_skipn.
    - destruct Hch as [k0 Hk]. split; auto. rewrite Hk, tl_skipn. now apply chunks_framed_skipn.
    - (* drop: every discarded chunk is a whole earlier frame, or the whole open frame, which is
         empty when drops do not delimit *)
      assert (Hfr : fr <= (if bd then S fr else fr)) by (destruct bd; lia).
      split.
      + eapply Forall_impl; [|exact Hle]. cbn. intros; lia.
      + rewrite Hch. destruct (chunks q); exact I.
      + apply Forall_app. split; [apply HXm; exact Hfr|].
        destruct (tl (chunks q)) as [|c2 r]; [constructor|].
        cbn [chunks_framed] in Hc. destruct Hc as [Hr Hl].
        rewrite (removelast_last_split (c2 :: r)) by discriminate.
        apply Forall_app. split.
        * eapply Forall_impl; [|exact Hr]. intros c' Hw. right. eapply whole_lt_mono; eauto.
        * constructor; [|constructor]. destruct bd.
          -- right. exists fr. split; auto.
          -- left. rewrite Hl. now apply Hb.
    - destruct Hch as [k0 Hk]. split; auto. rewrite Hk, tl_skipn. now apply chunks_framed_skipn.
  Qed.

  (* when drops do not delimit frames: every drop finds the open frame empty (nothing has been
     written since the last flush).  fresh = "no write since the last flush" *)
  Fixpoint drops_fresh (fresh : bool) (ops : list (op T)) : Prop :=
    match ops with
    | [] => True
    | OWrite _ :: r => drops_fresh false r
    | OFlush :: r => drops_fresh true r
    | ODrop :: r => (bd = false -> fresh = true) /\ drops_fresh fresh r
    | _ :: r => drops_fresh fresh r
    end.

  Definition next_fresh (fresh : bool) (o : op T) : bool :=
    match o with OWrite _ => false | OFlush => true | _ => fresh end.

  Lemma framed_cons : forall fr o ops, framed fr (o :: ops) ->
    match o with OWrite b => Forall (fun e => frame e = fr) b | _ => True end
    /\ framed (next_frame fr o) ops.
  Proof. intros fr o ops H. destruct o; cbn in *; tauto. Qed.

  Lemma drops_fresh_cons : forall fresh o ops, drops_fresh fresh (o :: ops) ->
    match o with ODrop => bd = false -> fresh = true | _ => True end
    /\ drops_fresh (next_fresh fresh o) ops.
  Proof. intros fresh o ops H. destruct o; cbn in *; tauto. Qed.

  Lemma exec_FI : forall ops (q : queue T) R X fr Wt B q' R' X' fresh,
    Inv q -> total_len (chunks q) + length (written ops) <= B -> (N.of_nat B <= usize_max)%N ->
    framed fr ops -> drops_fresh fresh ops -> (fresh = true -> filt fr Wt = []) ->
    FI q fr Wt X ->
    exec q ops R X = Ok (q', R', X') ->
    exists fr', FI q' fr' (Wt ++ written ops) X'.
  Proof.
    induction ops as [|o ops IH]; intros q R X fr Wt B q' R' X' fresh HI Htot HB Hfr Hdf Hfresh HF E.
    - cbn in E. inversion E; subst. exists fr. cbn. now rewrite app_nil_r.
    - rewrite written_cons, app_length in Htot. cbn [exec] in E.
      destruct (step_sound q o B HI ltac:(lia) HB) as [[E1 _]|(q1 & r & out & x & E1 & Hpost)];
        rewrite E1 in E; [discriminate|]. cbn [bind] in E.
      destruct (framed_cons fr o ops Hfr) as [Hb Hfr'].
      destruct (drops_fresh_cons fresh o ops Hdf) as [Hd Hdf'].
      assert (Hstep : match o with
                      | OWrite b => Forall (fun e => frame e = fr) b
                      | ODrop => bd = false -> filt fr Wt = []
                      | _ => True end).
      { destruct o; auto. }
      pose proof (step_FI q o q1 out x fr Wt X HI Hpost Hstep HF) as HF1.
      assert (Hfresh' : next_fresh fresh o = true -> filt (next_frame fr o) (Wt ++ wr o) = []).
      { destruct o; cbn [next_fresh next_frame wr]; rewrite ?app_nil_r; auto; try discriminate.
        - intros _. eapply filt_above; [apply HF|lia].
        - intro Hf. destruct bd; [|auto]. eapply filt_above; [apply HF|lia]. }
      destruct Hpost as (HI1 & Htot1 & _).
      destruct (IH q1 (R ++ out) (X ++ x) _ _ B q' R' X' _ HI1 ltac:(lia) HB Hfr' Hdf' Hfresh' HF1 E)
        as [fr' HF'].
      exists fr'. now rewrite written_cons, app_assoc.
  Qed.

  Lemma FI_empty : FI qempty 0 [] [].
  Proof. split; cbn; auto. Qed.

  (* every chunk ever discarded is exactly one whole frame of the written stream (an empty chunk
     is the frame of a number never used) *)
  Theorem dropped_are_whole_frames : forall (ops : list (op T)) q R X,
    (N.of_nat (length (written ops)) <= usize_max)%N -> framed 0 ops -> drops_fresh true ops ->
    exec qempty ops [] [] = Ok (q, R, X) ->
    Forall (fun c => exists f, c = filt f (written ops)) X.
  Proof.
    intros ops q R X HB Hfr Hdf E.
    destruct (exec_FI ops qempty [] [] 0 [] (length (written ops)) q R X true Inv_empty
                ltac:(cbn; lia) HB Hfr Hdf ltac:(reflexivity) FI_empty E) as [fr' [Hle _ HX]].
    cbn in HX, Hle. eapply Forall_impl; [|exact HX]. intros c [->|(f & _ & ->)]; [|now exists f].
    exists (S fr'). symmetry. eapply filt_above; eauto.
  Qed.

  (* and, bytes being pairwise distinguishable, none of its bytes was ever handed out or is
     still pending: it had not started transmission and is never transmitted *)
  Theorem dropped_never_delivered : forall (ops : list (op T)) q R X,
    (N.of_nat (length (written ops)) <= usize_max)%N -> NoDup (written ops) ->
    exec qempty ops [] [] = Ok (q, R, X) ->
    forall e, In e (concat X) -> ~ In e R /\ ~ In e (pending q).
  Proof.
    intros ops q R X HB ND E e He.
    destruct (queue_history ops HB) as [[E2 _]|(q' & R0 & X0 & E2 & _ & Her & _)];
      rewrite E in E2; [discriminate|]. inversion E2; subst q' R0 X0.
    pose proof (erase_disjoint _ _ _ Her ND e He) as Hn.
    split; intro Hin; apply Hn; apply in_or_app; auto.
  Qed.
End Frames.

(* ------------------------------------------------------------------ tagging a plain history *)
Section Tag.
  Context {A : Type}.
  Definition tagged : Type := A * (nat * nat).       (* byte, (frame number, position written) *)
  Definition tframe (e : tagged) : nat := fst (snd e).
  Definition tindex (e : tagged) : nat := snd (snd e).

  Fixpoint tag_bytes (f i : nat) (b : list A) : list tagged :=
    match b with [] => [] | a :: r => (a, (f, i)) :: tag_bytes f (S i) r end.

  (* bd: does a drop close the open frame (see Section Frames) *)
  Fixpoint tag_ops_g (bd : bool) (f i : nat) (ops : list (op A)) : list (op tagged) :=
    match ops with
    | [] => []
    | OWrite b :: r => OWrite (tag_bytes f i b) :: tag_ops_g bd f (i + length b) r
    | OFlush :: r => OFlush :: tag_ops_g bd (S f) i r
    | ODrop :: r => ODrop :: tag_ops_g bd (if bd then S f else f) i r
    | ORead n :: r => ORead n :: tag_ops_g bd f i r
    | OConsume a :: r => OConsume a :: tag_ops_g bd f i r
    | OConsumeWith k c :: r => OConsumeWith k c :: tag_ops_g bd f i r
    | OConsumeWithErr :: r => OConsumeWithErr :: tag_ops_g bd f i r
    | OReadToEnd :: r => OReadToEnd :: tag_ops_g bd f i r
    end.

  Definition tag_ops := tag_ops_g true.

  Lemma tag_bytes_untag : forall b f i, map fst (tag_bytes f i b) = b.
  Proof. induction b as [|a b IH]; intros; cbn; auto. now rewrite IH. Qed.

  Lemma tag_ops_untag : forall bd ops f i, map (op_map fst) (tag_ops_g bd f i ops) = ops.
  Proof.
    induction ops as [|o ops IH]; intros f i; auto.
    destruct o; cbn [tag_ops_g map op_map]; rewrite ?IH, ?tag_bytes_untag; reflexivity.
  Qed.

  Lemma tag_bytes_frame : forall b f i, Forall (fun e => tframe e = f) (tag_bytes f i b).
  Proof. induction b as [|a b IH]; intros; cbn; constructor; auto. Qed.

  Lemma tag_ops_framed : forall bd ops f i, framed tframe bd f (tag_ops_g bd f i ops).
  Proof.
    induction ops as [|o ops IH]; intros f i; cbn; auto.
    destruct o; cbn; auto. split; auto. apply tag_bytes_frame.
  Qed.

  (* untagged and tagged histories have their drops in the same places *)
  Fixpoint drops_fresh_plain (fresh : bool) (ops : list (op A)) : Prop :=
    match ops with
    | [] => True
    | OWrite _ :: r => drops_fresh_plain false r
    | OFlush :: r => drops_fresh_plain true r
    | ODrop :: r => fresh = true /\ drops_fresh_plain fresh r
    | _ :: r => drops_fresh_plain fresh r
    end.

  Lemma tag_ops_drops_fresh : forall ops fresh f i,
    drops_fresh_plain fresh ops -> drops_fresh false fresh (tag_ops_g false f i ops).
  Proof.
    induction ops as [|o ops IH]; intros fresh f i H; cbn; auto.
    destruct o; cbn in *; auto. destruct H. split; auto.
  Qed.

  Lemma tag_ops_drops_trivial : forall ops fresh f i, drops_fresh true fresh (tag_ops_g true f i ops).
  Proof.
    induction ops as [|o ops IH]; intros fresh f i; cbn; auto.
    destruct o; cbn; auto. split; auto. discriminate.
  Qed.

  Lemma tag_bytes_index : forall b f i e, In e (tag_bytes f i b) -> i <= tindex e < i + length b.
  Proof.
    induction b as [|a b IH]; intros f i e H; cbn in *; [contradiction|].
    destruct H as [<-|H]; [cbn; lia|]. apply IH in H. lia.
  Qed.

  Lemma tag_bytes_nodup : forall b f i, NoDup (tag_bytes f i b).
  Proof.
    induction b as [|a b IH]; intros; cbn; constructor; auto.
    intro H. apply tag_bytes_index in H. cbn in H. lia.
  Qed.

  Lemma tag_ops_index : forall bd ops f i e, In e (written (tag_ops_g bd f i ops)) -> i <= tindex e.
  Proof.
    induction ops as [|o ops IH]; intros f i e H; [contradiction|].
    destruct o; cbn [tag_ops_g written] in H; try (now apply IH in H).
    - apply in_app_or in H. destruct H as [H|H].
      + apply tag_bytes_index in H. lia.
      + apply IH in H. lia.
  Qed.

  Lemma NoDup_app_intro : forall (l1 l2 : list tagged),
    NoDup l1 -> NoDup l2 -> (forall x, In x l1 -> ~ In x l2) -> NoDup (l1 ++ l2).
  Proof.
    intros l1 l2 H1. induction H1 as [|a l1 Ha H1 IH]; intros H2 Hd; cbn; auto.
    constructor.
    - intro H3. apply in_app_or in H3. destruct H3 as [H3|H3]; [contradiction|].
      apply (Hd a); [now left|exact H3].
    - apply IH; auto. intros x Hx. apply Hd. now right.
  Qed.

  Lemma tag_ops_nodup : forall bd ops f i, NoDup (written (tag_ops_g bd f i ops)).
  Proof.
    induction ops as [|o ops IH]; intros f i; [constructor|].
    destruct o; cbn [tag_ops_g written]; auto.
    apply NoDup_app_intro; auto using tag_bytes_nodup.
    intros x H1 H2. apply tag_bytes_index in H1. apply tag_ops_index in H2. lia.
  Qed.

  (* the plain run is the tagged run with the tags erased *)
  Lemma exec_untag : forall bd (ops : list (op A)),
    exec qempty ops [] [] = omap (res_map fst) (exec qempty (tag_ops_g bd 0 0 ops) [] []).
  Proof.
    intros bd ops. pose proof (exec_map fst (tag_ops_g bd 0 0 ops) qempty [] []) as H.
    cbn [map] in H. change (qmap fst qempty) with (@qempty A) in H.
    rewrite tag_ops_untag in H. exact H.
  Qed.

  Lemma written_untag : forall bd (ops : list (op A)), map fst (written (tag_ops_g bd 0 0 ops)) = written ops.
  Proof. intros bd ops. now rewrite <- written_map, tag_ops_untag. Qed.

  Lemma frames_gen : forall bd (ops : list (op A)) q R X,
    (N.of_nat (length (written ops)) <= usize_max)%N ->
    drops_fresh bd true (tag_ops_g bd 0 0 ops) ->
    exec qempty ops [] [] = Ok (q, R, X) ->
    exists qt Rt Xt,
      exec qempty (tag_ops_g bd 0 0 ops) [] [] = Ok (qt, Rt, Xt)
      /\ (q, R, X) = res_map fst (qt, Rt, Xt)
      /\ Forall (fun c => exists f, c = filt tframe f (written (tag_ops_g bd 0 0 ops))) Xt
      /\ (forall e, In e (concat Xt) -> ~ In e Rt /\ ~ In e (pending qt)).
  Proof.
    intros bd ops q R X HB Hdf E. rewrite (exec_untag bd) in E.
    destruct (exec qempty (tag_ops_g bd 0 0 ops) [] []) as [[[qt Rt] Xt]| | |] eqn:Et; try discriminate.
    cbn [omap bind] in E. inversion E as [E'].
    assert (HBt : (N.of_nat (length (written (tag_ops_g bd 0 0 ops))) <= usize_max)%N).
    { rewrite <- (written_untag bd ops), map_length in HB. exact HB. }
    exists qt, Rt, Xt. split; auto. split; auto. split.
    - eapply dropped_are_whole_frames; eauto. apply tag_ops_framed.
    - eapply dropped_never_delivered; eauto. apply tag_ops_nodup.
  Qed.

  (* Frames are never torn: in every history, every chunk discarded by a drop is one whole
     frame (all the bytes written between two consecutive delimiters, the delimiters being
     flush and drop calls), and none of its bytes is ever handed to a reader. *)
  Theorem frames_never_torn : forall (ops : list (op A)) q R X,
    (N.of_nat (length (written ops)) <= usize_max)%N ->
    exec qempty ops [] [] = Ok (q, R, X) ->
    exists qt Rt Xt,
      exec qempty (tag_ops 0 0 ops) [] [] = Ok (qt, Rt, Xt)
      /\ (q, R, X) = res_map fst (qt, Rt, Xt)
      /\ Forall (fun c => exists f, c = filt tframe f (written (tag_ops 0 0 ops))) Xt
      /\ (forall e, In e (concat Xt) -> ~ In e Rt /\ ~ In e (pending qt)).
  Proof. intros ops q R X HB E. apply (frames_gen true); auto. apply tag_ops_drops_trivial. Qed.

  (* The strong form, for histories in which nothing is written between the last flush and a
     drop (the render loop drops right after poll, which flushes; dispose drops what the
     program left): frames are delimited by flushes ONLY, and every discarded chunk is still one
     whole frame none of whose bytes is ever handed out.  (Without the hypothesis it is false:
     write B1; drop; write B2; flush discards B1 and sends B2, two halves of one
     flush-delimited frame.) *)
  Theorem frames_never_torn_flush_delimited : forall (ops : list (op A)) q R X,
    (N.of_nat (length (written ops)) <= usize_max)%N ->
    drops_fresh_plain true ops ->
    exec qempty ops [] [] = Ok (q, R, X) ->
    exists qt Rt Xt,
      exec qempty (tag_ops_g false 0 0 ops) [] [] = Ok (qt, Rt, Xt)
      /\ (q, R, X) = res_map fst (qt, Rt, Xt)
      /\ Forall (fun c => exists f, c = filt tframe f (written (tag_ops_g false 0 0 ops))) Xt
      /\ (forall e, In e (concat Xt) -> ~ In e Rt /\ ~ In e (pending qt)).
  Proof. intros ops q R X HB Hd E. apply (frames_gen false); auto. now apply tag_ops_drops_fresh. Qed.
End Tag.
