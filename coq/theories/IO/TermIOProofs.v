(* The terminal object's output path refines the queue histories of IO/IOQueue.v, for every
   program and every kernel schedule; the delivery theorems follow from the queue theorems. *)
From Coq Require Import List NArith Arith Bool Lia.
From Coq Require Import ZifyBool ZifyNat ZifyN.
From SNT Require Import Base.Outcome IO.IOQueue IO.IOQueueProofs IO.IOQueueFrames IO.TermIO.
Import ListNotations.

Arguments N.add : simpl never.
Arguments N.min : simpl never.
Arguments N.of_nat : simpl never.
Arguments N.to_nat : simpl never.

Section TermProofs.
  Context {A : Type}.
  Notation queue := (queue A).
  Notation term := (term A).
  Notation top := (top A).
  Notation round := (round A).

  Lemma exec_app : forall (o1 o2 : list (op A)) (q : queue) R X,
    exec q (o1 ++ o2) R X
    = bind (exec q o1 R X) (fun t => let '(q1, R1, X1) := t in exec q1 o2 R1 X1).
  Proof.
    induction o1 as [|o o1 IH]; intros o2 q R X; [reflexivity|].
    cbn [app exec]. destruct (step q o) as [[[[q' r] out] x]| | |]; cbn [bind]; auto.
  Qed.

  (* every call the terminal object makes on its queue fits: it never passes a raw amount *)
  Lemma compile_round_fits : forall B (r : round), Forall (amt_fits B) (compile_round r).
  Proof. intros B [k| |b]; cbn; repeat constructor. Qed.

  Lemma compile_top_fits : forall B (o : top), Forall (amt_fits B) (compile_top o).
  Proof.
    intros B [b|bs| |sched|]; cbn; repeat constructor.
    - induction bs; cbn; constructor; auto. exact I.
    - induction sched as [|r s IH]; cbn; [constructor|]. apply Forall_app. split; auto.
      apply compile_round_fits.
  Qed.

  Lemma compile_fits : forall B (prog : list top), Forall (amt_fits B) (compile prog).
  Proof.
    intros B prog. unfold compile. induction prog as [|o p IH]; cbn; [constructor|].
    apply Forall_app. split; auto. apply compile_top_fits.
  Qed.

  Lemma written_compile_round : forall r : round, written (compile_round r) = round_written r.
  Proof. intros [k| |b]; cbn; auto. apply app_nil_r. Qed.

  Lemma written_compile_top : forall o : top, written (compile_top o) = top_written o.
  Proof.
    intros [b|bs| |sched|]; cbn; auto.
    - apply app_nil_r.
    - induction bs as [|b bs IH]; cbn; auto. now rewrite IH.
    - induction sched as [|r s IH]; cbn; auto.
      now rewrite written_app, written_compile_round, IH.
  Qed.

  Lemma written_compile : forall prog : list top, written (compile prog) = twritten prog.
  Proof.
    unfold compile, twritten. induction prog as [|o p IH]; cbn; auto.
    now rewrite written_app, written_compile_top, IH.
  Qed.

  Lemma taken_small : forall (s : list A) size,
    (size <= N.of_nat (length s))%N -> taken s size = firstn (N.to_nat size) s.
  Proof. intros s size H. unfold taken. f_equal. lia. Qed.

  (* ---------------- one round of the poll loop *)
  Lemma round_sim : forall (t : term) (r : round) X B,
    Inv (tq t) -> total_len (chunks (tq t)) + length (round_written r) <= B ->
    (N.of_nat B <= usize_max)%N -> sent t = length (tty t) ->
    exists t', poll_round t r = Ok t'
      /\ exec (tq t) (compile_round r) (tty t) X = Ok (tq t', tty t', X)
      /\ sent t' = length (tty t').
  Proof.
    intros t r X B HI Htot HB Hs. destruct r as [k| |b]; cbn [poll_round compile_round exec].
    - (* the tty accepts up to k bytes of the front slice *)
      pose proof (offset_le_total (tq t) (inv_off _ HI)) as Hot.
      cbn [step]. unfold consume_with.
      rewrite (as_slice_ok (tq t) (inv_off _ HI)). cbn [bind].
      set (s := front_slice (tq t)). set (size := consumer k true s).
      assert (Hsize : (size <= N.of_nat (length s))%N) by (unfold size, consumer; lia).
      destruct (consume_take (tq t) size HI) as (q' & E & Ht); [fold s in Hot; lia|].
      rewrite E. cbn [bind].
      destruct (is_empty (tq t)) eqn:Hemp.
      + (* nothing queued: the write step is not taken; on the queue the call is a no-op *)
        exists t. split; auto. split; auto.
        unfold is_empty in Hemp. destruct (tq t) as [cs o l] eqn:Eq. cbn [chunks] in Hemp.
        destruct cs; [|discriminate].
        assert (Ho : o = 0) by (destruct (inv_off _ HI) as [H|H]; cbn in H; lia).
        subst o. unfold s, front_slice in *. cbn [chunks offset] in *.
        destruct Ht as [[Hlt _]|[_ ->]]; [cbn in Hlt; lia|].
        unfold q_pop, front_slice, taken. cbn [chunks offset qlen tl length]. rewrite firstn_nil, Nat.sub_0_r, !app_nil_r. reflexivity.
      + exists (mkT q' (tty t ++ firstn (N.to_nat size) s) (sent t + N.to_nat size)).
        split; auto. cbn [tq tty sent]. rewrite (taken_small s size Hsize), app_nil_r.
        split; auto. rewrite app_length, firstn_length. lia.
    - exists t. auto.
    - exists (mkT (write (tq t) b) (tty t) (sent t)). cbn [step bind tq tty sent].
      rewrite !app_nil_r. auto.
  Qed.

  Lemma exec_ok_inv' : forall ops (q : queue) R X q' R' X' B,
    Inv q -> total_len (chunks q) + length (written ops) <= B -> (N.of_nat B <= usize_max)%N ->
    exec q ops R X = Ok (q', R', X') ->
    Inv q' /\ total_len (chunks q') <= total_len (chunks q) + length (written ops).
  Proof.
    intros ops q R X q' R' X' B HI Htot HB E.
    eapply exec_ok_inv; [exact HI|apply le_n| |exact E]. lia.
  Qed.

  Lemma rounds_sim : forall (sched : list round) (t : term) X B,
    Inv (tq t) ->
    total_len (chunks (tq t)) + length (concat (map round_written sched)) <= B ->
    (N.of_nat B <= usize_max)%N -> sent t = length (tty t) ->
    exists t', poll_rounds t sched = Ok t'
      /\ exec (tq t) (concat (map compile_round sched)) (tty t) X = Ok (tq t', tty t', X)
      /\ sent t' = length (tty t').
  Proof.
    induction sched as [|r sched IH]; intros t X B HI Htot HB Hs.
    - exists t. auto.
    - cbn [map concat] in *. rewrite app_length in Htot.
      destruct (round_sim t r X B HI ltac:(lia) HB Hs) as (t1 & E1 & Ex1 & Hs1).
      destruct (exec_ok_inv' (compile_round r) (tq t) (tty t) X _ _ _ B HI
                  ltac:(rewrite written_compile_round; lia) HB Ex1) as [HI1 Htot1].
      rewrite written_compile_round in Htot1.
      destruct (IH t1 X B HI1 ltac:(lia) HB Hs1) as (t2 & E2 & Ex2 & Hs2).
      exists t2. cbn [poll_rounds]. rewrite E1. cbn [bind]. split; auto.
      rewrite exec_app, Ex1. cbn [bind]. auto.
  Qed.

  (* ---------------- one call on the terminal object *)
  Lemma exec_writes : forall (bs : list (list A)) (q : queue) R X,
    exec q (map OWrite bs) R X = Ok (fold_left write bs q, R, X).
  Proof.
    induction bs as [|b bs IH]; intros q R X; [reflexivity|].
    cbn [map exec step bind fold_left]. rewrite !app_nil_r. apply IH.
  Qed.

  Lemma tstep_sim : forall (t : term) (o : top) X B,
    Inv (tq t) -> total_len (chunks (tq t)) + length (top_written o) <= B ->
    (N.of_nat B <= usize_max)%N -> sent t = length (tty t) ->
    exists t' x, tstep t o = Ok (t', x)
      /\ exec (tq t) (compile_top o) (tty t) X = Ok (tq t', tty t', X ++ x)
      /\ sent t' = length (tty t')
      /\ x = match o with TDrop => tl (chunks (tq t)) | _ => [] end.
  Proof.
    intros t o X B HI Htot HB Hs. destruct o as [b|bs| |sched|]; cbn [tstep compile_top].
    - eexists _, []. split; [reflexivity|]. cbn [exec step bind tq tty sent].
      rewrite !app_nil_r. auto.
    - eexists _, []. split; [reflexivity|]. cbn [tq tty sent]. rewrite exec_writes, app_nil_r. auto.
    - eexists _, []. split; [reflexivity|]. cbn [exec step bind tq tty sent].
      rewrite !app_nil_r. auto.
    - cbn [top_written] in Htot.
      destruct (flush_view (tq t)) as (_ & _ & _ & _ & _ & _).
      assert (HIf : Inv (flush (tq t))) by now apply Inv_flush.
      assert (Htf : total_len (chunks (flush (tq t))) = total_len (chunks (tq t))).
      { destruct (flush_cases (tq t)) as [[_ ->]|[_ ->]]; auto.
        unfold total_len. cbn. rewrite concat_app, app_length. cbn. lia. }
      destruct (rounds_sim sched (mkT (flush (tq t)) (tty t) (sent t)) X B HIf
                  ltac:(cbn [tq]; lia) HB Hs) as (t' & E & Ex & Hs').
      exists t', []. rewrite E. cbn [bind]. split; auto.
      cbn [exec step bind]. rewrite !app_nil_r. cbn [tq tty] in Ex. auto.
    - destruct (drop_ok (tq t) HI) as (q' & E & _ & _ & _ & Hd & _).
      rewrite E. cbn [bind]. eexists _, _. split; [reflexivity|].
      cbn [exec step bind tq tty sent]. rewrite E. cbn [bind]. rewrite app_nil_r. auto.
  Qed.

  (* ---------------- whole programs *)
  Lemma twritten_cons : forall (o : top) prog, twritten (o :: prog) = top_written o ++ twritten prog.
  Proof. reflexivity. Qed.

  Lemma trun_sim : forall (prog : list top) (t : term) X B,
    Inv (tq t) -> total_len (chunks (tq t)) + length (twritten prog) <= B ->
    (N.of_nat B <= usize_max)%N -> sent t = length (tty t) ->
    exists t' X', trun t prog X = Ok (t', X')
      /\ exec (tq t) (compile prog) (tty t) X = Ok (tq t', tty t', X')
      /\ sent t' = length (tty t').
  Proof.
    induction prog as [|o prog IH]; intros t X B HI Htot HB Hs.
    - exists t, X. auto.
    - rewrite twritten_cons, app_length in Htot.
      destruct (tstep_sim t o X B HI ltac:(lia) HB Hs) as (t1 & x & E1 & Ex1 & Hs1 & _).
      destruct (exec_ok_inv' (compile_top o) (tq t) (tty t) X _ _ _ B HI
                  ltac:(rewrite written_compile_top; lia) HB Ex1) as [HI1 Htot1].
      rewrite written_compile_top in Htot1.
      destruct (IH t1 (X ++ x) B HI1 ltac:(lia) HB Hs1) as (t2 & X2 & E2 & Ex2 & Hs2).
      exists t2, X2. cbn [trun]. rewrite E1. cbn [bind]. split; auto.
      unfold compile. cbn [map concat]. rewrite exec_app, Ex1. cbn [bind]. auto.
  Qed.

  (* Delivery in order, exactly once: for every program of write / execute / flush / poll /
     frames_drop calls and every kernel schedule inside every poll, the terminal object never
     panics, the bytes the tty accepted followed by the bytes still queued are exactly the bytes
     handed to the terminal object in program order with the discarded chunks cut out, and the
     send counter is the number of bytes delivered. *)
  Theorem term_delivery : forall prog : list top,
    (N.of_nat (length (twritten prog)) <= usize_max)%N ->
    exists t X, trun term0 prog [] = Ok (t, X)
      /\ exec qempty (compile prog) [] [] = Ok (tq t, tty t, X)
      /\ erase (twritten prog) (tty t ++ pending (tq t)) X
      /\ sent t = length (tty t)
      /\ Inv (tq t).
  Proof.
    intros prog HB.
    destruct (trun_sim prog term0 [] (length (twritten prog)) Inv_empty ltac:(cbn; lia) HB eq_refl)
      as (t & X & E & Ex & Hs). exists t, X. cbn [tq tty term0] in Ex.
    split; auto. split; auto.
    destruct (queue_history (compile prog) ltac:(rewrite written_compile; exact HB))
      as [[E2 _]|(q & R & X' & E2 & HI & Her & _)]; rewrite Ex in E2; [discriminate|].
    inversion E2; subst. rewrite written_compile in Her. auto.
  Qed.

  (* without frames_drop no chunk is ever discarded *)
  Lemma trun_no_drop_X : forall (prog : list top) (t0 : term) X0 t X,
    trun t0 prog X0 = Ok (t, X) -> ~ In TDrop prog -> X = X0.
  Proof.
    induction prog as [|o prog IH]; intros t0 X0 t X E Hnd.
    - cbn in E. now inversion E.
    - cbn [trun] in E. destruct (tstep t0 o) as [[t1 x]| | |] eqn:E1; try discriminate.
      cbn [bind] in E.
      assert (x = []).
      { destruct o; cbn in E1; try (inversion E1; reflexivity).
        - destruct (poll_rounds _ _); cbn in E1; try discriminate. now inversion E1.
        - exfalso. apply Hnd. now left. }
      subst x. rewrite app_nil_r in E. eapply IH; eauto. intro H. apply Hnd. now right.
  Qed.

  (* no drop in the program: the tty has received a prefix of what was written and the rest
     is still queued, nothing lost, duplicated or reordered *)
  Corollary term_delivery_no_drop : forall (prog : list top) t X,
    (N.of_nat (length (twritten prog)) <= usize_max)%N ->
    trun term0 prog [] = Ok (t, X) -> ~ In TDrop prog ->
    tty t ++ pending (tq t) = twritten prog.
  Proof.
    intros prog t X HB E Hnd.
    destruct (term_delivery prog HB) as (t' & X' & E' & Ex & Her & _). rewrite E in E'.
    inversion E'; subst t' X'. symmetry. apply erase_no_drop.
    now rewrite (trun_no_drop_X prog term0 [] t X E Hnd) in Her.
  Qed.

  (* a poll whose schedule lets the loop run until the queue is empty has delivered everything *)
  Corollary term_drained : forall (prog : list top) t X,
    (N.of_nat (length (twritten prog)) <= usize_max)%N ->
    trun term0 prog [] = Ok (t, X) -> is_empty (tq t) = true ->
    erase (twritten prog) (tty t) X.
  Proof.
    intros prog t X HB E Hemp.
    destruct (term_delivery prog HB) as (t' & X' & E' & Ex & Her & _). rewrite E in E'.
    inversion E'; subst t' X'. unfold is_empty in Hemp. unfold pending in Her.
    destruct (chunks (tq t)); [|discriminate]. now rewrite app_nil_r in Her.
  Qed.

  (* frames are never torn, on the terminal object: every chunk frames_drop discards is one
     whole frame (everything handed over between two consecutive flush / poll / frames_drop
     calls) and none of its bytes ever reaches the tty *)
  Theorem term_frames_never_torn : forall (prog : list top) t X,
    (N.of_nat (length (twritten prog)) <= usize_max)%N ->
    trun term0 prog [] = Ok (t, X) ->
    let tops := tag_ops 0 0 (compile prog) in
    exists qt Rt Xt,
      exec qempty tops [] [] = Ok (qt, Rt, Xt)
      /\ (tq t, tty t, X) = res_map fst (qt, Rt, Xt)
      /\ Forall (fun c => exists f, c = filt tframe f (written tops)) Xt
      /\ (forall e, In e (concat Xt) -> ~ In e Rt /\ ~ In e (pending qt)).
  Proof.
    intros prog t X HB E tops.
    destruct (term_delivery prog HB) as (t' & X' & E' & Ex & _). rewrite E in E'.
    inversion E'; subst t' X'.
    apply (frames_never_torn (compile prog) (tq t) (tty t) X); auto.
    now rewrite written_compile.
  Qed.

  (* ---------------- the strong form: frames delimited by flush / poll only *)
  Definition is_internal (r : round) : bool := match r with KInternal _ => true | _ => false end.

  (* fresh = nothing has been handed to the terminal object since the last flush / poll *)
  Fixpoint tdrops_fresh (fresh : bool) (prog : list top) : Prop :=
    match prog with
    | [] => True
    | TWrite _ :: r | TExecute _ :: r => tdrops_fresh false r
    | TFlush :: r => tdrops_fresh true r
    | TPoll sched :: r => tdrops_fresh (negb (existsb is_internal sched)) r
    | TDrop :: r => fresh = true /\ tdrops_fresh fresh r
    end.

  Fixpoint fresh_after (fresh : bool) (ops : list (op A)) : bool :=
    match ops with
    | [] => fresh
    | OWrite _ :: r => fresh_after false r
    | OFlush :: r => fresh_after true r
    | _ :: r => fresh_after fresh r
    end.

  Lemma drops_fresh_app : forall (a b : list (op A)) fresh,
    drops_fresh_plain fresh a -> drops_fresh_plain (fresh_after fresh a) b ->
    drops_fresh_plain fresh (a ++ b).
  Proof.
    induction a as [|o a IH]; intros b fresh Ha Hb; cbn in *; auto.
    destruct o; cbn in *; auto. destruct Ha. split; auto.
  Qed.

  Lemma drops_fresh_mono : forall (ops : list (op A)), drops_fresh_plain false ops -> drops_fresh_plain true ops.
  Proof.
    induction ops as [|o ops IH]; cbn; auto. destruct o; cbn; auto. intros [H _]. discriminate.
  Qed.

  Lemma drops_fresh_weaken : forall (ops : list (op A)) f1 f2,
    (f1 = true -> f2 = true) -> drops_fresh_plain f1 ops -> drops_fresh_plain f2 ops.
  Proof.
    intros ops [|] [|] H Hd; auto; [specialize (H eq_refl); discriminate|now apply drops_fresh_mono].
  Qed.

  Lemma rounds_fresh : forall (sched : list round) fresh,
    drops_fresh_plain fresh (concat (map compile_round sched))
    /\ (fresh_after fresh (concat (map compile_round sched)) = true ->
        fresh = true /\ existsb is_internal sched = false)
    /\ (fresh = true -> existsb is_internal sched = false ->
        fresh_after fresh (concat (map compile_round sched)) = true).
  Proof.
    induction sched as [|r sched IH]; intro fresh; cbn [map concat existsb].
    - cbn. auto.
    - destruct r as [k| |b]; cbn [compile_round app is_internal orb drops_fresh_plain fresh_after].
      + exact (IH fresh).
      + exact (IH fresh).
      + destruct (IH false) as (H1 & H2 & H3). split; auto. split.
        * intro H. destruct (H2 H) as [Hx _]. discriminate.
        * intros _ Hx. discriminate.
  Qed.

  Lemma writes_fresh : forall (bs : list (list A)) fresh,
    drops_fresh_plain fresh (map OWrite bs).
  Proof. induction bs; intro fresh; cbn; auto. Qed.

  Lemma compile_drops_fresh : forall (prog : list top) fresh,
    tdrops_fresh fresh prog -> drops_fresh_plain fresh (compile prog).
  Proof.
    unfold compile. induction prog as [|o prog IH]; intros fresh H; [exact I|].
    cbn [map concat]. destruct o as [b|bs| |sched|]; cbn [tdrops_fresh compile_top] in *.
    - cbn. now apply IH.
    - apply drops_fresh_app; [apply writes_fresh|].
      eapply drops_fresh_weaken; [|apply IH; exact H]. discriminate.
    - cbn. now apply IH.
    - cbn [app drops_fresh_plain].
      destruct (rounds_fresh sched true) as (H1 & H2 & H3).
      apply drops_fresh_app; auto.
      eapply drops_fresh_weaken; [|apply IH; exact H].
      intro Hn. apply H3; auto. now apply negb_true_iff in Hn.
    - cbn. destruct H. split; auto.
  Qed.

  (* frames_drop right after a flush or a poll (the render loop of terminal.rs, dispose after a
     poll): frames are what lies between two consecutive flushes / polls, nothing else, and
     every discarded chunk is one whole such frame, no byte of which reaches the tty *)
  Theorem term_frames_flush_delimited : forall (prog : list top) t X,
    (N.of_nat (length (twritten prog)) <= usize_max)%N ->
    tdrops_fresh true prog ->
    trun term0 prog [] = Ok (t, X) ->
    let tops := tag_ops_g false 0 0 (compile prog) in
    exists qt Rt Xt,
      exec qempty tops [] [] = Ok (qt, Rt, Xt)
      /\ (tq t, tty t, X) = res_map fst (qt, Rt, Xt)
      /\ Forall (fun c => exists f, c = filt tframe f (written tops)) Xt
      /\ (forall e, In e (concat Xt) -> ~ In e Rt /\ ~ In e (pending qt)).
  Proof.
    intros prog t X HB Hd E tops.
    destruct (term_delivery prog HB) as (t' & X' & E' & Ex & _). rewrite E in E'.
    inversion E'; subst t' X'.
    apply (frames_never_torn_flush_delimited (compile prog) (tq t) (tty t) X); auto.
    - now rewrite written_compile.
    - now apply compile_drops_fresh.
  Qed.

  (* the render loop of terminal.rs (run_render): poll; frames_drop when more than 32 frames are
     pending; then everything the iteration writes - the renderer's clear after a drop or a
     resize, what the handler writes itself, the frame.  The poll may queue output of its own
     (the size query on SIGWINCH in escape sequence resize mode, replies of the image handler):
     harmless in an iteration that does not drop; in one that does, those bytes are a fragment
     that the drop discards while the rest of its flush-delimited frame follows (what C16_frames
     says then: the fragment is a frame of its own, dropped whole). *)
  Definition render_iteration (it : list round * bool * list (list A)) : list top :=
    let '(sched, dropit, frame) := it in
    TPoll sched :: (if dropit then [TDrop] else []) ++ map TWrite frame.

  Definition iteration_ok (it : list round * bool * list (list A)) : Prop :=
    snd (fst it) = true -> existsb is_internal (fst (fst it)) = false.

  Lemma render_loop_drops_fresh : forall (its : list (list round * bool * list (list A))) fresh,
    Forall iteration_ok its ->
    tdrops_fresh fresh (concat (map render_iteration its)).
  Proof.
    induction its as [|[[sched d] frame] its IH]; intros fresh H; [exact I|].
    inversion H as [|? ? Hs Hr]; subst. unfold iteration_ok in Hs. cbn [fst snd] in Hs.
    cbn [map concat render_iteration app tdrops_fresh].
    assert (Hw : forall (ws : list (list A)) f, tdrops_fresh f (map TWrite ws ++ concat (map render_iteration its))).
    { induction ws as [|w ws IHw]; intro f; cbn; auto. }
    destruct d; cbn [app tdrops_fresh]; [|apply Hw].
    rewrite (Hs eq_refl). cbn [negb]. split; auto.
  Qed.
End TermProofs.
