(* dispose with the debugging copy of the output (`duplicate_output`, the tee) as a component.

   In the code the tee is written inside poll's write step, after the tty accepted a slice
   (`tee.write_all(&slice[..size])`; since 5a0ca21 the accepted bytes are consumed first and the
   error of the copy is returned afterwards).  dispose (unix.rs) in its step order:
       frames_drop; queue the closing sequence (errors ignored); close the signal handler and
       forget flagged signals; wait loop { poll(1 s): DA answer / timeout -> stop; an error
       with a tee present -> forget the tee, go on (cc7dfd1); an error without -> stop; the
       overall deadline -> stop }; tcsetattr(saved) - the only step whose error is returned,
       and the last one.  (The BufWriter of the tee is flushed when the object's fields are
       dropped, after dispose; that error is swallowed by std.)
   The tee is an oracle: one boolean per poll of the wait loop while the tee is present,
   `false` = the copy fails in that poll.  A failing copy is modelled at the first write step
   of the poll (`poll_tee_fails`: flush, arrivals, one write step, error); a failure at a later
   write step of the same poll is not distinguished from a poll error of the tty one iteration
   later (`r_wr_err`), which the schedule already quantifies over.  `None` = no tee. *)
From Coq Require Import List NArith Arith Bool Lia.
From Coq Require Import ZifyBool ZifyNat ZifyN.
From SNT Require Import Base.Outcome IO.IOQueue IO.IOQueueProofs IO.TermIO IO.PollLoop IO.PollLoopProofs.
Import ListNotations.

Section Tee.
  Context {A T : Type}.
  Notation pstate := (pstate A T).
  Notation round_env := (round_env T).

  Definition poll_tee_fails (s : pstate) (r : round_env) : pstate :=
    let t := io s in
    let s1 := upd_io s (mkT (flush (tq t)) (tty t) (sent t)) in
    let s0 := arrive_all s1 (r_before r) in
    let writable := negb (queue_empty s0)
                    && ((match r_accept r with Some _ => true | None => r_wr_err r end) || hup s0) in
    match write_step s0 r writable with inl s2 => s2 | inr _ => s0 end.

  Lemma Out_poll_tee_fails : forall (s : pstate) r, QI s -> Out s (poll_tee_fails s r).
  Proof.
    intros s r [HI HB]. unfold poll_tee_fails.
    set (s1 := upd_io s _).
    assert (H1 : Out s s1).
    { unfold Out, stream, QI, s1, upd_io. cbn [saved cur sig_closed io tq tty].
      rewrite pending_flush.
      split; [reflexivity|]. split; [reflexivity|]. split; [reflexivity|]. split; [reflexivity|].
      split; [|exists []; now rewrite app_nil_r].
      split; [now apply Inv_flush|].
      destruct (flush_cases (tq (io s))) as [[_ ->]|[_ ->]]; auto.
      unfold total_len in *. cbn [chunks]. rewrite concat_app, app_length. cbn. lia. }
    set (s0 := arrive_all s1 (r_before r)).
    assert (H0 : Out s s0).
    { eapply Out_trans; [exact H1|]. apply Out_of_Same; [apply (Out_QI _ _ H1)|apply Same_arrive_all]. }
    match goal with |- context [write_step s0 r ?w] =>
      pose proof (Out_write_step s0 r w (Out_QI _ _ H0)) as HW;
      destruct (write_step s0 r w) as [s2|e] end; [|exact H0].
    eapply Out_trans; eauto.
  Qed.

  Context (is_da : T -> bool) (closing : list A).

  Fixpoint dispose_loop_t (fuel : nat) (tee : option (list bool)) (s : pstate) (sched : list round_env)
    : option (pstate * list round_env) :=
    match fuel with
    | O => Some (s, sched)
    | S f =>
        match tee, sched with
        | Some (false :: _), r :: rest =>
            (* the copy fails: poll returns its error, dispose forgets the tee and polls again *)
            dispose_loop_t f None (poll_tee_fails s r) rest
        | Some (false :: _), [] => None
        | _, _ =>
            let tee' := match tee with Some l => Some (tl l) | None => None end in
            match poll true s sched with
            | (PRet (Some (EvInput t)), s', rest) =>
                if is_da t then Some (s', rest) else dispose_loop_t f tee' s' rest
            | (PRet (Some _), s', rest) => dispose_loop_t f tee' s' rest
            | (PRet None, s', rest) => Some (s', rest)
            | (PErr _, s', rest) =>
                (* any error while a tee is present: the tee is forgotten, one more try *)
                match tee with Some _ => dispose_loop_t f None s' rest | None => Some (s', rest) end
            | (PBlocked, s', rest) => None
            | (PMore, s', rest) => None
            end
        end
    end.

  Definition dispose_t (fuel : nat) (tee : option (list bool)) (s : pstate) (sched : list round_env)
    : option pstate :=
    let t := io s in
    let q1 := match clear_but_last (tq t) with Ok q => q | _ => tq t end in
    let q2 := write q1 closing in
    let s0 := upd_io s (mkT q2 (tty t) (sent t)) in
    let s1 := mkP (io s0) (events s0) (pipe s0) false false false true (inq s0) (hup s0)
                  (saved s0) (cur s0) (g_owed_wake s0) false (g_arrived s0) (g_returned s0) in
    match dispose_loop_t fuel tee s1 sched with
    | None => None
    | Some (s3, _) =>
        (* tcsetattr(saved): the last step *)
        Some (if hup s3 then s3
              else mkP (io s3) (events s3) (pipe s3) (termsig s3) (winch s3) (sigpipe s3)
                       (sig_closed s3) (inq s3) (hup s3) (saved s3) (saved s3)
                       (g_owed_wake s3) (g_owed_winch s3) (g_arrived s3) (g_returned s3))
    end.

  (* without a tee this is the dispose of IO/PollLoop.v *)
  Lemma dispose_loop_t_none : forall fuel (s : pstate) sched,
    dispose_loop_t fuel None s sched = dispose_loop is_da fuel s sched.
  Proof.
    induction fuel as [|fuel IH]; intros s sched; [reflexivity|].
    cbn [dispose_loop_t dispose_loop].
    destruct (poll true s sched) as [[res s'] rest].
    destruct res as [[e|]| | |]; try reflexivity.
    destruct e as [| |t]; try apply IH. destruct (is_da t); [reflexivity|apply IH].
  Qed.

  Theorem dispose_t_none : forall fuel (s : pstate) sched,
    dispose_t fuel None s sched = dispose is_da closing fuel s sched.
  Proof. intros. unfold dispose_t, dispose. now rewrite dispose_loop_t_none. Qed.

  Lemma Out_dispose_loop_t : forall fuel tee (s : pstate) sched s' rest, QI s ->
    dispose_loop_t fuel tee s sched = Some (s', rest) -> Out s s'.
  Proof.
    induction fuel as [|fuel IH]; intros tee s sched s' rest HQ E.
    { cbn in E. inversion E; subst. apply Out_of_Same; [exact HQ|apply Same_refl]. }
    cbn [dispose_loop_t] in E.
    assert (Hgen : forall tee',
      match poll true s sched with
      | (PRet (Some (EvInput t)), s1, rest1) =>
          if is_da t then Some (s1, rest1) else dispose_loop_t fuel tee' s1 rest1
      | (PRet (Some _), s1, rest1) => dispose_loop_t fuel tee' s1 rest1
      | (PRet None, s1, rest1) => Some (s1, rest1)
      | (PErr _, s1, rest1) =>
          match tee with Some _ => dispose_loop_t fuel None s1 rest1 | None => Some (s1, rest1) end
      | (PBlocked, s1, rest1) => None
      | (PMore, s1, rest1) => None
      end = Some (s', rest) -> Out s s').
    { intros tee' E'. pose proof (Out_poll true s sched HQ) as HP.
      destruct (poll true s sched) as [[res s1] rest1]. cbn [fst snd] in HP.
      destruct res as [[e|]| | |]; try discriminate.
      - destruct e as [| |t].
        + eapply Out_trans; [exact HP|]. eapply IH; [apply (Out_QI _ _ HP)|exact E'].
        + eapply Out_trans; [exact HP|]. eapply IH; [apply (Out_QI _ _ HP)|exact E'].
        + destruct (is_da t).
          * inversion E'; subst. exact HP.
          * eapply Out_trans; [exact HP|]. eapply IH; [apply (Out_QI _ _ HP)|exact E'].
      - inversion E'; subst. exact HP.
      - destruct tee.
        + eapply Out_trans; [exact HP|]. eapply IH; [apply (Out_QI _ _ HP)|exact E'].
        + inversion E'; subst. exact HP. }
    destruct tee as [[|[|] l]|]; try (eapply Hgen; exact E).
    destruct sched as [|r rest0]; [discriminate|].
    pose proof (Out_poll_tee_fails s r HQ) as HF.
    eapply Out_trans; [exact HF|]. eapply IH; [apply (Out_QI _ _ HF)|exact E].
  Qed.

  (* every returning path of dispose, for EVERY behaviour of the tee (no tee, a healthy one, one
     that fails in any of the polls): signal handler closed, saved settings kept, the tty's
     settings equal to the saved ones unless the tty is gone, the closing sequence queued behind
     the slice in flight, and what was sent is a prefix of (slice in flight ++ closing) *)
  Theorem dispose_t_restores : forall fuel tee (s : pstate) sched s',
    QI s -> (N.of_nat (total_len (chunks (tq (io s))) + length closing) <= usize_max)%N ->
    dispose_t fuel tee s sched = Some s' ->
    saved s' = saved s
    /\ sig_closed s' = true
    /\ (hup s' = false -> cur s' = saved s)
    /\ stream s' = tty (io s) ++ front_slice (tq (io s)) ++ closing.
  Proof.
    intros fuel tee s sched s' [HI HB] HB2 E. unfold dispose_t in E.
    destruct (drop_ok (tq (io s)) HI) as (q1 & Ed & HI1 & Hf & Htl & _ & Hc & _).
    rewrite Ed in E.
    set (s1 := upd_io s (mkT (write q1 closing) (tty (io s)) (sent (io s)))) in E.
    assert (Ht1 : total_len (chunks q1) <= total_len (chunks (tq (io s)))).
    { rewrite Hc. unfold total_len. destruct (chunks (tq (io s))) as [|c r]; cbn; [lia|].
      rewrite !app_length. cbn. lia. }
    assert (HQ1 : QI s1).
    { unfold QI, s1. cbn. split; [now apply Inv_write|].
      unfold write, total_len in *. cbn. rewrite push_last_concat, app_length. lia. }
    assert (Hs1 : stream s1 = tty (io s) ++ front_slice (tq (io s)) ++ closing).
    { unfold stream, s1. cbn. rewrite pending_write by apply HI1.
      rewrite pending_split, Hf, Htl. cbn. now rewrite app_nil_r. }
    match type of E with context [dispose_loop_t fuel tee ?sc sched] => set (s1c := sc) in E end.
    assert (HQc : QI s1c) by exact HQ1.
    assert (Hsc : stream s1c = stream s1) by reflexivity.
    destruct (dispose_loop_t fuel tee s1c sched) as [[s2 rest]|] eqn:El; [|discriminate].
    destruct (Out_dispose_loop_t fuel tee s1c sched s2 rest HQc El) as (Hsv & Hcu & Hcl & Hst & _).
    assert (Hst2 : stream s2 = tty (io s) ++ front_slice (tq (io s)) ++ closing)
      by (rewrite Hst, Hsc; exact Hs1).
    assert (Hclosed : sig_closed s2 = true) by (rewrite Hcl; reflexivity).
    assert (Hsaved : saved s2 = saved s) by (rewrite Hsv; reflexivity).
    destruct (hup s2) eqn:Eh; inversion E as [E']; clear E; subst s'; cbn.
    - split; [exact Hsaved|]. split; [exact Hclosed|]. split; [congruence|]. exact Hst2.
    - split; [exact Hsaved|]. split; [exact Hclosed|]. split; [intros _; exact Hsaved|]. exact Hst2.
  Qed.
End Tee.
