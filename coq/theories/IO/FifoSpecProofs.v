(* The specification side accepts the model: for every history (fewer than 2^64 bytes written),
   the byte-FIFO-with-flush-marks checker IO/FifoSpec.v accepts exactly what the queue model
   IO/IOQueue.v lets a caller observe, overflow panics of raw consume amounts included.  So the
   `holds` component of the queue correspondence is implied by `agree`: a case can only be
   reported with a failing property predicate when the implementation departs from the model,
   and the specification is never stricter than the (proved) model. *)
From Coq Require Import List NArith Arith Bool Lia.
From Coq Require Import ZifyBool ZifyNat ZifyN.
From SNT Require Import Base.Outcome Base.Report IO.IOQueue IO.IOQueueProofs IO.FifoSpec.
Import ListNotations.

Arguments N.add : simpl never.
Arguments N.min : simpl never.
Arguments N.of_nat : simpl never.
Arguments N.to_nat : simpl never.
Arguments N.ltb : simpl never.
Arguments N.eqb : simpl never.

(* ------------------------------------------------------------------ lists of marks *)
Fixpoint incr (lo : nat) (ms : list nat) : Prop :=
  match ms with [] => True | m :: r => lo < m /\ incr m r end.

Lemma incr_weaken : forall ms lo lo', lo' <= lo -> incr lo ms -> incr lo' ms.
Proof. destruct ms; cbn; auto. intros lo lo' H [H1 H2]. split; auto. lia. Qed.

Lemma incr_lower : forall ms lo x, incr lo ms -> In x ms -> lo < x.
Proof.
  induction ms as [|m r IH]; intros lo x H Hin; [contradiction|]. destruct H as [H1 H2].
  destruct Hin as [->|Hin]; auto. specialize (IH m x H2 Hin). lia.
Qed.

Lemma incr_hd : forall ms lo d x, incr lo ms -> In x ms -> hd d ms <= x.
Proof.
  destruct ms as [|m r]; intros lo d x H Hin; [contradiction|]. cbn. destruct H as [H1 H2].
  destruct Hin as [->|Hin]; auto. pose proof (incr_lower r m x H2 Hin). lia.
Qed.

Lemma incr_snoc : forall ms lo n, incr lo ms -> lo < n -> (forall m, In m ms -> m < n) -> incr lo (ms ++ [n]).
Proof.
  induction ms as [|m r IH]; intros lo n H Hlo Hall; cbn; auto.
  destruct H as [H1 H2]. split; auto. apply IH; auto.
  - apply Hall. now left.
  - intros x Hx. apply Hall. now right.
Qed.

Lemma last_in : forall (ms : list nat) d, ms <> [] -> In (last ms d) ms.
Proof.
  induction ms as [|m [|m2 r] IH]; intros d H; [congruence|now left|]. right. apply IH. discriminate.
Qed.

Lemma incr_le_last : forall ms lo x d, incr lo ms -> In x ms -> x <= last ms d.
Proof.
  induction ms as [|m [|m2 r] IH]; intros lo x d H Hin; [contradiction| |].
  - destruct Hin as [->|[]]. reflexivity.
  - destruct H as [H1 H2]. destruct Hin as [->|Hin].
    + change (last (x :: m2 :: r) d) with (last (m2 :: r) d).
      pose proof (IH x m2 d H2 (or_introl eq_refl)). destruct H2. lia.
    + change (last (m :: m2 :: r) d) with (last (m2 :: r) d). eapply IH; eauto.
Qed.

Lemma incr_filter : forall (p : nat -> bool) ms lo, incr lo ms -> incr lo (filter p ms).
Proof.
  induction ms as [|m r IH]; intros lo H; cbn; auto. destruct H as [H1 H2].
  destruct (p m); cbn.
  - split; auto.
  - apply incr_weaken with (lo := m); [lia|auto].
Qed.

Lemma incr_shift : forall d ms lo, incr lo ms -> d <= lo -> incr (lo - d) (map (fun m => m - d) ms).
Proof.
  induction ms as [|m r IH]; intros lo H Hd; cbn; auto. destruct H as [H1 H2].
  split; [lia|]. apply IH; auto. lia.
Qed.

Lemma incr_filter_gt : forall d ms lo, incr lo ms ->
  incr (Nat.max lo d) (filter (fun m => d <? m) ms).
Proof.
  induction ms as [|m r IH]; intros lo H; cbn [filter incr]; auto. destruct H as [H1 H2].
  destruct (d <? m) eqn:E; cbn [incr].
  - split; [lia|]. apply incr_weaken with (lo := Nat.max m d); [lia|]. now apply IH.
  - replace (Nat.max lo d) with (Nat.max m d) by lia. now apply IH.
Qed.

Lemma shift_marks_incr : forall d ms, incr 0 ms -> incr 0 (shift_marks d ms).
Proof.
  intros d ms H. unfold shift_marks. apply (incr_filter_gt d) in H. cbn [Nat.max] in H.
  apply (incr_shift d) in H; [|lia]. now rewrite Nat.sub_diag in H.
Qed.

Lemma shift_marks_in : forall d ms x, In x ms -> d < x -> In (x - d) (shift_marks d ms).
Proof.
  intros d ms x Hin Hd. unfold shift_marks. apply in_map_iff. exists x. split; auto.
  apply filter_In. split; auto. now apply Nat.ltb_lt.
Qed.

Lemma shift_marks_bound : forall d ms n, Forall (fun m => m <= n) ms ->
  Forall (fun m => m <= n - d) (shift_marks d ms).
Proof.
  intros d ms n H. unfold shift_marks. apply Forall_forall. intros y Hy.
  apply in_map_iff in Hy. destruct Hy as (x & <- & Hx). apply filter_In in Hx. destruct Hx as [Hx _].
  rewrite Forall_forall in H. specialize (H x Hx). lia.
Qed.

(* ------------------------------------------------------------------ prefix sums of chunk sizes *)
Fixpoint psums (acc : nat) (ls : list nat) : list nat :=
  match ls with [] => [] | x :: r => (acc + x) :: psums (acc + x) r end.

Lemma psums_shift : forall ls a d, psums (a + d) ls = map (fun e => e + d) (psums a ls).
Proof.
  induction ls as [|x r IH]; intros a d; cbn; auto.
  replace (a + d + x) with (a + x + d) by lia. now rewrite IH.
Qed.

Lemma psums_pos : forall ls a e, Forall (fun x => 0 < x) ls -> In e (psums a ls) -> a < e.
Proof.
  induction ls as [|x r IH]; intros a e H Hin; [contradiction|]. inversion H; subst.
  destruct Hin as [<-|Hin]; [lia|]. specialize (IH (a + x) e H3 Hin). lia.
Qed.

Lemma psums_le : forall ls a e, In e (psums a ls) -> e <= a + list_sum ls.
Proof.
  induction ls as [|x r IH]; intros a e H; [contradiction|]. unfold list_sum in *. cbn [psums fold_right In] in *.
  destruct H as [<-|H]; [lia|]. specialize (IH (a + x) e H). lia.
Qed.

Lemma psums_app : forall l1 l2 a, psums a (l1 ++ l2) = psums a l1 ++ psums (a + list_sum l1) l2.
Proof.
  induction l1 as [|x r IH]; intros l2 a; cbn.
  - now rewrite Nat.add_0_r.
  - rewrite IH. now rewrite Nat.add_assoc.
Qed.

Lemma removelast_map : forall {X Y} (g : X -> Y) (l : list X), removelast (map g l) = map g (removelast l).
Proof.
  induction l as [|x [|y r] IH]; auto. cbn [map removelast] in *. now rewrite IH.
Qed.

Lemma list_sum_removelast : forall (l : list nat), l <> [] -> list_sum (removelast l) + last l 0 = list_sum l.
Proof.
  induction l as [|x [|y r] IH]; intro H; [congruence|cbn; lia|].
  change (removelast (x :: y :: r)) with (x :: removelast (y :: r)).
  change (last (x :: y :: r) 0) with (last (y :: r) 0).
  specialize (IH ltac:(discriminate)). unfold list_sum in *. cbn [fold_right] in *. lia.
Qed.

Section Accepts.
  Context {A : Type} (aeqb : A -> A -> bool) (aeqb_refl : forall x, aeqb x x = true).
  Notation queue := (queue A).
  Notation fifo := (fifo A).

  Lemma is_prefix_app : forall p r : list A, is_prefix aeqb p (p ++ r) = true.
  Proof. induction p as [|a p IH]; intro r; cbn; auto. now rewrite aeqb_refl. Qed.

  Lemma is_prefix_firstn : forall k (l r : list A), is_prefix aeqb (firstn k l) (l ++ r) = true.
  Proof.
    induction k as [|k IH]; intros l r; [reflexivity|]. destruct l as [|a l]; cbn; auto.
    now rewrite aeqb_refl, IH.
  Qed.

  Lemma list_eqb_refl : forall l : list A, list_eqb aeqb l l = true.
  Proof. induction l as [|a l IH]; cbn; auto. now rewrite aeqb_refl. Qed.

  (* bytes left in each chunk, front first *)
  Definition rems (q : queue) : list nat :=
    match chunks q with [] => [] | c :: r => (length c - offset q) :: map (@length A) r end.

  (* positions in `pending q` at which a chunk other than the last one ends *)
  Definition chunk_ends (q : queue) : list nat := psums 0 (removelast (rems q)).

  Record Rel (q : queue) (f : fifo) : Prop := {
    r_owed : owed f = pending q;
    r_incr : incr 0 (marks f);
    r_bound : Forall (fun m => m <= length (owed f)) (marks f);
    r_ends : incl (chunk_ends q) (marks f)
  }.

  Lemma Rel_empty : Rel qempty (fifo0 (A := A)).
  Proof. split; cbn; auto. intros x []. Qed.

  Lemma rems_sum : forall q : queue, Inv q -> list_sum (rems q) = length (pending q).
  Proof.
    intros q [_ Ho _]. destruct q as [[|c r] o l]; unfold rems, pending; cbn in *; auto.
    rewrite app_length, skipn_length. f_equal.
    clear. induction r as [|c2 r IH]; cbn; auto. rewrite app_length. lia.
  Qed.

  Lemma rems_hd : forall q : queue, Inv q -> hd 0 (rems q) = length (front_slice q).
  Proof.
    intros q [_ Ho _]. destruct q as [[|c r] o l]; unfold rems, front_slice; cbn in *; auto.
    now rewrite skipn_length.
  Qed.

  (* middle chunks are not empty: every chunk end lies strictly inside the pending bytes *)
  Lemma rems_mid_pos : forall q : queue, Inv q -> Forall (fun x => 0 < x) (removelast (rems q)).
  Proof.
    intros q [_ Ho Hm]. destruct q as [[|c [|c2 r]] o l]; unfold rems; cbn [chunks offset map].
    - constructor.
    - constructor.
    - unfold mid_ok, front_len in *. cbn [chunks offset] in *.
      rewrite removelast_cons2 in Hm. inversion Hm as [|? ? Hc Hr]; subst.
      change (removelast ((length c - o) :: length c2 :: map (@length A) r))
        with ((length c - o) :: removelast (map (@length A) (c2 :: r))).
      apply Forall_cons.
      + destruct c; [congruence|]. cbn [length] in *. lia.
      + rewrite removelast_map. apply Forall_forall. intros x Hx. apply in_map_iff in Hx.
        destruct Hx as (y & <- & Hy). rewrite Forall_forall in Hr. specialize (Hr y Hy).
        destruct y; [congruence|cbn; lia].
  Qed.

  Lemma chunk_ends_bound : forall q : queue, Inv q -> forall e, In e (chunk_ends q) -> 0 < e <= length (pending q).
  Proof.
    intros q HI e He. unfold chunk_ends in He. split.
    - apply (psums_pos _ 0 e (rems_mid_pos q HI) He).
    - rewrite <- (rems_sum q HI).
      destruct (rems q) as [|x r] eqn:E; [contradiction|].
      rewrite <- (list_sum_removelast (x :: r)) by discriminate.
      apply psums_le in He. lia.
  Qed.

  (* ---------------- write *)
  Lemma rems_write : forall (q : queue) b, removelast (rems (write q b)) = removelast (rems q).
  Proof.
    intros [[|c [|c2 r]] o l] b; unfold rems, write; cbn [chunks offset push_last map]; auto.
    change (match r with [] => [c2 ++ b] | _ :: _ => c2 :: push_last r b end) with (push_last (c2 :: r) b).
    assert (H : forall t : list (list A), t <> [] ->
              removelast (map (@length A) (push_last t b)) = removelast (map (@length A) t)).
    { intros t Ht. now rewrite !removelast_map, removelast_push_last. }
    specialize (H (c2 :: r) ltac:(discriminate)).
    destruct (map (@length A) (push_last (c2 :: r) b)) as [|y l1] eqn:E1.
    { destruct (push_last (c2 :: r) b) eqn:E2; [now apply push_last_nonnil in E2|discriminate]. }
    change (removelast ((length c - o) :: y :: l1)) with ((length c - o) :: removelast (y :: l1)).
    rewrite H. reflexivity.
  Qed.

  Lemma Rel_write : forall (q : queue) f b, Inv q -> Rel q f -> Rel (write q b) (f_write f b).
  Proof.
    intros q f b HI [Ho Hi Hb He]. split; cbn [f_write owed marks].
    - rewrite Ho. symmetry. apply pending_write. apply HI.
    - exact Hi.
    - rewrite app_length. eapply Forall_impl; [|exact Hb]. cbn. intros; lia.
    - unfold chunk_ends. rewrite rems_write. exact He.
  Qed.

  (* ---------------- flush *)
  Lemma last_map_length : forall t : list (list A), last (map (@length A) t) 0 = length (last t []).
  Proof. induction t as [|c [|c2 r] IH]; auto. Qed.

  Lemma Rel_flush : forall (q : queue) f, Inv q -> Rel q f -> Rel (flush q) (f_flush f).
  Proof.
    intros q f HI HR. pose proof HR as [Ho Hi Hb He].
    assert (Hends : forall e, In e (chunk_ends (flush q)) -> In e (chunk_ends q) \/ (e = length (owed f) /\ 0 < e)).
    { intros e Hin. destruct (flush_cases q) as [[Hn E]|[_ E]]; rewrite E in Hin; [|now left].
      unfold chunk_ends, rems in Hin. cbn [chunks offset] in Hin.
      destruct (chunks q) as [|c r] eqn:Ec; [discriminate|].
      cbn [app map] in Hin. rewrite map_app in Hin. cbn [map] in Hin.
      change ((length c - offset q) :: map (@length A) r ++ [length (@nil A)])
        with (((length c - offset q) :: map (@length A) r) ++ [0]) in Hin.
      rewrite removelast_last in Hin.
      fold (rems q) in Hin. assert (Er : rems q = (length c - offset q) :: map (@length A) r)
        by (unfold rems; now rewrite Ec).
      rewrite <- Er in Hin.
      rewrite (app_removelast_last 0 (l := rems q)) in Hin by (rewrite Er; discriminate).
      rewrite psums_app in Hin. apply in_app_or in Hin. destruct Hin as [Hin|Hin]; [now left|].
      right. cbn in Hin. destruct Hin as [<-|[]].
      rewrite list_sum_removelast by (rewrite Er; discriminate).
      rewrite (rems_sum q HI), Ho. split; auto.
      (* the back chunk is not empty, so something is pending *)
      rewrite <- (rems_sum q HI), <- (list_sum_removelast (rems q)) by (rewrite Er; discriminate).
      assert (0 < last (rems q) 0); [|lia].
      rewrite Er. unfold last_nonempty in Hn. rewrite ?Ec in Hn.
      destruct r as [|c2 r'].
      - cbn in Hn. cbn [map last]. destruct c as [|a c]; [discriminate|].
        pose proof (inv_off q HI) as H. unfold front_len in H. rewrite Ec in H. cbn [length] in *. lia.
      - change (last ((length c - offset q) :: map (@length A) (c2 :: r')) 0)
          with (last (map (@length A) (c2 :: r')) 0).
        change (last (c :: c2 :: r') []) with (last (c2 :: r') []) in Hn.
        rewrite last_map_length. destruct (last (c2 :: r') []); [discriminate|cbn; lia]. }
    unfold f_flush.
    destruct (length (owed f) =? 0) eqn:E0; cbn [orb].
    - (* nothing owed: no chunk end can appear *)
      split; auto; [rewrite Ho; symmetry; apply pending_flush|].
      intros e Hin. destruct (Hends e Hin) as [H|[H1 H2]]; auto. lia.
    - destruct (last (marks f) 0 =? length (owed f)) eqn:E1.
      + apply Nat.eqb_eq in E1.
        split; auto; [rewrite Ho; symmetry; apply pending_flush|].
        intros e Hin. destruct (Hends e Hin) as [H|[H1 H2]]; auto. subst e.
        assert (Hm : marks f <> []) by (intro Hm; rewrite Hm in E1; cbn in E1; lia).
        rewrite <- E1. now apply last_in.
      + apply Nat.eqb_neq in E1. apply Nat.eqb_neq in E0.
        split; cbn [owed marks].
        * rewrite Ho. symmetry. apply pending_flush.
        * apply incr_snoc; auto; [lia|]. intros m Hm.
          rewrite Forall_forall in Hb. pose proof (Hb m Hm).
          pose proof (incr_le_last (marks f) 0 m 0 Hi Hm).
          assert (Hne : marks f <> []) by (intro Hx; rewrite Hx in Hm; contradiction).
          pose proof (Hb _ (last_in (marks f) 0 Hne)). lia.
        * apply Forall_app. split; auto.
        * intros e Hin. apply in_or_app. destruct (Hends e Hin) as [H|[H1 H2]]; [left; auto|right; now left].
  Qed.

  (* ---------------- handing bytes out *)
  Lemma Rel_take : forall (q q' : queue) f d,
    Inv q' -> Rel q f ->
    pending q' = skipn d (pending q) ->
    (forall e', In e' (chunk_ends q') -> In (e' + d) (chunk_ends q)) ->
    Rel q' (f_take f d).
  Proof.
    intros q q' f d HI' [Ho Hi Hb He] Hp Hsh. destruct d as [|d].
    - cbn [f_take]. split; auto.
      + now rewrite Ho, Hp.
      + intros e Hin. apply He. specialize (Hsh e Hin). now rewrite Nat.add_0_r in Hsh.
    - cbn [f_take]. split; cbn [owed marks].
      + now rewrite Ho, Hp.
      + now apply shift_marks_incr.
      + rewrite skipn_length. now apply shift_marks_bound.
      + intros e Hin. pose proof (chunk_ends_bound q' HI' e Hin) as [Hpos _].
        replace e with ((e + S d) - S d) by lia. apply shift_marks_in; [|lia]. apply He. now apply Hsh.
  Qed.

  Lemma chunk_ends_adv : forall (q : queue) a, a < length (front_slice q) -> Inv q ->
    forall e', In e' (chunk_ends (q_adv q a)) -> In (e' + a) (chunk_ends q).
  Proof.
    intros q a Ha HI e' Hin. pose proof (front_slice_length q (inv_off q HI)) as Hfs.
    destruct q as [[|c [|c2 r]] o l]; unfold chunk_ends, rems, q_adv, front_len in *; cbn [chunks offset map] in *;
      try contradiction.
    change (removelast ((length c - (o + a)) :: length c2 :: map (@length A) r))
      with ((length c - (o + a)) :: removelast (length c2 :: map (@length A) r)) in Hin.
    change (removelast ((length c - o) :: length c2 :: map (@length A) r))
      with ((length c - o) :: removelast (length c2 :: map (@length A) r)).
    cbn [psums] in *. rewrite Nat.add_0_l in *.
    replace (length c - o) with ((length c - (o + a)) + a) by lia.
    destruct Hin as [<-|Hin]; [now left|right].
    rewrite psums_shift. apply in_map_iff. exists e'. auto.
  Qed.

  Lemma chunk_ends_pop : forall (q : queue), Inv q ->
    forall e', In e' (chunk_ends (q_pop q)) -> In (e' + length (front_slice q)) (chunk_ends q).
  Proof.
    intros q HI e' Hin. pose proof (front_slice_length q (inv_off q HI)) as Hfs.
    destruct q as [[|c [|c2 r]] o l]; unfold chunk_ends, rems, q_pop, front_len in *; cbn [chunks offset map tl] in *;
      try contradiction.
    rewrite Nat.sub_0_r in Hin.
    change (removelast ((length c - o) :: length c2 :: map (@length A) r))
      with ((length c - o) :: removelast (length c2 :: map (@length A) r)).
    cbn [psums]. rewrite Nat.add_0_l. right. rewrite Hfs.
    pose proof (psums_shift (removelast (length c2 :: map (@length A) r)) 0 (length c - o)) as Hs.
    cbn [Nat.add] in Hs. rewrite Hs. apply in_map_iff. exists e'. auto.
  Qed.

  Lemma Rel_take_rel : forall (q q' : queue) f amt, Inv q -> Rel q f -> take_rel q amt q' ->
    Inv q' /\ Rel q' (f_take f (N.to_nat (N.min amt (N.of_nat (length (front_slice q)))))).
  Proof.
    intros q q' f amt HI HR Ht.
    destruct (take_sound q amt q' HI Ht) as (HI' & _ & _ & Hp). split; auto.
    assert (Hd : length (taken (front_slice q) amt) = N.to_nat (N.min amt (N.of_nat (length (front_slice q))))).
    { unfold taken. rewrite firstn_length. lia. }
    apply (Rel_take q q'); auto.
    - rewrite Hp at 1. rewrite <- Hd. rewrite skipn_app, skipn_all, Nat.sub_diag. reflexivity.
    - destruct Ht as [[Hlt ->]|[Hge ->]].
      + replace (N.to_nat (N.min amt _)) with (N.to_nat amt) by lia.
        apply chunk_ends_adv; auto. lia.
      + replace (N.to_nat (N.min amt _)) with (length (front_slice q)) by lia.
        now apply chunk_ends_pop.
  Qed.

  (* ---------------- drop *)
  Lemma Rel_drop : forall (q q' : queue) f, Inv q -> Rel q f -> clear_but_last q = Ok q' ->
    Inv q' /\ f_drop_ok f (len q') = true /\ Rel q' (f_drop f (len q')).
  Proof.
    intros q q' f HI HR E. pose proof HR as [Ho Hi Hb He].
    destruct (drop_ok q HI) as (q1 & E1 & HI' & Hf & Ht & _ & Hc & Hoff & Hq).
    rewrite E in E1. inversion E1; subst q1. clear E1. split; auto.
    unfold len. rewrite Hq.
    assert (Hp' : pending q' = front_slice q).
    { rewrite pending_split, Hf, Ht. cbn. apply app_nil_r. }
    assert (Hn : length (owed f) = length (front_slice q) + length (concat (tl (chunks q)))).
    { rewrite Ho, pending_split, app_length. reflexivity. }
    assert (Hcut : length (front_slice q) = length (owed f)
                   \/ In (length (front_slice q)) (chunk_ends q)).
    { destruct (tl (chunks q)) as [|c2 r] eqn:Et; [left; rewrite Hn; cbn; lia|right].
      unfold chunk_ends, rems. destruct (chunks q) as [|c r0] eqn:Ec; [discriminate|]. cbn [tl] in Et. subst r0.
      cbn [map]. change (removelast ((length c - offset q) :: length c2 :: map (@length A) r))
        with ((length c - offset q) :: removelast (length c2 :: map (@length A) r)).
      cbn [psums]. left. rewrite (front_slice_length q (inv_off q HI)). unfold front_len. rewrite Ec. lia. }
    split.
    - unfold f_drop_ok. apply andb_true_iff. split; [apply andb_true_iff; split|].
      + apply Nat.leb_le. lia.
      + destruct Hcut as [H|H].
        * rewrite (proj2 (Nat.eqb_eq _ _) H). reflexivity.
        * apply orb_true_iff. right. apply existsb_exists. exists (length (front_slice q)).
          split; [apply He, H|apply Nat.eqb_refl].
      + destruct (started f); auto. apply Nat.leb_le.
        destruct Hcut as [H|H].
        * rewrite H. destruct (marks f) as [|m r] eqn:Em; cbn; [lia|].
          rewrite Forall_forall in Hb. apply Hb. now left.
        * eapply incr_hd; [exact Hi|apply He, H].
    - split; cbn [f_drop owed marks].
      + rewrite Ho, pending_split, firstn_app, firstn_all, Nat.sub_diag, Hp'. cbn. apply app_nil_r.
      + now apply incr_filter.
      + apply Forall_forall. intros m Hm. apply filter_In in Hm. destruct Hm as [_ Hm].
        apply Nat.leb_le in Hm. rewrite firstn_length. lia.
      + unfold chunk_ends, rems. rewrite Hc. destruct (chunks q) as [|c r]; cbn; intros x [].
  Qed.

  (* ---------------- the common part of every observation *)
  Lemma common_ok : forall (q : queue) f, Inv q -> Rel q f ->
    f_common aeqb f (len q) (is_empty q) (front_slice q) = true.
  Proof.
    intros q f HI [Ho _ _ _]. unfold f_common. rewrite Ho.
    apply andb_true_iff. split; [apply andb_true_iff; split|].
    - apply Nat.eqb_eq. apply HI.
    - rewrite pending_split. apply is_prefix_app.
    - unfold is_empty, pending. destruct (chunks q); auto.
  Qed.

  (* ---------------- one call *)
  Definition obs_of_state (r : ret A) (q : queue) : obs A :=
    Obs r (len q) (chunks_count q) (is_empty q) (front_slice q).

  Lemma fin_ok : forall (q : queue) f, Inv q -> Rel q f ->
    (if f_common aeqb f (len q) (is_empty q) (front_slice q) then Some f else None) = Some f.
  Proof. intros. now rewrite common_ok. Qed.

  Lemma step_accepted : forall (q : queue) f o B,
    Inv q -> total_len (chunks q) <= B -> (N.of_nat B <= usize_max)%N -> Rel q f ->
    match step q o with
    | Ok (q', r, _, _) =>
        Inv q' /\ exists f', f_step aeqb f (front_slice q) o (obs_of_state r q') = Some f' /\ Rel q' f'
    | Panic _ => f_step aeqb f (front_slice q) o ObsPanic = Some f
    | _ => False
    end.
  Proof.
    intros q f o B HI Htot HB HR.
    pose proof (offset_le_total q (inv_off q HI)) as Hot.
    destruct o as [b| |n|amt|k clamp| | |]; cbn [step].
    - (* write *)
      split; [now apply Inv_write|]. exists (f_write f b). split; [|now apply Rel_write].
      unfold obs_of_state. cbn [f_step]. rewrite N.eqb_refl. apply fin_ok; [now apply Inv_write|now apply Rel_write].
    - split; [now apply Inv_flush|]. exists (f_flush f). split; [|now apply Rel_flush].
      unfold obs_of_state. cbn [f_step]. apply fin_ok; [now apply Inv_flush|now apply Rel_flush].
    - (* read *)
      destruct (read_ok q n B HI Htot HB) as (q' & E & Ht & Hr). rewrite E. cbn [bind].
      destruct (Rel_take_rel q q' f _ HI HR Ht) as [HI' HR'].
      split; auto. eexists. split; [|exact HR'].
      set (out := firstn (Nat.min n (length (front_slice q))) (front_slice q)) in *.
      assert (Hlen : length out = Nat.min n (length (front_slice q))) by (unfold out; rewrite firstn_length; lia).
      unfold obs_of_state. cbn [f_step].
      assert (Hpre : is_prefix aeqb out (owed f) = true).
      { rewrite (r_owed q f HR), pending_split. unfold out. apply is_prefix_firstn. }
      rewrite Hpre. replace (length out <=? n) with true by (symmetry; apply Nat.leb_le; lia). cbn [andb].
      assert (Hprog : match out, n, owed f with [], S _, _ :: _ => false | _, _, _ => true end = true).
      { destruct out as [|a out'] eqn:Eo; auto. destruct n as [|n']; auto.
        destruct (owed f) eqn:Eow; auto. exfalso.
        assert (Hf : front_slice q = []) by (destruct (front_slice q); [auto|cbn in Hlen; lia]).
        destruct (front_empty_pending q HI Hf) as [Hp _]. rewrite (r_owed q f HR), Hp in Eow. discriminate. }
      rewrite Hprog.
      replace (length out) with (N.to_nat (N.min (N.of_nat (Nat.min n (length (front_slice q))))
                                                   (N.of_nat (length (front_slice q))))) by lia.
      apply fin_ok; auto.
    - (* consume *)
      rewrite (as_slice_ok q (inv_off q HI)). cbn [bind].
      destruct (consume_take' q amt HI) as [[E Hov]|(q' & E & Ht)]; rewrite E; cbn [bind].
      + cbn [f_step]. replace (N.of_nat (length (front_slice q)) <? amt)%N with true; auto.
        symmetry. apply N.ltb_lt. lia.
      + destruct (Rel_take_rel q q' f _ HI HR Ht) as [HI' HR'].
        split; auto. eexists. split; [|exact HR']. unfold obs_of_state. cbn [f_step].
        apply fin_ok; auto.
    - (* consume_with *)
      rewrite (as_slice_ok q (inv_off q HI)). cbn [bind]. unfold consume_with.
      rewrite (as_slice_ok q (inv_off q HI)). cbn [bind].
      destruct (consume_take' q (consumer k clamp (front_slice q)) HI) as [[E Hov]|(q' & E & Ht)];
        rewrite E; cbn [bind].
      + cbn [f_step]. destruct clamp; [unfold consumer in Hov; lia|].
        unfold consumer in Hov. replace (N.of_nat (length (front_slice q)) <? k)%N with true; auto.
        symmetry. apply N.ltb_lt. lia.
      + destruct (Rel_take_rel q q' f _ HI HR Ht) as [HI' HR'].
        split; auto. eexists. split; [|exact HR']. unfold obs_of_state. cbn [f_step].
        rewrite N.eqb_refl. apply fin_ok; auto.
    - (* failing consumer *)
      unfold consume_with_err. rewrite (as_slice_ok q (inv_off q HI)). cbn [bind].
      split; auto. exists f. split; auto. unfold obs_of_state. cbn [f_step]. apply fin_ok; auto.
    - (* drop *)
      destruct (drop_ok q HI) as (q' & E & _). rewrite E. cbn [bind].
      destruct (Rel_drop q q' f HI HR E) as (HI' & Hok & HR').
      split; auto. eexists. split; [|exact HR']. unfold obs_of_state. cbn [f_step].
      rewrite Hok. apply fin_ok; auto.
    - (* read_to_end *)
      destruct (read_to_end_ok q B HI Htot HB) as (q' & E & Hts & Hp' & Hc'). rewrite E. cbn [bind].
      destruct (takes_sound q _ q' Hts HI) as (HI' & _).
      assert (HR' : Rel q' (f_take f (length (pending q)))).
      { apply (Rel_take q q'); auto.
        - rewrite Hp', skipn_all. reflexivity.
        - unfold chunk_ends, rems. rewrite Hc'. intros e []. }
      split; auto. eexists. split; [|exact HR']. unfold obs_of_state. cbn [f_step].
      rewrite (r_owed q f HR), list_eqb_refl. apply fin_ok; auto.
  Qed.

  (* ---------------- histories *)
  Lemma run_accepted : forall ops (q : queue) f B,
    Inv q -> total_len (chunks q) + length (written ops) <= B -> (N.of_nat B <= usize_max)%N ->
    Rel q f -> f_run aeqb f (front_slice q) ops (trace q ops) = true.
  Proof.
    induction ops as [|o ops IH]; intros q f B HI Htot HB HR; [reflexivity|].
    rewrite written_cons, app_length in Htot.
    pose proof (step_accepted q f o B HI ltac:(lia) HB HR) as Hs.
    destruct (step_sound q o B HI ltac:(lia) HB) as [[E _]|(q1 & r & out & x & E & Hpost)].
    - cbn [trace]. rewrite E in *. cbn [f_run]. rewrite Hs. reflexivity.
    - cbn [trace]. rewrite E in *. destruct Hs as (HI1 & f' & Hf & HR').
      rewrite (as_slice_ok q1 (inv_off q1 HI1)). cbn [f_run].
      unfold obs_of_state in Hf. unfold len in *. rewrite Hf. cbn [obs_slice].
      destruct Hpost as (_ & Htot1 & _).
      apply (IH q1 f' B); auto. lia.
  Qed.

  (* The specification accepts every history of the model. *)
  Theorem spec_accepts_model : forall ops : list (op A),
    (N.of_nat (length (written ops)) <= usize_max)%N ->
    gfifo_check aeqb ops (trace qempty ops) = true.
  Proof.
    intros ops HB. unfold gfifo_check.
    apply (run_accepted ops qempty fifo0 (length (written ops))); auto.
    - apply Inv_empty.
    - apply Rel_empty.
  Qed.
End Accepts.

Corollary fifo_check_accepts_model : forall ops : list (op N),
  (N.of_nat (length (written ops)) <= usize_max)%N ->
  fifo_check ops (trace qempty ops) = true.
Proof. intros ops HB. apply spec_accepts_model; auto. apply N.eqb_refl. Qed.
