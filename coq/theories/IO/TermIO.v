(* Model of the output path of the terminal object (src/unix.rs):

     write / execute      append to `write_queue` (IOQueue)           unix.rs:380-388, 511-522
     flush                write_queue.flush()
     poll                 write_queue.flush(); then rounds of the select loop; in a round in
                          which select reports the tty writable (it is only asked to when the
                          queue is not empty) `consume_with(|slice| tty.write(slice))` moves
                          the bytes the kernel accepted from the front slice to the tty
                                                                      unix.rs:392-445
     frames_drop          write_queue.clear_but_last()                unix.rs:559-561
     frames_pending       write_queue.chunks_count()                  unix.rs:555-557

   The kernel is an oracle: a poll call is given an arbitrary finite schedule of rounds.  In
   each round the tty accepts k <= |front slice| bytes (a short write; k = 0 is EAGAIN/EINTR,
   which guard_io turns into 0), or is not reported writable at all, or the loop itself queues
   further output (the window-size query on SIGWINCH, replies of the image handler).  The
   schedule ends whenever poll returns (event available, timeout, error).  The theorems
   quantify over all programs and all schedules. *)
From Coq Require Import List NArith Arith Bool.
From SNT Require Import Base.Outcome IO.IOQueue.
Import ListNotations.

Section TermIO.
  Context {A : Type}.

  Record term := mkT {
    tq : queue A;         (* write_queue *)
    tty : list A;         (* every byte the tty has accepted, in order *)
    sent : nat            (* stats.send *)
  }.

  Definition term0 : term := mkT qempty [] 0.

  Inductive round :=
  | KAccept (k : N)           (* tty writable; write() accepts min(k, |slice|) bytes *)
  | KIdle                     (* select returned for another reason *)
  | KInternal (b : list A).   (* the loop queues output itself *)

  Inductive top :=
  | TWrite (b : list A)
  | TExecute (bs : list (list A))     (* the encoder's write calls for one command *)
  | TFlush
  | TPoll (sched : list round)
  | TDrop.

  Definition poll_round (t : term) (r : round) : outcome term :=
    match r with
    | KIdle => Ok t
    | KInternal b => Ok (mkT (write (tq t) b) (tty t) (sent t))
    | KAccept k =>
        if is_empty (tq t) then Ok t        (* not registered for writability *)
        else
          let* s := as_slice (tq t) in
          let* (q', size) := consume_with (tq t) (consumer k true) in
          Ok (mkT q' (tty t ++ firstn (N.to_nat size) s) (sent t + N.to_nat size))
    end.

  Fixpoint poll_rounds (t : term) (sched : list round) : outcome term :=
    match sched with
    | [] => Ok t
    | r :: rest => let* t' := poll_round t r in poll_rounds t' rest
    end.

  Definition tstep (t : term) (o : top) : outcome (term * list (list A)) :=
    match o with
    | TWrite b => Ok (mkT (write (tq t) b) (tty t) (sent t), [])
    | TExecute bs => Ok (mkT (fold_left write bs (tq t)) (tty t) (sent t), [])
    | TFlush => Ok (mkT (flush (tq t)) (tty t) (sent t), [])
    | TPoll sched =>
        let* t' := poll_rounds (mkT (flush (tq t)) (tty t) (sent t)) sched in Ok (t', [])
    | TDrop =>
        let* q' := clear_but_last (tq t) in
        Ok (mkT q' (tty t) (sent t), dropped_chunks (tq t))
    end.

  Fixpoint trun (t : term) (prog : list top) (X : list (list A))
    : outcome (term * list (list A)) :=
    match prog with
    | [] => Ok (t, X)
    | o :: rest => let* (t', x) := tstep t o in trun t' rest (X ++ x)
    end.

  Definition frames_pending (t : term) : nat := chunks_count (tq t).

  (* everything the program handed to the terminal object, in program order (including what
     the poll loop queued itself) *)
  Definition round_written (r : round) : list A :=
    match r with KInternal b => b | _ => [] end.

  Definition top_written (o : top) : list A :=
    match o with
    | TWrite b => b
    | TExecute bs => concat bs
    | TPoll sched => concat (map round_written sched)
    | _ => []
    end.

  Definition twritten (prog : list top) : list A := concat (map top_written prog).

  (* the same program as a history of calls on the queue *)
  Definition compile_round (r : round) : list (op A) :=
    match r with
    | KAccept k => [OConsumeWith k true]
    | KIdle => []
    | KInternal b => [OWrite b]
    end.

  Definition compile_top (o : top) : list (op A) :=
    match o with
    | TWrite b => [OWrite b]
    | TExecute bs => map OWrite bs
    | TFlush => [OFlush]
    | TPoll sched => OFlush :: concat (map compile_round sched)
    | TDrop => [ODrop]
    end.

  Definition compile (prog : list top) : list (op A) := concat (map compile_top prog).
End TermIO.

Arguments term : clear implicits.
Arguments round : clear implicits.
Arguments top : clear implicits.
