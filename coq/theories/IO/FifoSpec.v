(* Specification side of C16 for the queue alone: a byte FIFO with flush marks.

   It is written from the property text, not from the code: it knows nothing
   of chunks, offsets or a running length.  The state is the flat list of
   bytes still owed to the reader, the positions in it at which a flush
   closed a frame, and whether a byte of the head frame has already been
   handed out.  `fifo_check` replays a history against the observations an
   implementation made after each call and answers whether

     - every byte handed out is the next byte owed, in order (nothing lost,
       duplicated or reordered),
     - a read into a non-empty destination hands out at least one byte while
       bytes are owed,
     - the reported length equals the number of bytes owed, after every call,
     - the front slice shown to a consumer is a prefix of the bytes owed,
     - a drop discards a suffix of the bytes owed that begins at a flush mark
       (whole flush-delimited frames) and does not touch a frame that has
       started to go out,
     - read-to-end hands out everything owed.                                *)
From Coq Require Import List NArith Arith Bool.
From SNT Require Import Base.Outcome Base.Report IO.IOQueue.
Import ListNotations.

Section Fifo.
Context {A : Type} (aeqb : A -> A -> bool).

Record fifo := mkF {
  owed : list A;          (* bytes written, not handed out, not discarded *)
  marks : list nat;       (* increasing positions 0 < m <= |owed| where a flush closed a frame *)
  started : bool          (* a byte of the head frame has been handed out *)
}.

Definition fifo0 : fifo := mkF [] [] false.

Fixpoint is_prefix (p l : list A) : bool :=
  match p, l with
  | [], _ => true
  | a :: p', b :: l' => if aeqb a b then is_prefix p' l' else false
  | _ :: _, [] => false
  end.

Definition f_write (f : fifo) (b : list A) : fifo :=
  mkF (owed f ++ b) (marks f) (started f).

Definition f_flush (f : fifo) : fifo :=
  let n := length (owed f) in
  if (n =? 0) || (last (marks f) 0 =? n) then f
  else mkF (owed f) (marks f ++ [n]) (started f).

(* hand out d bytes (d <= |owed|) *)
Definition shift_marks (d : nat) (ms : list nat) : list nat :=
  map (fun m => m - d) (filter (fun m => d <? m) ms).

Definition f_take (f : fifo) (d : nat) : fifo :=
  match d with
  | O => f
  | _ =>
      mkF (skipn d (owed f)) (shift_marks d (marks f))
          (* the head frame is finished exactly when a mark is reached *)
          (negb (existsb (Nat.eqb d) (marks f)))
  end.

(* a drop that leaves `cut` bytes owed *)
Definition f_drop_ok (f : fifo) (cut : nat) : bool :=
  let n := length (owed f) in
  (cut <=? n)
  (* the cut is at the end (nothing dropped), at a flush mark, or at the very front: the property
     lets a drop discard the head frame too as long as none of its bytes has gone out, which the
     third conjunct checks *)
  && ((cut =? n) || (cut =? 0) || existsb (Nat.eqb cut) (marks f))
  && (if started f then (hd n (marks f) <=? cut) else true).

Definition f_drop (f : fifo) (cut : nat) : fifo :=
  mkF (firstn cut (owed f)) (filter (fun m => m <=? cut) (marks f)) (started f).

(* observations common to every call *)
Definition f_common (f : fifo) (len : nat) (empty : bool) (slice : list A) : bool :=
  (len =? length (owed f))
  && is_prefix slice (owed f)
  && (if empty then match owed f with [] => true | _ => false end else true).

(* one call checked against what was observed; prev = front slice before the call *)
Definition f_step (f : fifo) (prev : list A) (o : op A) (ob : obs A) : option fifo :=
  match ob with
  | ObsPanic =>
      (* only a consume beyond the slice handed to the caller may do anything it likes *)
      match o with
      | OConsume amt => if (N.of_nat (length prev) <? amt)%N then Some f else None
      | OConsumeWith k false => if (N.of_nat (length prev) <? k)%N then Some f else None
      | _ => None
      end
  | Obs r len count empty slice =>
      let fin (f' : fifo) := if f_common f' len empty slice then Some f' else None in
      match o, r with
      | OWrite b, RNum n => if (n =? N.of_nat (length b))%N then fin (f_write f b) else None
      | OFlush, RUnit => fin (f_flush f)
      | ORead n, RBytes out =>
          if is_prefix out (owed f) && (length out <=? n)
             && (match out, n, owed f with [], S _, _ :: _ => false | _, _, _ => true end)
          then fin (f_take f (length out)) else None
      | OReadToEnd, RBytes out =>
          if list_eqb aeqb out (owed f) then fin (f_take f (length out)) else None
      | OConsume amt, RUnit =>
          fin (f_take f (N.to_nat (N.min amt (N.of_nat (length prev)))))
      | OConsumeWith k clamp, RNum size =>
          if (size =? consumer k clamp prev)%N
          then fin (f_take f (N.to_nat (N.min size (N.of_nat (length prev))))) else None
      | OConsumeWithErr, RUnit => fin f
      | ODrop, RUnit => if f_drop_ok f len then fin (f_drop f len) else None
      | _, _ => None
      end
  end.

Definition obs_slice (ob : obs A) : list A :=
  match ob with Obs _ _ _ _ s => s | ObsPanic => [] end.

Fixpoint f_run (f : fifo) (prev : list A) (ops : list (op A)) (obs : list (obs A)) : bool :=
  match ops, obs with
  | [], [] => true
  | o :: ops', ob :: obs' =>
      match f_step f prev o ob with
      | None => false
      | Some f' =>
          match ob with
          | ObsPanic => match obs' with [] => true | _ => false end   (* a panic ends the history *)
          | _ => f_run f' (obs_slice ob) ops' obs'
          end
      end
  | _, _ => false
  end.

Definition gfifo_check (ops : list (op A)) (obs : list (obs A)) : bool :=
  f_run fifo0 [] ops obs.
End Fifo.

Arguments fifo : clear implicits.

Definition fifo_check (ops : list (op N)) (obs : list (obs N)) : bool :=
  gfifo_check N.eqb ops obs.
