(* dispose delivers the chunk in flight and the closing sequence when the other side keeps
   reading - in as many short writes as the kernel likes.  (IO/PollLoopProofs.v has the special
   case of a single write that takes everything.)

   The hypothesis is about a prefix of the schedule of dispose's first poll: in every iteration
   select reports the tty writable and write(2) accepts at least one byte; no hang-up, no write
   error, no EINTR, the one second timeout does not expire, and no wake request interferes (a
   queued Wake event makes the poll return early; dispose polls again, which the model counts
   against its deadline).  With |slice in flight ++ closing| + 2 such iterations the queue is
   empty: every iteration decreases |pending| + chunks (IO/TermIOLive.v). *)
From Coq Require Import List NArith Arith Bool Lia.
From Coq Require Import ZifyBool ZifyNat ZifyN.
From SNT Require Import Base.Outcome IO.IOQueue IO.IOQueueProofs IO.TermIO IO.TermIOLive IO.PollLoop
  IO.PollLoopProofs.
Import ListNotations.

Section Closing.
  Context {A T : Type}.
  Notation pstate := (pstate A T).
  Notation event := (event T).
  Notation emove := (emove T).
  Notation round_env := (round_env T).

  Definition calm (m : emove) : Prop := match m with MWake | MHup => False | _ => True end.

  Definition good (r : round_env) : Prop :=
    r_expired r = false /\ r_eintr r = false /\ r_wr_err r = false
    /\ (exists k, r_accept r = Some k /\ (0 < k)%N)
    /\ Forall calm (r_before r) /\ Forall calm (r_sig r) /\ Forall calm (r_wk r) /\ Forall calm (r_in r).

  (* no wake in the pipeline, the tty is there, the signal handler is closed *)
  Definition NW (s : pstate) : Prop :=
    pipe s = 0 /\ wake_queued s = false /\ hup s = false /\ sigpipe s = false /\ sig_closed s = true.

  Lemma NW_arrive : forall (s : pstate) m, calm m -> NW s ->
    NW (arrive s m) /\ io (arrive s m) = io s /\ (inq s <> [] -> inq (arrive s m) <> []).
  Proof.
    intros s m Hc (Hp & Hw & Hh & Hs & Hcl). destruct m as [| | |ts|]; cbn in Hc; try contradiction.
    - cbn. rewrite Hcl. repeat split; auto.
    - cbn. rewrite Hcl. repeat split; auto.
    - cbn. split; [repeat split; auto|]. split; [reflexivity|].
      intros Hne E. apply app_eq_nil in E. tauto.
  Qed.

  Lemma NW_arrive_all : forall ms (s : pstate), Forall calm ms -> NW s ->
    NW (arrive_all s ms) /\ io (arrive_all s ms) = io s /\ (inq s <> [] -> inq (arrive_all s ms) <> []).
  Proof.
    unfold arrive_all. induction ms as [|m ms IH]; intros s Hc Hn; cbn; [auto|].
    inversion Hc as [|? ? Hm Hms]; subst.
    destruct (NW_arrive s m Hm Hn) as (Hn1 & Hio1 & Hq1).
    destruct (IH (arrive s m) Hms Hn1) as (Hn2 & Hio2 & Hq2).
    split; [exact Hn2|]. split; [congruence|auto].
  Qed.

  Lemma wake_queued_inputs : forall (got : list T) (s : pstate),
    wake_queued (fold_left (fun st t => push st (EvInput t)) got s) = wake_queued s.
  Proof.
    intros got s. destruct (push_inputs got s) as (He & _). unfold wake_queued. rewrite He.
    rewrite existsb_app.
    assert (Hf : forall l : list T, existsb (fun e : event => match e with EvWake => true | _ => false end) (map EvInput l) = false)
      by (induction l; cbn; auto).
    rewrite Hf. apply orb_false_r.
  Qed.

  Lemma reads_calm : forall (s1 : pstate) r c,
    NW s1 -> Forall calm (r_sig r) -> Forall calm (r_wk r) -> Forall calm (r_in r) ->
    (c = true -> inq s1 <> []) ->
    exists s7, reads s1 r false false c = inr s7 /\ NW s7 /\ io s7 = io s1.
  Proof.
    intros s1 r c Hn Hc1 Hc2 Hc3 Hq. unfold reads.
    destruct (NW_arrive_all (r_sig r) s1 Hc1 Hn) as (Hn2 & Hio2 & Hq2).
    set (s2 := arrive_all s1 (r_sig r)) in *.
    destruct (NW_arrive_all (r_wk r) s2 Hc2 Hn2) as (Hn4 & Hio4 & Hq4).
    set (s4 := arrive_all s2 (r_wk r)) in *.
    destruct (NW_arrive_all (r_in r) s4 Hc3 Hn4) as (Hn6 & Hio6 & Hq6).
    set (s6 := arrive_all s4 (r_in r)) in *.
    destruct c.
    - assert (Hne : inq s6 <> []) by auto.
      unfold in_step. destruct (inq s6) as [|t0 more] eqn:Ei; [contradiction|].
      eexists. split; [reflexivity|].
      match goal with |- NW (fold_left _ ?got ?x) /\ _ =>
        pose proof (wake_queued_inputs got x) as Hwq;
        destruct (push_inputs got x) as (_ & Hp & _ & _ & Hsp & _ & _ & _ & _ & _ & Hio & _ & _ & Hh & Hcl) end.
      destruct Hn6 as (Hp6 & Hw6 & Hh6 & Hs6 & Hcl6).
      split; [|rewrite Hio; cbn; congruence].
      unfold NW. rewrite Hwq, Hp, Hsp, Hh, Hcl. cbn. repeat split; auto.
    - eexists. split; [reflexivity|]. split; [exact Hn6|congruence].
  Qed.

  Lemma NW_upd_io : forall (s : pstate) t, NW s -> NW (upd_io s t).
  Proof. intros s t H. exact H. Qed.

  Lemma pending_nil_drained_loop : forall sched finite first (s : pstate),
    QI s -> pending (tq (io s)) = [] ->
    Drained (snd (fst (poll_loop finite first s sched))).
  Proof.
    intros sched finite first s HQ Hp.
    eapply Out_drained; [apply Out_poll_loop; exact HQ|exact Hp].
  Qed.

  (* enough iterations in which the tty accepts something: the poll ends with nothing pending *)
  Lemma good_rounds_drain : forall goods first (s : pstate) rest,
    QI s -> NW s -> Forall good goods -> work (io s) <= length goods ->
    Drained (snd (fst (poll_loop true first s (goods ++ rest)))).
  Proof.
    induction goods as [|r goods IH]; intros first s rest HQ Hn Hg Hw.
    { apply pending_nil_drained_loop; [exact HQ|]. apply work_zero_empty. cbn in Hw. lia. }
    destruct (pending (tq (io s))) as [|a0 pend] eqn:Hp.
    { apply pending_nil_drained_loop; auto. }
    inversion Hg as [|? ? Hr Hgs]; subst.
    destruct Hr as (Hex & Hei & Hwe & (k & Hacc & Hk) & Hb & Hsg & Hwk & Hin).
    assert (Hne : queue_empty s = false).
    { unfold queue_empty, is_empty, pending in *. destruct (chunks (tq (io s))); [discriminate|reflexivity]. }
    cbn [app poll_loop]. rewrite Hne, Hex, Hei. cbn [andb negb].
    unfold round_body.
    destruct (NW_arrive_all (r_before r) s Hb Hn) as (Hn0 & Hio0 & Hq0).
    set (s0 := arrive_all s (r_before r)) in *.
    assert (Hne0 : queue_empty s0 = false) by (unfold queue_empty in *; now rewrite Hio0).
    destruct Hn0 as (Hp0 & Hw0 & Hh0 & Hs0 & Hcl0).
    rewrite Hne0, Hacc, Hh0, Hs0, Hp0. cbn [negb andb orb Nat.ltb Nat.leb].
    unfold write_step. rewrite Hwe, Hh0, Hacc. cbn [orb].
    destruct HQ as [HI HB].
    assert (HT0 : TI (io s0)) by (unfold TI; rewrite Hio0; split; auto).
    destruct (accept_progress (io s0) k HT0 Hk) as (t' & Et & HT' & _ & _ & Hless).
    rewrite Et.
    assert (Hlt : work t' < work (io s)).
    { rewrite <- Hio0. apply Hless. unfold queue_empty in Hne0. exact Hne0. }
    set (s1 := upd_io s0 t').
    assert (Hn1 : NW s1) by (unfold NW, s1; cbn; auto).
    match goal with |- context [reads s1 r false false ?c] =>
      destruct (reads_calm s1 r c Hn1 Hsg Hwk Hin) as (s7 & Er & Hn7 & Hio7) end.
    { intro Hc. unfold s1. cbn [inq upd_io]. rewrite orb_false_r in Hc.
      destruct (inq s0); [discriminate|discriminate]. }
    rewrite Er.
    destruct Hn7 as (Hp7 & Hw7 & Hrest7). rewrite Hw7. cbn [andb].
    apply IH; auto.
    - unfold QI. rewrite Hio7. unfold s1. cbn [io upd_io]. exact HT'.
    - unfold NW. auto.
    - rewrite Hio7. unfold s1. cbn [io upd_io]. cbn [length] in Hw. lia.
  Qed.

  Context (is_da : T -> bool) (closing : list A).

  Theorem dispose_delivers_under_short_writes : forall fuel (s : pstate) goods rest s',
    0 < fuel -> QI s -> (N.of_nat (total_len (chunks (tq (io s))) + length closing) <= usize_max)%N ->
    hup s = false -> pipe s = 0 -> wake_queued s = false ->
    Forall good goods ->
    length (front_slice (tq (io s)) ++ closing) + 2 <= length goods ->
    dispose is_da closing fuel s (goods ++ rest) = Some s' ->
    tty (io s') = tty (io s) ++ front_slice (tq (io s)) ++ closing.
  Proof.
    intros fuel s goods rest s' Hfuel HQ HB2 Hh Hpipe Hwq Hg Hlen E.
    destruct (dispose_restores is_da closing fuel s (goods ++ rest) s' HQ HB2 E) as (_ & _ & _ & Hst).
    assert (Hd : Drained s'); [|unfold stream, Drained in *; now rewrite Hd, app_nil_r in Hst].
    destruct HQ as [HI HB]. unfold dispose in E.
    destruct (drop_ok (tq (io s)) HI) as (q1 & Ed & HI1 & Hf & Htl & _ & Hc & _).
    rewrite Ed in E.
    match type of E with context [dispose_loop is_da fuel ?sc _] => set (s1c := sc) in E end.
    assert (Ht1 : total_len (chunks q1) <= total_len (chunks (tq (io s)))).
    { rewrite Hc. unfold total_len. destruct (chunks (tq (io s))) as [|c r0]; cbn; [lia|].
      rewrite !app_length. cbn. lia. }
    assert (HQc : QI s1c).
    { unfold QI, s1c. cbn. split; [now apply Inv_write|].
      unfold write, total_len in *. cbn. rewrite push_last_concat, app_length. lia. }
    assert (Hnc : NW s1c) by (unfold NW, s1c; cbn; auto).
    destruct (dispose_loop is_da fuel s1c (goods ++ rest)) as [[s2 rest2]|] eqn:El; [|discriminate].
    assert (Hd2 : Drained s2).
    { destruct fuel as [|fuel]; [lia|]. cbn [dispose_loop] in El.
      assert (Hfirst : Drained (snd (fst (poll true s1c (goods ++ rest))))).
      { unfold poll. apply good_rounds_drain; auto.
        - unfold QI. cbn [upd_io io tq].
          split; [apply Inv_flush, HQc|].
          destruct (flush_cases (tq (io s1c))) as [[_ ->]|[_ ->]]; [|apply HQc].
          destruct HQc as [_ Hb]. unfold total_len in *. cbn [chunks]. rewrite concat_app, app_length.
          cbn [concat app length]. rewrite Nat.add_0_r. exact Hb.
        - (* work after the drop: the slice in flight and the closing sequence in one chunk, at
             most one empty chunk more after the flush *)
          unfold work. cbn [upd_io io tq]. unfold s1c. cbn [io upd_io tq].
          assert (Hpend : pending (write q1 closing) = front_slice (tq (io s)) ++ closing).
          { rewrite pending_write by apply HI1. rewrite pending_split, Hf, Htl. cbn. now rewrite app_nil_r. }
          assert (Hcnt : chunks_count (write q1 closing) <= 1).
          { unfold write, chunks_count. cbn [chunks]. rewrite Hc.
            destruct (chunks (tq (io s))) as [|c r0]; cbn; lia. }
          destruct (flush_cases (write q1 closing)) as [[_ Ef]|[_ Ef]]; rewrite Ef.
          + unfold pending, chunks_count in *. cbn [chunks offset].
            destruct (chunks (write q1 closing)) as [|c [|c2 r0]]; cbn [length app concat] in *; [| |lia].
            * rewrite skipn_nil. rewrite <- Hpend in Hlen. cbn [length app] in *. lia.
            * rewrite !app_nil_r in *. rewrite Hpend. lia.
          + rewrite Hpend. lia. }
      pose proof (Out_poll true s1c (goods ++ rest) HQc) as Hop.
      destruct (poll true s1c (goods ++ rest)) as [[res sp] restp]. cbn [fst snd] in *.
      destruct res as [[e|]| | |]; try discriminate.
      - destruct e as [| |t0].
        + eapply dispose_loop_drained; [apply (Out_QI _ _ Hop)|exact Hfirst|exact El].
        + eapply dispose_loop_drained; [apply (Out_QI _ _ Hop)|exact Hfirst|exact El].
        + destruct (is_da t0).
          * inversion El; subst. exact Hfirst.
          * eapply dispose_loop_drained; [apply (Out_QI _ _ Hop)|exact Hfirst|exact El].
      - inversion El; subst. exact Hfirst.
      - inversion El; subst. exact Hfirst. }
    inversion E as [E']. unfold Drained in *. destruct (hup s2); cbn; exact Hd2.
  Qed.
End Closing.
