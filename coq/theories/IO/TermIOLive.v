(* Progress of the write step: "everything written reaches the tty" needs a kernel that accepts
   bytes.  Every round of the poll loop in which the tty accepts at least one byte (k > 0)
   strictly decreases  |pending bytes| + number of chunks ; hence any schedule that contains
   that many accepting rounds - in whatever sizes, interleaved with whatever idle rounds - leaves
   the queue empty with every pending byte delivered, in order.  (A kernel that never accepts
   a byte delivers nothing: the safety theorems C16_order / C16_drained hold vacuously then, and
   the bound on the wait is the peer's, see design/C16.md "end of life".) *)
From Coq Require Import List NArith Arith Bool Lia.
From Coq Require Import ZifyBool ZifyNat ZifyN.
From SNT Require Import Base.Outcome IO.IOQueue IO.IOQueueProofs IO.IOQueueFrames IO.TermIO IO.TermIOProofs.
Import ListNotations.

Arguments N.add : simpl never.
Arguments N.min : simpl never.
Arguments N.of_nat : simpl never.
Arguments N.to_nat : simpl never.

Section Live.
  Context {A : Type}.
  Notation term := (term A).
  Notation round := (round A).

  Definition work (t : term) : nat := length (pending (tq t)) + chunks_count (tq t).

  Definition TI (t : term) : Prop :=
    Inv (tq t) /\ (N.of_nat (total_len (chunks (tq t))) <= usize_max)%N.

  (* a round in which the tty is writable, whatever it accepts (k = 0: EAGAIN / EINTR): nothing is
     lost or reordered and the work left never grows *)
  Lemma accept_any : forall (t : term) k, TI t ->
    exists t', poll_round t (KAccept k) = Ok t' /\ TI t'
      /\ tty t' ++ pending (tq t') = tty t ++ pending (tq t)
      /\ work t' <= work t.
  Proof.
    intros t k [HI HB]. cbn [poll_round].
    destruct (is_empty (tq t)) eqn:Hemp.
    { exists t. split; [reflexivity|]. split; [split; auto|]. split; [reflexivity|lia]. }
    pose proof (offset_le_total (tq t) (inv_off _ HI)) as Hot.
    unfold consume_with. rewrite (as_slice_ok (tq t) (inv_off _ HI)). cbn [bind].
    set (s := front_slice (tq t)) in *. set (size := consumer k true s).
    assert (Hsize : (size <= N.of_nat (length s))%N) by (unfold size, consumer; lia).
    destruct (consume_take (tq t) size HI) as (q' & E & Ht); [lia|].
    rewrite E. cbn [bind].
    destruct (take_sound (tq t) size q' HI Ht) as (HI' & Htot & _ & Hp).
    eexists. split; [reflexivity|]. unfold TI. cbn [tq tty]. split; [split; [exact HI'|lia]|]. split.
    - rewrite Hp. fold s. unfold taken.
      replace (N.min size (N.of_nat (length s))) with size by lia. now rewrite <- app_assoc.
    - unfold work. cbn [tq].
      destruct Ht as [[Hlt ->]|[Hge ->]].
      + rewrite Hp. unfold taken. fold s. rewrite app_length, firstn_length.
        unfold chunks_count, q_adv. cbn [chunks]. lia.
      + rewrite Hp. rewrite app_length. unfold chunks_count, q_pop. cbn [chunks].
        unfold is_empty in Hemp. destruct (chunks (tq t)) as [|c r]; [discriminate|]. cbn [tl length]. lia.
  Qed.

  Lemma accept_progress : forall (t : term) k, TI t -> (0 < k)%N ->
    exists t', poll_round t (KAccept k) = Ok t' /\ TI t'
      /\ tty t' ++ pending (tq t') = tty t ++ pending (tq t)
      /\ (is_empty (tq t) = true -> t' = t)
      /\ (is_empty (tq t) = false -> work t' < work t).
  Proof.
    intros t k [HI HB] Hk. cbn [poll_round].
    destruct (is_empty (tq t)) eqn:Hemp.
    { exists t. split; [reflexivity|]. split; [split; auto|]. split; [reflexivity|]. split; [auto|discriminate]. }
    pose proof (offset_le_total (tq t) (inv_off _ HI)) as Hot.
    unfold consume_with. rewrite (as_slice_ok (tq t) (inv_off _ HI)). cbn [bind].
    set (s := front_slice (tq t)) in *. set (size := consumer k true s).
    assert (Hsize : (size <= N.of_nat (length s))%N) by (unfold size, consumer; lia).
    destruct (consume_take (tq t) size HI) as (q' & E & Ht); [lia|].
    rewrite E. cbn [bind].
    destruct (take_sound (tq t) size q' HI Ht) as (HI' & Htot & _ & Hp).
    eexists. split; [reflexivity|]. unfold TI. cbn [tq tty]. split; [split; [exact HI'|lia]|]. split; [|split; [discriminate|]].
    - rewrite Hp. fold s. unfold taken.
      replace (N.min size (N.of_nat (length s))) with size by lia. now rewrite <- app_assoc.
    - intros _. unfold work. cbn [tq].
      destruct Ht as [[Hlt ->]|[Hge ->]].
      + (* part of the front slice: at least one byte, since k > 0 and the slice is not empty *)
        assert (Hpos : (0 < size)%N) by (unfold size, consumer, s in *; lia).
        rewrite Hp. unfold taken. fold s. rewrite app_length, firstn_length.
        unfold chunks_count, q_adv. cbn [chunks]. lia.
      + (* the whole front chunk: one chunk less *)
        rewrite Hp. rewrite app_length. unfold chunks_count, q_pop. cbn [chunks].
        unfold is_empty in Hemp. destruct (chunks (tq t)) as [|c r]; [discriminate|]. cbn [tl length]. lia.
  Qed.

  Definition accepting (r : round) : Prop := match r with KAccept k => (0 < k)%N | _ => False end.

  (* enough accepting rounds, of any sizes, drain the queue *)
  Theorem accepting_rounds_drain : forall (sched : list round) (t : term),
    TI t -> Forall accepting sched -> work t <= length sched ->
    exists t', poll_rounds t sched = Ok t'
      /\ is_empty (tq t') = true
      /\ tty t' = tty t ++ pending (tq t).
  Proof.
    induction sched as [|r sched IH]; intros t HT Hacc Hw.
    - exists t. cbn. unfold work, chunks_count, is_empty, pending in *. cbn in Hw.
      destruct (chunks (tq t)); [|cbn in Hw; lia]. now rewrite app_nil_r.
    - inversion Hacc as [|? ? Hr Hrest]; subst. destruct r as [k| |b]; try contradiction.
      destruct (accept_progress t k HT Hr) as (t1 & E & HT1 & Hs & Hsame & Hless).
      cbn [poll_rounds]. rewrite E. cbn [bind].
      destruct (is_empty (tq t)) eqn:Hemp.
      + rewrite (Hsame eq_refl) in *.
        assert (Hw0 : work t = 0).
        { unfold work, chunks_count, is_empty, pending in *. destruct (chunks (tq t)); [reflexivity|discriminate]. }
        destruct (IH t HT Hrest ltac:(lia)) as (t' & E' & He & Ht'). exists t'. auto.
      + specialize (Hless eq_refl). cbn [length] in Hw.
        destruct (IH t1 HT1 Hrest ltac:(lia)) as (t' & E' & He & Ht'). exists t'.
        split; auto. split; auto. rewrite Ht'. exact Hs.
  Qed.
  (* ---- the same with idle rounds and rounds in which the write is refused (EAGAIN, EINTR: k = 0)
     anywhere in between: what counts is the number of rounds in which at least one byte is
     accepted.  Only rounds in which the loop queues output itself are excluded (they add work). *)
  Definition acceptingb (r : round) : bool := match r with KAccept k => (0 <? k)%N | _ => false end.
  Definition quiet (r : round) : Prop := match r with KInternal _ => False | _ => True end.

  Fixpoint accepting_count (sched : list round) : nat :=
    match sched with
    | [] => 0
    | r :: rest => (if acceptingb r then 1 else 0) + accepting_count rest
    end.

  Lemma work_zero_empty : forall t : term, work t = 0 -> is_empty (tq t) = true /\ pending (tq t) = [].
  Proof.
    intros t H. unfold work, chunks_count, is_empty, pending in *.
    destruct (chunks (tq t)); [auto|cbn in H; lia].
  Qed.

  Lemma quiet_rounds_keep : forall (sched : list round) (t : term),
    TI t -> Forall quiet sched ->
    exists t', poll_rounds t sched = Ok t' /\ TI t'
      /\ tty t' ++ pending (tq t') = tty t ++ pending (tq t)
      /\ work t' <= work t
      /\ (work t <= accepting_count sched -> work t' = 0).
  Proof.
    induction sched as [|r sched IH]; intros t HT Hq.
    - exists t. cbn [poll_rounds accepting_count]. split; [reflexivity|]. split; [exact HT|].
      split; [reflexivity|]. split; lia.
    - inversion Hq as [|? ? Hr Hrest]; subst.
      assert (Hstep : exists t1, poll_round t r = Ok t1 /\ TI t1
                /\ tty t1 ++ pending (tq t1) = tty t ++ pending (tq t)
                /\ work t1 <= work t
                /\ (acceptingb r = true -> work t = 0 \/ work t1 < work t)).
      { destruct r as [k| |b]; [| |contradiction].
        - destruct (accept_any t k HT) as (t1 & E & HT1 & Hs & Hle).
          exists t1. split; [exact E|]. split; [exact HT1|]. split; [exact Hs|]. split; [exact Hle|].
          intro Hk. cbn [acceptingb] in Hk.
          destruct (accept_progress t k HT ltac:(lia)) as (t2 & E2 & _ & _ & Hsame & Hless).
          rewrite E in E2. inversion E2; subst t2.
          destruct (is_empty (tq t)) eqn:Hemp.
          + left. unfold work, chunks_count, is_empty, pending in *.
            destruct (chunks (tq t)); [reflexivity|discriminate].
          + right. now apply Hless.
        - exists t. cbn [poll_round acceptingb]. split; [reflexivity|]. split; [exact HT|].
          split; [reflexivity|]. split; [lia|discriminate]. }
      destruct Hstep as (t1 & E & HT1 & Hs & Hle & Hacc).
      destruct (IH t1 HT1 Hrest) as (t' & E' & HT' & Hs' & Hle' & Hz).
      exists t'. cbn [poll_rounds]. rewrite E. cbn [bind]. split; [exact E'|]. split; [exact HT'|].
      split; [now rewrite Hs'|]. split; [lia|].
      cbn [accepting_count]. intro Hw. apply Hz.
      destruct (acceptingb r) eqn:Hb; [|lia].
      destruct (Hacc eq_refl); lia.
  Qed.

  Theorem rounds_drain : forall (sched : list round) (t : term),
    TI t -> Forall quiet sched -> work t <= accepting_count sched ->
    exists t', poll_rounds t sched = Ok t'
      /\ is_empty (tq t') = true
      /\ tty t' = tty t ++ pending (tq t).
  Proof.
    intros sched t HT Hq Hw.
    destruct (quiet_rounds_keep sched t HT Hq) as (t' & E & _ & Hs & _ & Hz).
    destruct (work_zero_empty t' (Hz Hw)) as [He Hp].
    exists t'. split; auto. split; auto. rewrite Hp, app_nil_r in Hs. exact Hs.
  Qed.

  (* the states the theorem is about: every state a program reaches (from the empty terminal
     object, under any kernel schedule) satisfies TI *)
  Theorem reachable_TI : forall (prog : list (top A)) t X,
    (N.of_nat (length (twritten prog)) <= usize_max)%N ->
    trun term0 prog [] = Ok (t, X) -> TI t.
  Proof.
    intros prog t X HB E.
    destruct (term_delivery prog HB) as (t' & X' & E' & Ex & _ & _ & HI). rewrite E in E'.
    inversion E'; subst t' X'. split; [exact HI|].
    destruct (queue_history (compile prog) ltac:(rewrite written_compile; exact HB))
      as [[E2 _]|(q & R & X' & E2 & _ & _ & Htot)]; rewrite Ex in E2; [discriminate|].
    inversion E2; subst. rewrite written_compile in Htot. lia.
  Qed.

  (* ... so: after any program, any further schedule of accepting / refusing / idle rounds with
     enough accepting ones delivers all that is pending, in order, and leaves the queue empty *)
  Theorem run_then_rounds_drain : forall (prog : list (top A)) t X (sched : list round),
    (N.of_nat (length (twritten prog)) <= usize_max)%N ->
    trun term0 prog [] = Ok (t, X) ->
    Forall quiet sched -> work t <= accepting_count sched ->
    exists t', poll_rounds t sched = Ok t'
      /\ is_empty (tq t') = true
      /\ tty t' = tty t ++ pending (tq t).
  Proof.
    intros prog t X sched HB E Hq Hw. apply rounds_drain; auto. exact (reachable_TI prog t X HB E).
  Qed.
End Live.
