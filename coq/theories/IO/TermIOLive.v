(* Progress of the write step: "everything written reaches the tty" needs a kernel that accepts
   bytes.  Every round of the poll loop in which the tty accepts at least one byte (k > 0)
   strictly decreases  |pending bytes| + number of chunks ; hence any schedule that contains
   that many accepting rounds - in whatever sizes, interleaved with whatever idle rounds - leaves
   the queue empty with every pending byte delivered, in order.  (A kernel that never accepts
   a byte delivers nothing: the safety theorems C16_order / C16_drained hold vacuously then, and
   the bound on the wait is the peer's, see design/C16.md "end of life".) *)
From Coq Require Import List NArith Arith Bool Lia.
From Coq Require Import ZifyBool ZifyNat ZifyN.
From SNT Require Import Base.Outcome IO.IOQueue IO.IOQueueProofs IO.TermIO.
Import ListNotations.

Arguments N.add : simpl never.
Arguments N.min : simpl never.
Arguments N.of_nat : simpl never.
Arguments N.to_nat : simpl never.

Section Live.
  Context {A : Type}.
  Notation term := (term A).
  Notation round := (round A).

  Definition work (t : term) : nat := length (pending (tq t)) + chunks_count (tq t).

  Definition TI (t : term) : Prop :=
    Inv (tq t) /\ (N.of_nat (total_len (chunks (tq t))) <= usize_max)%N.

  Lemma accept_progress : forall (t : term) k, TI t -> (0 < k)%N ->
    exists t', poll_round t (KAccept k) = Ok t' /\ TI t'
      /\ tty t' ++ pending (tq t') = tty t ++ pending (tq t)
      /\ (is_empty (tq t) = true -> t' = t)
      /\ (is_empty (tq t) = false -> work t' < work t).
  Proof.
    intros t k [HI HB] Hk. cbn [poll_round].
    destruct (is_empty (tq t)) eqn:Hemp.
    { exists t. split; [reflexivity|]. split; [split; auto|]. split; [reflexivity|]. split; [auto|discriminate]. }
    pose proof (offset_le_total (tq t) (inv_off _ HI)) as Hot.
    unfold consume_with. rewrite (as_slice_ok (tq t) (inv_off _ HI)). cbn [bind].
    set (s := front_slice (tq t)) in *. set (size := consumer k true s).
    assert (Hsize : (size <= N.of_nat (length s))%N) by (unfold size, consumer; lia).
    destruct (consume_take (tq t) size HI) as (q' & E & Ht); [lia|].
    rewrite E. cbn [bind].
    destruct (take_sound (tq t) size q' HI Ht) as (HI' & Htot & _ & Hp).
    eexists. split; [reflexivity|]. unfold TI. cbn [tq tty]. split; [split; [exact HI'|lia]|]. split; [|split; [discriminate|]].
    - rewrite Hp. fold s. unfold taken.
      replace (N.min size (N.of_nat (length s))) with size by lia. now rewrite <- app_assoc.
    - intros _. unfold work. cbn [tq].
      destruct Ht as [[Hlt ->]|[Hge ->]].
      + (* part of the front slice: at least one byte, since k > 0 and the slice is not empty *)
        assert (Hpos : (0 < size)%N) by (unfold size, consumer, s in *; lia).
        rewrite Hp. unfold taken. fold s. rewrite app_length, firstn_length.
        unfold chunks_count, q_adv. cbn [chunks]. lia.
      + (* the whole front chunk: one chunk less *)
        rewrite Hp. rewrite app_length. unfold chunks_count, q_pop. cbn [chunks].
        unfold is_empty in Hemp. destruct (chunks (tq t)) as [|c r]; [discriminate|]. cbn [tl length]. lia.
  Qed.

  Definition accepting (r : round) : Prop := match r with KAccept k => (0 < k)%N | _ => False end.

  (* enough accepting rounds, of any sizes, drain the queue *)
  Theorem accepting_rounds_drain : forall (sched : list round) (t : term),
    TI t -> Forall accepting sched -> work t <= length sched ->
    exists t', poll_rounds t sched = Ok t'
      /\ is_empty (tq t') = true
      /\ tty t' = tty t ++ pending (tq t).
  Proof.
    induction sched as [|r sched IH]; intros t HT Hacc Hw.
    - exists t. cbn. unfold work, chunks_count, is_empty, pending in *. cbn in Hw.
      destruct (chunks (tq t)); [|cbn in Hw; lia]. now rewrite app_nil_r.
    - inversion Hacc as [|? ? Hr Hrest]; subst. destruct r as [k| |b]; try contradiction.
      destruct (accept_progress t k HT Hr) as (t1 & E & HT1 & Hs & Hsame & Hless).
      cbn [poll_rounds]. rewrite E. cbn [bind].
      destruct (is_empty (tq t)) eqn:Hemp.
      + rewrite (Hsame eq_refl) in *.
        assert (Hw0 : work t = 0).
        { unfold work, chunks_count, is_empty, pending in *. destruct (chunks (tq t)); [reflexivity|discriminate]. }
        destruct (IH t HT Hrest ltac:(lia)) as (t' & E' & He & Ht'). exists t'. auto.
      + specialize (Hless eq_refl). cbn [length] in Hw.
        destruct (IH t1 HT1 Hrest ltac:(lia)) as (t' & E' & He & Ht'). exists t'.
        split; auto. split; auto. rewrite Ht'. exact Hs.
  Qed.
End Live.
