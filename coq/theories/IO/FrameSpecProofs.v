(* The frame specification IO/FrameSpec.v accepts every run of the model: for every history of
   queue calls (hence, through `compile`, every program of the terminal object under every kernel
   schedule) that ends with nothing pending, `frame_check` applied to what the program did - its
   writes, its flushes, its drops with the number of bytes handed out at that moment - and to
   the bytes handed out, answers true.  So the `holds` component of the pty correspondence can
   fail only where the implementation departs from the model. *)
From Coq Require Import List NArith Arith Bool Lia.
From Coq Require Import ZifyBool ZifyNat ZifyN.
From SNT Require Import Base.Outcome IO.IOQueue IO.IOQueueProofs IO.FrameSpec.
Import ListNotations.

Arguments N.add : simpl never.
Arguments N.of_nat : simpl never.
Arguments N.leb : simpl never.

Section Accepts.
  Context {A : Type} (aeqb : A -> A -> bool) (aeqb_refl : forall x, aeqb x x = true).
  Notation queue := (queue A).
  Notation item := (item A).
  Notation fop := (fop A).

  (* ---------------- a relational reading of match_frames: every frame is kept or dropped *)
  Inductive Fated : list item -> list A -> N -> Prop :=
  | F_nil pos : Fated [] [] pos
  | F_drop s r T pos : Fated r T pos -> Fated (IDrop s :: r) T pos
  | F_kept f r T pos : Fated r T (pos + N.of_nat (length f))%N -> Fated (IFrame f :: r) (f ++ T) pos
  | F_dropped f r T pos s :
      next_drop r = Some s -> (s <= pos)%N -> Fated r T pos -> Fated (IFrame f :: r) T pos.

  Lemma strip_prefix_app : forall f T : list A, strip_prefix aeqb f (f ++ T) = Some T.
  Proof. induction f as [|a f IH]; intro T; cbn; auto. now rewrite aeqb_refl. Qed.

  Lemma Fated_match : forall its T pos, Fated its T pos -> match_frames aeqb its T pos = true.
  Proof.
    intros its T pos H. induction H; cbn [match_frames]; auto.
    - rewrite strip_prefix_app, IHFated. reflexivity.
    - rewrite H. replace (s <=? pos)%N with true by (symmetry; apply N.leb_le; lia).
      destruct (strip_prefix aeqb f T) as [rest'|]; auto.
      destruct (match_frames aeqb r rest' _); auto.
  Qed.

  (* ---------------- the decided part of the items *)
  (* the frames of I are decided, the kept ones make up Kd; whatever follows starts at |Kd| *)
  Definition H (I : list item) (Kd : list A) : Prop :=
    forall Rest T', Fated Rest T' (N.of_nat (length Kd)) -> Fated (I ++ Rest) (Kd ++ T') 0.

  Lemma H_nil : H [] [].
  Proof. intros Rest T' HF. exact HF. Qed.

  Lemma H_kept : forall I Kd f, H I Kd -> H (I ++ [IFrame f]) (Kd ++ f).
  Proof.
    intros I Kd f HH Rest T' HF. rewrite <- !app_assoc. cbn [app]. apply HH. apply F_kept.
    rewrite app_length in HF. replace (N.of_nat (length Kd) + N.of_nat (length f))%N
      with (N.of_nat (length Kd + length f)) by lia. exact HF.
  Qed.

  Lemma H_close : forall I Kd cur, H I Kd -> H (I ++ rev (close_frame cur [])) (Kd ++ cur).
  Proof.
    intros I Kd cur HH. destruct cur as [|a cur]; cbn [close_frame rev app].
    - now rewrite !app_nil_r.
    - now apply H_kept.
  Qed.

  Lemma H_idrop : forall I Kd s, H I Kd -> H (I ++ [IDrop s]) Kd.
  Proof. intros I Kd s HH Rest T' HF. rewrite <- app_assoc. apply HH. now apply F_drop. Qed.

  (* frames that a drop discards: all undecided ones, none of whose bytes had gone out *)
  Lemma Fated_dropped_run : forall (fs : list (list A)) s Rest T pos,
    (s <= pos)%N -> Fated Rest T pos -> Fated (map IFrame fs ++ IDrop s :: Rest) T pos.
  Proof.
    induction fs as [|f fs IH]; intros s Rest T pos Hs HF; cbn [map app].
    - now apply F_drop.
    - apply F_dropped with (s := s); auto.
      clear. induction fs; cbn; auto.
  Qed.

  Lemma close_frame_rev : forall cur (acc : list item),
    rev (close_frame cur acc) = rev acc ++ rev (close_frame cur []).
  Proof. intros [|a cur] acc; cbn; auto. now rewrite app_nil_r. Qed.

  (* ---------------- the invariant of a run *)
  Definition MI (q : queue) (R : list A) (acc : list item) (cur : list A) : Prop :=
    exists Kd Idec,
      H Idec Kd /\
      match tl (chunks q) with
      | [] => rev acc = Idec /\ R ++ front_slice q = Kd ++ cur
      | t => rev acc = Idec ++ map IFrame (removelast t) /\ R ++ front_slice q = Kd /\ cur = last t []
      end.

  Lemma MI_empty : MI qempty [] [] [].
  Proof. exists [], []. split; [apply H_nil|]. cbn. auto. Qed.

  (* what one fop does to the item accumulators *)
  Definition item_step (o : fop) (st : list item * list A) : list item * list A :=
    let '(acc, cur) := st in
    match o with
    | FW b => (acc, cur ++ b)
    | FDelim => (close_frame cur acc, [])
    | FDrop s => (IDrop s :: close_frame cur acc, [])
    end.

  Lemma items_of_app : forall (o1 o2 : list fop) cur acc,
    items_of (o1 ++ o2) cur acc
    = let '(acc1, cur1) := items_of o1 cur acc in items_of o2 cur1 acc1.
  Proof.
    induction o1 as [|o o1 IH]; intros o2 cur acc; [reflexivity|].
    destruct o; cbn [app items_of]; apply IH.
  Qed.

  (* ---------------- write *)
  Lemma MI_write : forall (q : queue) R acc cur b, Inv q -> MI q R acc cur ->
    MI (write q b) R acc (cur ++ b).
  Proof.
    intros q R acc cur b HI (Kd & Idec & HH & Hm). exists Kd, Idec. split; auto.
    pose proof (inv_off q HI) as Ho.
    destruct q as [[|c [|c2 r]] o l]; unfold write, front_slice, front_len in *; cbn [chunks offset push_last tl] in *.
    - destruct Hm as [Ha Hr]. split; auto. cbn [skipn] in *.
      replace o with 0 in * by (destruct Ho; lia). cbn [skipn] in *. rewrite app_nil_r in Hr.
      rewrite Hr. now rewrite app_assoc.
    - destruct Hm as [Ha Hr]. split; auto. rewrite skipn_app.
      replace (o - length c) with 0 by lia. cbn [skipn]. rewrite app_assoc, Hr. now rewrite app_assoc.
    - change (match r with [] => [c2 ++ b] | _ :: _ => c2 :: push_last r b end) with (push_last (c2 :: r) b).
      destruct Hm as (Ha & Hr & Hc).
      destruct (push_last (c2 :: r) b) as [|x xs] eqn:Ep; [now apply push_last_nonnil in Ep|].
      rewrite <- Ep. rewrite removelast_push_last. split; auto. split; auto.
      rewrite Hc. clear. revert c2. induction r as [|c3 r IH]; intro c2; [reflexivity|].
      change (push_last (c2 :: c3 :: r) b) with (c2 :: push_last (c3 :: r) b).
      change (last (c2 :: c3 :: r) []) with (last (c3 :: r) []).
      destruct (push_last (c3 :: r) b) eqn:E; [now apply push_last_nonnil in E|].
      rewrite <- E. cbn [last]. rewrite E. rewrite <- E. apply IH.
  Qed.

  (* ---------------- flush *)
  Lemma last_app_single : forall (t : list (list A)) x, last (t ++ [x]) [] = x.
  Proof. intros. apply last_last. Qed.

  Lemma MI_flush : forall (q : queue) R acc cur, Inv q -> MI q R acc cur ->
    MI (flush q) R (close_frame cur acc) [].
  Proof.
    intros q R acc cur HI (Kd & Idec & HH & Hm).
    destruct (flush_cases q) as [[Hn E]|[Hn E]]; rewrite E.
    - (* a new chunk is opened: the back chunk held data *)
      destruct (chunks q) as [|c t] eqn:Ec; [discriminate|]. cbn [tl] in Hm.
      destruct t as [|c2 t'].
      + (* one chunk: the open frame lives in it and is kept *)
        destruct Hm as [Ha Hr].
        exists (Kd ++ cur), (Idec ++ rev (close_frame cur [])). split; [now apply H_close|].
        unfold front_slice in *. cbn [chunks offset tl app]. rewrite Ec in *. cbn [app tl removelast map last].
        rewrite app_nil_r. split; [rewrite close_frame_rev, Ha; reflexivity|]. split; auto.
      + (* several chunks: the back chunk is the open frame, now closed and undecided *)
        destruct Hm as (Ha & Hr & Hc).
        assert (Hcur : cur <> []).
        { unfold last_nonempty in Hn. change (last (c :: c2 :: t') []) with (last (c2 :: t') []) in Hn.
          rewrite <- Hc in Hn. destruct cur; [discriminate|discriminate]. }
        exists Kd, Idec. split; auto.
        unfold front_slice in *. cbn [chunks offset]. rewrite Ec in *. cbn [app tl].
        change (c2 :: t' ++ [[]]) with ((c2 :: t') ++ [[]]).
        rewrite removelast_last, last_app_single. split; [|split; auto].
        destruct cur as [|a cur']; [congruence|]. cbn [close_frame rev].
        rewrite Ha, <- app_assoc. f_equal.
        rewrite (app_removelast_last [] (l := c2 :: t')) at 2 by discriminate.
        rewrite map_app, <- Hc. reflexivity.
    - (* no new chunk: the back chunk is empty, or there is no chunk *)
      destruct (tl (chunks q)) as [|c2 t'] eqn:Et.
      + destruct Hm as [Ha Hr].
        exists (Kd ++ cur), (Idec ++ rev (close_frame cur [])). split; [now apply H_close|].
        rewrite Et. rewrite app_nil_r. split; [rewrite close_frame_rev, Ha; reflexivity|exact Hr].
      + destruct Hm as (Ha & Hr & Hc).
        assert (Hcur : cur = []).
        { unfold last_nonempty in Hn. destruct (chunks q) as [|c t]; [discriminate|]. cbn [tl] in Et. subst t.
          change (last (c :: c2 :: t') []) with (last (c2 :: t') []) in Hn. rewrite <- Hc in Hn.
          destruct cur; [reflexivity|discriminate]. }
        rewrite Hcur in *. cbn [close_frame]. exists Kd, Idec. split; auto. rewrite Et. split; auto.
  Qed.

  (* ---------------- handing bytes out *)
  Lemma MI_take : forall (q q' : queue) R acc cur amt, Inv q -> take_rel q amt q' -> MI q R acc cur ->
    MI q' (R ++ taken (front_slice q) amt) acc cur.
  Proof.
    intros q q' R acc cur amt HI Ht (Kd & Idec & HH & Hm).
    destruct Ht as [[Hlt ->]|[Hge ->]].
    - (* part of the front slice *)
      destruct (adv_view q (N.to_nat amt)) as [Hf Htl]. rewrite (taken_adv _ _ Hlt).
      exists Kd, Idec. split; auto. rewrite Htl, Hf.
      assert (Hr : forall X, R ++ front_slice q = X ->
                   (R ++ firstn (N.to_nat amt) (front_slice q)) ++ skipn (N.to_nat amt) (front_slice q) = X).
      { intros X E. rewrite <- app_assoc, firstn_skipn. exact E. }
      destruct (tl (chunks q)); [destruct Hm; split; auto|destruct Hm as (Ha & Hr0 & Hc); auto].
    - (* the whole front slice: the next chunk becomes the one in flight *)
      destruct (pop_view q) as [Hf Hc']. rewrite (taken_pop _ _ Hge).
      destruct (tl (chunks q)) as [|c1 t'] eqn:Et.
      + destruct Hm as [Ha Hr]. exists Kd, Idec. split; auto.
        rewrite Hc'. cbn [tl]. rewrite Hf. cbn [hd]. rewrite app_nil_r. auto.
      + destruct Hm as (Ha & Hr & Hc).
        destruct t' as [|c2 t''].
        * (* the open frame moves into the chunk in flight *)
          cbn [removelast map last] in *. exists Kd, Idec. split; auto. rewrite app_nil_r in Ha.
          rewrite Hc'. cbn [tl]. rewrite Hf. cbn [hd]. split; auto. rewrite Hr, Hc. reflexivity.
        * (* a closed frame is now decided: kept *)
          exists (Kd ++ c1), (Idec ++ [IFrame c1]). split; [now apply H_kept|].
          rewrite Hc'. cbn [tl]. rewrite Hf. cbn [hd].
          change (removelast (c1 :: c2 :: t'')) with (c1 :: removelast (c2 :: t'')) in Ha.
          cbn [map] in Ha. split; [rewrite Ha, <- app_assoc; reflexivity|]. split; [now rewrite Hr|].
          exact Hc.
  Qed.

  Lemma MI_takes : forall (q q' : queue) out, takes q out q' ->
    forall R acc cur, Inv q -> MI q R acc cur -> MI q' (R ++ out) acc cur.
  Proof.
    intros q q' out Ht. induction Ht as [q|q amt q1 out q2 Ht1 Hts IH]; intros R acc cur HI HM.
    - now rewrite app_nil_r.
    - rewrite app_assoc. apply IH.
      + apply (take_sound q amt q1 HI Ht1).
      + now apply MI_take.
  Qed.

  (* ---------------- drop *)
  Lemma MI_drop : forall (q q' : queue) R acc cur, Inv q -> clear_but_last q = Ok q' -> MI q R acc cur ->
    MI q' R (IDrop (N.of_nat (length R)) :: close_frame cur acc) [].
  Proof.
    intros q q' R acc cur HI E (Kd & Idec & HH & Hm).
    destruct (drop_ok q HI) as (q1 & E1 & _ & Hf & Htl & _). rewrite E in E1. inversion E1; subst q1.
    unfold MI. rewrite Htl, Hf. cbn [rev]. rewrite close_frame_rev.
    destruct (tl (chunks q)) as [|c1 t'] eqn:Et.
    - destruct Hm as [Ha Hr].
      exists (Kd ++ cur), ((Idec ++ rev (close_frame cur [])) ++ [IDrop (N.of_nat (length R))]).
      split; [apply H_idrop; now apply H_close|]. rewrite Ha, app_nil_r. auto.
    - destruct Hm as (Ha & Hr & Hc).
      exists Kd, ((rev acc ++ rev (close_frame cur [])) ++ [IDrop (N.of_nat (length R))]).
      split; [|rewrite app_nil_r; auto].
      (* every undecided frame, the open one included, is discarded whole: nothing of it had gone out *)
      intros Rest T' HF. rewrite Ha, <- !app_assoc. apply HH.
      assert (Hs : (N.of_nat (length R) <= N.of_nat (length Kd))%N).
      { rewrite <- Hr, app_length. lia. }
      destruct cur as [|a cur']; cbn [close_frame rev app].
      + now apply Fated_dropped_run.
      + replace (map IFrame (removelast (c1 :: t')) ++ IFrame (a :: cur') :: IDrop (N.of_nat (length R)) :: Rest)
          with (map IFrame (removelast (c1 :: t') ++ [a :: cur']) ++ IDrop (N.of_nat (length R)) :: Rest)
          by (rewrite map_app, <- app_assoc; reflexivity).
        now apply Fated_dropped_run.
  Qed.

  (* ---------------- runs *)
  Definition fop_of (o : op A) (R : list A) : list fop :=
    match o with
    | OWrite b => [FW b]
    | OFlush => [FDelim]
    | ODrop => [FDrop (N.of_nat (length R))]
    | _ => []
    end.

  (* what a history did, in the specification's vocabulary; R = bytes handed out so far *)
  Fixpoint fops_run (q : queue) (R : list A) (ops : list (op A)) : list fop :=
    match ops with
    | [] => []
    | o :: rest =>
        match step q o with
        | Ok (q', _, out, _) => fop_of o R ++ fops_run q' (R ++ out) rest
        | _ => []
        end
    end.

  Lemma step_shape : forall (q : queue) o B q' r out x,
    Inv q -> total_len (chunks q) <= B -> (N.of_nat B <= usize_max)%N ->
    step q o = Ok (q', r, out, x) ->
    match o with
    | OWrite b => q' = write q b /\ out = []
    | OFlush => q' = flush q /\ out = []
    | ODrop => clear_but_last q = Ok q' /\ out = []
    | _ => takes q out q'
    end.
  Proof.
    intros q o B q' r out x HI Htot HB E.
    destruct o as [b| |n|amt|k clamp| | |]; cbn [step] in E.
    - inversion E; auto.
    - inversion E; auto.
    - destruct (read_ok q n B HI Htot HB) as (q1 & E1 & Ht & Hr). rewrite E1 in E. cbn [bind] in E.
      inversion E; subst. rewrite Hr. now apply takes_one.
    - rewrite (as_slice_ok q (inv_off q HI)) in E. cbn [bind] in E.
      destruct (consume_take' q amt HI) as [[E1 _]|(q1 & E1 & Ht)]; rewrite E1 in E; [discriminate|].
      cbn [bind] in E. inversion E; subst. now apply takes_one.
    - rewrite (as_slice_ok q (inv_off q HI)) in E. cbn [bind] in E. unfold consume_with in E.
      rewrite (as_slice_ok q (inv_off q HI)) in E. cbn [bind] in E.
      destruct (consume_take' q (consumer k clamp (front_slice q)) HI) as [[E1 _]|(q1 & E1 & Ht)];
        rewrite E1 in E; [discriminate|].
      cbn [bind] in E. inversion E; subst. now apply takes_one.
    - unfold consume_with_err in E. rewrite (as_slice_ok q (inv_off q HI)) in E. cbn [bind] in E.
      inversion E; subst. constructor.
    - destruct (clear_but_last q) as [q1| | |] eqn:Ec; try discriminate. cbn [bind] in E. inversion E; subst. auto.
    - destruct (read_to_end_ok q B HI Htot HB) as (q1 & E1 & Hts & _). rewrite E1 in E. cbn [bind] in E.
      inversion E; subst. exact Hts.
  Qed.

  Lemma run_MI : forall ops (q : queue) R X q' R' X' acc cur B,
    Inv q -> total_len (chunks q) + length (written ops) <= B -> (N.of_nat B <= usize_max)%N ->
    MI q R acc cur ->
    exec q ops R X = Ok (q', R', X') ->
    let '(acc', cur') := items_of (fops_run q R ops) cur acc in
    Inv q' /\ MI q' R' acc' cur'.
  Proof.
    induction ops as [|o ops IH]; intros q R X q' R' X' acc cur B HI Htot HB HM E.
    - cbn in E. inversion E; subst. cbn. auto.
    - rewrite written_cons, app_length in Htot. cbn [exec fops_run] in *.
      destruct (step_sound q o B HI ltac:(lia) HB) as [[E1 _]|(q1 & r & out & x & E1 & Hpost)];
        rewrite E1 in *; [discriminate|]. cbn [bind] in E.
      pose proof (step_shape q o B q1 r out x HI ltac:(lia) HB E1) as Hsh.
      destruct Hpost as (HI1 & Htot1 & _).
      rewrite items_of_app.
      assert (HM1 : let '(acc1, cur1) := items_of (fop_of o R) cur acc in MI q1 (R ++ out) acc1 cur1).
      { destruct o; cbn [fop_of items_of] in *; cbv beta iota.
        - destruct Hsh as [-> ->]. rewrite app_nil_r. now apply MI_write.
        - destruct Hsh as [-> ->]. rewrite app_nil_r. now apply MI_flush.
        - now apply (MI_takes q q1 out Hsh).
        - now apply (MI_takes q q1 out Hsh).
        - now apply (MI_takes q q1 out Hsh).
        - now apply (MI_takes q q1 out Hsh).
        - destruct Hsh as [Hc ->]. rewrite app_nil_r. now apply (MI_drop q q1).
        - now apply (MI_takes q q1 out Hsh). }
      destruct (items_of (fop_of o R) cur acc) as [acc1 cur1].
      apply (IH q1 (R ++ out) (X ++ x) q' R' X' acc1 cur1 B); auto. lia.
  Qed.

  (* The specification accepts the model: any history that ends with nothing pending. *)
  Theorem frame_spec_accepts_model : forall (ops : list (op A)) q R X,
    (N.of_nat (length (written ops)) <= usize_max)%N ->
    exec qempty ops [] [] = Ok (q, R, X) -> pending q = [] ->
    frame_check aeqb (fops_run qempty [] ops) R = true.
  Proof.
    intros ops q R X HB E Hp. unfold frame_check.
    pose proof (run_MI ops qempty [] [] q R X [] [] (length (written ops)) Inv_empty
                  ltac:(cbn; lia) HB MI_empty E) as HR.
    destruct (items_of (fops_run qempty [] ops) [] []) as [acc cur].
    destruct HR as [HI (Kd & Idec & HH & Hm)].
    apply Fated_match. rewrite close_frame_rev.
    assert (Hfs : front_slice q = []).
    { rewrite pending_split in Hp. now apply app_eq_nil in Hp. }
    destruct (tl (chunks q)) as [|c1 t'] eqn:Et.
    - destruct Hm as [Ha Hr]. rewrite Hfs, app_nil_r in Hr. rewrite Ha, Hr.
      rewrite <- (app_nil_r (Kd ++ cur)), <- (app_nil_r (Idec ++ _)).
      apply (H_close Idec Kd cur HH). constructor.
    - (* something is queued behind the chunk in flight: then something is pending *)
      exfalso. destruct (chunks q) as [|c0 t] eqn:Ec; [discriminate|]. cbn [tl] in Et. subst t.
      pose proof (inv_mid q HI) as Hmid. unfold mid_ok in Hmid. rewrite Ec in Hmid.
      rewrite removelast_cons2 in Hmid. inversion Hmid as [|? ? Hc0 _]; subst.
      pose proof (front_slice_length q (inv_off q HI)) as Hl. rewrite Hfs in Hl.
      pose proof (inv_off q HI) as Ho. unfold front_len in *. rewrite Ec in *. cbn [length] in Hl.
      destruct c0; [congruence|]. cbn [length] in *. lia.
  Qed.
End Accepts.
