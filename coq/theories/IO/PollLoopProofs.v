(* Proofs about the poll-loop model IO/PollLoop.v: wake requests are never lost, events of
   each source are delivered exactly once in arrival order, termination signals surface as a
   quit error, dispose restores the line settings on every path and queues the closing
   sequence. *)
From Coq Require Import List NArith Arith Bool Lia.
From Coq Require Import ZifyBool ZifyNat ZifyN.
From SNT Require Import Base.Outcome IO.IOQueue IO.IOQueueProofs IO.TermIO IO.PollLoop.
Import ListNotations.

Section PollProofs.
  Context {A T : Type}.
  Notation pstate := (pstate A T).
  Notation event := (event T).
  Notation emove := (emove T).
  Notation round_env := (round_env T).

  Definition inputs (es : list event) : list T :=
    flat_map (fun e => match e with EvInput t => [t] | _ => [] end) es.

  Lemma inputs_app : forall a b, inputs (a ++ b) = inputs a ++ inputs b.
  Proof. intros. apply flat_map_app. Qed.

  (* the invariant *)
  Record PI (s : pstate) : Prop := {
    pi_wake : g_owed_wake s = true -> 0 < pipe s;
    pi_winch : g_owed_winch s = true -> winch s = true;
    pi_term : termsig s = true -> sigpipe s = true;
    pi_in : inputs (g_returned s) ++ inputs (events s) ++ inq s = g_arrived s
  }.

  Lemma PI_opened : forall orig raw, PI (opened (A := A) (T := T) orig raw).
  Proof. intros. split; cbn; auto; discriminate. Qed.

  Lemma PI_arrive : forall (s : pstate) m, PI s -> PI (arrive s m).
  Proof.
    intros s m [Hw Hc Ht Hi]. destruct m; cbn.
    - split; cbn; auto. intros _. unfold pipe_cap. lia.
    - destruct (sig_closed s); [split; auto|]. split; cbn; auto.
    - destruct (sig_closed s); [split; auto|]. split; cbn; auto.
    - split; cbn; auto. rewrite <- Hi, <- !app_assoc. reflexivity.
    - split; cbn; auto. rewrite app_nil_r, <- Hi, !app_length, app_assoc.
      rewrite firstn_app, firstn_all2 by (rewrite app_length; lia).
      replace (_ - _) with 0 by (rewrite app_length; lia). cbn. now rewrite app_nil_r.
  Qed.

  Lemma PI_arrive_all : forall ms s, PI s -> PI (arrive_all s ms).
  Proof.
    unfold arrive_all. induction ms as [|m ms IH]; intros s H; cbn; auto. apply IH, PI_arrive, H.
  Qed.

  Lemma PI_upd_io : forall (s : pstate) t, PI s -> PI (upd_io s t).
  Proof. intros s t [Hw Hc Ht Hi]. split; cbn; auto. Qed.

  Lemma PI_sig_step : forall s : pstate, PI s ->
    match sig_step s with inl s' => PI s' | inr (_, s') => PI s' end.
  Proof.
    intros s [Hw Hc Ht Hi]. unfold sig_step.
    destruct (winch s && hup s).
    { split; cbn; auto; discriminate. }
    assert (H2 : PI (if winch s
                     then push (mkP (io s) (events s) (pipe s) false false false (sig_closed s) (inq s)
                                    (hup s) (saved s) (cur s) (g_owed_wake s) (g_owed_winch s)
                                    (g_arrived s) (g_returned s)) EvResize
                     else mkP (io s) (events s) (pipe s) false false false (sig_closed s) (inq s)
                              (hup s) (saved s) (cur s) (g_owed_wake s) (g_owed_winch s)
                              (g_arrived s) (g_returned s))).
    { destruct (winch s) eqn:Ew.
      - split; cbn; auto; try discriminate. rewrite inputs_app. cbn. rewrite app_nil_r. exact Hi.
      - split; cbn; auto; try discriminate; try (intro H; rewrite (Hc H) in Ew; discriminate). }
    destruct (termsig s); exact H2.
  Qed.

  Lemma PI_wake_step : forall s : pstate, PI s -> PI (wake_step s).
  Proof.
    intros s [Hw Hc Ht Hi]. unfold wake_step.
    destruct (Nat.min (pipe s) 1024) eqn:En.
    - split; cbn; auto. intro H. specialize (Hw H). lia.
    - split; cbn; auto; try discriminate. rewrite inputs_app. cbn. rewrite app_nil_r. exact Hi.
  Qed.

  Lemma wake_step_pushes : forall s : pstate, 0 < pipe s ->
    In EvWake (events (wake_step s)) /\ g_owed_wake (wake_step s) = false
    /\ pipe (wake_step s) = pipe s - Nat.min (pipe s) 1024.
  Proof.
    intros s Hp. unfold wake_step. destruct (Nat.min (pipe s) 1024) eqn:En; [lia|].
    cbn. split; [apply in_or_app; right; now left|]. auto.
  Qed.

  (* queueing input tokens one by one *)
  Lemma push_inputs : forall (got : list T) (s : pstate),
    let s' := fold_left (fun st t => push st (EvInput t)) got s in
    events s' = events s ++ map EvInput got
    /\ pipe s' = pipe s /\ termsig s' = termsig s /\ winch s' = winch s /\ sigpipe s' = sigpipe s
    /\ inq s' = inq s /\ g_owed_wake s' = g_owed_wake s /\ g_owed_winch s' = g_owed_winch s
    /\ g_arrived s' = g_arrived s /\ g_returned s' = g_returned s /\ io s' = io s
    /\ saved s' = saved s /\ cur s' = cur s /\ hup s' = hup s /\ sig_closed s' = sig_closed s.
  Proof.
    induction got as [|t got IH]; intro s; cbn.
    - rewrite app_nil_r. repeat split; reflexivity.
    - specialize (IH (push s (EvInput t))). cbn in IH.
      destruct IH as (He & H1 & H2 & H3 & H4 & H5 & H6 & H7 & H8 & H9 & H10 & H11 & H12 & H13 & H14).
      rewrite He. cbn. rewrite <- app_assoc. cbn.
      repeat split; assumption.
  Qed.

  Lemma inputs_map_input : forall got : list T, inputs (map EvInput got) = got.
  Proof. induction got; cbn; auto. now f_equal. Qed.

  Lemma PI_in_step : forall (s : pstate) take, PI s ->
    match in_step s take with inl s' => PI s' | inr s' => PI s' end.
  Proof.
    intros s take HP. pose proof HP as [Hw Hc Ht Hi]. unfold in_step.
    destruct (inq s) as [|t0 rest] eqn:Eq; [exact HP|].
    set (n := Nat.max 1 take).
    match goal with |- PI (fold_left _ ?got ?s1) =>
      destruct (push_inputs got s1) as (He & H1 & H2 & H3 & H4 & H5 & H6 & H7 & H8 & H9 & _) end.
    split.
    - rewrite H6, H1. exact Hw.
    - rewrite H7, H3. exact Hc.
    - rewrite H2, H4. exact Ht.
    - rewrite H9, H8, He, H5. cbn [events inq g_returned g_arrived].
      rewrite inputs_app, inputs_map_input, <- !app_assoc, (firstn_skipn n). exact Hi.
  Qed.

  Lemma PI_pop_ret : forall s : pstate, PI s -> PI (snd (pop_ret s)).
  Proof.
    intros s HP. pose proof HP as [Hw Hc Ht Hi]. unfold pop_ret.
    destruct (events s) as [|e rest] eqn:Ee; [exact HP|]. cbn [snd].
    split; cbn; auto. rewrite inputs_app, <- Hi, <- !app_assoc. f_equal.
    cbn. rewrite app_nil_r. destruct e; reflexivity.
  Qed.

  Lemma PI_poll_round : forall (s : pstate) t', PI s -> PI (upd_io s t').
  Proof. intros. now apply PI_upd_io. Qed.

  Lemma PI_write_step : forall (s0 : pstate) r w, PI s0 ->
    match write_step s0 r w with inl s1 => PI s1 | inr _ => True end.
  Proof.
    intros s0 r w H0. unfold write_step. destruct w; [|exact H0].
    destruct (r_wr_err r || hup _); [exact I|].
    destruct (r_accept r); [|exact H0].
    destruct (poll_round _ _); try exact I. now apply PI_upd_io.
  Qed.

  Lemma PI_reads : forall (s1 : pstate) r a b c, PI s1 ->
    match reads s1 r a b c with inl (_, s') => PI s' | inr s' => PI s' end.
  Proof.
    intros s1 r a b c H1. unfold reads.
    set (s2 := arrive_all s1 (r_sig r)).
    assert (H2 : PI s2) by now apply PI_arrive_all.
    assert (H3 : match (if a then sig_step s2 else inl s2) with
                 | inl s3 => PI s3 | inr (_, s3) => PI s3 end).
    { destruct a; [now apply PI_sig_step|exact H2]. }
    destruct (if a then sig_step s2 else inl s2) as [s3|[eq sq]]; [|exact H3].
    set (s4 := arrive_all s3 (r_wk r)).
    assert (H4 : PI s4) by now apply PI_arrive_all.
    set (s5 := if b then wake_step s4 else s4).
    assert (H5 : PI s5) by (unfold s5; destruct b; [now apply PI_wake_step|exact H4]).
    set (s6 := arrive_all s5 (r_in r)).
    assert (H6 : PI s6) by now apply PI_arrive_all.
    destruct c.
    - pose proof (PI_in_step s6 (r_take r) H6) as H7.
      destruct (in_step s6 (r_take r)); exact H7.
    - exact H6.
  Qed.

  Lemma PI_round_body : forall (s : pstate) r nodelay, PI s ->
    match round_body s r nodelay with
    | inl (_, s') => PI s'
    | inr (s', _) => PI s'
    end.
  Proof.
    intros s r nodelay HP. unfold round_body.
    set (s0 := arrive_all s (r_before r)).
    assert (H0 : PI s0) by now apply PI_arrive_all.
    destruct (negb _ && nodelay && negb (wake_queued s)); [exact H0|].
    match goal with |- context [write_step s0 r ?w] =>
      pose proof (PI_write_step s0 r w H0) as HW; destruct (write_step s0 r w) as [s1|e] end;
      [|exact H0].
    match goal with |- context [reads s1 r ?a ?b ?c] =>
      pose proof (PI_reads s1 r a b c HW) as HR; destruct (reads s1 r a b c) as [[res s']|s'] end; exact HR.
  Qed.

  Lemma PI_poll_loop : forall sched finite first (s : pstate), PI s ->
    PI (snd (fst (poll_loop finite first s sched))).
  Proof.
    induction sched as [|r rest IH]; intros finite first s HP; cbn [poll_loop].
    - destruct (_ && _); cbn; [now apply PI_pop_ret|exact HP].
    - destruct (queue_empty s && _); [cbn; now apply PI_pop_ret|].
      destruct (finite && r_expired r && negb first); [cbn; now apply PI_pop_ret|].
      destruct (r_eintr r); [apply IH; now apply PI_arrive_all|].
      pose proof (PI_round_body s r (negb finite) HP) as Hb.
      destruct (round_body s r (negb finite)) as [[res s']|[s' w]]; [exact Hb|].
      destruct (wake_queued s' && negb w); [cbn; now apply PI_pop_ret|apply IH, Hb].
  Qed.

  (* the invariant holds after every poll, whatever the schedule and however the poll ends *)
  Theorem PI_poll : forall finite (s : pstate) sched, PI s -> PI (snd (fst (poll finite s sched))).
  Proof. intros. unfold poll. apply PI_poll_loop. now apply PI_upd_io. Qed.

  (* ---------------------------------------------------------------- a wake stays in the pipeline *)
  Definition Wk (s : pstate) : Prop := 0 < pipe s \/ In EvWake (events s).

  Lemma Wk_arrive : forall (s : pstate) m, Wk s -> Wk (arrive s m).
  Proof.
    intros s m [H|H]; destruct m; cbn; try destruct (sig_closed s); unfold Wk; cbn; auto.
    all: left; lia.
  Qed.

  Lemma Wk_arrive_all : forall ms (s : pstate), Wk s -> Wk (arrive_all s ms).
  Proof.
    unfold arrive_all. induction ms as [|m ms IH]; intros s H; cbn; auto. apply IH, Wk_arrive, H.
  Qed.

  Lemma pipe_arrive_pos : forall (s : pstate) m, 0 < pipe s -> 0 < pipe (arrive s m).
  Proof.
    intros s m H. destruct m; cbn; try destruct (sig_closed s); cbn; auto. all: lia.
  Qed.

  Lemma pipe_arrive_all_pos : forall ms (s : pstate), 0 < pipe s -> 0 < pipe (arrive_all s ms).
  Proof.
    unfold arrive_all. induction ms as [|m ms IH]; intros s H; cbn; auto.
    apply IH, pipe_arrive_pos, H.
  Qed.

  Lemma Wk_sig_step : forall s : pstate, Wk s ->
    match sig_step s with inl s' => Wk s' | inr (_, s') => Wk s' end.
  Proof.
    intros s H. unfold sig_step.
    assert (H2 : forall s2 : pstate, pipe s2 = pipe s -> (forall e, In e (events s) -> In e (events s2)) -> Wk s2).
    { intros s2 Hp He. destruct H as [H|H]; [left; lia|right; auto]. }
    destruct (winch s && hup s); [apply H2; cbn; auto|].
    destruct (termsig s), (winch s); apply H2; cbn; auto; intros e He; apply in_or_app; now left.
  Qed.

  Lemma sig_step_pipe : forall s : pstate,
    match sig_step s with inl s' => pipe s' = pipe s | inr (_, s') => pipe s' = pipe s end.
  Proof. intro s. unfold sig_step. destruct (winch s && hup s), (termsig s), (winch s); reflexivity. Qed.

  Lemma Wk_wake_step : forall s : pstate, Wk s -> Wk (wake_step s).
  Proof.
    intros s [H|H].
    - right. apply (wake_step_pushes s H).
    - right. unfold wake_step. destruct (Nat.min (pipe s) 1024); cbn; auto.
      apply in_or_app. now left.
  Qed.

  Lemma events_in_step : forall (s : pstate) take e,
    In e (events s) ->
    match in_step s take with inl s' => In e (events s') | inr s' => In e (events s') end.
  Proof.
    intros s take e H. unfold in_step. destruct (inq s) as [|t0 rest]; [exact H|].
    match goal with |- In e (events (fold_left _ ?got ?s1)) =>
      destruct (push_inputs got s1) as (He & _) end.
    rewrite He. apply in_or_app. now left.
  Qed.

  Lemma in_step_pipe : forall (s : pstate) take,
    match in_step s take with inl s' => pipe s' = pipe s | inr s' => pipe s' = pipe s end.
  Proof.
    intros s take. unfold in_step. destruct (inq s) as [|t0 rest]; [reflexivity|].
    match goal with |- pipe (fold_left _ ?got ?s1) = _ =>
      destruct (push_inputs got s1) as (_ & Hp & _) end.
    exact Hp.
  Qed.

  Lemma Wk_in_step : forall (s : pstate) take, Wk s ->
    match in_step s take with inl s' => Wk s' | inr s' => Wk s' end.
  Proof.
    intros s take [H|H].
    - pose proof (in_step_pipe s take) as Hp. destruct (in_step s take); left; lia.
    - pose proof (events_in_step s take EvWake H) as He. destruct (in_step s take); right; exact He.
  Qed.

  Lemma Wk_write_step : forall (s0 : pstate) r w, Wk s0 ->
    match write_step s0 r w with inl s1 => Wk s1 | inr _ => True end.
  Proof.
    intros s0 r w H. unfold write_step. destruct w; [|exact H].
    destruct (r_wr_err r || hup _); [exact I|]. destruct (r_accept r); [|exact H].
    destruct (poll_round _ _); try exact I. exact H.
  Qed.

  Lemma Wk_reads : forall (s1 : pstate) r a b c, Wk s1 ->
    match reads s1 r a b c with inl (_, s') => Wk s' | inr s' => Wk s' end.
  Proof.
    intros s1 r a b c H1. unfold reads.
    set (s2 := arrive_all s1 (r_sig r)).
    assert (H2 : Wk s2) by now apply Wk_arrive_all.
    assert (H3 : match (if a then sig_step s2 else inl s2) with
                 | inl s3 => Wk s3 | inr (_, s3) => Wk s3 end).
    { destruct a; [now apply Wk_sig_step|exact H2]. }
    destruct (if a then sig_step s2 else inl s2) as [s3|[eq sq]]; [|exact H3].
    set (s4 := arrive_all s3 (r_wk r)).
    assert (H4 : Wk s4) by now apply Wk_arrive_all.
    set (s5 := if b then wake_step s4 else s4).
    assert (H5 : Wk s5) by (unfold s5; destruct b; [now apply Wk_wake_step|exact H4]).
    set (s6 := arrive_all s5 (r_in r)).
    assert (H6 : Wk s6) by now apply Wk_arrive_all.
    destruct c.
    - pose proof (Wk_in_step s6 (r_take r) H6) as H7. destruct (in_step s6 (r_take r)); exact H7.
    - exact H6.
  Qed.

  Lemma Wk_round_body : forall (s : pstate) r nodelay, Wk s ->
    match round_body s r nodelay with inl (_, s') => Wk s' | inr (s', _) => Wk s' end.
  Proof.
    intros s r nodelay HP. unfold round_body.
    set (s0 := arrive_all s (r_before r)).
    assert (H0 : Wk s0) by now apply Wk_arrive_all.
    destruct (negb _ && nodelay && negb (wake_queued s)); [exact H0|].
    match goal with |- context [write_step s0 r ?w] =>
      pose proof (Wk_write_step s0 r w H0) as HW; destruct (write_step s0 r w) as [s1|e] end;
      [|exact H0].
    match goal with |- context [reads s1 r ?a ?b ?c] =>
      pose proof (Wk_reads s1 r a b c HW) as HR; destruct (reads s1 r a b c) as [[res s']|s'] end; exact HR.
  Qed.

  Lemma Wk_pop_ret : forall s : pstate, Wk s ->
    fst (pop_ret s) = PRet (Some EvWake) \/ Wk (snd (pop_ret s)).
  Proof.
    intros s [H|H]; unfold pop_ret; destruct (events s) as [|e rest] eqn:Ee; cbn.
    - right. left. exact H.
    - right. left. exact H.
    - contradiction.
    - destruct H as [->|H]; [now left|]. right. right. exact H.
  Qed.

  Lemma Wk_poll_loop : forall sched finite first (s : pstate), Wk s ->
    let '(res, s', _) := poll_loop finite first s sched in
    res = PRet (Some EvWake) \/ Wk s'.
  Proof.
    induction sched as [|r rest IH]; intros finite first s HP; cbn [poll_loop].
    - destruct (_ && _).
      + pose proof (Wk_pop_ret s HP). destruct (pop_ret s). exact H.
      + right. exact HP.
    - destruct (queue_empty s && _).
      { pose proof (Wk_pop_ret s HP). destruct (pop_ret s). exact H. }
      destruct (finite && r_expired r && negb first).
      { pose proof (Wk_pop_ret s HP). destruct (pop_ret s). exact H. }
      destruct (r_eintr r); [apply IH; now apply Wk_arrive_all|].
      pose proof (Wk_round_body s r (negb finite) HP) as Hb.
      destruct (round_body s r (negb finite)) as [[res s']|[s' w]]; [right; exact Hb|].
      destruct (wake_queued s' && negb w); [|apply IH, Hb].
      pose proof (Wk_pop_ret s' Hb). destruct (pop_ret s'). exact H.
  Qed.

  (* A wake request is never lost: once a byte is in the waker socket or a Wake event is queued,
     every poll - whatever the schedule, however it ends - either returns the Wake event or leaves
     the wake in the pipeline (socket non-empty or Wake still queued). *)
  Theorem wake_not_lost : forall finite (s : pstate) sched, Wk s ->
    let '(res, s', _) := poll finite s sched in
    res = PRet (Some EvWake) \/ Wk s'.
  Proof. intros. unfold poll. apply Wk_poll_loop. exact H. Qed.

  (* progress: an iteration that gets through select with a byte in the socket queues Wake *)
  Lemma reads_wake : forall (s1 : pstate) r a c s',
    0 < pipe s1 -> reads s1 r a true c = inr s' -> In EvWake (events s').
  Proof.
    intros s1 r a c s' Hp. unfold reads.
    set (s2 := arrive_all s1 (r_sig r)).
    assert (H2 : 0 < pipe s2) by now apply pipe_arrive_all_pos.
    assert (H3 : match (if a then sig_step s2 else inl s2) with
                 | inl s3 => 0 < pipe s3 | inr _ => True end).
    { destruct a; [|exact H2]. pose proof (sig_step_pipe s2). destruct (sig_step s2) as [?|[? ?]]; auto. lia. }
    destruct (if a then sig_step s2 else inl s2) as [s3|[eq sq]]; [|discriminate].
    set (s4 := arrive_all s3 (r_wk r)).
    assert (H4 : 0 < pipe s4) by now apply pipe_arrive_all_pos.
    destruct (wake_step_pushes s4 H4) as (Hin & _).
    set (s5 := wake_step s4) in *.
    set (s6 := arrive_all s5 (r_in r)).
    assert (H6 : In EvWake (events s6)).
    { clear - Hin. unfold s6, arrive_all. generalize dependent s5.
      induction (r_in r) as [|m ms IH]; intros s5 Hin; cbn; auto. apply IH.
      destruct m; cbn; try destruct (sig_closed s5); cbn; auto. }
    destruct c.
    - pose proof (events_in_step s6 (r_take r) EvWake H6) as H7.
      destruct (in_step s6 (r_take r)); [|discriminate]. intro E. inversion E; subst. exact H7.
    - intro E. inversion E; subst. exact H6.
  Qed.

  Theorem round_queues_wake : forall (s : pstate) r nodelay s' w,
    0 < pipe (arrive_all s (r_before r)) -> round_body s r nodelay = inr (s', w) ->
    In EvWake (events s').
  Proof.
    intros s r nodelay s' w Hp. unfold round_body.
    set (s0 := arrive_all s (r_before r)) in *.
    assert (Hw : (0 <? pipe s0) = true) by now apply Nat.ltb_lt.
    rewrite Hw. destruct (negb _ && nodelay && negb (wake_queued s)); [discriminate|].
    match goal with |- context [write_step s0 r ?w] =>
      assert (Hws : match write_step s0 r w with inl s1 => pipe s1 = pipe s0 | inr _ => True end) end.
    { unfold write_step. destruct (_ && _); auto. destruct (r_wr_err r || hup _); auto.
      destruct (r_accept r); auto. destruct (poll_round _ _); auto. }
    match goal with |- context [write_step s0 r ?w] => destruct (write_step s0 r w) as [s1|e] end;
      [|discriminate].
    match goal with |- context [reads s1 r ?a true ?c] => destruct (reads s1 r a true c) as [x|s7] eqn:Er end;
      [discriminate|].
    intro E. inversion E; subst. eapply reads_wake; [|exact Er]. lia.
  Qed.

  (* ... and the same for SIGWINCH: an iteration that gets through select with the flag set and
     the signal pipe readable, and that completes (no hang-up, no termination signal with it),
     has queued a Resize event *)
  Lemma events_arrive : forall (s : pstate) m e, In e (events s) -> In e (events (arrive s m)).
  Proof. intros s m e H. destruct m; cbn; try destruct (sig_closed s); cbn; auto. Qed.

  Lemma events_arrive_all : forall ms (s : pstate) e, In e (events s) -> In e (events (arrive_all s ms)).
  Proof.
    unfold arrive_all. induction ms as [|m ms IH]; intros s e H; cbn; auto.
    apply IH, events_arrive, H.
  Qed.

  Lemma events_wake_step : forall (s : pstate) e, In e (events s) -> In e (events (wake_step s)).
  Proof.
    intros s e H. unfold wake_step. destruct (Nat.min (pipe s) 1024); cbn; auto.
    apply in_or_app. now left.
  Qed.

  Lemma winch_arrive_all : forall ms (s : pstate),
    winch s = true -> sigpipe s = true ->
    winch (arrive_all s ms) = true /\ sigpipe (arrive_all s ms) = true.
  Proof.
    unfold arrive_all. induction ms as [|m ms IH]; intros s Hw Hs; cbn; auto.
    apply IH; destruct m; cbn; try destruct (sig_closed s); cbn; auto.
  Qed.

  Lemma reads_resize : forall (s1 : pstate) r b c s',
    winch s1 = true -> sigpipe s1 = true ->
    reads s1 r true b c = inr s' -> In EvResize (events s').
  Proof.
    intros s1 r b c s' Hw Hs. unfold reads.
    destruct (winch_arrive_all (r_sig r) s1 Hw Hs) as [Hw2 _].
    set (s2 := arrive_all s1 (r_sig r)) in *.
    unfold sig_step. rewrite Hw2. cbn [andb].
    destruct (hup s2); [discriminate|]. destruct (termsig s2); [discriminate|].
    match goal with |- context [arrive_all (push ?x EvResize) (r_wk r)] => set (s3 := push x EvResize) end.
    assert (H3 : In EvResize (events s3)) by (cbn; apply in_or_app; right; now left).
    set (s4 := arrive_all s3 (r_wk r)).
    assert (H4 : In EvResize (events s4)) by now apply events_arrive_all.
    set (s5 := if b then wake_step s4 else s4).
    assert (H5 : In EvResize (events s5)) by (unfold s5; destruct b; auto using events_wake_step).
    set (s6 := arrive_all s5 (r_in r)).
    assert (H6 : In EvResize (events s6)) by now apply events_arrive_all.
    destruct c.
    - pose proof (events_in_step s6 (r_take r) EvResize H6) as H7.
      destruct (in_step s6 (r_take r)); [|discriminate]. intro E. inversion E; subst. exact H7.
    - intro E. inversion E; subst. exact H6.
  Qed.

  Theorem round_queues_resize : forall (s : pstate) r nodelay s' w,
    winch (arrive_all s (r_before r)) = true -> sigpipe (arrive_all s (r_before r)) = true ->
    round_body s r nodelay = inr (s', w) ->
    In EvResize (events s').
  Proof.
    intros s r nodelay s' w Hw Hs. unfold round_body.
    set (s0 := arrive_all s (r_before r)) in *.
    rewrite Hs. rewrite orb_true_r. cbn [orb negb andb].
    match goal with |- context [write_step s0 r ?w] =>
      assert (Hws : match write_step s0 r w with inl s1 => winch s1 = true /\ sigpipe s1 = true | inr _ => True end) end.
    { unfold write_step. destruct (_ && _); auto. destruct (r_wr_err r || hup _); auto.
      destruct (r_accept r); auto. destruct (poll_round _ _); auto. }
    match goal with |- context [write_step s0 r ?w] => destruct (write_step s0 r w) as [s1|e] end;
      [|discriminate].
    destruct Hws as [Hw1 Hs1].
    match goal with |- context [reads s1 r true ?b ?c] => destruct (reads s1 r true b c) as [x|s7] eqn:Er end;
      [discriminate|].
    intro E. inversion E; subst. eapply reads_resize; [exact Hw1|exact Hs1|exact Er].
  Qed.

  (* events leave in the order they were queued *)
  Theorem poll_returns_oldest : forall s : pstate,
    fst (pop_ret s) = PRet (hd_error (events s)) /\ events (snd (pop_ret s)) = tl (events s).
  Proof. intro s. unfold pop_ret. destruct (events s) eqn:E; cbn; rewrite ?E; auto. Qed.

  (* ---------------------------------------------------------------- termination signals *)
  Theorem term_signal_quits : forall (s : pstate) r nodelay,
    PI s -> termsig (arrive_all s (r_before r)) = true ->
    match round_body s r nodelay with
    | inl (PErr _, _) => True
    | _ => False
    end.
  Proof.
    intros s r nodelay HP Ht. unfold round_body.
    set (s0 := arrive_all s (r_before r)) in *.
    assert (H0 : PI s0) by now apply PI_arrive_all.
    pose proof (pi_term s0 H0 Ht) as Hsp. rewrite Hsp.
    rewrite orb_true_r. cbn [orb negb andb].
    match goal with |- context [write_step s0 r ?w] =>
      assert (Hws : match write_step s0 r w with inl s1 => termsig s1 = true | inr _ => True end) end.
    { unfold write_step. destruct (_ && _); auto. destruct (r_wr_err r || hup _); auto.
      destruct (r_accept r); auto. destruct (poll_round _ _); auto. }
    match goal with |- context [write_step s0 r ?w] => destruct (write_step s0 r w) as [s1|e] end;
      [|exact I].
    unfold reads. set (s2 := arrive_all s1 (r_sig r)).
    assert (H2 : termsig s2 = true).
    { clear - Hws. unfold s2, arrive_all. generalize dependent s1.
      induction (r_sig r) as [|m ms IH]; intros s1 H; cbn; auto. apply IH.
      destruct m; cbn; try destruct (sig_closed s1); cbn; auto. }
    unfold sig_step. rewrite H2. destruct (winch s2 && hup s2); exact I.
  Qed.

  (* ---------------------------------------------------------------- what poll never touches *)
  (* saved settings, current settings and the output stream's content are only changed by the
     steps named below; `Same` collects the fields every other step leaves alone *)
  Definition Same (s s' : pstate) : Prop :=
    saved s' = saved s /\ cur s' = cur s /\ sig_closed s' = sig_closed s /\ io s' = io s.

  Lemma Same_refl : forall s : pstate, Same s s.
  Proof. intro s. repeat split. Qed.

  Lemma Same_trans : forall s1 s2 s3 : pstate, Same s1 s2 -> Same s2 s3 -> Same s1 s3.
  Proof. intros s1 s2 s3 (a & b & c & d) (a' & b' & c' & d'). repeat split; congruence. Qed.

  Lemma Same_arrive : forall (s : pstate) m, Same s (arrive s m).
  Proof.
    intros s m. unfold Same. destruct m; cbn; try (destruct (sig_closed s) eqn:E; cbn; rewrite ?E);
      repeat split; reflexivity.
  Qed.

  Lemma Same_arrive_all : forall ms (s : pstate), Same s (arrive_all s ms).
  Proof.
    unfold arrive_all. induction ms as [|m ms IH]; intro s; cbn; [apply Same_refl|].
    eapply Same_trans; [apply Same_arrive|apply IH].
  Qed.

  Lemma Same_sig_step : forall s : pstate,
    match sig_step s with inl s' => Same s s' | inr (_, s') => Same s s' end.
  Proof. intro s. unfold sig_step. destruct (winch s && hup s), (termsig s), (winch s); repeat split. Qed.

  Lemma Same_wake_step : forall s : pstate, Same s (wake_step s).
  Proof. intro s. unfold wake_step. destruct (Nat.min (pipe s) 1024); repeat split. Qed.

  Lemma Same_in_step : forall (s : pstate) take,
    match in_step s take with inl s' => Same s s' | inr s' => Same s s' end.
  Proof.
    intros s take. unfold in_step. destruct (inq s) as [|t0 rest]; [apply Same_refl|].
    match goal with |- Same s (fold_left _ ?got ?s1) =>
      destruct (push_inputs got s1) as (_ & _ & _ & _ & _ & _ & _ & _ & _ & _ & Hio & Hs & Hc & _ & Hcl) end.
    repeat split; assumption.
  Qed.

  Lemma Same_pop_ret : forall s : pstate, Same s (snd (pop_ret s)).
  Proof. intro s. unfold pop_ret. destruct (events s); repeat split. Qed.

  Lemma Same_reads : forall (s1 : pstate) r a b c,
    match reads s1 r a b c with inl (_, s') => Same s1 s' | inr s' => Same s1 s' end.
  Proof.
    intros s1 r a b c. unfold reads.
    set (s2 := arrive_all s1 (r_sig r)).
    assert (H2 : Same s1 s2) by apply Same_arrive_all.
    assert (H3 : match (if a then sig_step s2 else inl s2) with
                 | inl s3 => Same s1 s3 | inr (_, s3) => Same s1 s3 end).
    { destruct a; [|exact H2]. pose proof (Same_sig_step s2).
      destruct (sig_step s2) as [?|[? ?]]; eapply Same_trans; eauto. }
    destruct (if a then sig_step s2 else inl s2) as [s3|[eq sq]]; [|exact H3].
    set (s4 := arrive_all s3 (r_wk r)).
    assert (H4 : Same s1 s4) by (eapply Same_trans; [exact H3|apply Same_arrive_all]).
    set (s5 := if b then wake_step s4 else s4).
    assert (H5 : Same s1 s5).
    { unfold s5. destruct b; [|exact H4]. eapply Same_trans; [exact H4|apply Same_wake_step]. }
    set (s6 := arrive_all s5 (r_in r)).
    assert (H6 : Same s1 s6) by (eapply Same_trans; [exact H5|apply Same_arrive_all]).
    destruct c; [|exact H6].
    pose proof (Same_in_step s6 (r_take r)) as H7.
    destruct (in_step s6 (r_take r)); eapply Same_trans; eauto.
  Qed.

  (* ---------------------------------------------------------------- the output stream *)
  Definition stream (s : pstate) : list A := tty (io s) ++ pending (tq (io s)).

  Definition QI (s : pstate) : Prop :=
    Inv (tq (io s)) /\ (N.of_nat (total_len (chunks (tq (io s)))) <= usize_max)%N.

  Definition Out (s s' : pstate) : Prop :=
    saved s' = saved s /\ cur s' = cur s /\ sig_closed s' = sig_closed s
    /\ stream s' = stream s /\ QI s' /\ exists out, tty (io s') = tty (io s) ++ out.

  Lemma Out_of_Same : forall s s' : pstate, QI s -> Same s s' -> Out s s'.
  Proof.
    intros s s' HQ (a & b & c & d). unfold Out, stream, QI in *. rewrite d.
    split; auto. split; auto. split; auto. split; auto. split; [exact HQ|]. exists []. now rewrite app_nil_r.
  Qed.

  Lemma Out_QI : forall s s' : pstate, Out s s' -> QI s'.
  Proof. intros s s' (_ & _ & _ & _ & H & _). exact H. Qed.

  Lemma Out_trans : forall s1 s2 s3 : pstate, Out s1 s2 -> Out s2 s3 -> Out s1 s3.
  Proof.
    intros s1 s2 s3 (a & b & c & d & e & o1 & Ho1) (a' & b' & c' & d' & e' & o2 & Ho2).
    split; [congruence|]. split; [congruence|]. split; [congruence|]. split; [congruence|].
    split; [exact e'|]. exists (o1 ++ o2). rewrite Ho2, Ho1. now rewrite app_assoc.
  Qed.

  Lemma poll_round_stream : forall (t : term A) k,
    Inv (tq t) -> (N.of_nat (total_len (chunks (tq t))) <= usize_max)%N ->
    exists t', poll_round t (KAccept k) = Ok t'
      /\ tty t' ++ pending (tq t') = tty t ++ pending (tq t)
      /\ Inv (tq t') /\ total_len (chunks (tq t')) <= total_len (chunks (tq t))
      /\ exists out, tty t' = tty t ++ out.
  Proof.
    intros t k HI HB. cbn [poll_round].
    destruct (is_empty (tq t)).
    { exists t. split; auto. split; auto. split; auto. split; auto. exists []. now rewrite app_nil_r. }
    pose proof (offset_le_total (tq t) (inv_off _ HI)) as Hot.
    unfold consume_with. rewrite (as_slice_ok (tq t) (inv_off _ HI)). cbn [bind].
    set (s := front_slice (tq t)) in *. set (size := consumer k true s).
    assert (Hsize : (size <= N.of_nat (length s))%N) by (unfold size, consumer; lia).
    destruct (consume_take (tq t) size HI) as (q' & E & Ht); [lia|].
    rewrite E. cbn [bind].
    destruct (take_sound (tq t) size q' HI Ht) as (HI' & Htot & _ & Hp).
    eexists. split; [reflexivity|]. cbn [tq tty]. split; [|split; [auto|split; [auto|eexists; reflexivity]]].
    rewrite Hp. fold s. unfold taken.
    replace (N.min size (N.of_nat (length s))) with size by lia.
    now rewrite <- app_assoc.
  Qed.

  Lemma Out_write_step : forall (s0 : pstate) r w, QI s0 ->
    match write_step s0 r w with inl s1 => Out s0 s1 | inr _ => True end.
  Proof.
    intros s0 r w [HI HB]. unfold write_step.
    destruct w; [|apply Out_of_Same; [split; auto|apply Same_refl]].
    destruct (r_wr_err r || hup _); [exact I|].
    destruct (r_accept r) as [k|]; [|apply Out_of_Same; [split; auto|apply Same_refl]].
    destruct (poll_round_stream (io s0) k HI HB) as (t' & E & Hs & HI' & Htot & Hout). rewrite E.
    unfold Out, stream, QI, upd_io. cbn [saved cur sig_closed io].
    split; [reflexivity|]. split; [reflexivity|]. split; [reflexivity|]. split; [exact Hs|].
    split; [split; [exact HI'|lia]|exact Hout].
  Qed.

  Lemma Out_round_body : forall (s : pstate) r nodelay, QI s ->
    match round_body s r nodelay with inl (_, s') => Out s s' | inr (s', _) => Out s s' end.
  Proof.
    intros s r nodelay HQ. unfold round_body.
    set (s0 := arrive_all s (r_before r)).
    assert (H0 : Out s s0) by (apply Out_of_Same; [exact HQ|apply Same_arrive_all]).
    destruct (negb _ && nodelay && negb (wake_queued s)); [exact H0|].
    match goal with |- context [write_step s0 r ?w] =>
      pose proof (Out_write_step s0 r w (Out_QI _ _ H0)) as HW;
      destruct (write_step s0 r w) as [s1|e] end; [|exact H0].
    pose proof (Same_reads s1 r (sigpipe s0) (0 <? pipe s0)
                  ((match inq s0 with [] => false | _ => true end) || hup s0)) as HR.
    assert (H1 : Out s s1) by (eapply Out_trans; eauto).
    destruct (reads s1 r _ _ _) as [[res s']|s'];
      (eapply Out_trans; [exact H1|apply Out_of_Same; [apply (Out_QI _ _ H1)|exact HR]]).
  Qed.

  Lemma Out_poll_loop : forall sched finite first (s : pstate), QI s ->
    Out s (snd (fst (poll_loop finite first s sched))).
  Proof.
    induction sched as [|r rest IH]; intros finite first s HQ; cbn [poll_loop].
    - destruct (_ && _); cbn; apply Out_of_Same; auto; [apply Same_pop_ret|apply Same_refl].
    - destruct (queue_empty s && _); [cbn; apply Out_of_Same; auto; apply Same_pop_ret|].
      destruct (finite && r_expired r && negb first);
        [cbn; apply Out_of_Same; auto; apply Same_pop_ret|].
      destruct (r_eintr r).
      + assert (H0 : Out s (arrive_all s (r_before r)))
          by (apply Out_of_Same; [exact HQ|apply Same_arrive_all]).
        eapply Out_trans; [exact H0|]. apply IH. apply (Out_QI _ _ H0).
      + pose proof (Out_round_body s r (negb finite) HQ) as Hb.
        destruct (round_body s r (negb finite)) as [[res s']|[s' w]]; [exact Hb|].
        destruct (wake_queued s' && negb w).
        * cbn. eapply Out_trans; [exact Hb|]. apply Out_of_Same; [apply (Out_QI _ _ Hb)|apply Same_pop_ret].
        * eapply Out_trans; [exact Hb|]. apply IH. apply (Out_QI _ _ Hb).
  Qed.

  (* a poll changes neither the saved nor the current line settings, and moves bytes from the
     queue to the tty without losing, duplicating or reordering any *)
  Theorem Out_poll : forall finite (s : pstate) sched, QI s ->
    Out s (snd (fst (poll finite s sched))).
  Proof.
    intros finite s sched [HI HB]. unfold poll.
    set (s1 := upd_io s _).
    assert (H1 : Out s s1).
    { unfold Out, stream, QI, s1, upd_io. cbn [saved cur sig_closed io tq tty].
      rewrite pending_flush.
      split; [reflexivity|]. split; [reflexivity|]. split; [reflexivity|]. split; [reflexivity|].
      split; [|exists []; now rewrite app_nil_r].
      split; [now apply Inv_flush|].
      destruct (flush_cases (tq (io s))) as [[_ ->]|[_ ->]]; auto.
      unfold total_len in *. cbn [chunks]. rewrite concat_app, app_length. cbn. lia. }
    eapply Out_trans; [exact H1|]. apply Out_poll_loop. apply (Out_QI _ _ H1).
  Qed.

  (* ---------------------------------------------------------------- a poll with a wake in the pipeline does not sleep *)
  Lemma reads_not_blocked : forall (s1 : pstate) r a b c x, reads s1 r a b c = inl x -> fst x <> PBlocked.
  Proof.
    intros s1 r a b c x. unfold reads.
    destruct (if a then sig_step _ else inl _) as [?|[? ?]]; [|intro E; inversion E; discriminate].
    destruct (if c then in_step _ _ else inl _); intro E; inversion E; discriminate.
  Qed.

  Lemma wake_queued_in : forall s : pstate, In EvWake (events s) -> wake_queued s = true.
  Proof. intros s H. unfold wake_queued. apply existsb_exists. exists EvWake. auto. Qed.

  Lemma wake_queued_nonempty : forall s : pstate, wake_queued s = true -> events s <> [].
  Proof. intros s H E. unfold wake_queued in H. rewrite E in H. discriminate. Qed.

  Lemma round_not_blocked : forall (s : pstate) r nodelay x, Wk s ->
    round_body s r nodelay = inl x -> fst x <> PBlocked.
  Proof.
    intros s r nodelay x HW. unfold round_body.
    set (s0 := arrive_all s (r_before r)).
    assert (Hc : (negb
                   (negb (queue_empty s0) && (match r_accept r with Some _ => true | None => r_wr_err r end || hup s0)
                    || sigpipe s0 || (0 <? pipe s0) || (match inq s0 with [] => false | _ => true end || hup s0))
                  && nodelay && negb (wake_queued s)) = false).
    { destruct HW as [Hp|He].
      - assert (H0 : (0 <? pipe s0) = true) by (apply Nat.ltb_lt; now apply pipe_arrive_all_pos).
        rewrite H0. rewrite orb_true_r. cbn. reflexivity.
      - rewrite (wake_queued_in s He). now rewrite andb_false_r. }
    rewrite Hc.
    destruct (write_step _ _ _); [|intro E; inversion E; discriminate].
    destruct (reads _ _ _ _ _) as [y|y] eqn:Er; [|discriminate].
    intro E. inversion E; subst. eapply reads_not_blocked; eauto.
  Qed.

  Lemma poll_loop_not_blocked : forall sched finite first (s : pstate), Wk s ->
    fst (fst (poll_loop finite first s sched)) <> PBlocked.
  Proof.
    induction sched as [|r rest IH]; intros finite first s HW; cbn [poll_loop].
    - destruct (_ && _); cbn; [|discriminate]. unfold pop_ret. destruct (events s); discriminate.
    - destruct (queue_empty s && _); [unfold pop_ret; destruct (events s); discriminate|].
      destruct (finite && r_expired r && negb first); [unfold pop_ret; destruct (events s); discriminate|].
      destruct (r_eintr r); [apply IH; now apply Wk_arrive_all|].
      pose proof (Wk_round_body s r (negb finite) HW) as Hb.
      destruct (round_body s r (negb finite)) as [[res s']|[s' w]] eqn:Er.
      + cbn. apply (round_not_blocked s r (negb finite) (res, s') HW Er).
      + destruct (wake_queued s' && negb w); [unfold pop_ret; destruct (events s'); discriminate|].
        apply IH, Hb.
  Qed.

  (* with a wake in the pipeline a poll never goes to sleep: it ends with an event, an error, or
     (only because the given schedule ends) in the middle of the loop *)
  Theorem wake_never_sleeps : forall finite (s : pstate) sched, Wk s ->
    fst (fst (poll finite s sched)) <> PBlocked.
  Proof. intros. unfold poll. apply poll_loop_not_blocked. exact H. Qed.

  (* ---------------------------------------------------------------- events leave oldest first *)
  Definition Ext (s s' : pstate) : Prop := exists add, events s' = events s ++ add.

  Lemma Ext_refl : forall s : pstate, Ext s s.
  Proof. intro s. exists []. now rewrite app_nil_r. Qed.

  Lemma Ext_trans : forall s1 s2 s3 : pstate, Ext s1 s2 -> Ext s2 s3 -> Ext s1 s3.
  Proof. intros s1 s2 s3 [a Ha] [b Hb]. exists (a ++ b). now rewrite Hb, Ha, app_assoc. Qed.

  Lemma Ext_arrive_all : forall ms (s : pstate), Ext s (arrive_all s ms).
  Proof.
    unfold arrive_all. induction ms as [|m ms IH]; intro s; cbn; [apply Ext_refl|].
    eapply Ext_trans; [|apply IH]. exists []. rewrite app_nil_r.
    destruct m; cbn; try destruct (sig_closed s); reflexivity.
  Qed.

  Lemma Ext_reads : forall (s1 : pstate) r a b c,
    match reads s1 r a b c with inl (_, s') => Ext s1 s' | inr s' => Ext s1 s' end.
  Proof.
    intros s1 r a b c. unfold reads.
    set (s2 := arrive_all s1 (r_sig r)).
    assert (H2 : Ext s1 s2) by apply Ext_arrive_all.
    assert (H3 : match (if a then sig_step s2 else inl s2) with
                 | inl s3 => Ext s1 s3 | inr (_, s3) => Ext s1 s3 end).
    { destruct a; [|exact H2]. unfold sig_step.
      assert (Hx : forall s3 : pstate, (events s3 = events s2 \/ events s3 = events s2 ++ [EvResize]) -> Ext s1 s3).
      { intros s3 [E|E]; (eapply Ext_trans; [exact H2|]); [exists []; now rewrite app_nil_r|now exists [EvResize]]. }
      destruct (winch s2 && hup s2); [apply Hx; cbn; auto|].
      destruct (termsig s2), (winch s2); apply Hx; cbn; auto. }
    destruct (if a then sig_step s2 else inl s2) as [s3|[eq sq]]; [|exact H3].
    set (s4 := arrive_all s3 (r_wk r)).
    assert (H4 : Ext s1 s4) by (eapply Ext_trans; [exact H3|apply Ext_arrive_all]).
    set (s5 := if b then wake_step s4 else s4).
    assert (H5 : Ext s1 s5).
    { unfold s5. destruct b; [|exact H4]. eapply Ext_trans; [exact H4|]. unfold wake_step.
      destruct (Nat.min (pipe s4) 1024); [exists []; now rewrite app_nil_r|now exists [EvWake]]. }
    set (s6 := arrive_all s5 (r_in r)).
    assert (H6 : Ext s1 s6) by (eapply Ext_trans; [exact H5|apply Ext_arrive_all]).
    destruct c; [|exact H6]. unfold in_step. destruct (inq s6) as [|t0 rest]; [exact H6|].
    match goal with |- Ext s1 (fold_left _ ?got ?sx) => destruct (push_inputs got sx) as (He & _) end.
    eapply Ext_trans; [exact H6|]. eexists. rewrite He. reflexivity.
  Qed.

  Lemma Ext_round_body : forall (s : pstate) r nodelay,
    match round_body s r nodelay with inl (_, s') => Ext s s' | inr (s', _) => Ext s s' end.
  Proof.
    intros s r nodelay. unfold round_body.
    set (s0 := arrive_all s (r_before r)).
    assert (H0 : Ext s s0) by apply Ext_arrive_all.
    destruct (negb _ && nodelay && negb (wake_queued s)); [exact H0|].
    match goal with |- context [write_step s0 r ?w] =>
      assert (HW : match write_step s0 r w with inl s1 => Ext s s1 | inr _ => True end) end.
    { unfold write_step. destruct (_ && _); [|exact H0]. destruct (r_wr_err r || hup _); [exact I|].
      destruct (r_accept r); [|exact H0]. destruct (poll_round _ _); try exact I. exact H0. }
    match goal with |- context [write_step s0 r ?w] => destruct (write_step s0 r w) as [s1|e] end; [|exact H0].
    match goal with |- context [reads s1 r ?a ?b ?c] =>
      pose proof (Ext_reads s1 r a b c) as HR; destruct (reads s1 r a b c) as [[res s']|s'] end;
      eapply Ext_trans; eauto.
  Qed.

  Definition popped (evs : list event) (res : pres T) (s' : pstate) : Prop :=
    match evs with
    | [] => res = PRet None /\ events s' = []
    | x :: l => res = PRet (Some x) /\ events s' = l
    end.

  Lemma pop_ret_popped : forall s : pstate, popped (events s) (fst (pop_ret s)) (snd (pop_ret s)).
  Proof. intro s. unfold pop_ret, popped. destruct (events s) eqn:E; cbn; auto. Qed.

  Lemma round_inl_not_ret : forall (s : pstate) r nodelay res s' e,
    round_body s r nodelay = inl (res, s') -> res <> PRet e.
  Proof.
    intros s r nodelay res s' e. unfold round_body.
    destruct (negb _ && nodelay && negb (wake_queued s)); [intro E; inversion E; discriminate|].
    destruct (write_step _ _ _); [|intro E; inversion E; discriminate].
    unfold reads.
    destruct (if sigpipe _ then sig_step _ else inl _) as [?|[? ?]]; [|intro E; inversion E; discriminate].
    destruct (if (_ || hup _) then in_step _ _ else inl _); intro E; inversion E; discriminate.
  Qed.

  Lemma poll_loop_fifo : forall sched finite first (s : pstate) res s' rest,
    poll_loop finite first s sched = (PRet res, s', rest) ->
    exists add, popped (events s ++ add) (PRet res) s'.
  Proof.
    induction sched as [|r rest0 IH]; intros finite first s res s' rest; cbn [poll_loop].
    - destruct (_ && _); [|discriminate]. intro E. exists []. rewrite app_nil_r.
      pose proof (pop_ret_popped s) as Hp. destruct (pop_ret s). inversion E; subst. exact Hp.
    - destruct (queue_empty s && _).
      { intro E. exists []. rewrite app_nil_r.
        pose proof (pop_ret_popped s) as Hp. destruct (pop_ret s). inversion E; subst. exact Hp. }
      destruct (finite && r_expired r && negb first).
      { intro E. exists []. rewrite app_nil_r.
        pose proof (pop_ret_popped s) as Hp. destruct (pop_ret s). inversion E; subst. exact Hp. }
      destruct (r_eintr r).
      { intro E. destruct (IH _ _ _ _ _ _ E) as [add Ha]. destruct (Ext_arrive_all (r_before r) s) as [a0 H0].
        exists (a0 ++ add). rewrite app_assoc, <- H0. exact Ha. }
      pose proof (Ext_round_body s r (negb finite)) as Hb.
      destruct (round_body s r (negb finite)) as [[res1 s1]|[s1 w]] eqn:Er.
      + intro E. inversion E; subst. exfalso. eapply round_inl_not_ret; eauto.
      + destruct Hb as [a0 H0]. destruct (wake_queued s1 && negb w).
        * intro E. exists a0. rewrite <- H0.
          pose proof (pop_ret_popped s1) as Hp. destruct (pop_ret s1). inversion E; subst. exact Hp.
        * intro E. destruct (IH _ _ _ _ _ _ E) as [add Ha]. exists (a0 ++ add).
          rewrite app_assoc, <- H0. exact Ha.
  Qed.

  (* Events leave in the order they were queued: a poll that returns, returns the oldest queued
     event (None only if none was queued and none arrived), and what it leaves queued is the rest
     followed by what arrived meanwhile.  Hence an event with i events ahead of it is returned by
     the (i+1)-th poll that returns. *)
  Theorem poll_fifo : forall finite (s : pstate) sched res s' rest,
    poll finite s sched = (PRet res, s', rest) ->
    exists add, popped (events s ++ add) (PRet res) s'.
  Proof. intros finite s sched res s' rest E. unfold poll in E. apply poll_loop_fifo in E. exact E. Qed.

  (* ---------------------------------------------------------------- a poll returns *)
  (* the loop ends at the loop test as soon as an event is queued and nothing is left to write;
     with a Wake event queued it also ends after the first iteration that sent nothing *)
  Theorem returns_when_idle : forall finite first (s : pstate) sched,
    queue_empty s = true -> events s <> [] ->
    exists e, fst (fst (poll_loop finite first s sched)) = PRet (Some e).
  Proof.
    intros finite first s sched Hq He. destruct sched; cbn [poll_loop]; rewrite Hq; unfold events_empty, pop_ret;
      destruct (events s) as [|e l]; try congruence; cbn; eauto.
  Qed.

  Theorem returns_when_tty_stalls : forall finite first (s : pstate) r rest s',
    (queue_empty s && negb (events_empty s)) = false ->
    (finite && r_expired r && negb first) = false -> r_eintr r = false ->
    round_body s r (negb finite) = inr (s', false) -> wake_queued s' = true ->
    exists e, fst (fst (poll_loop finite first s (r :: rest))) = PRet (Some e).
  Proof.
    intros finite first s r rest s' H1 H2 H3 H4 H5. cbn [poll_loop]. rewrite H1, H2, H3, H4, H5.
    pose proof (wake_queued_nonempty s' H5) as Hne.
    unfold pop_ret. destruct (events s') as [|e l]; [congruence|]. cbn. eauto.
  Qed.

  (* in particular a wake request: an iteration that gets through select with a byte in the waker
     socket while the tty is not writable ends the poll at once, with an event *)
  Corollary wake_returns_now : forall finite first (s : pstate) r rest s',
    (queue_empty s && negb (events_empty s)) = false ->
    (finite && r_expired r && negb first) = false -> r_eintr r = false ->
    0 < pipe (arrive_all s (r_before r)) ->
    round_body s r (negb finite) = inr (s', false) ->
    exists e, fst (fst (poll_loop finite first s (r :: rest))) = PRet (Some e).
  Proof.
    intros finite first s r rest s' H1 H2 H3 Hp H4.
    eapply returns_when_tty_stalls; eauto.
    apply wake_queued_in. exact (round_queues_wake s r (negb finite) s' false Hp H4).
  Qed.

  (* ---------------------------------------------------------------- bounded in iterations *)
  Definition plen (s : pstate) : nat := length (pending (tq (io s))).

  Lemma poll_round_len : forall (t : term A) k,
    Inv (tq t) -> (N.of_nat (total_len (chunks (tq t))) <= usize_max)%N ->
    exists t', poll_round t (KAccept k) = Ok t'
      /\ length (pending (tq t')) <= length (pending (tq t))
      /\ (sent t' <> sent t -> length (pending (tq t')) < length (pending (tq t))).
  Proof.
    intros t k HI HB. cbn [poll_round].
    destruct (is_empty (tq t)); [exists t; split; auto; split; [lia|congruence]|].
    pose proof (offset_le_total (tq t) (inv_off _ HI)) as Hot.
    unfold consume_with. rewrite (as_slice_ok (tq t) (inv_off _ HI)). cbn [bind].
    set (sl := front_slice (tq t)) in *. set (size := consumer k true sl).
    assert (Hsize : (size <= N.of_nat (length sl))%N) by (unfold size, consumer; lia).
    destruct (consume_take (tq t) size HI) as (q' & E & Ht); [lia|].
    rewrite E. cbn [bind].
    destruct (take_sound (tq t) size q' HI Ht) as (_ & _ & _ & Hp).
    eexists. split; [reflexivity|]. cbn [tq sent]. rewrite Hp. fold sl. unfold taken.
    replace (N.min size (N.of_nat (length sl))) with size by lia.
    rewrite app_length, firstn_length. split; lia.
  Qed.

  Lemma round_body_len : forall (s : pstate) r nodelay s' sp, QI s ->
    round_body s r nodelay = inr (s', sp) ->
    plen s' <= plen s /\ (sp = true -> plen s' < plen s).
  Proof.
    intros s r nodelay s' sp [HI HB]. unfold round_body.
    set (s0 := arrive_all s (r_before r)).
    assert (Hio0 : io s0 = io s) by apply (Same_arrive_all (r_before r) s).
    destruct (negb _ && nodelay && negb (wake_queued s)); [discriminate|].
    match goal with |- context [write_step s0 r ?w] =>
      assert (HW : match write_step s0 r w with
                   | inl s1 => plen s1 <= plen s /\ (sent (io s1) <> sent (io s0) -> plen s1 < plen s)
                   | inr _ => True end) end.
    { unfold write_step, plen. destruct (_ && _); [|rewrite Hio0; split; [lia|congruence]].
      destruct (r_wr_err r || hup s0); [exact I|].
      destruct (r_accept r) as [k|]; [|rewrite Hio0; split; [lia|congruence]].
      rewrite <- Hio0 in HI, HB.
      destruct (poll_round_len (io s0) k HI HB) as (t' & E & H1 & H2). rewrite E. cbn [upd_io io].
      rewrite <- Hio0. auto. }
    match goal with |- context [write_step s0 r ?w] => destruct (write_step s0 r w) as [s1|e] end; [|discriminate].
    match goal with |- context [reads s1 r ?a ?b ?c] =>
      pose proof (Same_reads s1 r a b c) as HR; destruct (reads s1 r a b c) as [x|s7] end; [discriminate|].
    intro E. inversion E; subst. destruct HR as (_ & _ & _ & Hio). unfold plen in *. rewrite Hio.
    destruct HW as [H1 H2]. split; auto. intro Hsp. apply H2. apply negb_true_iff in Hsp.
    now apply Nat.eqb_neq in Hsp.
  Qed.

  Lemma round_body_events : forall (s : pstate) r nodelay s' sp,
    round_body s r nodelay = inr (s', sp) -> wake_queued s = true -> wake_queued s' = true.
  Proof.
    intros s r nodelay s' sp E He. pose proof (Ext_round_body s r nodelay) as Hx. rewrite E in Hx.
    destruct Hx as [add Ha]. unfold wake_queued in *. rewrite Ha, existsb_app, He. reflexivity.
  Qed.

  (* With an event queued, the loop leaves at the first iteration that sends nothing and every
     other iteration sends at least one byte: the poll is over within |pending| + 1 iterations
     (iterations cut short by EINTR, which need a signal each, are not counted).  It does not go
     round on a tty that is reported writable and accepts nothing. *)
  Theorem returns_within : forall sched finite first (s : pstate),
    QI s -> wake_queued s = true -> Forall (fun r => r_eintr r = false) sched ->
    plen s < length sched ->
    fst (fst (poll_loop finite first s sched)) <> PMore.
  Proof.
    induction sched as [|r rest IH]; intros finite first s HQ He Hne Hlen; [cbn in Hlen; lia|].
    cbn [poll_loop].
    destruct (queue_empty s && _); [unfold pop_ret; destruct (events s); cbn; discriminate|].
    destruct (finite && r_expired r && negb first); [unfold pop_ret; destruct (events s); cbn; discriminate|].
    inversion Hne as [|? ? Hr Hrest]; subst. rewrite Hr.
    pose proof (Out_round_body s r (negb finite) HQ) as Ho.
    destruct (round_body s r (negb finite)) as [[res s']|[s' sp]] eqn:Er.
    - cbn. intro Hx. subst res.
      (* an iteration never ends the poll with "schedule exhausted" *)
      revert Er. unfold round_body.
      destruct (negb _ && negb finite && negb (wake_queued s)); [discriminate|].
      destruct (write_step _ _ _); [|discriminate]. unfold reads.
      destruct (if sigpipe _ then sig_step _ else inl _) as [?|[? ?]]; [|discriminate].
      destruct (if (_ || hup _) then in_step _ _ else inl _); discriminate.
    - destruct (round_body_len s r (negb finite) s' sp HQ Er) as [Hle Hlt].
      pose proof (round_body_events s r (negb finite) s' sp Er He) as He'.
      rewrite He'. destruct sp; cbn [negb andb].
      + apply IH; auto; [apply (Out_QI _ _ Ho)|].
        specialize (Hlt eq_refl). cbn [length] in Hlen. lia.
      + unfold pop_ret. destruct (events s'); cbn; discriminate.
  Qed.

  (* "bounded time" for a wake request, in iterations: with a byte in the waker socket (or Wake
     queued) a poll ends - with an event or an error, never asleep - within |pending| + 2
     iterations not interrupted by EINTR *)
  Theorem wake_returns_within : forall sched finite (s : pstate),
    QI s -> Wk s -> Forall (fun r => r_eintr r = false) sched ->
    plen s + 1 < length sched ->
    let res := fst (fst (poll_loop finite true s sched)) in
    res <> PMore /\ res <> PBlocked.
  Proof.
    intros sched finite s HQ HW Hne Hlen res. split; [|now apply poll_loop_not_blocked].
    unfold res. destruct (wake_queued s) eqn:Ewq.
    - apply returns_within; auto. lia.
    - (* the wake is still in the socket: the first iteration reads it *)
      destruct HW as [Hp|Hin]; [|rewrite (wake_queued_in s Hin) in Ewq; discriminate].
      destruct sched as [|r rest]; [cbn in Hlen; lia|]. cbn [poll_loop].
      destruct (queue_empty s && _); [unfold pop_ret; destruct (events s); cbn; discriminate|].
      rewrite andb_false_r.
      inversion Hne as [|? ? Hr Hrest]; subst. rewrite Hr.
      pose proof (Out_round_body s r (negb finite) HQ) as Ho.
      destruct (round_body s r (negb finite)) as [[res1 s']|[s' sp]] eqn:Er.
      + cbn. intro Hx. subst res1. revert Er. unfold round_body.
        destruct (negb _ && negb finite && negb (wake_queued s)); [discriminate|].
        destruct (write_step _ _ _); [|discriminate]. unfold reads.
        destruct (if sigpipe _ then sig_step _ else inl _) as [?|[? ?]]; [|discriminate].
        destruct (if (_ || hup _) then in_step _ _ else inl _); discriminate.
      + pose proof (round_queues_wake s r (negb finite) s' sp (pipe_arrive_all_pos _ _ Hp) Er) as Hin.
        destruct (round_body_len s r (negb finite) s' sp HQ Er) as [Hle _].
        rewrite (wake_queued_in s' Hin).
        destruct sp; cbn [negb andb]; [|unfold pop_ret; destruct (events s'); cbn; discriminate].
        apply returns_within; auto; [apply (Out_QI _ _ Ho)|now apply wake_queued_in|].
        cbn [length] in Hlen. lia.
  Qed.

  (* ---------------------------------------------------------------- dispose *)
  Context (is_da : T -> bool) (closing : list A).

  Lemma Out_dispose_loop : forall fuel (s : pstate) sched s' rest, QI s ->
    dispose_loop is_da fuel s sched = Some (s', rest) -> Out s s'.
  Proof.
    induction fuel as [|fuel IH]; intros s sched s' rest HQ E.
    { cbn in E. inversion E; subst. apply Out_of_Same; [exact HQ|apply Same_refl]. }
    cbn [dispose_loop] in E. pose proof (Out_poll true s sched HQ) as HP.
    destruct (poll true s sched) as [[res s1] rest1]. cbn [fst snd] in HP.
    destruct res as [[e|]| | |]; try discriminate.
    - destruct e as [| |t].
      + eapply Out_trans; [exact HP|]. eapply IH; [apply (Out_QI _ _ HP)|exact E].
      + eapply Out_trans; [exact HP|]. eapply IH; [apply (Out_QI _ _ HP)|exact E].
      + destruct (is_da t).
        * inversion E; subst. exact HP.
        * eapply Out_trans; [exact HP|]. eapply IH; [apply (Out_QI _ _ HP)|exact E].
    - inversion E; subst. exact HP.
    - inversion E; subst. exact HP.
  Qed.

  (* Every way through dispose that returns - whatever arrives meanwhile, however the kernel
     treats the writes, whether the wait ends with the device attributes answer, a timeout or an
     error (quit signal, hang-up, write error) - closes the signal handler, leaves the saved
     settings untouched and, unless the tty is gone, ends with the tty's settings equal to the
     saved ones; the closing sequence has been appended to what was in flight, everything else
     that was pending has been discarded, and the bytes sent after the call are exactly a prefix
     of (rest of the chunk in flight ++ closing sequence). *)
  Theorem dispose_restores : forall fuel (s : pstate) sched s',
    QI s -> (N.of_nat (total_len (chunks (tq (io s))) + length closing) <= usize_max)%N ->
    dispose is_da closing fuel s sched = Some s' ->
    saved s' = saved s
    /\ sig_closed s' = true
    /\ (hup s' = false -> cur s' = saved s)
    /\ stream s' = tty (io s) ++ front_slice (tq (io s)) ++ closing.
  Proof.
    intros fuel s sched s' [HI HB] HB2 E. unfold dispose in E.
    destruct (drop_ok (tq (io s)) HI) as (q1 & Ed & HI1 & Hf & Htl & _ & Hc & _).
    rewrite Ed in E.
    set (s1 := upd_io s (mkT (write q1 closing) (tty (io s)) (sent (io s)))) in E.
    assert (Ht1 : total_len (chunks q1) <= total_len (chunks (tq (io s)))).
    { rewrite Hc. unfold total_len. destruct (chunks (tq (io s))) as [|c r]; cbn; [lia|].
      rewrite !app_length. cbn. lia. }
    assert (HQ1 : QI s1).
    { unfold QI, s1. cbn. split; [now apply Inv_write|].
      unfold write, total_len in *. cbn. rewrite push_last_concat, app_length. lia. }
    assert (Hs1 : stream s1 = tty (io s) ++ front_slice (tq (io s)) ++ closing).
    { unfold stream, s1. cbn. rewrite pending_write by apply HI1.
      rewrite pending_split, Hf, Htl. cbn. now rewrite app_nil_r. }
    (* the signal handler is closed and flagged signals are forgotten *)
    match type of E with context [dispose_loop is_da fuel ?sc sched] => set (s1c := sc) in E end.
    assert (HQc : QI s1c) by exact HQ1.
    assert (Hsc : stream s1c = stream s1) by reflexivity.
    destruct (dispose_loop is_da fuel s1c sched) as [[s2 rest]|] eqn:El; [|discriminate].
    destruct (Out_dispose_loop fuel s1c sched s2 rest HQc El) as (Hsv & Hcu & Hcl & Hst & _).
    assert (Hst2 : stream s2 = tty (io s) ++ front_slice (tq (io s)) ++ closing)
      by (rewrite Hst, Hsc; exact Hs1).
    assert (Hclosed : sig_closed s2 = true) by (rewrite Hcl; reflexivity).
    assert (Hsaved : saved s2 = saved s) by (rewrite Hsv; reflexivity).
    destruct (hup s2) eqn:Eh; inversion E as [E']; clear E; subst s'; cbn.
    - split; [exact Hsaved|]. split; [exact Hclosed|]. split; [congruence|]. exact Hst2.
    - split; [exact Hsaved|]. split; [exact Hclosed|]. split; [intros _; exact Hsaved|]. exact Hst2.
  Qed.

  (* ---------------- when the tty takes what it is given, the closing sequence is delivered *)
  Definition Drained (s : pstate) : Prop := pending (tq (io s)) = [].

  Lemma Out_drained : forall s s' : pstate, Out s s' -> Drained s -> Drained s'.
  Proof.
    intros s s' (_ & _ & _ & Hst & _ & out & Ho) Hd. unfold Drained, stream in *.
    rewrite Hd, Ho, app_nil_r, <- app_assoc in Hst.
    rewrite <- (app_nil_r (tty (io s))) in Hst at 2.
    apply app_inv_head in Hst. now apply app_eq_nil in Hst.
  Qed.

  Lemma pending_pop : forall q : queue A, pending (q_pop q) = concat (tl (chunks q)).
  Proof. intros [[|c [|c2 r]] o l]; reflexivity. Qed.

  (* the write step with a tty that accepts a whole slice, on a queue whose data is all in the
     front chunk: nothing is left pending *)
  Lemma poll_round_all : forall (t : term A) k,
    Inv (tq t) -> (N.of_nat (total_len (chunks (tq t))) <= usize_max)%N -> (usize_max <= k)%N ->
    concat (tl (chunks (tq t))) = [] ->
    exists t', poll_round t (KAccept k) = Ok t' /\ pending (tq t') = [].
  Proof.
    intros t k HI HB Hk Hc. cbn [poll_round].
    destruct (is_empty (tq t)) eqn:Hemp.
    { exists t. split; auto. unfold is_empty, pending in *. destruct (chunks (tq t)); [auto|discriminate]. }
    pose proof (offset_le_total (tq t) (inv_off _ HI)) as Hot.
    unfold consume_with. rewrite (as_slice_ok (tq t) (inv_off _ HI)). cbn [bind].
    set (sl := front_slice (tq t)) in *. set (size := consumer k true sl).
    assert (Hsize : size = N.of_nat (length sl)) by (unfold size, consumer; lia).
    destruct (consume_take (tq t) size HI) as (q' & E & Ht); [lia|].
    rewrite E. cbn [bind]. eexists. split; [reflexivity|]. cbn [tq].
    destruct Ht as [[Hlt _]|[_ ->]]; [fold sl in Hlt; lia|].
    rewrite pending_pop. exact Hc.
  Qed.

  Lemma first_round_drains : forall finite (s : pstate) r rest k,
    QI s -> concat (tl (chunks (tq (io s)))) = [] ->
    r_eintr r = false -> r_wr_err r = false -> r_accept r = Some k -> (usize_max <= k)%N ->
    hup (arrive_all s (r_before r)) = false ->
    Drained (snd (fst (poll_loop finite true s (r :: rest)))).
  Proof.
    intros finite s r rest k HQ Hc He Hw Ha Hk Hh. cbn [poll_loop].
    assert (Hqe : forall x : pstate, io x = io s -> queue_empty x = true -> Drained x).
    { intros x Hio Hq. unfold Drained, queue_empty, is_empty, pending in *. rewrite Hio in *.
      destruct (chunks (tq (io s))); [auto|discriminate]. }
    destruct (queue_empty s && _) eqn:E0.
    { cbn. apply andb_true_iff in E0. destruct E0 as [Hq _].
      eapply Out_drained; [apply Out_of_Same; [exact HQ|apply Same_pop_ret]|]. now apply Hqe. }
    rewrite andb_false_r. cbn [andb]. rewrite He.
    pose proof (Out_round_body s r (negb finite) HQ) as Hb.
    assert (Hdr : match round_body s r (negb finite) with
                  | inl (_, s') => Drained s' | inr (s', _) => Drained s' end).
    { unfold round_body in *.
      set (s0 := arrive_all s (r_before r)) in *.
      assert (Hio0 : io s0 = io s) by apply (Same_arrive_all (r_before r) s).
      destruct (negb _ && negb finite && negb (wake_queued s)) eqn:Eb.
      - (* blocked: then nothing was to be written *)
        apply Hqe; auto. rewrite Ha in Eb. destruct (queue_empty s0); auto; cbn in Eb; try discriminate.
      - rewrite Ha in *. fold s0 in Hh. rewrite Hh in *. cbn [orb] in *. rewrite andb_true_r in *.
        unfold write_step in *. rewrite Hw, Ha, Hh in *. cbn [orb] in *.
        destruct (negb (queue_empty s0)) eqn:Eq.
        + destruct HQ as [HI HB]. rewrite <- Hio0 in HI, HB, Hc.
          destruct (poll_round_all (io s0) k HI HB Hk Hc) as (t' & Et & Hp). rewrite Et in *.
          match goal with |- context [reads ?s1 r ?a ?b ?c] =>
            pose proof (Same_reads s1 r a b c) as HR; destruct (reads s1 r a b c) as [[res s']|s'] end;
            destruct HR as (_ & _ & _ & Hio); unfold Drained; rewrite Hio; exact Hp.
        + assert (Hd0 : Drained s0) by (apply Hqe; auto; destruct (queue_empty s0); auto; discriminate).
          match goal with |- context [reads s0 r ?a ?b ?c] =>
            pose proof (Same_reads s0 r a b c) as HR; destruct (reads s0 r a b c) as [[res s']|s'] end;
            destruct HR as (_ & _ & _ & Hio); unfold Drained in *; rewrite Hio; exact Hd0. }
    destruct (round_body s r (negb finite)) as [[res s']|[s' w]]; [exact Hdr|].
    destruct (wake_queued s' && negb w).
    - cbn. eapply Out_drained; [apply Out_of_Same; [apply (Out_QI _ _ Hb)|apply Same_pop_ret]|exact Hdr].
    - eapply Out_drained; [apply Out_poll_loop; apply (Out_QI _ _ Hb)|exact Hdr].
  Qed.

  Lemma dispose_loop_drained : forall fuel (s : pstate) sched s' rest, QI s -> Drained s ->
    dispose_loop is_da fuel s sched = Some (s', rest) -> Drained s'.
  Proof.
    intros fuel s sched s' rest HQ Hd E. eapply Out_drained; [|exact Hd].
    eapply Out_dispose_loop; eauto.
  Qed.

  (* If, in the first iteration of dispose's first poll, select reports the tty writable and the
     tty takes the slice it is given (the peer is reading), the chunk in flight and the closing
     sequence behind it are delivered - whatever else happens: signals (they were forgotten
     before the wait), hang-up later on, timeouts, the answer arriving or not. *)
  Theorem dispose_delivers_when_tty_accepts : forall fuel (s : pstate) r rest k s',
    0 < fuel -> QI s -> (N.of_nat (total_len (chunks (tq (io s))) + length closing) <= usize_max)%N ->
    r_eintr r = false -> r_wr_err r = false -> r_accept r = Some k -> (usize_max <= k)%N ->
    hup s = false -> Forall (fun m => m <> MHup) (r_before r) ->
    dispose is_da closing fuel s (r :: rest) = Some s' ->
    tty (io s') = tty (io s) ++ front_slice (tq (io s)) ++ closing.
  Proof.
    intros fuel s r rest k s' Hfuel HQ HB2 He Hw Ha Hk Hh0 Hnh E.
    destruct (dispose_restores fuel s (r :: rest) s' HQ HB2 E) as (_ & _ & _ & Hst).
    assert (Hd : Drained s'); [|unfold stream, Drained in *; now rewrite Hd, app_nil_r in Hst].
    destruct HQ as [HI HB]. unfold dispose in E.
    destruct (drop_ok (tq (io s)) HI) as (q1 & Ed & HI1 & Hf & Htl & _ & Hc & _).
    rewrite Ed in E.
    match type of E with context [dispose_loop is_da fuel ?sc _] => set (s1c := sc) in E end.
    assert (Ht1 : total_len (chunks q1) <= total_len (chunks (tq (io s)))).
    { rewrite Hc. unfold total_len. destruct (chunks (tq (io s))) as [|c r0]; cbn; [lia|].
      rewrite !app_length. cbn. lia. }
    assert (HQc : QI s1c).
    { unfold QI, s1c. cbn. split; [now apply Inv_write|].
      unfold write, total_len in *. cbn. rewrite push_last_concat, app_length. lia. }
    destruct (dispose_loop is_da fuel s1c (r :: rest)) as [[s2 rest2]|] eqn:El; [|discriminate].
    assert (Hd2 : Drained s2).
    { destruct fuel as [|fuel]; [lia|]. cbn [dispose_loop] in El.
      (* the first poll *)
      assert (Hfirst : Drained (snd (fst (poll true s1c (r :: rest))))).
      { unfold poll. apply first_round_drains with (k := k); auto;
          [| |clear - Hh0 Hnh; cbn [upd_io];
              match goal with |- hup (arrive_all ?x _) = false =>
                assert (Hx : hup x = false) by exact Hh0; revert Hx; generalize x end;
              unfold arrive_all; induction Hnh as [|m ms Hm Hms IH]; intros x Hx; cbn; auto;
              apply IH; destruct m; cbn; try destruct (sig_closed x); cbn; auto; congruence].
        - pose proof (Out_poll true s1c [] HQc) as Ho. unfold poll in Ho. cbn [poll_loop] in Ho.
          clear Ho. unfold QI. cbn [upd_io io tq].
          split; [apply Inv_flush, HQc|].
          destruct (flush_cases (tq (io s1c))) as [[_ ->]|[_ ->]]; [|apply HQc].
          destruct HQc as [_ Hb]. unfold total_len in *. cbn [chunks]. rewrite concat_app, app_length.
          cbn [concat app length]. rewrite Nat.add_0_r. exact Hb.
        - (* after the drop the queue holds one chunk; flush adds at most an empty one *)
          cbn [upd_io io tq]. unfold s1c. cbn [io upd_io tq].
          assert (Hone : tl (chunks (write q1 closing)) = []).
          { unfold write. cbn [chunks]. destruct (chunks q1) as [|c [|c2 r0]]; cbn in *; auto. discriminate. }
          destruct (flush_cases (write q1 closing)) as [[_ ->]|[_ ->]]; cbn [chunks]; [|now rewrite Hone].
          destruct (chunks (write q1 closing)) as [|c t0]; cbn in *; auto. now rewrite Hone. }
      pose proof (Out_poll true s1c (r :: rest) HQc) as Hop.
      destruct (poll true s1c (r :: rest)) as [[res sp] restp]. cbn [fst snd] in *.
      destruct res as [[e|]| | |]; try discriminate.
      - destruct e as [| |t0].
        + eapply dispose_loop_drained; [apply (Out_QI _ _ Hop)|exact Hfirst|exact El].
        + eapply dispose_loop_drained; [apply (Out_QI _ _ Hop)|exact Hfirst|exact El].
        + destruct (is_da t0).
          * inversion El; subst. exact Hfirst.
          * eapply dispose_loop_drained; [apply (Out_QI _ _ Hop)|exact Hfirst|exact El].
      - inversion El; subst. exact Hfirst.
      - inversion El; subst. exact Hfirst. }
    inversion E as [E']. unfold Drained in *. destruct (hup s2); cbn; exact Hd2.
  Qed.

  (* if the queue is empty when dispose returns, the closing sequence has been delivered: it is
     the last thing the tty received *)
  Corollary dispose_delivers_closing : forall fuel (s : pstate) sched s',
    QI s -> (N.of_nat (total_len (chunks (tq (io s))) + length closing) <= usize_max)%N ->
    dispose is_da closing fuel s sched = Some s' -> queue_empty s' = true ->
    tty (io s') = tty (io s) ++ front_slice (tq (io s)) ++ closing.
  Proof.
    intros fuel s sched s' HQ HB E Hemp.
    destruct (dispose_restores fuel s sched s' HQ HB E) as (_ & _ & _ & Hst).
    unfold stream, queue_empty, is_empty, pending in *.
    destruct (chunks (tq (io s'))); [|discriminate]. now rewrite app_nil_r in Hst.
  Qed.
End PollProofs.
