(* Transition-system model of `UnixTerminal::poll` (src/unix.rs:392-509), of the waker
   (117-129), of signal delivery through signal-hook's pipe (107-115, 447-465) and of `dispose`
   (192-243), with the environment's moves interleaved at every point where the loop can
   observe them.

   Kernel objects
     pipe      bytes in the waker socket (wake() = one non-blocking write of one byte; EAGAIN when
               the socket buffer is full is swallowed, the byte count then stays at `pipe_cap`)
     termsig / winch   signal-hook's pending flags (SIGINT, SIGQUIT, SIGTERM merged into `termsig`);
               sigpipe = signal-hook's self pipe is readable.  `pending()` drains the pipe, then
               yields the flagged signals in signal-number order: termination signals before
               SIGWINCH
     inq       decoded input events waiting in the tty (the decoder's independence of read
               boundaries is C03; here a read takes a prefix of the waiting tokens), hup = the
               other side is closed (waiting input is discarded, a read returns 0, a write
               fails with EIO - observed on the pty of this sandbox)
     saved / cur  the tty's line settings when opened / now

   One iteration of the loop is driven by a `round_env`: what the loop test sees of the clock,
   what arrives before select, whether select fails with EINTR, what the kernel lets the write
   step do, what arrives between select and each of the three reads, how many tokens the input
   read returns.  `select` is level-triggered, sound and complete: the ready flags are computed
   from the kernel state at the moment of the call (assumption about the kernel, named
   `select_level_triggered` in design/C17.md); with nothing ready it returns empty-handed only
   when a delay was given.

   Ghost fields (`g_…`) record history; no transition reads them. *)
From Coq Require Import List NArith Arith Bool.
From SNT Require Import Base.Outcome IO.IOQueue IO.TermIO.
Import ListNotations.

Section PollLoop.
  Context {A T : Type}.          (* output bytes, input tokens *)

  Inductive event := EvWake | EvResize | EvInput (t : T).
  Inductive perr := Quit | Io.
  Inductive emove := MWake | MWinch | MTerm | MInput (ts : list T) | MHup.

  Definition pipe_cap : nat := 4096.

  Record pstate := mkP {
    io : term A;                  (* write_queue, tty, stats.send  (IO/TermIO.v) *)
    events : list event;          (* events_queue *)
    pipe : nat;
    termsig : bool;
    winch : bool;
    sigpipe : bool;
    sig_closed : bool;            (* signal_delivery.handle().close() *)
    inq : list T;
    hup : bool;
    saved : N;                    (* termios_saved *)
    cur : N;                      (* the tty's current line settings *)
    (* ghosts *)
    g_owed_wake : bool;           (* a wake request not yet followed by a Wake event *)
    g_owed_winch : bool;          (* a SIGWINCH not yet followed by a Resize event *)
    g_arrived : list T;           (* every input token that ever arrived, in order *)
    g_returned : list event       (* every event a poll returned, in order *)
  }.

  Definition upd_io (s : pstate) (t : term A) : pstate :=
    mkP t (events s) (pipe s) (termsig s) (winch s) (sigpipe s) (sig_closed s) (inq s) (hup s)
        (saved s) (cur s) (g_owed_wake s) (g_owed_winch s) (g_arrived s) (g_returned s).

  Definition push (s : pstate) (e : event) : pstate :=
    mkP (io s) (events s ++ [e]) (pipe s) (termsig s) (winch s) (sigpipe s) (sig_closed s)
        (inq s) (hup s) (saved s) (cur s)
        (match e with EvWake => false | _ => g_owed_wake s end)
        (match e with EvResize => false | _ => g_owed_winch s end)
        (g_arrived s) (g_returned s).

  (* the environment *)
  Definition arrive (s : pstate) (m : emove) : pstate :=
    match m with
    | MWake =>
        mkP (io s) (events s) (Nat.min (S (pipe s)) pipe_cap) (termsig s) (winch s) (sigpipe s)
            (sig_closed s) (inq s) (hup s) (saved s) (cur s) true (g_owed_winch s)
            (g_arrived s) (g_returned s)
    | MWinch =>
        if sig_closed s then s else
        mkP (io s) (events s) (pipe s) (termsig s) true true (sig_closed s) (inq s) (hup s)
            (saved s) (cur s) (g_owed_wake s) true (g_arrived s) (g_returned s)
    | MTerm =>
        if sig_closed s then s else
        mkP (io s) (events s) (pipe s) true (winch s) true (sig_closed s) (inq s) (hup s)
            (saved s) (cur s) (g_owed_wake s) (g_owed_winch s) (g_arrived s) (g_returned s)
    | MInput ts =>
        mkP (io s) (events s) (pipe s) (termsig s) (winch s) (sigpipe s) (sig_closed s)
            (inq s ++ ts) (hup s) (saved s) (cur s) (g_owed_wake s) (g_owed_winch s)
            (g_arrived s ++ ts) (g_returned s)
    | MHup =>
        (* the other side is closed: input still waiting in the tty is discarded by the kernel,
           reads return 0, writes fail *)
        mkP (io s) (events s) (pipe s) (termsig s) (winch s) (sigpipe s) (sig_closed s)
            [] true (saved s) (cur s) (g_owed_wake s) (g_owed_winch s)
            (firstn (length (g_arrived s) - length (inq s)) (g_arrived s)) (g_returned s)
    end.

  Definition arrive_all (s : pstate) (ms : list emove) : pstate := fold_left arrive ms s.

  Record round_env := mkR {
    r_expired : bool;             (* the loop test finds `timeout_instant < now` *)
    r_before : list emove;        (* arrivals before select *)
    r_eintr : bool;               (* select fails with EINTR / EAGAIN: `continue` *)
    r_accept : option N;          (* the tty is reported writable and write(2) accepts min k |slice| *)
    r_wr_err : bool;              (* ... or the write fails hard (EIO) *)
    r_sig : list emove;           (* arrivals between select and the signal step *)
    r_wk : list emove;            (* ... and the waker read *)
    r_in : list emove;            (* ... and the tty read *)
    r_take : nat                  (* tokens the tty read returns (at least one, at most what waits) *)
  }.

  Inductive pres :=
  | PRet (e : option event)       (* Ok(events_queue.pop_front()) *)
  | PErr (e : perr)
  | PBlocked                      (* select sleeps: nothing ready, no delay *)
  | PMore.                        (* the schedule ended inside the loop *)

  (* signal step: pending() drains the pipe; every flagged signal is consumed (SIGWINCH queues a
     Resize event), then a flagged termination signal makes poll return Err(Quit).  On a tty that
     is gone the size query of the SIGWINCH step fails and its error is returned at once (a
     termination signal flagged with it is then not reported; the next poll fails on the dead tty). *)
  Definition sig_step (s : pstate) : pstate + (perr * pstate) (* inl = continue, inr = Err *) :=
    let s1 := mkP (io s) (events s) (pipe s) false false false (sig_closed s) (inq s)
                  (hup s) (saved s) (cur s) (g_owed_wake s) (g_owed_winch s) (g_arrived s)
                  (g_returned s) in
    if winch s && hup s then
      inr (Io, mkP (io s) (events s) (pipe s) false false false (sig_closed s) (inq s)
                   (hup s) (saved s) (cur s) (g_owed_wake s) false (g_arrived s) (g_returned s))
    else
      let s2 := if winch s then push s1 EvResize else s1 in
      if termsig s then inr (Quit, s2) else inl s2.

  (* waker step: read up to 1024 bytes, one Wake event if any byte was read *)
  Definition wake_step (s : pstate) : pstate :=
    let n := Nat.min (pipe s) 1024 in
    let s1 := mkP (io s) (events s) (pipe s - n) (termsig s) (winch s) (sigpipe s) (sig_closed s)
                  (inq s) (hup s) (saved s) (cur s) (g_owed_wake s) (g_owed_winch s)
                  (g_arrived s) (g_returned s) in
    match n with O => s1 | _ => push s1 EvWake end.

  (* input step: a read of 0 bytes is a hang-up; otherwise the tokens read are queued in order *)
  Definition in_step (s : pstate) (take : nat) : pstate + pstate :=
    match inq s with
    | [] => inr s
    | _ =>
        let n := Nat.max 1 take in
        let got := firstn n (inq s) in
        let s1 := mkP (io s) (events s) (pipe s) (termsig s) (winch s) (sigpipe s) (sig_closed s)
                      (skipn n (inq s)) (hup s) (saved s) (cur s) (g_owed_wake s) (g_owed_winch s)
                      (g_arrived s) (g_returned s) in
        inl (fold_left (fun st t => push st (EvInput t)) got s1)
    end.

  Definition queue_empty (s : pstate) : bool := is_empty (tq (io s)).

  (* Ok(events_queue.pop_front()) *)
  Definition pop_ret (s : pstate) : pres * pstate :=
    match events s with
    | [] => (PRet None, s)
    | e :: rest =>
        (PRet (Some e),
         mkP (io s) rest (pipe s) (termsig s) (winch s) (sigpipe s) (sig_closed s) (inq s) (hup s)
             (saved s) (cur s) (g_owed_wake s) (g_owed_winch s) (g_arrived s)
             (g_returned s ++ [e]))
    end.

  (* write step: `consume_with(|slice| tty.write(slice))` when the tty is reported writable *)
  Definition write_step (s0 : pstate) (r : round_env) (writable : bool) : pstate + perr :=
    if writable then
      if r_wr_err r || hup s0 then inr Io
      else match r_accept r with
           | Some k => match poll_round (io s0) (KAccept k) with
                       | Ok t' => inl (upd_io s0 t')
                       | _ => inr Io        (* a panic of the queue: excluded by C16 *)
                       end
           | None => inl s0
           end
    else inl s0.

  (* the three reads, in the order of the code: signals, waker, tty input *)
  Definition reads (s1 : pstate) (r : round_env) (sig_ready wk_ready in_ready : bool)
    : (pres * pstate) + pstate :=
    let s2 := arrive_all s1 (r_sig r) in
    match (if sig_ready then sig_step s2 else inl s2) with
    | inr (e, sq) => inl (PErr e, sq)
    | inl s3 =>
        let s4 := arrive_all s3 (r_wk r) in
        let s5 := if wk_ready then wake_step s4 else s4 in
        let s6 := arrive_all s5 (r_in r) in
        match (if in_ready then in_step s6 (r_take r) else inl s6) with
        | inr sq => inl (PErr Quit, sq)
        | inl s7 => inr s7
        end
    end.

  Definition events_empty (s : pstate) : bool := match events s with [] => true | _ => false end.

  (* a Wake event waits in the events queue: poll then neither sleeps in select nor waits for the
     other side to drain the output (every other event is returned only after the output has
     been flushed, or at the timeout: the flush-first contract of poll) *)
  Definition wake_queued (s : pstate) : bool :=
    existsb (fun e => match e with EvWake => true | _ => false end) (events s).

  (* the body of one iteration after the delay has been computed; `nodelay` = select(None), which
     is only used when no Wake event is queued (otherwise the delay is zero).  The result of a
     completed iteration carries whether the write step sent at least one byte (`sent_some`). *)
  Definition round_body (s : pstate) (r : round_env) (nodelay : bool)
    : (pres * pstate) + (pstate * bool) (* inl = poll is over; inr = next iteration *) :=
    let s0 := arrive_all s (r_before r) in
    (* ready flags: the snapshot select takes *)
    let want_write := negb (queue_empty s0) in
    let writable := want_write && ((match r_accept r with Some _ => true | None => r_wr_err r end) || hup s0) in
    let sig_ready := sigpipe s0 in
    let wk_ready := 0 <? pipe s0 in
    let in_ready := (match inq s0 with [] => false | _ => true end) || hup s0 in
    if negb (writable || sig_ready || wk_ready || in_ready) && nodelay && negb (wake_queued s) then inl (PBlocked, s0)
    else
      match write_step s0 r writable with
      | inr e => inl (PErr e, s0)
      | inl s1 =>
          match reads s1 r sig_ready wk_ready in_ready with
          | inl x => inl x
          | inr s7 => inr (s7, negb (Nat.eqb (sent (io s1)) (sent (io s0))))
          end
      end.

  (* the loop; `finite` = a timeout was given; one `round_env` per evaluation of the loop test *)
  Fixpoint poll_loop (finite first : bool) (s : pstate) (sched : list round_env)
    : pres * pstate * list round_env :=
    if queue_empty s && negb (events_empty s)
    then (pop_ret s, sched)                                   (* loop condition false *)
    else
      match sched with
      | [] => (PMore, s, [])
      | r :: rest =>
          if finite && r_expired r && negb first then (pop_ret s, rest)     (* break: timeout *)
          else if r_eintr r then poll_loop finite first (arrive_all s (r_before r)) rest
          else
            match round_body s r (negb finite) with
            | inl (res, s') => (res, s', rest)
            | inr (s', sent_some) =>
                (* a Wake event is queued and the tty took no output in this iteration (not writable,
                   or writable and the write was refused) *)
                if wake_queued s' && negb sent_some then (pop_ret s', rest)
                else poll_loop finite false s' rest
            end
      end.

  (* poll: flush the queue, then the loop *)
  Definition poll (finite : bool) (s : pstate) (sched : list round_env)
    : pres * pstate * list round_env :=
    let t := io s in
    poll_loop finite true (upd_io s (mkT (flush (tq t)) (tty t) (sent t))) sched.

  (* ---------------------------------------------------------------- dispose *)
  (* frames_drop; queue the closing sequence (write errors ignored); poll with a one second
     timeout until an error, the device attributes answer (`is_da`) or a timeout (the signal
     handler having been closed and flagged signals forgotten first); tcsetattr(saved).  `tcsetattr` fails when the tty is gone (`hup`). *)
  Context (is_da : T -> bool) (closing : list A).

  Fixpoint dispose_loop (fuel : nat) (s : pstate) (sched : list round_env)
    : option (pstate * list round_env) :=
    match fuel with
    | O => Some (s, sched)                  (* the overall deadline of the wait *)
    | S f =>
        match poll true s sched with
        | (PRet (Some (EvInput t)), s', rest) =>
            if is_da t then Some (s', rest) else dispose_loop f s' rest
        | (PRet (Some _), s', rest) => dispose_loop f s' rest
        | (PRet None, s', rest) => Some (s', rest)
        | (PErr _, s', rest) => Some (s', rest)
        | (PBlocked, s', rest) => None        (* cannot happen: the timeout is finite *)
        | (PMore, s', rest) => None           (* schedule too short *)
        end
    end.

  Definition dispose (fuel : nat) (s : pstate) (sched : list round_env) : option pstate :=
    let t := io s in
    (* frames_drop: a panic is excluded by C16; modelled as "no change" *)
    let q1 := match clear_but_last (tq t) with Ok q => q | _ => tq t end in
    let q2 := write q1 closing in
    let s0 := upd_io s (mkT q2 (tty t) (sent t)) in
    (* signal_delivery.handle().close(); pending().for_each(drop): flagged signals are forgotten
       (a Resize still owed is not delivered any more: the object is going away) *)
    let s1 := mkP (io s0) (events s0) (pipe s0) false false false true (inq s0) (hup s0)
                  (saved s0) (cur s0) (g_owed_wake s0) false (g_arrived s0) (g_returned s0) in
    match dispose_loop fuel s1 sched with
    | None => None
    | Some (s3, _) =>
        Some (if hup s3 then s3
              else mkP (io s3) (events s3) (pipe s3) (termsig s3) (winch s3) (sigpipe s3)
                       (sig_closed s3) (inq s3) (hup s3) (saved s3) (saved s3)
                       (g_owed_wake s3) (g_owed_winch s3) (g_arrived s3) (g_returned s3))
    end.

  (* a fresh terminal object on a tty whose settings are `orig`: raw mode is some other value *)
  Definition opened (orig raw : N) : pstate :=
    mkP term0 [] 0 false false false false [] false orig raw false false [] [].
End PollLoop.

Arguments event : clear implicits.
Arguments emove : clear implicits.
Arguments pstate : clear implicits.
Arguments round_env : clear implicits.
Arguments pres : clear implicits.
