(* The queue on segments.  In a history whose payloads are the consecutive positions of one stream
   (byte i of everything written = f(i) for a fixed pattern f), a chunk is a list of runs
   (start, length) of stream positions and every operation of IO/IOQueue.v is arithmetic on
   lengths.  Histories of megabytes cost nothing to evaluate this way.

     sq, s_*          the model of IO/IOQueue.v, call by call and branch by branch, on runs
     expand_*         the abstraction: a run (a, n) stands for the positions a, a+1, .., a+n-1;
                      a segment queue stands for the byte-level queue over positions
     abstraction_ok   the statement that the two models make the same observations on a history
                      (the byte-level one on the expanded history).  It is NOT proved here for
                      all histories: it is evaluated by the correspondence check on every
                      segment history of at most 4096 bytes of every run (Corr/C16Corr.v) and on
                      the examples at the end; the byte-level theorems of Props/C16.v are about
                      IO/IOQueue.v and are tied to big segment histories only through it.
     sspec_*          the specification side on runs: a FIFO of owed runs with flush marks. *)
From Coq Require Import List NArith Arith Bool.
From SNT Require Import Base.Outcome IO.IOQueue.
Import ListNotations.
Local Open Scope N_scope.

Definition seg := (N * N)%type.

Definition segs_len (c : list seg) : N := fold_right (fun s acc => snd s + acc) 0 c.

(* append a run, merging with the last one when contiguous; an empty run changes nothing *)
Fixpoint segs_push (c : list seg) (a n : N) : list seg :=
  match c with
  | [] => if n =? 0 then [] else [(a, n)]
  | [(b, m)] => if n =? 0 then c else if b + m =? a then [(b, m + n)] else [(b, m); (a, n)]
  | s :: r => s :: segs_push r a n
  end.

Fixpoint segs_skip (k : N) (c : list seg) : list seg :=
  match c with
  | [] => []
  | (a, n) :: r => if k =? 0 then c else if k <? n then (a + k, n - k) :: r else segs_skip (k - n) r
  end.

Fixpoint segs_first (k : N) (c : list seg) : list seg :=
  match c with
  | [] => []
  | (a, n) :: r => if k =? 0 then [] else if k <? n then [(a, k)] else (a, n) :: segs_first (k - n) r
  end.

(* canonical form: no empty run, contiguous runs merged *)
Definition segs_norm (c : list seg) : list seg := fold_left (fun acc s => segs_push acc (fst s) (snd s)) c [].

Fixpoint segs_eqb (a b : list seg) : bool :=
  match a, b with
  | [], [] => true
  | (x, n) :: a', (y, m) :: b' => (x =? y) && (n =? m) && segs_eqb a' b'
  | _, _ => false
  end.

(* ---------------------------------------------------------------- the model on runs *)
Record sq := mkSQ { sch : list (list seg); soff : N; slen : N }.

Definition sq0 : sq := mkSQ [] 0 0.
Definition s_is_empty (q : sq) : bool := match sch q with [] => true | _ => false end.
Definition s_count (q : sq) : N := N.of_nat (length (sch q)).

Definition s_as_slice (q : sq) : outcome (list seg) :=
  match sch q with
  | [] => Ok []
  | c :: _ => if soff q <=? segs_len c then Ok (segs_skip (soff q) c) else Panic 1
  end.

Definition s_front_len (q : sq) : N := match sch q with c :: _ => segs_len c | [] => 0 end.

Definition s_consume (q : sq) (amt : N) : outcome sq :=
  if usize_max <? soff q + amt then Panic 2
  else if soff q + amt <? s_front_len q then
    if slen q <? amt then Panic 3 else Ok (mkSQ (sch q) (soff q + amt) (slen q - amt))
  else
    match sch q with
    | c :: rest =>
        if segs_len c <? soff q then Panic 4
        else let d := segs_len c - soff q in
             if slen q <? d then Panic 5 else Ok (mkSQ rest 0 (slen q - d))
    | [] => Ok (mkSQ [] 0 (slen q))
    end.

Fixpoint s_push_last (cs : list (list seg)) (a n : N) : list (list seg) :=
  match cs with
  | [] => [segs_push [] a n]
  | [c] => [segs_push c a n]
  | c :: r => c :: s_push_last r a n
  end.

(* write of the n positions a, a+1, .. *)
Definition s_write (q : sq) (a n : N) : sq := mkSQ (s_push_last (sch q) a n) (soff q) (slen q + n).

Definition s_last_nonempty (cs : list (list seg)) : bool :=
  match last cs [] with [] => false | _ => true end.

Definition s_flush (q : sq) : sq :=
  if s_last_nonempty (sch q) then mkSQ (sch q ++ [[]]) (soff q) (slen q) else q.

Definition s_read (q : sq) (n : N) : outcome (sq * list seg) :=
  let* s := s_as_slice q in
  let r := segs_first (N.min n (segs_len s)) s in
  let* q' := s_consume q (segs_len r) in
  Ok (q', r).

Definition s_consume_with (q : sq) (k : N) (clamp : bool) : outcome (sq * N) :=
  let* s := s_as_slice q in
  let size := if clamp then N.min k (segs_len s) else k in
  let* q' := s_consume q size in
  Ok (q', size).

Definition s_total (cs : list (list seg)) : N := fold_right (fun c acc => segs_len c + acc) 0 cs.

Definition s_drop (q : sq) : outcome sq :=
  match sch q with
  | c :: (_ :: _) as rest =>
      if slen q <? s_total rest then Panic 6 else Ok (mkSQ [c] (soff q) (slen q - s_total rest))
  | _ => Ok q
  end.

(* read_to_end: reads with a destination larger than everything, until a read returns nothing *)
Fixpoint s_read_all (fuel : nat) (q : sq) (n : N) (acc : list seg) : outcome (sq * list seg) :=
  match fuel with
  | O => OutOfFuel
  | S f =>
      let* (q', r) := s_read q n in
      match r with
      | [] => Ok (q', acc)
      | _ => s_read_all f q' n (acc ++ r)
      end
  end.

Definition s_read_to_end (q : sq) : outcome (sq * list seg) :=
  s_read_all (S (S (length (sch q)))) q (N.succ (s_total (sch q))) [].

Inductive sop :=
| SWr (n : N)                 (* the next n positions of the stream *)
| SFl | SRd (n : N) | SCn (amt : N) | SCW (k : N) (clamp : bool) | SCE | SDr | SRE.

Inductive sret := SU | SRuns (l : list seg) | SNum (n : N).

(* observation after a call: return value, len(), chunks_count(), is_empty(), as_slice() as runs *)
Inductive sobs := SOb (r : sret) (len count : N) (empty : bool) (slice : list seg) | SPn.

(* one call; `wr` = how many positions have been written so far *)
Definition s_step (q : sq) (wr : N) (o : sop) : outcome (sq * N * sret) :=
  match o with
  | SWr n => Ok (s_write q wr n, wr + n, SNum n)
  | SFl => Ok (s_flush q, wr, SU)
  | SRd n => let* (q', r) := s_read q n in Ok (q', wr, SRuns r)
  | SCn amt => let* q' := s_consume q amt in Ok (q', wr, SU)
  | SCW k c => let* (q', size) := s_consume_with q k c in Ok (q', wr, SNum size)
  | SCE => let* _ := s_as_slice q in Ok (q, wr, SU)
  | SDr => let* q' := s_drop q in Ok (q', wr, SU)
  | SRE => let* (q', r) := s_read_to_end q in Ok (q', wr, SRuns r)
  end.

Fixpoint s_trace (q : sq) (wr : N) (ops : list sop) : list sobs :=
  match ops with
  | [] => []
  | o :: rest =>
      match s_step q wr o with
      | Ok (q', wr', r) =>
          match s_as_slice q' with
          | Ok s => SOb r (slen q') (s_count q') (s_is_empty q') s :: s_trace q' wr' rest
          | _ => [SPn]
          end
      | _ => [SPn]
      end
  end.

Definition sret_eqb (a b : sret) : bool :=
  match a, b with
  | SU, SU => true
  | SRuns x, SRuns y => segs_eqb (segs_norm x) (segs_norm y)
  | SNum x, SNum y => x =? y
  | _, _ => false
  end.

Definition sobs_eqb (a b : sobs) : bool :=
  match a, b with
  | SOb r l c e s, SOb r' l' c' e' s' =>
      sret_eqb r r' && (l =? l') && (c =? c') && Bool.eqb e e' && segs_eqb (segs_norm s) (segs_norm s')
  | SPn, SPn => true
  | _, _ => false
  end.

Fixpoint sall2 (a b : list sobs) : bool :=
  match a, b with
  | [], [] => true
  | x :: a', y :: b' => sobs_eqb x y && sall2 a' b'
  | _, _ => false
  end.

Definition s_agree (ops : list sop) (impl : list sobs) : bool := sall2 (s_trace sq0 0 ops) impl.

(* ---------------------------------------------------------------- the abstraction *)
Fixpoint positions (a : N) (n : nat) : list N :=
  match n with O => [] | S k => a :: positions (a + 1) k end.

Definition expand_segs (c : list seg) : list N :=
  concat (map (fun s => positions (fst s) (N.to_nat (snd s))) c).

Fixpoint expand_ops (wr : N) (ops : list sop) : list (op N) :=
  match ops with
  | [] => []
  | SWr n :: r => OWrite (positions wr (N.to_nat n)) :: expand_ops (wr + n) r
  | SFl :: r => OFlush :: expand_ops wr r
  | SRd n :: r => ORead (N.to_nat n) :: expand_ops wr r
  | SCn a :: r => OConsume a :: expand_ops wr r
  | SCW k c :: r => OConsumeWith k c :: expand_ops wr r
  | SCE :: r => OConsumeWithErr :: expand_ops wr r
  | SDr :: r => ODrop :: expand_ops wr r
  | SRE :: r => OReadToEnd :: expand_ops wr r
  end.

Fixpoint nl_eqb (a b : list N) : bool :=
  match a, b with
  | [], [] => true
  | x :: a', y :: b' => (x =? y) && nl_eqb a' b'
  | _, _ => false
  end.

Definition abs_obs_eqb (s : sobs) (o : obs N) : bool :=
  match s, o with
  | SOb r l c e sl, Obs r' l' c' e' sl' =>
      (match r, r' with
       | SU, RUnit => true
       | SRuns x, RBytes y => nl_eqb (expand_segs x) y
       | SNum x, RNum y => x =? y
       | _, _ => false
       end)
      && (l =? N.of_nat l') && (c =? N.of_nat c') && Bool.eqb e e' && nl_eqb (expand_segs sl) sl'
  | SPn, ObsPanic => true
  | _, _ => false
  end.

Fixpoint abs_all2 (a : list sobs) (b : list (obs N)) : bool :=
  match a, b with
  | [], [] => true
  | x :: a', y :: b' => abs_obs_eqb x y && abs_all2 a' b'
  | _, _ => false
  end.

(* the two models make the same observations on this history *)
Definition abstraction_ok (ops : list sop) : bool :=
  abs_all2 (s_trace sq0 0 ops) (trace qempty (expand_ops 0 ops)).

(* ---------------------------------------------------------------- the specification on runs *)
(* owed: the runs still to be handed out, in order; marks: the stream positions at which a flush
   happened; wr: positions written so far.  Written from the property text, like IO/FifoSpec.v:
   what is handed out is the head of what is owed (in order, exactly once); len() is what is
   owed; a drop may only remove a tail of what is owed that begins at a flush mark; as_slice()
   is a non-empty head of what is owed whenever something is owed (otherwise a caller that hands
   the slice to write(2) makes no progress), and a read into a non-empty destination returns
   at least one byte then. *)
Record sspec := mkSS { s_owed : list seg; s_marks : list N; swr : N }.

Definition ss0 : sspec := mkSS [] [] 0.

Definition head_pos (c : list seg) (d : N) : N := match c with (a, _) :: _ => a | [] => d end.

Definition is_prefix_of_owed (runs : list seg) (o : list seg) : bool :=
  segs_eqb (segs_norm runs) (segs_first (segs_len runs) o).

Definition sspec_step (s : sspec) (o : sop) (ob : sobs) : option sspec :=
  match ob with
  | SPn => None
  | SOb r len _ _ slice =>
      let after :=
        match o, r with
        | SWr n, SNum m => if n =? m then Some (mkSS (segs_push (s_owed s) (swr s) n) (s_marks s) (swr s + n)) else None
        | SFl, SU => Some (mkSS (s_owed s) (swr s :: s_marks s) (swr s))
        | SRd n, SRuns runs =>
            let t := segs_len runs in
            if (t <=? n) && is_prefix_of_owed runs (s_owed s)
               && ((n =? 0) || (0 <? t) || (segs_len (s_owed s) =? 0))      (* progress *)
            then Some (mkSS (segs_skip t (s_owed s)) (s_marks s) (swr s)) else None
        | SRE, SRuns runs =>
            if segs_eqb (segs_norm runs) (s_owed s) then Some (mkSS [] (s_marks s) (swr s)) else None
        | SCW k clamp, SNum t =>
            (* a clamping consumer answers with what it took; one that answers more than the slice
               holds takes the slice: what went is read off len(), it is a head of what is owed *)
            let tot := segs_len (s_owed s) in
            if (len <=? tot) && (if clamp then (t <=? k) && (t =? tot - len) else true)
            then Some (mkSS (segs_skip (tot - len) (s_owed s)) (s_marks s) (swr s)) else None
        | SCn _, SU | SCE, SU =>
            (* what a raw consume took is read off len(): it must be a head of what is s_owed *)
            let tot := segs_len (s_owed s) in
            if len <=? tot then Some (mkSS (segs_skip (tot - len) (s_owed s)) (s_marks s) (swr s)) else None
        | SDr, SU =>
            let tot := segs_len (s_owed s) in
            if len <=? tot then
              let kept := segs_first len (s_owed s) in
              let cut := head_pos (segs_skip len (s_owed s)) (swr s) in
              if (len =? tot) || existsb (N.eqb cut) (s_marks s)
              then Some (mkSS kept (s_marks s) (swr s)) else None
            else None
        | _, _ => None
        end in
      match after with
      | None => None
      | Some s' =>
          let tot := segs_len (s_owed s') in
          if (len =? tot)
             && is_prefix_of_owed slice (s_owed s')
             && ((tot =? 0) || (0 <? segs_len slice))                      (* no empty slice while data remains *)
          then Some s' else None
      end
  end.

Fixpoint sspec_run (s : sspec) (ops : list sop) (obs : list sobs) : bool :=
  match ops, obs with
  | [], [] => true
  | o :: ops', ob :: obs' =>
      match sspec_step s o ob with Some s' => sspec_run s' ops' obs' | None => false end
  | _, _ => false
  end.

Definition s_holds (ops : list sop) (impl : list sobs) : bool := sspec_run ss0 ops impl.

(* ---------------------------------------------------------------- examples *)
Definition ex_ops : list sop :=
  [SWr 5; SFl; SWr 3; SFl; SCW 2 true; SDr; SWr 4; SRd 2; SCn 1; SFl; SWr 2; SRE; SRd 3].

Example abstraction_example : abstraction_ok ex_ops = true.
Proof. vm_compute. reflexivity. Qed.

(* the model's own observations satisfy the specification on this history *)
Example spec_accepts_model_example : s_holds ex_ops (s_trace sq0 0 ex_ops) = true.
Proof. vm_compute. reflexivity. Qed.

(* a chunk of two million positions, a million consumed, a drop, the rest read: arithmetic only *)
Example big_example :
  s_trace sq0 0 [SWr 2000000; SFl; SWr 7; SCW 1048576 true; SDr; SRd 10]
  = [SOb (SNum 2000000) 2000000 1 false [(0, 2000000)];
     SOb SU 2000000 2 false [(0, 2000000)];
     SOb (SNum 7) 2000007 2 false [(0, 2000000)];
     SOb (SNum 1048576) 951431 2 false [(1048576, 951424)];
     SOb SU 951424 1 false [(1048576, 951424)];
     SOb (SRuns [(1048576, 10)]) 951414 1 false [(1048586, 951414)]].
Proof. vm_compute. reflexivity. Qed.

(* an empty slice while data remains (what a cap computed from the wrong end produces) is
   rejected by the specification *)
Example empty_slice_rejected :
  s_holds [SWr 10; SCW 4 true] [SOb (SNum 10) 10 1 false [(0, 10)]; SOb (SNum 4) 6 1 false []] = false.
Proof. vm_compute. reflexivity. Qed.
