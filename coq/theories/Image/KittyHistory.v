(* Histories of draw / erase / handle calls on one handler, with the terminal
   side consuming the bytes of every call: the invariant that ties the
   handler's cache to the terminal's image store, transmit-at-most-once, and
   "every placement names a transmitted image". *)
From Coq Require Import List NArith ZArith Bool Lia Arith.
From Coq Require Import ZifyBool ZifyNat ZifyN.
From SNT Require Import Surface.Shape Encoder.Base64 Gen.KittyConst
  Image.Kitty Image.KittySpec Image.KittyParse Image.KittyProofs.
Import ListNotations.
Local Open Scope N_scope.
Arguments N.add : simpl never.
Arguments N.sub : simpl never.
Arguments N.mul : simpl never.
Arguments N.eqb : simpl never.
Arguments N.ltb : simpl never.
Arguments N.leb : simpl never.
Arguments N.div : simpl never.
Arguments N.modulo : simpl never.

(* ---------- the terminal side of one call ---------- *)
Definition op_wf (o : op) : Prop :=
  match o with
  | OpDraw img _ _ | OpErase img _ _ => image_wf img
  | OpEvent _ => True
  end.

(* before the call: the per-call log is cleared.  An error response is either genuine -- the
   terminal does not have the image (any more): lost = true -- or spurious (lost = false: the terminal
   still holds image and placements).  The handler cannot tell the two apart. *)
Definition pre_store (lost : bool) (o : op) (s : tstore) : tstore :=
  match o with
  | OpEvent (EvKitty id _ true) => if lost then store_forget id (clear_log s) else clear_log s
  | _ => clear_log s
  end.

Definition err_of (o : op) : option N :=
  match o with OpEvent (EvKitty id _ true) => Some id | _ => None end.

(* the terminal reads the bytes the call wrote *)
Definition term_step (lost : bool) (st : kitty) (s : tstore) (o : op) : tstore :=
  match parse_stream (fst (fst (step st o))) with
  | Some its => store_run (pre_store lost o s) its
  | None => add_err 99 (pre_store lost o s)
  end.

(* a history: every call comes with the flag "if this is an error response, it is genuine" *)
Fixpoint lockstep (st : kitty) (s : tstore) (ops : list (op * bool)) : list tstore :=
  match ops with
  | [] => []
  | (o, lost) :: r => let s' := term_step lost st s o in s' :: lockstep (snd (step st o)) s' r
  end.

Definition step_items (st : kitty) (o : op) : list item :=
  match o with
  | OpDraw img hash pos => draw_items st img hash pos
  | OpErase img hash pos => [del_item (image_id st hash) (option_map placement_id pos)]
  | OpEvent ev => handle_items st ev
  end.

(* everything in the cache was stored under its own id, is well formed and has pixels *)
Definition cache_wf (st : kitty) : Prop :=
  forall id img hash, lookup id (k_imgs st) = Some (img, hash) ->
    lookup hash (k_ids st) = Some id /\ image_wf img /\ nonempty img.

Lemma term_step_items lost st s o : cache_wf st -> op_wf o ->
  term_step lost st s o = store_run (pre_store lost o s) (step_items st o).
Proof.
  intros Hc Hw. unfold term_step, step.
  destruct o as [img hash pos|img hash pos|ev]; cbn [op_wf step_items] in *.
  - destruct (draw st img hash pos) as [b st'] eqn:E. cbn [fst].
    pose proof (parse_draw st img hash pos Hw) as P. rewrite E in P. cbn [fst] in P. rewrite P. reflexivity.
  - destruct (erase st img hash pos) as [b st'] eqn:E. cbn [fst].
    pose proof (parse_erase st img hash pos) as P. rewrite E in P. cbn [fst] in P. rewrite P. reflexivity.
  - destruct (handle st ev) as [[b st'] r] eqn:E. cbn [fst].
    assert (Hwf : forall id img hash, lookup id (k_imgs st) = Some (img, hash) -> image_wf img)
      by (intros id img hash Hl; apply (Hc id img hash Hl)).
    pose proof (parse_handle st ev Hwf) as P. rewrite E in P. cbn [fst] in P. rewrite P. reflexivity.
Qed.

(* ---------- association lists ---------- *)
Lemma lookup_remove_same {A} k (l : list (N * A)) : lookup k (remove_key k l) = None.
Proof.
  induction l as [|[k' v] l IH]; [reflexivity|]. unfold remove_key in *. cbn [filter fst].
  destruct (k' =? k) eqn:E; cbn [negb]; [exact IH|]. cbn [lookup]. rewrite E. exact IH.
Qed.

Lemma lookup_remove_other {A} k k' (l : list (N * A)) : k' <> k -> lookup k' (remove_key k l) = lookup k' l.
Proof.
  intros Hne. induction l as [|[k0 v] l IH]; [reflexivity|]. unfold remove_key in *. cbn [filter fst].
  destruct (k0 =? k) eqn:E; cbn [negb lookup].
  - apply N.eqb_eq in E. subst k0. replace (k =? k') with false by lia. exact IH.
  - destruct (k0 =? k'); [reflexivity|exact IH].
Qed.

Lemma img_lookup_filter_same id l : img_lookup id (filter (fun e => negb (fst e =? id)) l) = None.
Proof.
  induction l as [|[k v] l IH]; [reflexivity|]. cbn [filter fst].
  destruct (k =? id) eqn:E; cbn [negb]; [exact IH|]. cbn [img_lookup]. rewrite E. exact IH.
Qed.

Lemma img_lookup_filter_other id id' l : id' <> id ->
  img_lookup id' (filter (fun e => negb (fst e =? id)) l) = img_lookup id' l.
Proof.
  intros Hne. induction l as [|[k v] l IH]; [reflexivity|]. cbn [filter fst].
  destruct (k =? id) eqn:E; cbn [negb img_lookup].
  - apply N.eqb_eq in E. subst k. replace (id =? id') with false by lia. exact IH.
  - destruct (k =? id'); [reflexivity|exact IH].
Qed.

Lemma keys_remove {A} k (l : list (N * A)) :
  map fst (remove_key k l) = filter (fun x => negb (x =? k)) (map fst l).
Proof.
  induction l as [|[k' v] l IH]; [reflexivity|]. unfold remove_key in *. cbn [filter map fst].
  destruct (k' =? k); cbn [negb map fst]; rewrite IH; reflexivity.
Qed.

Lemma lookup_none_keys {A} k (l : list (N * A)) : lookup k l = None -> nmem k (map fst l) = false.
Proof.
  induction l as [|[k' v] l IH]; [reflexivity|]. cbn [lookup map fst]. unfold nmem in *. cbn [existsb].
  destruct (k' =? k) eqn:E; [discriminate|]. intros H. rewrite (IH H). replace (k =? k') with false by lia. reflexivity.
Qed.

Lemma filter_keys_absent {A} k (l : list (N * A)) : lookup k l = None ->
  filter (fun x => negb (x =? k)) (map fst l) = map fst l.
Proof.
  induction l as [|[k' v] l IH]; [reflexivity|]. cbn [lookup map fst filter].
  destruct (k' =? k) eqn:E; [discriminate|]. intros H. cbn [negb]. rewrite (IH H). reflexivity.
Qed.

(* ---------- effect of the commands of a draw on any store ---------- *)
Definition content_of (img : image) : timage := mkTimage (im_width img) (im_height img) (pix_bytes img).

Definition is_place (id pid : N) (p : place) : bool := (place_id p =? id) && (place_pid p =? pid).

Lemma run_put s id pid q im : t_pending s = None -> 1 <= id <= ID_MAX -> 1 <= pid <= ID_MAX ->
  img_lookup id (t_images s) = Some im ->
  store_run s [put_item id pid q] =
  mkStore (t_images s) ((id, pid, t_cursor s) :: filter (fun p => negb (is_place id pid p)) (t_places s))
          (t_pending s) (t_cursor s) (t_saved s) (t_sent s) (t_errs s).
Proof.
  intros Hp Hid Hpid Hl. cbn [store_run fold_left item_step put_item].
  rewrite gfx_step_put by exact Hp. rewrite (do_put_ok id pid s im) by (try assumption; lia).
  replace (pid =? 0) with false by lia. reflexivity.
Qed.

Lemma run_draw_fresh s id pid q img : t_pending s = None -> image_wf img -> nonempty img ->
  1 <= id <= ID_MAX -> 1 <= pid <= ID_MAX ->
  store_run s (tx_items id q img ++ [put_item id pid q]) =
  mkStore ((id, content_of img) :: filter (fun e => negb (fst e =? id)) (t_images s))
          ((id, pid, t_cursor s) ::
           filter (fun p => negb (is_place id pid p)) (filter (fun p => negb (place_id p =? id)) (t_places s)))
          None (t_cursor s) (t_saved s) ((id, content_of img) :: t_sent s) (t_errs s).
Proof.
  intros Hp Hwf Hne Hid Hpid. rewrite store_run_app, (store_transmit id q img s Hwf Hne Hid Hp).
  rewrite (run_put _ id pid q (content_of img)); try assumption; try reflexivity.
  unfold store_add_image. cbn [t_images img_lookup]. rewrite N.eqb_refl. reflexivity.
Qed.

Lemma run_del s id pid : t_pending s = None -> 1 <= id <= ID_MAX ->
  match pid with Some p => 1 <= p <= ID_MAX | None => True end ->
  store_run s [del_item id pid] =
  mkStore (t_images s)
          (filter (fun p => negb ((place_id p =? id) &&
                                  match pid with Some q => place_pid p =? q | None => true end)) (t_places s))
          (t_pending s) (t_cursor s) (t_saved s) (t_sent s) (t_errs s).
Proof.
  intros Hp Hid Hpid. cbn [store_run fold_left item_step del_item]. rewrite gfx_step_del by exact Hp.
  unfold delete_sel. change ((105 =? 97) || (105 =? 65)) with false. change ((105 =? 105) || (105 =? 73)) with true.
  change (105 =? 73) with false. cbn [andb].
  destruct pid as [p|].
  - replace ((id =? 0) || (ID_MAX <? id) || (ID_MAX <? p)) with false by lia.
    f_equal. apply filter_ext. intros pl. replace (p =? 0) with false by lia. reflexivity.
  - replace ((id =? 0) || (ID_MAX <? id) || (ID_MAX <? 0)) with false by (unfold ID_MAX in *; lia).
    f_equal.
Qed.

(* ---------- the invariant ---------- *)
(* strict = true: additionally every placement on the terminal names an image the handler still
   counts as transmitted; this part needs every error response to be genuine *)
Record Inv (strict : bool) (st : kitty) (s : tstore) : Prop := mkInv {
  inv_cache : cache_wf st;
  inv_errs : t_errs s = [];
  inv_pending : t_pending s = None;
  (* what the handler believes transmitted is what the terminal holds, pixel for pixel *)
  inv_images : forall id img hash, lookup id (k_imgs st) = Some (img, hash) ->
                 img_lookup id (t_images s) = Some (content_of img);
  (* every placement names a transmitted image *)
  inv_places : places_valid s;
  (* ... which the handler still counts as transmitted *)
  inv_places_cached : strict = true ->
                      forall p, In p (t_places s) -> lookup (place_id p) (k_imgs st) <> None;
  (* every remembered id is a valid one *)
  inv_ids : ids_range (k_ids st) }.

Lemma image_id_known st hash id : lookup hash (k_ids st) = Some id -> image_id st hash = id.
Proof. intros H. unfold image_id, id_in. rewrite H. reflexivity. Qed.

Definition keys (st : kitty) : list N := map fst (k_imgs st).

(* what one call contributes to the trace read by once_scan *)
Definition live_after (o : op) (st : kitty) : list N :=
  match err_of o with Some id => filter (fun x => negb (x =? id)) (keys st) | None => keys st end.

Definition sent_fact (o : op) (st st' : kitty) (s' : tstore) : Prop :=
  match t_sent s' with
  | [] => keys st' = live_after o st
  | [(i, _)] => nmem i (live_after o st) = false /\ keys st' = i :: live_after o st
  | _ => False
  end.

Lemma inv_init strict quiet : Inv strict (kitty_new quiet) store0.
Proof.
  constructor; try reflexivity.
  - intros id img hash H. discriminate.
  - intros id img hash H. discriminate.
  - intros p H. contradiction.
  - intros _ p H. contradiction.
  - intros h i H. discriminate.
Qed.

Lemma places_valid_sub s imgs places :
  (forall p, In p places -> In p (t_places s) /\ img_lookup (place_id p) imgs = img_lookup (place_id p) (t_images s)) ->
  places_valid s ->
  places_valid (mkStore imgs places (t_pending s) (t_cursor s) (t_saved s) (t_sent s) (t_errs s)).
Proof.
  intros H Hv p Hp. cbn [t_places t_images] in *. destruct (H p Hp) as [Hin E]. rewrite E. apply Hv, Hin.
Qed.

(* the invariant only looks at the cache of the handler state *)
(* ... and at the id table, which may have grown *)
Lemma inv_same_cache strict st st' s : k_imgs st' = k_imgs st ->
  (forall h i, lookup h (k_ids st) = Some i -> lookup h (k_ids st') = Some i) -> ids_range (k_ids st') ->
  Inv strict st s -> Inv strict st' s.
Proof.
  intros E Hgrow Hr [Hc He Hp Hi Hv Hpc Hir]. constructor; try assumption.
  - intros id img hash Hl. rewrite E in Hl. destruct (Hc _ _ _ Hl) as (Hk & Hw & Hn).
    split; [apply Hgrow, Hk|split; assumption].
  - rewrite E. exact Hi.
  - rewrite E. exact Hpc.
Qed.

Lemma inv_note strict st s hash sup imgs : imgs = k_imgs st -> Inv strict st s ->
  Inv strict (mkKitty imgs (ids_note (k_ids st) hash) sup) s.
Proof.
  intros -> HI. apply (inv_same_cache strict st); [reflexivity| |apply ids_note_range, (inv_ids _ _ _ HI)|exact HI].
  cbn [k_ids]. intros h i Hl. apply lookup_note_kept, Hl.
Qed.

Lemma inv_clear strict st s : Inv strict st s -> Inv strict st (clear_log s).
Proof. intros [Hc He Hp Hi Hv Hpc Hir]. constructor; assumption. Qed.

Lemma inv_set_cursor strict st s c sv : Inv strict st s -> Inv strict st (set_cursor c sv s).
Proof. intros [Hc He Hp Hi Hv Hpc Hir]. constructor; assumption. Qed.

(* the terminal forgets image id; the handler's cache has no entry for it (any more) *)
Lemma inv_forget strict st st' s id :
  lookup id (k_imgs st') = None ->
  (forall id', id' <> id -> lookup id' (k_imgs st') = lookup id' (k_imgs st)) ->
  k_ids st' = k_ids st ->
  Inv strict st s -> Inv strict st' (store_forget id s).
Proof.
  intros Hnone Hsame Eids [Hc He Hp Hi Hv Hpc Hir].
  assert (Hsub : forall id' x, lookup id' (k_imgs st') = Some x -> id' <> id /\ lookup id' (k_imgs st) = Some x).
  { intros id' x Hx. destruct (N.eq_dec id' id) as [->|Hne]; [rewrite Hnone in Hx; discriminate|].
    split; [exact Hne|]. rewrite <- Hsame by exact Hne. exact Hx. }
  constructor; try assumption.
  - intros id' img hash Hl. destruct (Hsub _ _ Hl) as [_ Hl']. rewrite Eids. exact (Hc _ _ _ Hl').
  - intros id' img hash Hl. destruct (Hsub _ _ Hl) as [Hne Hl']. cbn [store_forget t_images].
    rewrite img_lookup_filter_other by exact Hne. exact (Hi _ _ _ Hl').
  - intros p Hin. cbn [store_forget t_places t_images] in *. apply filter_In in Hin as [Hin Hf].
    rewrite img_lookup_filter_other by lia. apply Hv, Hin.
  - intros Hs p Hin. cbn [store_forget t_places] in Hin. apply filter_In in Hin as [Hin Hf].
    rewrite Hsame by lia. apply (Hpc Hs), Hin.
  - rewrite Eids. exact Hir.
Qed.

Lemma nmem_filter_self id l : nmem id (filter (fun x => negb (x =? id)) l) = false.
Proof.
  induction l as [|x l IH]; [reflexivity|]. cbn [filter]. destruct (x =? id) eqn:E; cbn [negb]; [exact IH|].
  unfold nmem in *. cbn [existsb]. rewrite IH. replace (id =? x) with false by lia. reflexivity.
Qed.

(* drawing an image that is not cached, on any store related to the handler by the invariant *)
Lemma inv_draw_fresh strict st s sup img hash pid q : Inv strict st s -> image_wf img -> nonempty img ->
  lookup (image_id st hash) (k_imgs st) = None -> 1 <= pid <= ID_MAX ->
  let id := image_id st hash in
  let s' := store_run s (tx_items id q img ++ [put_item id pid q]) in
  Inv strict (mkKitty ((id, (img, hash)) :: k_imgs st) (ids_note (k_ids st) hash) sup) s' /\
  t_sent s' = (id, content_of img) :: t_sent s /\
  In (id, pid, t_cursor s) (t_places s') /\ t_cursor s' = t_cursor s /\ t_saved s' = t_saved s.
Proof.
  intros [Hc He Hp Hi Hv Hpc Hir] Hwf Hne Hl Hpid id s'.
  pose proof (image_id_range st hash Hir) as Hid. fold id in Hid, Hl.
  unfold s'. rewrite (run_draw_fresh s id pid q img Hp Hwf Hne Hid Hpid).
  split; [|repeat split; try reflexivity; cbn [t_places]; left; reflexivity].
  constructor; cbn [k_imgs k_ids t_errs t_pending t_images]; try assumption; try reflexivity.
  - intros id' img' hash' Hl'. cbn [lookup k_imgs] in Hl'. destruct (id =? id') eqn:E.
    + apply N.eqb_eq in E. inversion Hl'; subst img' hash' id'.
      split; [apply lookup_note_same|split; assumption].
    + destruct (Hc _ _ _ Hl') as (Hk & Hw' & Hn'). split; [apply lookup_note_kept, Hk|split; assumption].
  - intros id' img' hash' Hl'. cbn [lookup k_imgs] in Hl'. cbn [img_lookup]. destruct (id =? id') eqn:E.
    + inversion Hl'; subst img' hash'. reflexivity.
    + rewrite img_lookup_filter_other by lia. exact (Hi _ _ _ Hl').
  - intros p Hin. cbn [t_places t_images] in *. destruct Hin as [<-|Hin].
    + cbn [place_id fst img_lookup]. rewrite N.eqb_refl. discriminate.
    + apply filter_In in Hin as [Hin _]. apply filter_In in Hin as [Hin Hf].
      cbn [img_lookup]. replace (id =? place_id p) with false by lia.
      rewrite img_lookup_filter_other by lia. apply Hv, Hin.
  - intros Hs p Hin. cbn [t_places k_imgs lookup] in *. destruct Hin as [<-|Hin].
    + cbn [place_id fst]. rewrite N.eqb_refl. discriminate.
    + apply filter_In in Hin as [Hin _]. apply filter_In in Hin as [Hin Hf].
      replace (id =? place_id p) with false by lia. apply (Hpc Hs), Hin.
  - apply ids_note_range, Hir.
Qed.

Lemma snd_step_draw st img hash pos : snd (step st (OpDraw img hash pos)) = snd (draw st img hash pos).
Proof. cbn [step]. destruct (draw st img hash pos). reflexivity. Qed.

Lemma step_draw_ok strict lost st s img hash pos : Inv strict st s -> image_wf img ->
  let o := OpDraw img hash pos in
  Inv strict (snd (step st o)) (term_step lost st s o) /\
  sent_fact o st (snd (step st o)) (term_step lost st s o).
Proof.
  intros HI Hwf o. pose proof HI as [Hc He Hp Hi Hv Hpc Hir].
  unfold o. rewrite term_step_items by assumption. rewrite snd_step_draw.
  cbn [pre_store step_items]. unfold sent_fact, live_after. cbn [err_of]. unfold draw_items.
  destruct (nonempty_dec img) as [Hne|Hne].
  - destruct Hne as [Hh Hw]. replace ((im_height img =? 0) || (im_width img =? 0)) with false by lia.
    unfold cached. destruct (lookup (image_id st hash) (k_imgs st)) as [[img0 hash0]|] eqn:Hl.
    + (* cached: only the placement *)
      rewrite (draw_cached st img hash pos _ (conj Hh Hw) Hl). cbn [snd].
      rewrite (run_put (clear_log s) _ _ _ (content_of img0));
        [|exact Hp|apply image_id_range, Hir|apply placement_id_range|exact (Hi _ _ _ Hl)].
      cbn [t_sent clear_log]. split; [|reflexivity].
      apply inv_note; [reflexivity|].
      constructor; cbn [t_errs t_pending t_images clear_log]; try assumption.
      -- intros p Hin. cbn [t_places t_images clear_log] in *. destruct Hin as [<-|Hin].
         ++ cbn [place_id fst]. rewrite (Hi _ _ _ Hl). discriminate.
         ++ apply filter_In in Hin as [Hin _]. apply Hv, Hin.
      -- intros Hs p Hin. cbn [t_places clear_log] in *. destruct Hin as [<-|Hin].
         ++ cbn [place_id fst]. rewrite Hl. discriminate.
         ++ apply filter_In in Hin as [Hin _]. apply (Hpc Hs), Hin.
    + (* not cached: transmit, then place *)
      rewrite (draw_fresh st img hash pos (conj Hh Hw) Hl). cbn [snd].
      destruct (inv_draw_fresh strict st (clear_log s) (k_suppress st) img hash (placement_id pos) (qval st)
                  (inv_clear strict st s HI) Hwf (conj Hh Hw) Hl (placement_id_range pos)) as (HI' & Hs & _).
      split; [exact HI'|]. rewrite Hs. cbn [t_sent clear_log keys k_imgs map fst].
      split; [apply lookup_none_keys, Hl|reflexivity].
  - (* no pixels: nothing is written *)
    rewrite (draw_empty st img hash pos Hne). cbn [snd]. unfold nonempty in Hne.
    replace ((im_height img =? 0) || (im_width img =? 0)) with true by lia.
    cbn [store_run fold_left t_sent clear_log]. split; [apply inv_clear, HI|reflexivity].
Qed.

Lemma step_erase_ok strict lost st s img hash pos : Inv strict st s -> image_wf img ->
  let o := OpErase img hash pos in
  Inv strict (snd (step st o)) (term_step lost st s o) /\
  sent_fact o st (snd (step st o)) (term_step lost st s o).
Proof.
  intros HI Hwf o. pose proof HI as [Hc He Hp Hi Hv Hpc Hir].
  unfold o. rewrite term_step_items by assumption. cbn [step erase snd pre_store step_items].
  rewrite run_del; [|exact Hp|apply image_id_range, Hir|destruct pos; cbn [option_map]; [apply placement_id_range|exact I]].
  unfold sent_fact, live_after. cbn [err_of t_sent clear_log]. split; [|reflexivity].
  unfold note_id. apply inv_note; [reflexivity|].
  constructor; cbn [t_errs t_pending t_images clear_log]; try assumption.
  - intros p Hin. cbn [t_places t_images clear_log] in *. apply filter_In in Hin as [Hin _]. apply Hv, Hin.
  - intros Hs p Hin. cbn [t_places clear_log] in *. apply filter_In in Hin as [Hin _]. apply (Hpc Hs), Hin.
Qed.

Lemma remove_key_sub {A} id (l : list (N * A)) id' x :
  lookup id' (remove_key id l) = Some x -> id' <> id /\ lookup id' l = Some x.
Proof.
  intros H. destruct (N.eq_dec id' id) as [->|Hne].
  - rewrite lookup_remove_same in H. discriminate.
  - split; [exact Hne|]. rewrite lookup_remove_other in H by exact Hne. exact H.
Qed.

(* the terminal side before an error response: image forgotten (genuine) or everything kept (spurious) *)
Definition pre_err (lost : bool) (id : N) (s : tstore) : tstore :=
  if lost then store_forget id (clear_log s) else clear_log s.

Lemma inv_pre_err strict lost st st' s id : (strict = true -> lost = true) ->
  lookup id (k_imgs st') = None ->
  (forall id', id' <> id -> lookup id' (k_imgs st') = lookup id' (k_imgs st)) ->
  k_ids st' = k_ids st ->
  Inv strict st s -> Inv strict st' (pre_err lost id s).
Proof.
  intros Hsl Hnone Hsame Eids HI. unfold pre_err. destruct lost.
  - apply (inv_forget strict st st' (clear_log s) id Hnone Hsame Eids), inv_clear, HI.
  - destruct strict; [specialize (Hsl eq_refl); discriminate|].
    destruct HI as [Hc He Hp Hi Hv Hpc Hir].
    assert (Hsub : forall id' x, lookup id' (k_imgs st') = Some x -> lookup id' (k_imgs st) = Some x).
    { intros id' x Hx. destruct (N.eq_dec id' id) as [->|Hne]; [rewrite Hnone in Hx; discriminate|].
      rewrite <- Hsame by exact Hne. exact Hx. }
    constructor; cbn [clear_log t_errs t_pending t_images t_places]; try assumption.
    + intros id' img hash Hl. rewrite Eids. exact (Hc _ _ _ (Hsub _ _ Hl)).
    + intros id' img hash Hl. exact (Hi _ _ _ (Hsub _ _ Hl)).
    + intros Hs. discriminate.
    + rewrite Eids. exact Hir.
Qed.

Lemma pre_err_facts lost id s : t_sent (pre_err lost id s) = [] /\ t_pending (pre_err lost id s) = t_pending s /\
  t_errs (pre_err lost id s) = t_errs s.
Proof. unfold pre_err. destruct lost; repeat split. Qed.

Lemma pre_store_err lost id pl s : pre_store lost (OpEvent (EvKitty id pl true)) s = pre_err lost id s.
Proof. reflexivity. Qed.

Lemma step_event_ok strict lost st s ev : (strict = true -> lost = true) -> Inv strict st s ->
  let o := OpEvent ev in
  Inv strict (snd (step st o)) (term_step lost st s o) /\
  sent_fact o st (snd (step st o)) (term_step lost st s o).
Proof.
  intros Hsl HI o. pose proof HI as [Hc He Hp Hi Hv Hpc Hir].
  unfold o. rewrite term_step_items by (try assumption; exact I).
  unfold sent_fact, live_after. cbn [step step_items].
  destruct ev as [id pl err|].
  2:{ cbn [handle snd fst pre_store handle_items err_of store_run fold_left t_sent clear_log].
      split; [apply inv_clear, HI|reflexivity]. }
  destruct err.
  2:{ cbn [handle snd fst pre_store err_of].
      assert (E : handle_items st (EvKitty id pl false) = []) by (destruct pl; reflexivity).
      rewrite E. cbn [store_run fold_left t_sent clear_log]. split; [apply inv_clear, HI|reflexivity]. }
  rewrite pre_store_err. cbn [err_of]. unfold handle, handle_items.
  destruct (pre_err_facts lost id s) as (Hs0 & Hp0' & He0).
  destruct (lookup id (k_imgs st)) as [[img hash]|] eqn:Hl.
  2:{ (* the handler does not know the image: nothing written, nothing changes *)
      assert (E : match pl with Some _ => @nil item | None => [] end = []) by (destruct pl; reflexivity).
      rewrite E. cbn [snd fst store_run fold_left]. rewrite Hs0. split.
      - apply (inv_pre_err strict lost st st s id Hsl Hl); [reflexivity|reflexivity|exact HI].
      - symmetry. apply filter_keys_absent, Hl. }
  destruct (Hc _ _ _ Hl) as (Hlk & Hwf & Hne).
  pose proof (image_id_known st hash id Hlk) as Hid.
  destruct pl as [p|].
  2:{ (* no placement: the image is dropped from the cache *)
      cbn [snd fst store_run fold_left]. rewrite Hs0. split.
      - apply (inv_pre_err strict lost st _ s id Hsl); [apply lookup_remove_same| |reflexivity|exact HI].
        cbn [k_imgs]. intros id' Hne'. apply lookup_remove_other, Hne'.
      - unfold keys. cbn [k_imgs]. apply keys_remove. }
  (* placement given: cursor save, move, re-transmission and placement, cursor restore *)
  set (st1 := mkKitty (remove_key id (k_imgs st)) (k_ids st) (Some 2)).
  set (pos := placement_to_pos p).
  change (image_id st hash) with (image_id st1 hash) in Hid.
  assert (Hl1 : lookup (image_id st1 hash) (k_imgs st1) = None) by (rewrite Hid; apply lookup_remove_same).
  rewrite (draw_fresh st1 img hash pos Hne Hl1). cbn [snd fst k_imgs k_ids k_suppress].
  unfold draw_items. destruct Hne as [Hh Hw].
  replace ((im_height img =? 0) || (im_width img =? 0)) with false by lia.
  unfold cached. rewrite Hl1.
  set (s0 := pre_err lost id s) in *.
  assert (HI0 : Inv strict st1 s0).
  { apply (inv_pre_err strict lost st st1 s id Hsl); [apply lookup_remove_same| |reflexivity|exact HI].
    intros id' Hne'. apply lookup_remove_other, Hne'. }
  rewrite !store_run_cons.
  assert (Hp0 : t_pending s0 = None) by (rewrite Hp0'; exact Hp).
  set (s1 := item_step s0 ISave).
  assert (E1 : s1 = set_cursor (t_cursor s0) (Some (t_cursor s0)) s0)
    by (unfold s1; cbn [item_step]; rewrite Hp0; reflexivity).
  set (s2 := item_step s1 (IMoveTo (fst pos + 1) (snd pos + 1))).
  assert (E2 : s2 = set_cursor (Some (N.pred (N.max (fst pos + 1) 1), N.pred (N.max (snd pos + 1) 1)))
                               (t_saved s1) s1)
    by (unfold s2; cbn [item_step]; rewrite E1; cbn [set_cursor t_pending]; rewrite Hp0; reflexivity).
  assert (HI2 : Inv strict st1 s2) by (rewrite E2, E1; apply inv_set_cursor, inv_set_cursor, HI0).
  rewrite store_run_app.
  destruct (inv_draw_fresh strict st1 s2 (k_suppress st) img hash (placement_id pos) (qval st1) HI2 Hwf (conj Hh Hw) Hl1
              (placement_id_range pos)) as (HI3 & Hs3 & _ & _ & _).
  set (s3 := store_run s2 (tx_items (image_id st1 hash) (qval st1) img ++
                           [put_item (image_id st1 hash) (placement_id pos) (qval st1)])) in *.
  cbn [store_run fold_left].
  assert (E4 : item_step s3 IRestore =
               set_cursor (match t_saved s3 with Some c => c | None => Some (0, 0) end) (t_saved s3) s3).
  { cbn [item_step]. rewrite (inv_pending _ _ _ HI3). reflexivity. }
  rewrite E4. rewrite Hid in *. split.
  - apply inv_set_cursor. exact HI3.
  - cbn [set_cursor t_sent]. rewrite Hs3, E2, E1. cbn [set_cursor t_sent]. rewrite Hs0.
    split; [apply nmem_filter_self|]. unfold keys. cbn [k_imgs map fst]. unfold st1. cbn [k_imgs]. rewrite keys_remove. reflexivity.
Qed.

(* ---------- all histories ---------- *)
Lemma step_ok strict lost st s o : (strict = true -> lost = true) -> Inv strict st s -> op_wf o ->
  Inv strict (snd (step st o)) (term_step lost st s o) /\
  sent_fact o st (snd (step st o)) (term_step lost st s o).
Proof.
  intros Hsl HI Hw. destruct o as [img hash pos|img hash pos|ev].
  - apply step_draw_ok; assumption.
  - apply step_erase_ok; assumption.
  - apply step_event_ok; assumption.
Qed.

Definition sent_ids (s : tstore) : list N := map fst (t_sent s).

(* any mix of genuine and spurious error responses (strict = false), or genuine ones only (strict = true) *)
Theorem history_ok strict : forall (ops : list (op * bool)) st s, Inv strict st s ->
  Forall (fun ol => op_wf (fst ol) /\ (strict = true -> snd ol = true)) ops ->
  Forall (fun s' => t_errs s' = [] /\ t_pending s' = None /\ places_valid s') (lockstep st s ops) /\
  once_scan (keys st) (combine (map (fun ol => err_of (fst ol)) ops) (map sent_ids (lockstep st s ops))) = true.
Proof.
  induction ops as [|[o lost] r IH]; intros st s HI Hw; [split; [constructor|reflexivity]|].
  inversion Hw as [|? ? [Ho Hsl] Hr]; subst. cbn [fst snd] in *. cbn [lockstep map combine fst].
  destruct (step_ok strict lost st s o Hsl HI Ho) as [HI' Hs].
  destruct (IH _ _ HI' Hr) as [IH1 IH2]. split.
  - constructor; [|exact IH1]. destruct HI'. auto.
  - cbn [once_scan]. unfold sent_fact, live_after, sent_ids in *.
    destruct (t_sent (term_step lost st s o)) as [|[i im] [|x l]]; cbn [map fst]; try contradiction.
    + rewrite Hs in IH2. exact IH2.
    + destruct Hs as [Hn Hk]. rewrite Hk in IH2. rewrite Hn, IH2. reflexivity.
Qed.

(* ---------- draw and erase address the same placement ---------- *)
Lemma places_filter id pid l :
  map fst (filter (fun p => negb (is_place id pid p)) l) =
  filter (fun x => negb (pl_eqb x (id, pid))) (map fst l).
Proof.
  induction l as [|[[i p] c] l IH]; [reflexivity|]. cbn [filter map fst].
  unfold is_place, pl_eqb, place_id, place_pid in *. cbn [fst snd] in *.
  destruct ((i =? id) && (p =? pid)); cbn [negb map fst]; rewrite IH; reflexivity.
Qed.

Lemma places_filter_id id (l : list place) :
  map fst (filter (fun p => negb ((place_id p =? id) && true)) l) =
  filter (fun x => negb (fst x =? id)) (map fst l).
Proof.
  induction l as [|[[i q] c] l IH]; [reflexivity|]. cbn [filter map fst].
  unfold place_id in *. cbn [fst] in *. rewrite andb_true_r.
  destruct (i =? id); cbn [negb map fst]; rewrite IH; reflexivity.
Qed.

Lemma filter_all {A} (f : A -> bool) l : (forall x, In x l -> f x = true) -> filter f l = l.
Proof.
  induction l as [|x l IH]; intros H; [reflexivity|]. cbn [filter]. rewrite (H x (or_introl eq_refl)).
  rewrite IH; [reflexivity|]. intros y Hy. apply H. right. exact Hy.
Qed.

Lemma map_fst_filter_id id (l : list place) :
  map fst (filter (fun p => negb (place_id p =? id)) l) = filter (fun x => negb (fst x =? id)) (map fst l).
Proof.
  induction l as [|[[i q] c] l IH]; [reflexivity|]. cbn [filter map fst].
  unfold place_id in *. cbn [fst] in *. destruct (i =? id); cbn [negb map fst]; rewrite IH; reflexivity.
Qed.

(* whatever the terminal still holds (genuine or spurious errors before): a draw creates the placement
   (id, pid); if it had to transmit, the terminal dropped the old placements of the id with the old data *)
Theorem draw_places_gen strict lost st s img hash pos : Inv strict st s -> image_wf img -> nonempty img ->
  places_of (term_step lost st s (OpDraw img hash pos)) =
  (image_id st hash, placement_id pos)
    :: filter (fun x => negb (pl_eqb x (image_id st hash, placement_id pos)))
         (if cached st hash then places_of s
          else filter (fun x => negb (fst x =? image_id st hash)) (places_of s)).
Proof.
  intros HI Hwf Hne. pose proof HI as [Hc He Hp Hi Hv Hpc Hir].
  rewrite term_step_items by assumption. cbn [pre_store step_items]. unfold draw_items.
  destruct Hne as [Hh Hw]. replace ((im_height img =? 0) || (im_width img =? 0)) with false by lia.
  unfold cached, places_of. destruct (lookup (image_id st hash) (k_imgs st)) as [[img0 hash0]|] eqn:Hl.
  - rewrite (run_put (clear_log s) _ _ _ (content_of img0));
      [|exact Hp|apply image_id_range, Hir|apply placement_id_range|exact (Hi _ _ _ Hl)].
    cbn [t_places clear_log map fst]. rewrite places_filter. reflexivity.
  - rewrite (run_draw_fresh (clear_log s) _ _ _ img Hp Hwf (conj Hh Hw) (image_id_range st hash Hir) (placement_id_range pos)).
    cbn [t_places clear_log map fst]. rewrite places_filter, map_fst_filter_id. reflexivity.
Qed.

(* when every error response was genuine, no placement of an uncached id is left: a draw touches nothing else *)
Theorem draw_places lost st s img hash pos : Inv true st s -> image_wf img -> nonempty img ->
  places_of (term_step lost st s (OpDraw img hash pos)) =
  (image_id st hash, placement_id pos)
    :: filter (fun x => negb (pl_eqb x (image_id st hash, placement_id pos))) (places_of s).
Proof.
  intros HI Hwf Hne. rewrite (draw_places_gen true lost st s img hash pos HI Hwf Hne).
  unfold cached. destruct (lookup (image_id st hash) (k_imgs st)) eqn:Hl; [reflexivity|].
  f_equal. f_equal. apply filter_all. intros x Hin. unfold places_of in Hin.
  apply in_map_iff in Hin as (p & <- & Hin).
  pose proof (inv_places_cached _ _ _ HI eq_refl p Hin) as Hpc.
  destruct (fst (fst p) =? image_id st hash) eqn:E; [|reflexivity].
  apply N.eqb_eq in E. unfold place_id in Hpc. rewrite E in Hpc. contradiction.
Qed.

Theorem erase_places strict lost st s img hash pos : Inv strict st s -> image_wf img ->
  places_of (term_step lost st s (OpErase img hash pos)) =
  match pos with
  | Some p => filter (fun x => negb (pl_eqb x (image_id st hash, placement_id p))) (places_of s)
  | None => filter (fun x => negb (fst x =? image_id st hash)) (places_of s)
  end.
Proof.
  intros HI Hwf. pose proof HI as [Hc He Hp Hi Hv Hpc Hir].
  rewrite term_step_items by assumption. cbn [pre_store step_items]. unfold places_of.
  rewrite run_del; [|exact Hp|apply image_id_range, Hir|destruct pos; cbn [option_map]; [apply placement_id_range|exact I]].
  cbn [t_places clear_log]. destruct pos as [p|]; cbn [option_map].
  - apply places_filter.
  - apply places_filter_id.
Qed.

(* erase(img, pos) removes the placement draw(img, pos) created, and no placement of the image at
   any other position (coordinates below 65536, the pair (65534,65535) / (65535,65535) excepted) *)
Theorem erase_exact strict lost st s img hash pos : Inv strict st s -> image_wf img -> in_dom pos ->
  let s' := term_step lost st s (OpErase img hash (Some pos)) in
  ~ In (image_id st hash, placement_id pos) (places_of s') /\
  (forall x, In x (places_of s) -> x <> (image_id st hash, placement_id pos) -> In x (places_of s')) /\
  (forall pos', in_dom pos' -> pos' <> pos ->
     ~ (pos = (65534, 65535) /\ pos' = (65535, 65535)) -> ~ (pos = (65535, 65535) /\ pos' = (65534, 65535)) ->
     In (image_id st hash, placement_id pos') (places_of s) ->
     In (image_id st hash, placement_id pos') (places_of s')).
Proof.
  intros HI Hwf Hd s'. unfold s'. rewrite (erase_places strict lost st s img hash (Some pos) HI Hwf).
  assert (Hkeep : forall x, In x (places_of s) -> x <> (image_id st hash, placement_id pos) ->
            In x (filter (fun x => negb (pl_eqb x (image_id st hash, placement_id pos))) (places_of s))).
  { intros x Hin Hne. apply filter_In. split; [exact Hin|].
    destruct x as [i p]. unfold pl_eqb. cbn [fst snd].
    destruct (i =? image_id st hash) eqn:E1, (p =? placement_id pos) eqn:E2; try reflexivity.
    apply N.eqb_eq in E1, E2. subst. contradiction. }
  repeat split.
  - intros Hin. apply filter_In in Hin as [_ Hf]. unfold pl_eqb in Hf. cbn [fst snd] in Hf.
    rewrite !N.eqb_refl in Hf. discriminate.
  - exact Hkeep.
  - intros pos' Hd' Hne Hc1 Hc2 Hin. apply Hkeep; [exact Hin|].
    intros E. inversion E as [E']. destruct (placement_inj pos' pos Hd' Hd E') as [X|[[X Y]|[X Y]]]; subst; tauto.
Qed.

(* the bytes of every call parse, and to exactly the commands step_items *)
Lemma step_bytes_parse st o : cache_wf st -> op_wf o ->
  parse_stream (fst (fst (step st o))) = Some (step_items st o).
Proof.
  intros Hc Hw. unfold step.
  destruct o as [img hash pos|img hash pos|ev]; cbn [op_wf step_items] in *.
  - destruct (draw st img hash pos) as [b st'] eqn:E. cbn [fst].
    pose proof (parse_draw st img hash pos Hw) as P. rewrite E in P. exact P.
  - destruct (erase st img hash pos) as [b st'] eqn:E. cbn [fst].
    pose proof (parse_erase st img hash pos) as P. rewrite E in P. exact P.
  - destruct (handle st ev) as [[b st'] r] eqn:E. cbn [fst].
    assert (Hwf : forall id img hash, lookup id (k_imgs st) = Some (img, hash) -> image_wf img)
      by (intros id img hash Hl; apply (Hc id img hash Hl)).
    pose proof (parse_handle st ev Hwf) as P. rewrite E in P. exact P.
Qed.
