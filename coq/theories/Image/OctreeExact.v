(* Proofs about Image/Octree.v, part 2: exactness.  An octree that has only seen
   insertions is a finite map from 8-step bit paths to pure leaves (n copies of one
   colour), its cached infos are exact, and its leaves are exactly the distinct
   colours inserted.  Hence if the distinct colours number at most max(k,8),
   prune_until(k) removes nothing and the palette contains every inserted colour. *)
From Coq Require Import List NArith ZArith Bool Lia Arith.
From Coq Require Import ZifyBool ZifyNat ZifyN.
From SNT Require Import Base.Outcome Base.Sweep Base.Report Image.KDTree Image.KDTreeProofs Image.Octree
     Image.OctreeProofs Image.OctreePath.
Import ListNotations.

Arguments N.add : simpl never.
Arguments N.sub : simpl never.
Arguments N.mul : simpl never.
Arguments N.eqb : simpl never.
Arguments N.ltb : simpl never.
Arguments N.leb : simpl never.
Arguments N.div : simpl never.
Arguments N.modulo : simpl never.
Arguments N.max : simpl never.

(* ---------- the bit path determines the colour ---------- *)

Definition state_step (c : rgb) : rgb := snd (path_step c).

Fixpoint state_n (n : nat) (c : rgb) : rgb :=
  match n with O => c | S n' => state_n n' (state_step c) end.

Lemma path_step_inj c1 c2 :
  rgb_ok c1 = true -> rgb_ok c2 = true -> path_step c1 = path_step c2 -> c1 = c2.
Proof.
  destruct c1 as [[r1 g1] b1], c2 as [[r2 g2] b2]. unfold rgb_ok, path_step. intros H1 H2 H.
  assert (r1 < 256 /\ g1 < 256 /\ b1 < 256 /\ r2 < 256 /\ g2 < 256 /\ b2 < 256)%N
    as (? & ? & ? & ? & ? & ?) by lia.
  inversion H as [[Hi Hr Hg Hb]]. clear H H1 H2.
  assert (r1 / 128 < 2 /\ g1 / 128 < 2 /\ b1 / 128 < 2 /\ r2 / 128 < 2 /\ g2 / 128 < 2 /\ b2 / 128 < 2)%N
    as (? & ? & ? & ? & ? & ?) by (repeat split; apply N.div_lt_upper_bound; lia).
  assert (r1 / 128 = r2 / 128 /\ g1 / 128 = g2 / 128 /\ b1 / 128 = b2 / 128)%N as (Er & Eg & Eb) by lia.
  pose proof (N.div_mod r1 128). pose proof (N.div_mod r2 128).
  pose proof (N.div_mod g1 128). pose proof (N.div_mod g2 128).
  pose proof (N.div_mod b1 128). pose proof (N.div_mod b2 128).
  pose proof (N.mod_upper_bound r1 128). pose proof (N.mod_upper_bound r2 128).
  pose proof (N.mod_upper_bound g1 128). pose proof (N.mod_upper_bound g2 128).
  pose proof (N.mod_upper_bound b1 128). pose proof (N.mod_upper_bound b2 128).
  assert (forall x, (x < 256)%N -> ((2 * x) mod 256 = 2 * (x mod 128))%N) as Hm.
  { intros x Hx. replace 256%N with (2 * 128)%N by reflexivity.
    rewrite N.mul_mod_distr_l by lia. reflexivity. }
  rewrite !Hm in Hr, Hg, Hb by assumption.
  repeat f_equal; lia.
Qed.

Lemma state_step_ok c : rgb_ok c = true -> rgb_ok (state_step c) = true.
Proof. intros H. apply (path_step_ok c H). Qed.

Lemma path_n_inj n : forall c1 c2,
  rgb_ok c1 = true -> rgb_ok c2 = true ->
  path_n n c1 = path_n n c2 -> state_n n c1 = state_n n c2 -> c1 = c2.
Proof.
  induction n as [|n IH]; intros c1 c2 H1 H2 Hp Hs; [exact Hs|].
  cbn [path_n state_n] in Hp, Hs. unfold state_step in Hs.
  destruct (path_step c1) as [i1 c1'] eqn:E1. destruct (path_step c2) as [i2 c2'] eqn:E2.
  cbn [snd] in Hs. inversion Hp as [[Hi Hrest]].
  pose proof (path_step_ok c1 H1) as [_ O1]. pose proof (path_step_ok c2 H2) as [_ O2].
  rewrite E1 in O1. rewrite E2 in O2. cbn [snd] in O1, O2.
  assert (c1' = c2') by (apply IH; assumption). subst.
  apply path_step_inj; try assumption. congruence.
Qed.

Definition chan_step (r : N) : N := ((2 * r) mod 256)%N.
Fixpoint chan_n (n : nat) (r : N) : N := match n with O => r | S n' => chan_n n' (chan_step r) end.

Lemma chan_8_zero : forall r, (r < 256)%N -> chan_n 8 r = 0%N.
Proof.
  intros r Hr.
  assert (H : sweep1 256 (fun r => chan_n 8 r =? 0)%N = true) by (vm_compute; reflexivity).
  assert (Hr' : (r < N.of_nat 256)%N) by (change (N.of_nat 256) with 256%N; exact Hr).
  pose proof (sweep1_sound 256 _ H r Hr') as Hz. cbv beta in Hz. lia.
Qed.

Lemma state_n_chan n : forall r g b, state_n n (r, g, b) = (chan_n n r, chan_n n g, chan_n n b).
Proof. induction n as [|n IH]; intros r g b; [reflexivity|]. cbn [state_n chan_n]. apply IH. Qed.

Lemma path_of_inj c1 c2 :
  rgb_ok c1 = true -> rgb_ok c2 = true -> path_of c1 = path_of c2 -> c1 = c2.
Proof.
  intros H1 H2 Hp. apply (path_n_inj 8); try assumption.
  destruct c1 as [[r1 g1] b1], c2 as [[r2 g2] b2]. rewrite !state_n_chan.
  unfold rgb_ok in H1, H2. rewrite !chan_8_zero by lia. reflexivity.
Qed.

(* ---------- insertion-only trees ---------- *)

Inductive full : nat -> node -> Prop :=
| full_empty h : full h Empty
| full_leaf l : (1 <= l_n l)%N -> ratio l -> full 0 (Leaf l)
| full_tree h rm ch :
    length ch = 8%nat -> Forall (full h) ch -> (1 <= lsum nleaves ch)%nat -> ratio rm ->
    full (S h) (Tree (from_slice ch) rm ch).

Fixpoint lookup (path : list nat) (n : node) : option leaf :=
  match path, n with
  | [], Leaf l => Some l
  | k :: rest, Tree _ _ ch => lookup rest (nth k ch Empty)
  | _, _ => None
  end.

Lemma lookup_empty path : lookup path Empty = None.
Proof. destruct path; reflexivity. Qed.

Lemma full_wf n : forall h, full h n -> wf_node h n.
Proof.
  induction n as [| l | i rm ch IH] using node_ind'; intros h Hf; inversion Hf; subst.
  - constructor.
  - constructor; assumption.
  - apply mk_tree_wf; try assumption.
    match goal with H : Forall (full _) ch |- _ => rename H into Hall end.
    rewrite Forall_forall in *. intros c Hc. apply IH; [exact Hc|apply Hall, Hc].
Qed.

Lemma nsum_eq_lsum (g : node -> N) (f : node -> nat) l :
  Forall (fun c => g c = N.of_nat (f c)) l -> nsum g l = N.of_nat (lsum f l).
Proof. induction 1 as [|x r Hx Hr IH]; [reflexivity|]. rewrite nsum_cons, lsum_cons, IH, Hx. lia. Qed.

Lemma full_info_exact n : forall h, full h n -> i_leaves (node_info n) = N.of_nat (nleaves n).
Proof.
  induction n as [| l | i rm ch IH] using node_ind'; intros h Hf; inversion Hf; subst; try reflexivity.
  cbn [node_info nleaves]. rewrite from_slice_leaves. apply nsum_eq_lsum.
  match goal with H : Forall (full _) ch |- _ => rename H into Hall end.
  rewrite Forall_forall in *. intros c Hc. eapply IH; [exact Hc|apply Hall, Hc].
Qed.

Lemma lookup_leaves path : forall n l, lookup path n = Some l -> In l (leaves_of n).
Proof.
  induction path as [|k rest IH]; intros n l H.
  - destruct n; try discriminate. inversion H. now left.
  - destruct n as [| |i rm ch]; try discriminate. cbn [lookup] in H. cbn [leaves_of].
    apply in_flat_map. exists (nth k ch Empty). split; [|apply IH, H].
    destruct (Nat.lt_ge_cases k (length ch)) as [Hk|Hk]; [apply nth_In, Hk|].
    rewrite nth_overflow in H by lia. now rewrite lookup_empty in H.
Qed.

Definition bump (o : option leaf) (c : rgb) : leaf :=
  match o with Some l => leaf_add l c | None => leaf_of c end.
Definition fresh (o : option leaf) : nat := match o with Some _ => 0 | None => 1 end.

Lemma leaf_of_pos c : (1 <= l_n (leaf_of c))%N.
Proof. destruct c as [[? ?] ?]. cbn. lia. Qed.
Lemma leaf_add_pos l c : (1 <= l_n (leaf_add l c))%N.
Proof. destruct c as [[? ?] ?]. cbn. lia. Qed.

Lemma insert_rec_full path : forall c n h,
  length path = h -> Forall (fun k => (k < 8)%nat) path -> full h n ->
  rgb_ok c = true -> fits_bound (mass n + 1) ->
  exists n', insert_rec path c n = Ok n' /\ full h n' /\
    lookup path n' = Some (bump (lookup path n) c) /\
    (forall path', length path' = h -> path' <> path -> lookup path' n' = lookup path' n) /\
    nleaves n' = (nleaves n + fresh (lookup path n))%nat /\ mass n' = (mass n + 1)%N.
Proof.
  induction path as [|k rest IH]; intros c n h Hlen Hp Hf Hc Hfit.
  - cbn in Hlen. subst h. cbn [insert_rec]. inversion Hf as [| l Hl1 Hlr |]; subst.
    + eexists. split; [reflexivity|]. split; [constructor; [apply leaf_of_pos|apply ratio_of, Hc]|]. split; [reflexivity|].
      split; [|split; [reflexivity|destruct c as [[? ?] ?]; reflexivity]].
      intros path' Hl Hn. destruct path'; [congruence|discriminate].
    + cbn [mass] in Hfit. rewrite (leaf_add_chk_ok l c (l_n l + 1) Hlr Hc ltac:(lia) Hfit). cbn [bind].
      eexists. split; [reflexivity|]. split; [constructor; [apply leaf_add_pos|apply ratio_add; assumption]|]. split; [reflexivity|].
      split; [|split; [reflexivity|cbn [mass]; apply leaf_add_n]].
      intros path' Hl Hn. destruct path'; [congruence|discriminate].
  - cbn [length] in Hlen. destruct h as [|h]; [discriminate|]. injection Hlen as Hlen. subst h.
    inversion Hp as [|? ? Hk Hrest]; subst. cbn [insert_rec].
    inversion Hf as [| |h' rm ch Hl Hall Hpos Hrm]; subst.
    + destruct (IH c Empty (length rest) eq_refl Hrest (full_empty _) Hc Hfit) as (n' & -> & Hf' & Hlk & Hoth & Hcnt & Hm').
      cbn [bind]. eexists. split; [reflexivity|].
      assert (Hk8 : (k < length empty8)%nat) by (cbn; lia).
      assert (Hn : nth k (set_at k n' empty8) Empty = n') by (unfold set_at; now rewrite map_at_nth_same).
      assert (Hall' : Forall (full (length rest)) (set_at k n' empty8)).
      { apply map_at_Forall; [repeat constructor|exact Hf']. }
      pose proof (map_at_sum nleaves (fun _ => n') empty8 k Hk8) as Sl. fold (set_at k n' empty8) in Sl.
      cbv beta in Sl. replace (nth k empty8 Empty) with Empty in Sl
        by (do 8 (destruct k as [|k]; [reflexivity|]); cbn in Hk8; lia).
      cbn [nleaves] in Sl. replace (lsum nleaves empty8) with 0%nat in Sl by reflexivity.
      pose proof (map_at_nsum mass (fun _ => n') empty8 k Hk8) as Sw. fold (set_at k n' empty8) in Sw. cbv beta in Sw.
      replace (nth k empty8 Empty) with Empty in Sw
        by (do 8 (destruct k as [|k]; [reflexivity|]); cbn in Hk8; lia).
      replace (nsum mass empty8) with 0%N in Sw by reflexivity. cbn [mass] in Sw, Hm'.
      rewrite lookup_empty in *. cbn [fresh nleaves] in *.
      split; [constructor; [now rewrite set_at_length|exact Hall'|lia|apply ratio_new]|].
      split; [cbn [lookup]; rewrite Hn; exact Hlk|].
      split; [|split; [cbn [nleaves]; lia|rewrite mass_tree; cbn [mass leaf_new l_n]; lia]].
      intros path' Hl' Hne. destruct path' as [|k' rest']; [discriminate|]. cbn [lookup].
      destruct (Nat.eq_dec k' k) as [->|Hk'].
      * rewrite Hn. rewrite Hoth; [apply lookup_empty|cbn in Hl'; lia|congruence].
      * unfold set_at. rewrite map_at_nth_other by exact Hk'.
        replace (nth k' empty8 Empty) with Empty; [apply lookup_empty|].
        do 8 (destruct k' as [|k']; [reflexivity|]). destruct k'; reflexivity.
    + pose proof (nth_Forall _ ch k Hall (full_empty _)) as Hfc.
      pose proof (nsum_nth_le mass ch k) as Hmk. cbn [mass] in Hmk. rewrite mass_tree in Hfit.
      assert (Hfb : fits_bound (mass (nth k ch Empty) + 1)) by (eapply fits_bound_mono; [|exact Hfit]; lia).
      destruct (IH c (nth k ch Empty) (length rest) eq_refl Hrest Hfc Hc Hfb) as (n' & -> & Hf' & Hlk & Hoth & Hcnt & Hm').
      cbn [bind]. eexists. split; [reflexivity|].
      assert (Hk8 : (k < length ch)%nat) by lia.
      assert (Hn : nth k (set_at k n' ch) Empty = n') by (unfold set_at; now rewrite map_at_nth_same).
      assert (Hall' : Forall (full (length rest)) (set_at k n' ch)) by (apply map_at_Forall; assumption).
      pose proof (map_at_sum nleaves (fun _ => n') ch k Hk8) as Sl. fold (set_at k n' ch) in Sl.
      cbv beta in Sl.
      pose proof (map_at_nsum mass (fun _ => n') ch k Hk8) as Sw. fold (set_at k n' ch) in Sw. cbv beta in Sw.
      cbn [lookup].
      split; [constructor; [now rewrite set_at_length|exact Hall'|lia|exact Hrm]|].
      split; [rewrite Hn; exact Hlk|].
      split; [|split; [cbn [nleaves]; lia|rewrite !mass_tree; lia]].
      intros path' Hl' Hne. destruct path' as [|k' rest']; [discriminate|]. cbn [lookup].
      destruct (Nat.eq_dec k' k) as [->|Hk'].
      * rewrite Hn. apply Hoth; [cbn in Hl'; lia|congruence].
      * unfold set_at. now rewrite map_at_nth_other by exact Hk'.
Qed.

(* ---------- the root ---------- *)

Record full_oc (t : octree) : Prop := mkFullOc {
  fo_len : length (o_children t) = 8%nat;
  fo_all : Forall (full 7) (o_children t);
  fo_info : o_info t = from_slice (o_children t);
  fo_removed : ratio (o_removed t) }.

Definition oc_lookup (path : list nat) (t : octree) : option leaf :=
  match path with
  | [] => None
  | k :: rest => lookup rest (nth k (o_children t) Empty)
  end.

Lemma full_oc_wf t : full_oc t -> wf_oc t.
Proof.
  intros [Hlen Hall Hinfo Hrm].
  assert (Hw : Forall (wf_node 7) (o_children t)).
  { rewrite Forall_forall in *. intros c Hc. apply full_wf, Hall, Hc. }
  constructor; try assumption.
  - rewrite Hinfo, from_slice_leaves. apply (nsum_bound 7), Hw.
  - rewrite Hinfo. apply from_slice_slots.
Qed.

Lemma full_oc_exact t : full_oc t -> i_leaves (o_info t) = N.of_nat (lsum nleaves (o_children t)).
Proof.
  intros [Hlen Hall Hinfo Hrm]. rewrite Hinfo, from_slice_leaves. apply nsum_eq_lsum.
  rewrite Forall_forall in *. intros c Hc. eapply full_info_exact, Hall, Hc.
Qed.

Lemma oc_new_full : full_oc oc_new.
Proof. constructor; cbn; try reflexivity; [repeat constructor|apply ratio_new]. Qed.

Lemma oc_insert_full t c :
  full_oc t -> rgb_ok c = true -> fits_bound (oc_mass t + 1) ->
  exists t', oc_insert t c = Ok t' /\ full_oc t' /\
    oc_lookup (path_of c) t' = Some (bump (oc_lookup (path_of c) t) c) /\
    (forall path', length path' = 8%nat -> path' <> path_of c -> oc_lookup path' t' = oc_lookup path' t) /\
    lsum nleaves (o_children t') = (lsum nleaves (o_children t) + fresh (oc_lookup (path_of c) t))%nat /\
    oc_mass t' = (oc_mass t + 1)%N.
Proof.
  intros [Hlen Hall Hinfo Hrm] Hc Hfit. unfold oc_mass in *. unfold oc_insert. rewrite (path_packed_eq c Hc). unfold path_of.
  destruct (path_n_ok 8 c Hc) as [Hl Hf].
  destruct (path_n 8 c) as [|k rest]; [discriminate|].
  inversion Hf as [|? ? Hk Hrest]; subst. cbn [length] in Hl. injection Hl as Hl.
  pose proof (nth_Forall _ (o_children t) k Hall (full_empty _)) as Hfc.
  pose proof (nsum_nth_le mass (o_children t) k) as Hmk. cbn [mass] in Hmk.
  assert (Hfb : fits_bound (mass (nth k (o_children t) Empty) + 1)) by (eapply fits_bound_mono; [|exact Hfit]; lia).
  destruct (insert_rec_full rest c (nth k (o_children t) Empty) 7 Hl Hrest Hfc Hc Hfb)
    as (n' & -> & Hf' & Hlk & Hoth & Hcnt & Hm').
  pose proof (map_at_nsum mass (fun _ => n') (o_children t) k ltac:(lia)) as Sw.
  fold (set_at k n' (o_children t)) in Sw. cbv beta in Sw.
  cbn [bind]. eexists. split; [reflexivity|].
  assert (Hk8 : (k < length (o_children t))%nat) by lia.
  assert (Hn : nth k (set_at k n' (o_children t)) Empty = n') by (unfold set_at; now rewrite map_at_nth_same).
  pose proof (map_at_sum nleaves (fun _ => n') (o_children t) k Hk8) as Sl.
  fold (set_at k n' (o_children t)) in Sl. cbv beta in Sl.
  pose proof (lsum_nth_le nleaves (o_children t) k) as Hnl. cbn [nleaves] in Hnl.
  cbn [oc_lookup o_children].
  split; [constructor; cbn [o_children o_info o_removed]; [now rewrite set_at_length|apply map_at_Forall; assumption|reflexivity|exact Hrm]|].
  split; [rewrite Hn; exact Hlk|].
  split; [|split; [lia|cbn [o_children o_removed]; lia]].
  intros path' Hl' Hne. destruct path' as [|k' rest']; [discriminate|]. cbn [oc_lookup o_children].
  destruct (Nat.eq_dec k' k) as [->|Hk'].
  - rewrite Hn. apply Hoth; [cbn in Hl'; lia|congruence].
  - unfold set_at. now rewrite map_at_nth_other by exact Hk'.
Qed.

(* ---------- what the tree contains ---------- *)

Lemma mem_In c l : mem c l = true <-> In c l.
Proof.
  unfold mem. rewrite existsb_exists. split.
  - intros (x & Hx & He). apply rgb_eqb_eq in He. now subst.
  - intros H. exists c. split; [exact H|now apply rgb_eqb_eq].
Qed.

Lemma nodup_rgb_In c l : In c (nodup_rgb l) <-> In c l.
Proof.
  induction l as [|x r IH]; [tauto|]. cbn [nodup_rgb]. destruct (mem x r) eqn:E.
  - rewrite IH. split; [now right|]. intros [<-|H]; [now apply mem_In|exact H].
  - cbn [In]. now rewrite IH.
Qed.

Lemma nodup_rgb_NoDup l : NoDup (nodup_rgb l).
Proof.
  induction l as [|x r IH]; [constructor|]. cbn [nodup_rgb]. destruct (mem x r) eqn:E; [exact IH|].
  constructor; [|exact IH]. rewrite nodup_rgb_In, <- mem_In. congruence.
Qed.

(* leaf = n copies of colour c *)
Definition pure (c : rgb) (l : leaf) : Prop :=
  let '(r, g, b) := c in
  (1 <= l_n l)%N /\ l_r l = (l_n l * r)%N /\ l_g l = (l_n l * g)%N /\ l_b l = (l_n l * b)%N.

Lemma pure_leaf_of c : pure c (leaf_of c).
Proof. destruct c as [[r g] b]. cbn. lia. Qed.

Lemma pure_leaf_add c l : pure c l -> pure c (leaf_add l c).
Proof. destruct c as [[r g] b]. unfold pure. cbn. lia. Qed.

Lemma pure_rgb c l : rgb_ok c = true -> pure c l -> leaf_rgb l = Ok c.
Proof.
  destruct c as [[r g] b]. unfold rgb_ok, pure, leaf_rgb. intros Hok (Hn & Hr & Hg & Hb).
  destruct (l_n l =? 0)%N eqn:E; [lia|]. rewrite Hr, Hg, Hb.
  rewrite !(N.mul_comm (l_n l)), !N.div_mul by lia.
  rewrite !N.mod_small by lia. reflexivity.
Qed.

(* t holds exactly the colours of `seen` *)
Record holds (t : octree) (seen : list rgb) : Prop := mkHolds {
  h_full : full_oc t;
  h_map : forall c, rgb_ok c = true ->
          match oc_lookup (path_of c) t with
          | Some l => mem c seen = true /\ pure c l
          | None => mem c seen = false
          end;
  h_count : lsum nleaves (o_children t) = length (nodup_rgb seen);
  h_mass : oc_mass t = N.of_nat (length seen) }.

Lemma path_of_length c : rgb_ok c = true -> length (path_of c) = 8%nat.
Proof. intros H. apply (path_n_ok 8 c H). Qed.

Lemma holds_insert t seen c :
  holds t seen -> rgb_ok c = true -> fits_bound (N.of_nat (length seen) + 1) ->
  exists t', oc_insert t c = Ok t' /\ holds t' (c :: seen).
Proof.
  intros [Hf Hm Hc Hms] Hok Hfit. rewrite <- Hms in Hfit.
  destruct (oc_insert_full t c Hf Hok Hfit) as (t' & Ht' & Hf' & Hlk & Hoth & Hcnt & Hms').
  exists t'. split; [exact Ht'|]. constructor; [exact Hf'| | |rewrite Hms', Hms; cbn [length]; lia].
  - intros c' Hok'. destruct (rgb_eqb c' c) eqn:E.
    + apply rgb_eqb_eq in E. subst c'. rewrite Hlk. unfold mem. cbn [existsb].
      replace (rgb_eqb c c) with true by (symmetry; now apply rgb_eqb_eq). split; [reflexivity|].
      specialize (Hm c Hok). destruct (oc_lookup (path_of c) t); cbn [bump].
      * apply pure_leaf_add, Hm.
      * apply pure_leaf_of.
    + assert (Hne : path_of c' <> path_of c).
      { intros Hp. apply path_of_inj in Hp; try assumption. subst c'.
        assert (rgb_eqb c c = true) by now apply rgb_eqb_eq. congruence. }
      rewrite (Hoth _ (path_of_length c' Hok') Hne). unfold mem. cbn [existsb]. rewrite E. cbn [orb].
      apply Hm, Hok'.
  - rewrite Hcnt, Hc. cbn [nodup_rgb]. specialize (Hm c Hok).
    destruct (oc_lookup (path_of c) t); cbn [fresh].
    + destruct Hm as [-> _]. lia.
    + rewrite Hm. cbn [length]. lia.
Qed.

Lemma holds_extend cs : forall t seen,
  holds t seen -> Forall (fun c => rgb_ok c = true) cs ->
  fits_bound (N.of_nat (length seen) + N.of_nat (length cs)) ->
  exists t', oc_extend t cs = Ok t' /\ holds t' (rev cs ++ seen).
Proof.
  induction cs as [|c r IH]; intros t seen Hh Hok Hfit.
  - exists t. split; [reflexivity|exact Hh].
  - inversion Hok as [|? ? Hc Hr]; subst. cbn [oc_extend]. cbn [length] in Hfit.
    assert (Hf1 : fits_bound (N.of_nat (length seen) + 1)) by (eapply fits_bound_mono; [|exact Hfit]; lia).
    destruct (holds_insert t seen c Hh Hc Hf1) as (t1 & -> & Hh1). cbn [bind].
    assert (Hf2 : fits_bound (N.of_nat (length (c :: seen)) + N.of_nat (length r)))
      by (eapply fits_bound_mono; [|exact Hfit]; cbn [length]; lia).
    destruct (IH t1 (c :: seen) Hh1 Hr Hf2) as (t' & -> & Hh'). exists t'. split; [reflexivity|].
    cbn [rev]. rewrite <- app_assoc. exact Hh'.
Qed.

Lemma holds_new : holds oc_new [].
Proof.
  constructor; [apply oc_new_full| |reflexivity|reflexivity].
  intros c Hok. unfold oc_lookup. destruct (path_of c) as [|k rest]; [reflexivity|].
  cbn [oc_new o_children]. replace (nth k empty8 Empty) with Empty.
  - now rewrite lookup_empty.
  - do 8 (destruct k as [|k]; [reflexivity|]). destruct k; reflexivity.
Qed.

Lemma map_outcome_In {A B} (f : A -> outcome B) l ys x :
  map_outcome f l = Ok ys -> In x l -> exists y, f x = Ok y /\ In y ys.
Proof.
  revert ys. induction l as [|a r IH]; intros ys H Hin; [destruct Hin|].
  cbn [map_outcome] in H. destruct (f a) as [y| | |] eqn:Ea; cbn [bind] in H; try discriminate.
  destruct (map_outcome f r) as [ys'| | |] eqn:Er; cbn [bind] in H; try discriminate.
  inversion H; subst. destruct Hin as [<-|Hin].
  - exists y. split; [exact Ea|now left].
  - destruct (IH ys' eq_refl Hin) as (y' & Hy & Hi). exists y'. split; [exact Hy|now right].
Qed.

Lemma prune_until_noop k t :
  (i_leaves (o_info t) <= N.max k 8)%N -> prune_until k t = Ok t.
Proof.
  intros H. unfold prune_until. destruct (oc_measure t); cbn [prune_until_fuel];
    destruct (i_leaves (o_info t) <=? N.max k 8)%N eqn:E; try reflexivity; lia.
Qed.

(* ---------- exactness of the octree pipeline ---------- *)

Theorem palette_exact : forall (cs : list rgb) (k : N),
  Forall (fun c => rgb_ok c = true) cs -> (N.of_nat (length cs) <= max_pixels)%N ->
  (N.of_nat (length (nodup_rgb cs)) <= N.max k 8)%N ->
  exists t pal,
    oc_extend oc_new cs = Ok t /\ prune_until k t = Ok t /\ build_palette t = Ok pal /\
    forall c, In c cs -> In c pal.
Proof.
  intros cs k Hok Hmax Hfit.
  destruct (holds_extend cs oc_new [] holds_new Hok (widths_adequate _ Hmax)) as (t & Ht & [Hf Hm Hc _]).
  rewrite app_nil_r in Hm, Hc.
  assert (Hlen : length (nodup_rgb (rev cs)) = length (nodup_rgb cs)).
  { apply Nat.le_antisymm; apply NoDup_incl_length; try apply nodup_rgb_NoDup; intros x Hx.
    - apply (proj2 (nodup_rgb_In x cs)). apply (proj2 (in_rev cs x)). apply (proj1 (nodup_rgb_In x (rev cs))), Hx.
    - apply (proj2 (nodup_rgb_In x (rev cs))). apply (proj1 (in_rev cs x)). apply (proj1 (nodup_rgb_In x cs)), Hx. }
  pose proof (full_oc_wf t Hf) as Hw.
  destruct (build_palette_ok t Hw) as (pal & Hpal & _).
  exists t, pal. split; [exact Ht|]. split.
  - apply prune_until_noop. rewrite (full_oc_exact t Hf), Hc, Hlen. exact Hfit.
  - split; [exact Hpal|]. intros c Hin.
    assert (Hokc : rgb_ok c = true) by (rewrite Forall_forall in Hok; apply Hok, Hin).
    specialize (Hm c Hokc). destruct (oc_lookup (path_of c) t) as [l|] eqn:El.
    + destruct Hm as [_ Hp].
      assert (In l (oc_leaves t)).
      { unfold oc_lookup in El. destruct (path_of c) as [|k0 rest]; [discriminate|].
        unfold oc_leaves. apply in_flat_map. exists (nth k0 (o_children t) Empty). split; [|eapply lookup_leaves, El].
        destruct (Nat.lt_ge_cases k0 (length (o_children t))) as [Hk|Hk]; [apply nth_In, Hk|].
        rewrite nth_overflow in El by lia. now rewrite lookup_empty in El. }
      unfold build_palette in Hpal. destruct (map_outcome_In _ _ _ _ Hpal H) as (y & Hy & Hi).
      rewrite (pure_rgb c l Hokc Hp) in Hy. inversion Hy; subst. exact Hi.
    + exfalso. assert (mem c (rev cs) = true) by (apply mem_In; now apply in_rev in Hin). congruence.
Qed.
