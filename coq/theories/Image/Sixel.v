(* C12: model of SixelImageHandler::draw's encoder (src/image.rs:855-949) and a
   reference sixel interpreter written from the DEC description of the format
   (VT3xx graphics programming, chapter <dq>Sixel graphics<dq>; <dq>All About SIXELs<dq>).
   Executable definitions only.

   Encoder (as coded): ESC P q, raster attributes <dq>1;1;w;h, one colour definition
   #i;2;r;g;b per palette entry (channels already scaled to 0..100), then for every
   band of six rows, for every colour present in the band (in the iteration order of a
   std HashMap: a parameter, ANY duplicate-free enumeration of the colours present),
   `#c`, the strip of that colour with `!n?` / `?` skips and `!n<code>` / `<code>` runs,
   `$`; after the last colour of a band `-`; finally ESC \.

   Interpreter: a byte-at-a-time state machine.  Parameters are decimal numbers
   separated by `;`, an absent parameter is 0.  `<dq>Pan;Pad;Ph;Pv` raster attributes;
   `#Pc` selects a colour register, `#Pc;Pu;Px;Py;Pz` defines it (Pu = 2: RGB, each of
   Px,Py,Pz in 0..100); `!Pn` repeats the next data character Pn times; `$` returns to
   the left margin; `-` moves to the left margin of the next band (six pixels down);
   a data character 0x3F..0x7E paints, at the current column, the pixels of the band
   whose bit (0 = top) is set in (character - 0x3F), in the selected colour, and moves
   one column to the right.  Painted pixels are recorded as events. *)
From Coq Require Import List NArith Bool.
From SNT Require Import Base.Outcome Image.KDTree.
Import ListNotations.
Local Open Scope N_scope.

(* ---------- decimal ---------- *)

(* the digits of n, most significant first, in front of acc; fuel >= number of digits *)
Fixpoint dec_fuel (fuel : nat) (n : N) (acc : list N) : list N :=
  match fuel with
  | O => acc
  | S f =>
      let acc' := (48 + n mod 10) :: acc in
      if n <? 10 then acc' else dec_fuel f (n / 10) acc'
  end.

Definition dec (n : N) : list N := dec_fuel (S (N.to_nat (N.size n))) n [].

Definition is_digit (b : N) : bool := (48 <=? b) && (b <=? 57).

(* ---------- encoder ---------- *)

Definition ESC : N := 27.
Definition c_excl : N := 33.    (* ! *)
Definition c_quote : N := 34.   (* <dq> *)
Definition c_hash : N := 35.    (* # *)
Definition c_dollar : N := 36.  (* $ *)
Definition c_minus : N := 45.   (* - *)
Definition c_semi : N := 59.    (* ; *)
Definition c_quest : N := 63.   (* ? *)
Definition c_P : N := 80.
Definition c_q : N := 113.
Definition c_bslash : N := 92.

Section Encoder.
  Variable shift_min : N.      (* `shift > 3` *)
  Variable repeat_min : N.     (* `repeats > 3` *)
  Variable code_offset : N.    (* 63 *)

  (* sixel_code of colour c in one column: bit i set iff the i-th of the six rows has c
     (`sixel_code |= 1 << s_index`, written in Horner form) *)
  Fixpoint col_code (c : N) (colm : list N) : N :=
    match colm with
    | [] => 0
    | x :: r => (if x =? c then 1 else 0) + 2 * col_code c r
    end.

  (* the columns of a band (list of <= 6 rows of equal length): transpose *)
  Fixpoint heads (rows : list (list N)) : list N :=
    match rows with
    | [] => []
    | [] :: r => 0 :: heads r             (* qimg.get(..) = None leaves the 0 of `[0usize; 6]` *)
    | (x :: _) :: r => x :: heads r
    end.
  Definition tails (rows : list (list N)) : list (list N) := map (@tl N) rows.

  Fixpoint columns (w : nat) (rows : list (list N)) : list (list N) :=
    match w with
    | O => []
    | S w' => heads rows :: columns w' (tails rows)
    end.

  (* the Vec<(usize, u8)> collected for colour c: one entry per column in which c occurs *)
  Fixpoint strip_entries (c : N) (col : N) (cols : list (list N)) : list (N * N) :=
    match cols with
    | [] => []
    | colm :: r =>
        if existsb (N.eqb c) colm
        then (col, col_code c colm + code_offset) :: strip_entries c (col + 1) r
        else strip_entries c (col + 1) r
    end.

  (* `while let Some(..) = codes.peek()`: length of the run of equal codes at consecutive columns *)
  Fixpoint take_run (column code repeats : N) (rest : list (N * N)) : N * list (N * N) :=
    match rest with
    | (cn, kn) :: rest' =>
        if (cn =? column + repeats) && (kn =? code) then take_run column code (repeats + 1) rest'
        else (repeats, rest)
    | [] => (repeats, rest)
    end.

  Definition skip_bytes (shift : N) : list N :=
    if 0 <? shift then
      if shift_min <? shift then c_excl :: dec shift ++ [c_quest]
      else repeat c_quest (N.to_nat shift)
    else [].

  Definition run_bytes (code repeats : N) : list N :=
    if repeat_min <? repeats then c_excl :: dec repeats ++ [code]
    else repeat code (N.to_nat repeats).

  (* the `while let Some((column, code)) = codes.next()` loop; every round consumes at
     least one entry, so `length codes` rounds of fuel are enough *)
  Fixpoint strip_bytes (fuel : nat) (offset : N) (codes : list (N * N)) : outcome (list N) :=
    match codes with
    | [] => Ok []
    | (column, code) :: rest =>
        match fuel with
        | O => OutOfFuel
        | S f =>
            if column <? offset then Panic 12001                       (* usize subtraction *)
            else
              let shift := column - offset in
              let '(repeats, rest') := take_run column code 1 rest in
              let* tail := strip_bytes f (column + repeats) rest' in
              Ok (skip_bytes shift ++ run_bytes code repeats ++ tail)
        end
    end.

  Definition strip (c : N) (cols : list (list N)) : outcome (list N) :=
    let es := strip_entries c 0 cols in
    let* body := strip_bytes (length es) 0 es in
    Ok (c_hash :: dec c ++ body ++ [c_dollar]).

  Fixpoint band_bytes (order : list N) (cols : list (list N)) : outcome (list N) :=
    match order with
    | [] => Ok [c_minus]
    | c :: r => let* s := strip c cols in let* t := band_bytes r cols in Ok (s ++ t)
    end.

  (* rows taken six at a time (the image height is a multiple of six here) *)
  Fixpoint bands (n : nat) (rows : list (list N)) : list (list (list N)) :=
    match n with
    | O => []
    | S n' => match rows with
              | [] => []
              | _ => firstn 6 rows :: bands n' (skipn 6 rows)
              end
    end.

  Fixpoint body_bytes (w : nat) (orders : list (list N)) (bs : list (list (list N))) : outcome (list N) :=
    match bs with
    | [] => Ok []
    | b :: r =>
        let* x := band_bytes (match orders with o :: _ => o | [] => [] end) (columns w b) in
        let* y := body_bytes w (match orders with _ :: o => o | [] => [] end) r in
        Ok (x ++ y)
    end.

  Variable scale : N -> N.     (* (x as f32 / 2.55).round() as u8 *)

  Fixpoint palette_bytes (i : N) (pal : list rgb) : list N :=
    match pal with
    | [] => []
    | (r, g, b) :: rest =>
        c_hash :: dec i ++ [c_semi; 50; c_semi] ++ dec (scale r) ++ [c_semi] ++ dec (scale g) ++ [c_semi]
               ++ dec (scale b) ++ palette_bytes (i + 1) rest
    end.

  Definition header_bytes (w h : N) : list N :=
    [ESC; c_P; c_q; c_quote; 49; c_semi; 49; c_semi] ++ dec w ++ [c_semi] ++ dec h.

  (* the whole sequence for a quantised image (palette, index rows of width w) *)
  Definition encode (pal : list rgb) (q : list (list N)) (w : nat) (orders : list (list N))
    : outcome (list N) :=
    let* body := body_bytes w orders (bands (length q) q) in
    Ok (header_bytes (N.of_nat w) (N.of_nat (length q)) ++ palette_bytes 0 pal ++ body ++ [ESC; c_bslash]).

  (* colours present in a band, and the condition on an iteration order *)
  Fixpoint nodupb (l : list N) : bool :=
    match l with
    | [] => true
    | c :: r => negb (existsb (N.eqb c) r) && nodupb r
    end.

  (* `order` enumerates, without repetition (HashMap keys), exactly the colours of the band *)
  Definition order_ok (order : list N) (b : list (list N)) : bool :=
    let cs := concat b in
    nodupb order &&
    forallb (fun c => existsb (N.eqb c) cs) order &&
    forallb (fun c => existsb (N.eqb c) order) cs.
End Encoder.

(* ---------- reference interpreter ---------- *)

Inductive smode :=
| MData
| MParams (intro : N) (done : list N) (cur : N).   (* done: completed parameters, newest first *)

Record sstate := mkS {
  s_mode : smode;
  s_x : N;
  s_y : N;
  s_color : option N;                 (* selected register *)
  s_regs : list (N * rgb);            (* definitions, newest first *)
  s_raster : option (N * N * N * N);  (* Pan, Pad, Ph, Pv *)
  s_repeat : option N;                (* pending !Pn *)
  s_events : list (N * N * rgb);      (* painted pixels (x, y, colour), newest first *)
  s_err : bool }.

Definition s_init : sstate := mkS MData 0 0 None [] None None [] false.

Definition set_err (s : sstate) : sstate :=
  mkS (s_mode s) (s_x s) (s_y s) (s_color s) (s_regs s) (s_raster s) (s_repeat s) (s_events s) true.

Fixpoint reg_lookup (c : N) (regs : list (N * rgb)) : option rgb :=
  match regs with
  | [] => None
  | (k, v) :: r => if k =? c then Some v else reg_lookup c r
  end.

(* the pixels one data character paints at column x of the band starting at row y *)
Fixpoint paint_bits (x y : N) (v : rgb) (bits : N) (n : nat) : list (N * N * rgb) :=
  match n with
  | O => []
  | S n' => (if N.odd bits then [(x, y, v)] else []) ++ paint_bits x (y + 1) v (N.div2 bits) n'
  end.

Fixpoint paint_cols (x y : N) (v : rgb) (bits : N) (count : nat) : list (N * N * rgb) :=
  match count with
  | O => []
  | S c' => paint_bits x y v bits 6 ++ paint_cols (x + 1) y v bits c'
  end.

(* terminate a parameter list: execute the command it belongs to *)
Definition flush (s : sstate) : sstate :=
  match s_mode s with
  | MData => s
  | MParams intro done cur =>
      let ps := rev (cur :: done) in
      let s0 := mkS MData (s_x s) (s_y s) (s_color s) (s_regs s) (s_raster s) (s_repeat s) (s_events s) (s_err s) in
      if intro =? c_excl then
        match ps, s_repeat s with
        | [n], None => mkS MData (s_x s) (s_y s) (s_color s) (s_regs s) (s_raster s) (Some n) (s_events s) (s_err s)
        | _, _ => set_err s0
        end
      else if intro =? c_hash then
        match ps with
        | [c] => mkS MData (s_x s) (s_y s) (Some c) (s_regs s) (s_raster s) (s_repeat s) (s_events s) (s_err s)
        | [c; u; px; py; pz] =>
            if (u =? 2) && (px <=? 100) && (py <=? 100) && (pz <=? 100)
            then mkS MData (s_x s) (s_y s) (s_color s) ((c, (px, py, pz)) :: s_regs s) (s_raster s)
                     (s_repeat s) (s_events s) (s_err s)
            else set_err s0
        | _ => set_err s0
        end
      else if intro =? c_quote then
        match ps, s_raster s, s_events s with
        | [pan; pad; ph; pv], None, [] =>
            mkS MData (s_x s) (s_y s) (s_color s) (s_regs s) (Some (pan, pad, ph, pv)) (s_repeat s)
                (s_events s) (s_err s)
        | _, _, _ => set_err s0
        end
      else set_err s0
  end.

Definition is_param_byte (b : N) : bool := is_digit b || (b =? c_semi).

Definition step_data (s : sstate) (b : N) : sstate :=
  if (b =? c_excl) || (b =? c_hash) || (b =? c_quote) then
    match s_repeat s with
    | Some _ => set_err s                 (* !Pn must be followed by a data character *)
    | None => mkS (MParams b [] 0) (s_x s) (s_y s) (s_color s) (s_regs s) (s_raster s) None (s_events s) (s_err s)
    end
  else if b =? c_dollar then
    match s_repeat s with
    | Some _ => set_err s
    | None => mkS MData 0 (s_y s) (s_color s) (s_regs s) (s_raster s) None (s_events s) (s_err s)
    end
  else if b =? c_minus then
    match s_repeat s with
    | Some _ => set_err s
    | None => mkS MData 0 (s_y s + 6) (s_color s) (s_regs s) (s_raster s) None (s_events s) (s_err s)
    end
  else if (63 <=? b) && (b <=? 126) then
    let count := match s_repeat s with Some n => n | None => 1 end in
    match s_color s with
    | None => set_err s
    | Some c =>
        match reg_lookup c (s_regs s) with
        | None => set_err s
        | Some v =>
            mkS MData (s_x s + count) (s_y s) (s_color s) (s_regs s) (s_raster s) None
                (rev (paint_cols (s_x s) (s_y s) v (b - 63) (N.to_nat count)) ++ s_events s) (s_err s)
        end
    end
  else set_err s.

Definition sstep (s : sstate) (b : N) : sstate :=
  match s_mode s with
  | MParams intro done cur =>
      if is_digit b then
        mkS (MParams intro done (cur * 10 + (b - 48))) (s_x s) (s_y s) (s_color s) (s_regs s) (s_raster s)
            (s_repeat s) (s_events s) (s_err s)
      else if b =? c_semi then
        mkS (MParams intro (cur :: done) 0) (s_x s) (s_y s) (s_color s) (s_regs s) (s_raster s)
            (s_repeat s) (s_events s) (s_err s)
      else step_data (flush s) b
  | MData => step_data s b
  end.

Definition srun (s : sstate) (bytes : list N) : sstate := fold_left sstep bytes s.

(* split `body ++ [ESC; \]` *)
Fixpoint split_st (bytes : list N) : option (list N) :=
  match bytes with
  | [] => None
  | [a; b] => if (a =? ESC) && (b =? c_bslash) then Some [] else None
  | a :: r => if a =? ESC then None else match split_st r with Some l => Some (a :: l) | None => None end
  end.

(* the decoded picture *)
Record picture := mkPic {
  p_width : N; p_height : N;
  p_regs : list (N * rgb);
  p_events : list (N * N * rgb) }.

(* one well-formed sequence: ESC P <params> q <sixel data> ESC \, nothing else; the DCS
   parameters (P1;P2;P3, digits and `;`) are accepted and ignored; raster attributes
   are required (the picture has a declared size) *)
Fixpoint skip_params (bytes : list N) : list N :=
  match bytes with
  | b :: r => if is_param_byte b then skip_params r else bytes
  | [] => []
  end.

Definition sixel_decode (bytes : list N) : option picture :=
  match bytes with
  | a :: b :: r =>
      if (a =? ESC) && (b =? c_P) then
        match skip_params r with
        | qq :: data =>
            if qq =? c_q then
              match split_st data with
              | Some body =>
                  let s := flush (srun s_init body) in
                  match s_err s, s_repeat s, s_raster s with
                  | false, None, Some (_, _, ph, pv) => Some (mkPic ph pv (s_regs s) (s_events s))
                  | _, _, _ => None
                  end
              | None => None
              end
            else None
        | [] => None
        end
      else None
  | _ => None
  end.

(* ---------- what the property says about a decoded picture ---------- *)

Definition ev_in (w h : N) (e : N * N * rgb) : bool :=
  let '(x, y, _) := e in (x <? w) && (y <? h).

Definition painted (evs : list (N * N * rgb)) (x y : N) : bool :=
  existsb (fun e => let '(ex, ey, _) := e in (ex =? x) && (ey =? y)) evs.

(* the colour a pixel ends up with: the newest event wins *)
Fixpoint pixel_at (evs : list (N * N * rgb)) (x y : N) : option rgb :=
  match evs with
  | [] => None
  | (ex, ey, v) :: r => if (ex =? x) && (ey =? y) then Some v else pixel_at r x y
  end.

Fixpoint nrange_from (a : N) (n : nat) : list N :=
  match n with O => [] | S n' => a :: nrange_from (a + 1) n' end.

Definition regs_ok (regs : list (N * rgb)) : bool :=
  let ids := nodup N.eq_dec (map fst regs) in
  Nat.leb (length ids) 256 && forallb (fun k => k <? 256) ids.

(* declared size w x h, every pixel of the raster painted, none outside, <= 256 registers *)
Definition picture_ok (w h : N) (p : picture) : bool :=
  (p_width p =? w) && (p_height p =? h) &&
  forallb (ev_in w h) (p_events p) &&
  forallb (fun y => forallb (fun x => painted (p_events p) x y) (nrange_from 0 (N.to_nat w)))
          (nrange_from 0 (N.to_nat h)) &&
  regs_ok (p_regs p).

(* pixel for pixel equal to `expected` (rows of colours at 0..100 resolution) *)
Fixpoint eq_cols (evs : list (N * N * rgb)) (y x : N) (l : list rgb) : bool :=
  match l with
  | [] => true
  | v :: r => (match pixel_at evs x y with Some u => rgb_eqb u v | None => false end)
              && eq_cols evs y (x + 1) r
  end.

Fixpoint eq_rows (evs : list (N * N * rgb)) (y : N) (l : list (list rgb)) : bool :=
  match l with
  | [] => true
  | row :: r => eq_cols evs y 0 row && eq_rows evs (y + 1) r
  end.

Definition picture_eq (expected : list (list rgb)) (p : picture) : bool :=
  eq_rows (p_events p) 0 expected.

(* ---------- SixelImageHandler::draw ---------- *)

Definition tbl (t : list N) (x : N) : N := nth (N.to_nat x) t 0.
Definition map3 (f : N -> N) (c : rgb) : rgb := let '(r, g, b) := c in (f r, f g, f b).

(* a source pixel.  For alpha < 255 the compositing result is an oracle value
   (rasterize's floating point blend_over, computed by the harness with the real crate):
   blend = rgb of bg.blend_over(pixel).  draw composites first and reduces afterwards. *)
Inductive spx :=
| Opaque (c : rgb)
| Transp (c : rgb) (a : N) (blend : rgb).

(* sixel's channel resolution: 0..100, nearest *)
Definition spec100 (x : N) : N := (200 * x + 255) / 510.

Section Draw.
  Variable pre_tbl scale_tbl : list N.
  Variable palette_size : N.
  Variable dither : bool.
  Variable shift_min repeat_min code_offset : N.

  Definition eff_px (p : spx) : rgb :=
    match p with
    | Opaque c => map3 (tbl pre_tbl) c
    | Transp _ _ bl => map3 (tbl pre_tbl) bl
    end.

  (* the source picture at sixel resolution, transparent pixels composited *)
  Definition src100 (p : spx) : rgb :=
    match p with
    | Opaque c => map3 spec100 c
    | Transp _ _ bl => map3 spec100 bl
    end.

  Definition height6 (rows : list (list spx)) : nat := Nat.mul (Nat.div (length rows) 6) 6.
  Definition rows6 (rows : list (list spx)) : list (list spx) := firstn (height6 rows) rows.
End Draw.
