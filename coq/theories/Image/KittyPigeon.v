(* The known finding pid-corner is not an artefact of the numbering chosen by
   the handler: there are 2^32 positions with coordinates below 65536 and only
   2^32 - 1 valid placement ids, so EVERY function from positions to valid ids
   sends two distinct positions to one id (pigeonhole over N, no enumeration). *)
From Coq Require Import List NArith ZArith Bool Lia.
From Coq Require Import ZifyBool ZifyN.
From SNT Require Import Image.KittyProofs.
Local Open Scope N_scope.

Lemma bounded_search (P : N -> bool) : forall n,
  (exists x, x < n /\ P x = true) \/ (forall x, x < n -> P x = false).
Proof.
  induction n as [|n IH] using N.peano_ind.
  - right. intros x Hx. lia.
  - destruct IH as [(x & Hx & HP)|Hall].
    + left. exists x. split; [lia|exact HP].
    + destruct (P n) eqn:E.
      * left. exists n. split; [lia|exact E].
      * right. intros x Hx. destruct (N.eq_dec x n) as [->|Hne]; [exact E|apply Hall; lia].
Qed.

(* n + 1 pigeons, n holes *)
Lemma pigeonhole : forall n (g : N -> N), (forall x, x < n + 1 -> g x < n) ->
  exists x y, x < y /\ y < n + 1 /\ g x = g y.
Proof.
  induction n as [|n IH] using N.peano_ind; intros g Hg.
  - specialize (Hg 0 ltac:(lia)). lia.
  - set (v := g (N.succ n)).
    destruct (bounded_search (fun x => g x =? v) (N.succ n)) as [(x & Hx & E)|Hno].
    + apply N.eqb_eq in E. exists x, (N.succ n). split; [lia|split; [lia|exact E]].
    + set (g' := fun x => if g x <? v then g x else g x - 1).
      assert (Hv : v < N.succ n) by (apply Hg; lia).
      assert (Hg' : forall x, x < n + 1 -> g' x < n).
      { intros x Hx. unfold g'. pose proof (Hg x ltac:(lia)) as Hgx.
        pose proof (Hno x ltac:(lia)) as Hne. cbv beta in Hne.
        destruct (g x <? v) eqn:E; lia. }
      destruct (IH g' Hg') as (x & y & Hxy & Hy & E).
      exists x, y. split; [exact Hxy|split; [lia|]].
      pose proof (Hno x ltac:(lia)) as Hnx. pose proof (Hno y ltac:(lia)) as Hny. cbv beta in Hnx, Hny.
      unfold g' in E. destruct (g x <? v) eqn:E1, (g y <? v) eqn:E2; lia.
Qed.

Ltac zdm := Zify.zify; Z.div_mod_to_equations; lia.

Theorem pid_pigeonhole : forall f : N * N -> N,
  (forall p, in_dom p -> 1 <= f p <= 4294967295) ->
  exists p1 p2, in_dom p1 /\ in_dom p2 /\ p1 <> p2 /\ f p1 = f p2.
Proof.
  intros f Hf.
  set (pos := fun x : N => (x mod 65536, x / 65536)).
  assert (Hdom : forall x, x < 4294967295 + 1 -> in_dom (pos x)).
  { intros x Hx. unfold in_dom, pos. cbn [fst snd]. split; zdm. }
  destruct (pigeonhole 4294967295 (fun x => f (pos x) - 1)) as (x & y & Hxy & Hy & E).
  { intros x Hx. pose proof (Hf (pos x) (Hdom x Hx)). lia. }
  exists (pos x), (pos y).
  pose proof (Hf (pos x) (Hdom x ltac:(lia))) as Hfx. pose proof (Hf (pos y) (Hdom y Hy)) as Hfy.
  split; [apply Hdom; lia|]. split; [apply Hdom; exact Hy|]. split.
  - unfold pos. intros X. inversion X as [[X1 X2]]. zdm.
  - lia.
Qed.

(* ---------- the content hash depends on the content only ---------- *)
From SNT Require Import Surface.Shape Image.Kitty Image.Fnv.
Import ListNotations.

Lemma flat_rgba_inj : forall l1 l2 : list rgba,
  flat_map rgba_bytes l1 = flat_map rgba_bytes l2 -> l1 = l2.
Proof.
  induction l1 as [|[[[r g] b] a] l1 IH]; intros [|[[[r' g'] b'] a'] l2] H; cbn [flat_map rgba_bytes app] in H;
    try reflexivity; try discriminate.
  inversion H; subst. f_equal. apply IH. assumption.
Qed.

Theorem same_content_same_hash img1 img2 :
  im_height img1 = im_height img2 -> im_width img1 = im_width img2 -> pix_bytes img1 = pix_bytes img2 ->
  surface_hash img1 = surface_hash img2.
Proof.
  intros Hh Hw Hp. unfold surface_hash. rewrite Hh, Hw. f_equal. apply flat_rgba_inj, Hp.
Qed.

(* ---------- histories in which the hash argument is the content hash ---------- *)
From SNT Require Import Image.KittySpec Image.KittyHistory.

Inductive uop :=
| UDraw (img : image) (pos : N * N)
| UErase (img : image) (pos : option (N * N))
| UEvent (ev : event).

Definition with_hash (u : uop) : op :=
  match u with
  | UDraw img pos => OpDraw img (surface_hash img) pos
  | UErase img pos => OpErase img (surface_hash img) pos
  | UEvent ev => OpEvent ev
  end.

Definition uop_wf (u : uop) : Prop :=
  match u with UDraw img _ | UErase img _ => image_wf img | UEvent _ => True end.

Theorem history_ok_hashed (quiet : bool) (uops : list (uop * bool)) : Forall (fun ul => uop_wf (fst ul)) uops ->
  let ops := map (fun ul => (with_hash (fst ul), snd ul)) uops in
  let trace := lockstep (kitty_new quiet) store0 ops in
  Forall (fun s' => t_errs s' = [] /\ t_pending s' = None /\ places_valid s') trace /\
  once_scan [] (combine (map (fun ol => err_of (fst ol)) ops) (map sent_ids trace)) = true.
Proof.
  intros H. apply (history_ok false _ (kitty_new quiet) store0 (inv_init false quiet)).
  apply Forall_forall. intros o Ho. apply in_map_iff in Ho as (u & <- & Hu).
  rewrite Forall_forall in H. specialize (H u Hu). cbn [fst snd]. split; [|discriminate].
  destruct (fst u); exact H.
Qed.
