(* Model of Surface::hash on an Image (src/surface.rs:146-156):

     let mut hasher = fnv::FnvHasher::default();
     hasher.write_usize(self.height());
     hasher.write_usize(self.width());
     for item in self.iter() { item.hash(&mut hasher); }
     hasher.finish()

   with the external pieces spelled out: fnv::FnvHasher is FNV-1a on 64 bits
   (offset basis 0xcbf29ce484222325, prime 0x100000001b3, per byte
   h = (h xor b) * prime mod 2^64); write_usize feeds the 8 little-endian
   bytes (64-bit target); RGBA is a newtype over [u8; 4] with derived Hash,
   which writes the length prefix 4 as usize and then the four bytes.
   The correspondence check compares surface_hash with the value the crate
   computes for every image of every case. *)
From Coq Require Import List NArith Bool.
From SNT Require Import Surface.Shape Image.Kitty.
Import ListNotations.
Local Open Scope N_scope.

Definition FNV_OFFSET : N := 14695981039346656037.   (* 0xcbf29ce484222325 *)
Definition FNV_PRIME : N := 1099511628211.           (* 0x100000001b3 *)
Definition TWO64 : N := 18446744073709551616.

Definition fnv_byte (h b : N) : N := (N.lxor h b * FNV_PRIME) mod TWO64.
Definition fnv_bytes (h : N) (bs : list N) : N := fold_left fnv_byte bs h.

(* usize::to_ne_bytes on a little-endian 64-bit target *)
Definition le_bytes8 (n : N) : list N :=
  [n mod 256; (n / 256) mod 256; (n / 65536) mod 256; (n / 16777216) mod 256;
   (n / 4294967296) mod 256; (n / 1099511627776) mod 256; (n / 281474976710656) mod 256;
   (n / 72057594037927936) mod 256].

(* <RGBA as Hash>::hash: length prefix of the array, then its bytes *)
Definition fnv_pixel (h : N) (p : rgba) : N := fnv_bytes (fnv_bytes h (le_bytes8 4)) (rgba_bytes p).

Definition hash_of (height width : N) (pixels : list rgba) : N :=
  fold_left fnv_pixel pixels (fnv_bytes (fnv_bytes FNV_OFFSET (le_bytes8 height)) (le_bytes8 width)).

Definition surface_hash (img : image) : N := hash_of (im_height img) (im_width img) (im_pixels img).
