(* C12 proofs, part 1: decimal printing is read back by the interpreter's parameter
   accumulator; effect of each piece the encoder emits on the reference interpreter's
   state (select, define, raster attributes, skip, run, carriage return, new line). *)
From Coq Require Import List NArith Bool Lia Arith.
From Coq Require Import ZifyBool ZifyNat ZifyN.
From SNT Require Import Base.Outcome Image.KDTree Image.Sixel.
Import ListNotations.
Local Open Scope N_scope.

Arguments N.add : simpl never.
Arguments N.sub : simpl never.
Arguments N.mul : simpl never.
Arguments N.div : simpl never.
Arguments N.modulo : simpl never.
Arguments N.pow : simpl never.

(* ---------- decimal ---------- *)

Definition digit (b : N) : Prop := is_digit b = true.

Definition acc_digits (cur : N) (ds : list N) : N :=
  fold_left (fun a b => a * 10 + (b - 48)) ds cur.

Lemma dec_fuel_digits fuel : forall n acc, Forall digit acc -> Forall digit (dec_fuel fuel n acc).
Proof.
  induction fuel as [|f IH]; intros n acc H; cbn [dec_fuel]; [exact H|].
  assert (Hd : digit (48 + n mod 10)).
  { unfold digit, is_digit. pose proof (N.mod_upper_bound n 10). lia. }
  destruct (n <? 10); [constructor; assumption|]. apply IH. constructor; assumption.
Qed.

Lemma dec_fuel_acc fuel : forall n acc,
  n < 10 ^ N.of_nat fuel -> acc_digits 0 (dec_fuel fuel n acc) = acc_digits n acc.
Proof.
  induction fuel as [|f IH]; intros n acc H.
  - change (10 ^ N.of_nat 0) with 1 in H. assert (n = 0) by lia. subst. reflexivity.
  - cbn [dec_fuel]. destruct (n <? 10) eqn:E.
    + unfold acc_digits. cbn [fold_left]. f_equal. rewrite N.mod_small by lia. lia.
    + rewrite IH.
      * unfold acc_digits. cbn [fold_left]. f_equal. pose proof (N.div_mod n 10). lia.
      * apply N.div_lt_upper_bound; [lia|].
        replace (N.of_nat (S f)) with (N.succ (N.of_nat f)) in H by lia.
        rewrite N.pow_succ_r' in H. exact H.
Qed.

Lemma dec_value n : acc_digits 0 (dec n) = n.
Proof.
  unfold dec. rewrite dec_fuel_acc; [reflexivity|].
  pose proof (N.size_gt n) as H1.
  assert (H2 : 2 ^ N.size n <= 10 ^ N.size n) by (apply N.pow_le_mono_l; lia).
  replace (N.of_nat (S (N.to_nat (N.size n)))) with (N.succ (N.size n)) by lia.
  rewrite N.pow_succ_r'. lia.
Qed.

Lemma dec_digits n : Forall digit (dec n).
Proof. unfold dec. apply dec_fuel_digits. constructor. Qed.

Lemma dec_nonempty n : dec n <> [].
Proof.
  unfold dec. cbn [dec_fuel]. destruct (n <? 10); [discriminate|].
  generalize (N.to_nat (N.size n)) (n / 10). intros f m.
  assert (forall f m acc, acc <> [] -> dec_fuel f m acc <> []) as H.
  { clear. induction f as [|f IH]; intros m acc Ha; cbn [dec_fuel]; [exact Ha|].
    destruct (m <? 10); [discriminate|]. apply IH. discriminate. }
  apply H. discriminate.
Qed.

(* ---------- bytes ---------- *)

Definition nonparam (b : N) : Prop := is_param_byte b = false.

Definition starts_ok (p : list N) : Prop :=
  match p with [] => True | b :: _ => nonparam b end.

Lemma starts_ok_app a b : starts_ok a -> (a = [] -> starts_ok b) -> starts_ok (a ++ b).
Proof. destruct a; cbn; auto. Qed.

Lemma digit_param b : digit b -> is_param_byte b = true.
Proof. unfold digit, is_param_byte. intros ->. reflexivity. Qed.

(* ---------- running the interpreter ---------- *)

Definition nrun (s : sstate) (bytes : list N) : sstate := flush (srun s bytes).

Lemma srun_app s a b : srun s (a ++ b) = srun (srun s a) b.
Proof. unfold srun. apply fold_left_app. Qed.

Lemma flush_data s : s_mode s = MData -> flush s = s.
Proof. unfold flush. intros ->. reflexivity. Qed.

Lemma flush_mode s : s_mode (flush s) = MData.
Proof.
  unfold flush. destruct (s_mode s) as [|intro done cur] eqn:E; [exact E|].
  repeat match goal with
         | |- context [if ?c then _ else _] => destruct c
         | |- context [match ?l with _ => _ end] => destruct l
         end; reflexivity.
Qed.

Lemma flush_idem s : flush (flush s) = flush s.
Proof. apply flush_data, flush_mode. Qed.

Lemma sstep_flush s b : nonparam b -> sstep s b = sstep (flush s) b.
Proof.
  intros Hb. unfold nonparam, is_param_byte in Hb. apply orb_false_iff in Hb. destruct Hb as [Hd Hs].
  unfold sstep at 1. destruct (s_mode s) as [|intro done cur] eqn:E.
  - rewrite flush_data by exact E. unfold sstep. now rewrite E.
  - rewrite Hd, Hs. unfold sstep. now rewrite flush_mode.
Qed.

Lemma nrun_app s p1 p2 : starts_ok p2 -> nrun s (p1 ++ p2) = nrun (nrun s p1) p2.
Proof.
  intros H. unfold nrun. rewrite srun_app. destruct p2 as [|b r].
  - cbn [srun fold_left]. now rewrite flush_idem.
  - cbn [starts_ok] in H. cbn [srun fold_left]. now rewrite (sstep_flush _ b H).
Qed.

Lemma nrun_nil s : nrun s [] = flush s.
Proof. reflexivity. Qed.

(* a state between commands *)
Definition good (x y : N) (c : option N) (regs : list (N * rgb)) (ras : option (N * N * N * N))
           (ev : list (N * N * rgb)) : sstate := mkS MData x y c regs ras None ev false.

Lemma srun_cons s b r : srun s (b :: r) = srun (sstep s b) r.
Proof. reflexivity. Qed.

Lemma sstep_param_digit d intro done cur x y c regs ras rep ev err :
  digit d ->
  sstep (mkS (MParams intro done cur) x y c regs ras rep ev err) d
  = mkS (MParams intro done (cur * 10 + (d - 48))) x y c regs ras rep ev err.
Proof. intros Hd. unfold digit in Hd. unfold sstep. cbn [s_mode]. rewrite Hd. reflexivity. Qed.

Lemma srun_param_digits ds : forall intro done cur x y c regs ras rep ev err,
  Forall digit ds ->
  srun (mkS (MParams intro done cur) x y c regs ras rep ev err) ds
  = mkS (MParams intro done (acc_digits cur ds)) x y c regs ras rep ev err.
Proof.
  induction ds as [|d r IH]; intros intro done cur x y c regs ras rep ev err H; [reflexivity|].
  inversion H as [|? ? Hd Hr]; subst. rewrite srun_cons, sstep_param_digit by exact Hd.
  rewrite IH by exact Hr. reflexivity.
Qed.

Lemma srun_semi intro done cur x y c regs ras rep ev err r :
  srun (mkS (MParams intro done cur) x y c regs ras rep ev err) (c_semi :: r)
  = srun (mkS (MParams intro (cur :: done) 0) x y c regs ras rep ev err) r.
Proof. reflexivity. Qed.

(* an introducer in data mode *)
Lemma srun_intro b x y c regs ras ev r :
  b = c_excl \/ b = c_hash \/ b = c_quote ->
  srun (good x y c regs ras ev) (b :: r) = srun (mkS (MParams b [] 0) x y c regs ras None ev false) r.
Proof. intros [H | [H | H]]; subst b; reflexivity. Qed.

(* parameters p1;p2;...;pn printed in decimal *)
Fixpoint params_bytes (ps : list N) : list N :=
  match ps with
  | [] => []
  | [p] => dec p
  | p :: r => dec p ++ c_semi :: params_bytes r
  end.

Lemma srun_params ps : forall intro done x y c regs ras rep ev err,
  ps <> [] ->
  exists done' cur',
    srun (mkS (MParams intro done 0) x y c regs ras rep ev err) (params_bytes ps)
    = mkS (MParams intro done' cur') x y c regs ras rep ev err /\
    rev (cur' :: done') = rev done ++ ps.
Proof.
  induction ps as [|p r IH]; intros intro done x y c regs ras rep ev err Hne; [congruence|].
  destruct r as [|p2 r].
  - cbn [params_bytes]. rewrite srun_param_digits by apply dec_digits. rewrite dec_value.
    exists done, p. split; [reflexivity|]. reflexivity.
  - change (params_bytes (p :: p2 :: r)) with (dec p ++ c_semi :: params_bytes (p2 :: r)).
    rewrite srun_app, srun_param_digits by apply dec_digits. rewrite dec_value, srun_semi.
    destruct (IH intro (p :: done) x y c regs ras rep ev err ltac:(discriminate)) as (d' & c' & -> & Hr).
    exists d', c'. split; [reflexivity|]. rewrite Hr. cbn [rev]. now rewrite <- app_assoc.
Qed.

(* ---------- effects of the commands ---------- *)

Lemma nrun_select x y c0 regs ras ev c :
  nrun (good x y c0 regs ras ev) (c_hash :: dec c) = good x y (Some c) regs ras ev.
Proof.
  unfold nrun. rewrite srun_intro by tauto. rewrite srun_param_digits by apply dec_digits.
  rewrite dec_value. reflexivity.
Qed.

Lemma nrun_define x y c0 regs ras ev i r g b :
  r <= 100 -> g <= 100 -> b <= 100 ->
  nrun (good x y c0 regs ras ev) (c_hash :: params_bytes [i; 2; r; g; b])
  = good x y c0 ((i, (r, g, b)) :: regs) ras ev.
Proof.
  intros Hr Hg Hb. unfold nrun. rewrite srun_intro by tauto.
  destruct (srun_params [i; 2; r; g; b] c_hash [] x y c0 regs ras None ev false ltac:(discriminate))
    as (d' & c' & -> & Hp).
  unfold flush. cbn [s_mode]. rewrite Hp. cbn [rev app].
  replace (c_hash =? c_excl) with false by reflexivity. replace (c_hash =? c_hash) with true by reflexivity.
  replace (2 =? 2) with true by reflexivity.
  replace (r <=? 100) with true by lia. replace (g <=? 100) with true by lia.
  replace (b <=? 100) with true by lia. reflexivity.
Qed.

Lemma nrun_raster x y c0 regs pan pad ph pv :
  nrun (good x y c0 regs None []) (c_quote :: params_bytes [pan; pad; ph; pv])
  = good x y c0 regs (Some (pan, pad, ph, pv)) [].
Proof.
  unfold nrun. rewrite srun_intro by tauto.
  destruct (srun_params [pan; pad; ph; pv] c_quote [] x y c0 regs None None [] false ltac:(discriminate))
    as (d' & c' & -> & Hp).
  unfold flush. cbn [s_mode]. rewrite Hp. reflexivity.
Qed.

Lemma nrun_dollar x y c regs ras ev :
  nrun (good x y c regs ras ev) [c_dollar] = good 0 y c regs ras ev.
Proof. reflexivity. Qed.

Lemma nrun_minus x y c regs ras ev :
  nrun (good x y c regs ras ev) [c_minus] = good 0 (y + 6) c regs ras ev.
Proof. reflexivity. Qed.

Definition data_char (b : N) : Prop := 63 <= b <= 126.

Lemma data_char_nonparam b : data_char b -> nonparam b.
Proof. unfold data_char, nonparam, is_param_byte, is_digit, c_semi. lia. Qed.

Lemma step_data_char x y c regs ras rep ev b v :
  data_char b -> reg_lookup c regs = Some v ->
  step_data (mkS MData x y (Some c) regs ras rep ev false) b
  = mkS MData (x + match rep with Some n => n | None => 1 end) y (Some c) regs ras None
        (rev (paint_cols x y v (b - 63) (N.to_nat (match rep with Some n => n | None => 1 end))) ++ ev) false.
Proof.
  intros Hb Hv. unfold data_char in Hb. unfold step_data.
  replace (b =? c_excl) with false by (unfold c_excl; lia).
  replace (b =? c_hash) with false by (unfold c_hash; lia).
  replace (b =? c_quote) with false by (unfold c_quote; lia).
  replace (b =? c_dollar) with false by (unfold c_dollar; lia).
  replace (b =? c_minus) with false by (unfold c_minus; lia).
  replace (63 <=? b) with true by lia. replace (b <=? 126) with true by lia.
  cbn [orb andb s_repeat s_color s_regs s_x s_y s_raster s_events s_err]. rewrite Hv. reflexivity.
Qed.

(* one data character *)
Lemma nrun_char x y c regs ras ev b v :
  data_char b -> reg_lookup c regs = Some v ->
  nrun (good x y (Some c) regs ras ev) [b]
  = good (x + 1) y (Some c) regs ras (rev (paint_cols x y v (b - 63) 1) ++ ev).
Proof.
  intros Hb Hv. unfold nrun, good. cbn [srun fold_left]. unfold sstep. cbn [s_mode].
  rewrite (step_data_char _ _ _ _ _ None _ _ v Hb Hv). reflexivity.
Qed.

Lemma flush_repeat n x y c regs ras ev :
  flush (mkS (MParams c_excl [] n) x y c regs ras None ev false) = mkS MData x y c regs ras (Some n) ev false.
Proof. reflexivity. Qed.

Lemma sstep_data x y c regs ras rep ev err b :
  sstep (mkS MData x y c regs ras rep ev err) b = step_data (mkS MData x y c regs ras rep ev err) b.
Proof. reflexivity. Qed.

(* `!n` followed by a data character *)
Lemma nrun_repeat x y c regs ras ev n b v :
  data_char b -> reg_lookup c regs = Some v ->
  nrun (good x y (Some c) regs ras ev) (c_excl :: dec n ++ [b])
  = good (x + n) y (Some c) regs ras (rev (paint_cols x y v (b - 63) (N.to_nat n)) ++ ev).
Proof.
  intros Hb Hv. unfold nrun. rewrite srun_intro by tauto. rewrite srun_app.
  rewrite srun_param_digits by apply dec_digits. rewrite dec_value.
  rewrite srun_cons. rewrite (sstep_flush _ b (data_char_nonparam b Hb)).
  rewrite flush_repeat, sstep_data.
  rewrite (step_data_char _ _ _ _ _ (Some n) _ _ v Hb Hv). reflexivity.
Qed.

Lemma paint_cols_app x y v bits a b :
  paint_cols x y v bits (a + b) = paint_cols x y v bits a ++ paint_cols (x + N.of_nat a) y v bits b.
Proof.
  revert x. induction a as [|a IH]; intros x.
  - cbn [Nat.add paint_cols app]. replace (x + N.of_nat 0) with x by lia. reflexivity.
  - cbn [Nat.add paint_cols]. rewrite IH, <- app_assoc. replace (x + 1 + N.of_nat a) with (x + N.of_nat (S a)) by lia. reflexivity.
Qed.

(* the same character written n times *)
Lemma nrun_chars n : forall x y c regs ras ev b v,
  data_char b -> reg_lookup c regs = Some v ->
  nrun (good x y (Some c) regs ras ev) (repeat b n)
  = good (x + N.of_nat n) y (Some c) regs ras (rev (paint_cols x y v (b - 63) n) ++ ev).
Proof.
  induction n as [|n IH]; intros x y c regs ras ev b v Hb Hv.
  - cbn [repeat paint_cols rev app]. rewrite nrun_nil, flush_data by reflexivity. unfold good. f_equal. lia.
  - change (repeat b (S n)) with ([b] ++ repeat b n).
    rewrite nrun_app.
    + rewrite (nrun_char _ _ _ _ _ _ _ v Hb Hv), (IH _ _ _ _ _ _ _ v Hb Hv).
      unfold good. f_equal; [lia|].
      change (S n) with (1 + n)%nat. rewrite paint_cols_app, rev_app_distr, <- app_assoc.
      repeat f_equal.
    + destruct n; [exact I|]. cbn. apply data_char_nonparam, Hb.
Qed.

Section Pieces.
  Variable shift_min repeat_min : N.

  Lemma paint_bits_zero x y v n : paint_bits x y v 0 n = [].
  Proof. revert y. induction n as [|n IH]; intros y; [reflexivity|]. cbn [paint_bits]. cbn. apply IH. Qed.

  Lemma paint_cols_zero x y v n : paint_cols x y v 0 n = [].
  Proof. revert x. induction n as [|n IH]; intros x; [reflexivity|]. cbn [paint_cols]. now rewrite paint_bits_zero, IH. Qed.

  Lemma quest_data : data_char c_quest.
  Proof. unfold data_char, c_quest. lia. Qed.

  (* `!n?` / `?`..`?`: move right, paint nothing *)
  Lemma nrun_skip x y c regs ras ev shift v :
    reg_lookup c regs = Some v ->
    nrun (good x y (Some c) regs ras ev) (skip_bytes shift_min shift) = good (x + shift) y (Some c) regs ras ev.
  Proof.
    intros Hv. unfold skip_bytes. destruct (0 <? shift) eqn:E0.
    - destruct (shift_min <? shift).
      + rewrite (nrun_repeat _ _ _ _ _ _ _ _ v quest_data Hv).
        replace (c_quest - 63) with 0 by reflexivity. now rewrite paint_cols_zero.
      + rewrite (nrun_chars _ _ _ _ _ _ _ _ v quest_data Hv).
        replace (c_quest - 63) with 0 by reflexivity. rewrite paint_cols_zero. unfold good. f_equal. lia.
    - rewrite nrun_nil, flush_data by reflexivity. unfold good. f_equal. lia.
  Qed.

  (* `!n<code>` / `<code>`..`<code>` *)
  Lemma nrun_run x y c regs ras ev code n v :
    data_char code -> reg_lookup c regs = Some v ->
    nrun (good x y (Some c) regs ras ev) (run_bytes repeat_min code n)
    = good (x + n) y (Some c) regs ras (rev (paint_cols x y v (code - 63) (N.to_nat n)) ++ ev).
  Proof.
    intros Hc Hv. unfold run_bytes. destruct (repeat_min <? n).
    - apply (nrun_repeat _ _ _ _ _ _ _ _ v Hc Hv).
    - rewrite (nrun_chars _ _ _ _ _ _ _ _ v Hc Hv). unfold good. f_equal. lia.
  Qed.

  Lemma skip_starts shift : starts_ok (skip_bytes shift_min shift).
  Proof.
    unfold skip_bytes. destruct (0 <? shift); [|exact I]. destruct (shift_min <? shift); [reflexivity|].
    destruct (N.to_nat shift); [exact I|reflexivity].
  Qed.

  Lemma run_starts code n : data_char code -> starts_ok (run_bytes repeat_min code n).
  Proof.
    intros H. unfold run_bytes. destruct (repeat_min <? n); [reflexivity|].
    destruct (N.to_nat n); [exact I|]. cbn. apply data_char_nonparam, H.
  Qed.
End Pieces.
