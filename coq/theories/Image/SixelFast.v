(* picture_ok / picture_eq of Image/Sixel.v evaluated through a finite map from pixel number
   (y * w + x) to the newest colour painted there, in O(n log n), so that pictures of 50k
   pixels can be checked.  Image/SixelFastProofs.v proves them equal to the list versions
   the theorems are stated with.  Executable definitions only. *)
From Coq Require Import List NArith Bool FMapPositive.
From SNT Require Import Base.Outcome Image.KDTree Image.Sixel.
Import ListNotations.
Local Open Scope N_scope.

Definition pix_key (w x y : N) : positive := N.succ_pos (y * w + x).

Definition pix_map (w : N) (evs : list (N * N * rgb)) : PositiveMap.t rgb :=
  fold_left (fun m e => let '(x, y, v) := e in PositiveMap.add (pix_key w x y) v m) (rev_append evs [])
            (PositiveMap.empty rgb).

Definition picture_ok_fast (w h : N) (p : picture) : bool :=
  (p_width p =? w) && (p_height p =? h) &&
  forallb (ev_in w h) (p_events p) &&
  (let m := pix_map w (p_events p) in
   forallb (fun i => PositiveMap.mem (N.succ_pos i) m) (nrange_from 0 (N.to_nat (w * h)))) &&
  regs_ok (p_regs p).

Fixpoint list_eqb2_opt {A B} (f : A -> B -> bool) (x : list A) (y : list B) : bool :=
  match x, y with
  | [], [] => true
  | a :: x', b :: y' => f a b && list_eqb2_opt f x' y'
  | _, _ => false
  end.

Definition pix_is (m : PositiveMap.t rgb) (i : N) (v : rgb) : bool :=
  match PositiveMap.find (N.succ_pos i) m with Some u => rgb_eqb u v | None => false end.

Definition picture_eq_fast (w : N) (expected : list (list rgb)) (p : picture) : bool :=
  let m := pix_map w (p_events p) in
  list_eqb2_opt (pix_is m) (nrange_from 0 (length (concat expected))) (concat expected).
