(* Printer / parser round trips between the bytes the handler model writes
   (Image/Kitty.v) and the protocol-side reading (Image/KittySpec.v):
   decimal numbers, control data, whole escape codes, and the RFC 4648
   decoder against the RFC encoder of Encoder/Base64.v. *)
From Coq Require Import List NArith ZArith Bool Lia Arith.
From Coq Require Import ZifyBool ZifyNat ZifyN.
From SNT Require Import Base.Sweep Encoder.Base64 Encoder.Base64Proofs Image.Kitty Image.KittySpec.
Import ListNotations.
Local Open Scope N_scope.
Arguments N.add : simpl never.
Arguments N.sub : simpl never.
Arguments N.mul : simpl never.
Arguments N.eqb : simpl never.
Arguments N.ltb : simpl never.
Arguments N.leb : simpl never.
Arguments N.div : simpl never.
Arguments N.modulo : simpl never.
Arguments N.pow : simpl never.

(* ---------- decimal ---------- *)
Definition digits_val (ds : list N) (n : N) : Prop :=
  forall a, fold_left num_step ds (Some a) = Some (a * 10 ^ N.of_nat (length ds) + n).

Lemma is_digit_char d : d < 10 -> is_digit (48 + d) = true.
Proof. unfold is_digit. lia. Qed.

Lemma dec_go_spec : forall fuel n acc, n < 10 ^ N.of_nat fuel -> (0 < fuel)%nat ->
  exists ds, dec_go fuel n acc = ds ++ acc /\ Forall (fun c => is_digit c = true) ds /\
             ds <> [] /\ digits_val ds n.
Proof.
  induction fuel as [|f IH]; intros n acc Hn Hf; [lia|].
  cbn [dec_go]. destruct (n / 10 =? 0) eqn:Hq.
  - exists [48 + n mod 10]. assert (n < 10) by (apply N.eqb_eq in Hq; lia).
    repeat split.
    + constructor; [|constructor]. apply is_digit_char. lia.
    + discriminate.
    + intros a. cbn [fold_left num_step length]. rewrite is_digit_char by lia.
      f_equal. change (N.of_nat 1) with 1. rewrite N.pow_1_r. rewrite N.mod_small by lia. lia.
  - apply N.eqb_neq in Hq.
    assert (Hf' : (0 < f)%nat).
    { destruct f; [|lia]. change (N.of_nat 1) with 1 in Hn. rewrite N.pow_1_r in Hn. lia. }
    assert (Hn' : n / 10 < 10 ^ N.of_nat f).
    { rewrite Nat2N.inj_succ, N.pow_succ_r' in Hn. apply N.div_lt_upper_bound; lia. }
    destruct (IH (n / 10) ((48 + n mod 10) :: acc) Hn' Hf') as (ds & E & Hd & Hne & Hv).
    exists (ds ++ [48 + n mod 10]). repeat split.
    + rewrite E, <- app_assoc. reflexivity.
    + apply Forall_app; split; [exact Hd|]. constructor; [|constructor]. apply is_digit_char. lia.
    + destruct ds; discriminate.
    + intros a. rewrite fold_left_app, Hv. cbn [fold_left num_step]. rewrite is_digit_char by lia.
      f_equal. rewrite app_length. cbn [length]. rewrite Nat.add_1_r, Nat2N.inj_succ, N.pow_succ_r'.
      pose proof (N.div_mod n 10). lia.
Qed.

Lemma dec_fuel n : n < 10 ^ N.of_nat (S (N.to_nat (N.log2 n))).
Proof.
  rewrite Nat2N.inj_succ, N2Nat.id.
  destruct (N.eq_dec n 0) as [->|Hn]; [reflexivity|].
  pose proof (N.log2_spec n ltac:(lia)) as [_ Hu].
  eapply N.lt_le_trans; [exact Hu|]. apply N.pow_le_mono_l. lia.
Qed.

Lemma dec_spec n :
  Forall (fun c => is_digit c = true) (dec n) /\ dec n <> [] /\ digits_val (dec n) n.
Proof.
  unfold dec. destruct (dec_go_spec _ n [] (dec_fuel n) ltac:(lia)) as (ds & E & Hd & Hne & Hv).
  rewrite E, app_nil_r. auto.
Qed.

Lemma parse_num_dec n : parse_num (dec n) = Some n.
Proof.
  destruct (dec_spec n) as (_ & Hne & Hv). unfold parse_num.
  destruct (dec n) eqn:E; [contradiction|]. rewrite Hv. rewrite N.mul_0_l. reflexivity.
Qed.

Lemma dec_digits n : Forall (fun c => is_digit c = true) (dec n).
Proof. apply dec_spec. Qed.

(* ---------- span / split ---------- *)
Lemma span_stop p a x r : Forall (fun c => p c = true) a -> p x = false ->
  span p (a ++ x :: r) = (a, x :: r).
Proof.
  induction 1 as [|c a Hc _ IH]; intros Hx; cbn [span app].
  - rewrite Hx. reflexivity.
  - rewrite Hc, (IH Hx). reflexivity.
Qed.

Lemma span_all p a : Forall (fun c => p c = true) a -> span p a = (a, []).
Proof.
  induction 1 as [|c a Hc _ IH]; cbn [span]; [reflexivity|]. rewrite Hc, IH. reflexivity.
Qed.

Lemma split_on_none sep a : Forall (fun c => (c =? sep) = false) a -> split_on sep a = [a].
Proof.
  induction 1 as [|c a Hc _ IH]; cbn [split_on]; [reflexivity|]. rewrite Hc, IH. reflexivity.
Qed.

Lemma split_on_sep sep a r : Forall (fun c => (c =? sep) = false) a ->
  split_on sep (a ++ sep :: r) = a :: split_on sep r.
Proof.
  induction 1 as [|c a Hc _ IH]; cbn [split_on app].
  - rewrite N.eqb_refl. reflexivity.
  - rewrite Hc, IH. reflexivity.
Qed.

(* ---------- clean control data ---------- *)
(* bytes that may appear in a value / a key without confusing the reader *)
Definition vchar (c : N) : bool := negb ((c =? 44) || (c =? 59) || (c =? 27)).
Definition kchar (c : N) : bool := negb ((c =? 61) || (c =? 44) || (c =? 59) || (c =? 27)).
Definition kv_clean (e : kv) : bool := kchar (fst e) && forallb vchar (snd e).
Definition kvs_clean (kvs : list kv) : bool := forallb kv_clean kvs.

Lemma digit_vchar c : is_digit c = true -> vchar c = true.
Proof. unfold is_digit, vchar. lia. Qed.

Lemma dec_vclean n : forallb vchar (dec n) = true.
Proof.
  apply forallb_forall. intros c Hc. apply digit_vchar.
  pose proof (dec_digits n) as H. rewrite Forall_forall in H. auto.
Qed.

Definition kv_bytes (e : kv) : list N := fst e :: 61 :: snd e.

Lemma kv_bytes_no_comma e : kv_clean e = true -> Forall (fun c => (c =? 44) = false) (kv_bytes e).
Proof.
  destruct e as [k v]. unfold kv_clean, kv_bytes, kchar. cbn [fst snd]. intros H.
  apply andb_prop in H as [Hk Hv]. constructor; [lia|]. constructor; [reflexivity|].
  apply Forall_forall. intros c Hc. rewrite forallb_forall in Hv. specialize (Hv c Hc). unfold vchar in Hv. lia.
Qed.

Lemma render_kvs_cons e r : r <> [] -> render_kvs (e :: r) = kv_bytes e ++ 44 :: render_kvs r.
Proof. destruct e as [k v], r; [contradiction|]. reflexivity. Qed.

Lemma split_render kvs : kvs <> [] -> kvs_clean kvs = true ->
  split_on 44 (render_kvs kvs) = map kv_bytes kvs.
Proof.
  induction kvs as [|e r IH]; [contradiction|]. intros _ Hc. cbn [kvs_clean forallb] in Hc.
  apply andb_prop in Hc as [He Hr].
  destruct r as [|e' r'].
  - destruct e as [k v]. cbn [render_kvs map]. apply (split_on_none 44 (kv_bytes (k, v))), kv_bytes_no_comma, He.
  - rewrite render_kvs_cons by discriminate.
    rewrite split_on_sep by (apply kv_bytes_no_comma, He).
    rewrite IH by (try discriminate; exact Hr). reflexivity.
Qed.

Lemma parse_kv_bytes e : kv_clean e = true -> parse_kv (kv_bytes e) = Some e.
Proof.
  destruct e as [k v]. unfold kv_clean, kv_bytes, parse_kv, kchar. cbn [fst snd]. intros H.
  apply andb_prop in H as [Hk _].
  change (k :: 61 :: v) with ([k] ++ 61 :: v).
  rewrite span_stop; [reflexivity| |reflexivity].
  constructor; [|constructor]. lia.
Qed.

Lemma all_some_map_kv kvs : kvs_clean kvs = true ->
  all_some (map parse_kv (map kv_bytes kvs)) = Some kvs.
Proof.
  induction kvs as [|e r IH]; intros Hc; [reflexivity|]. cbn [kvs_clean forallb] in Hc.
  apply andb_prop in Hc as [He Hr]. cbn [map all_some]. rewrite parse_kv_bytes by exact He.
  rewrite IH by exact Hr. reflexivity.
Qed.

Lemma render_kvs_chars (P : N -> Prop) kvs :
  P 61 -> P 44 -> Forall (fun e => P (fst e) /\ Forall P (snd e)) kvs -> Forall P (render_kvs kvs).
Proof.
  intros P61 P44. induction 1 as [|[k v] r [Hk Hv] Hr IH]; [constructor|].
  destruct r as [|e' r'].
  - cbn [render_kvs]. constructor; [exact Hk|]. constructor; [exact P61|exact Hv].
  - rewrite render_kvs_cons by discriminate. unfold kv_bytes. cbn [fst snd app].
    constructor; [exact Hk|]. constructor; [exact P61|].
    apply Forall_app; split; [exact Hv|]. constructor; [exact P44|exact IH].
Qed.

Lemma clean_forall (P : N -> Prop) kvs :
  (forall c, kchar c = true -> P c) -> (forall c, vchar c = true -> P c) ->
  kvs_clean kvs = true -> Forall (fun e => P (fst e) /\ Forall P (snd e)) kvs.
Proof.
  intros HK HV Hc. apply Forall_forall. intros e He. unfold kvs_clean in Hc.
  rewrite forallb_forall in Hc. specialize (Hc e He). unfold kv_clean in Hc.
  apply andb_prop in Hc as [Hk Hv]. split; [apply HK, Hk|].
  apply Forall_forall. intros c Hcin. rewrite forallb_forall in Hv. apply HV, Hv, Hcin.
Qed.

Lemma render_kvs_no_semi kvs : kvs_clean kvs = true ->
  Forall (fun c => negb (c =? 59) = true) (render_kvs kvs).
Proof.
  intros Hc. apply (render_kvs_chars (fun c => negb (c =? 59) = true)); [reflexivity|reflexivity|].
  apply (clean_forall (fun c => negb (c =? 59) = true)); [| |exact Hc]; intros c; unfold kchar, vchar; lia.
Qed.

Lemma render_kvs_no_esc kvs : kvs_clean kvs = true ->
  Forall (fun c => negb (c =? 27) = true) (render_kvs kvs).
Proof.
  intros Hc. apply (render_kvs_chars (fun c => negb (c =? 27) = true)); [reflexivity|reflexivity|].
  apply (clean_forall (fun c => negb (c =? 27) = true)); [| |exact Hc]; intros c; unfold kchar, vchar; lia.
Qed.

(* ---------- one graphics escape code ---------- *)
Lemma parse_body_semi kvs payload : kvs <> [] -> kvs_clean kvs = true ->
  parse_body (render_kvs kvs ++ 59 :: payload) = Some (IGfx kvs payload).
Proof.
  intros Hne Hc. unfold parse_body.
  rewrite span_stop; [|apply render_kvs_no_semi, Hc|reflexivity].
  rewrite split_render, all_some_map_kv by assumption. reflexivity.
Qed.

Lemma parse_body_plain kvs : kvs <> [] -> kvs_clean kvs = true ->
  parse_body (render_kvs kvs) = Some (IGfx kvs []).
Proof.
  intros Hne Hc. unfold parse_body.
  rewrite span_all by (apply render_kvs_no_semi, Hc).
  rewrite split_render, all_some_map_kv by assumption. reflexivity.
Qed.

Definition no_esc (l : list N) : Prop := Forall (fun c => negb (c =? 27) = true) l.

Lemma parse_gfx f kvs semi payload rest :
  kvs <> [] -> kvs_clean kvs = true -> no_esc payload -> (semi = true \/ payload = []) ->
  parse_items (S f) (gfx kvs semi payload ++ rest) =
  option_map (cons (IGfx kvs payload)) (parse_items f rest).
Proof.
  intros Hne Hc Hp Hs. unfold gfx, ST. cbn [app parse_items].
  set (body := render_kvs kvs ++ (if semi then 59 :: payload else payload)).
  replace ((render_kvs kvs ++ (if semi then 59 :: payload else payload) ++ [27; 92]) ++ rest)
    with (body ++ 27 :: 92 :: rest).
  2:{ unfold body. rewrite <- !app_assoc. reflexivity. }
  assert (Hb : no_esc body).
  { unfold body. apply Forall_app; split; [apply render_kvs_no_esc, Hc|].
    destruct semi; [constructor; [reflexivity|exact Hp]|exact Hp]. }
  rewrite span_stop; [|exact Hb|reflexivity].
  assert (Hpb : parse_body body = Some (IGfx kvs payload)).
  { unfold body. destruct semi.
    - apply parse_body_semi; assumption.
    - destruct Hs as [Hs|Hs]; [discriminate|]. subst payload. rewrite app_nil_r.
      apply parse_body_plain; assumption. }
  rewrite Hpb. reflexivity.
Qed.

(* ---------- cursor sequences ---------- *)
Lemma parse_save f rest :
  parse_items (S f) (cursor_save ++ rest) = option_map (cons ISave) (parse_items f rest).
Proof. reflexivity. Qed.

Lemma parse_restore f rest :
  parse_items (S f) (cursor_restore ++ rest) = option_map (cons IRestore) (parse_items f rest).
Proof. reflexivity. Qed.

Lemma parse_moveto f pos rest :
  parse_items (S f) (cursor_to pos ++ rest) =
  option_map (cons (IMoveTo (fst pos + 1) (snd pos + 1))) (parse_items f rest).
Proof.
  unfold cursor_to. cbn [app parse_items]. rewrite <- !app_assoc. cbn [app].
  rewrite span_stop; [|apply dec_digits|reflexivity].
  rewrite <- app_assoc. cbn [app].
  rewrite span_stop; [|apply dec_digits|reflexivity].
  rewrite !parse_num_dec. reflexivity.
Qed.

(* ---------- RFC 4648: the decoder inverts the encoder ---------- *)
Lemma b64_val_rfc i : i < 64 -> b64_val (rfc_char i) = Some i.
Proof.
  intros H.
  assert (S : sweep1 64 (fun i => match b64_val (rfc_char i) with Some j => j =? i | None => false end) = true)
    by (vm_compute; reflexivity).
  pose proof (sweep1_sound 64 _ S i H) as Hs. cbv beta in Hs.
  destruct (b64_val (rfc_char i)); [|discriminate]. apply N.eqb_eq in Hs. subst. reflexivity.
Qed.

Lemma rfc_char_not_61 i : i < 64 -> (rfc_char i =? 61) = false.
Proof. intros H. exact (rfc_char_not_pad i H). Qed.

Lemma list_ind3 (P : list N -> Prop) :
  P [] -> (forall a, P [a]) -> (forall a b, P [a; b]) ->
  (forall a b c r, P r -> P (a :: b :: c :: r)) -> forall l, P l.
Proof.
  intros H0 H1 H2 H3.
  assert (forall l, P l /\ (forall a, P (a :: l)) /\ (forall a b, P (a :: b :: l))) as HH.
  { induction l as [|x l (I0 & I1 & I2)]; repeat split; auto. }
  intros l. apply HH.
Qed.

Ltac zify_divmod := Zify.zify; Z.div_mod_to_equations.

Lemma sext_bounds a b c : a < 256 -> b < 256 -> c < 256 ->
  group24 a b c / 262144 < 64 /\ (group24 a b c / 4096) mod 64 < 64 /\
  (group24 a b c / 64) mod 64 < 64 /\ group24 a b c mod 64 < 64.
Proof. intros. unfold group24. repeat split; try (apply N.mod_lt; lia). apply N.div_lt_upper_bound; lia. Qed.

Lemma b64_decode_rfc x : bytes_ok x = true -> b64_decode (rfc4648 x) = Some x.
Proof.
  induction x as [| a | a b | a b c r IH] using list_ind3; intros Hok.
  - reflexivity.
  - apply bytes_ok_cons in Hok as [Ha _].
    destruct (sext_bounds a 0 0 Ha ltac:(lia) ltac:(lia)) as (B0 & B1 & _ & _).
    cbn [rfc4648 b64_decode]. rewrite !b64_val_rfc by assumption.
    change (PAD =? 61) with true. cbn iota. f_equal. f_equal. unfold group24. zify_divmod. lia.
  - apply bytes_ok_cons in Hok as [Ha Hok]. apply bytes_ok_cons in Hok as [Hb _].
    destruct (sext_bounds a b 0 Ha Hb ltac:(lia)) as (B0 & B1 & B2 & _).
    cbn [rfc4648 b64_decode]. rewrite !b64_val_rfc by assumption.
    rewrite rfc_char_not_61 by assumption. change (PAD =? 61) with true. cbn iota.
    f_equal. unfold group24. f_equal; [|f_equal]; zify_divmod; lia.
  - apply bytes_ok_cons in Hok as [Ha Hok]. apply bytes_ok_cons in Hok as [Hb Hok].
    apply bytes_ok_cons in Hok as [Hc Hok].
    destruct (sext_bounds a b c Ha Hb Hc) as (B0 & B1 & B2 & B3).
    cbn [rfc4648 app b64_decode]. rewrite !b64_val_rfc by assumption.
    rewrite !rfc_char_not_61 by assumption. rewrite (IH Hok). cbn [option_map].
    f_equal. unfold group24. f_equal; [|f_equal; [|f_equal]]; zify_divmod; lia.
Qed.

(* no byte of an RFC 4648 text is ESC *)
Lemma rfc_char_no_esc i : negb (rfc_char i =? 27) = true.
Proof.
  unfold rfc_char.
  destruct (i <? 26) eqn:E1; [lia|]. destruct (i <? 52) eqn:E2; [lia|].
  destruct (i <? 62) eqn:E3; [lia|]. destruct (i =? 62); reflexivity.
Qed.

Lemma rfc4648_no_esc x : no_esc (rfc4648 x).
Proof.
  induction x as [| a | a b | a b c r IH] using list_ind3; unfold no_esc in *; cbn [rfc4648 app];
    repeat (constructor; try apply rfc_char_no_esc; try reflexivity); try exact IH.
Qed.
