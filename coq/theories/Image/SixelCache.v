(* C12: the encoded-image cache of SixelImageHandler (src/image.rs:834-837, 951-960).
   `imgs` is an lru::LruCache<u64, Vec<u8>> keyed by the image's content hash; `get`
   makes the entry most recently used, `put` inserts as most recently used, and after
   every insertion entries are popped from the least recently used end while the total
   size exceeds the limit.  The cache is modelled as a list, most recently used first.

   `fresh` stands for the bytes a computation of this draw would produce (they depend
   on a HashMap iteration order that changes from draw to draw), `None` for an image
   that produces nothing (quantize returned None: nothing is written, nothing cached). *)
From Coq Require Import List NArith Bool Lia Arith.
From Coq Require Import ZifyBool ZifyNat ZifyN.
Import ListNotations.
Local Open Scope N_scope.

Definition cache := list (N * list N).

Fixpoint c_find (key : N) (c : cache) : option (list N) :=
  match c with
  | [] => None
  | (k, v) :: r => if k =? key then Some v else c_find key r
  end.

Fixpoint c_remove (key : N) (c : cache) : cache :=
  match c with
  | [] => []
  | (k, v) :: r => if k =? key then r else (k, v) :: c_remove key r
  end.

Definition blen (b : list N) : N := N.of_nat (length b).

Fixpoint c_size (c : cache) : N :=
  match c with [] => 0 | (_, v) :: r => blen v + c_size r end.

(* while self.size > LIMIT { match pop_lru() { Some((_, img)) => size -= img.len(), None => break } } *)
Fixpoint evict (fuel : nat) (limit : N) (c : cache) (size : N) : cache * N :=
  match fuel with
  | O => (c, size)
  | S f =>
      if size <=? limit then (c, size)
      else match rev c with
           | [] => (c, size)
           | (_, v) :: r => evict f limit (rev r) (size - blen v)
           end
  end.

Section Handler.
  Variable limit : N.        (* IMAGE_CACHE_SIZE *)

  Definition hstate := (cache * N)%type.      (* imgs, size *)

  Definition hdraw (st : hstate) (key : N) (fresh : option (list N)) : list N * hstate :=
    let '(c, size) := st in
    match c_find key c with
    | Some b => (b, ((key, b) :: c_remove key c, size))
    | None =>
        match fresh with
        | None => ([], st)
        | Some b =>
            let c' := (key, b) :: c in
            (b, evict (S (length c')) limit c' (size + blen b))
        end
    end.

  Fixpoint hrun (st : hstate) (ds : list (N * option (list N))) : list (list N) :=
    match ds with
    | [] => []
    | (key, fresh) :: r => let '(out, st') := hdraw st key fresh in out :: hrun st' r
    end.

  Fixpoint total (ds : list (N * option (list N))) : N :=
    match ds with
    | [] => 0
    | (_, Some b) :: r => blen b + total r
    | (_, None) :: r => total r
    end.

  (* ---------- proofs ---------- *)

  Lemma evict_noop fuel c size : size <= limit -> evict fuel limit c size = (c, size).
  Proof. intros H. destruct fuel; cbn [evict]; [reflexivity|]. replace (size <=? limit) with true by lia. reflexivity. Qed.

  Lemma c_find_remove_other key k c : k <> key -> c_find k (c_remove key c) = c_find k c.
  Proof.
    intros Hk. induction c as [|[k' v] r IH]; [reflexivity|]. cbn [c_remove c_find].
    destruct (k' =? key) eqn:E1.
    - assert (k' = key) by lia. subst. replace (key =? k) with false by lia. reflexivity.
    - cbn [c_find]. destruct (k' =? k); [reflexivity|exact IH].
  Qed.

  Lemma c_size_remove key c b : c_find key c = Some b -> c_size c = blen b + c_size (c_remove key c).
  Proof.
    induction c as [|[k v] r IH]; [discriminate|]. cbn [c_find c_remove c_size].
    destruct (k =? key); [intros H; inversion H; reflexivity|]. intros H. cbn [c_size]. rewrite (IH H). lia.
  Qed.

  (* invariant: the recorded size is the real one and within the limit *)
  Definition inv (st : hstate) : Prop := snd st = c_size (fst st) /\ snd st <= limit.

  Lemma hdraw_inv st key fresh :
    inv st -> snd st + match fresh with Some b => blen b | None => 0 end <= limit ->
    let '(out, st') := hdraw st key fresh in
    inv st' /\
    snd st' <= snd st + match fresh with Some b => blen b | None => 0 end /\
    (* the entry of this key afterwards is what was written *)
    (fresh <> None \/ c_find key (fst st) <> None -> c_find key (fst st') = Some out) /\
    (* a cached key answers with its cached bytes *)
    (forall b, c_find key (fst st) = Some b -> out = b) /\
    (* other entries are untouched *)
    (forall k, k <> key -> c_find k (fst st') = c_find k (fst st)).
  Proof.
    destruct st as [c size]. intros [Hs Hl] Hroom. cbn [fst snd] in *. unfold hdraw.
    destruct (c_find key c) as [b|] eqn:Ef.
    - unfold inv. cbn [fst snd]. split; [split; [|exact Hl]|].
      + cbn [c_size]. rewrite Hs. apply (c_size_remove key c b Ef).
      + split; [destruct fresh; lia|]. split; [intros _; cbn [c_find]; now rewrite N.eqb_refl|].
        split; [intros b' E; now inversion E|].
        intros k Hk. cbn [c_find]. replace (key =? k) with false by lia. apply c_find_remove_other, Hk.
    - destruct fresh as [b|]; cbn beta iota in Hroom.
      + rewrite evict_noop by lia. unfold inv. cbn [fst snd c_size]. split; [split; lia|].
        split; [lia|]. split; [intros _; cbn [c_find]; now rewrite N.eqb_refl|].
        split; [intros b' E; discriminate|].
        intros k Hk. cbn [c_find]. replace (key =? k) with false by lia. reflexivity.
      + unfold inv. cbn [fst snd]. split; [split; assumption|]. split; [lia|].
        split; [intros [H|H]; congruence|]. split; [intros b' E; discriminate|]. reflexivity.
  Qed.

  (* Repeated draws: as long as everything drawn fits the cache, a draw of a key that
     was drawn before (and produced something) returns exactly the bytes of its
     first draw, whatever a fresh computation would now produce. *)
  Theorem repeat_identical : forall ds st key b,
    inv st -> snd st + total ds <= limit ->
    c_find key (fst st) = Some b ->
    forall i fresh, nth_error ds i = Some (key, fresh) -> nth_error (hrun st ds) i = Some b.
  Proof.
    induction ds as [|[k f] r IH]; intros st key b Hinv Hroom Hfind i fresh Hi; [destruct i; discriminate|].
    cbn [hrun]. pose proof (hdraw_inv st k f Hinv) as H. cbn [total] in Hroom.
    assert (Hr : snd st + match f with Some b0 => blen b0 | None => 0 end <= limit) by (destruct f; lia).
    specialize (H Hr). destruct (hdraw st k f) as [out st'] eqn:Ed.
    destruct H as (Hinv' & Hsz & Hsame & Hhit & Hoth).
    destruct i as [|i].
    - cbn [nth_error] in Hi. inversion Hi; subst k f. cbn [nth_error]. f_equal. apply Hhit, Hfind.
    - cbn [nth_error] in Hi |- *. refine (IH st' key b Hinv' _ _ i fresh Hi); [destruct f; lia|].
      destruct (N.eq_dec k key) as [->|Hne].
      + rewrite Hsame by (right; congruence). f_equal. apply Hhit, Hfind.
      + rewrite Hoth by congruence. exact Hfind.
  Qed.

  (* in particular: the first draw of an image and any later draw of it *)
  Corollary second_draw_identical : forall ds key b i j fresh,
    total ds <= limit ->
    nth_error ds i = Some (key, Some b) ->
    (forall i', (i' < i)%nat -> forall f, nth_error ds i' <> Some (key, f)) ->
    (i < j)%nat -> nth_error ds j = Some (key, fresh) ->
    nth_error (hrun ([], 0) ds) i = Some b /\ nth_error (hrun ([], 0) ds) j = Some b.
  Proof.
    intros ds key b i j fresh Htot Hi Hfirst Hij Hj.
    assert (G : forall ds st i j,
               inv st -> snd st + total ds <= limit -> c_find key (fst st) = None ->
               nth_error ds i = Some (key, Some b) ->
               (forall i', (i' < i)%nat -> forall f, nth_error ds i' <> Some (key, f)) ->
               (i < j)%nat -> nth_error ds j = Some (key, fresh) ->
               nth_error (hrun st ds) i = Some b /\ nth_error (hrun st ds) j = Some b).
    { clear. induction ds as [|[k f] r IH]; intros st i j Hinv Hroom Hnone Hi Hfirst Hij Hj; [destruct i; discriminate|].
      cbn [hrun]. pose proof (hdraw_inv st k f Hinv) as H. cbn [total] in Hroom.
      assert (Hr : snd st + match f with Some b0 => blen b0 | None => 0 end <= limit) by (destruct f; lia).
      specialize (H Hr). destruct (hdraw st k f) as [out st'] eqn:Ed.
      destruct H as (Hinv' & Hsz & Hsame & Hhit & Hoth).
      destruct i as [|i].
      - cbn [nth_error] in Hi. inversion Hi; subst k f.
        assert (out = b).
        { unfold hdraw in Ed. destruct st as [c size]. cbn [fst] in Hnone. rewrite Hnone in Ed. now inversion Ed. }
        subst out. split; [reflexivity|]. destruct j as [|j]; [lia|]. cbn [nth_error] in Hj |- *.
        refine (repeat_identical r st' key b Hinv' _ _ j fresh Hj); [lia|].
        apply Hsame. left. discriminate.
      - destruct j as [|j]; [lia|]. cbn [nth_error] in Hi, Hj |- *.
        assert (Hk : k <> key).
        { intros ->. apply (Hfirst 0%nat ltac:(lia) f). reflexivity. }
        apply (IH st' i j Hinv'); [destruct f; lia| | exact Hi | | lia | exact Hj].
        + rewrite Hoth by congruence. exact Hnone.
        + intros i' Hi' f'. apply (Hfirst (S i') ltac:(lia) f'). }
    apply (G ds ([], 0) i j); try assumption.
    - split; [reflexivity|cbn; lia].
    - reflexivity.
  Qed.
End Handler.
