(* Review item C13#5: the Floyd-Steinberg error slots stay small.  The model keeps the
   errors in sixteenths (Z); the code keeps them in f32.  Invariant proved here: while a row
   is processed every slot of the two error rows holds at most 16*255 sixteenths in
   absolute value (255.0), more precisely
     cur[j]  <= 16*255 for j < col+2,   <= 9*255 for j >= col+2   (the 7/16 share not yet added)
     nxt[j]  <= 9*255 for j < col,  <= 6*255 at col,  <= 255 at col+1,  0 beyond
   and it is re-established by the row swap.  Hence every f32 the code stores is an integer
   multiple of 1/16 below 2^8 in magnitude (12 significant bits), sums `r as f32 + e` stay
   below 2^9, products `error * k/16` are multiples of 1/16 below 2^7: all exactly
   representable in binary32 (24-bit significand), which is the abstraction the model makes. *)
From Coq Require Import List NArith ZArith Bool Lia Arith.
From Coq Require Import ZifyBool ZifyNat ZifyN.
From SNT Require Import Base.Outcome Image.KDTree Image.Quantize.
Import ListNotations.
Local Open Scope Z_scope.

Definition eb (B : Z) (e : err) : Prop :=
  let '(a, b, c) := e in Z.abs a <= B /\ Z.abs b <= B /\ Z.abs c <= B.

Lemma eb_zero B : 0 <= B -> eb B err0.
Proof. intros H. cbn. lia. Qed.

Lemma eb_mono A B e : A <= B -> eb A e -> eb B e.
Proof. destruct e as [[a b] c]. cbn. lia. Qed.

Lemma eb_plus A B x y : eb A x -> eb B y -> eb (A + B) (err_plus x y).
Proof. destruct x as [[a b] c], y as [[d e] f]. cbn. lia. Qed.

Lemma eb_between k c0 c1 :
  0 <= k -> rgb_ok c0 = true -> rgb_ok c1 = true -> eb (k * 255) (err_between k c0 c1).
Proof.
  destruct c0 as [[r0 g0] b0], c1 as [[r1 g1] b1]. unfold rgb_ok, err_between, eb. intros Hk H0 H1.
  assert (r0 < 256 /\ g0 < 256 /\ b0 < 256 /\ r1 < 256 /\ g1 < 256 /\ b1 < 256)%N as (?&?&?&?&?&?) by lia.
  repeat split; nia.
Qed.

Lemma err_apply_ok e c : rgb_ok (err_apply e c) = true.
Proof.
  destruct e as [[a b] d], c as [[r g] bb]. unfold err_apply, rgb_ok, clamp16.
  assert (forall v : Z, N.ltb (Z.to_N ((if v <? 0 then 0 else if v >? 4080 then 4080 else v) / 16)) 256%N = true) as H.
  { intros v. destruct (v <? 0) eqn:E1; [cbn; lia|]. destruct (v >? 4080) eqn:E2; [cbn; lia|].
    assert (0 <= v / 16 < 256) by (split; [apply Z.div_pos; lia|apply Z.div_lt_upper_bound; lia]). lia. }
  rewrite !H. reflexivity.
Qed.

Lemma nth_add_at l : forall k e j,
  nth j (add_at k e l) err0 =
  if (Nat.eqb j k && Nat.ltb k (length l))%bool then err_plus (nth j l err0) e else nth j l err0.
Proof.
  induction l as [|x r IH]; intros k e j.
  - destruct k; cbn [add_at length]; rewrite andb_false_r; reflexivity.
  - destruct k as [|k], j as [|j]; cbn [add_at nth length]; try reflexivity.
    rewrite IH. cbn [Nat.eqb]. replace (Nat.ltb (S k) (S (length r))) with (Nat.ltb k (length r)); [reflexivity|].
    destruct (Nat.ltb k (length r)) eqn:E; symmetry; [apply Nat.ltb_lt; apply Nat.ltb_lt in E; lia|
      apply Nat.ltb_ge; apply Nat.ltb_ge in E; lia].
Qed.

Lemma eb_add_at l k e j A B :
  0 <= B -> eb A (nth j l err0) -> eb B e ->
  eb (if Nat.eqb j k then A + B else A) (nth j (add_at k e l) err0).
Proof.
  intros HB HA He. rewrite nth_add_at. destruct (Nat.eqb j k) eqn:E; cbn [andb].
  - destruct (Nat.ltb k (length l)); [apply eb_plus; assumption|eapply eb_mono; [|exact HA]; lia].
  - exact HA.
Qed.

Definition cur_bound (col j : nat) : Z := if Nat.ltb j (col + 2) then 4080 else 2295.
Definition nxt_bound (col j : nat) : Z :=
  if Nat.ltb j col then 2295 else if Nat.eqb j col then 1530 else if Nat.eqb j (col + 1) then 255 else 0.

Definition slots_ok (col : nat) (cur nxt : list err) : Prop :=
  (forall j, eb (cur_bound col j) (nth j cur err0)) /\ (forall j, eb (nxt_bound col j) (nth j nxt err0)).

Section Row.
  Variable find : rgb -> outcome (N * rgb).
  Hypothesis find_ok : forall q i c, find q = Ok (i, c) -> rgb_ok c = true.

  (* one row with dithering: the invariant travels from column to column *)
  Lemma quant_row_slots px : forall col cur nxt ixs cur' nxt',
    Forall (fun c => rgb_ok c = true) px ->
    slots_ok col cur nxt ->
    quant_row find true col px cur nxt = Ok (ixs, cur', nxt') ->
    slots_ok (col + length px) cur' nxt'.
  Proof.
    induction px as [|c rest IH]; intros col cur nxt ixs cur' nxt' Hpx Hinv H; cbn [quant_row] in H.
    - inversion H; subst. cbn [length]. now rewrite Nat.add_0_r.
    - inversion Hpx as [|? ? Hc Hrest]; subst.
      set (c1 := err_apply (nth (col + 1) cur err0) c) in H.
      destruct (find c1) as [[qi qc]| | |] eqn:Ef; cbn [bind] in H; try discriminate.
      pose proof (find_ok _ _ _ Ef) as Hqc. pose proof (err_apply_ok (nth (col + 1) cur err0) c) as Hc1. fold c1 in Hc1.
      match type of H with context [quant_row find true (S col) rest ?a ?b] =>
        destruct (quant_row find true (S col) rest a b) as [[[ixs0 cu0] nx0]| | |] eqn:Er; cbn [bind] in H; try discriminate;
        specialize (IH (S col) a b ixs0 cu0 nx0 Hrest) end.
      inversion H; subst. cbn [length]. replace (col + S (length rest))%nat with (S col + length rest)%nat by lia.
      apply IH; [|exact Er]. destruct Hinv as [Hcur Hnxt]. split; intros j.
      + pose proof (eb_add_at cur (col + 2) (err_between 7 c1 qc) j _ (7 * 255) ltac:(lia) (Hcur j)
                      (eb_between 7 c1 qc ltac:(lia) Hc1 Hqc)) as Hb.
        eapply eb_mono; [|exact Hb]. unfold cur_bound.
        destruct (Nat.eqb j (col + 2)) eqn:E1; destruct (Nat.ltb j (col + 2)) eqn:E2;
          destruct (Nat.ltb j (S col + 2)) eqn:E3; try lia;
          repeat match goal with
                 | H : Nat.eqb _ _ = true |- _ => apply Nat.eqb_eq in H
                 | H : Nat.eqb _ _ = false |- _ => apply Nat.eqb_neq in H
                 | H : Nat.ltb _ _ = true |- _ => apply Nat.ltb_lt in H
                 | H : Nat.ltb _ _ = false |- _ => apply Nat.ltb_ge in H
                 end; lia.
      + pose proof (eb_add_at nxt col (err_between 3 c1 qc) j _ (3 * 255) ltac:(lia) (Hnxt j)
                      (eb_between 3 c1 qc ltac:(lia) Hc1 Hqc)) as H3.
        pose proof (eb_add_at _ (col + 1) (err_between 5 c1 qc) j _ (5 * 255) ltac:(lia) H3
                      (eb_between 5 c1 qc ltac:(lia) Hc1 Hqc)) as H5.
        pose proof (eb_add_at _ (col + 2) (err_between 1 c1 qc) j _ (1 * 255) ltac:(lia) H5
                      (eb_between 1 c1 qc ltac:(lia) Hc1 Hqc)) as H1.
        eapply eb_mono; [|exact H1]. unfold nxt_bound.
        destruct (Nat.eqb j col) eqn:E1; destruct (Nat.eqb j (col + 1)) eqn:E2; destruct (Nat.eqb j (col + 2)) eqn:E3;
          destruct (Nat.ltb j col) eqn:E4; destruct (Nat.ltb j (S col)) eqn:E5; destruct (Nat.eqb j (S col)) eqn:E6;
          destruct (Nat.eqb j (S col + 1)) eqn:E7;
          repeat match goal with
                 | H : Nat.eqb _ _ = true |- _ => apply Nat.eqb_eq in H
                 | H : Nat.eqb _ _ = false |- _ => apply Nat.eqb_neq in H
                 | H : Nat.ltb _ _ = true |- _ => apply Nat.ltb_lt in H
                 | H : Nat.ltb _ _ = false |- _ => apply Nat.ltb_ge in H
                 end; lia.
  Qed.
End Row.

(* the row swap (`errors[col] = errors[col + ewidth]; errors[col + ewidth] = 0`) re-establishes
   the invariant for column 0, and it holds initially (all zero) *)
Lemma swap_slots col cur nxt ew : slots_ok col cur nxt -> slots_ok 0 nxt (repeat err0 ew).
Proof.
  intros [_ Hnxt]. split; intros j.
  - eapply eb_mono; [|exact (Hnxt j)]. unfold cur_bound, nxt_bound.
    destruct (Nat.ltb j col), (Nat.eqb j col), (Nat.eqb j (col + 1)), (Nat.ltb j (0 + 2)); lia.
  - assert (nth j (repeat err0 ew) err0 = err0) as ->.
    { destruct (Nat.lt_ge_cases j ew) as [H|H]; [|apply nth_overflow; rewrite repeat_length; lia].
      generalize (nth_In (repeat err0 ew) err0 (n := j)). rewrite repeat_length. intros G.
      apply (repeat_spec _ _ _ (G H)). }
    apply eb_zero. unfold nxt_bound. destruct (Nat.ltb j 0), (Nat.eqb j 0), (Nat.eqb j (0 + 1)); lia.
Qed.

Lemma initial_slots ew : slots_ok 0 (repeat err0 ew) (repeat err0 ew).
Proof.
  assert (forall j, nth j (repeat err0 ew) err0 = err0) as Hz.
  { intros j. destruct (Nat.lt_ge_cases j ew) as [H|H]; [|apply nth_overflow; rewrite repeat_length; lia].
    generalize (nth_In (repeat err0 ew) err0 (n := j)). rewrite repeat_length. intros G.
    apply (repeat_spec _ _ _ (G H)). }
  split; intros j; rewrite Hz; apply eb_zero.
  - unfold cur_bound. destruct (Nat.ltb j (0 + 2)); lia.
  - unfold nxt_bound. destruct (Nat.ltb j 0), (Nat.eqb j 0), (Nat.eqb j (0 + 1)); lia.
Qed.

(* every slot is within 255.0 (4080 sixteenths) at all times *)
Corollary slots_within_255 col cur nxt :
  slots_ok col cur nxt -> forall j, eb 4080 (nth j cur err0) /\ eb 4080 (nth j nxt err0).
Proof.
  intros [Hc Hn] j. split; (eapply eb_mono; [|first [exact (Hc j)|exact (Hn j)]]).
  - unfold cur_bound. destruct (Nat.ltb j (col + 2)); lia.
  - unfold nxt_bound. destruct (Nat.ltb j col), (Nat.eqb j col), (Nat.eqb j (col + 1)); lia.
Qed.
