(* OcTreePath as coded (one u32 holding r,g,b; `state & 0x808080`, `(state << 1) & 0xfefefe`,
   `((bits >> 21) | (bits >> 14) | (bits >> 7)) & 7`) equals the lane-wise path the
   theorems use, for EVERY colour: bitwise operations distribute over the three lanes
   (land/shift over lor), and each lane is settled by a complete sweep of its 256 values. *)
From Coq Require Import List NArith Bool Lia.
From Coq Require Import ZifyBool ZifyNat ZifyN.
From SNT Require Import Base.Sweep Base.Outcome Image.KDTree Image.Octree.
Import ListNotations.
Local Open Scope N_scope.

Definition pack (r g b : N) : N := N.lor (N.lor (N.shiftl r 16) (N.shiftl g 8)) b.

Ltac lane_sweep x Hx P :=
  let H := fresh "H" in
  assert (H : sweep1 256 P = true) by (vm_compute; reflexivity);
  let Hx' := fresh "Hx" in
  assert (Hx' : x < N.of_nat 256) by (change (N.of_nat 256) with 256; exact Hx);
  let Hz := fresh "Hz" in
  pose proof (sweep1_sound 256 _ H x Hx') as Hz; cbv beta in Hz; lia.

Definition M : N := 0x808080.
Definition F : N := 0xfefefe.

Lemma laneA_bits x : x < 256 -> N.land (N.shiftl x 16) M = N.shiftl (N.land x 128) 16.
Proof. intros Hx. lane_sweep x Hx (fun x => N.land (N.shiftl x 16) M =? N.shiftl (N.land x 128) 16). Qed.
Lemma laneB_bits x : x < 256 -> N.land (N.shiftl x 8) M = N.shiftl (N.land x 128) 8.
Proof. intros Hx. lane_sweep x Hx (fun x => N.land (N.shiftl x 8) M =? N.shiftl (N.land x 128) 8). Qed.
Lemma laneC_bits x : x < 256 -> N.land x M = N.land x 128.
Proof. intros Hx. lane_sweep x Hx (fun x => N.land x M =? N.land x 128). Qed.

Lemma laneA_next x : x < 256 -> N.land (N.shiftl (N.shiftl x 16) 1) F = N.shiftl ((2 * x) mod 256) 16.
Proof. intros Hx. lane_sweep x Hx (fun x => N.land (N.shiftl (N.shiftl x 16) 1) F =? N.shiftl ((2 * x) mod 256) 16). Qed.
Lemma laneB_next x : x < 256 -> N.land (N.shiftl (N.shiftl x 8) 1) F = N.shiftl ((2 * x) mod 256) 8.
Proof. intros Hx. lane_sweep x Hx (fun x => N.land (N.shiftl (N.shiftl x 8) 1) F =? N.shiftl ((2 * x) mod 256) 8). Qed.
Lemma laneC_next x : x < 256 -> N.land (N.shiftl x 1) F = (2 * x) mod 256.
Proof. intros Hx. lane_sweep x Hx (fun x => N.land (N.shiftl x 1) F =? (2 * x) mod 256). Qed.

(* the index contribution of one lane's top bit at each of the three shifts *)
Definition ix (v : N) (k : N) : N := N.land (N.shiftr v k) 7.

Lemma laneA_ix x : x < 256 ->
  ix (N.shiftl (N.land x 128) 16) 21 = 4 * (x / 128) /\ ix (N.shiftl (N.land x 128) 16) 14 = 0 /\
  ix (N.shiftl (N.land x 128) 16) 7 = 0.
Proof.
  intros Hx. repeat split.
  - lane_sweep x Hx (fun x => ix (N.shiftl (N.land x 128) 16) 21 =? 4 * (x / 128)).
  - lane_sweep x Hx (fun x => ix (N.shiftl (N.land x 128) 16) 14 =? 0).
  - lane_sweep x Hx (fun x => ix (N.shiftl (N.land x 128) 16) 7 =? 0).
Qed.
Lemma laneB_ix x : x < 256 ->
  ix (N.shiftl (N.land x 128) 8) 21 = 0 /\ ix (N.shiftl (N.land x 128) 8) 14 = 2 * (x / 128) /\
  ix (N.shiftl (N.land x 128) 8) 7 = 0.
Proof.
  intros Hx. repeat split.
  - lane_sweep x Hx (fun x => ix (N.shiftl (N.land x 128) 8) 21 =? 0).
  - lane_sweep x Hx (fun x => ix (N.shiftl (N.land x 128) 8) 14 =? 2 * (x / 128)).
  - lane_sweep x Hx (fun x => ix (N.shiftl (N.land x 128) 8) 7 =? 0).
Qed.
Lemma laneC_ix x : x < 256 ->
  ix (N.land x 128) 21 = 0 /\ ix (N.land x 128) 14 = 0 /\ ix (N.land x 128) 7 = x / 128.
Proof.
  intros Hx. repeat split.
  - lane_sweep x Hx (fun x => ix (N.land x 128) 21 =? 0).
  - lane_sweep x Hx (fun x => ix (N.land x 128) 14 =? 0).
  - lane_sweep x Hx (fun x => ix (N.land x 128) 7 =? x / 128).
Qed.

Lemma ix_lor a b k : ix (N.lor a b) k = N.lor (ix a k) (ix b k).
Proof. unfold ix. now rewrite N.shiftr_lor, N.land_lor_distr_l. Qed.

Lemma packed_step_pack r g b :
  r < 256 -> g < 256 -> b < 256 ->
  packed_step (pack r g b)
  = (fst (path_step (r, g, b)),
     pack ((2 * r) mod 256) ((2 * g) mod 256) ((2 * b) mod 256)).
Proof.
  intros Hr Hg Hb. unfold packed_step, pack. f_equal.
  - (* the index *)
    cbn [path_step fst]. f_equal.
    change (N.land (N.lor (N.lor (N.shiftl r 16) (N.shiftl g 8)) b) 8421504)
      with (N.land (N.lor (N.lor (N.shiftl r 16) (N.shiftl g 8)) b) M).
    rewrite !N.land_lor_distr_l, (laneA_bits r Hr), (laneB_bits g Hg), (laneC_bits b Hb).
    set (A := N.shiftl (N.land r 128) 16). set (B := N.shiftl (N.land g 128) 8). set (C := N.land b 128).
    fold (ix (N.lor (N.lor A B) C) 21) (ix (N.lor (N.lor A B) C) 14) (ix (N.lor (N.lor A B) C) 7).
    rewrite !ix_lor. subst A B C.
    destruct (laneA_ix r Hr) as (-> & -> & ->). destruct (laneB_ix g Hg) as (-> & -> & ->).
    destruct (laneC_ix b Hb) as (-> & -> & ->).
    assert (Ha : r / 128 = 0 \/ r / 128 = 1) by (assert (r / 128 < 2) by (apply N.div_lt_upper_bound; lia); lia).
    assert (Hbb : g / 128 = 0 \/ g / 128 = 1) by (assert (g / 128 < 2) by (apply N.div_lt_upper_bound; lia); lia).
    assert (Hc : b / 128 = 0 \/ b / 128 = 1) by (assert (b / 128 < 2) by (apply N.div_lt_upper_bound; lia); lia).
    destruct Ha as [-> | ->], Hbb as [-> | ->], Hc as [-> | ->]; reflexivity.
  - (* the next state *)
    change 16711422 with F.
    rewrite !N.shiftl_lor, !N.land_lor_distr_l, (laneA_next r Hr), (laneB_next g Hg), (laneC_next b Hb).
    reflexivity.
Qed.

Lemma packed_n_pack n : forall r g b,
  r < 256 -> g < 256 -> b < 256 -> packed_n n (pack r g b) = path_n n (r, g, b).
Proof.
  induction n as [|n IH]; intros r g b Hr Hg Hb; [reflexivity|].
  cbn [packed_n path_n]. rewrite (packed_step_pack r g b Hr Hg Hb).
  destruct (path_step (r, g, b)) as [i c'] eqn:E. cbn [fst]. unfold path_step in E. inversion E; subst.
  f_equal. apply IH; apply N.mod_upper_bound; lia.
Qed.

(* the packed iterator of the code and the lane-wise path agree on every colour *)
Theorem path_packed_eq : forall c, rgb_ok c = true -> path_packed c = path_of c.
Proof.
  intros [[r g] b] H. unfold rgb_ok in H. unfold path_packed, path_of.
  apply (packed_n_pack 8); lia.
Qed.
