(* C12 proofs, part 4: which pixels the decoded events cover.  An event (x, y, v) is in
   the decoded picture iff the index image has, at row y and column x, a colour c that
   occurs in the iteration order of its band, and v is the colour of register c.  With
   iteration orders that enumerate the colours present (any such order), every pixel of
   the raster is painted with its palette colour and nothing else is painted. *)
From Coq Require Import List NArith Bool Lia Arith.
From Coq Require Import ZifyBool ZifyNat ZifyN.
From SNT Require Import Base.Outcome Image.KDTree Image.Sixel Image.SixelInterp Image.SixelStrip Image.SixelBody.
Import ListNotations.
Local Open Scope N_scope.

Arguments N.add : simpl never.
Arguments N.sub : simpl never.
Arguments N.mul : simpl never.
Arguments N.div : simpl never.
Arguments N.modulo : simpl never.
Arguments N.pow : simpl never.

(* ---------- bits of a column ---------- *)

Lemma div2_bit b m : b < 2 -> N.div2 (b + 2 * m) = m.
Proof.
  intros Hb. rewrite N.div2_div. replace (b + 2 * m) with (b + m * 2) by lia.
  rewrite N.div_add by lia. rewrite N.div_small by lia. lia.
Qed.

Lemma odd_bit b m : b < 2 -> N.odd (b + 2 * m) = (b =? 1).
Proof.
  intros Hb. rewrite N.odd_add_mul_2. assert (b = 0 \/ b = 1) as [-> | ->] by lia; reflexivity.
Qed.

Lemma paint_bits_In n : forall x y v c colm e,
  In e (paint_bits x y v (col_code c colm) n) <->
  exists i, (i < n)%nat /\ nth_error colm i = Some c /\ e = (x, y + N.of_nat i, v).
Proof.
  induction n as [|n IH]; intros x y v c colm e.
  - cbn [paint_bits]. split; [intros []|intros (i & Hi & _); lia].
  - cbn [paint_bits]. rewrite in_app_iff. destruct colm as [|a r].
    + change (col_code c []) with 0. change (N.odd 0) with false. change (N.div2 0) with 0.
      change 0 with (col_code c []) at 1. rewrite IH. split.
      * intros [[]|(i & Hi & Hn & _)]. destruct i; discriminate.
      * intros (i & Hi & Hn & _). destruct i; discriminate.
    + cbn [col_code]. set (b := if a =? c then 1 else 0).
      assert (Hb : b < 2) by (subst b; destruct (a =? c); lia).
      rewrite (odd_bit b _ Hb), (div2_bit b _ Hb), IH. split.
      * intros [H|(i & Hi & Hn & He)].
        -- destruct (b =? 1) eqn:E; [|destruct H]. destruct H as [<-|[]].
           exists 0%nat. split; [lia|]. split; [|f_equal; f_equal; lia].
           cbn [nth_error]. f_equal. subst b. destruct (a =? c) eqn:E2; [lia|discriminate].
        -- exists (S i). split; [lia|]. split; [exact Hn|]. rewrite He. f_equal. f_equal. lia.
      * intros (i & Hi & Hn & He). destruct i as [|i].
        -- left. cbn [nth_error] in Hn. inversion Hn; subst a.
           subst b. replace (c =? c) with true by lia. cbn. left. rewrite He. f_equal. f_equal. lia.
        -- right. exists i. split; [lia|]. split; [exact Hn|]. rewrite He. f_equal. f_equal. lia.
Qed.

Lemma existsb_nth_error c colm :
  existsb (N.eqb c) colm = false -> forall i, nth_error colm i <> Some c.
Proof.
  intros H i Hn. apply nth_error_In in Hn.
  assert (existsb (N.eqb c) colm = true) by (apply existsb_exists; exists c; split; [exact Hn|lia]). congruence.
Qed.

Lemma strip_events_In c : forall cols col y v e,
  In e (entries_events y v (strip_entries 63 c col cols)) <->
  exists j i colm, nth_error cols j = Some colm /\ (i < 6)%nat /\ nth_error colm i = Some c /\
                   e = (col + N.of_nat j, y + N.of_nat i, v).
Proof.
  induction cols as [|colm r IH]; intros col y v e; cbn [strip_entries].
  - split; [intros []|intros (j & i & cm & Hn & _)]. destruct j; discriminate.
  - destruct (existsb (N.eqb c) colm) eqn:Ex.
    + unfold entries_events. cbn [flat_map]. fold (entries_events y v (strip_entries 63 c (col + 1) r)).
      rewrite in_app_iff, IH. unfold entry_events. cbn [fst snd].
      replace (col_code c colm + 63 - 63) with (col_code c colm) by lia. rewrite paint_bits_In. split.
      * intros [(i & Hi & Hn & He)|(j & i & cm & Hj & Hi & Hn & He)].
        -- exists 0%nat, i, colm. repeat split; try assumption. rewrite He. f_equal. f_equal. lia.
        -- exists (S j), i, cm. repeat split; try assumption. rewrite He. f_equal. f_equal. lia.
      * intros (j & i & cm & Hj & Hi & Hn & He). destruct j as [|j].
        -- left. cbn [nth_error] in Hj. inversion Hj; subst cm. exists i. repeat split; try assumption.
           rewrite He. f_equal. f_equal. lia.
        -- right. exists j, i, cm. repeat split; try assumption. rewrite He. f_equal. f_equal. lia.
    + rewrite IH. split.
      * intros (j & i & cm & Hj & Hi & Hn & He). exists (S j), i, cm. repeat split; try assumption.
        rewrite He. f_equal. f_equal. lia.
      * intros (j & i & cm & Hj & Hi & Hn & He). destruct j as [|j].
        -- cbn [nth_error] in Hj. inversion Hj; subst cm. exfalso. exact (existsb_nth_error _ _ Ex i Hn).
        -- exists j, i, cm. repeat split; try assumption. rewrite He. f_equal. f_equal. lia.
Qed.

(* ---------- columns = transpose ---------- *)

Lemma heads_eq rows : heads rows = map (fun r => nth 0 r 0) rows.
Proof. induction rows as [|[|x r] rs IH]; cbn [heads map nth]; f_equal; assumption. Qed.

Lemma columns_eq w : forall rows,
  columns w rows = map (fun j => map (fun r => nth j r 0) rows) (seq 0 w).
Proof.
  induction w as [|w IH]; intros rows; [reflexivity|]. cbn [columns seq map].
  rewrite heads_eq. f_equal. rewrite IH, <- seq_shift, map_map. apply map_ext. intros j.
  unfold tails. rewrite map_map. apply map_ext. intros r. destruct r; [destruct j; reflexivity|reflexivity].
Qed.

Lemma columns_cell w rows j i colm c :
  nth_error (columns w rows) j = Some colm -> nth_error colm i = Some c ->
  (j < w)%nat /\ exists row, nth_error rows i = Some row /\ nth j row 0 = c.
Proof.
  rewrite columns_eq. intros Hj Hi.
  assert (Hjw : (j < w)%nat).
  { assert (nth_error (map (fun j => map (fun r => nth j r 0) rows) (seq 0 w)) j <> None) by congruence.
    apply nth_error_Some in H. now rewrite map_length, seq_length in H. }
  split; [exact Hjw|].
  rewrite nth_error_map in Hj. rewrite nth_error_nth' with (d := 0%nat) in Hj by (rewrite seq_length; lia).
  rewrite seq_nth in Hj by lia. cbn in Hj. inversion Hj; subst colm.
  rewrite nth_error_map in Hi. destruct (nth_error rows i) as [row|]; [|discriminate].
  cbn in Hi. inversion Hi. eauto.
Qed.

Lemma columns_cell_rev w rows j i row :
  (j < w)%nat -> nth_error rows i = Some row ->
  exists colm, nth_error (columns w rows) j = Some colm /\ nth_error colm i = Some (nth j row 0).
Proof.
  intros Hj Hi. rewrite columns_eq. exists (map (fun r => nth j r 0) rows). split.
  - rewrite nth_error_map, nth_error_nth' with (d := 0%nat) by (rewrite seq_length; lia).
    rewrite seq_nth by lia. reflexivity.
  - rewrite nth_error_map, Hi. reflexivity.
Qed.

(* ---------- bands ---------- *)

Lemma nth_error_firstn_lt {A} (l : list A) n i : (i < n)%nat -> nth_error (firstn n l) i = nth_error l i.
Proof.
  revert l i. induction n as [|n IH]; intros l i H; [lia|].
  destruct l as [|x r]; [now destruct i|]. destruct i; [reflexivity|]. cbn. apply IH. lia.
Qed.

Lemma nth_error_firstn_ge {A} (l : list A) n i : (n <= i)%nat -> nth_error (firstn n l) i = None.
Proof. intros H. apply nth_error_None. rewrite firstn_length. lia. Qed.

Lemma nth_error_skipn_add {A} (l : list A) m i : nth_error (skipn m l) i = nth_error l (m + i).
Proof.
  revert l. induction m as [|m IH]; intros l; [reflexivity|].
  destruct l as [|x r]; [now destruct i|]. cbn. apply IH.
Qed.

Lemma skipn_add {A} (l : list A) m n : skipn (m + n) l = skipn n (skipn m l).
Proof.
  revert l. induction m as [|m IH]; intros l; [reflexivity|].
  destruct l as [|x r]; [now rewrite !skipn_nil|]. cbn. apply IH.
Qed.

Lemma bands_nth n : forall q k b,
  nth_error (bands n q) k = Some b -> b = firstn 6 (skipn (6 * k) q) /\ skipn (6 * k) q <> [].
Proof.
  induction n as [|n IH]; intros q k b H; [destruct k; discriminate|].
  cbn [bands] in H. destruct q as [|r0 q']; [destruct k; discriminate|].
  destruct k as [|k].
  - cbn [nth_error] in H. inversion H. split; [reflexivity|discriminate].
  - cbn [nth_error] in H. destruct (IH _ _ _ H) as [Hb Hne].
    replace (6 * S k)%nat with (6 + 6 * k)%nat by lia. rewrite skipn_add. split; assumption.
Qed.

Lemma bands_nth_rev n : forall q k,
  (6 * k < length q)%nat -> (k < n)%nat ->
  nth_error (bands n q) k = Some (firstn 6 (skipn (6 * k) q)).
Proof.
  induction n as [|n IH]; intros q k Hk Hn; [lia|].
  cbn [bands]. destruct q as [|r0 q']; [cbn in Hk; lia|].
  destruct k as [|k]; [reflexivity|]. cbn [nth_error].
  rewrite IH.
  - replace (6 * S k)%nat with (6 + 6 * k)%nat by lia. now rewrite skipn_add.
  - rewrite skipn_length. lia.
  - lia.
Qed.

Lemma bands_short n : forall q, Forall (fun b => (length b <= 6)%nat) (bands n q).
Proof.
  induction n as [|n IH]; intros q; cbn [bands]; [constructor|].
  destruct q as [|r0 q']; [constructor|]. constructor; [apply firstn_le_length|apply IH].
Qed.

Lemma band_row (q : list (list N)) k i :
  (i < 6)%nat -> nth_error (firstn 6 (skipn (6 * k) q)) i = nth_error q (6 * k + i).
Proof. intros H. rewrite nth_error_firstn_lt by exact H. apply nth_error_skipn_add. Qed.

(* ---------- events of a band / of the body ---------- *)

Section Events.
  Variable V : N -> rgb.

  Lemma band_events_In y order cols e :
    In e (band_events V y order cols) <->
    exists c, In c order /\ In e (entries_events y (V c) (strip_entries 63 c 0 cols)).
  Proof. unfold band_events. apply in_flat_map. Qed.

  Lemma body_events_In w bs : forall y orders e,
    In e (body_events V w y orders bs) <->
    exists k b, nth_error bs k = Some b /\
                In e (band_events V (y + 6 * N.of_nat k) (nth k orders []) (columns w b)).
  Proof.
    induction bs as [|b r IH]; intros y orders e; cbn [body_events].
    - split; [intros []|intros (k & b & Hk & _)]. destruct k; discriminate.
    - rewrite in_app_iff, IH. split.
      + intros [H|(k & b' & Hk & H)].
        * exists 0%nat, b. split; [reflexivity|]. replace (y + 6 * N.of_nat 0) with y by lia.
          destruct orders; exact H.
        * exists (S k), b'. split; [exact Hk|]. replace (y + 6 * N.of_nat (S k)) with (y + 6 + 6 * N.of_nat k) by lia.
          destruct orders as [|o os]; [destruct k; exact H|exact H].
      + intros (k & b' & Hk & H). destruct k as [|k].
        * left. cbn [nth_error] in Hk. inversion Hk; subst b'. replace (y + 6 * N.of_nat 0) with y in H by lia.
          destruct orders; exact H.
        * right. exists k, b'. split; [exact Hk|]. replace (y + 6 * N.of_nat (S k)) with (y + 6 + 6 * N.of_nat k) in H by lia.
          destruct orders as [|o os]; [destruct k; exact H|exact H].
  Qed.

  Variable w : nat.
  Variable q : list (list N).
  Variable orders : list (list N).

  Definition all_events : list (N * N * rgb) := body_events V w 0 orders (bands (length q) q).

  Lemma events_sound x y v :
    In (x, y, v) all_events ->
    exists row c, nth_error q (N.to_nat y) = Some row /\ (N.to_nat x < w)%nat /\
                  nth (N.to_nat x) row 0 = c /\ v = V c /\ In c (nth (N.to_nat y / 6) orders []).
  Proof.
    unfold all_events. rewrite body_events_In. intros (k & b & Hk & H).
    apply band_events_In in H. destruct H as (c & Hc & H).
    apply strip_events_In in H. destruct H as (j & i & colm & Hj & Hi & Hn & He).
    destruct (columns_cell _ _ _ _ _ _ Hj Hn) as (Hjw & row & Hrow & Hcell).
    destruct (bands_nth _ _ _ _ Hk) as [Hb _]. subst b. rewrite band_row in Hrow by exact Hi.
    inversion He; subst x y v. exists row, c.
    replace (N.to_nat (0 + 6 * N.of_nat k + N.of_nat i)) with (6 * k + i)%nat by lia.
    replace (N.to_nat (0 + N.of_nat j)) with j by lia.
    split; [exact Hrow|]. split; [exact Hjw|]. split; [exact Hcell|]. split; [reflexivity|].
    replace ((6 * k + i) / 6)%nat with k; [exact Hc|].
    apply Nat.div_unique with i; lia.
  Qed.

  Lemma events_complete xn yn row :
    nth_error q yn = Some row -> (xn < w)%nat ->
    In (nth xn row 0) (nth (yn / 6) orders []) ->
    In (N.of_nat xn, N.of_nat yn, V (nth xn row 0)) all_events.
  Proof.
    intros Hrow Hx Hc. unfold all_events. rewrite body_events_In.
    set (k := (yn / 6)%nat). set (i := (yn mod 6)%nat).
    assert (Hy : yn = (6 * k + i)%nat) by (subst k i; apply Nat.div_mod; lia).
    assert (Hi : (i < 6)%nat) by (subst i; apply Nat.mod_upper_bound; lia).
    assert (Hlen : (yn < length q)%nat) by (apply nth_error_Some; congruence).
    exists k, (firstn 6 (skipn (6 * k) q)). split; [apply bands_nth_rev; lia|].
    apply band_events_In. exists (nth xn row 0). split; [exact Hc|].
    apply strip_events_In.
    assert (Hrow' : nth_error (firstn 6 (skipn (6 * k) q)) i = Some row) by (rewrite band_row by exact Hi; now rewrite <- Hy).
    destruct (columns_cell_rev w _ xn i row Hx Hrow') as (colm & Hcm & Hcn).
    exists xn, i, colm. split; [exact Hcm|]. split; [exact Hi|]. split; [exact Hcn|].
    replace (0 + N.of_nat xn) with (N.of_nat xn) by lia.
    replace (0 + 6 * N.of_nat k + N.of_nat i) with (N.of_nat yn) by lia. reflexivity.
  Qed.
End Events.

(* ---------- iteration orders that enumerate the colours present ---------- *)

Lemma order_ok_spec o b :
  order_ok o b = true ->
  (forall c, In c o -> In c (concat b)) /\ (forall c, In c (concat b) -> In c o).
Proof.
  unfold order_ok. rewrite !andb_true_iff, !forallb_forall. intros [[_ H1] H2]. split.
  - intros c Hc. specialize (H1 c Hc). apply existsb_exists in H1. destruct H1 as (x & Hx & E).
    assert (c = x) by lia. now subst.
  - intros c Hc. specialize (H2 c Hc). apply existsb_exists in H2. destruct H2 as (x & Hx & E).
    assert (c = x) by lia. now subst.
Qed.

Lemma Forall2_nth_error {A B} (P : A -> B -> Prop) la lb k b (d : A) :
  Forall2 P la lb -> nth_error lb k = Some b -> P (nth k la d) b.
Proof.
  intros H. revert k. induction H as [|x y la' lb' Hxy H IH]; intros k Hk; [destruct k; discriminate|].
  destruct k as [|k]; [cbn in *; now inversion Hk; subst|]. cbn in *. apply IH, Hk.
Qed.

Lemma Forall2_len {A B} (P : A -> B -> Prop) la lb : Forall2 P la lb -> length la = length lb.
Proof. induction 1; cbn; congruence. Qed.

(* ---------- registers ---------- *)

Section Regs.
  Variable scale : N -> N.

  Lemma regs_of_ids pal : forall i regs0 k v,
    In (k, v) (regs_of scale i pal regs0) -> In (k, v) regs0 \/ (i <= k < i + N.of_nat (length pal)).
  Proof.
    induction pal as [|[[r g] b] rest IH]; intros i regs0 k v H; cbn [regs_of] in H; [now left|].
    destruct (IH _ _ _ _ H) as [[E|H1]|H1].
    - right. inversion E; subst. cbn [length]. lia.
    - now left.
    - right. cbn [length]. lia.
  Qed.

  Lemma regs_of_length pal : forall i regs0,
    length (regs_of scale i pal regs0) = (length pal + length regs0)%nat.
  Proof.
    induction pal as [|[[r g] b] rest IH]; intros i regs0; cbn [regs_of length]; [reflexivity|].
    rewrite IH. cbn [length]. lia.
  Qed.

  Lemma nodup_length_le (l : list N) : (length (nodup N.eq_dec l) <= length l)%nat.
  Proof.
    induction l as [|x r IH]; [reflexivity|]. cbn [nodup]. destruct (in_dec N.eq_dec x r); cbn [length]; lia.
  Qed.

  Lemma regs_ok_palette pal :
    (length pal <= 256)%nat -> regs_ok (regs_of scale 0 pal []) = true.
  Proof.
    intros H. unfold regs_ok. apply andb_true_iff. split.
    - apply Nat.leb_le. eapply Nat.le_trans; [apply nodup_length_le|].
      rewrite map_length, regs_of_length. cbn [length]. lia.
    - apply forallb_forall. intros k Hk. apply nodup_In in Hk. apply in_map_iff in Hk.
      destruct Hk as ([k' v] & E & Hin). cbn in E. subst k'.
      destruct (regs_of_ids _ _ _ _ _ Hin) as [[]|Hr]. lia.
  Qed.
End Regs.

(* ---------- the round trip ---------- *)

Definition reg_color (scale : N -> N) (pal : list rgb) (c : N) : rgb :=
  match nth_error pal (N.to_nat c) with Some p => map3 scale p | None => (0, 0, 0) end.

Theorem sixel_roundtrip shift_min repeat_min scale pal q w orders :
  (forall x, scale x <= 100) ->
  Forall (fun row => length row = w) q ->
  Forall (Forall (fun c => c < N.of_nat (length pal))) q ->
  Forall2 (fun o b => order_ok o b = true) orders (bands (length q) q) ->
  exists bytes pic,
    encode shift_min repeat_min 63 scale pal q w orders = Ok bytes /\
    sixel_decode bytes = Some pic /\
    p_width pic = N.of_nat w /\ p_height pic = N.of_nat (length q) /\
    p_regs pic = regs_of scale 0 pal [] /\
    (* nothing but the pixels of the image, each with its palette colour *)
    (forall x y v, In (x, y, v) (p_events pic) ->
       exists row c, nth_error q (N.to_nat y) = Some row /\ nth_error row (N.to_nat x) = Some c /\
                     v = reg_color scale pal c) /\
    (* every pixel of the raster is painted *)
    (forall xn yn row, nth_error q yn = Some row -> (xn < w)%nat ->
       exists v, In (N.of_nat xn, N.of_nat yn, v) (p_events pic)).
Proof.
  intros Hsc Hrect Hidx Hord.
  set (V := reg_color scale pal).
  assert (Hrow_in : forall yn row, nth_error q yn = Some row -> In row q) by (intros; eapply nth_error_In; eauto).
  (* a colour listed in the order of band k occurs in the image *)
  assert (Hoc : forall k b c, nth_error (bands (length q) q) k = Some b -> In c (nth k orders []) ->
                              c < N.of_nat (length pal)).
  { intros k b c Hk Hc. pose proof (Forall2_nth_error _ _ _ _ _ [] Hord Hk) as Hok. cbn beta in Hok.
    destruct (order_ok_spec _ _ Hok) as [H1 _]. specialize (H1 c Hc).
    apply in_concat in H1. destruct H1 as (row & Hrow & Hcr).
    destruct (bands_nth _ _ _ _ Hk) as [-> _].
    assert (In row q).
    { apply In_nth_error in Hrow. destruct Hrow as (i & Hi).
      assert (i < 6)%nat.
      { assert (nth_error (firstn 6 (skipn (6 * k) q)) i <> None) by congruence.
        apply nth_error_Some in H. rewrite firstn_length in H. lia. }
      rewrite band_row in Hi by assumption. eapply nth_error_In, Hi. }
    rewrite Forall_forall in Hidx. specialize (Hidx row H). rewrite Forall_forall in Hidx. apply Hidx, Hcr. }
  destruct (encode_run shift_min repeat_min scale Hsc V pal q w orders (bands_short _ _)) as (bytes & Hb & Hd).
  - intros o c Ho Hc. apply In_nth with (d := []) in Ho. destruct Ho as (k & Hk & <-).
    apply Forall2_len in Hord.
    assert (exists b, nth_error (bands (length q) q) k = Some b) as (b & Hkb).
    { destruct (nth_error (bands (length q) q) k) eqn:E; [eauto|]. apply nth_error_None in E. lia. }
    eapply Hoc; eauto.
  - intros c _. reflexivity.
  - eexists. eexists. split; [exact Hb|]. split; [exact Hd|]. cbn [p_width p_height p_regs p_events].
    split; [reflexivity|]. split; [reflexivity|]. split; [reflexivity|]. split.
    + intros x y v Hin. apply (proj2 (in_rev _ _)) in Hin.
      destruct (events_sound V w q orders x y v Hin) as (row & c & Hrow & Hx & Hcell & Hv & _).
      exists row, c. split; [exact Hrow|]. split; [|exact Hv].
      assert (length row = w) by (rewrite Forall_forall in Hrect; eapply Hrect, Hrow_in, Hrow).
      rewrite <- Hcell. apply nth_error_nth'. lia.
    + intros xn yn row Hrow Hx. exists (V (nth xn row 0)). apply (proj1 (in_rev _ _)).
      apply events_complete; try assumption.
      assert (Hlen : (yn < length q)%nat) by (apply nth_error_Some; congruence).
      assert (Hk : nth_error (bands (length q) q) (yn / 6) = Some (firstn 6 (skipn (6 * (yn / 6)) q))).
      { apply bands_nth_rev.
        - pose proof (Nat.div_mod yn 6 ltac:(lia)). lia.
        - pose proof (Nat.div_mod yn 6 ltac:(lia)). lia. }
      pose proof (Forall2_nth_error _ _ _ _ _ [] Hord Hk) as Hok. cbn beta in Hok.
      destruct (order_ok_spec _ _ Hok) as [_ H2]. apply H2.
      apply in_concat. exists row. split.
      * pose proof (Nat.div_mod yn 6 ltac:(lia)) as Hdm.
        assert (Hi : (yn mod 6 < 6)%nat) by (apply Nat.mod_upper_bound; lia).
        eapply nth_error_In. rewrite (band_row q (yn / 6) (yn mod 6) Hi). rewrite <- Hdm. exact Hrow.
      * apply nth_In. assert (length row = w) by (rewrite Forall_forall in Hrect; eapply Hrect, Hrow_in, Hrow). lia.
Qed.
