(* Model of KittyImageHandler (src/image.rs:591-799): handler state, draw,
   erase, handle, and the bytes they write.  Executable definitions only;
   proofs are in KittyProofs.v, the protocol-side reading of the bytes (an
   independent parser and a terminal-side store) is in KittySpec.v.

   Conventions: bytes are N below 256, positions are (row, col) : N * N,
   an image is a backing vector of RGBA pixels plus a Shape (Surface/Shape.v,
   the model shared with C07), Image::iter() is Shape.iter.  The content hash
   (Surface::hash: fnv over height, width and the pixels in row-major order)
   is external code: every operation receives the 64-bit hash value of its
   image as an argument (oracle); everything the handler derives from it is
   modelled.  Constants come from Gen/KittyConst.v, regenerated from the source
   on every run. *)
From Coq Require Import Ascii String.
From Coq Require Import List NArith Bool.
From SNT Require Import Surface.Shape Encoder.Base64 Gen.KittyConst.
Import ListNotations.
Local Open Scope N_scope.

(* ---------- byte strings ---------- *)
Definition bs (s : string) : list N := map N_of_ascii (list_ascii_of_string s).
Definition K (c : ascii) : N := N_of_ascii c.

(* decimal printing of an unsigned integer (`{}` of u64 / usize / i32 / u8) *)
Fixpoint dec_go (fuel : nat) (n : N) (acc : list N) : list N :=
  match fuel with
  | O => acc
  | S f =>
      let acc' := (48 + n mod 10) :: acc in
      if n / 10 =? 0 then acc' else dec_go f (n / 10) acc'
  end.
(* a number has at most log2 n + 1 decimal digits; KittyProofs.dec_spec shows the fuel suffices *)
Definition dec (n : N) : list N := dec_go (S (N.to_nat (N.log2 n))) n [].

(* ---------- images ---------- *)
Definition rgba : Type := (N * N * N * N)%type.
Record image := mkImage { im_data : list rgba; im_shape : shape }.

Definition rgba_bytes (p : rgba) : list N := let '(r, g, b, a) := p in [r; g; b; a].
Definition im_pixels (im : image) : list rgba := iter (im_shape im) (im_data im).   (* img.iter() *)
Definition im_height (im : image) : N := N.of_nat (sh_height (im_shape im)).
Definition im_width (im : image) : N := N.of_nat (sh_width (im_shape im)).
(* Surface::is_empty: shape.start >= shape.end *)
Definition im_is_empty (im : image) : bool := is_empty (im_shape im).

(* Base64Encoder::new(Vec::new()); for color in img.iter() { write_all(&color.to_rgba()) }; finish() *)
Definition payload_of (im : image) : list N := encode_chunks (map rgba_bytes (im_pixels im)).

(* <[u8]>::chunks(n): consecutive pieces of n bytes, the last one possibly shorter, none for an
   empty slice (n = 0 panics in Rust; the regenerated constant is shown non-zero in KittyProofs) *)
Fixpoint chunks_go (fuel n : nat) (l : list N) : list (list N) :=
  match fuel with
  | O => []
  | S f => match l with
           | [] => []
           | _ => firstn n l :: chunks_go f n (skipn n l)
           end
  end.
Definition chunks (n : nat) (l : list N) : list (list N) := chunks_go (length l) n l.

(* ---------- graphics escape codes ---------- *)
(* ESC _ G key=value,key=value ; payload ESC \   (`semi` = the format string contains the ';') *)
Definition kv : Type := (N * list N)%type.
Fixpoint render_kvs (kvs : list kv) : list N :=
  match kvs with
  | [] => []
  | [(k, v)] => k :: 61 :: v
  | (k, v) :: r => k :: 61 :: v ++ 44 :: render_kvs r
  end.
Definition ST : list N := [27; 92].
Definition gfx (kvs : list kv) (semi : bool) (payload : list N) : list N :=
  27 :: 95 :: 71 :: render_kvs kvs ++ (if semi then 59 :: payload else payload) ++ ST.

(* "\x1b_Ga=t,f=32,i={},v={},s={},m={},q={};" *)
Definition kvs_first (id h w more q : N) : list kv :=
  [(K "a", bs "t"); (K "f", bs "32"); (K "i", dec id); (K "v", dec h); (K "s", dec w);
   (K "m", dec more); (K "q", dec q)].
(* "\x1b_Gm={more},q={suppress};" *)
Definition kvs_next (more q : N) : list kv := [(K "m", dec more); (K "q", dec q)].
(* "\x1b_Ga=p,i={img_id},C=1,p={placement_id},q={suppress};\x1b\\" *)
Definition kvs_put (id pid q : N) : list kv :=
  [(K "a", bs "p"); (K "i", dec id); (K "C", bs "1"); (K "p", dec pid); (K "q", dec q)].
(* "\x1b_Ga=d,d=i,i={},p={}\x1b\\"  and  "\x1b_Ga=d,d=i,i={}\x1b\\" *)
Definition kvs_del (id : N) (pid : option N) : list kv :=
  [(K "a", bs "d"); (K "d", bs "i"); (K "i", dec id)] ++
  match pid with Some p => [(K "p", dec p)] | None => [] end.

(* for (index, chunk) in chunks.enumerate(): more = (index + 1 < count), i.e. "a chunk follows";
   index == 0 selects the full header *)
Fixpoint emit_chunks (first : bool) (id h w q : N) (chs : list (list N)) : list N :=
  match chs with
  | [] => []
  | c :: rest =>
      let more := match rest with [] => 0 | _ => 1 end in
      gfx (if first then kvs_first id h w more q else kvs_next more q) true c
      ++ emit_chunks false id h w q rest
  end.

(* ---------- identifiers (image.rs: kitty_image_id, kitty_placement_id, kitty_placement_to_pos) ---------- *)
(* the hash-derived identifier a new content starts from: hash % KITTY_MAX_ID + 1 *)
Definition image_id_base (hash : N) : N := hash mod KITTY_MAX_ID + 1.
(* index = row % DIM + (col % DIM) * DIM;  index.min(KITTY_MAX_ID - 1) + 1   (u64, no overflow: index < DIM^2) *)
Definition placement_index (pos : N * N) : N :=
  let (row, col) := pos in (row mod KITTY_MAX_DIM) + (col mod KITTY_MAX_DIM) * KITTY_MAX_DIM.
Definition placement_id (pos : N * N) : N := N.min (placement_index pos) (KITTY_MAX_ID - 1) + 1.
(* index = placement_id.saturating_sub(1); Position { row: index % DIM, col: index / DIM } *)
Definition placement_to_pos (pid : N) : N * N :=
  let index := pid - 1 in (index mod KITTY_MAX_DIM, index / KITTY_MAX_DIM).

(* ---------- handler ---------- *)
(* imgs: HashMap<u64, Image>, id -> image whose data has been transmitted, as an association list with
   unique keys (the stored image is kept together with its hash value, which draw recomputes from the
   stored image in handle); ids: HashMap<u64, u64>, content hash -> id, never shrinks *)
Record kitty := mkKitty { k_imgs : list (N * (image * N)); k_ids : list (N * N); k_suppress : option N }.

Definition kitty_new (quiet : bool) : kitty := mkKitty [] [] (if quiet then Some 1 else None).

Fixpoint lookup {A} (k : N) (l : list (N * A)) : option A :=
  match l with
  | [] => None
  | (k', v) :: r => if k' =? k then Some v else lookup k r
  end.
Definition remove_key {A} (k : N) (l : list (N * A)) : list (N * A) :=
  filter (fun e => negb (fst e =? k)) l.

(* while self.ids.values().any(|taken| *taken == id) { id = id % KITTY_MAX_ID + 1 }
   (with every id taken the Rust loop does not terminate; the fuel |ids| + 1 suffices whenever fewer than
   KITTY_MAX_ID ids are in use: KittyProofs.probe_fresh) *)
Fixpoint probe (fuel : nat) (id : N) (taken : list N) : N :=
  match fuel with
  | O => id
  | S f => if existsb (N.eqb id) taken then probe f (id mod KITTY_MAX_ID + 1) taken else id
  end.

(* KittyImageHandler::image_id, the value: the remembered id of the content, or for a new content the first
   free id from the hash-derived one on *)
Definition id_in (ids : list (N * N)) (hash : N) : N :=
  match lookup hash ids with
  | Some id => id
  | None => probe (S (length ids)) (image_id_base hash) (map snd ids)
  end.
(* ... and its effect: the choice is remembered *)
Definition ids_note (ids : list (N * N)) (hash : N) : list (N * N) :=
  match lookup hash ids with
  | Some _ => ids
  | None => (hash, id_in ids hash) :: ids
  end.

Definition image_id (st : kitty) (hash : N) : N := id_in (k_ids st) hash.
Definition note_id (st : kitty) (hash : N) : kitty := mkKitty (k_imgs st) (ids_note (k_ids st) hash) (k_suppress st).

Definition draw (st : kitty) (img : image) (hash : N) (pos : N * N) : list N * kitty :=
  (* if img.height() == 0 || img.width() == 0 { return Ok(()) } *)
  if (im_height img =? 0) || (im_width img =? 0) then ([], st) else
  let id := image_id st hash in
  let ids := ids_note (k_ids st) hash in
  let q := match k_suppress st with Some s => s | None => 0 end in
  let '(tx, imgs) :=
    match lookup id (k_imgs st) with
    | Some _ => ([], k_imgs st)
    | None =>
        (emit_chunks true id (im_height img) (im_width img) q
                     (chunks (N.to_nat KITTY_CHUNK) (payload_of img)),
         (id, (img, hash)) :: k_imgs st)
    end in
  (tx ++ gfx (kvs_put id (placement_id pos) q) true [], mkKitty imgs ids (k_suppress st)).

Definition erase (st : kitty) (img : image) (hash : N) (pos : option (N * N)) : list N * kitty :=
  (gfx (kvs_del (image_id st hash) (option_map placement_id pos)) false [], note_id st hash).

Inductive event :=
| EvKitty (id : N) (placement : option N) (error : bool)   (* TerminalEvent::KittyImage *)
| EvOther.                                                  (* any other TerminalEvent *)

(* TTYEncoder: CursorSave = ESC 7, CursorRestore = ESC 8, CursorTo(pos) = ESC [ row+1 ; col+1 H *)
Definition cursor_save : list N := [27; 55].
Definition cursor_restore : list N := [27; 56].
Definition cursor_to (pos : N * N) : list N :=
  27 :: 91 :: dec (fst pos + 1) ++ 59 :: dec (snd pos + 1) ++ [72].

Definition handle (st : kitty) (ev : event) : list N * kitty * bool :=
  match ev with
  | EvOther => ([], st, false)
  | EvKitty id pl err =>
      if err then
        (* (self.imgs.remove(id), pos): the removal happens whether or not there is a placement *)
        match lookup id (k_imgs st) with
        | None => ([], st, true)
        | Some (img, hash) =>
            let imgs' := remove_key id (k_imgs st) in
            match pl with
            | None => ([], mkKitty imgs' (k_ids st) (k_suppress st), true)
            | Some p =>
                let pos := placement_to_pos p in
                let '(bytes, st2) := draw (mkKitty imgs' (k_ids st) (Some 2)) img hash pos in
                (cursor_save ++ cursor_to pos ++ bytes ++ cursor_restore,
                 mkKitty (k_imgs st2) (k_ids st2) (k_suppress st), true)
            end
        end
      else ([], st, true)
  end.

(* ---------- histories ---------- *)
Inductive op :=
| OpDraw (img : image) (hash : N) (pos : N * N)
| OpErase (img : image) (hash : N) (pos : option (N * N))
| OpEvent (ev : event).

(* output of one call: bytes written and the returned value (0 = Ok(()) / Ok(false), 1 = Ok(true)) *)
Definition step (st : kitty) (o : op) : (list N * N) * kitty :=
  match o with
  | OpDraw img hash pos => let '(b, st') := draw st img hash pos in ((b, 0), st')
  | OpErase img hash pos => let '(b, st') := erase st img hash pos in ((b, 0), st')
  | OpEvent ev => let '(b, st', r) := handle st ev in ((b, if r then 1 else 0), st')
  end.

Fixpoint run (st : kitty) (ops : list op) : list (list N * N) :=
  match ops with
  | [] => []
  | o :: r => let '(out, st') := step st o in out :: run st' r
  end.
