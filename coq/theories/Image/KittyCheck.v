(* The model satisfies the property predicate that the correspondence check
   applies to the implementation: for every well-formed case (any images, any
   history, positions with coordinates below 65536 other than the wrap-around
   corner) `check_history` returns 0 on the bytes the model writes. *)
From Coq Require Import List NArith ZArith Bool Lia Arith.
From Coq Require Import ZifyBool ZifyNat ZifyN.
From SNT Require Import Surface.Shape Encoder.Base64 Gen.KittyConst
  Image.Kitty Image.KittySpec Image.KittyParse Image.KittyProofs Image.KittyHistory Corr.C11Corr.
Import ListNotations.
Local Open Scope N_scope.
Arguments N.add : simpl never.
Arguments N.sub : simpl never.
Arguments N.mul : simpl never.
Arguments N.eqb : simpl never.
Arguments N.ltb : simpl never.
Arguments N.leb : simpl never.
Arguments N.div : simpl never.
Arguments N.modulo : simpl never.

(* ---------- ids and placement ids named by the commands of a call ---------- *)
Definition item_ids (it : item) : list (option N) :=
  match it with
  | IGfx kvs _ => match kv_get k_i kvs with Some v => [parse_num v] | None => [] end
  | _ => []
  end.
Definition item_pids (it : item) : list (option N) :=
  match it with
  | IGfx kvs _ =>
      match kv_chr k_a kvs 116, kv_get k_p kvs with
      | Some a, Some v => if (a =? 112) || (a =? 100) then [parse_num v] else []
      | _, _ => []
      end
  | _ => []
  end.

Lemma ids_named_eq its : ids_named its = all_some (flat_map item_ids its).
Proof. reflexivity. Qed.
Lemma pids_named_eq its : pids_named its = all_some (flat_map item_pids its).
Proof. reflexivity. Qed.

Lemma ids_first id h w more q c : item_ids (IGfx (kvs_first id h w more q) c) = [Some id].
Proof. cbv -[dec parse_num]. rewrite parse_num_dec. reflexivity. Qed.
Lemma ids_next more q c : item_ids (IGfx (kvs_next more q) c) = [].
Proof. reflexivity. Qed.
Lemma ids_put id pid q : item_ids (put_item id pid q) = [Some id].
Proof. cbv -[dec parse_num]. rewrite parse_num_dec. reflexivity. Qed.
Lemma ids_del id pid : item_ids (del_item id pid) = [Some id].
Proof. destruct pid; cbv -[dec parse_num]; rewrite parse_num_dec; reflexivity. Qed.

Lemma pids_first id h w more q c : item_pids (IGfx (kvs_first id h w more q) c) = [].
Proof. reflexivity. Qed.
Lemma pids_next more q c : item_pids (IGfx (kvs_next more q) c) = [].
Proof. reflexivity. Qed.
Lemma pids_put id pid q : item_pids (put_item id pid q) = [Some pid].
Proof. cbv -[dec parse_num]. rewrite parse_num_dec. reflexivity. Qed.
Lemma pids_del_some id pid : item_pids (del_item id (Some pid)) = [Some pid].
Proof. cbv -[dec parse_num]. rewrite parse_num_dec. reflexivity. Qed.
Lemma pids_del_none id : item_pids (del_item id None) = [].
Proof. reflexivity. Qed.

Lemma ids_chunks_next id h w q chs : flat_map item_ids (chunk_items false id h w q chs) = [].
Proof. induction chs as [|c r IH]; [reflexivity|]. cbn [chunk_items flat_map]. rewrite ids_next, IH. reflexivity. Qed.
Lemma pids_chunks id h w q : forall chs b, flat_map item_pids (chunk_items b id h w q chs) = [].
Proof.
  induction chs as [|c r IH]; intros b; [reflexivity|]. cbn [chunk_items flat_map]. rewrite IH.
  destruct b; [rewrite pids_first|rewrite pids_next]; reflexivity.
Qed.
Lemma ids_chunks_first id h w q chs : chs <> [] ->
  flat_map item_ids (chunk_items true id h w q chs) = [Some id].
Proof.
  destruct chs as [|c r]; [contradiction|]. intros _. cbn [chunk_items flat_map].
  rewrite ids_first, ids_chunks_next. reflexivity.
Qed.

Lemma only_gfx_chunks id h w q : forall chs b, only_gfx (chunk_items b id h w q chs) = true.
Proof. induction chs as [|c r IH]; intros b; [reflexivity|]. cbn [chunk_items only_gfx forallb]. apply IH. Qed.

(* ---------- small facts about the predicate's helper functions ---------- *)
Lemma nmem_keys st id :
  nmem id (keys st) = match lookup id (k_imgs st) with Some _ => true | None => false end.
Proof.
  unfold keys, nmem. induction (k_imgs st) as [|[k v] l IH]; [reflexivity|].
  cbn [map fst existsb lookup]. rewrite N.eqb_sym. destruct (k =? id); [reflexivity|exact IH].
Qed.

Lemma pl_eqb_refl x : pl_eqb x x = true.
Proof. unfold pl_eqb. rewrite !N.eqb_refl. reflexivity. Qed.
Lemma pl_eqb_eq x y : pl_eqb x y = true <-> x = y.
Proof.
  destruct x, y. unfold pl_eqb. cbn [fst snd]. split.
  - intros H. apply andb_prop in H as [A B]. apply N.eqb_eq in A, B. subst. reflexivity.
  - intros H. inversion H. subst. rewrite !N.eqb_refl. reflexivity.
Qed.
Lemma pl_mem_in x l : pl_mem x l = true <-> In x l.
Proof.
  unfold pl_mem. rewrite existsb_exists. split.
  - intros (y & Hy & E). apply pl_eqb_eq in E. subst. exact Hy.
  - intros H. exists x. split; [exact H|apply pl_eqb_refl].
Qed.
Lemma pl_same_iff a b : pl_same a b = true <-> (forall x, In x a <-> In x b).
Proof.
  unfold pl_same, pl_subset. rewrite andb_true_iff, !forallb_forall. split.
  - intros [H1 H2] x. split; intros Hx; apply pl_mem_in; [apply H1|apply H2]; exact Hx.
  - intros H. split; intros x Hx; apply pl_mem_in, H, Hx.
Qed.
Lemma pl_same_refl a : pl_same a a = true.
Proof. apply pl_same_iff. tauto. Qed.
Lemma pl_same_add x b : pl_same (x :: filter (fun y => negb (pl_eqb y x)) b) (x :: b) = true.
Proof.
  apply pl_same_iff. intros y. cbn [In]. rewrite filter_In. split.
  - intros [H|[H _]]; auto.
  - intros [H|H]; [left; exact H|]. destruct (pl_eqb y x) eqn:E.
    + apply pl_eqb_eq in E. left. congruence.
    + right. split; [exact H|reflexivity].
Qed.

Lemma pos_eqb_eq a b : pos_eqb a b = true <-> a = b.
Proof. exact (pl_eqb_eq a b). Qed.

Lemma forallb_combine_refl l : forallb (fun xy : N * N => fst xy =? snd xy) (combine l l) = true.
Proof. induction l as [|x l IH]; [reflexivity|]. cbn [combine forallb fst snd]. rewrite N.eqb_refl. exact IH. Qed.

Definition content_rec (img : image) : content := mkContent (im_width img) (im_height img) (pix_bytes img).

Lemma timage_eqb_refl img : timage_eqb (content_of img) (content_rec img) = true.
Proof.
  unfold timage_eqb, content_of, content_rec. cbn [ti_w ti_h ti_data c_w c_h c_pix].
  rewrite !N.eqb_refl, Nat.eqb_refl, forallb_combine_refl. reflexivity.
Qed.

Lemma all_some_app {A} (a b : list (option A)) :
  all_some (a ++ b) = match all_some a, all_some b with Some x, Some y => Some (x ++ y) | _, _ => None end.
Proof.
  induction a as [|[x|] a IH]; cbn [app all_some].
  - destruct (all_some b); reflexivity.
  - rewrite IH. destruct (all_some a), (all_some b); reflexivity.
  - reflexivity.
Qed.

(* ---------- learning ids and positions ---------- *)
Lemma id_of_cid_in c ids i : id_of_cid c ids = Some i -> In (c, i) ids.
Proof.
  induction ids as [|[c' i'] l IH]; [discriminate|]. cbn [id_of_cid].
  destruct (Nat.eqb c' c) eqn:E; intros H.
  - apply Nat.eqb_eq in E. inversion H. subst. left. reflexivity.
  - right. apply IH, H.
Qed.
Lemma id_of_cid_none c ids i : id_of_cid c ids = None -> ~ In (c, i) ids.
Proof.
  induction ids as [|[c' i'] l IH]; [intros _ H; exact H|]. cbn [id_of_cid].
  destruct (Nat.eqb c' c) eqn:E; [discriminate|]. intros H [X|X].
  - inversion X. subst. rewrite Nat.eqb_refl in E. discriminate.
  - exact (IH H X).
Qed.
Lemma cid_of_id_in i ids c : cid_of_id i ids = Some c -> In (c, i) ids.
Proof.
  induction ids as [|[c' i'] l IH]; [discriminate|]. cbn [cid_of_id].
  destruct (i' =? i) eqn:E; intros H.
  - apply N.eqb_eq in E. inversion H. subst. left. reflexivity.
  - right. apply IH, H.
Qed.
Lemma cid_of_id_some i ids c : In (c, i) ids -> exists c', cid_of_id i ids = Some c'.
Proof.
  induction ids as [|[c0 i0] l IH]; [contradiction|]. cbn [cid_of_id]. intros [X|X].
  - inversion X. subst. rewrite N.eqb_refl. eauto.
  - destruct (i0 =? i); [eauto|apply IH, X].
Qed.

Definition pos_ok (p : N * N) : Prop := in_dom p /\ p <> (65535, 65535).

Lemma in_range_dom p : in_dom p -> in_range p = true.
Proof. unfold in_dom, in_range. lia. Qed.

(* entries of the position table: the id the handler derives, for admissible positions *)
Definition where_ok (w : list (N * (N * N) * N)) : Prop :=
  forall i p q, In (i, p, q) w -> q = placement_id p /\ pos_ok p.

Lemma learn_where_ok id pos w : where_ok w -> pos_ok pos ->
  exists w', learn_where id pos (placement_id pos) w = Some w' /\ where_ok w' /\
             (forall e, In e w -> In e w').
Proof.
  intros Hw Hp. unfold learn_where.
  assert (Hall : forallb (fun e => let '(i, p, q) := e in
                   negb (i =? id)
                   || (if pos_eqb p pos then q =? placement_id pos
                       else negb (q =? placement_id pos) || negb (in_range p && in_range pos))) w = true).
  { apply forallb_forall. intros [[i p] q] Hin. destruct (Hw i p q Hin) as [Hq [Hd Hc]].
    destruct (i =? id); [|reflexivity]. cbn [negb orb].
    destruct (pos_eqb p pos) eqn:E.
    - apply pos_eqb_eq in E. subst. apply N.eqb_refl.
    - destruct (q =? placement_id pos) eqn:E2; [|reflexivity]. apply N.eqb_eq in E2. exfalso.
      destruct Hp as [Hd' Hc']. subst q.
      destruct (placement_inj p pos Hd Hd' E2) as [X|[[X Y]|[X Y]]]; try congruence.
      subst. rewrite (proj2 (pos_eqb_eq pos pos) eq_refl) in E. discriminate. }
  rewrite Hall. eexists. split; [reflexivity|].
  destruct (existsb _ w); split; try exact Hw; auto.
  - intros i p q [X|X]; [inversion X; subst; split; [reflexivity|exact Hp]|exact (Hw i p q X)].
  - intros e He. right. exact He.
Qed.

Lemma where_pos_sound id pid w pos : where_ok w -> where_pos id pid w = Some pos ->
  pid = placement_id pos /\ pos_ok pos.
Proof.
  intros Hw. unfold where_pos. destruct (find _ w) as [[[i p] q]|] eqn:F; [|discriminate].
  intros H. inversion H. subst. apply find_some in F as [Hin Hf].
  apply andb_prop in Hf as [Hf _]. apply andb_prop in Hf as [_ Hq]. apply N.eqb_eq in Hq. subst.
  exact (Hw _ _ _ Hin).
Qed.

(* ---------- the re-transmission written by handle, as the terminal sees it ---------- *)
Lemma pred_max_succ x : N.pred (N.max (x + 1) 1) = x.
Proof. lia. Qed.

Lemma nmem_filter x id l : nmem x (filter (fun y => negb (y =? id)) l) = negb (x =? id) && nmem x l.
Proof.
  unfold nmem. induction l as [|y l IH]; [destruct (x =? id); reflexivity|]. cbn [filter existsb].
  destruct (y =? id) eqn:E; cbn [negb existsb]; rewrite IH.
  - apply N.eqb_eq in E. subst y. destruct (x =? id); reflexivity.
  - destruct (x =? y) eqn:E2; [|reflexivity]. apply N.eqb_eq in E2. subst y. rewrite E. reflexivity.
Qed.

Lemma draw_items_empty st img h pos : ~ nonempty img -> draw_items st img h pos = [].
Proof.
  intros H. unfold draw_items, nonempty in *.
  replace ((im_height img =? 0) || (im_width img =? 0)) with true by lia. reflexivity.
Qed.
Lemma draw_items_cached st img h pos x : nonempty img -> lookup (image_id st h) (k_imgs st) = Some x ->
  draw_items st img h pos = [put_item (image_id st h) (placement_id pos) (qval st)].
Proof.
  intros [H1 H2] Hl. unfold draw_items, cached.
  replace ((im_height img =? 0) || (im_width img =? 0)) with false by lia. rewrite Hl. reflexivity.
Qed.
Lemma draw_items_fresh st img h pos : nonempty img -> lookup (image_id st h) (k_imgs st) = None ->
  draw_items st img h pos =
  tx_items (image_id st h) (qval st) img ++ [put_item (image_id st h) (placement_id pos) (qval st)].
Proof.
  intros [H1 H2] Hl. unfold draw_items, cached.
  replace ((im_height img =? 0) || (im_width img =? 0)) with false by lia. rewrite Hl. reflexivity.
Qed.


Lemma cur_eqb_refl c : cur_eqb c c = true.
Proof. destruct c as [[a b]|]; [|reflexivity]. unfold cur_eqb, pos_eqb. cbn [fst snd]. rewrite !N.eqb_refl. reflexivity. Qed.

(* a reported placement id within the protocol's range names an admissible position, and the handler
   derives that very id again for it *)
Lemma to_pos_ok p : p <= ID_MAX -> in_dom (placement_to_pos p) /\ placement_to_pos p <> (65535, 65535).
Proof.
  unfold ID_MAX, placement_to_pos, in_dom. rewrite max_dim_const. cbn [fst snd]. intros Hp. split.
  - split; zify_divmod; lia.
  - intros E. inversion E as [[E1 E2]]. zify_divmod. lia.
Qed.
Lemma placement_roundtrip p : 1 <= p <= ID_MAX -> placement_id (placement_to_pos p) = p.
Proof.
  unfold ID_MAX, placement_to_pos, placement_id, placement_index. rewrite max_dim_const, max_id_const.
  intros Hp. zify_divmod. lia.
Qed.

(* the commands handle writes for an error response naming a cached image and a placement, run on any
   terminal state s0 that is related to the handler (after the removal of the image from its cache) *)
Lemma redraw_run strict st s0 id p img hash sup : cache_wf st -> ids_range (k_ids st) ->
  lookup id (k_imgs st) = Some (img, hash) ->
  Inv strict (mkKitty (remove_key id (k_imgs st)) (k_ids st) (Some 2)) s0 -> t_sent s0 = [] ->
  let pos := placement_to_pos p in
  let s' := store_run s0 (handle_items st (EvKitty id (Some p) true)) in
  Inv strict (mkKitty ((id, (img, hash)) :: remove_key id (k_imgs st)) (ids_note (k_ids st) hash) sup) s' /\
  t_sent s' = [(id, content_of img)] /\
  t_places s' = (id, placement_id pos, Some pos)
                :: filter (fun q => negb (is_place id (placement_id pos) q))
                     (filter (fun q => negb (place_id q =? id)) (t_places s0)) /\
  t_cursor s' = t_cursor s0 /\
  pids_named (handle_items st (EvKitty id (Some p) true)) = Some [placement_id pos].
Proof.
  intros Hc Hir Hl HI0 Hs0.
  destruct (Hc _ _ _ Hl) as (Hlk & Hwf & Hne).
  pose proof (image_id_known st hash id Hlk) as Hid.
  cbn [handle_items]. rewrite Hl.
  set (st1 := mkKitty (remove_key id (k_imgs st)) (k_ids st) (Some 2)) in *.
  set (pos := placement_to_pos p).
  change (image_id st hash) with (image_id st1 hash) in Hid.
  assert (Hl1 : lookup (image_id st1 hash) (k_imgs st1) = None) by (rewrite Hid; apply lookup_remove_same).
  rewrite (draw_items_fresh st1 img hash pos Hne Hl1).
  cbv zeta.
  assert (Hpids : pids_named (ISave :: IMoveTo (fst pos + 1) (snd pos + 1)
                    :: (tx_items (image_id st1 hash) (qval st1) img ++ [put_item (image_id st1 hash) (placement_id pos) (qval st1)])
                    ++ [IRestore]) = Some [placement_id pos]).
  { rewrite pids_named_eq. cbn [flat_map item_pids app]. rewrite !flat_map_app. unfold tx_items.
    rewrite pids_chunks. cbn [flat_map app]. rewrite pids_put. reflexivity. }
  rewrite !store_run_cons.
  assert (Hp0 : t_pending s0 = None) by exact (inv_pending _ _ _ HI0).
  set (s1 := item_step s0 ISave).
  assert (E1 : s1 = set_cursor (t_cursor s0) (Some (t_cursor s0)) s0)
    by (unfold s1; cbn [item_step]; rewrite Hp0; reflexivity).
  set (s2 := item_step s1 (IMoveTo (fst pos + 1) (snd pos + 1))).
  assert (E2 : s2 = set_cursor (Some pos) (t_saved s1) s1)
    by (unfold s2; cbn [item_step]; rewrite E1; cbn [set_cursor t_pending]; rewrite Hp0, !pred_max_succ;
        destruct pos; reflexivity).
  assert (Hp2 : t_pending s2 = None) by (rewrite E2, E1; exact Hp0).
  assert (HI2 : Inv strict st1 s2) by (rewrite E2, E1; apply inv_set_cursor, inv_set_cursor, HI0).
  rewrite store_run_app.
  destruct (inv_draw_fresh strict st1 s2 sup img hash (placement_id pos) (qval st1) HI2 Hwf Hne Hl1
              (placement_id_range pos)) as (HI3 & _).
  cbv zeta in HI3.
  set (s3 := store_run s2 (tx_items (image_id st1 hash) (qval st1) img ++
                           [put_item (image_id st1 hash) (placement_id pos) (qval st1)])) in *.
  assert (E4 : item_step s3 IRestore =
               set_cursor (match t_saved s3 with Some c => c | None => Some (0, 0) end) (t_saved s3) s3).
  { cbn [item_step]. rewrite (inv_pending _ _ _ HI3). reflexivity. }
  cbn [store_run fold_left]. rewrite E4.
  split; [rewrite Hid in HI3; apply inv_set_cursor, HI3|].
  assert (E3 : s3 = _) by (unfold s3; apply (run_draw_fresh s2 (image_id st1 hash) (placement_id pos) (qval st1) img Hp2 Hwf Hne
             (image_id_range st1 hash Hir) (placement_id_range pos))).
  rewrite E3. cbn [set_cursor t_sent t_places t_cursor t_saved]. rewrite Hid.
  repeat split.
  - rewrite E2, E1. cbn [set_cursor t_sent]. rewrite Hs0. reflexivity.
  - rewrite E2, E1. cbn [set_cursor t_places t_cursor]. reflexivity.
  - rewrite E2, E1. cbn [set_cursor t_saved]. reflexivity.
  - rewrite Hid in Hpids. exact Hpids.
Qed.

Lemma places_filter2 id pid (l : list place) :
  map fst (filter (fun p => negb ((place_id p =? id) && (place_pid p =? pid))) l) =
  filter (fun x => negb (pl_eqb x (id, pid))) (map fst l).
Proof. exact (places_filter id pid l). Qed.

(* ---------- the world of a case ---------- *)
Section World.
  Variable imgs : list c11_img.
  Variable contents : list content.
  (* every image is well formed and its content entry is its window, width, height *)
  Hypothesis Wimg : forall img h c, In (img, h, c) imgs ->
    image_wf img /\ nth_error contents c = Some (content_rec img).
  (* content index and 64-bit content hash determine each other (the hash is a function of the content;
     no two contents of the case collide in the full 64-bit fnv hash) *)
  Hypothesis Wid : forall i1 h1 c1 i2 h2 c2, In (i1, h1, c1) imgs -> In (i2, h2, c2) imgs ->
    (c1 = c2 <-> h1 = h2).

  (* the ids the predicate has learned are those the handler remembers for the world's contents *)
  Definition tids_ok (st : kitty) (tids : list (nat * N)) : Prop :=
    forall c i, In (c, i) tids -> exists img h, In (img, h, c) imgs /\ lookup h (k_ids st) = Some i.

  Lemma tids_grow st st' tids :
    (forall h i, lookup h (k_ids st) = Some i -> lookup h (k_ids st') = Some i) ->
    tids_ok st tids -> tids_ok st' tids.
  Proof. intros Hg Hok c i Hin. destruct (Hok c i Hin) as (img & h & Hw & Hl). exists img, h. split; [exact Hw|apply Hg, Hl]. Qed.

  (* learning the id of a drawn / erased image: succeeds, and is consistent with the table after the call *)
  Lemma learn_id_ok st img h c tids : In (img, h, c) imgs -> ids_ok (k_ids st) -> tids_ok st tids ->
    exists tids', learn_id c (image_id st h) tids = Some tids' /\
                  tids_ok (note_id st h) tids' /\ In (c, image_id st h) tids' /\
                  (forall e, In e tids -> In e tids').
  Proof.
    intros Hin Hio Hok. unfold learn_id.
    assert (Hgrow : forall h0 i0, lookup h0 (k_ids st) = Some i0 -> lookup h0 (k_ids (note_id st h)) = Some i0)
      by (intros h0 i0 H0; cbn [note_id k_ids]; apply lookup_note_kept, H0).
    destruct (id_of_cid c tids) as [i|] eqn:E1.
    - apply id_of_cid_in in E1. destruct (Hok c i E1) as (img' & h' & Hin' & Hi).
      assert (h' = h) by (apply (Wid img' h' c img h c Hin' Hin); reflexivity). subst h'.
      rewrite (image_id_known st h i Hi). rewrite N.eqb_refl. exists tids.
      repeat split; auto. apply (tids_grow st); assumption.
    - destruct (cid_of_id (image_id st h) tids) as [c'|] eqn:E2.
      + exfalso. apply cid_of_id_in in E2. destruct (Hok c' _ E2) as (img' & h' & Hin' & Hi).
        destruct (lookup h (k_ids st)) as [i|] eqn:Hl.
        * rewrite (image_id_known st h i Hl) in *.
          assert (h' = h) by (apply (ids_ok_inj (k_ids st) h' h i Hio Hi Hl)). subst h'.
          assert (c' = c) by (apply (Wid img' h c' img h c Hin' Hin); reflexivity). subst c'.
          exact (id_of_cid_none c tids _ E1 E2).
        * apply (id_in_fresh (k_ids st) h Hio Hl). apply lookup_in in Hi.
          apply in_map_iff. exists (h', image_id st h). split; [reflexivity|exact Hi].
      + eexists. split; [reflexivity|]. repeat split.
        * intros c0 i0 [X|X].
          -- inversion X; subst. exists img, h. split; [exact Hin|]. cbn [note_id k_ids]. apply lookup_note_same.
          -- exact (tids_grow st _ tids Hgrow Hok c0 i0 X).
        * left. reflexivity.
        * intros e He. right. exact He.
  Qed.

  (* ---------- simulation between the handler state and the predicate's tracker ---------- *)
  Record Sim (st : kitty) (t : track) : Prop := mkSim {
    sim_inv : Inv false st (tk_store t);
    sim_sent : forall x, nmem x (tk_sent t) = nmem x (keys st);
    sim_ids : tids_ok st (tk_ids t);
    sim_where : where_ok (tk_where t);
    (* what is cached came from the world and its id has been learned *)
    sim_cache : forall id img hash, lookup id (k_imgs st) = Some (img, hash) ->
                  exists c, In (img, hash, c) imgs /\ In (c, id) (tk_ids t);
    (* the handler's id table: valid ids, one per content, no id twice, room for more *)
    sim_table : ids_ok (k_ids st) }.

  Lemma sim_init quiet : Sim (kitty_new quiet) track0.
  Proof.
    constructor.
    - apply inv_init.
    - reflexivity.
    - intros c i H. contradiction.
    - intros i p q H. contradiction.
    - intros id img hash H. discriminate.
    - constructor; cbn [kitty_new k_ids map length].
      + intros h0 i0 H0. discriminate.
      + constructor.
      + constructor.
      + rewrite max_id_const. reflexivity.
  Qed.

  Lemma only_gfx_draw st img h pos : only_gfx (draw_items st img h pos) = true.
  Proof.
    unfold draw_items. destruct ((im_height img =? 0) || (im_width img =? 0)); [reflexivity|].
    destruct (cached st h); [reflexivity|]. unfold only_gfx, tx_items. rewrite forallb_app.
    fold (only_gfx (chunk_items true (image_id st h) (im_height img) (im_width img) (qval st) (tx_chunks img))).
    rewrite only_gfx_chunks. reflexivity.
  Qed.

  (* draw *)
  Lemma check_draw st t img h c pos : Sim st t -> In (img, h, c) imgs -> pos_ok pos ->
    N.of_nat (S (length (k_ids st))) < KITTY_MAX_ID ->
    exists t', check_step contents t (SDraw c pos) (fst (draw st img h pos)) 0 = Good t' /\
               Sim (snd (draw st img h pos)) t'.
  Proof.
    intros HS Hin Hpos Hroom. destruct HS as [HI Hsent Hids Hwh Hcache Htab].
    destruct (Wimg img h c Hin) as [Hwf Hc].
    pose proof HI as [Hcw He Hp Hi Hv Hpc Hir].
    pose proof (step_draw_ok false true st (tk_store t) img h pos HI Hwf) as [HI' _].
    rewrite term_step_items in HI' by assumption. rewrite snd_step_draw in HI'.
    cbn [pre_store step_items] in HI'.
    unfold check_step. rewrite (parse_draw st img h pos Hwf). cbv zeta.
    rewrite (inv_errs _ _ _ HI'), (inv_pending _ _ _ HI'), Hc.
    change (0 =? 0) with true. cbn [negb]. rewrite only_gfx_draw. cbn [negb].
    cbn [c_w c_h content_rec].
    set (pre := clear_log (tk_store t)) in *.
    destruct (nonempty_dec img) as [Hne|Hne].
    2:{ (* nothing to show *)
        rewrite (draw_items_empty st img h pos Hne) in *.
        unfold nonempty in Hne.
        replace ((im_width img =? 0) || (im_height img =? 0)) with true by lia.
        rewrite (draw_empty st img h pos Hne) in *. cbn [snd store_run fold_left] in *.
        cbn [t_sent pre clear_log]. rewrite pl_same_refl.
        eexists. split; [reflexivity|]. constructor; cbn [with_store tk_store tk_sent tk_ids tk_where]; try assumption. }
    pose proof Hne as [Hh Hw].
    replace ((im_width img =? 0) || (im_height img =? 0)) with false by lia.
    pose proof (image_id_range st h Hir) as Hid. pose proof (placement_id_range pos) as Hpid.
    destruct (learn_id_ok st img h c (tk_ids t) Hin Htab Hids) as (ids' & Hlid & Hids' & Hcin & Hsub).
    pose proof (ids_note_ok (k_ids st) h Htab Hroom) as Htab'.
    destruct (learn_where_ok (image_id st h) pos (tk_where t) Hwh Hpos) as (w' & Hlw & Hw' & Hwsub).
    rewrite ids_named_eq, pids_named_eq.
    destruct (lookup (image_id st h) (k_imgs st)) as [[img0 h0]|] eqn:Hl.
    - (* cached: placement only *)
      rewrite (draw_items_cached st img h pos _ Hne Hl) in *.
      rewrite (draw_cached st img h pos _ Hne Hl) in *. cbn [snd] in *.
      cbn [flat_map app]. rewrite ids_put, pids_put. cbn [app all_some option_map forallb].
      rewrite Hlid, Hsent, nmem_keys, Hl.
      set (s' := store_run pre [put_item (image_id st h) (placement_id pos) (qval st)]) in *.
      assert (Es : s' = _) by (unfold s'; apply (run_put pre _ _ _ (content_of img0));
        [exact Hp|exact Hid|exact Hpid|exact (Hi _ _ _ Hl)]).
      pose proof HI' as HI''. rewrite Es in HI''.
      rewrite Es. cbn [t_sent pre clear_log negb].
      replace (placement_id pos =? 0) with false by lia.
      unfold places_of at 1 2. cbn [t_places clear_log map fst]. rewrite places_filter.
      rewrite pl_same_add. cbn [negb]. rewrite Hlw.
      eexists. split; [reflexivity|].
      constructor; cbn [tk_store tk_sent tk_ids tk_where k_imgs k_ids]; try assumption; try exact HI''; try exact Hids'.
      intros id img1 h1 Hl1. cbn [k_imgs] in Hl1. destruct (Hcache _ _ _ Hl1) as (c1 & Hin1 & Hc1).
      exists c1. split; [exact Hin1|apply Hsub, Hc1].
    - (* not cached: transmission, then placement *)
      rewrite (draw_items_fresh st img h pos Hne Hl) in *.
      rewrite (draw_fresh st img h pos Hne Hl) in *. cbn [snd] in *.
      destruct (tx_chunks_spec img Hwf Hne) as (Hn & _ & _ & _).
      rewrite !flat_map_app. unfold tx_items at 1 2. rewrite (ids_chunks_first _ _ _ _ _ Hn), pids_chunks.
      cbn [flat_map app]. rewrite ids_put, pids_put. cbn [app all_some option_map forallb].
      rewrite N.eqb_refl. cbn [andb negb]. rewrite Hlid, Hsent, nmem_keys, Hl.
      set (s' := store_run pre _) in *.
      assert (Es : s' = _) by (unfold s'; apply (run_draw_fresh pre _ _ _ img Hp Hwf Hne Hid Hpid)).
      pose proof HI' as HI''. rewrite Es in HI''.
      rewrite Es. cbn [t_sent pre clear_log].
      rewrite N.eqb_refl. cbn [andb]. rewrite timage_eqb_refl. cbn [negb].
      replace (placement_id pos =? 0) with false by lia.
      unfold places_of at 1 2. cbn [t_places clear_log map fst]. rewrite places_filter.
      rewrite map_fst_filter_id, pl_same_add. cbn [negb]. rewrite Hlw.
      eexists. split; [reflexivity|].
      constructor; cbn [tk_store tk_sent tk_ids tk_where k_imgs k_ids]; try assumption; try exact HI''; try exact Hids'.
      + intros x. change (nmem x (image_id st h :: tk_sent t)) with ((x =? image_id st h) || nmem x (tk_sent t)).
        rewrite Hsent. reflexivity.
      + intros id img1 h1 Hl1. cbn [k_imgs lookup] in Hl1. destruct (image_id st h =? id) eqn:E.
        * apply N.eqb_eq in E. inversion Hl1; subst. exists c. split; assumption.
        * destruct (Hcache _ _ _ Hl1) as (c1 & Hin1 & Hc1). exists c1. split; [exact Hin1|apply Hsub, Hc1].
  Qed.

  (* erase *)
  Lemma check_erase st t img h c pos : Sim st t -> In (img, h, c) imgs ->
    match pos with Some p => pos_ok p | None => True end ->
    N.of_nat (S (length (k_ids st))) < KITTY_MAX_ID ->
    exists t', check_step contents t (SErase c pos) (fst (erase st img h pos)) 0 = Good t' /\
               Sim (snd (erase st img h pos)) t'.
  Proof.
    intros HS Hin Hpos Hroom. destruct HS as [HI Hsent Hids Hwh Hcache Htab].
    destruct (Wimg img h c Hin) as [Hwf Hc].
    pose proof HI as [Hcw He Hp Hi Hv Hpc Hir].
    pose proof (step_erase_ok false true st (tk_store t) img h pos HI Hwf) as [HI' _].
    rewrite term_step_items in HI' by assumption. cbn [step erase snd pre_store step_items] in HI'.
    pose proof (image_id_range st h Hir) as Hid.
    destruct (learn_id_ok st img h c (tk_ids t) Hin Htab Hids) as (ids' & Hlid & Hids' & Hcin & Hsub).
    pose proof (ids_note_ok (k_ids st) h Htab Hroom) as Htab'.
    unfold check_step. rewrite parse_erase. cbn [erase snd]. cbv zeta.
    set (pre := clear_log (tk_store t)) in *.
    set (s' := store_run pre [del_item (image_id st h) (option_map placement_id pos)]) in *.
    assert (Es : s' = _) by (unfold s'; apply (run_del pre (image_id st h) (option_map placement_id pos) Hp Hid);
      destruct pos; cbn [option_map]; [apply placement_id_range|exact I]).
    rewrite (inv_errs _ _ _ HI'), (inv_pending _ _ _ HI').
    change (0 =? 0) with true. cbn [negb]. change (only_gfx [del_item (image_id st h) (option_map placement_id pos)]) with true.
    cbn [negb]. pose proof HI' as HI''. rewrite Es in HI''.
    rewrite ids_named_eq, pids_named_eq. cbn [flat_map]. rewrite ids_del. cbn [app all_some option_map forallb negb].
    rewrite Es. cbn [t_sent pre clear_log]. rewrite Hlid.
    destruct pos as [p|]; cbn [option_map].
    - destruct (learn_where_ok (image_id st h) p (tk_where t) Hwh Hpos) as (w' & Hlw & Hw' & Hwsub).
      pose proof (placement_id_range p) as Hpid.
      rewrite pids_del_some. cbn [app all_some option_map]. replace (placement_id p =? 0) with false by lia.
      rewrite Hlw. unfold places_of. cbn [t_places clear_log]. rewrite places_filter2, pl_same_refl.
      eexists. split; [reflexivity|].
      constructor; cbn [tk_store tk_sent tk_ids tk_where note_id k_imgs k_ids]; try assumption; try exact HI''; try exact Hids'.
      intros id img1 h1 Hl1. destruct (Hcache _ _ _ Hl1) as (c1 & Hin1 & Hc1). exists c1. split; [exact Hin1|apply Hsub, Hc1].
    - unfold places_of. cbn [t_places clear_log]. rewrite places_filter_id, pl_same_refl.
      eexists. split; [reflexivity|].
      constructor; cbn [tk_store tk_sent tk_ids tk_where note_id k_imgs k_ids]; try assumption; try exact HI''; try exact Hids'.
      intros id img1 h1 Hl1. destruct (Hcache _ _ _ Hl1) as (c1 & Hin1 & Hc1). exists c1. split; [exact Hin1|apply Hsub, Hc1].
  Qed.

  (* handle *)
  Lemma check_event lost st t ev : Sim st t ->
    exists t', check_step contents t
                 (match ev with EvKitty id pl err => SResp id pl err lost | EvOther => SOther end)
                 (fst (fst (handle st ev))) (if snd (handle st ev) then 1 else 0) = Good t' /\
               Sim (snd (fst (handle st ev))) t'.
  Proof.
    intros HS. destruct HS as [HI Hsent Hids Hwh Hcache Htab].
    pose proof HI as [Hcw He Hp Hi Hv Hpc Hir].
    pose proof (step_event_ok false lost st (tk_store t) ev ltac:(discriminate) HI) as [HI' _].
    rewrite term_step_items in HI' by (try assumption; exact I). cbn [step step_items] in HI'.
    assert (Hsnd : snd (let '(b, st', r) := handle st ev in (b, if r then 1 else 0, st')) = snd (fst (handle st ev)))
      by (destruct (handle st ev) as [[b st'] r]; reflexivity).
    rewrite Hsnd in HI'. clear Hsnd.
    assert (Hwfc : forall id img hash, lookup id (k_imgs st) = Some (img, hash) -> image_wf img)
      by (intros id img hash Hl; apply (Hcw id img hash Hl)).
    unfold check_step. rewrite (parse_handle st ev Hwfc). cbv zeta.
    destruct ev as [id pl err|].
    2:{ (* some other event: nothing written, false returned *)
        cbn [handle fst snd handle_items pre_store store_run fold_left] in *.
        rewrite (inv_errs _ _ _ HI'), (inv_pending _ _ _ HI'). cbn [N.eqb andb].
        change (0 =? 0) with true. cbn [andb].
        eexists. split; [reflexivity|].
        constructor; cbn [with_store tk_store tk_sent tk_ids tk_where]; assumption. }
    destruct err.
    2:{ (* OK response *)
        assert (E : handle_items st (EvKitty id pl false) = []) by (destruct pl; reflexivity).
        rewrite E in *. cbn [handle fst snd pre_store store_run fold_left] in *.
        rewrite (inv_errs _ _ _ HI'), (inv_pending _ _ _ HI').
        change (1 =? 1) with true. cbn [negb].
        eexists. split; [reflexivity|].
        constructor; cbn [with_store tk_store tk_sent tk_ids tk_where]; assumption. }
    (* error response: the predicate starts from the sentinel cursor with nothing saved *)
    clear HI'.
    replace (match lost with
             | true => store_forget id (clear_log (tk_store t))
             | false => clear_log (tk_store t)
             end) with (pre_err lost id (tk_store t)) by (destruct lost; reflexivity).
    set (pre := set_cursor (Some CUR_SENTINEL) None (pre_err lost id (tk_store t))) in *.
    destruct (pre_err_facts lost id (tk_store t)) as (Hs0 & Hp0' & He0).
    assert (Hs0' : t_sent pre = []) by exact Hs0.
    set (sent0 := filter (fun i => negb (i =? id)) (tk_sent t)).
    assert (Hsent0 : forall x, nmem x sent0 = nmem x (filter (fun y => negb (y =? id)) (keys st))).
    { intros x. unfold sent0. rewrite !nmem_filter, Hsent. reflexivity. }
    assert (Hdis : false = true -> lost = true) by discriminate.
    destruct (lookup id (k_imgs st)) as [[img hash]|] eqn:Hl.
    2:{ (* unknown to the handler *)
        assert (E : handle_items st (EvKitty id pl true) = []) by (unfold handle_items; rewrite Hl; destruct pl; reflexivity).
        assert (Eh : handle st (EvKitty id pl true) = ([], st, true)) by (unfold handle; rewrite Hl; reflexivity).
        assert (HIp : Inv false st pre).
        { apply inv_set_cursor. apply (inv_pre_err false lost st st (tk_store t) id Hdis Hl); [reflexivity|reflexivity|exact HI]. }
        rewrite E, Eh in *. cbn [fst snd store_run fold_left] in *.
        rewrite (inv_errs _ _ _ HIp), (inv_pending _ _ _ HIp).
        change (1 =? 1) with true. cbn [negb]. rewrite cur_eqb_refl, Hs0', pl_same_refl. cbn [negb].
        eexists. split; [reflexivity|].
        constructor; cbn [tk_store tk_sent tk_ids tk_where]; try assumption.
        intros x. fold sent0. rewrite Hsent0. unfold keys. rewrite filter_keys_absent by exact Hl. reflexivity. }
    destruct (Hcw _ _ _ Hl) as (Hlk & Hwf & Hne).
    pose proof (image_id_known st hash id Hlk) as Hid.
    assert (HIp1 : forall sup, Inv false (mkKitty (remove_key id (k_imgs st)) (k_ids st) sup) pre).
    { intros sup. apply inv_set_cursor. apply (inv_pre_err false lost st _ (tk_store t) id Hdis);
        [apply lookup_remove_same| |reflexivity|exact HI].
      cbn [k_imgs]. intros id' Hne'. apply lookup_remove_other, Hne'. }
    destruct pl as [p|].
    2:{ (* no placement: the image is only dropped from the cache *)
        assert (Eh : handle st (EvKitty id None true) = ([], mkKitty (remove_key id (k_imgs st)) (k_ids st) (k_suppress st), true))
          by (unfold handle; rewrite Hl; reflexivity).
        assert (E : handle_items st (EvKitty id None true) = []) by reflexivity.
        pose proof (HIp1 (k_suppress st)) as HIp.
        rewrite E, Eh in *. cbn [fst snd store_run fold_left] in *.
        rewrite (inv_errs _ _ _ HIp), (inv_pending _ _ _ HIp).
        change (1 =? 1) with true. cbn [negb]. rewrite cur_eqb_refl, Hs0', pl_same_refl. cbn [negb].
        eexists. split; [reflexivity|].
        constructor; cbn [tk_store tk_sent tk_ids tk_where k_imgs k_ids]; try assumption.
        - intros x. fold sent0. rewrite Hsent0. unfold keys. cbn [k_imgs]. rewrite keys_remove. reflexivity.
        - intros id' img1 h1 Hl1. cbn [k_imgs] in Hl1. apply remove_key_sub in Hl1 as [_ Hl1]. exact (Hcache _ _ _ Hl1). }
    (* placement: cursor save, move, re-transmission, placement, cursor restore *)
    destruct (redraw_run false st pre id p img hash (k_suppress st) Hcw Hir Hl (HIp1 (Some 2)) Hs0')
      as (HI' & Hs' & Hpl' & Hcur' & Hpids).
    cbv zeta in HI', Hs', Hpl', Hcur'.
    set (its := handle_items st (EvKitty id (Some p) true)) in *.
    set (s' := store_run pre its) in *.
    set (pos' := placement_to_pos p) in *.
    set (pid := placement_id pos') in *.
    assert (Enote : ids_note (k_ids st) hash = k_ids st) by (unfold ids_note; rewrite Hlk; reflexivity).
    assert (Eh : snd (handle st (EvKitty id (Some p) true)) = true /\
                 k_imgs (snd (fst (handle st (EvKitty id (Some p) true)))) = (id, (img, hash)) :: remove_key id (k_imgs st) /\
                 k_ids (snd (fst (handle st (EvKitty id (Some p) true)))) = k_ids st).
    { unfold handle. rewrite Hl.
      set (st1 := mkKitty (remove_key id (k_imgs st)) (k_ids st) (Some 2)).
      assert (Hid1 : image_id st1 hash = id) by exact Hid.
      assert (Hl1 : lookup (image_id st1 hash) (k_imgs st1) = None) by (rewrite Hid1; apply lookup_remove_same).
      rewrite (draw_fresh st1 img hash (placement_to_pos p) Hne Hl1).
      cbn [fst snd k_imgs k_ids]. change (k_ids st1) with (k_ids st). change (k_imgs st1) with (remove_key id (k_imgs st)).
      rewrite Hid1, Enote. repeat split; reflexivity. }
    destruct Eh as (Eret & Eimgs & Eids). rewrite Eret.
    rewrite (inv_errs _ _ _ HI'), (inv_pending _ _ _ HI').
    change (1 =? 1) with true. cbn [negb]. rewrite Hcur', cur_eqb_refl. cbn [negb]. rewrite Hs'.
    destruct (Hcache _ _ _ Hl) as (c & Hinw & Hcid).
    destruct (cid_of_id_some id (tk_ids t) c Hcid) as (c' & Hc').
    rewrite Hc'.
    assert (c' = c).
    { apply cid_of_id_in in Hc'. destruct (Hids c' id Hc') as (img2 & h2 & Hin2 & Hid2).
      apply (Wid img2 h2 c' img hash c Hin2 Hinw). exact (ids_ok_inj (k_ids st) h2 hash id Htab Hid2 Hlk). }
    subst c'. destruct (Wimg img hash c Hinw) as [_ Hcont]. rewrite Hcont.
    rewrite N.eqb_refl, timage_eqb_refl. cbn [andb negb]. rewrite Hpids.
    pose proof (placement_id_range pos') as Hpidr. fold pid in Hpidr.
    replace (pid =? 0) with false by lia.
    assert (Hafter : pl_same (places_of s') ((id, pid) :: filter (fun q => negb (fst q =? id)) (places_of pre)) = true).
    { unfold places_of. rewrite Hpl'. cbn [map fst]. rewrite places_filter, map_fst_filter_id. apply pl_same_add. }
    rewrite Hafter. cbn [negb].
    (* the tracker after the call, whatever the position table becomes *)
    assert (Hsim : forall w', where_ok w' -> Sim (snd (fst (handle st (EvKitty id (Some p) true))))
                                               (mkTrack s' (tk_ids t) (id :: sent0) w')).
    { intros w' Hw'. constructor; cbn [tk_store tk_sent tk_ids tk_where]; try assumption.
      - rewrite Enote in HI'. refine (inv_same_cache false _ _ s' _ _ _ HI').
        + exact Eimgs.
        + cbn [k_ids]. rewrite Eids. auto.
        + rewrite Eids. exact Hir.
      - intros x. change (nmem x (id :: sent0)) with ((x =? id) || nmem x sent0).
        rewrite Hsent0. unfold keys. rewrite Eimgs. cbn [map fst]. rewrite keys_remove. reflexivity.
      - unfold tids_ok. rewrite Eids. exact Hids.
      - intros id' img1 h1 Hl1. rewrite Eimgs in Hl1. cbn [lookup] in Hl1. destruct (id =? id') eqn:E.
        + apply N.eqb_eq in E. inversion Hl1; subst. exists c. split; assumption.
        + apply remove_key_sub in Hl1 as [_ Hl1]. exact (Hcache _ _ _ Hl1).
      - rewrite Eids. exact Htab. }
    destruct (ID_MAX <? p) eqn:Ebig.
    { eexists. split; [reflexivity|]. apply Hsim, Hwh. }
    assert (Hple : p <= ID_MAX) by lia.
    destruct (to_pos_ok p Hple) as [Hd' Hnc']. fold pos' in Hd', Hnc'.
    assert (Hrt : (1 <=? p) && negb (p =? pid) = false).
    { destruct (1 <=? p) eqn:E1; [|reflexivity]. cbn [andb].
      unfold pid, pos'. rewrite placement_roundtrip by lia. rewrite N.eqb_refl. reflexivity. }
    rewrite Hrt.
    assert (Hfind : find (fun e : place => (place_id e =? id) && (place_pid e =? pid)) (t_places s') =
                    Some (id, pid, Some pos')).
    { rewrite Hpl'. cbn [find place_id place_pid fst snd]. rewrite !N.eqb_refl. reflexivity. }
    rewrite Hfind.
    assert (Hsen : pos_eqb pos' CUR_SENTINEL = false).
    { unfold pos_eqb, CUR_SENTINEL, in_dom in *. cbn [fst snd]. destruct Hd' as [Hd1 Hd2]. lia. }
    rewrite Hsen.
    assert (Hwp : match where_pos id pid (tk_where t) with
                  | Some pos => negb (pos_eqb pos' pos)
                  | None => false
                  end = false).
    { destruct (where_pos id pid (tk_where t)) as [pos|] eqn:Ew; [|reflexivity].
      destruct (where_pos_sound id pid (tk_where t) pos Hwh Ew) as [Hpp [Hd Hc0]].
      destruct (placement_inj pos' pos Hd' Hd Hpp) as [X|[[X Y]|[X Y]]]; try contradiction.
      rewrite (proj2 (pos_eqb_eq pos' pos) X). reflexivity. }
    rewrite Hwp. rewrite (in_range_dom pos' Hd').
    destruct (learn_where_ok id pos' (tk_where t) Hwh (conj Hd' Hnc')) as (w' & Hlw & Hw' & _).
    fold pid in Hlw. rewrite Hlw.
    eexists. split; [reflexivity|]. apply Hsim, Hw'.
  Qed.

  (* ---------- all histories ---------- *)
  Definition op_ok (o : c11_op) : Prop :=
    match o with
    | CDraw k pos => (k < length imgs)%nat /\ pos_ok pos
    | CErase k (Some pos) => (k < length imgs)%nat /\ pos_ok pos
    | CErase k None => (k < length imgs)%nat
    | CResp _ _ _ _ | COther => True
    end.

  Lemma ids_note_length ids hash : (length (ids_note ids hash) <= S (length ids))%nat.
  Proof. unfold ids_note. destruct (lookup hash ids); cbn [length]; lia. Qed.

  Lemma draw_ids_length st img h pos : (length (k_ids (snd (draw st img h pos))) <= S (length (k_ids st)))%nat.
  Proof.
    unfold draw. destruct ((im_height img =? 0) || (im_width img =? 0)); [cbn [snd]; lia|].
    destruct (lookup (image_id st h) (k_imgs st)); cbn [snd k_ids]; apply ids_note_length.
  Qed.

  Lemma handle_ids_length st ev : (length (k_ids (snd (fst (handle st ev)))) <= S (length (k_ids st)))%nat.
  Proof.
    unfold handle. destruct ev as [id pl err|]; [|cbn; lia]. destruct err; [|cbn; lia].
    destruct (lookup id (k_imgs st)) as [[img hash]|]; [|cbn; lia]. destruct pl as [p|]; [|cbn; lia].
    pose proof (draw_ids_length (mkKitty (remove_key id (k_imgs st)) (k_ids st) (Some 2)) img hash (placement_to_pos p)) as H.
    destruct (draw _ img hash (placement_to_pos p)) as [b st2]. cbn [fst snd k_ids] in *. exact H.
  Qed.

  (* histories that do not exhaust the 2^32 - 1 image ids (each call uses at most one new id) *)
  Theorem check_history_model : forall ops st t, Sim st t -> Forall op_ok ops ->
    N.of_nat (length (k_ids st) + length ops) < KITTY_MAX_ID ->
    check_history contents t (map (spec_op imgs) ops) (run st (map (model_op imgs) ops)) = 0.
  Proof.
    induction ops as [|o r IH]; intros st t HS Hok Hroom; [reflexivity|].
    inversion Hok as [|? ? Ho Hr]; subst. cbn [map run check_history]. cbn [length] in Hroom.
    assert (Hroom1 : N.of_nat (S (length (k_ids st))) < KITTY_MAX_ID) by lia.
    destruct o as [k pos|k pos|id pl err lost|]; cbn [model_op spec_op op_ok] in *.
    - destruct Ho as [Hk Hpos]. pose proof (nth_In imgs dummy_img Hk) as Hin.
      destruct (nth k imgs dummy_img) as [[img h] c]. cbn [snd step].
      destruct (check_draw st t img h c pos HS Hin Hpos Hroom1) as (t' & Hc & HS').
      pose proof (draw_ids_length st img h pos) as Hlen.
      destruct (draw st img h pos) as [b st'] eqn:E. cbn [fst snd] in *.
      rewrite Hc, (IH st' t' HS' Hr) by lia. reflexivity.
    - assert (Hk : (k < length imgs)%nat) by (destruct pos; [apply Ho|exact Ho]).
      pose proof (nth_In imgs dummy_img Hk) as Hin.
      destruct (nth k imgs dummy_img) as [[img h] c]. cbn [snd step].
      assert (Hp : match pos with Some p => pos_ok p | None => True end) by (destruct pos; [apply Ho|exact I]).
      destruct (check_erase st t img h c pos HS Hin Hp Hroom1) as (t' & Hc & HS').
      pose proof (ids_note_length (k_ids st) h) as Hlen.
      cbn [erase fst snd] in *.
      rewrite Hc, (IH _ t' HS' Hr) by (cbn [note_id k_ids]; lia). reflexivity.
    - cbn [step]. destruct (check_event lost st t (EvKitty id pl err) HS) as (t' & Hc & HS').
      pose proof (handle_ids_length st (EvKitty id pl err)) as Hlen.
      destruct (handle st (EvKitty id pl err)) as [[b st'] ret] eqn:E. cbn [fst snd] in *.
      rewrite Hc, (IH st' t' HS' Hr) by lia. reflexivity.
    - cbn [step]. destruct (check_event true st t EvOther HS) as (t' & Hc & HS').
      pose proof (handle_ids_length st EvOther) as Hlen.
      destruct (handle st EvOther) as [[b st'] ret] eqn:E. cbn [fst snd] in *.
      rewrite Hc, (IH st' t' HS' Hr) by lia. reflexivity.
  Qed.
End World.

(* the model passes the predicate of the correspondence check on every well-formed case *)
Theorem model_meets_predicate (quiet : bool) (imgs : list c11_img) (contents : list content) (ops : list c11_op) :
  (forall img h c, In (img, h, c) imgs -> image_wf img /\ nth_error contents c = Some (content_rec img)) ->
  (forall i1 h1 c1 i2 h2 c2, In (i1, h1, c1) imgs -> In (i2, h2, c2) imgs -> (c1 = c2 <-> h1 = h2)) ->
  Forall (op_ok imgs) ops ->
  N.of_nat (length ops) < KITTY_MAX_ID ->
  c11_code (Case quiet imgs contents ops (c11_model (Case quiet imgs contents ops []))) = 0.
Proof.
  intros Wimg Wid Hok Hlen. cbn [c11_code c11_model].
  apply (check_history_model imgs contents Wimg Wid ops (kitty_new quiet) track0); [|exact Hok|exact Hlen].
  apply sim_init.
Qed.

(* ------------------------------------------------------------------------------------------ *)
(* The id table over histories.  The handler keeps TWO maps: `k_ids` (content hash -> id, never
   shrinks) and `k_imgs` (id -> image counted as transmitted; entries are dropped by error
   responses and never made by erase).  An id can therefore be assigned while nothing is filed
   under it (erase of a content never drawn, error response without placement).  The free-id probe
   has to look at `k_ids`: the statements below speak about every assigned id, transmitted or not,
   for arbitrary hash values (the hash is an input of every call: any hash function, any collision
   of the derived ids `hash mod 2^32-1 + 1`). *)
Lemma draw_ids st img hash pos :
  k_ids (snd (draw st img hash pos)) = k_ids st \/
  k_ids (snd (draw st img hash pos)) = ids_note (k_ids st) hash.
Proof.
  unfold draw. destruct ((im_height img =? 0) || (im_width img =? 0)); [left; reflexivity|].
  destruct (lookup (image_id st hash) (k_imgs st)); right; reflexivity.
Qed.

Lemma step_ids st o :
  k_ids (snd (step st o)) = k_ids st \/ exists hash, k_ids (snd (step st o)) = ids_note (k_ids st) hash.
Proof.
  destruct o as [img hash pos|img hash pos|ev]; cbn [step].
  - destruct (draw_ids st img hash pos) as [H|H]; destruct (draw st img hash pos) as [b st'];
      cbn [snd] in *; [left; exact H|right; exists hash; exact H].
  - right. exists hash. reflexivity.
  - unfold handle. destruct ev as [id pl err|]; [|left; reflexivity].
    destruct err; [|left; reflexivity].
    destruct (lookup id (k_imgs st)) as [[img hash]|]; [|left; reflexivity].
    destruct pl as [p|]; [|left; reflexivity].
    destruct (draw_ids (mkKitty (remove_key id (k_imgs st)) (k_ids st) (Some 2)) img hash (placement_to_pos p)) as [H|H];
      destruct (draw _ img hash (placement_to_pos p)) as [b st2]; cbn [snd fst k_ids] in *;
      [left; exact H|right; exists hash; exact H].
Qed.

Lemma ids_note_len ids hash : (length (ids_note ids hash) <= S (length ids))%nat.
Proof. unfold ids_note. destruct (lookup hash ids); cbn [length]; lia. Qed.

Lemma step_ids_ok st o : ids_ok (k_ids st) -> N.of_nat (S (length (k_ids st))) < KITTY_MAX_ID ->
  ids_ok (k_ids (snd (step st o))) /\
  (length (k_ids (snd (step st o))) <= S (length (k_ids st)))%nat /\
  (forall h i, lookup h (k_ids st) = Some i -> lookup h (k_ids (snd (step st o))) = Some i).
Proof.
  intros Hok Hroom. destruct (step_ids st o) as [H|[hash H]]; rewrite H.
  - split; [exact Hok|]. split; [lia|]. intros h i Hl. exact Hl.
  - split; [apply ids_note_ok; assumption|]. split; [apply ids_note_len|].
    intros h i Hl. apply lookup_note_kept, Hl.
Qed.

(* handler and terminal after a history (every call with its flag: terminal lost the image or not) *)
Fixpoint final_pair (st : kitty) (s : tstore) (ops : list (op * bool)) : kitty * tstore :=
  match ops with
  | [] => (st, s)
  | (o, lost) :: r => final_pair (snd (step st o)) (term_step lost st s o) r
  end.

Lemma final_inv strict : forall ops st s, Inv strict st s ->
  Forall (fun ol => op_wf (fst ol) /\ (strict = true -> snd ol = true)) ops ->
  Inv strict (fst (final_pair st s ops)) (snd (final_pair st s ops)).
Proof.
  induction ops as [|[o lost] r IH]; intros st s HI Hw; [exact HI|].
  inversion Hw as [|? ? [Ho Hl] Hr]; subst. cbn [final_pair fst snd] in *.
  apply IH; [|exact Hr]. exact (proj1 (step_ok strict lost st s o Hl HI Ho)).
Qed.

Lemma final_ids_ok : forall ops st s, ids_ok (k_ids st) ->
  N.of_nat (length (k_ids st) + length ops) < KITTY_MAX_ID ->
  ids_ok (k_ids (fst (final_pair st s ops))) /\
  (forall h i, lookup h (k_ids st) = Some i -> lookup h (k_ids (fst (final_pair st s ops))) = Some i).
Proof.
  induction ops as [|[o lost] r IH]; intros st s Hok Hroom; cbn [final_pair fst].
  - split; [exact Hok|]. intros h i H. exact H.
  - cbn [length] in Hroom.
    destruct (step_ids_ok st o Hok) as (Hok' & Hlen & Hkeep); [lia|].
    destruct (IH (snd (step st o)) (term_step lost st s o) Hok') as [H1 H2]; [lia|].
    split; [exact H1|]. intros h i Hl. apply H2, Hkeep, Hl.
Qed.

Lemma ids_ok_nil : ids_ok [].
Proof.
  constructor; cbn [map length].
  - intros h0 i0 H0. discriminate.
  - constructor.
  - constructor.
  - rewrite max_id_const. reflexivity.
Qed.

(* over every history on a new handler (hash values arbitrary, error responses genuine), at the end:
   (1) no two content hashes hold the same id -- transmitted or not;
   (2) what is counted as transmitted is filed under the id of its own hash and the terminal holds
       exactly its pixels under that id;
   (3) every placement on the terminal names an id under which such an image is filed.
   Hence every placement shows the pixels of the one content its id belongs to. *)
Theorem live_contents_distinct (quiet : bool) (ops : list op) :
  Forall op_wf ops -> N.of_nat (length ops) < KITTY_MAX_ID ->
  let fin := final_pair (kitty_new quiet) store0 (map (fun o => (o, true)) ops) in
  let st := fst fin in let s := snd fin in
  (forall h1 h2 i, lookup h1 (k_ids st) = Some i -> lookup h2 (k_ids st) = Some i -> h1 = h2) /\
  (forall id img hash, lookup id (k_imgs st) = Some (img, hash) ->
     lookup hash (k_ids st) = Some id /\ img_lookup id (t_images s) = Some (content_of img)) /\
  (forall p, In p (t_places s) -> exists img hash, lookup (place_id p) (k_imgs st) = Some (img, hash)).
Proof.
  intros Hw Hlen fin st s.
  assert (HI : Inv true st s).
  { apply final_inv; [apply inv_init|]. apply Forall_forall. intros [o l] Hin.
    apply in_map_iff in Hin as (o' & E & Hin'). inversion E; subst. cbn [fst snd]. split; [|reflexivity].
    rewrite Forall_forall in Hw. apply Hw, Hin'. }
  assert (Hok : ids_ok (k_ids st)).
  { apply final_ids_ok; [apply ids_ok_nil|]. cbn [kitty_new k_ids length]. rewrite map_length. exact Hlen. }
  destruct HI as [Hc He Hp Hi Hv Hpc Hir]. split; [|split].
  - intros h1 h2 i H1 H2. exact (ids_ok_inj (k_ids st) h1 h2 i Hok H1 H2).
  - intros id img hash Hl. split; [exact (proj1 (Hc id img hash Hl))|exact (Hi id img hash Hl)].
  - intros p Hin. specialize (Hpc eq_refl p Hin).
    destruct (lookup (place_id p) (k_imgs st)) as [[img hash]|]; [exists img, hash; reflexivity|contradiction].
Qed.
