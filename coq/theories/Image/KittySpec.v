(* The terminal side of the kitty graphics protocol, written from the protocol
   document (https://sw.kovidgoyal.net/kitty/graphics-protocol/), NOT from the
   handler's code: a parser for the byte stream a client writes (graphics APC
   commands  ESC _ G <control data> ; <payload> ESC \  plus the three cursor
   sequences the handler may interleave), an RFC 4648 decoder, and a small
   store of transmitted images and placements that interprets the commands.
   On top of it: the property predicate of C11 over a history of handler calls
   (check_history), which the correspondence check applies to the
   IMPLEMENTATION's bytes and which the theorems establish for the model.

   Protocol facts used (section names of the document):
   - "control data": comma separated key=value, keys are single letters, values
     are integers or single letters; defaults a=t, f=32, t=d, m=0, q=0, d=a;
     i (image id), p (placement id) range over 1..4294967295, 0 = unspecified.
   - "Remote client" chunking: chunks of at most 4096 bytes, all but the last
     a multiple of 4 and m=1, the last m=0; only the first chunk carries the
     full control data, later ones only m (and optionally q); no other
     graphics command may come in between.
   - f=32: payload is base64 of width*height*4 bytes RGBA, row-major; s, v
     must be present and non-zero.
   - a=p: the image must exist (ENOENT otherwise); p=0 creates a new anonymous
     placement, p<>0 replaces the placement with that id.
   - a=t for an existing id replaces the image and drops its placements.
   - a=d, d=i: delete the placements of image i, only placement p if p<>0;
     lowercase keeps the image data. *)
From Coq Require Import List NArith Bool.
Import ListNotations.
Local Open Scope N_scope.

(* ---------- generic list parsing ---------- *)
Fixpoint span (p : N -> bool) (l : list N) : list N * list N :=
  match l with
  | [] => ([], [])
  | x :: r => if p x then let (a, b) := span p r in (x :: a, b) else ([], l)
  end.

Fixpoint split_on (sep : N) (l : list N) : list (list N) :=
  match l with
  | [] => [[]]
  | x :: r =>
      if x =? sep then [] :: split_on sep r
      else match split_on sep r with
           | h :: t => (x :: h) :: t
           | [] => [[x]]
           end
  end.

Definition is_digit (c : N) : bool := (48 <=? c) && (c <=? 57).

Definition num_step (acc : option N) (c : N) : option N :=
  match acc with
  | Some a => if is_digit c then Some (a * 10 + (c - 48)) else None
  | None => None
  end.
(* non-empty string of decimal digits *)
Definition parse_num (l : list N) : option N :=
  match l with
  | [] => None
  | _ => fold_left num_step l (Some 0)
  end.

(* ---------- byte stream -> items ---------- *)
Inductive item :=
| IGfx (kvs : list (N * list N)) (payload : list N)
| ISave                       (* ESC 7 *)
| IRestore                    (* ESC 8 *)
| IMoveTo (row col : N).      (* CSI row ; col H, 1-based as written *)

Definition parse_kv (l : list N) : option (N * list N) :=
  match span (fun c => negb (c =? 61)) l with
  | ([k], 61 :: v) => Some (k, v)
  | _ => None
  end.

Fixpoint all_some {A} (l : list (option A)) : option (list A) :=
  match l with
  | [] => Some []
  | Some a :: r => option_map (cons a) (all_some r)
  | None :: _ => None
  end.

(* control data ; payload   (the ';' and the payload may be absent) *)
Definition parse_body (body : list N) : option item :=
  let (hdr, rest) := span (fun c => negb (c =? 59)) body in
  let payload := match rest with _ :: p => p | [] => [] end in
  match all_some (map parse_kv (split_on 44 hdr)) with
  | Some kvs => Some (IGfx kvs payload)
  | None => None
  end.

Fixpoint parse_items (fuel : nat) (l : list N) : option (list item) :=
  match fuel with
  | O => match l with [] => Some [] | _ => None end
  | S f =>
      match l with
      | [] => Some []
      | 27 :: 55 :: r => option_map (cons ISave) (parse_items f r)
      | 27 :: 56 :: r => option_map (cons IRestore) (parse_items f r)
      | 27 :: 91 :: r =>
          match span is_digit r with
          | (d1, 59 :: r1) =>
              match span is_digit r1 with
              | (d2, 72 :: r2) =>
                  match parse_num d1, parse_num d2 with
                  | Some a, Some b => option_map (cons (IMoveTo a b)) (parse_items f r2)
                  | _, _ => None
                  end
              | _ => None
              end
          | _ => None
          end
      | 27 :: 95 :: 71 :: r =>
          match span (fun c => negb (c =? 27)) r with
          | (body, 27 :: 92 :: r') =>
              match parse_body body with
              | Some it => option_map (cons it) (parse_items f r')
              | None => None
              end
          | _ => None
          end
      | _ => None
      end
  end.

Definition parse_stream (l : list N) : option (list item) := parse_items (length l) l.

(* ---------- RFC 4648 decoding (alphabet of section 4, padding only in the last group) ---------- *)
Definition b64_val (c : N) : option N :=
  if (65 <=? c) && (c <=? 90) then Some (c - 65)
  else if (97 <=? c) && (c <=? 122) then Some (c - 71)
  else if (48 <=? c) && (c <=? 57) then Some (c + 4)
  else if c =? 43 then Some 62
  else if c =? 47 then Some 63
  else None.

Fixpoint b64_decode (l : list N) : option (list N) :=
  match l with
  | [] => Some []
  | a :: b :: c :: d :: r =>
      match b64_val a, b64_val b with
      | Some x, Some y =>
          if c =? 61 then
            match r with
            | [] => if d =? 61 then Some [x * 4 + y / 16] else None
            | _ => None
            end
          else
            match b64_val c with
            | None => None
            | Some z =>
                if d =? 61 then
                  match r with
                  | [] => Some [x * 4 + y / 16; (y mod 16) * 16 + z / 4]
                  | _ => None
                  end
                else
                  match b64_val d with
                  | None => None
                  | Some u =>
                      option_map (fun t => x * 4 + y / 16 :: (y mod 16) * 16 + z / 4 :: (z mod 4) * 64 + u :: t)
                                 (b64_decode r)
                  end
            end
      | _, _ => None
      end
  | _ => None
  end.

(* ---------- control data access ---------- *)
Fixpoint kv_get (k : N) (kvs : list (N * list N)) : option (list N) :=
  match kvs with
  | [] => None
  | (k', v) :: r => if k' =? k then Some v else kv_get k r
  end.

(* numeric key with default; None = present but not a number *)
Definition kv_num (k : N) (kvs : list (N * list N)) (dflt : N) : option N :=
  match kv_get k kvs with
  | None => Some dflt
  | Some v => parse_num v
  end.
(* single-letter key with default; None = present but not one byte *)
Definition kv_chr (k : N) (kvs : list (N * list N)) (dflt : N) : option N :=
  match kv_get k kvs with
  | None => Some dflt
  | Some [c] => Some c
  | Some _ => None
  end.

(* key letters *)
Definition k_a := 97. Definition k_f := 102. Definition k_t := 116. Definition k_s := 115.
Definition k_v := 118. Definition k_i := 105. Definition k_p := 112. Definition k_m := 109.
Definition k_q := 113. Definition k_d := 100. Definition k_o := 111. Definition k_C := 67.
Definition k_I := 73.
(* every key the document defines for a=t/T/p/d/q commands *)
Definition known_keys : list N :=
  [97; 113; 102; 116; 115; 118; 83; 79; 105; 73; 112; 111; 109;
   120; 121; 119; 104; 88; 89; 99; 114; 67; 85; 122; 80; 81; 72; 86; 100].
Definition keys_known (kvs : list (N * list N)) : bool :=
  forallb (fun e => existsb (N.eqb (fst e)) known_keys) kvs.

Definition ID_MAX : N := 4294967295.
Definition CHUNK_MAX : nat := 4096.

(* ---------- terminal-side store ---------- *)
Record timage := mkTimage { ti_w : N; ti_h : N; ti_data : list N }.
Record pending := mkPending {
  pd_id : N; pd_w : N; pd_h : N; pd_show : bool; pd_pid : N; pd_chunks : list (list N) }.
Definition place : Type := (N * N * option (N * N))%type.    (* image id, placement id (0 = anonymous), cursor *)
Record tstore := mkStore {
  t_images : list (N * timage);
  t_places : list place;
  t_pending : option pending;          (* chunked transmission in progress *)
  t_cursor : option (N * N);           (* cursor position (0-based row, col) when known *)
  t_saved : option (option (N * N));   (* cursor saved by ESC 7 *)
  t_sent : list (N * timage);          (* log: completed transmissions, most recent first *)
  t_errs : list N }.                   (* protocol errors, most recent first *)

Definition store0 : tstore := mkStore [] [] None None None [] [].

(* error codes *)
Definition E_KEY := 1.      (* unknown key or malformed value *)
Definition E_CHUNK := 3.    (* chunk longer than 4096 bytes or not a multiple of 4, or empty *)
Definition E_B64 := 4.      (* payload is not base64 *)
Definition E_SIZE := 5.     (* decoded size <> s*v*4 *)
Definition E_NOENT := 6.    (* put of an image that was not transmitted *)
Definition E_ID := 7.       (* id missing (0) or out of range *)
Definition E_ACTION := 8.   (* action / delete target outside the subset interpreted here *)
Definition E_CONT := 9.     (* continuation chunk carries other keys than m, q *)
Definition E_DIM := 10.     (* s or v missing or zero *)
Definition E_INTER := 11.   (* other output in the middle of a chunked transmission *)
Definition E_FMT := 12.     (* format / medium / compression other than f=32, t=d, none *)

Definition add_err (e : N) (s : tstore) : tstore :=
  mkStore (t_images s) (t_places s) (t_pending s) (t_cursor s) (t_saved s) (t_sent s) (e :: t_errs s).

Fixpoint img_lookup (id : N) (l : list (N * timage)) : option timage :=
  match l with
  | [] => None
  | (k, v) :: r => if k =? id then Some v else img_lookup id r
  end.

Definition place_id (p : place) : N := fst (fst p).
Definition place_pid (p : place) : N := snd (fst p).

(* a=p *)
Definition do_put (id pid : N) (s : tstore) : tstore :=
  if (id =? 0) || (ID_MAX <? id) || (ID_MAX <? pid) then add_err E_ID s
  else match img_lookup id (t_images s) with
       | None => add_err E_NOENT s
       | Some _ =>
           let others :=
             if pid =? 0 then t_places s
             else filter (fun p => negb ((place_id p =? id) && (place_pid p =? pid))) (t_places s) in
           mkStore (t_images s) ((id, pid, t_cursor s) :: others) (t_pending s) (t_cursor s) (t_saved s)
                   (t_sent s) (t_errs s)
       end.

Definition chunk_ok (c : list N) : bool :=
  (Nat.leb (length c) CHUNK_MAX) && (Nat.eqb (Nat.modulo (length c) 4) 0) && negb (Nat.eqb (length c) 0).

(* all chunks received: decode, check, store *)
Definition finish_transmit (pd : pending) (s : tstore) : tstore :=
  let s := mkStore (t_images s) (t_places s) None (t_cursor s) (t_saved s) (t_sent s) (t_errs s) in
  if negb (forallb chunk_ok (pd_chunks pd)) then add_err E_CHUNK s
  else match b64_decode (concat (pd_chunks pd)) with
       | None => add_err E_B64 s
       | Some data =>
           if (pd_w pd =? 0) || (pd_h pd =? 0) then add_err E_DIM s
           else if negb (N.of_nat (length data) =? pd_w pd * pd_h pd * 4) then add_err E_SIZE s
           else if (pd_id pd =? 0) || (ID_MAX <? pd_id pd) then add_err E_ID s
           else
             let im := mkTimage (pd_w pd) (pd_h pd) data in
             let s1 := mkStore ((pd_id pd, im) :: filter (fun e => negb (fst e =? pd_id pd)) (t_images s))
                               (filter (fun p => negb (place_id p =? pd_id pd)) (t_places s))
                               None (t_cursor s) (t_saved s) ((pd_id pd, im) :: t_sent s) (t_errs s) in
             if pd_show pd then do_put (pd_id pd) (pd_pid pd) s1 else s1
       end.

Definition set_pending (pd : pending) (s : tstore) : tstore :=
  mkStore (t_images s) (t_places s) (Some pd) (t_cursor s) (t_saved s) (t_sent s) (t_errs s).

(* a=d with delete target d, image id and placement id (0 = not given) *)
Definition delete_sel (d id pid : N) (s : tstore) : tstore :=
  if (d =? 97) || (d =? 65) then   (* a / A: all placements *)
    mkStore (t_images s) [] (t_pending s) (t_cursor s) (t_saved s) (t_sent s) (t_errs s)
  else if (d =? 105) || (d =? 73) then   (* i / I *)
    if (id =? 0) || (ID_MAX <? id) || (ID_MAX <? pid) then add_err E_ID s
    else
      let keep := filter (fun p => negb ((place_id p =? id) && ((pid =? 0) || (place_pid p =? pid))))
                         (t_places s) in
      let imgs :=
        if (d =? 73) && negb (existsb (fun p => place_id p =? id) keep)
        then filter (fun e => negb (fst e =? id)) (t_images s) else t_images s in
      mkStore imgs keep (t_pending s) (t_cursor s) (t_saved s) (t_sent s) (t_errs s)
  else add_err E_ACTION s.

Definition do_delete (kvs : list (N * list N)) (s : tstore) : tstore :=
  match kv_chr k_d kvs 97, kv_num k_i kvs 0, kv_num k_p kvs 0 with
  | Some d, Some id, Some pid => delete_sel d id pid s
  | _, _, _ => add_err E_KEY s
  end.

Definition gfx_step (kvs : list (N * list N)) (payload : list N) (s : tstore) : tstore :=
  if negb (keys_known kvs) then add_err E_KEY s
  else
    match t_pending s with
    | Some pd =>
        (* continuation chunk *)
        if negb (forallb (fun e => (fst e =? k_m) || (fst e =? k_q)) kvs) then add_err E_CONT s
        else match kv_num k_m kvs 0 with
             | None => add_err E_KEY s
             | Some m =>
                 let pd' := mkPending (pd_id pd) (pd_w pd) (pd_h pd) (pd_show pd) (pd_pid pd)
                                      (pd_chunks pd ++ [payload]) in
                 if m =? 1 then set_pending pd' s
                 else if m =? 0 then finish_transmit pd' s
                 else add_err E_KEY s
             end
    | None =>
        match kv_chr k_a kvs 116 with
        | None => add_err E_KEY s
        | Some a =>
            if (a =? 116) || (a =? 84) then   (* t / T *)
              match kv_num k_f kvs 32, kv_chr k_t kvs 100, kv_get k_o kvs,
                    kv_num k_s kvs 0, kv_num k_v kvs 0, kv_num k_i kvs 0, kv_num k_p kvs 0, kv_num k_m kvs 0 with
              | Some f, Some t, o, Some w, Some h, Some id, Some pid, Some m =>
                  if negb ((f =? 32) && (t =? 100) && match o with None => true | Some _ => false end)
                  then add_err E_FMT s
                  else
                    let pd := mkPending id w h (a =? 84) pid [payload] in
                    if m =? 1 then set_pending pd s
                    else if m =? 0 then finish_transmit pd s
                    else add_err E_KEY s
              | _, _, _, _, _, _, _, _ => add_err E_KEY s
              end
            else if a =? 112 then   (* p *)
              match kv_num k_i kvs 0, kv_num k_p kvs 0 with
              | Some id, Some pid => do_put id pid s
              | _, _ => add_err E_KEY s
              end
            else if a =? 100 then do_delete kvs s
            else if a =? 113 then s        (* query: no effect on the store *)
            else add_err E_ACTION s
        end
    end.

Definition set_cursor (c : option (N * N)) (sv : option (option (N * N))) (s : tstore) : tstore :=
  mkStore (t_images s) (t_places s) (t_pending s) c sv (t_sent s) (t_errs s).

Definition item_step (s : tstore) (it : item) : tstore :=
  match it with
  | IGfx kvs payload => gfx_step kvs payload s
  | _ =>
      let s := match t_pending s with Some _ => add_err E_INTER s | None => s end in
      match it with
      | ISave => set_cursor (t_cursor s) (Some (t_cursor s)) s
      (* restoring without a saved cursor puts the cursor home *)
      | IRestore => set_cursor (match t_saved s with Some c => c | None => Some (0, 0) end) (t_saved s) s
      | IMoveTo r c =>
          (* parameters are 1-based; 0 means 1 *)
          set_cursor (Some (N.pred (N.max r 1), N.pred (N.max c 1))) (t_saved s) s
      | IGfx _ _ => s
      end
  end.

Definition store_run (s : tstore) (its : list item) : tstore := fold_left item_step its s.

(* the terminal lost image id (what an ENOENT response reports): image and placements gone *)
Definition store_forget (id : N) (s : tstore) : tstore :=
  mkStore (filter (fun e => negb (fst e =? id)) (t_images s))
          (filter (fun p => negb (place_id p =? id)) (t_places s))
          (t_pending s) (t_cursor s) (t_saved s) (t_sent s) (t_errs s).

Definition clear_log (s : tstore) : tstore :=
  mkStore (t_images s) (t_places s) (t_pending s) (t_cursor s) (t_saved s) [] (t_errs s).

(* ---------- the property predicate over a history ---------- *)
Record content := mkContent { c_w : N; c_h : N; c_pix : list N }.   (* expected RGBA bytes, row-major *)

Inductive sop :=
| SDraw (cid : nat) (pos : N * N)
| SErase (cid : nat) (pos : option (N * N))
| SResp (id : N) (pl : option N) (err : bool) (lost : bool)   (* lost: the terminal no longer holds the image *)
| SOther.

Record track := mkTrack {
  tk_store : tstore;
  tk_ids : list (nat * N);              (* content -> image id, learned from the bytes *)
  tk_sent : list N;                     (* ids transmitted since the last error response naming them *)
  tk_where : list (N * (N * N) * N) }.  (* (image id, position) -> placement id, learned from the bytes *)

Definition track0 : track := mkTrack store0 [] [] [].

Definition nmem (x : N) (l : list N) : bool := existsb (N.eqb x) l.
Definition pos_eqb (a b : N * N) : bool := (fst a =? fst b) && (snd a =? snd b).
Definition in_range (p : N * N) : bool := (fst p <? 65536) && (snd p <? 65536).

Definition pl_eqb (a b : N * N) : bool := (fst a =? fst b) && (snd a =? snd b).
Definition pl_mem (x : N * N) (l : list (N * N)) : bool := existsb (pl_eqb x) l.
Definition pl_subset (a b : list (N * N)) : bool := forallb (fun x => pl_mem x b) a.
Definition pl_same (a b : list (N * N)) : bool := pl_subset a b && pl_subset b a.
Definition places_of (s : tstore) : list (N * N) := map fst (t_places s).

Definition timage_eqb (a : timage) (c : content) : bool :=
  (ti_w a =? c_w c) && (ti_h a =? c_h c) &&
  (Nat.eqb (length (ti_data a)) (length (c_pix c))) &&
  forallb (fun xy => fst xy =? snd xy) (combine (ti_data a) (c_pix c)).

(* the `i` values named by the first-chunk / put / delete commands of one call *)
Definition ids_named (its : list item) : option (list N) :=
  all_some (flat_map (fun it => match it with
                               | IGfx kvs _ => match kv_get k_i kvs with
                                               | Some v => [parse_num v]
                                               | None => []
                                               end
                               | _ => []
                               end) its).
(* the `p` values of the put / delete commands of one call *)
Definition pids_named (its : list item) : option (list N) :=
  all_some (flat_map (fun it => match it with
                               | IGfx kvs _ =>
                                   match kv_chr k_a kvs 116, kv_get k_p kvs with
                                   | Some a, Some v => if (a =? 112) || (a =? 100) then [parse_num v] else []
                                   | _, _ => []
                                   end
                               | _ => []
                               end) its).
Definition only_gfx (its : list item) : bool :=
  forallb (fun it => match it with IGfx _ _ => true | _ => false end) its.

Fixpoint cid_of_id (id : N) (l : list (nat * N)) : option nat :=
  match l with
  | [] => None
  | (c, i) :: r => if i =? id then Some c else cid_of_id id r
  end.
Fixpoint id_of_cid (c : nat) (l : list (nat * N)) : option N :=
  match l with
  | [] => None
  | (c', i) :: r => if Nat.eqb c' c then Some i else id_of_cid c r
  end.

(* learn / check content <-> id: a content always gets the same id, two contents never share one *)
Definition learn_id (cid : nat) (id : N) (ids : list (nat * N)) : option (list (nat * N)) :=
  match id_of_cid cid ids, cid_of_id id ids with
  | Some i, _ => if i =? id then Some ids else None
  | None, Some _ => None
  | None, None => Some ((cid, id) :: ids)
  end.

(* learn / check (id, position) <-> placement id; injectivity is demanded for coordinates < 65536 *)
Definition learn_where (id : N) (pos : N * N) (pid : N) (w : list (N * (N * N) * N))
  : option (list (N * (N * N) * N)) :=
  if forallb (fun e => let '(i, p, q) := e in
                       negb (i =? id)
                       || (if pos_eqb p pos then q =? pid
                           else negb (q =? pid) || negb (in_range p && in_range pos))) w
  then Some (if existsb (fun e => let '(i, p, q) := e in (i =? id) && pos_eqb p pos) w then w
             else (id, pos, pid) :: w)
  else None.
Definition where_pid (id : N) (pos : N * N) (w : list (N * (N * N) * N)) : option N :=
  match find (fun e => let '(i, p, q) := e in (i =? id) && pos_eqb p pos) w with
  | Some (_, _, q) => Some q
  | None => None
  end.
(* only positions with coordinates below 65536 (the domain of the property) are looked up *)
Definition where_pos (id pid : N) (w : list (N * (N * N) * N)) : option (N * N) :=
  match find (fun e => let '(i, p, q) := e in (i =? id) && (q =? pid) && in_range p) w with
  | Some (_, p, _) => Some p
  | None => None
  end.

Definition cur_eqb (a b : option (N * N)) : bool :=
  match a, b with
  | Some x, Some y => pos_eqb x y
  | None, None => true
  | _, _ => false
  end.

(* a cursor position outside every terminal (rows and columns are below 65536) *)
Definition CUR_SENTINEL : N * N := (4294967296, 4294967296).

Definition with_store (t : track) (s : tstore) : track := mkTrack s (tk_ids t) (tk_sent t) (tk_where t).

(* result of checking one call: the next tracker or a reason code *)
Inductive verdict := Good (t : track) | Bad (code : N).

Definition check_step (contents : list content) (t : track) (o : sop) (bytes : list N) (ret : N) : verdict :=
  match parse_stream bytes with
  | None => Bad 101                              (* not a sequence of well-formed escape codes *)
  | Some its =>
      (* an error response may be genuine (the terminal has lost the image: lost = true) or spurious.
         Before a response is handled the cursor is at a position no call can move it to and nothing is
         saved, so that "the cursor is put back" is observable: restore-without-save ends at home. *)
      let pre := match o with
                 | SResp id _ true lost =>
                     set_cursor (Some CUR_SENTINEL) None
                       (if lost then store_forget id (clear_log (tk_store t)) else clear_log (tk_store t))
                 | _ => clear_log (tk_store t)
                 end in
      let s' := store_run pre its in
      match t_errs s', t_pending s' with
      | e :: _, _ => Bad (200 + e)              (* protocol error reported by the terminal side *)
      | [], Some _ => Bad 104                   (* chunked transmission left open *)
      | [], None =>
          let before := places_of pre in
          let after := places_of s' in
          match o with
          | SOther =>
              if (ret =? 0) && match bytes with [] => true | _ => false end then Good (with_store t s') else Bad 140
          | SDraw cid pos =>
              match nth_error contents cid with
              | None => Bad 199
              | Some c =>
                  if negb (ret =? 0) then Bad 100
                  else if negb (only_gfx its) then Bad 102       (* draw must not move the cursor *)
                  else if (c_w c =? 0) || (c_h c =? 0) then
                    (* nothing to show: no transmission, no placement *)
                    match t_sent s' with
                    | [] => if pl_same before after then Good (with_store t s') else Bad 115
                    | _ => Bad 116
                    end
                  else
                    match ids_named its, pids_named its with
                    | Some (id :: ids), Some [pid] =>
                        if negb (forallb (N.eqb id) ids) then Bad 105
                        else match learn_id cid id (tk_ids t) with
                             | None => Bad 106
                             | Some ids' =>
                                 (* transmitted exactly when not transmitted since the last error response for
                                    the id -- except that after a spurious error the terminal still holds the
                                    image: then not sending it again is fine as well *)
                                 let held := match img_lookup id (t_images pre) with
                                             | Some im => timage_eqb im c
                                             | None => false
                                             end in
                                 let sent_ok :=
                                   if nmem id (tk_sent t) then match t_sent s' with [] => true | _ => false end
                                   else match t_sent s' with
                                        | [(i, im)] => (i =? id) && timage_eqb im c
                                        | [] => held
                                        | _ => false
                                        end in
                                 if negb sent_ok then Bad (if nmem id (tk_sent t) then 108 else 109)
                                 else if pid =? 0 then Bad 112
                                 (* a transmission replaces the image: the terminal drops its old placements *)
                                 else if negb (pl_same after
                                                 ((id, pid) :: match t_sent s' with
                                                               | [] => before
                                                               | _ => filter (fun p => negb (fst p =? id)) before
                                                               end)) then Bad 110
                                 else match learn_where id pos pid (tk_where t) with
                                      | None => Bad 113
                                      | Some w' =>
                                          Good (mkTrack s' ids' (match t_sent s' with
                                                                 | [] => tk_sent t
                                                                 | _ => id :: tk_sent t
                                                                 end) w')
                                      end
                             end
                    | _, _ => Bad 111
                    end
              end
          | SErase cid pos =>
              if negb (ret =? 0) then Bad 100
              else if negb (only_gfx its) then Bad 102
              else match t_sent s' with
                   | _ :: _ => Bad 121
                   | [] =>
                       match ids_named its with
                       | Some (id :: ids) =>
                           if negb (forallb (N.eqb id) ids) then Bad 105
                           else match learn_id cid id (tk_ids t) with
                                | None => Bad 106
                                | Some ids' =>
                                    match pos with
                                    | None =>
                                        if pl_same after (filter (fun p => negb (fst p =? id)) before)
                                        then Good (mkTrack s' ids' (tk_sent t) (tk_where t)) else Bad 122
                                    | Some pos =>
                                        match pids_named its with
                                        | Some [pid] =>
                                            if pid =? 0 then Bad 112
                                            else match learn_where id pos pid (tk_where t) with
                                                 | None => Bad 113
                                                 | Some w' =>
                                                     if pl_same after (filter (fun p => negb (pl_eqb p (id, pid))) before)
                                                     then Good (mkTrack s' ids' (tk_sent t) w') else Bad 120
                                                 end
                                        | _ => Bad 111
                                        end
                                    end
                                end
                       | _ => Bad 111
                       end
                   end
          | SResp id pl err _ =>
              if negb (ret =? 1) then Bad 100
              else if negb err then
                match bytes with [] => Good (with_store t s') | _ => Bad 130 end
              else
                let sent0 := filter (fun i => negb (i =? id)) (tk_sent t) in
                if negb (cur_eqb (t_cursor s') (t_cursor pre)) then Bad 136      (* the cursor is put back *)
                else
                match t_sent s' with
                | [] =>
                    (* nothing re-transmitted: then no placement is created or removed either *)
                    if pl_same after before then Good (mkTrack s' (tk_ids t) sent0 (tk_where t)) else Bad 133
                | [(i, im)] =>
                    match cid_of_id id (tk_ids t) with
                    | None => Bad 131
                    | Some cid =>
                        match nth_error contents cid with
                        | None => Bad 199
                        | Some c =>
                            if negb ((i =? id) && timage_eqb im c) then Bad 109
                            else
                              match pids_named its with
                              | Some [pid] =>
                                  if pid =? 0 then Bad 112
                                  (* exactly one placement, of this image; its old placements went with the old data *)
                                  else if negb (pl_same after ((id, pid) :: filter (fun p => negb (fst p =? id)) before))
                                  then Bad 134
                                  else
                                    match pl with
                                    | Some p =>
                                        if ID_MAX <? p then
                                          (* not an id a terminal can report: no expectation on where it goes *)
                                          Good (mkTrack s' (tk_ids t) (id :: sent0) (tk_where t))
                                        else if (1 <=? p) && negb (p =? pid) then Bad 135   (* the reported placement is re-created *)
                                        else
                                          (* where: the cursor position at the time of the placement command *)
                                          match find (fun e => (place_id e =? id) && (place_pid e =? pid)) (t_places s') with
                                          | Some (_, _, Some cp) =>
                                              if pos_eqb cp CUR_SENTINEL then Bad 137   (* the cursor was not moved *)
                                              else
                                              if match where_pos id pid (tk_where t) with
                                                 | Some pos => negb (pos_eqb cp pos)      (* where draw had put it *)
                                                 | None => false
                                                 end then Bad 132
                                              else match (if in_range cp then learn_where id cp pid (tk_where t)
                                                          else Some (tk_where t)) with
                                                   | None => Bad 113
                                                   | Some w' => Good (mkTrack s' (tk_ids t) (id :: sent0) w')
                                                   end
                                          | _ => Bad 137    (* placed without moving the cursor to a known position *)
                                          end
                                    | None => Good (mkTrack s' (tk_ids t) (id :: sent0) (tk_where t))
                                    end
                              | _ => Bad 111
                              end
                        end
                    end
                | _ => Bad 108
                end
          end
      end
  end.

Fixpoint check_history (contents : list content) (t : track) (ops : list sop) (outs : list (list N * N))
  : N :=   (* 0 = the property predicate holds of this history; otherwise step index * 1000 + reason *)
  match ops, outs with
  | [], [] => 0
  | o :: ops', (bytes, ret) :: outs' =>
      match check_step contents t o bytes ret with
      | Good t' =>
          match check_history contents t' ops' outs' with
          | 0 => 0
          | n => n + 1000
          end
      | Bad c => c
      end
  | _, _ => 198       (* a call did not return (panic) *)
  end.

(* ---------- "at most once between error responses", "every placement names a transmitted image" ---------- *)
(* a trace entry per call: the id named by the error response the call delivered (if it was one),
   and the ids whose pixel data the call transmitted; `live` = ids transmitted since the last error
   response naming them *)
Fixpoint once_scan (live : list N) (tr : list (option N * list N)) : bool :=
  match tr with
  | [] => true
  | (e, sent) :: r =>
      let live0 := match e with Some id => filter (fun x => negb (x =? id)) live | None => live end in
      match sent with
      | [] => once_scan live0 r
      | [i] => negb (nmem i live0) && once_scan (i :: live0) r
      | _ => false
      end
  end.

Definition places_valid (s : tstore) : Prop :=
  forall p, In p (t_places s) -> img_lookup (place_id p) (t_images s) <> None.
