(* Proofs about Image/Octree.v, part 1: well-formedness invariant (with STALE cached
   infos: a cached leaf count may over-count, never under-count), preservation by
   insert / prune_rec / prune, termination of prune_until within oc_measure rounds,
   and the palette size bounds 1 <= |palette| <= max(k, 8). *)
From Coq Require Import List NArith ZArith Bool Lia Arith.
From Coq Require Import ZifyBool ZifyNat ZifyN.
From SNT Require Import Base.Outcome Image.KDTree Image.Octree Image.OctreePath Gen.TabOctree.
Import ListNotations.

Arguments N.add : simpl never.
Arguments N.sub : simpl never.
Arguments N.mul : simpl never.
Arguments N.eqb : simpl never.
Arguments N.ltb : simpl never.
Arguments N.leb : simpl never.
Arguments N.min : simpl never.
Arguments N.max : simpl never.

(* ---------- induction over the nested tree ---------- *)

Fixpoint node_ind' (P : node -> Prop) (HE : P Empty) (HL : forall l, P (Leaf l))
         (HT : forall i rm ch, Forall P ch -> P (Tree i rm ch)) (n : node) : P n :=
  match n with
  | Empty => HE
  | Leaf l => HL l
  | Tree i rm ch =>
      HT i rm ch ((fix go (l : list node) : Forall P l :=
                     match l with
                     | [] => Forall_nil _
                     | x :: r => Forall_cons _ (node_ind' P HE HL HT x) (go r)
                     end) ch)
  end.

(* ---------- list helpers: map_at / set_at / sums ---------- *)

Definition lsum (g : node -> nat) (l : list node) : nat :=
  fold_right (fun c acc => g c + acc)%nat 0%nat l.

Lemma lsum_cons g x l : lsum g (x :: l) = (g x + lsum g l)%nat.
Proof. reflexivity. Qed.

Lemma map_at_length f l k : length (map_at f l k) = length l.
Proof. revert k. induction l as [|x r IH]; intros [|k]; cbn; auto. Qed.

Lemma set_at_length k v l : length (set_at k v l) = length l.
Proof. apply map_at_length. Qed.

Lemma map_at_nth_same f l k :
  (k < length l)%nat -> nth k (map_at f l k) Empty = f (nth k l Empty).
Proof.
  revert k. induction l as [|x r IH]; intros [|k] H; cbn in *; try lia; [reflexivity|].
  apply IH. lia.
Qed.

Lemma map_at_nth_other f l k j :
  j <> k -> nth j (map_at f l k) Empty = nth j l Empty.
Proof.
  revert k j. induction l as [|x r IH]; intros [|k] [|j] H; cbn; try reflexivity; try lia.
  apply IH. lia.
Qed.

Lemma map_at_In f l k c :
  In c (map_at f l k) -> In c l \/ ((k < length l)%nat /\ c = f (nth k l Empty)).
Proof.
  revert k. induction l as [|x r IH]; intros [|k]; cbn; try tauto.
  - intros [<-|H]; [right; split; [lia|reflexivity]|left; now right].
  - intros [<-|H]; [left; now left|]. destruct (IH _ H) as [H1|[H1 H2]]; [left; now right|right; split; [lia|exact H2]].
Qed.

Lemma map_at_sum g f l k :
  (k < length l)%nat ->
  (lsum g (map_at f l k) + g (nth k l Empty) = lsum g l + g (f (nth k l Empty)))%nat.
Proof.
  revert k. induction l as [|x r IH]; intros [|k] H; cbn [length] in H; try lia.
  - cbn [map_at nth]. rewrite !lsum_cons. lia.
  - cbn [map_at nth]. rewrite !lsum_cons. specialize (IH k ltac:(lia)). lia.
Qed.

Lemma map_at_Forall (P : node -> Prop) f l k :
  Forall P l -> P (f (nth k l Empty)) -> Forall P (map_at f l k).
Proof.
  intros Hl Hf. rewrite Forall_forall in *. intros c Hc.
  destruct (map_at_In _ _ _ _ Hc) as [H|[_ ->]]; [apply Hl, H|exact Hf].
Qed.

Lemma nth_Forall (P : node -> Prop) l k : Forall P l -> P Empty -> P (nth k l Empty).
Proof.
  intros Hl He. destruct (Nat.lt_ge_cases k (length l)) as [H|H].
  - rewrite Forall_forall in Hl. apply Hl, nth_In, H.
  - rewrite nth_overflow by lia. exact He.
Qed.

Lemma lsum_le g h l :
  Forall (fun c => (g c <= h c)%nat) l -> (lsum g l <= lsum h l)%nat.
Proof. induction 1; [cbn; lia|]. rewrite !lsum_cons. lia. Qed.

Lemma lsum_nth_le g l k : (g (nth k l Empty) <= lsum g l + g Empty)%nat.
Proof.
  revert k. induction l as [|x r IH]; intros [|k]; cbn [nth]; rewrite ?lsum_cons; try lia.
  specialize (IH k). lia.
Qed.

(* ---------- leaves, infos ---------- *)

Fixpoint nleaves (n : node) : nat :=
  match n with
  | Empty => 0
  | Leaf _ => 1
  | Tree _ _ ch => lsum nleaves ch
  end.

Lemma flat_map_length_lsum ch :
  Forall (fun c => length (leaves_of c) = nleaves c) ch ->
  length (flat_map leaves_of ch) = lsum nleaves ch.
Proof. induction 1; [reflexivity|]. cbn [flat_map]. rewrite app_length, lsum_cons. lia. Qed.

Lemma leaves_of_length n : length (leaves_of n) = nleaves n.
Proof.
  induction n as [| l | i rm ch IH] using node_ind'; cbn; try reflexivity.
  apply flat_map_length_lsum, IH.
Qed.

Lemma oc_leaves_length t : length (oc_leaves t) = lsum nleaves (o_children t).
Proof.
  unfold oc_leaves. apply flat_map_length_lsum. apply Forall_forall. intros c _. apply leaves_of_length.
Qed.

Definition nsum (g : node -> N) (l : list node) : N :=
  fold_right (fun c acc => g c + acc)%N 0%N l.

Lemma from_slice_leaves_acc ch acc :
  i_leaves (fold_left (fun a n => info_join a (node_info n)) ch acc)
  = (i_leaves acc + nsum (fun c => i_leaves (node_info c)) ch)%N.
Proof.
  revert acc. induction ch as [|x r IH]; intros acc; cbn [fold_left nsum fold_right]; [lia|].
  rewrite IH. cbn [info_join i_leaves]. fold (nsum (fun c => i_leaves (node_info c)) r). lia.
Qed.

Lemma from_slice_leaves ch :
  i_leaves (from_slice ch) = nsum (fun c => i_leaves (node_info c)) ch.
Proof. unfold from_slice. rewrite from_slice_leaves_acc. cbn. lia. Qed.

Lemma from_slice_min_acc ch acc :
  i_min (fold_left (fun a n => info_join a (node_info n)) ch acc) = None <->
  i_min acc = None /\ Forall (fun c => i_min (node_info c) = None) ch.
Proof.
  revert acc. induction ch as [|x r IH]; intros acc; cbn [fold_left].
  - split; [intros H; split; [exact H|constructor]|intros [H _]; exact H].
  - rewrite IH. cbn [info_join i_min]. split.
    + intros [H1 H2]. destruct (i_min acc), (i_min (node_info x)) eqn:E; try discriminate.
      split; [reflexivity|constructor; assumption].
    + intros [H1 H2]. inversion H2 as [|? ? Hx Hr]; subst. rewrite H1, Hx. split; [reflexivity|exact Hr].
Qed.

Lemma from_slice_min ch :
  i_min (from_slice ch) = None <-> Forall (fun c => i_min (node_info c) = None) ch.
Proof. unfold from_slice. rewrite from_slice_min_acc. cbn. tauto. Qed.

(* ---------- well-formedness ---------- *)

Lemma lsum_In g l c : In c l -> (g c <= lsum g l)%nat.
Proof.
  induction l as [|x r IH]; [intros []|]. rewrite lsum_cons. intros [->|H]; [lia|]. specialize (IH H). lia.
Qed.

Lemma lsum_pos_ex g l : (1 <= lsum g l)%nat -> exists c, In c l /\ (1 <= g c)%nat.
Proof.
  induction l as [|x r IH]; [cbn; lia|]. rewrite lsum_cons. intros H.
  destruct (Nat.eq_dec (g x) 0) as [E|E].
  - destruct IH as (c & Hc & Hg); [lia|]. exists c. split; [now right|exact Hg].
  - exists x. split; [now left|lia].
Qed.

Lemma nsum_cons g x l : nsum g (x :: l) = (g x + nsum g l)%N.
Proof. reflexivity. Qed.

(* ---------- machine words: how large the accumulators can get ---------- *)

(* a channel sum is at most 255 per counted colour *)
Definition ratio (l : leaf) : Prop :=
  (l_r l <= 255 * l_n l /\ l_g l <= 255 * l_n l /\ l_b l <= 255 * l_n l)%N.

(* number of colours a node accounts for: its leaves and the `removed` accumulators *)
Fixpoint mass (n : node) : N :=
  match n with
  | Empty => 0
  | Leaf l => l_n l
  | Tree _ rm ch => l_n rm + nsum mass ch
  end.

(* M colours can be accumulated in the declared types (Gen/TabOctree.v) *)
Definition fits_bound (M : N) : Prop := (255 * M < leaf_acc_limit /\ M < leaf_count_limit)%N.

(* ASSUMPTION of the C13/C12 theorems: an image has at most 2^56 pixels (2^58 bytes of RGBA,
   beyond any allocation on the 64-bit targets).  The declared widths are adequate for it;
   this lemma is re-checked against the regenerated widths on every run and fails for
   accumulators narrower than 64 bits. *)
Definition max_pixels : N := 72057594037927936.

Lemma widths_adequate n : (n <= max_pixels)%N -> fits_bound n.
Proof. unfold fits_bound, max_pixels, leaf_acc_limit, leaf_count_limit. lia. Qed.

Lemma limits_are_powers :
  leaf_acc_limit = (2 ^ leaf_acc_bits)%N /\ leaf_count_limit = (2 ^ leaf_count_bits)%N.
Proof. split; vm_compute; reflexivity. Qed.

Lemma machine_words :
  (forall n, (n <= max_pixels)%N -> (255 * n < leaf_acc_limit /\ n < leaf_count_limit)%N) /\
  leaf_acc_limit = (2 ^ leaf_acc_bits)%N /\ leaf_count_limit = (2 ^ leaf_count_bits)%N /\
  (max_pixels < 2 ^ info_leaf_bits /\ max_pixels < 2 ^ info_color_bits /\ max_pixels < 2 ^ info_min_bits /\
   max_pixels < 2 ^ leaf_index_bits)%N /\
  (3 * 255 * 255 < 2 ^ kd_dist_bits)%N /\ (255 < 2 ^ kd_color_bits)%N /\
  rnd_state_bits = 32%N /\ (16 <= color_error_significand_bits)%N /\
  (* a palette has at most one entry per pixel: every index fits the k-d node's index field *)
  (max_pixels < 2 ^ kd_index_bits)%N.
Proof.
  split; [exact widths_adequate|]. split; [apply limits_are_powers|]. split; [apply limits_are_powers|].
  split; [repeat split; vm_compute; reflexivity|]. split; [vm_compute; reflexivity|].
  split; [vm_compute; reflexivity|]. split; [reflexivity|]. split; [vm_compute; discriminate|].
  vm_compute; reflexivity.
Qed.

Lemma fits_bound_mono a b : (a <= b)%N -> fits_bound b -> fits_bound a.
Proof. unfold fits_bound. lia. Qed.

Lemma ratio_fits l M : ratio l -> (l_n l <= M)%N -> fits_bound M -> leaf_fits l = true.
Proof. unfold ratio, fits_bound, leaf_fits. lia. Qed.

Lemma ratio_new : ratio leaf_new.
Proof. unfold ratio. cbn. lia. Qed.

Lemma ratio_of c : rgb_ok c = true -> ratio (leaf_of c).
Proof. destruct c as [[r g] b]. unfold rgb_ok, ratio. cbn. lia. Qed.

Lemma ratio_add l c : ratio l -> rgb_ok c = true -> ratio (leaf_add l c).
Proof. destruct c as [[r g] b]. unfold rgb_ok, ratio. cbn. lia. Qed.

Lemma ratio_join l m : ratio l -> ratio m -> ratio (leaf_join l m).
Proof. unfold ratio. cbn. lia. Qed.

Lemma leaf_add_n l c : l_n (leaf_add l c) = (l_n l + 1)%N.
Proof. destruct c as [[r g] b]. reflexivity. Qed.

Lemma leaf_add_chk_ok l c M :
  ratio l -> rgb_ok c = true -> (l_n l + 1 <= M)%N -> fits_bound M ->
  leaf_add_chk l c = Ok (leaf_add l c).
Proof.
  intros Hr Hc Hn Hf. unfold leaf_add_chk.
  rewrite (ratio_fits _ M (ratio_add l c Hr Hc)); [reflexivity| |exact Hf]. rewrite leaf_add_n. exact Hn.
Qed.

Lemma leaf_join_chk_ok l m M :
  ratio l -> ratio m -> (l_n l + l_n m <= M)%N -> fits_bound M ->
  leaf_join_chk l m = Ok (leaf_join l m).
Proof.
  intros Hl Hm Hn Hf. unfold leaf_join_chk.
  rewrite (ratio_fits _ M (ratio_join l m Hl Hm)); [reflexivity| |exact Hf]. cbn. exact Hn.
Qed.

(* h = number of path steps still to be taken when insertion arrives at this node *)
Inductive wf_node : nat -> node -> Prop :=
| wf_empty h : wf_node h Empty
| wf_leaf h l : (1 <= l_n l)%N -> ratio l -> wf_node h (Leaf l)
| wf_tree h i rm ch :
    length ch = 8%nat ->
    Forall (wf_node h) ch ->
    (1 <= lsum nleaves ch)%nat ->                         (* a tree never loses its last leaf *)
    (N.of_nat (lsum nleaves ch) <= i_leaves i)%N ->       (* the cache never under-counts *)
    i_min i <> None ->
    ratio rm ->                                           (* also what was removed is a sum of bytes *)
    wf_node (S h) (Tree i rm ch).

Lemma wf_info_bound h c : wf_node h c -> (N.of_nat (nleaves c) <= i_leaves (node_info c))%N.
Proof. destruct 1; cbn; lia. Qed.

Lemma wf_min_none h c : wf_node h c -> (i_min (node_info c) = None <-> c = Empty).
Proof. destruct 1; cbn; split; try discriminate; try reflexivity; try congruence. Qed.

Lemma wf_nonempty_leaves h c : wf_node h c -> c <> Empty -> (1 <= nleaves c)%nat.
Proof. destruct 1; intros Hne; [congruence|cbn; lia|cbn [nleaves]; assumption]. Qed.

Lemma nleaves_pos_nonempty c : (1 <= nleaves c)%nat -> c <> Empty.
Proof. intros H ->. cbn in H. lia. Qed.

Lemma nsum_le g h l : Forall (fun c => (g c <= h c)%N) l -> (nsum g l <= nsum h l)%N.
Proof. induction 1; [cbn; lia|]. rewrite !nsum_cons. lia. Qed.

Lemma nsum_bound h ch :
  Forall (wf_node h) ch ->
  (N.of_nat (lsum nleaves ch) <= nsum (fun c => i_leaves (node_info c)) ch)%N.
Proof.
  induction 1 as [|x r Hx Hr IH]; [cbn; lia|]. rewrite lsum_cons, nsum_cons.
  pose proof (wf_info_bound _ _ Hx). lia.
Qed.

Lemma mk_tree_wf h rm ch :
  length ch = 8%nat -> Forall (wf_node h) ch -> (1 <= lsum nleaves ch)%nat -> ratio rm ->
  wf_node (S h) (Tree (from_slice ch) rm ch).
Proof.
  intros Hlen Hall Hpos Hrm. constructor; try assumption.
  - rewrite from_slice_leaves. apply (nsum_bound h), Hall.
  - intros Hn. apply from_slice_min in Hn.
    destruct (lsum_pos_ex _ _ Hpos) as (c & Hc & Hg).
    rewrite Forall_forall in Hn, Hall. specialize (Hn c Hc). specialize (Hall c Hc).
    apply (wf_min_none _ _ Hall) in Hn. subst c. cbn in Hg. lia.
Qed.

Lemma wf_leaves_pos n : forall h, wf_node h n -> Forall (fun l => (1 <= l_n l)%N) (leaves_of n).
Proof.
  induction n as [| l | i rm ch IH] using node_ind'; intros h Hw; cbn [leaves_of].
  - constructor.
  - inversion Hw; subst. constructor; [assumption|constructor].
  - inversion Hw as [| |h' ? ? ? Hlen Hall Hpos Hb Hm Hrm]; subst.
    apply Forall_forall. intros l Hl. apply in_flat_map in Hl. destruct Hl as (c & Hc & Hl).
    rewrite Forall_forall in IH, Hall. specialize (IH c Hc h' (Hall c Hc)).
    rewrite Forall_forall in IH. apply IH, Hl.
Qed.

(* ---------- argmin ---------- *)

Lemma argmin_from_spec l : forall k0 best,
  match argmin_from k0 best l with
  | None => best = None /\ Forall (fun c => i_min (node_info c) = None) l
  | Some (k, v) =>
      best = Some (k, v) \/
      ((k0 <= k < k0 + length l)%nat /\ i_min (node_info (nth (k - k0) l Empty)) = Some v)
  end.
Proof.
  induction l as [|x r IH]; intros k0 best; cbn [argmin_from].
  - destruct best as [[k v]|]; [now left|split; [reflexivity|constructor]].
  - match goal with |- context [argmin_from (S k0) ?b r] => set (best' := b) end.
    specialize (IH (S k0) best').
    destruct (argmin_from (S k0) best' r) as [[k v]|].
    + destruct IH as [Hb|[Hk Hv]].
      * subst best'. destruct (i_min (node_info x)) as [vx|] eqn:Ex.
        -- destruct best as [[bk bv]|].
           ++ destruct (vx <? bv)%N.
              ** inversion Hb; subst. right. split; [cbn; lia|].
                 replace (k - k)%nat with 0%nat by lia. exact Ex.
              ** now left.
           ++ inversion Hb; subst. right. split; [cbn; lia|].
              replace (k - k)%nat with 0%nat by lia. exact Ex.
        -- now left.
      * right. split; [cbn [length]; lia|].
        replace (k - k0)%nat with (S (k - S k0)) by lia. exact Hv.
    + destruct IH as [Hb Hall]. subst best'.
      destruct (i_min (node_info x)) as [vx|] eqn:Ex.
      * destruct best as [[bk bv]|]; [destruct (vx <? bv)%N|]; discriminate.
      * split; [exact Hb|constructor; assumption].
Qed.

Lemma argmin_none ch : argmin ch = None -> Forall (fun c => i_min (node_info c) = None) ch.
Proof.
  unfold argmin. pose proof (argmin_from_spec ch 0 None) as H.
  destruct (argmin_from 0 None ch) as [[k v]|]; [discriminate|]. intros _. apply H.
Qed.

Lemma argmin_some ch k :
  argmin ch = Some k -> (k < length ch)%nat /\ i_min (node_info (nth k ch Empty)) <> None.
Proof.
  unfold argmin. pose proof (argmin_from_spec ch 0 None) as H.
  destruct (argmin_from 0 None ch) as [[k' v]|]; [|discriminate]. intros E. inversion E; subst.
  destruct H as [H|[H1 H2]]; [discriminate|]. rewrite Nat.sub_0_r in H2. split; [lia|congruence].
Qed.

Lemma argmin_wf h ch :
  Forall (wf_node h) ch -> (1 <= lsum nleaves ch)%nat ->
  exists k, argmin ch = Some k /\ (k < length ch)%nat /\ nth k ch Empty <> Empty.
Proof.
  intros Hall Hpos. destruct (argmin ch) as [k|] eqn:E.
  - exists k. destruct (argmin_some _ _ E) as [Hk Hm]. repeat split; try assumption.
    intros Hc. rewrite Hc in Hm. now apply Hm.
  - exfalso. apply argmin_none in E. destruct (lsum_pos_ex _ _ Hpos) as (c & Hc & Hg).
    rewrite Forall_forall in E, Hall. specialize (E c Hc).
    apply (wf_min_none _ _ (Hall c Hc)) in E. subst c. cbn in Hg. lia.
Qed.

Lemma all_empty_false l : all_empty l = false -> exists c, In c l /\ c <> Empty.
Proof.
  unfold all_empty. induction l as [|x r IH]; cbn; [discriminate|].
  destruct x; cbn; [intros H; destruct (IH H) as (c & Hc & Hn); exists c; split; [now right|exact Hn]| |];
    intros _; eexists; (split; [now left|discriminate]).
Qed.

Lemma nonempty_lsum_pos h l :
  Forall (wf_node h) l -> (exists c, In c l /\ c <> Empty) -> (1 <= lsum nleaves l)%nat.
Proof.
  intros Hall (c & Hc & Hn). rewrite Forall_forall in Hall.
  pose proof (wf_nonempty_leaves _ _ (Hall c Hc) Hn). pose proof (lsum_In nleaves l c Hc). lia.
Qed.

(* ---------- prune_rec ---------- *)

Lemma node_measure_tree i rm ch : node_measure (Tree i rm ch) = (2 + lsum node_measure ch)%nat.
Proof. reflexivity. Qed.

Lemma map_at_o_ok f l k y :
  (k < length l)%nat -> f (nth k l Empty) = Ok y -> map_at_o f l k = Ok (set_at k y l).
Proof.
  revert k. induction l as [|x r IH]; intros [|k] Hk Hf; cbn [length] in Hk; try lia.
  - cbn [map_at_o nth] in *. rewrite Hf. reflexivity.
  - cbn [map_at_o nth] in *. rewrite (IH k ltac:(lia) Hf). reflexivity.
Qed.

Lemma set_at_nth_same k v l : (k < length l)%nat -> nth k (set_at k v l) Empty = v.
Proof. intros H. unfold set_at. now rewrite map_at_nth_same. Qed.

Lemma prune_rec_tree_eq i rm ch :
  prune_rec (Tree i rm ch) =
  match argmin ch with
  | None => Ok (Leaf rm)
  | Some k =>
      match nth k ch Empty with
      | Empty => Panic 13005
      | Leaf l =>
          let* rm' := leaf_join_chk rm l in
          if all_empty (set_at k Empty ch) then Ok (Leaf rm')
          else Ok (Tree i rm' (set_at k Empty ch))
      | Tree _ _ _ =>
          let* ch1 := map_at_o prune_rec ch k in
          match nth k ch1 Empty with
          | Leaf l =>
              if all_empty (set_at k Empty ch) then (let* rm' := leaf_join_chk rm l in Ok (Leaf rm'))
              else Ok (Tree (from_slice ch1) rm ch1)
          | _ => Ok (Tree (from_slice ch1) rm ch1)
          end
      end
  end.
Proof. reflexivity. Qed.

Definition is_tree (n : node) : bool := match n with Tree _ _ _ => true | _ => false end.

Lemma mass_tree i rm ch : mass (Tree i rm ch) = (l_n rm + nsum mass ch)%N.
Proof. reflexivity. Qed.

Lemma map_at_nsum g f l k :
  (k < length l)%nat ->
  (nsum g (map_at f l k) + g (nth k l Empty) = nsum g l + g (f (nth k l Empty)))%N.
Proof.
  revert k. induction l as [|x r IH]; intros [|k] H; cbn [length] in H; try lia.
  - cbn [map_at nth]. rewrite !nsum_cons. lia.
  - cbn [map_at nth]. rewrite !nsum_cons. specialize (IH k ltac:(lia)). lia.
Qed.

Lemma nsum_nth_le g l k : (g (nth k l Empty) <= nsum g l + g Empty)%N.
Proof.
  revert k. induction l as [|x r IH]; intros [|k]; cbn [nth]; rewrite ?nsum_cons; try lia.
  specialize (IH k). lia.
Qed.

Lemma all_empty_mass l : all_empty l = true -> nsum mass l = 0%N.
Proof.
  unfold all_empty. induction l as [|x r IH]; [reflexivity|]. cbn [forallb]. intros H.
  apply andb_true_iff in H. destruct H as [Hx Hr]. destruct x; try discriminate.
  rewrite nsum_cons, (IH Hr). reflexivity.
Qed.

Lemma wf_leaf_mass h l : wf_node h (Leaf l) -> (1 <= l_n l)%N /\ ratio l.
Proof. intros H. inversion H; subst. split; assumption. Qed.

(* pruning a well-formed subtree never reaches the unreachable!() arm nor overflows an
   accumulator, keeps it well formed and non-empty, keeps its mass, and strictly decreases
   the measure *)
Lemma prune_rec_wf n : forall h,
  wf_node h n -> is_tree n = true -> fits_bound (mass n) ->
  exists n', prune_rec n = Ok n' /\ wf_node h n' /\ n' <> Empty /\
             (node_measure n' < node_measure n)%nat /\ mass n' = mass n.
Proof.
  induction n as [| l | i rm ch IH] using node_ind'; intros h Hw Ht Hfit; try discriminate. clear Ht.
  inversion Hw as [| |h' ? ? ? Hlen Hall Hpos Hb Hm Hrm]; subst.
  rewrite prune_rec_tree_eq, node_measure_tree. rewrite mass_tree in Hfit |- *.
  destruct (argmin_wf _ _ Hall Hpos) as (k & -> & Hk & Hne).
  pose proof (nth_Forall _ ch k Hall (wf_empty h')) as Hwc.
  pose proof (nsum_nth_le mass ch k) as Hmk. cbn [mass] in Hmk.
  destruct (nth k ch Empty) as [| l | ci crm cch] eqn:Ec; [congruence| |].
  - (* the least populated child is a leaf: it moves into `removed`, info stays *)
    destruct (wf_leaf_mass _ _ Hwc) as [Hl1 Hlr]. cbn [mass] in Hmk.
    pose proof (map_at_sum nleaves (fun _ => Empty) ch k Hk) as Sl.
    pose proof (map_at_sum node_measure (fun _ => Empty) ch k Hk) as Sm.
    pose proof (map_at_nsum mass (fun _ => Empty) ch k Hk) as Sw.
    rewrite Ec in Sl, Sm, Sw. cbn [nleaves node_measure mass] in Sl, Sm, Sw.
    fold (set_at k Empty ch) in Sl, Sm, Sw.
    rewrite (leaf_join_chk_ok rm l (l_n rm + nsum mass ch) Hrm Hlr ltac:(lia) Hfit). cbn [bind].
    destruct (all_empty (set_at k Empty ch)) eqn:Ea; eexists; (split; [reflexivity|]).
    + pose proof (all_empty_mass _ Ea) as Hz.
      split; [constructor; [cbn; lia|apply ratio_join; assumption]|]. split; [discriminate|].
      split; [cbn [node_measure]; lia|]. cbn [mass leaf_join l_n]. lia.
    + assert (Hall' : Forall (wf_node h') (set_at k Empty ch)) by (apply map_at_Forall; [exact Hall|constructor]).
      split; [|split; [discriminate|split; [rewrite node_measure_tree; lia|]]].
      * constructor; try assumption.
        -- now rewrite set_at_length.
        -- apply (nonempty_lsum_pos h'); [exact Hall'|apply all_empty_false, Ea].
        -- lia.
        -- apply ratio_join; assumption.
      * rewrite mass_tree. cbn [leaf_join l_n]. lia.
  - (* a subtree: prune it, collapse if it became the only (leaf) child *)
    assert (Hin : In (Tree ci crm cch) ch) by (rewrite <- Ec; apply nth_In, Hk).
    rewrite Forall_forall in IH.
    assert (Hfc : fits_bound (mass (Tree ci crm cch))) by (eapply fits_bound_mono; [|exact Hfit]; lia).
    destruct (IH _ Hin h' Hwc eq_refl Hfc) as (c' & Hpc & Hw' & Hne' & Hlt & Hmc).
    rewrite (map_at_o_ok prune_rec ch k c' Hk) by (rewrite Ec; exact Hpc). cbn [bind].
    set (ch1 := set_at k c' ch).
    assert (Hn1 : nth k ch1 Empty = c') by (unfold ch1; apply set_at_nth_same, Hk).
    assert (Hall1 : Forall (wf_node h') ch1) by (apply map_at_Forall; [exact Hall|exact Hw']).
    assert (Hlen1 : length ch1 = 8%nat) by (unfold ch1; now rewrite set_at_length).
    assert (Hpos1 : (1 <= lsum nleaves ch1)%nat).
    { apply (nonempty_lsum_pos h'); [exact Hall1|]. exists (nth k ch1 Empty). split.
      - apply nth_In. lia.
      - rewrite Hn1. exact Hne'. }
    pose proof (map_at_sum node_measure (fun _ => c') ch k Hk) as Sm. fold (set_at k c' ch) in Sm. fold ch1 in Sm.
    rewrite Ec in Sm. cbv beta in Sm.
    pose proof (map_at_nsum mass (fun _ => c') ch k Hk) as Sw. fold (set_at k c' ch) in Sw. fold ch1 in Sw.
    rewrite Ec in Sw. cbv beta in Sw.
    assert (Hgen : exists n', Ok (Tree (from_slice ch1) rm ch1) = Ok n' /\ wf_node (S h') n' /\ n' <> Empty /\
                   (node_measure n' < 2 + lsum node_measure ch)%nat /\ mass n' = (l_n rm + nsum mass ch)%N).
    { eexists. split; [reflexivity|]. split; [apply mk_tree_wf; assumption|]. split; [discriminate|].
      split; [rewrite node_measure_tree; lia|]. rewrite mass_tree. lia. }
    rewrite Hn1. destruct c' as [| l' | ? ? ?]; try exact Hgen.
    destruct (all_empty (set_at k Empty ch)) eqn:Ea; [|exact Hgen].
    destruct (wf_leaf_mass _ _ Hw') as [Hl1 Hlr]. cbn [mass] in Hmc.
    pose proof (map_at_nsum mass (fun _ => Empty) ch k Hk) as Sz. fold (set_at k Empty ch) in Sz.
    rewrite Ec, (all_empty_mass _ Ea) in Sz. cbv beta in Sz. cbn [mass] in Sz.
    rewrite (leaf_join_chk_ok rm l' (l_n rm + nsum mass ch) Hrm Hlr ltac:(lia) Hfit). cbn [bind].
    eexists. split; [reflexivity|]. split; [constructor; [cbn; lia|apply ratio_join; assumption]|].
    split; [discriminate|]. split; [cbn [node_measure]; lia|]. cbn [mass leaf_join l_n]. lia.
Qed.

(* ---------- the root ---------- *)

Definition uval (c : node) : N := match c with Tree i _ _ => i_leaves i | _ => 1%N end.

Record wf_oc (t : octree) : Prop := mkWfOc {
  wo_len : length (o_children t) = 8%nat;
  wo_all : Forall (wf_node 7) (o_children t);
  wo_bound : (N.of_nat (lsum nleaves (o_children t)) <= i_leaves (o_info t))%N;
  (* the root's own cache is recomputed less often than it should be; what survives is
     that it never exceeds one per slot plus the caches of the subtree children *)
  wo_slots : (i_leaves (o_info t) <= nsum uval (o_children t))%N;
  wo_removed : ratio (o_removed t) }.

Definition oc_mass (t : octree) : N := (l_n (o_removed t) + nsum mass (o_children t))%N.

Lemma nsum_uval_no_tree l :
  Forall (fun c => is_tree c = false) l -> nsum uval l = N.of_nat (length l).
Proof.
  induction 1 as [|x r Hx Hr IH]; [reflexivity|]. rewrite nsum_cons, IH. cbn [length].
  destruct x; cbn in *; try discriminate; lia.
Qed.

Lemma has_tree_child t :
  wf_oc t -> (8 < i_leaves (o_info t))%N -> exists c, In c (o_children t) /\ is_tree c = true.
Proof.
  intros [Hlen _ _ Hs] H.
  destruct (existsb is_tree (o_children t)) eqn:E.
  - apply existsb_exists in E. exact E.
  - exfalso. assert (Forall (fun c => is_tree c = false) (o_children t)).
    { apply Forall_forall. intros c Hc. destruct (is_tree c) eqn:Ec; [|reflexivity].
      assert (existsb is_tree (o_children t) = true) by (apply existsb_exists; eauto). congruence. }
    rewrite (nsum_uval_no_tree _ H0), Hlen in Hs. lia.
Qed.

Lemma from_slice_slots ch : (i_leaves (from_slice ch) <= nsum uval ch)%N.
Proof.
  rewrite from_slice_leaves. apply nsum_le. apply Forall_forall. intros c _. destruct c; cbn; lia.
Qed.

Lemma oc_measure_eq t : oc_measure t = lsum node_measure (o_children t).
Proof. reflexivity. Qed.

Lemma oc_prune_wf t :
  wf_oc t -> (exists c, In c (o_children t) /\ is_tree c = true) -> fits_bound (oc_mass t) ->
  exists t', oc_prune t = Ok t' /\
  wf_oc t' /\ (oc_measure t' < oc_measure t)%nat /\
  (1 <= lsum nleaves (o_children t'))%nat /\ oc_mass t' = oc_mass t.
Proof.
  intros [Hlen Hall Hb Hs Hrm] (ct & Hct & Htree) Hfit. unfold oc_mass in *.
  assert (Hpos : (1 <= lsum nleaves (o_children t))%nat).
  { apply (nonempty_lsum_pos 7); [exact Hall|]. exists ct. split; [exact Hct|]. destruct ct; discriminate. }
  unfold oc_prune. rewrite !oc_measure_eq.
  destruct (argmin_wf _ _ Hall Hpos) as (k & -> & Hk & Hne).
  pose proof (nth_Forall _ (o_children t) k Hall (wf_empty 7)) as Hwc.
  pose proof (nsum_nth_le mass (o_children t) k) as Hmk. cbn [mass] in Hmk.
  destruct (nth k (o_children t) Empty) as [| l | ci crm cch] eqn:Ec; [congruence| |].
  - (* a leaf directly under the root is dropped; the root's info is not refreshed *)
    destruct (wf_leaf_mass _ _ Hwc) as [Hl1 Hlr]. cbn [mass] in Hmk.
    pose proof (map_at_sum nleaves (fun _ => Empty) (o_children t) k Hk) as Sl.
    pose proof (map_at_sum node_measure (fun _ => Empty) (o_children t) k Hk) as Sm.
    pose proof (map_at_nsum uval (fun _ => Empty) (o_children t) k Hk) as Su.
    pose proof (map_at_nsum mass (fun _ => Empty) (o_children t) k Hk) as Sw.
    rewrite Ec in Sl, Sm, Su, Sw. cbn [nleaves node_measure uval mass] in Sl, Sm, Su, Sw.
    fold (set_at k Empty (o_children t)) in Sl, Sm, Su, Sw.
    rewrite (leaf_join_chk_ok (o_removed t) l (l_n (o_removed t) + nsum mass (o_children t)) Hrm Hlr ltac:(lia) Hfit). cbn [bind].
    eexists. split; [reflexivity|]. rewrite oc_measure_eq. cbn [o_children o_info o_removed].
    assert (Hall' : Forall (wf_node 7) (set_at k Empty (o_children t)))
      by (apply map_at_Forall; [exact Hall|constructor]).
    split; [constructor; cbn [o_children o_info o_removed]; try assumption; try lia;
            [now rewrite set_at_length|apply ratio_join; assumption]|].
    split; [lia|]. split; [|cbn [leaf_join l_n]; lia].
    (* the subtree child is still there *)
    destruct (In_nth _ _ Empty Hct) as (j & Hj & Hjn).
    assert (j <> k) by (intros ->; rewrite Ec in Hjn; subst ct; discriminate).
    assert (In ct (set_at k Empty (o_children t))).
    { rewrite <- Hjn. rewrite <- (map_at_nth_other (fun _ => Empty) _ k j H).
      apply nth_In. unfold set_at in *. rewrite map_at_length. exact Hj. }
    apply (nonempty_lsum_pos 7); [exact Hall'|]. exists ct. split; [assumption|destruct ct; discriminate].
  - assert (Hfc : fits_bound (mass (Tree ci crm cch))) by (eapply fits_bound_mono; [|exact Hfit]; lia).
    destruct (prune_rec_wf _ 7 Hwc eq_refl Hfc) as (c' & Hpc & Hw' & Hne' & Hlt & Hmc).
    rewrite (map_at_o_ok prune_rec (o_children t) k c' Hk) by (rewrite Ec; exact Hpc). cbn [bind].
    eexists. split; [reflexivity|]. rewrite oc_measure_eq. cbn [o_children o_info o_removed].
    set (ch1 := set_at k c' (o_children t)).
    assert (Hn1 : nth k ch1 Empty = c') by (unfold ch1; apply set_at_nth_same, Hk).
    assert (Hall1 : Forall (wf_node 7) ch1) by (apply map_at_Forall; [exact Hall|exact Hw']).
    assert (Hlen1 : length ch1 = 8%nat) by (unfold ch1; now rewrite set_at_length).
    assert (Hpos1 : (1 <= lsum nleaves ch1)%nat).
    { apply (nonempty_lsum_pos 7); [exact Hall1|]. exists (nth k ch1 Empty). split.
      - apply nth_In. lia.
      - rewrite Hn1. exact Hne'. }
    pose proof (map_at_sum node_measure (fun _ => c') (o_children t) k Hk) as Sm.
    fold (set_at k c' (o_children t)) in Sm. fold ch1 in Sm. rewrite Ec in Sm. cbv beta in Sm.
    pose proof (map_at_nsum mass (fun _ => c') (o_children t) k Hk) as Sw.
    fold (set_at k c' (o_children t)) in Sw. fold ch1 in Sw. rewrite Ec in Sw. cbv beta in Sw.
    split; [|split; [lia|split; [exact Hpos1|lia]]].
    constructor; cbn [o_children o_info o_removed]; try assumption.
    + rewrite from_slice_leaves. apply (nsum_bound 7), Hall1.
    + apply from_slice_slots.
Qed.

(* ---------- prune_until: termination and the upper bound ---------- *)

Lemma prune_until_fuel_spec fuel : forall k t,
  wf_oc t -> (oc_measure t <= fuel)%nat -> fits_bound (oc_mass t) ->
  exists t', prune_until_fuel fuel k t = Ok t' /\ wf_oc t' /\
             (i_leaves (o_info t') <= N.max k 8)%N /\
             ((1 <= lsum nleaves (o_children t))%nat -> (1 <= lsum nleaves (o_children t'))%nat).
Proof.
  induction fuel as [|f IH]; intros k t Hw Hm Hfit.
  - cbn [prune_until_fuel]. destruct (i_leaves (o_info t) <=? N.max k 8)%N eqn:E.
    + exists t. split; [reflexivity|]. split; [exact Hw|]. split; [lia|]. intros H; exact H.
    + exfalso. destruct (has_tree_child t Hw) as (c & Hc & Ht); [lia|].
      pose proof (lsum_In node_measure _ _ Hc). rewrite oc_measure_eq in Hm.
      destruct c; try discriminate. rewrite node_measure_tree in H. lia.
  - cbn [prune_until_fuel]. destruct (i_leaves (o_info t) <=? N.max k 8)%N eqn:E.
    + exists t. split; [reflexivity|]. split; [exact Hw|]. split; [lia|]. intros H; exact H.
    + destruct (has_tree_child t Hw) as (c & Hc & Ht); [lia|].
      destruct (oc_prune_wf t Hw) as (t1 & -> & Hw' & Hlt & Hpos' & Hm1); [eauto|exact Hfit|]. cbn [bind].
      destruct (IH k t1 Hw') as (t' & Ht' & Hwt' & Hbt' & Hp'); [lia|rewrite Hm1; exact Hfit|].
      exists t'. split; [exact Ht'|]. split; [exact Hwt'|]. split; [exact Hbt'|]. intros _. apply Hp', Hpos'.
Qed.

Theorem prune_until_terminates k t :
  wf_oc t -> fits_bound (oc_mass t) ->
  exists t', prune_until k t = Ok t' /\ wf_oc t' /\
             (i_leaves (o_info t') <= N.max k 8)%N /\
             ((1 <= lsum nleaves (o_children t))%nat -> (1 <= lsum nleaves (o_children t'))%nat).
Proof. intros Hw Hf. unfold prune_until. apply prune_until_fuel_spec; [exact Hw|lia|exact Hf]. Qed.

(* ---------- insert ---------- *)

Lemma path_step_ok c : rgb_ok c = true ->
  (fst (path_step c) < 8)%nat /\ rgb_ok (snd (path_step c)) = true.
Proof.
  destruct c as [[r g] b]. unfold rgb_ok, path_step. cbn [fst snd]. intros H.
  assert (r < 256 /\ g < 256 /\ b < 256)%N as (Hr & Hg & Hb) by lia.
  split.
  - assert (r / 128 < 2)%N by (apply N.div_lt_upper_bound; lia).
    assert (g / 128 < 2)%N by (apply N.div_lt_upper_bound; lia).
    assert (b / 128 < 2)%N by (apply N.div_lt_upper_bound; lia). lia.
  - pose proof (N.mod_upper_bound (2 * r) 256). pose proof (N.mod_upper_bound (2 * g) 256).
    pose proof (N.mod_upper_bound (2 * b) 256). lia.
Qed.

Lemma path_n_ok n : forall c, rgb_ok c = true ->
  length (path_n n c) = n /\ Forall (fun k => (k < 8)%nat) (path_n n c).
Proof.
  induction n as [|n IH]; intros c Hc; cbn [path_n]; [split; [reflexivity|constructor]|].
  destruct (path_step c) as [i c'] eqn:E. destruct (path_step_ok c Hc) as [H1 H2]. rewrite E in H1, H2.
  cbn [fst snd] in H1, H2. destruct (IH c' H2) as [L F]. cbn [length]. split; [lia|constructor; assumption].
Qed.

Lemma empty8_wf h : Forall (wf_node h) empty8.
Proof. repeat constructor. Qed.

Lemma insert_rec_wf path : forall c n h,
  length path = h -> Forall (fun k => (k < 8)%nat) path -> wf_node h n ->
  rgb_ok c = true -> fits_bound (mass n + 1) ->
  exists n', insert_rec path c n = Ok n' /\ wf_node h n' /\ n' <> Empty /\
             (nleaves n <= nleaves n')%nat /\ mass n' = (mass n + 1)%N.
Proof.
  induction path as [|k rest IH]; intros c n h Hlen Hp Hw Hc Hfit.
  - cbn in Hlen. subst h. cbn [insert_rec]. inversion Hw as [| ? l Hl1 Hlr |]; subst.
    + eexists. split; [reflexivity|].
      split; [constructor; [destruct c as [[? ?] ?]; cbn; lia|apply ratio_of, Hc]|].
      split; [discriminate|]. split; [cbn; lia|]. destruct c as [[? ?] ?]; reflexivity.
    + cbn [mass] in Hfit. rewrite (leaf_add_chk_ok l c (l_n l + 1) Hlr Hc ltac:(lia) Hfit). cbn [bind].
      eexists. split; [reflexivity|].
      split; [constructor; [rewrite leaf_add_n; lia|apply ratio_add; assumption]|].
      split; [discriminate|]. split; [cbn; lia|]. cbn [mass]. apply leaf_add_n.
  - cbn [length] in Hlen. destruct h as [|h]; [discriminate|]. injection Hlen as Hlen.
    inversion Hp as [|? ? Hk Hrest]; subst. cbn [insert_rec].
    inversion Hw as [| ? l Hl1 Hlr |h' i rm ch Hl Hall Hpos Hb Hm Hrm]; subst.
    + destruct (IH c Empty (length rest) eq_refl Hrest (wf_empty _) Hc Hfit) as (n' & -> & Hw' & Hne' & _ & Hm').
      cbn [bind]. eexists. split; [reflexivity|].
      assert (Hk8 : (k < length empty8)%nat) by (cbn; lia).
      assert (Hall' : Forall (wf_node (length rest)) (set_at k n' empty8))
        by (apply map_at_Forall; [apply empty8_wf|exact Hw']).
      assert (Hpos' : (1 <= lsum nleaves (set_at k n' empty8))%nat).
      { apply (nonempty_lsum_pos (length rest)); [exact Hall'|]. exists n'. split; [|exact Hne'].
        replace n' with (nth k (set_at k n' empty8) Empty) at 1
          by (unfold set_at; now rewrite map_at_nth_same).
        apply nth_In. now rewrite set_at_length. }
      pose proof (map_at_nsum mass (fun _ => n') empty8 k Hk8) as Sw. fold (set_at k n' empty8) in Sw. cbv beta in Sw.
      replace (nth k empty8 Empty) with Empty in Sw
        by (do 8 (destruct k as [|k]; [reflexivity|]); cbn in Hk8; lia).
      replace (nsum mass empty8) with 0%N in Sw by reflexivity. cbn [mass] in Sw, Hm'.
      split; [apply mk_tree_wf; try assumption; [now rewrite set_at_length|apply ratio_new]|].
      split; [discriminate|]. split; [cbn [nleaves]; lia|]. rewrite mass_tree. cbn [mass leaf_new l_n]. lia.
    + cbn [mass] in Hfit. rewrite (leaf_add_chk_ok l c (l_n l + 1) Hlr Hc ltac:(lia) Hfit). cbn [bind].
      eexists. split; [reflexivity|].
      split; [constructor; [rewrite leaf_add_n; lia|apply ratio_add; assumption]|].
      split; [discriminate|]. split; [cbn; lia|]. cbn [mass]. apply leaf_add_n.
    + pose proof (nth_Forall _ ch k Hall (wf_empty _)) as Hwc.
      pose proof (nsum_nth_le mass ch k) as Hmk. cbn [mass] in Hmk. rewrite mass_tree in Hfit.
      assert (Hfc : fits_bound (mass (nth k ch Empty) + 1)) by (eapply fits_bound_mono; [|exact Hfit]; lia).
      destruct (IH c (nth k ch Empty) (length rest) eq_refl Hrest Hwc Hc Hfc) as (n' & -> & Hw' & Hne' & Hle & Hm').
      cbn [bind]. eexists. split; [reflexivity|].
      assert (Hk8 : (k < length ch)%nat) by lia.
      assert (Hall' : Forall (wf_node (length rest)) (set_at k n' ch))
        by (apply map_at_Forall; [exact Hall|exact Hw']).
      pose proof (map_at_sum nleaves (fun _ => n') ch k Hk8) as Sl. fold (set_at k n' ch) in Sl. cbv beta in Sl.
      pose proof (map_at_nsum mass (fun _ => n') ch k Hk8) as Sw. fold (set_at k n' ch) in Sw. cbv beta in Sw.
      split; [apply mk_tree_wf; try assumption; [now rewrite set_at_length|lia]|].
      split; [discriminate|]. split; [cbn [nleaves]; lia|]. rewrite !mass_tree. lia.
Qed.

Lemma oc_new_wf : wf_oc oc_new.
Proof. constructor; cbn; try lia; [apply empty8_wf|apply ratio_new]. Qed.

Lemma oc_new_mass : oc_mass oc_new = 0%N.
Proof. reflexivity. Qed.

Lemma oc_insert_wf t c :
  wf_oc t -> rgb_ok c = true -> fits_bound (oc_mass t + 1) ->
  exists t', oc_insert t c = Ok t' /\ wf_oc t' /\
             (1 <= lsum nleaves (o_children t'))%nat /\
             (lsum nleaves (o_children t) <= lsum nleaves (o_children t'))%nat /\
             oc_mass t' = (oc_mass t + 1)%N.
Proof.
  intros [Hlen Hall Hb Hs Hrm] Hc Hfit. unfold oc_mass in *.
  unfold oc_insert. rewrite (path_packed_eq c Hc). unfold path_of.
  destruct (path_n_ok 8 c Hc) as [Hl Hf].
  destruct (path_n 8 c) as [|k rest]; [discriminate|].
  inversion Hf as [|? ? Hk Hrest]; subst. cbn [length] in Hl. injection Hl as Hl.
  pose proof (nth_Forall _ (o_children t) k Hall (wf_empty _)) as Hwc.
  pose proof (nsum_nth_le mass (o_children t) k) as Hmk. cbn [mass] in Hmk.
  assert (Hfc : fits_bound (mass (nth k (o_children t) Empty) + 1)) by (eapply fits_bound_mono; [|exact Hfit]; lia).
  destruct (insert_rec_wf rest c (nth k (o_children t) Empty) 7 Hl Hrest Hwc Hc Hfc) as (n' & -> & Hw' & Hne' & Hle & Hm').
  cbn [bind]. eexists. split; [reflexivity|].
  assert (Hk8 : (k < length (o_children t))%nat) by lia.
  assert (Hall' : Forall (wf_node 7) (set_at k n' (o_children t)))
    by (apply map_at_Forall; [exact Hall|exact Hw']).
  pose proof (map_at_sum nleaves (fun _ => n') (o_children t) k Hk8) as Sl.
  fold (set_at k n' (o_children t)) in Sl. cbv beta in Sl.
  pose proof (map_at_nsum mass (fun _ => n') (o_children t) k Hk8) as Sw.
  fold (set_at k n' (o_children t)) in Sw. cbv beta in Sw.
  pose proof (wf_nonempty_leaves _ _ Hw' Hne').
  pose proof (lsum_nth_le nleaves (o_children t) k) as Hnl. cbn [nleaves] in Hnl.
  split; [|cbn [o_children o_removed]; unfold set_at in *; lia].
  constructor; cbn [o_children o_info o_removed]; try assumption.
  - now rewrite set_at_length.
  - rewrite from_slice_leaves. apply (nsum_bound 7), Hall'.
  - apply from_slice_slots.
Qed.

Lemma oc_extend_wf cs : forall t,
  wf_oc t -> Forall (fun c => rgb_ok c = true) cs -> fits_bound (oc_mass t + N.of_nat (length cs)) ->
  exists t', oc_extend t cs = Ok t' /\ wf_oc t' /\
             (lsum nleaves (o_children t) <= lsum nleaves (o_children t'))%nat /\
             (cs <> [] -> (1 <= lsum nleaves (o_children t'))%nat) /\
             oc_mass t' = (oc_mass t + N.of_nat (length cs))%N.
Proof.
  induction cs as [|c r IH]; intros t Hw Hok Hfit.
  - exists t. cbn [oc_extend length]. split; [reflexivity|]. split; [exact Hw|]. split; [lia|]. split; [congruence|lia].
  - inversion Hok as [|? ? Hc Hr]; subst. cbn [oc_extend]. cbn [length] in Hfit.
    assert (Hf1 : fits_bound (oc_mass t + 1)) by (eapply fits_bound_mono; [|exact Hfit]; lia).
    destruct (oc_insert_wf t c Hw Hc Hf1) as (t1 & -> & Hw1 & Hp1 & Hle1 & Hm1). cbn [bind].
    assert (Hf2 : fits_bound (oc_mass t1 + N.of_nat (length r))) by (eapply fits_bound_mono; [|exact Hfit]; lia).
    destruct (IH t1 Hw1 Hr Hf2) as (t' & -> & Hw' & Hle' & _ & Hm').
    exists t'. split; [reflexivity|]. split; [exact Hw'|]. split; [lia|]. split; [intros _; lia|]. cbn [length]. lia.
Qed.

(* ---------- build_palette ---------- *)

Lemma map_outcome_ok {A B} (f : A -> outcome B) (l : list A) :
  Forall (fun x => exists y, f x = Ok y) l ->
  exists ys, map_outcome f l = Ok ys /\ length ys = length l.
Proof.
  induction 1 as [|x r (y & Hy) Hr (ys & Hys & Hl)]; [exists []; split; reflexivity|].
  exists (y :: ys). cbn [map_outcome]. rewrite Hy, Hys. cbn. split; [reflexivity|lia].
Qed.

Lemma build_palette_ok t :
  wf_oc t -> exists pal, build_palette t = Ok pal /\ length pal = lsum nleaves (o_children t).
Proof.
  intros [Hlen Hall Hb Hs Hrm]. unfold build_palette.
  destruct (map_outcome_ok leaf_rgb (oc_leaves t)) as (ys & Hys & Hl).
  - unfold oc_leaves. apply Forall_forall. intros l Hl. apply in_flat_map in Hl.
    destruct Hl as (c & Hc & Hl). rewrite Forall_forall in Hall.
    pose proof (wf_leaves_pos c 7 (Hall c Hc)) as Hp. rewrite Forall_forall in Hp. specialize (Hp l Hl).
    unfold leaf_rgb. destruct (l_n l =? 0)%N eqn:E; [lia|]. eexists. reflexivity.
  - exists ys. split; [exact Hys|]. rewrite Hl. apply oc_leaves_length.
Qed.

(* ---------- the palette theorem ---------- *)

Theorem palette_bounds : forall (cs : list rgb) (k : N),
  cs <> [] -> Forall (fun c => rgb_ok c = true) cs -> (N.of_nat (length cs) <= max_pixels)%N ->
  exists t t' pal,
    oc_extend oc_new cs = Ok t /\ prune_until k t = Ok t' /\ build_palette t' = Ok pal /\
    (1 <= length pal)%nat /\ (N.of_nat (length pal) <= N.max k 8)%N.
Proof.
  intros cs k Hne Hok Hmax. pose proof (widths_adequate _ Hmax) as Hfit.
  destruct (oc_extend_wf cs oc_new oc_new_wf Hok) as (t & Ht & Hw & _ & Hpos & Hm);
    [rewrite oc_new_mass; exact Hfit|]. specialize (Hpos Hne). rewrite oc_new_mass in Hm.
  destruct (prune_until_terminates k t Hw) as (t' & Ht' & Hw' & Hb' & Hp'); [rewrite Hm; exact Hfit|].
  specialize (Hp' Hpos).
  destruct (build_palette_ok t' Hw') as (pal & Hpal & Hlen).
  exists t, t', pal. split; [exact Ht|]. split; [exact Ht'|]. split; [exact Hpal|]. split; [lia|].
  rewrite Hlen. pose proof (wo_bound _ Hw'). lia.
Qed.
