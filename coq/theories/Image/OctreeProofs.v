(* Proofs about Image/Octree.v, part 1: well-formedness invariant (with STALE cached
   infos: a cached leaf count may over-count, never under-count), preservation by
   insert / prune_rec / prune, termination of prune_until within oc_measure rounds,
   and the palette size bounds 1 <= |palette| <= max(k, 8). *)
From Coq Require Import List NArith ZArith Bool Lia Arith.
From Coq Require Import ZifyBool ZifyNat ZifyN.
From SNT Require Import Base.Outcome Image.KDTree Image.Octree Image.OctreePath.
Import ListNotations.

Arguments N.add : simpl never.
Arguments N.sub : simpl never.
Arguments N.mul : simpl never.
Arguments N.eqb : simpl never.
Arguments N.ltb : simpl never.
Arguments N.leb : simpl never.
Arguments N.min : simpl never.
Arguments N.max : simpl never.

(* ---------- induction over the nested tree ---------- *)

Fixpoint node_ind' (P : node -> Prop) (HE : P Empty) (HL : forall l, P (Leaf l))
         (HT : forall i rm ch, Forall P ch -> P (Tree i rm ch)) (n : node) : P n :=
  match n with
  | Empty => HE
  | Leaf l => HL l
  | Tree i rm ch =>
      HT i rm ch ((fix go (l : list node) : Forall P l :=
                     match l with
                     | [] => Forall_nil _
                     | x :: r => Forall_cons _ (node_ind' P HE HL HT x) (go r)
                     end) ch)
  end.

(* ---------- list helpers: map_at / set_at / sums ---------- *)

Definition lsum (g : node -> nat) (l : list node) : nat :=
  fold_right (fun c acc => g c + acc)%nat 0%nat l.

Lemma lsum_cons g x l : lsum g (x :: l) = (g x + lsum g l)%nat.
Proof. reflexivity. Qed.

Lemma map_at_length f l k : length (map_at f l k) = length l.
Proof. revert k. induction l as [|x r IH]; intros [|k]; cbn; auto. Qed.

Lemma set_at_length k v l : length (set_at k v l) = length l.
Proof. apply map_at_length. Qed.

Lemma map_at_nth_same f l k :
  (k < length l)%nat -> nth k (map_at f l k) Empty = f (nth k l Empty).
Proof.
  revert k. induction l as [|x r IH]; intros [|k] H; cbn in *; try lia; [reflexivity|].
  apply IH. lia.
Qed.

Lemma map_at_nth_other f l k j :
  j <> k -> nth j (map_at f l k) Empty = nth j l Empty.
Proof.
  revert k j. induction l as [|x r IH]; intros [|k] [|j] H; cbn; try reflexivity; try lia.
  apply IH. lia.
Qed.

Lemma map_at_In f l k c :
  In c (map_at f l k) -> In c l \/ ((k < length l)%nat /\ c = f (nth k l Empty)).
Proof.
  revert k. induction l as [|x r IH]; intros [|k]; cbn; try tauto.
  - intros [<-|H]; [right; split; [lia|reflexivity]|left; now right].
  - intros [<-|H]; [left; now left|]. destruct (IH _ H) as [H1|[H1 H2]]; [left; now right|right; split; [lia|exact H2]].
Qed.

Lemma map_at_sum g f l k :
  (k < length l)%nat ->
  (lsum g (map_at f l k) + g (nth k l Empty) = lsum g l + g (f (nth k l Empty)))%nat.
Proof.
  revert k. induction l as [|x r IH]; intros [|k] H; cbn [length] in H; try lia.
  - cbn [map_at nth]. rewrite !lsum_cons. lia.
  - cbn [map_at nth]. rewrite !lsum_cons. specialize (IH k ltac:(lia)). lia.
Qed.

Lemma map_at_Forall (P : node -> Prop) f l k :
  Forall P l -> P (f (nth k l Empty)) -> Forall P (map_at f l k).
Proof.
  intros Hl Hf. rewrite Forall_forall in *. intros c Hc.
  destruct (map_at_In _ _ _ _ Hc) as [H|[_ ->]]; [apply Hl, H|exact Hf].
Qed.

Lemma nth_Forall (P : node -> Prop) l k : Forall P l -> P Empty -> P (nth k l Empty).
Proof.
  intros Hl He. destruct (Nat.lt_ge_cases k (length l)) as [H|H].
  - rewrite Forall_forall in Hl. apply Hl, nth_In, H.
  - rewrite nth_overflow by lia. exact He.
Qed.

Lemma lsum_le g h l :
  Forall (fun c => (g c <= h c)%nat) l -> (lsum g l <= lsum h l)%nat.
Proof. induction 1; [cbn; lia|]. rewrite !lsum_cons. lia. Qed.

Lemma lsum_nth_le g l k : (g (nth k l Empty) <= lsum g l + g Empty)%nat.
Proof.
  revert k. induction l as [|x r IH]; intros [|k]; cbn [nth]; rewrite ?lsum_cons; try lia.
  specialize (IH k). lia.
Qed.

(* ---------- leaves, infos ---------- *)

Fixpoint nleaves (n : node) : nat :=
  match n with
  | Empty => 0
  | Leaf _ => 1
  | Tree _ _ ch => lsum nleaves ch
  end.

Lemma flat_map_length_lsum ch :
  Forall (fun c => length (leaves_of c) = nleaves c) ch ->
  length (flat_map leaves_of ch) = lsum nleaves ch.
Proof. induction 1; [reflexivity|]. cbn [flat_map]. rewrite app_length, lsum_cons. lia. Qed.

Lemma leaves_of_length n : length (leaves_of n) = nleaves n.
Proof.
  induction n as [| l | i rm ch IH] using node_ind'; cbn; try reflexivity.
  apply flat_map_length_lsum, IH.
Qed.

Lemma oc_leaves_length t : length (oc_leaves t) = lsum nleaves (o_children t).
Proof.
  unfold oc_leaves. apply flat_map_length_lsum. apply Forall_forall. intros c _. apply leaves_of_length.
Qed.

Definition nsum (g : node -> N) (l : list node) : N :=
  fold_right (fun c acc => g c + acc)%N 0%N l.

Lemma from_slice_leaves_acc ch acc :
  i_leaves (fold_left (fun a n => info_join a (node_info n)) ch acc)
  = (i_leaves acc + nsum (fun c => i_leaves (node_info c)) ch)%N.
Proof.
  revert acc. induction ch as [|x r IH]; intros acc; cbn [fold_left nsum fold_right]; [lia|].
  rewrite IH. cbn [info_join i_leaves]. fold (nsum (fun c => i_leaves (node_info c)) r). lia.
Qed.

Lemma from_slice_leaves ch :
  i_leaves (from_slice ch) = nsum (fun c => i_leaves (node_info c)) ch.
Proof. unfold from_slice. rewrite from_slice_leaves_acc. cbn. lia. Qed.

Lemma from_slice_min_acc ch acc :
  i_min (fold_left (fun a n => info_join a (node_info n)) ch acc) = None <->
  i_min acc = None /\ Forall (fun c => i_min (node_info c) = None) ch.
Proof.
  revert acc. induction ch as [|x r IH]; intros acc; cbn [fold_left].
  - split; [intros H; split; [exact H|constructor]|intros [H _]; exact H].
  - rewrite IH. cbn [info_join i_min]. split.
    + intros [H1 H2]. destruct (i_min acc), (i_min (node_info x)) eqn:E; try discriminate.
      split; [reflexivity|constructor; assumption].
    + intros [H1 H2]. inversion H2 as [|? ? Hx Hr]; subst. rewrite H1, Hx. split; [reflexivity|exact Hr].
Qed.

Lemma from_slice_min ch :
  i_min (from_slice ch) = None <-> Forall (fun c => i_min (node_info c) = None) ch.
Proof. unfold from_slice. rewrite from_slice_min_acc. cbn. tauto. Qed.

(* ---------- well-formedness ---------- *)

Lemma lsum_In g l c : In c l -> (g c <= lsum g l)%nat.
Proof.
  induction l as [|x r IH]; [intros []|]. rewrite lsum_cons. intros [->|H]; [lia|]. specialize (IH H). lia.
Qed.

Lemma lsum_pos_ex g l : (1 <= lsum g l)%nat -> exists c, In c l /\ (1 <= g c)%nat.
Proof.
  induction l as [|x r IH]; [cbn; lia|]. rewrite lsum_cons. intros H.
  destruct (Nat.eq_dec (g x) 0) as [E|E].
  - destruct IH as (c & Hc & Hg); [lia|]. exists c. split; [now right|exact Hg].
  - exists x. split; [now left|lia].
Qed.

(* h = number of path steps still to be taken when insertion arrives at this node *)
Inductive wf_node : nat -> node -> Prop :=
| wf_empty h : wf_node h Empty
| wf_leaf h l : (1 <= l_n l)%N -> wf_node h (Leaf l)
| wf_tree h i rm ch :
    length ch = 8%nat ->
    Forall (wf_node h) ch ->
    (1 <= lsum nleaves ch)%nat ->                         (* a tree never loses its last leaf *)
    (N.of_nat (lsum nleaves ch) <= i_leaves i)%N ->       (* the cache never under-counts *)
    i_min i <> None ->
    wf_node (S h) (Tree i rm ch).

Lemma wf_info_bound h c : wf_node h c -> (N.of_nat (nleaves c) <= i_leaves (node_info c))%N.
Proof. destruct 1; cbn; lia. Qed.

Lemma wf_min_none h c : wf_node h c -> (i_min (node_info c) = None <-> c = Empty).
Proof. destruct 1; cbn; split; try discriminate; try reflexivity; try congruence. Qed.

Lemma wf_nonempty_leaves h c : wf_node h c -> c <> Empty -> (1 <= nleaves c)%nat.
Proof. destruct 1; intros Hne; [congruence|cbn; lia|cbn [nleaves]; assumption]. Qed.

Lemma nleaves_pos_nonempty c : (1 <= nleaves c)%nat -> c <> Empty.
Proof. intros H ->. cbn in H. lia. Qed.

Lemma nsum_cons g x l : nsum g (x :: l) = (g x + nsum g l)%N.
Proof. reflexivity. Qed.

Lemma nsum_le g h l : Forall (fun c => (g c <= h c)%N) l -> (nsum g l <= nsum h l)%N.
Proof. induction 1; [cbn; lia|]. rewrite !nsum_cons. lia. Qed.

Lemma nsum_bound h ch :
  Forall (wf_node h) ch ->
  (N.of_nat (lsum nleaves ch) <= nsum (fun c => i_leaves (node_info c)) ch)%N.
Proof.
  induction 1 as [|x r Hx Hr IH]; [cbn; lia|]. rewrite lsum_cons, nsum_cons.
  pose proof (wf_info_bound _ _ Hx). lia.
Qed.

Lemma mk_tree_wf h rm ch :
  length ch = 8%nat -> Forall (wf_node h) ch -> (1 <= lsum nleaves ch)%nat ->
  wf_node (S h) (Tree (from_slice ch) rm ch).
Proof.
  intros Hlen Hall Hpos. constructor; try assumption.
  - rewrite from_slice_leaves. apply (nsum_bound h), Hall.
  - intros Hn. apply from_slice_min in Hn.
    destruct (lsum_pos_ex _ _ Hpos) as (c & Hc & Hg).
    rewrite Forall_forall in Hn, Hall. specialize (Hn c Hc). specialize (Hall c Hc).
    apply (wf_min_none _ _ Hall) in Hn. subst c. cbn in Hg. lia.
Qed.

Lemma wf_leaves_pos n : forall h, wf_node h n -> Forall (fun l => (1 <= l_n l)%N) (leaves_of n).
Proof.
  induction n as [| l | i rm ch IH] using node_ind'; intros h Hw; cbn [leaves_of].
  - constructor.
  - inversion Hw; subst. constructor; [assumption|constructor].
  - inversion Hw as [| |h' ? ? ? Hlen Hall Hpos Hb Hm]; subst.
    apply Forall_forall. intros l Hl. apply in_flat_map in Hl. destruct Hl as (c & Hc & Hl).
    rewrite Forall_forall in IH, Hall. specialize (IH c Hc h' (Hall c Hc)).
    rewrite Forall_forall in IH. apply IH, Hl.
Qed.

(* ---------- argmin ---------- *)

Lemma argmin_from_spec l : forall k0 best,
  match argmin_from k0 best l with
  | None => best = None /\ Forall (fun c => i_min (node_info c) = None) l
  | Some (k, v) =>
      best = Some (k, v) \/
      ((k0 <= k < k0 + length l)%nat /\ i_min (node_info (nth (k - k0) l Empty)) = Some v)
  end.
Proof.
  induction l as [|x r IH]; intros k0 best; cbn [argmin_from].
  - destruct best as [[k v]|]; [now left|split; [reflexivity|constructor]].
  - match goal with |- context [argmin_from (S k0) ?b r] => set (best' := b) end.
    specialize (IH (S k0) best').
    destruct (argmin_from (S k0) best' r) as [[k v]|].
    + destruct IH as [Hb|[Hk Hv]].
      * subst best'. destruct (i_min (node_info x)) as [vx|] eqn:Ex.
        -- destruct best as [[bk bv]|].
           ++ destruct (vx <? bv)%N.
              ** inversion Hb; subst. right. split; [cbn; lia|].
                 replace (k - k)%nat with 0%nat by lia. exact Ex.
              ** now left.
           ++ inversion Hb; subst. right. split; [cbn; lia|].
              replace (k - k)%nat with 0%nat by lia. exact Ex.
        -- now left.
      * right. split; [cbn [length]; lia|].
        replace (k - k0)%nat with (S (k - S k0)) by lia. exact Hv.
    + destruct IH as [Hb Hall]. subst best'.
      destruct (i_min (node_info x)) as [vx|] eqn:Ex.
      * destruct best as [[bk bv]|]; [destruct (vx <? bv)%N|]; discriminate.
      * split; [exact Hb|constructor; assumption].
Qed.

Lemma argmin_none ch : argmin ch = None -> Forall (fun c => i_min (node_info c) = None) ch.
Proof.
  unfold argmin. pose proof (argmin_from_spec ch 0 None) as H.
  destruct (argmin_from 0 None ch) as [[k v]|]; [discriminate|]. intros _. apply H.
Qed.

Lemma argmin_some ch k :
  argmin ch = Some k -> (k < length ch)%nat /\ i_min (node_info (nth k ch Empty)) <> None.
Proof.
  unfold argmin. pose proof (argmin_from_spec ch 0 None) as H.
  destruct (argmin_from 0 None ch) as [[k' v]|]; [|discriminate]. intros E. inversion E; subst.
  destruct H as [H|[H1 H2]]; [discriminate|]. rewrite Nat.sub_0_r in H2. split; [lia|congruence].
Qed.

Lemma argmin_wf h ch :
  Forall (wf_node h) ch -> (1 <= lsum nleaves ch)%nat ->
  exists k, argmin ch = Some k /\ (k < length ch)%nat /\ nth k ch Empty <> Empty.
Proof.
  intros Hall Hpos. destruct (argmin ch) as [k|] eqn:E.
  - exists k. destruct (argmin_some _ _ E) as [Hk Hm]. repeat split; try assumption.
    intros Hc. rewrite Hc in Hm. now apply Hm.
  - exfalso. apply argmin_none in E. destruct (lsum_pos_ex _ _ Hpos) as (c & Hc & Hg).
    rewrite Forall_forall in E, Hall. specialize (E c Hc).
    apply (wf_min_none _ _ (Hall c Hc)) in E. subst c. cbn in Hg. lia.
Qed.

Lemma all_empty_false l : all_empty l = false -> exists c, In c l /\ c <> Empty.
Proof.
  unfold all_empty. induction l as [|x r IH]; cbn; [discriminate|].
  destruct x; cbn; [intros H; destruct (IH H) as (c & Hc & Hn); exists c; split; [now right|exact Hn]| |];
    intros _; eexists; (split; [now left|discriminate]).
Qed.

Lemma nonempty_lsum_pos h l :
  Forall (wf_node h) l -> (exists c, In c l /\ c <> Empty) -> (1 <= lsum nleaves l)%nat.
Proof.
  intros Hall (c & Hc & Hn). rewrite Forall_forall in Hall.
  pose proof (wf_nonempty_leaves _ _ (Hall c Hc) Hn). pose proof (lsum_In nleaves l c Hc). lia.
Qed.

(* ---------- prune_rec ---------- *)

Lemma node_measure_tree i rm ch : node_measure (Tree i rm ch) = (2 + lsum node_measure ch)%nat.
Proof. reflexivity. Qed.

Lemma map_at_o_ok f l k y :
  (k < length l)%nat -> f (nth k l Empty) = Ok y -> map_at_o f l k = Ok (set_at k y l).
Proof.
  revert k. induction l as [|x r IH]; intros [|k] Hk Hf; cbn [length] in Hk; try lia.
  - cbn [map_at_o nth] in *. rewrite Hf. reflexivity.
  - cbn [map_at_o nth] in *. rewrite (IH k ltac:(lia) Hf). reflexivity.
Qed.

Lemma set_at_nth_same k v l : (k < length l)%nat -> nth k (set_at k v l) Empty = v.
Proof. intros H. unfold set_at. now rewrite map_at_nth_same. Qed.

Lemma prune_rec_tree_eq i rm ch :
  prune_rec (Tree i rm ch) =
  match argmin ch with
  | None => Ok (Leaf rm)
  | Some k =>
      match nth k ch Empty with
      | Empty => Panic 1373
      | Leaf l =>
          if all_empty (set_at k Empty ch) then Ok (Leaf (leaf_join rm l))
          else Ok (Tree i (leaf_join rm l) (set_at k Empty ch))
      | Tree _ _ _ =>
          let* ch1 := map_at_o prune_rec ch k in
          match nth k ch1 Empty with
          | Leaf l =>
              if all_empty (set_at k Empty ch) then Ok (Leaf (leaf_join rm l))
              else Ok (Tree (from_slice ch1) rm ch1)
          | _ => Ok (Tree (from_slice ch1) rm ch1)
          end
      end
  end.
Proof. reflexivity. Qed.

Definition is_tree (n : node) : bool := match n with Tree _ _ _ => true | _ => false end.

(* pruning a well-formed subtree never reaches the unreachable!() arm, keeps it well formed
   and non-empty, and strictly decreases the measure *)
Lemma prune_rec_wf n : forall h,
  wf_node h n -> is_tree n = true ->
  exists n', prune_rec n = Ok n' /\ wf_node h n' /\ n' <> Empty /\
             (node_measure n' < node_measure n)%nat.
Proof.
  induction n as [| l | i rm ch IH] using node_ind'; intros h Hw Ht; try discriminate. clear Ht.
  inversion Hw as [| |h' ? ? ? Hlen Hall Hpos Hb Hm]; subst.
  rewrite prune_rec_tree_eq, node_measure_tree.
  destruct (argmin_wf _ _ Hall Hpos) as (k & -> & Hk & Hne).
  pose proof (nth_Forall _ ch k Hall (wf_empty h')) as Hwc.
  destruct (nth k ch Empty) as [| l | ci crm cch] eqn:Ec; [congruence| |].
  - (* the least populated child is a leaf: it moves into `removed`, info stays *)
    inversion Hwc; subst.
    pose proof (map_at_sum nleaves (fun _ => Empty) ch k Hk) as Sl.
    pose proof (map_at_sum node_measure (fun _ => Empty) ch k Hk) as Sm.
    rewrite Ec in Sl, Sm. cbn [nleaves node_measure] in Sl, Sm.
    fold (set_at k Empty ch) in Sl, Sm.
    destruct (all_empty (set_at k Empty ch)) eqn:Ea; eexists; (split; [reflexivity|]).
    + split; [constructor; cbn; lia|]. split; [discriminate|]. cbn [node_measure]. lia.
    + assert (Hall' : Forall (wf_node h') (set_at k Empty ch)) by (apply map_at_Forall; [exact Hall|constructor]).
      split; [|split; [discriminate|rewrite node_measure_tree; lia]].
      constructor; try assumption.
      * now rewrite set_at_length.
      * apply (nonempty_lsum_pos h'); [exact Hall'|apply all_empty_false, Ea].
      * lia.
  - (* a subtree: prune it, collapse if it became the only (leaf) child *)
    assert (Hin : In (Tree ci crm cch) ch) by (rewrite <- Ec; apply nth_In, Hk).
    rewrite Forall_forall in IH. destruct (IH _ Hin h' Hwc eq_refl) as (c' & Hpc & Hw' & Hne' & Hlt).
    rewrite (map_at_o_ok prune_rec ch k c' Hk) by (rewrite Ec; exact Hpc). cbn [bind].
    set (ch1 := set_at k c' ch).
    assert (Hn1 : nth k ch1 Empty = c') by (unfold ch1; apply set_at_nth_same, Hk).
    assert (Hall1 : Forall (wf_node h') ch1) by (apply map_at_Forall; [exact Hall|exact Hw']).
    assert (Hlen1 : length ch1 = 8%nat) by (unfold ch1; now rewrite set_at_length).
    assert (Hpos1 : (1 <= lsum nleaves ch1)%nat).
    { apply (nonempty_lsum_pos h'); [exact Hall1|]. exists (nth k ch1 Empty). split.
      - apply nth_In. lia.
      - rewrite Hn1. exact Hne'. }
    pose proof (map_at_sum node_measure (fun _ => c') ch k Hk) as Sm. fold (set_at k c' ch) in Sm. fold ch1 in Sm.
    rewrite Ec in Sm. cbv beta in Sm.
    assert (Hgen : exists n', Ok (Tree (from_slice ch1) rm ch1) = Ok n' /\ wf_node (S h') n' /\ n' <> Empty /\
                   (node_measure n' < 2 + lsum node_measure ch)%nat).
    { eexists. split; [reflexivity|]. split; [apply mk_tree_wf; assumption|]. split; [discriminate|].
      rewrite node_measure_tree. lia. }
    rewrite Hn1. destruct c' as [| l' | ? ? ?]; try exact Hgen.
    destruct (all_empty (set_at k Empty ch)); [|exact Hgen].
    inversion Hw'; subst. eexists. split; [reflexivity|]. split; [constructor; cbn; lia|].
    split; [discriminate|]. cbn [node_measure]. lia.
Qed.

(* ---------- the root ---------- *)

Definition uval (c : node) : N := match c with Tree i _ _ => i_leaves i | _ => 1%N end.

Record wf_oc (t : octree) : Prop := mkWfOc {
  wo_len : length (o_children t) = 8%nat;
  wo_all : Forall (wf_node 7) (o_children t);
  wo_bound : (N.of_nat (lsum nleaves (o_children t)) <= i_leaves (o_info t))%N;
  (* the root's own cache is recomputed less often than it should be; what survives is
     that it never exceeds one per slot plus the caches of the subtree children *)
  wo_slots : (i_leaves (o_info t) <= nsum uval (o_children t))%N }.

Lemma nsum_uval_no_tree l :
  Forall (fun c => is_tree c = false) l -> nsum uval l = N.of_nat (length l).
Proof.
  induction 1 as [|x r Hx Hr IH]; [reflexivity|]. rewrite nsum_cons, IH. cbn [length].
  destruct x; cbn in *; try discriminate; lia.
Qed.

Lemma has_tree_child t :
  wf_oc t -> (8 < i_leaves (o_info t))%N -> exists c, In c (o_children t) /\ is_tree c = true.
Proof.
  intros [Hlen _ _ Hs] H.
  destruct (existsb is_tree (o_children t)) eqn:E.
  - apply existsb_exists in E. exact E.
  - exfalso. assert (Forall (fun c => is_tree c = false) (o_children t)).
    { apply Forall_forall. intros c Hc. destruct (is_tree c) eqn:Ec; [|reflexivity].
      assert (existsb is_tree (o_children t) = true) by (apply existsb_exists; eauto). congruence. }
    rewrite (nsum_uval_no_tree _ H0), Hlen in Hs. lia.
Qed.

Lemma map_at_nsum g f l k :
  (k < length l)%nat ->
  (nsum g (map_at f l k) + g (nth k l Empty) = nsum g l + g (f (nth k l Empty)))%N.
Proof.
  revert k. induction l as [|x r IH]; intros [|k] H; cbn [length] in H; try lia.
  - cbn [map_at nth]. rewrite !nsum_cons. lia.
  - cbn [map_at nth]. rewrite !nsum_cons. specialize (IH k ltac:(lia)). lia.
Qed.

Lemma from_slice_slots ch : (i_leaves (from_slice ch) <= nsum uval ch)%N.
Proof.
  rewrite from_slice_leaves. apply nsum_le. apply Forall_forall. intros c _. destruct c; cbn; lia.
Qed.

Lemma oc_measure_eq t : oc_measure t = lsum node_measure (o_children t).
Proof. reflexivity. Qed.

Lemma oc_prune_wf t :
  wf_oc t -> (exists c, In c (o_children t) /\ is_tree c = true) ->
  exists t', oc_prune t = Ok t' /\
  wf_oc t' /\ (oc_measure t' < oc_measure t)%nat /\
  (1 <= lsum nleaves (o_children t'))%nat.
Proof.
  intros [Hlen Hall Hb Hs] (ct & Hct & Htree).
  assert (Hpos : (1 <= lsum nleaves (o_children t))%nat).
  { apply (nonempty_lsum_pos 7); [exact Hall|]. exists ct. split; [exact Hct|]. destruct ct; discriminate. }
  unfold oc_prune. rewrite !oc_measure_eq.
  destruct (argmin_wf _ _ Hall Hpos) as (k & -> & Hk & Hne).
  pose proof (nth_Forall _ (o_children t) k Hall (wf_empty 7)) as Hwc.
  destruct (nth k (o_children t) Empty) as [| l | ci crm cch] eqn:Ec; [congruence| |].
  - (* a leaf directly under the root is dropped; the root's info is not refreshed *)
    pose proof (map_at_sum nleaves (fun _ => Empty) (o_children t) k Hk) as Sl.
    pose proof (map_at_sum node_measure (fun _ => Empty) (o_children t) k Hk) as Sm.
    pose proof (map_at_nsum uval (fun _ => Empty) (o_children t) k Hk) as Su.
    rewrite Ec in Sl, Sm, Su. cbn [nleaves node_measure uval] in Sl, Sm, Su.
    fold (set_at k Empty (o_children t)) in Sl, Sm, Su.
    eexists. split; [reflexivity|]. rewrite oc_measure_eq. cbn [o_children o_info].
    assert (Hall' : Forall (wf_node 7) (set_at k Empty (o_children t)))
      by (apply map_at_Forall; [exact Hall|constructor]).
    split; [constructor; cbn [o_children o_info]; try assumption; try lia; now rewrite set_at_length|].
    split; [lia|].
    (* the subtree child is still there *)
    destruct (In_nth _ _ Empty Hct) as (j & Hj & Hjn).
    assert (j <> k) by (intros ->; rewrite Ec in Hjn; subst ct; discriminate).
    assert (In ct (set_at k Empty (o_children t))).
    { rewrite <- Hjn. rewrite <- (map_at_nth_other (fun _ => Empty) _ k j H).
      apply nth_In. unfold set_at in *. rewrite map_at_length. exact Hj. }
    apply (nonempty_lsum_pos 7); [exact Hall'|]. exists ct. split; [assumption|destruct ct; discriminate].
  - destruct (prune_rec_wf _ 7 Hwc eq_refl) as (c' & Hpc & Hw' & Hne' & Hlt).
    rewrite (map_at_o_ok prune_rec (o_children t) k c' Hk) by (rewrite Ec; exact Hpc). cbn [bind].
    eexists. split; [reflexivity|]. rewrite oc_measure_eq. cbn [o_children o_info].
    set (ch1 := set_at k c' (o_children t)).
    assert (Hn1 : nth k ch1 Empty = c') by (unfold ch1; apply set_at_nth_same, Hk).
    assert (Hall1 : Forall (wf_node 7) ch1) by (apply map_at_Forall; [exact Hall|exact Hw']).
    assert (Hlen1 : length ch1 = 8%nat) by (unfold ch1; now rewrite set_at_length).
    assert (Hpos1 : (1 <= lsum nleaves ch1)%nat).
    { apply (nonempty_lsum_pos 7); [exact Hall1|]. exists (nth k ch1 Empty). split.
      - apply nth_In. lia.
      - rewrite Hn1. exact Hne'. }
    pose proof (map_at_sum node_measure (fun _ => c') (o_children t) k Hk) as Sm.
    fold (set_at k c' (o_children t)) in Sm. fold ch1 in Sm. rewrite Ec in Sm. cbv beta in Sm.
    split; [|split; [lia|exact Hpos1]].
    constructor; cbn [o_children o_info]; try assumption.
    + rewrite from_slice_leaves. apply (nsum_bound 7), Hall1.
    + apply from_slice_slots.
Qed.

(* ---------- prune_until: termination and the upper bound ---------- *)

Lemma prune_until_fuel_spec fuel : forall k t,
  wf_oc t -> (oc_measure t <= fuel)%nat ->
  exists t', prune_until_fuel fuel k t = Ok t' /\ wf_oc t' /\
             (i_leaves (o_info t') <= N.max k 8)%N /\
             ((1 <= lsum nleaves (o_children t))%nat -> (1 <= lsum nleaves (o_children t'))%nat).
Proof.
  induction fuel as [|f IH]; intros k t Hw Hm.
  - cbn [prune_until_fuel]. destruct (i_leaves (o_info t) <=? N.max k 8)%N eqn:E.
    + exists t. split; [reflexivity|]. split; [exact Hw|]. split; [lia|]. intros H; exact H.
    + exfalso. destruct (has_tree_child t Hw) as (c & Hc & Ht); [lia|].
      pose proof (lsum_In node_measure _ _ Hc). rewrite oc_measure_eq in Hm.
      destruct c; try discriminate. rewrite node_measure_tree in H. lia.
  - cbn [prune_until_fuel]. destruct (i_leaves (o_info t) <=? N.max k 8)%N eqn:E.
    + exists t. split; [reflexivity|]. split; [exact Hw|]. split; [lia|]. intros H; exact H.
    + destruct (has_tree_child t Hw) as (c & Hc & Ht); [lia|].
      destruct (oc_prune_wf t Hw) as (t1 & -> & Hw' & Hlt & Hpos'); [eauto|]. cbn [bind].
      destruct (IH k t1 Hw') as (t' & Ht' & Hwt' & Hbt' & Hp'); [lia|].
      exists t'. split; [exact Ht'|]. split; [exact Hwt'|]. split; [exact Hbt'|]. intros _. apply Hp', Hpos'.
Qed.

Theorem prune_until_terminates k t :
  wf_oc t ->
  exists t', prune_until k t = Ok t' /\ wf_oc t' /\
             (i_leaves (o_info t') <= N.max k 8)%N /\
             ((1 <= lsum nleaves (o_children t))%nat -> (1 <= lsum nleaves (o_children t'))%nat).
Proof. intros Hw. unfold prune_until. apply prune_until_fuel_spec; [exact Hw|lia]. Qed.

(* ---------- insert ---------- *)

Lemma path_step_ok c : rgb_ok c = true ->
  (fst (path_step c) < 8)%nat /\ rgb_ok (snd (path_step c)) = true.
Proof.
  destruct c as [[r g] b]. unfold rgb_ok, path_step. cbn [fst snd]. intros H.
  assert (r < 256 /\ g < 256 /\ b < 256)%N as (Hr & Hg & Hb) by lia.
  split.
  - assert (r / 128 < 2)%N by (apply N.div_lt_upper_bound; lia).
    assert (g / 128 < 2)%N by (apply N.div_lt_upper_bound; lia).
    assert (b / 128 < 2)%N by (apply N.div_lt_upper_bound; lia). lia.
  - pose proof (N.mod_upper_bound (2 * r) 256). pose proof (N.mod_upper_bound (2 * g) 256).
    pose proof (N.mod_upper_bound (2 * b) 256). lia.
Qed.

Lemma path_n_ok n : forall c, rgb_ok c = true ->
  length (path_n n c) = n /\ Forall (fun k => (k < 8)%nat) (path_n n c).
Proof.
  induction n as [|n IH]; intros c Hc; cbn [path_n]; [split; [reflexivity|constructor]|].
  destruct (path_step c) as [i c'] eqn:E. destruct (path_step_ok c Hc) as [H1 H2]. rewrite E in H1, H2.
  cbn [fst snd] in H1, H2. destruct (IH c' H2) as [L F]. cbn [length]. split; [lia|constructor; assumption].
Qed.

Lemma empty8_wf h : Forall (wf_node h) empty8.
Proof. repeat constructor. Qed.

Lemma insert_rec_wf path : forall c n h,
  length path = h -> Forall (fun k => (k < 8)%nat) path -> wf_node h n ->
  exists n', insert_rec path c n = Ok n' /\ wf_node h n' /\ n' <> Empty /\
             (nleaves n <= nleaves n')%nat.
Proof.
  induction path as [|k rest IH]; intros c n h Hlen Hp Hw.
  - cbn in Hlen. subst h. cbn [insert_rec]. inversion Hw; subst.
    + eexists. split; [reflexivity|]. split; [constructor; destruct c as [[? ?] ?]; cbn; lia|]. split; [discriminate|cbn; lia].
    + eexists. split; [reflexivity|]. split; [constructor; destruct c as [[? ?] ?]; cbn; lia|]. split; [discriminate|cbn; lia].
  - cbn [length] in Hlen. destruct h as [|h]; [discriminate|]. injection Hlen as Hlen.
    inversion Hp as [|? ? Hk Hrest]; subst. cbn [insert_rec].
    inversion Hw as [| |h' i rm ch Hl Hall Hpos Hb Hm]; subst.
    + destruct (IH c Empty (length rest) eq_refl Hrest (wf_empty _)) as (n' & -> & Hw' & Hne' & _).
      cbn [bind]. eexists. split; [reflexivity|].
      assert (Hk8 : (k < length empty8)%nat) by (cbn; lia).
      assert (Hall' : Forall (wf_node (length rest)) (set_at k n' empty8))
        by (apply map_at_Forall; [apply empty8_wf|exact Hw']).
      assert (Hpos' : (1 <= lsum nleaves (set_at k n' empty8))%nat).
      { apply (nonempty_lsum_pos (length rest)); [exact Hall'|]. exists n'. split; [|exact Hne'].
        replace n' with (nth k (set_at k n' empty8) Empty) at 1
          by (unfold set_at; now rewrite map_at_nth_same).
        apply nth_In. now rewrite set_at_length. }
      split; [apply mk_tree_wf; try assumption; now rewrite set_at_length|].
      split; [discriminate|cbn [nleaves]; lia].
    + eexists. split; [reflexivity|]. split; [constructor; destruct c as [[? ?] ?]; cbn; lia|]. split; [discriminate|cbn; lia].
    + pose proof (nth_Forall _ ch k Hall (wf_empty _)) as Hwc.
      destruct (IH c (nth k ch Empty) (length rest) eq_refl Hrest Hwc) as (n' & -> & Hw' & Hne' & Hle).
      cbn [bind]. eexists. split; [reflexivity|].
      assert (Hk8 : (k < length ch)%nat) by lia.
      assert (Hall' : Forall (wf_node (length rest)) (set_at k n' ch))
        by (apply map_at_Forall; [exact Hall|exact Hw']).
      pose proof (map_at_sum nleaves (fun _ => n') ch k Hk8) as Sl. fold (set_at k n' ch) in Sl. cbv beta in Sl.
      split; [apply mk_tree_wf; try assumption; [now rewrite set_at_length|lia]|].
      split; [discriminate|cbn [nleaves]; lia].
Qed.

Lemma oc_new_wf : wf_oc oc_new.
Proof. constructor; cbn; try lia. apply empty8_wf. Qed.

Lemma oc_insert_wf t c :
  wf_oc t -> rgb_ok c = true ->
  exists t', oc_insert t c = Ok t' /\ wf_oc t' /\
             (1 <= lsum nleaves (o_children t'))%nat /\
             (lsum nleaves (o_children t) <= lsum nleaves (o_children t'))%nat.
Proof.
  intros [Hlen Hall Hb Hs] Hc. unfold oc_insert. rewrite (path_packed_eq c Hc). unfold path_of.
  destruct (path_n_ok 8 c Hc) as [Hl Hf].
  destruct (path_n 8 c) as [|k rest]; [discriminate|].
  inversion Hf as [|? ? Hk Hrest]; subst. cbn [length] in Hl. injection Hl as Hl.
  pose proof (nth_Forall _ (o_children t) k Hall (wf_empty _)) as Hwc.
  destruct (insert_rec_wf rest c (nth k (o_children t) Empty) 7 Hl Hrest Hwc) as (n' & -> & Hw' & Hne' & Hle).
  cbn [bind]. eexists. split; [reflexivity|].
  assert (Hk8 : (k < length (o_children t))%nat) by lia.
  assert (Hall' : Forall (wf_node 7) (set_at k n' (o_children t)))
    by (apply map_at_Forall; [exact Hall|exact Hw']).
  pose proof (map_at_sum nleaves (fun _ => n') (o_children t) k Hk8) as Sl.
  fold (set_at k n' (o_children t)) in Sl. cbv beta in Sl.
  pose proof (wf_nonempty_leaves _ _ Hw' Hne').
  pose proof (lsum_nth_le nleaves (o_children t) k) as Hnl. cbn [nleaves] in Hnl.
  split; [|cbn [o_children]; unfold set_at in *; lia].
  constructor; cbn [o_children o_info]; try assumption.
  - now rewrite set_at_length.
  - rewrite from_slice_leaves. apply (nsum_bound 7), Hall'.
  - apply from_slice_slots.
Qed.

Lemma oc_extend_wf cs : forall t,
  wf_oc t -> Forall (fun c => rgb_ok c = true) cs ->
  exists t', oc_extend t cs = Ok t' /\ wf_oc t' /\
             (lsum nleaves (o_children t) <= lsum nleaves (o_children t'))%nat /\
             (cs <> [] -> (1 <= lsum nleaves (o_children t'))%nat).
Proof.
  induction cs as [|c r IH]; intros t Hw Hok.
  - exists t. cbn [oc_extend]. split; [reflexivity|]. split; [exact Hw|]. split; [lia|]. congruence.
  - inversion Hok as [|? ? Hc Hr]; subst. cbn [oc_extend].
    destruct (oc_insert_wf t c Hw Hc) as (t1 & -> & Hw1 & Hp1 & Hle1). cbn [bind].
    destruct (IH t1 Hw1 Hr) as (t' & -> & Hw' & Hle' & _).
    exists t'. split; [reflexivity|]. split; [exact Hw'|]. split; [lia|]. intros _. lia.
Qed.

(* ---------- build_palette ---------- *)

Lemma map_outcome_ok {A B} (f : A -> outcome B) (l : list A) :
  Forall (fun x => exists y, f x = Ok y) l ->
  exists ys, map_outcome f l = Ok ys /\ length ys = length l.
Proof.
  induction 1 as [|x r (y & Hy) Hr (ys & Hys & Hl)]; [exists []; split; reflexivity|].
  exists (y :: ys). cbn [map_outcome]. rewrite Hy, Hys. cbn. split; [reflexivity|lia].
Qed.

Lemma build_palette_ok t :
  wf_oc t -> exists pal, build_palette t = Ok pal /\ length pal = lsum nleaves (o_children t).
Proof.
  intros [Hlen Hall Hb Hs]. unfold build_palette.
  destruct (map_outcome_ok leaf_rgb (oc_leaves t)) as (ys & Hys & Hl).
  - unfold oc_leaves. apply Forall_forall. intros l Hl. apply in_flat_map in Hl.
    destruct Hl as (c & Hc & Hl). rewrite Forall_forall in Hall.
    pose proof (wf_leaves_pos c 7 (Hall c Hc)) as Hp. rewrite Forall_forall in Hp. specialize (Hp l Hl).
    unfold leaf_rgb. destruct (l_n l =? 0)%N eqn:E; [lia|]. eexists. reflexivity.
  - exists ys. split; [exact Hys|]. rewrite Hl. apply oc_leaves_length.
Qed.

(* ---------- the palette theorem ---------- *)

Theorem palette_bounds : forall (cs : list rgb) (k : N),
  cs <> [] -> Forall (fun c => rgb_ok c = true) cs ->
  exists t t' pal,
    oc_extend oc_new cs = Ok t /\ prune_until k t = Ok t' /\ build_palette t' = Ok pal /\
    (1 <= length pal)%nat /\ (N.of_nat (length pal) <= N.max k 8)%N.
Proof.
  intros cs k Hne Hok.
  destruct (oc_extend_wf cs oc_new oc_new_wf Hok) as (t & Ht & Hw & _ & Hpos). specialize (Hpos Hne).
  destruct (prune_until_terminates k t Hw) as (t' & Ht' & Hw' & Hb' & Hp'). specialize (Hp' Hpos).
  destruct (build_palette_ok t' Hw') as (pal & Hpal & Hlen).
  exists t, t', pal. split; [exact Ht|]. split; [exact Ht'|]. split; [exact Hpal|]. split; [lia|].
  rewrite Hlen. pose proof (wo_bound _ Hw'). lia.
Qed.
