(* Proofs about Image/KDTree.v: the k-d tree built from ANY palette keeps every
   entry, satisfies the k-d ordering invariant, and the branch-and-bound search
   returns an entry at minimal squared Euclidean distance for EVERY query. *)
From Coq Require Import List NArith ZArith Bool Lia Permutation Sorted Arith.
From Coq Require Import ZifyBool ZifyNat ZifyN.
From SNT Require Import Base.Outcome Image.KDTree.
Import ListNotations.

Arguments N.add : simpl never.
Arguments N.sub : simpl never.
Arguments N.mul : simpl never.
Arguments N.eqb : simpl never.
Arguments N.ltb : simpl never.
Arguments N.leb : simpl never.

(* ---------- arithmetic ---------- *)

Lemma sq_nonneg x : (0 <= sq x)%Z.
Proof. unfold sq. nia. Qed.

Lemma sq_mono a b : (0 <= a <= b)%Z -> (sq a <= sq b)%Z.
Proof. unfold sq. nia. Qed.

Lemma sq_neg x : sq (- x) = sq x.
Proof. unfold sq. ring. Qed.

Lemma dist2_ge_chan d q e :
  (sq (Z.of_N (chan d q) - Z.of_N (chan d e)) <= dist2 q e)%Z.
Proof.
  destruct q as [[qr qg] qb], e as [[er eg] eb]. unfold dist2.
  pose proof (sq_nonneg (Z.of_N qr - Z.of_N er)).
  pose proof (sq_nonneg (Z.of_N qg - Z.of_N eg)).
  pose proof (sq_nonneg (Z.of_N qb - Z.of_N eb)).
  destruct d as [|[|d]]; cbn [chan]; lia.
Qed.

Lemma dist2_nonneg q e : (0 <= dist2 q e)%Z.
Proof.
  pose proof (dist2_ge_chan 0 q e). pose proof (sq_nonneg (Z.of_N (chan 0 q) - Z.of_N (chan 0 e))). lia.
Qed.

(* q is strictly left of the plane through c, e is on the plane or right of it *)
Lemma plane_right d q c e :
  (chan d q < chan d c)%N -> (chan d c <= chan d e)%N ->
  (sq (Z.of_N (chan d q) - Z.of_N (chan d c)) <= dist2 q e)%Z.
Proof.
  intros Hq He. eapply Z.le_trans; [|apply dist2_ge_chan with (d := d)].
  rewrite <- (sq_neg (Z.of_N (chan d q) - Z.of_N (chan d c))).
  rewrite <- (sq_neg (Z.of_N (chan d q) - Z.of_N (chan d e))).
  apply sq_mono. lia.
Qed.

(* q is on the plane or right of it, e is on the plane or left of it *)
Lemma plane_left d q c e :
  (chan d c <= chan d q)%N -> (chan d e <= chan d c)%N ->
  (sq (Z.of_N (chan d q) - Z.of_N (chan d c)) <= dist2 q e)%Z.
Proof.
  intros Hq He. eapply Z.le_trans; [|apply dist2_ge_chan with (d := d)].
  apply sq_mono. lia.
Qed.

Lemma sq_zero x : sq x = 0%Z -> x = 0%Z.
Proof. unfold sq. nia. Qed.

Lemma dist2_zero_eq a b : dist2 a b = 0%Z -> a = b.
Proof.
  destruct a as [[ar ag] ab], b as [[br bg] bb]. unfold dist2. intros H.
  pose proof (sq_nonneg (Z.of_N ar - Z.of_N br)).
  pose proof (sq_nonneg (Z.of_N ag - Z.of_N bg)).
  pose proof (sq_nonneg (Z.of_N ab - Z.of_N bb)).
  assert (Z.of_N ar - Z.of_N br = 0)%Z by (apply sq_zero; lia).
  assert (Z.of_N ag - Z.of_N bg = 0)%Z by (apply sq_zero; lia).
  assert (Z.of_N ab - Z.of_N bb = 0)%Z by (apply sq_zero; lia).
  repeat f_equal; lia.
Qed.

Lemma dist2_refl a : dist2 a a = 0%Z.
Proof. destruct a as [[r g] b]. unfold dist2, sq. lia. Qed.

Lemma rgb_eqb_eq a b : rgb_eqb a b = true <-> a = b.
Proof.
  destruct a as [[ar ag] ab], b as [[br bg] bb]. unfold rgb_eqb. split.
  - intros H. repeat f_equal; lia.
  - intros H. inversion H. subst. lia.
Qed.

(* ---------- stable insertion sort ---------- *)

Definition key_le (d : nat) (a b : entry) : Prop := (chan d (snd a) <= chan d (snd b))%N.

Lemma ins_perm d x l : Permutation (ins d x l) (x :: l).
Proof.
  induction l as [|y ys IH]; cbn [ins]; [reflexivity|].
  destruct (chan d (snd x) <=? chan d (snd y))%N; [reflexivity|].
  rewrite IH. apply perm_swap.
Qed.

Lemma sort_by_perm d l : Permutation (sort_by d l) l.
Proof.
  induction l as [|x xs IH]; cbn [sort_by fold_right]; [reflexivity|].
  fold (sort_by d xs). rewrite ins_perm. now constructor.
Qed.

Lemma ins_sorted d x l :
  StronglySorted (key_le d) l -> StronglySorted (key_le d) (ins d x l).
Proof.
  induction l as [|y ys IH]; intros Hs; cbn [ins].
  - constructor; constructor.
  - destruct (chan d (snd x) <=? chan d (snd y))%N eqn:E.
    + constructor; [exact Hs|]. inversion Hs as [|? ? Hs' Hall]; subst.
      constructor; [unfold key_le; lia|].
      rewrite Forall_forall in *. intros z Hz. specialize (Hall z Hz). unfold key_le in *. lia.
    + inversion Hs as [|? ? Hs' Hall]; subst. constructor; [apply IH, Hs'|].
      rewrite Forall_forall in *. intros z Hz.
      apply (Permutation_in _ (ins_perm d x ys)) in Hz. destruct Hz as [<-|Hz].
      * unfold key_le. lia.
      * apply Hall, Hz.
Qed.

Lemma sort_by_sorted d l : StronglySorted (key_le d) (sort_by d l).
Proof.
  induction l as [|x xs IH]; cbn [sort_by fold_right]; [constructor|].
  apply ins_sorted, IH.
Qed.

(* splitting a sorted list at position m *)
Lemma sorted_split d (s : list entry) m p rest :
  StronglySorted (key_le d) s -> skipn m s = p :: rest ->
  (forall e, In e (firstn m s) -> key_le d e p) /\ (forall e, In e rest -> key_le d p e).
Proof.
  revert m. induction s as [|x xs IH]; intros m Hs Hk.
  - destruct m; discriminate.
  - destruct m as [|m].
    + cbn in Hk. inversion Hk; subst. split; [intros e []|].
      inversion Hs as [|? ? _ Hall]; subst. rewrite Forall_forall in Hall. exact Hall.
    + cbn [skipn] in Hk. inversion Hs as [|? ? Hs' Hall]; subst.
      destruct (IH m Hs' Hk) as [H1 H2]. split; [|exact H2].
      intros e [<-|He]; [|apply H1, He].
      rewrite Forall_forall in Hall. apply Hall.
      rewrite <- (firstn_skipn m xs). apply in_or_app. right. rewrite Hk. now left.
Qed.

(* ---------- the tree ---------- *)

Fixpoint elems (t : kd) : list entry :=
  match t with
  | KNil => []
  | KNode l i c _ r => elems l ++ (i, c) :: elems r
  end.

Fixpoint kd_inv (t : kd) : Prop :=
  match t with
  | KNil => True
  | KNode l i c d r =>
      (forall e, In e (elems l) -> (chan d (snd e) <= chan d c)%N) /\
      (forall e, In e (elems r) -> (chan d c <= chan d (snd e))%N) /\
      kd_inv l /\ kd_inv r
  end.

Lemma div2_lt n : (2 <= n)%nat -> (Nat.div2 n < n)%nat.
Proof. intros H. apply Nat.lt_div2. lia. Qed.

Lemma build_fuel_spec fuel : forall d l,
  (length l <= fuel)%nat ->
  Permutation (elems (build_fuel fuel d l)) l /\ kd_inv (build_fuel fuel d l).
Proof.
  induction fuel as [|f IH]; intros d l Hlen.
  - destruct l as [|x l]; [|cbn in Hlen; lia]. cbn. split; [reflexivity|exact I].
  - destruct l as [|[i c] l]; [cbn; split; [reflexivity|exact I]|].
    destruct l as [|y l]; [cbn; split; [reflexivity|repeat split; intros e []]|].
    remember (@cons entry (i, c) (y :: l)) as L eqn:HL.
    assert (HL2 : (2 <= length L)%nat) by (subst L; cbn; lia).
    assert (Hb : build_fuel (S f) d L =
                 let s := sort_by d L in
                 let m := Nat.div2 (length L) in
                 match skipn m s with
                 | [] => KNil
                 | (i, c) :: rest =>
                     KNode (build_fuel f (next_dim d) (firstn m s)) i c d
                           (build_fuel f (next_dim d) rest)
                 end) by (subst L; reflexivity).
    rewrite Hb. clear Hb. cbv zeta.
    set (s := sort_by d L). set (m := Nat.div2 (length L)).
    assert (Hperm : Permutation s L) by apply sort_by_perm.
    assert (Hls : length s = length L) by (apply Permutation_length, Hperm).
    assert (Hm : (m < length L)%nat) by (apply div2_lt, HL2).
    destruct (skipn m s) as [|[pi pc] rest] eqn:Hsk.
    { exfalso. assert (length (skipn m s) = 0%nat) by (rewrite Hsk; reflexivity).
      rewrite skipn_length in H. lia. }
    pose proof (firstn_skipn m s) as Hsplit. rewrite Hsk in Hsplit. symmetry in Hsplit.
    assert (Hl1 : (length (firstn m s) <= f)%nat) by (rewrite firstn_length; lia).
    assert (Hl2 : (length rest <= f)%nat).
    { assert (length (skipn m s) = S (length rest)) by (rewrite Hsk; reflexivity).
      rewrite skipn_length in H. lia. }
    destruct (IH (next_dim d) _ Hl1) as [P1 I1].
    destruct (IH (next_dim d) _ Hl2) as [P2 I2].
    destruct (sorted_split d s m (pi, pc) rest (sort_by_sorted d L) Hsk) as [S1 S2].
    split.
    + cbn [elems].
      eapply Permutation_trans; [apply Permutation_app; [exact P1|apply perm_skip; exact P2]|].
      rewrite <- Hsplit. exact Hperm.
    + cbn [kd_inv]. repeat split; try assumption.
      * intros e He. apply (Permutation_in _ P1) in He. apply (S1 e He).
      * intros e He. apply (Permutation_in _ P2) in He. apply (S2 e He).
Qed.

(* ---------- the search ---------- *)

Definition best_in (es : list entry) (q : rgb) (r : N * rgb * Z) : Prop :=
  let '(i, c, dd) := r in
  In (i, c) es /\ dd = dist2 q c /\ forall e, In e es -> (dd <= dist2 q (snd e))%Z.

Lemma find_rec_spec t q :
  kd_inv t ->
  match find_rec t q with
  | None => t = KNil
  | Some r => best_in (elems t) q r
  end.
Proof.
  induction t as [|l IHl i c d r IHr]; intros Hinv; [reflexivity|].
  cbn [kd_inv] in Hinv. destruct Hinv as (HL & HR & Il & Ir).
  specialize (IHl Il). specialize (IHr Ir).
  cbn [find_rec elems]. cbv zeta.
  destruct (chan d q <? chan d c)%N eqn:Hgo.
  - (* descend left first *)
    assert (Hg : exists g, (match find_rec l q with
                            | None => (i, c, dist2 q c)
                            | Some (gi, gc, gd) =>
                                if (gd >=? dist2 q c)%Z then (i, c, dist2 q c) else (gi, gc, gd)
                            end) = g /\ best_in (elems l ++ [(i, c)]) q g).
    { destruct (find_rec l q) as [[[gi gc] gd]|].
      - destruct IHl as (Hin & Hd & Hmin).
        destruct (gd >=? dist2 q c)%Z eqn:E; eexists; (split; [reflexivity|]); cbn [best_in].
        + repeat split; [apply in_or_app; right; now left|].
          intros e He. apply in_app_or in He. destruct He as [He|[<-|[]]]; [|cbn; lia].
          specialize (Hmin e He). lia.
        + repeat split; [apply in_or_app; now left|exact Hd|].
          intros e He. apply in_app_or in He. destruct He as [He|[<-|[]]]; [apply Hmin, He|cbn; lia].
      - subst l. eexists; split; [reflexivity|]. cbn. repeat split; [now left|].
        intros e [<-|[]]. cbn. lia. }
    destruct Hg as ([[gi gc] gd] & -> & Hin & Hd & Hmin).
    assert (Hin' : In (gi, gc) (elems l ++ (i, c) :: elems r)).
    { apply in_app_or in Hin. apply in_or_app. destruct Hin as [H|[H|[]]]; [now left|right; now left]. }
    assert (Hmin' : forall e, In e (elems l ++ [(i, c)]) \/ In e (elems r) <->
                              In e (elems l ++ (i, c) :: elems r)).
    { intros e. rewrite !in_app_iff. cbn. tauto. }
    destruct (sq (Z.of_N (chan d q) - Z.of_N (chan d c)) >=? gd)%Z eqn:Eo.
    + cbn [best_in]. repeat split; [exact Hin'|exact Hd|].
      intros e He. apply Hmin' in He. destruct He as [He|He]; [apply Hmin, He|].
      pose proof (plane_right d q c (snd e)) as P. specialize (HR e He). lia.
    + destruct (find_rec r q) as [[[oi oc] od]|].
      * destruct IHr as (Oin & Od & Omin).
        destruct (od <? gd)%Z eqn:E; cbn [best_in].
        -- repeat split; [apply in_or_app; right; now right|exact Od|].
           intros e He. apply Hmin' in He. destruct He as [He|He]; [specialize (Hmin e He); lia|apply Omin, He].
        -- repeat split; [exact Hin'|exact Hd|].
           intros e He. apply Hmin' in He. destruct He as [He|He]; [apply Hmin, He|specialize (Omin e He); lia].
      * subst r. cbn [best_in]. repeat split; [exact Hin'|exact Hd|].
        intros e He. apply Hmin' in He. destruct He as [He|[]]. apply Hmin, He.
  - (* descend right first *)
    assert (Hg : exists g, (match find_rec r q with
                            | None => (i, c, dist2 q c)
                            | Some (gi, gc, gd) =>
                                if (gd >=? dist2 q c)%Z then (i, c, dist2 q c) else (gi, gc, gd)
                            end) = g /\ best_in ((i, c) :: elems r) q g).
    { destruct (find_rec r q) as [[[gi gc] gd]|].
      - destruct IHr as (Hin & Hd & Hmin).
        destruct (gd >=? dist2 q c)%Z eqn:E; eexists; (split; [reflexivity|]); cbn [best_in].
        + repeat split; [now left|].
          intros e [<-|He]; [cbn; lia|]. specialize (Hmin e He). lia.
        + repeat split; [now right|exact Hd|].
          intros e [<-|He]; [cbn; lia|apply Hmin, He].
      - subst r. eexists; split; [reflexivity|]. cbn. repeat split; [now left|].
        intros e [<-|[]]. cbn. lia. }
    destruct Hg as ([[gi gc] gd] & -> & Hin & Hd & Hmin).
    assert (Hin' : In (gi, gc) (elems l ++ (i, c) :: elems r)) by (apply in_or_app; now right).
    assert (Hmin' : forall e, In e ((i, c) :: elems r) \/ In e (elems l) <->
                              In e (elems l ++ (i, c) :: elems r)).
    { intros e. rewrite !in_app_iff. cbn. tauto. }
    destruct (sq (Z.of_N (chan d q) - Z.of_N (chan d c)) >=? gd)%Z eqn:Eo.
    + cbn [best_in]. repeat split; [exact Hin'|exact Hd|].
      intros e He. apply Hmin' in He. destruct He as [He|He]; [apply Hmin, He|].
      pose proof (plane_left d q c (snd e)) as P. specialize (HL e He). lia.
    + destruct (find_rec l q) as [[[oi oc] od]|].
      * destruct IHl as (Oin & Od & Omin).
        destruct (od <? gd)%Z eqn:E; cbn [best_in].
        -- repeat split; [apply in_or_app; now left|exact Od|].
           intros e He. apply Hmin' in He. destruct He as [He|He]; [specialize (Hmin e He); lia|apply Omin, He].
        -- repeat split; [exact Hin'|exact Hd|].
           intros e He. apply Hmin' in He. destruct He as [He|He]; [apply Hmin, He|specialize (Omin e He); lia].
      * subst l. cbn [best_in]. repeat split; [exact Hin'|exact Hd|].
        intros e He. apply Hmin' in He. destruct He as [He|[]]. apply Hmin, He.
Qed.

(* ---------- enumerate ---------- *)

Lemma enumerate_from_length k l : length (enumerate_from k l) = length l.
Proof. revert k. induction l as [|c r IH]; intros k; cbn; [reflexivity|]. now rewrite IH. Qed.

Lemma enumerate_from_in k l i c :
  In (i, c) (enumerate_from k l) ->
  (k <= i)%N /\ nth_error l (N.to_nat (i - k)) = Some c.
Proof.
  revert k. induction l as [|x r IH]; intros k; cbn [enumerate_from]; [intros []|].
  intros [H|H].
  - inversion H; subst. split; [lia|]. replace (N.to_nat (i - i)) with 0%nat by lia. reflexivity.
  - destruct (IH _ H) as [H1 H2]. split; [lia|].
    replace (N.to_nat (i - k)) with (S (N.to_nat (i - (k + 1)))) by lia. exact H2.
Qed.

Lemma enumerate_from_all k l c :
  In c l -> exists i, In (i, c) (enumerate_from k l).
Proof.
  revert k. induction l as [|x r IH]; intros k; [intros []|].
  intros [->|H]; cbn [enumerate_from].
  - exists k. now left.
  - destruct (IH (k + 1)%N H) as [i Hi]. exists i. now right.
Qed.

(* ---------- the theorem ---------- *)

Lemma build_spec pal :
  Permutation (elems (build pal)) (enumerate_from 0 pal) /\ kd_inv (build pal).
Proof. unfold build. apply build_fuel_spec. rewrite enumerate_from_length. lia. Qed.

Theorem kd_nearest : forall (pal : list rgb) (q : rgb),
  pal <> [] ->
  exists i c, kd_find (build pal) q = Ok (i, c) /\ is_nearest pal q i c.
Proof.
  intros pal q Hne. destruct (build_spec pal) as [Hperm Hinv].
  pose proof (find_rec_spec (build pal) q Hinv) as Hf. unfold kd_find.
  destruct (find_rec (build pal) q) as [[[i c] dd]|].
  - destruct Hf as (Hin & Hd & Hmin). exists i, c. split; [reflexivity|]. split.
    + apply (Permutation_in _ Hperm) in Hin. apply enumerate_from_in in Hin.
      destruct Hin as [_ Hn]. now rewrite N.sub_0_r in Hn.
    + intros c' Hc'. destruct (enumerate_from_all 0 pal c' Hc') as [j Hj].
      apply (Permutation_in _ (Permutation_sym Hperm)) in Hj. specialize (Hmin _ Hj). cbn in Hmin. lia.
  - exfalso. rewrite Hf in Hperm. cbn in Hperm. apply Permutation_nil in Hperm.
    destruct pal; [now apply Hne|discriminate].
Qed.

(* the executable predicate used on the implementation's output is the same notion *)
Lemma is_nearestb_spec pal q i c : is_nearestb pal q i c = true <-> is_nearest pal q i c.
Proof.
  unfold is_nearestb, is_nearest. destruct (nth_error pal (N.to_nat i)) as [c0|].
  - rewrite andb_true_iff, rgb_eqb_eq, forallb_forall. split.
    + intros [-> H]. split; [reflexivity|]. intros c' Hc. specialize (H c' Hc). lia.
    + intros [H1 H2]. inversion H1; subst. split; [reflexivity|]. intros c' Hc. specialize (H2 c' Hc). lia.
  - split; [discriminate|intros [H _]; discriminate].
Qed.

(* consequences used by the quantiser *)
Lemma kd_find_index pal q i c :
  kd_find (build pal) q = Ok (i, c) -> (i < N.of_nat (length pal))%N /\ nth_error pal (N.to_nat i) = Some c.
Proof.
  intros H. destruct pal as [|p pal]; [vm_compute in H; discriminate|].
  destruct (kd_nearest (p :: pal) q) as (i' & c' & Hf & Hn & _); [discriminate|].
  rewrite H in Hf. inversion Hf; subst. split; [|exact Hn].
  assert (N.to_nat i' < length (p :: pal))%nat by (apply nth_error_Some; congruence). lia.
Qed.

Lemma kd_find_exact pal q :
  In q pal -> exists i, kd_find (build pal) q = Ok (i, q) /\ nth_error pal (N.to_nat i) = Some q.
Proof.
  intros Hin. destruct (kd_nearest pal q) as (i & c & Hf & Hn & Hmin).
  { intros ->. destruct Hin. }
  specialize (Hmin q Hin). rewrite dist2_refl in Hmin.
  pose proof (dist2_nonneg q c). assert (q = c) by (apply dist2_zero_eq; lia). subst c.
  exists i. split; assumption.
Qed.
