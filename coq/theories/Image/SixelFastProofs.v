(* The map-based predicates the correspondence evaluates on the implementation's bytes are
   the list-based predicates of the theorems: picture_ok_fast = picture_ok (always), and
   picture_eq_fast = picture_eq whenever the events lie inside the raster and the expected
   picture is rectangular of that width (both are checked before picture_eq_fast is used). *)
From Coq Require Import List NArith Bool Lia Arith FMapPositive.
From Coq Require Import ZifyBool ZifyNat ZifyN.
From SNT Require Import Base.Outcome Image.KDTree Image.Sixel Image.SixelFast.
Import ListNotations.
Local Open Scope N_scope.

Arguments N.add : simpl never.
Arguments N.mul : simpl never.
Arguments N.div : simpl never.
Arguments N.modulo : simpl never.

Lemma succ_pos_inj a b : N.succ_pos a = N.succ_pos b -> a = b.
Proof.
  intros H. assert (N.pos (N.succ_pos a) = N.pos (N.succ_pos b)) by now rewrite H.
  rewrite !N.succ_pos_spec in H0. lia.
Qed.

Lemma pix_key_inj w x y x' y' :
  x < w -> x' < w -> pix_key w x y = pix_key w x' y' -> x = x' /\ y = y'.
Proof.
  intros Hx Hx' H. apply succ_pos_inj in H.
  assert (y = y').
  { assert ((y * w + x) / w = (y' * w + x') / w) by now rewrite H.
    rewrite (N.add_comm (y * w)), (N.add_comm (y' * w)) in H0. rewrite !N.div_add in H0 by lia.
    rewrite !N.div_small in H0 by lia. lia. }
  subst. split; [lia|reflexivity].
Qed.

Definition ev_add (w : N) (m : PositiveMap.t rgb) (e : N * N * rgb) : PositiveMap.t rgb :=
  let '(x, y, v) := e in PositiveMap.add (pix_key w x y) v m.

Lemma pix_map_cons w e evs : pix_map w (e :: evs) = ev_add w (pix_map w evs) e.
Proof.
  unfold pix_map. cbn [rev_append]. rewrite !rev_append_rev. rewrite app_nil_r.
  change (fun (m : PositiveMap.t rgb) (e0 : N * N * rgb) =>
            let '(x, y, v) := e0 in PositiveMap.add (pix_key w x y) v m) with (ev_add w).
  rewrite fold_left_app. reflexivity.
Qed.

Definition xs_in (w : N) (evs : list (N * N * rgb)) : Prop := Forall (fun e => fst (fst e) < w) evs.

Lemma pix_find w evs x y :
  xs_in w evs -> x < w -> PositiveMap.find (pix_key w x y) (pix_map w evs) = pixel_at evs x y.
Proof.
  intros Hin Hx. induction Hin as [|[[ex ey] ev] r He Hr IH].
  - unfold pix_map. cbn. apply PositiveMap.gempty.
  - rewrite pix_map_cons. cbn [ev_add pixel_at]. cbn [fst] in He.
    destruct ((ex =? x) && (ey =? y)) eqn:E.
    + assert (ex = x /\ ey = y) as [-> ->] by lia. apply PositiveMap.gss.
    + rewrite PositiveMap.gso; [exact IH|]. intros Hk.
      destruct (pix_key_inj w x y ex ey Hx He Hk). subst. lia.
Qed.

Lemma painted_pixel_at evs x y :
  painted evs x y = match pixel_at evs x y with Some _ => true | None => false end.
Proof.
  induction evs as [|[[ex ey] ev] r IH]; [reflexivity|]. cbn [painted existsb pixel_at].
  destruct ((ex =? x) && (ey =? y)); [reflexivity|]. exact IH.
Qed.

Lemma ev_in_xs w h evs : forallb (ev_in w h) evs = true -> xs_in w evs.
Proof.
  rewrite forallb_forall. intros H. apply Forall_forall. intros [[x y] v] Hin.
  specialize (H _ Hin). unfold ev_in in H. cbn. lia.
Qed.

Lemma nrange_from_In' n : forall a b, In b (nrange_from a n) <-> a <= b < a + N.of_nat n.
Proof. induction n as [|n IH]; intros a b; cbn [nrange_from In]; [lia|]. rewrite IH. lia. Qed.

Lemma cover_eq w h evs :
  xs_in w evs ->
  forallb (fun i => PositiveMap.mem (N.succ_pos i) (pix_map w evs)) (nrange_from 0 (N.to_nat (w * h)))
  = forallb (fun y => forallb (fun x => painted evs x y) (nrange_from 0 (N.to_nat w))) (nrange_from 0 (N.to_nat h)).
Proof.
  intros Hin. apply eq_true_iff_eq. rewrite !forallb_forall. split.
  - intros H y Hy. apply forallb_forall. intros x Hx.
    apply nrange_from_In' in Hy. apply nrange_from_In' in Hx.
    assert (Hi : In (y * w + x) (nrange_from 0 (N.to_nat (w * h)))) by (apply nrange_from_In'; nia).
    specialize (H _ Hi). rewrite PositiveMap.mem_find in H.
    change (N.succ_pos (y * w + x)) with (pix_key w x y) in H. rewrite pix_find in H by (assumption || lia).
    rewrite painted_pixel_at. destruct (pixel_at evs x y); [reflexivity|discriminate].
  - intros H i Hi. apply nrange_from_In' in Hi.
    assert (Hi' : i < w * h) by lia.
    assert (Hw : 0 < w) by (destruct (N.eq_dec w 0) as [->|]; [rewrite N.mul_0_l in Hi'; lia|lia]).
    pose proof (N.div_mod i w ltac:(lia)) as Hdm. pose proof (N.mod_upper_bound i w ltac:(lia)) as Hm.
    assert (Hy : i / w < h) by (apply N.div_lt_upper_bound; lia).
    remember (i / w) as qy eqn:Eq. remember (i mod w) as mx eqn:Em.
    assert (Hyin : In qy (nrange_from 0 (N.to_nat h))) by (apply nrange_from_In'; lia).
    specialize (H _ Hyin). rewrite forallb_forall in H.
    assert (Hxin : In mx (nrange_from 0 (N.to_nat w))) by (apply nrange_from_In'; lia).
    specialize (H _ Hxin). rewrite painted_pixel_at in H.
    rewrite PositiveMap.mem_find. replace i with (qy * w + mx) by lia.
    change (N.succ_pos (qy * w + mx)) with (pix_key w mx qy).
    rewrite pix_find by (assumption || lia). destruct (pixel_at evs mx qy); [reflexivity|discriminate].
Qed.

Theorem picture_ok_fast_eq w h p : picture_ok_fast w h p = picture_ok w h p.
Proof.
  unfold picture_ok_fast, picture_ok. destruct (forallb (ev_in w h) (p_events p)) eqn:E.
  - rewrite (cover_eq w h _ (ev_in_xs w h _ E)). reflexivity.
  - rewrite !andb_false_r. reflexivity.
Qed.

(* ---------- picture_eq ---------- *)

Lemma nrange_from_app a n m : nrange_from a (n + m) = nrange_from a n ++ nrange_from (a + N.of_nat n) m.
Proof.
  revert a. induction n as [|n IH]; intros a; cbn [Nat.add nrange_from app].
  - f_equal. lia.
  - f_equal. rewrite IH. f_equal. f_equal. lia.
Qed.

Lemma nrange_from_length a n : length (nrange_from a n) = n.
Proof. revert a. induction n as [|n IH]; intros a; cbn; auto. Qed.

Lemma list_eqb2_opt_app {A B} (f : A -> B -> bool) a1 a2 b1 b2 :
  length a1 = length b1 ->
  list_eqb2_opt f (a1 ++ a2) (b1 ++ b2) = list_eqb2_opt f a1 b1 && list_eqb2_opt f a2 b2.
Proof.
  revert b1. induction a1 as [|x r IH]; intros [|y s] H; cbn in H; try discriminate; [reflexivity|].
  cbn [app list_eqb2_opt]. rewrite IH by lia. now rewrite andb_assoc.
Qed.

Lemma cols_eq w evs y row : forall x0,
  xs_in w evs -> x0 + N.of_nat (length row) <= w ->
  list_eqb2_opt (pix_is (pix_map w evs)) (nrange_from (y * w + x0) (length row)) row = eq_cols evs y x0 row.
Proof.
  induction row as [|v r IH]; intros x0 Hin Hx; [reflexivity|].
  cbn [length nrange_from list_eqb2_opt eq_cols]. cbn [length] in Hx. f_equal.
  - unfold pix_is. change (N.succ_pos (y * w + x0)) with (pix_key w x0 y). rewrite pix_find by (assumption || lia).
    reflexivity.
  - replace (y * w + x0 + 1) with (y * w + (x0 + 1)) by lia. apply IH; [exact Hin|lia].
Qed.

Lemma rows_eq w evs l : forall y,
  xs_in w evs -> Forall (fun r => N.of_nat (length r) = w) l ->
  list_eqb2_opt (pix_is (pix_map w evs)) (nrange_from (y * w) (length (concat l))) (concat l) = eq_rows evs y l.
Proof.
  induction l as [|row r IH]; intros y Hin Hl; [reflexivity|].
  inversion Hl as [|? ? Hrow Hr]; subst. cbn [concat eq_rows]. rewrite app_length, nrange_from_app.
  rewrite list_eqb2_opt_app by apply nrange_from_length. f_equal.
  - replace (y * N.of_nat (length row)) with (y * N.of_nat (length row) + 0) by lia.
    apply cols_eq; [exact Hin|lia].
  - replace (y * N.of_nat (length row) + N.of_nat (length row)) with ((y + 1) * N.of_nat (length row)) by lia.
    apply IH; assumption.
Qed.

Theorem picture_eq_fast_eq w h expected p :
  forallb (ev_in w h) (p_events p) = true ->
  Forall (fun r => N.of_nat (length r) = w) expected ->
  picture_eq_fast w expected p = picture_eq expected p.
Proof.
  intros He Hr. unfold picture_eq_fast, picture_eq.
  replace 0 with (0 * w) at 1 by lia. apply rows_eq; [eapply ev_in_xs, He|exact Hr].
Qed.

Lemma fast_predicates : forall w h p,
  picture_ok_fast w h p = picture_ok w h p /\
  (forall expected, picture_ok_fast w h p = true ->
     Forall (fun r => N.of_nat (length r) = w) expected ->
     picture_eq_fast w expected p = picture_eq expected p).
Proof.
  intros w h p. split; [apply picture_ok_fast_eq|]. intros expected Hok Hr.
  apply (picture_eq_fast_eq w h); [|exact Hr].
  unfold picture_ok_fast in Hok. rewrite !andb_true_iff in Hok. tauto.
Qed.

(* ---------- counting distinct colours in time O(pixels x colours) ---------- *)

(* `distinct100` (SixelDraw.v) removes duplicates by looking each pixel up in the REST of the list: quadratic in the
   pixel count, minutes for a 25k-pixel image.  The count below keeps the colours seen so far; it is the same
   number (both lists are duplicate-free and have the elements of the input). *)
From SNT Require Import Image.Octree Image.OctreeExact Image.SixelDraw.

Fixpoint nodup_acc (seen : list rgb) (l : list rgb) : list rgb :=
  match l with
  | [] => seen
  | c :: r => if mem c seen then nodup_acc seen r else nodup_acc (c :: seen) r
  end.

Lemma nodup_acc_spec l : forall seen, NoDup seen ->
  NoDup (nodup_acc seen l) /\ (forall x, In x (nodup_acc seen l) <-> In x seen \/ In x l).
Proof.
  induction l as [|c r IH]; intros seen Hnd; cbn [nodup_acc].
  - split; [exact Hnd|]. intro x. cbn. tauto.
  - destruct (mem c seen) eqn:Hm.
    + destruct (IH seen Hnd) as [H1 H2]. split; [exact H1|]. intro x. rewrite H2. cbn.
      apply mem_In in Hm. split; [tauto|]. intros [H|[H|H]]; [tauto|subst; tauto|tauto].
    + assert (Hni : ~ In c seen) by (intro Hc; apply mem_In in Hc; congruence).
      destruct (IH (c :: seen) (NoDup_cons c Hni Hnd)) as [H1 H2]. split; [exact H1|].
      intro x. rewrite H2. cbn. tauto.
Qed.

Lemma nodup_acc_length l : length (nodup_acc [] l) = length (nodup_rgb l).
Proof.
  destruct (nodup_acc_spec l [] (NoDup_nil _)) as [Ha Hin].
  pose proof (nodup_rgb_NoDup l) as Hb.
  apply Nat.le_antisymm; apply NoDup_incl_length; try assumption; intros x Hx.
  - apply nodup_rgb_In. apply Hin in Hx. cbn in Hx. tauto.
  - apply Hin. right. apply nodup_rgb_In. exact Hx.
Qed.

Definition distinct100_fast (rows : list (list spx)) : N :=
  N.of_nat (length (nodup_acc [] (concat (sixel_src100 rows)))).

Lemma distinct100_fast_eq rows : distinct100_fast rows = distinct100 rows.
Proof. unfold distinct100_fast, distinct100. now rewrite nodup_acc_length. Qed.
