(* Model of OcTree (src/image.rs:1041-1495): leaves with colour accumulators,
   per-tree cached `info`, insertion along the 8-step bit path, prune / prune_rec /
   prune_until and build_palette.  Executable definitions only.

   The cached `info` is modelled as a stored field that is recomputed exactly
   where the code calls `node_update` and nowhere else (two branches of
   prune_rec and the Leaf branch of prune leave it stale, as in the code).

   The leaf accumulators are machine words of the widths the source declares (regenerated:
   Gen/TabOctree.v); `+=` on them is checked, as in a debug build (Panic on overflow).
   Not modelled: OcTreeLeaf::index / OcTree::find (not used by quantisation).

   Panic sites are identifiers, not source lines (lines move with every commit):
     13001 KDTree::find on an empty arena (`self.nodes.len() - 1`)      [Image/KDTree.v]
     13002 OcTreeLeaf::to_rgba with color_count = 0 (division by zero)
     13003 insert_rec: `Tree(_) => unreachable!()`
     13004 insert: expect("OcTreePath can not be empty")
     13005 prune_rec: `Empty => unreachable!(..)`        13006 prune: `Empty => unreachable!(..)`
     13007 from_image: palette_size = 0 (division by zero)                [Image/Quantize.v]
     13008 `leaf += rgba` overflow                       13009 `leaf += leaf` overflow
     12001 sixel strip: `column - offset` underflow                       [Image/Sixel.v] *)
From Coq Require Import List NArith Bool.
From SNT Require Import Base.Outcome Image.KDTree Gen.TabOctree.
Import ListNotations.
Local Open Scope N_scope.

(* ---------- leaves and infos ---------- *)

Record leaf := mkLeaf { l_r : N; l_g : N; l_b : N; l_n : N }.

Definition leaf_new : leaf := mkLeaf 0 0 0 0.
Definition leaf_of (c : rgb) : leaf := let '(r, g, b) := c in mkLeaf r g b 1.
Definition leaf_add (l : leaf) (c : rgb) : leaf :=
  let '(r, g, b) := c in mkLeaf (l_r l + r) (l_g l + g) (l_b l + b) (l_n l + 1).
Definition leaf_join (l m : leaf) : leaf :=
  mkLeaf (l_r l + l_r m) (l_g l + l_g m) (l_b l + l_b m) (l_n l + l_n m).

(* the accumulators fit their declared types *)
Definition leaf_fits (l : leaf) : bool :=
  (l_r l <? leaf_acc_limit) && (l_g l <? leaf_acc_limit) && (l_b l <? leaf_acc_limit)
  && (l_n l <? leaf_count_limit).

(* `leaf += rgba` and `leaf += leaf` (impl AddAssign for OcTreeLeaf): overflow panics *)
Definition leaf_add_chk (l : leaf) (c : rgb) : outcome leaf :=
  let l' := leaf_add l c in if leaf_fits l' then Ok l' else Panic 13008.
Definition leaf_join_chk (l m : leaf) : outcome leaf :=
  let l' := leaf_join l m in if leaf_fits l' then Ok l' else Panic 13009.

(* OcTreeLeaf::to_rgba: integer division, `as u8`; color_count = 0 divides by zero *)
Definition leaf_rgb (l : leaf) : outcome rgb :=
  if l_n l =? 0 then Panic 13002
  else Ok ((l_r l / l_n l) mod 256, (l_g l / l_n l) mod 256, (l_b l / l_n l) mod 256).

Record info := mkInfo { i_leaves : N; i_colors : N; i_min : option N }.

Definition info_empty : info := mkInfo 0 0 None.

Definition info_join (a b : info) : info :=
  mkInfo (i_leaves a + i_leaves b) (i_colors a + i_colors b)
         match i_min a, i_min b with
         | Some x, Some y => Some (N.min x y)
         | None, Some y => Some y
         | Some x, None => Some x
         | None, None => None
         end.

Inductive node :=
| Empty
| Leaf (l : leaf)
| Tree (i : info) (removed : leaf) (children : list node).   (* 8 children *)

(* the root OcTree has the same three fields *)
Record octree := mkOc { o_info : info; o_removed : leaf; o_children : list node }.

Definition node_info (n : node) : info :=
  match n with
  | Empty => info_empty
  | Leaf l => mkInfo 1 (l_n l) (Some (l_n l))
  | Tree i _ _ => i
  end.

Definition from_slice (ch : list node) : info :=
  fold_left (fun acc n => info_join acc (node_info n)) ch info_empty.

Definition empty8 : list node := [Empty; Empty; Empty; Empty; Empty; Empty; Empty; Empty].
Definition oc_new : octree := mkOc info_empty leaf_new empty8.

Definition is_empty (n : node) : bool := match n with Empty => true | _ => false end.

(* children[k] := f(children[k]) *)
Section MapAt.
  Variable f : node -> node.
  (* the list comes first: the guard checker only sees through a nested fixpoint
     whose structural argument is its first one *)
  Fixpoint map_at (l : list node) (k : nat) {struct l} : list node :=
    match l with
    | [] => []
    | x :: r => match k with O => f x :: r | S k' => x :: map_at r k' end
    end.
End MapAt.

Definition set_at (k : nat) (v : node) (l : list node) : list node := map_at (fun _ => v) l k.

(* ---------- OcTreePath ---------- *)

(* The iterator packs r,g,b into one u32 and each step takes the top bit of every
   byte (`state & 0x808080`) and shifts every byte left inside its own lane
   (`(state << 1) & 0xfefefe`).  Lane by lane this is: *)
Definition path_step (c : rgb) : nat * rgb :=
  let '(r, g, b) := c in
  (N.to_nat (4 * (r / 128) + 2 * (g / 128) + b / 128),
   ((2 * r) mod 256, (2 * g) mod 256, (2 * b) mod 256)).

Fixpoint path_n (n : nat) (c : rgb) : list nat :=
  match n with
  | O => []
  | S n' => let '(i, c') := path_step c in i :: path_n n' c'
  end.

Definition path_of (c : rgb) : list nat := path_n 8 c.

(* the packed form, exactly as coded; OctreePath.path_packed_eq proves it equal to path_of for every colour *)
Definition packed_step (state : N) : nat * N :=
  let bits := N.land state 0x808080 in
  let state' := N.land (N.shiftl state 1) 0xfefefe in
  (N.to_nat (N.land (N.lor (N.lor (N.shiftr bits 21) (N.shiftr bits 14)) (N.shiftr bits 7)) 7), state').

Fixpoint packed_n (n : nat) (s : N) : list nat :=
  match n with
  | O => []
  | S n' => let '(i, s') := packed_step s in i :: packed_n n' s'
  end.

Definition path_packed (c : rgb) : list nat :=
  let '(r, g, b) := c in
  packed_n 8 (N.lor (N.lor (N.shiftl r 16) (N.shiftl g 8)) b).

(* ---------- insert ---------- *)

(* insert_rec(node, path) with `path.next()` = head of `path`.
   node_update = replace the child, then info := from_slice(children). *)
Fixpoint insert_rec (path : list nat) (c : rgb) (n : node) : outcome node :=
  match path with
  | k :: rest =>
      match n with
      | Empty =>
          let* child := insert_rec rest c Empty in
          let ch := set_at k child empty8 in
          Ok (Tree (from_slice ch) leaf_new ch)
      | Leaf l => let* l' := leaf_add_chk l c in Ok (Leaf l')
      | Tree _ rm ch =>
          let* child := insert_rec rest c (nth k ch Empty) in
          let ch' := set_at k child ch in
          Ok (Tree (from_slice ch') rm ch')
      end
  | [] =>
      match n with
      | Empty => Ok (Leaf (leaf_of c))
      | Leaf l => let* l' := leaf_add_chk l c in Ok (Leaf l')
      | Tree _ _ _ => Panic 13003                     (* unreachable!() *)
      end
  end.

Definition oc_insert (t : octree) (c : rgb) : outcome octree :=
  match path_packed c with          (* OcTreePath::new(color), as coded; = path_of c (OctreePath.path_packed_eq) *)
  | [] => Panic 13004                                  (* expect("OcTreePath can not be empty") *)
  | k :: rest =>
      let* child := insert_rec rest c (nth k (o_children t) Empty) in
      let ch' := set_at k child (o_children t) in
      Ok (mkOc (from_slice ch') (o_removed t) ch')
  end.

Fixpoint oc_extend (t : octree) (cs : list rgb) : outcome octree :=
  match cs with
  | [] => Ok t
  | c :: r => let* t' := oc_insert t c in oc_extend t' r
  end.

(* ---------- prune ---------- *)

(* argmin_color_count: enumerate, keep nodes whose info has a minimum, min_by_key
   (Iterator::min_by_key returns the FIRST minimal element) *)
Fixpoint argmin_from (k : nat) (best : option (nat * N)) (l : list node) : option (nat * N) :=
  match l with
  | [] => best
  | n :: r =>
      let best' :=
        match i_min (node_info n), best with
        | None, _ => best
        | Some v, None => Some (k, v)
        | Some v, Some (bk, bv) => if v <? bv then Some (k, v) else best
        end in
      argmin_from (S k) best' r
  end.

Definition argmin (ch : list node) : option nat :=
  match argmin_from O None ch with Some (k, _) => Some k | None => None end.

Definition all_empty (ch : list node) : bool := forallb is_empty ch.

(* children[k] := f(children[k]) for an f that may panic *)
Section MapAtO.
  Variable f : node -> outcome node.
  Fixpoint map_at_o (l : list node) (k : nat) {struct l} : outcome (list node) :=
    match l with
    | [] => Ok []
    | x :: r =>
        match k with
        | O => let* y := f x in Ok (y :: r)
        | S k' => let* r' := map_at_o r k' in Ok (x :: r')
        end
    end.
End MapAtO.

(* prune_rec(tree: Box<OcTree>) -> OcTreeNode; by its type only ever applied to Tree nodes.
   The `Empty => unreachable!()` arm is a Panic of the model (OctreeProofs shows it is
   never taken on well-formed trees: argmin only returns children whose info has a minimum). *)
Fixpoint prune_rec (n : node) : outcome node :=
  match n with
  | Tree i rm ch =>
      match argmin ch with
      | None => Ok (Leaf rm)
      | Some k =>
          match nth k ch Empty with
          | Empty => Panic 13005                        (* unreachable!("agrmin_color_count found and empty node") *)
          | Leaf l =>
              (* tree.removed += leaf; NO node_update: info stays as it was *)
              let* rm' := leaf_join_chk rm l in
              let ch' := set_at k Empty ch in
              if all_empty ch' then Ok (Leaf rm') else Ok (Tree i rm' ch')
          | Tree _ _ _ =>
              let* ch1 := map_at_o prune_rec ch k in
              match nth k ch1 Empty with
              | Leaf l =>
                  if all_empty (set_at k Empty ch) then (let* rm' := leaf_join_chk rm l in Ok (Leaf rm'))
                  else Ok (Tree (from_slice ch1) rm ch1)
              | _ => Ok (Tree (from_slice ch1) rm ch1)
              end
          end
      end
  | _ => Ok n
  end.

(* OcTree::prune on the root *)
Definition oc_prune (t : octree) : outcome octree :=
  let ch := o_children t in
  match argmin ch with
  | None => Ok t
  | Some k =>
      match nth k ch Empty with
      | Empty => Panic 13006                            (* unreachable!(..) *)
      | Leaf l =>
          (* self.removed += leaf; the root's info is NOT recomputed *)
          let* rm' := leaf_join_chk (o_removed t) l in
          Ok (mkOc (o_info t) rm' (set_at k Empty ch))
      | Tree _ _ _ =>
          let* ch1 := map_at_o prune_rec ch k in
          Ok (mkOc (from_slice ch1) (o_removed t) ch1)
      end
  end.

(* while self.info.leaf_count > color_count.max(8) { self.prune() } *)
Fixpoint prune_until_fuel (fuel : nat) (k : N) (t : octree) : outcome octree :=
  if i_leaves (o_info t) <=? N.max k 8 then Ok t
  else match fuel with
       | O => OutOfFuel
       | S f => let* t' := oc_prune t in prune_until_fuel f k t'
       end.

(* number of prune() calls the loop makes (for the harness) and a measure that
   bounds it: 2 * #Tree nodes + #Leaf nodes below the root *)
Fixpoint node_measure (n : node) : nat :=
  match n with
  | Empty => 0
  | Leaf _ => 1
  | Tree _ _ ch => 2 + fold_right (fun c acc => node_measure c + acc)%nat 0%nat ch
  end.

Definition oc_measure (t : octree) : nat :=
  fold_right (fun c acc => node_measure c + acc)%nat 0%nat (o_children t).

Definition prune_until (k : N) (t : octree) : outcome octree :=
  prune_until_fuel (oc_measure t) k t.

(* ---------- build_palette ---------- *)

Fixpoint leaves_of (n : node) : list leaf :=
  match n with
  | Empty => []
  | Leaf l => [l]
  | Tree _ _ ch => flat_map leaves_of ch
  end.

Definition oc_leaves (t : octree) : list leaf := flat_map leaves_of (o_children t).

Fixpoint map_outcome {A B} (f : A -> outcome B) (l : list A) : outcome (list B) :=
  match l with
  | [] => Ok []
  | x :: r => let* y := f x in let* ys := map_outcome f r in Ok (y :: ys)
  end.

Definition build_palette (t : octree) : outcome (list rgb) :=
  map_outcome leaf_rgb (oc_leaves t).

(* ---------- distinct colours (specification side) ---------- *)

Definition mem (c : rgb) (l : list rgb) : bool := existsb (rgb_eqb c) l.

Fixpoint nodup_rgb (l : list rgb) : list rgb :=
  match l with
  | [] => []
  | c :: r => if mem c r then nodup_rgb r else c :: nodup_rgb r
  end.

(* ---------- observation used by the harness: OcTree::to_digraph ---------- *)
(* DFS preorder; a Tree prints (leaf_count, min_color_count.unwrap_or(0)), a Leaf
   prints its colour and color_count *)
Inductive dnode :=
| DLeaf (c : rgb) (count : N)
| DTree (leaves : N) (minc : N) (children : list dnode).

Fixpoint digraph_node (n : node) : list dnode :=
  match n with
  | Empty => []
  | Leaf l => match leaf_rgb l with Ok c => [DLeaf c (l_n l)] | _ => [DLeaf (0, 0, 0) (l_n l)] end
  | Tree i _ ch =>
      [DTree (i_leaves i) (match i_min i with Some m => m | None => 0 end)
             (flat_map digraph_node ch)]
  end.

(* to_digraph calls leaf.to_rgba(): a leaf with color_count 0 divides by zero *)
Definition has_zero_leaf (t : octree) : bool := existsb (fun l => l_n l =? 0) (oc_leaves t).

Definition digraph (t : octree) : dnode :=
  DTree (i_leaves (o_info t)) (match i_min (o_info t) with Some m => m | None => 0 end)
        (flat_map digraph_node (o_children t)).
