(* C12 proofs, part 2: what the reference interpreter does with one colour strip, one
   band and the whole body the encoder emits: it paints exactly the recorded
   (column, code) entries of every colour, in the order given, band after band. *)
From Coq Require Import List NArith Bool Lia Arith.
From Coq Require Import ZifyBool ZifyNat ZifyN.
From SNT Require Import Base.Outcome Image.KDTree Image.Sixel Image.SixelInterp.
Import ListNotations.
Local Open Scope N_scope.

Arguments N.add : simpl never.
Arguments N.sub : simpl never.
Arguments N.mul : simpl never.
Arguments N.div : simpl never.
Arguments N.modulo : simpl never.
Arguments N.pow : simpl never.

Definition entry_events (y : N) (v : rgb) (e : N * N) : list (N * N * rgb) :=
  paint_bits (fst e) y v (snd e - 63) 6.

Definition entries_events (y : N) (v : rgb) (es : list (N * N)) : list (N * N * rgb) :=
  flat_map (entry_events y v) es.

(* strictly increasing columns, the first one at or after `offset` *)
Fixpoint sorted_from (offset : N) (es : list (N * N)) : Prop :=
  match es with
  | [] => True
  | (c, _) :: r => offset <= c /\ sorted_from (c + 1) r
  end.

Definition codes_ok (es : list (N * N)) : Prop := Forall (fun e => data_char (snd e)) es.

Definition run_entries (column code r : N) (k : nat) : list (N * N) :=
  map (fun j => (column + r + N.of_nat j, code)) (seq 0 k).

Lemma take_run_spec rest : forall column code r n rest',
  take_run column code r rest = (n, rest') ->
  exists k, n = r + N.of_nat k /\ rest = run_entries column code r k ++ rest'.
Proof.
  induction rest as [|[cn kn] rest IH]; intros column code r n rest' H; cbn [take_run] in H.
  - inversion H; subst. exists 0%nat. split; [lia|reflexivity].
  - destruct ((cn =? column + r) && (kn =? code)) eqn:E.
    + destruct (IH _ _ _ _ _ H) as (k & Hn & Hr). exists (S k). split; [lia|].
      unfold run_entries. cbn [seq map]. rewrite <- seq_shift, map_map.
      assert (cn = column + r /\ kn = code) as [-> ->] by lia.
      replace (column + r + N.of_nat 0) with (column + r) by lia. cbn [app]. f_equal.
      rewrite Hr. unfold run_entries. f_equal. apply map_ext. intros j. f_equal. lia.
    + inversion H; subst. exists 0%nat. split; [lia|reflexivity].
Qed.

Lemma run_entries_events y v column code r k :
  entries_events y v (run_entries column code r k) = paint_cols (column + r) y v (code - 63) k.
Proof.
  revert r. induction k as [|k IH]; intros r; [reflexivity|].
  unfold run_entries. cbn [seq map]. unfold entries_events. cbn [flat_map].
  rewrite <- seq_shift, map_map. cbn [paint_cols]. f_equal.
  - unfold entry_events. cbn [fst snd]. f_equal. lia.
  - specialize (IH (r + 1)). unfold entries_events, run_entries in IH.
    replace (column + r + 1) with (column + (r + 1)) by lia. rewrite <- IH.
    f_equal. apply map_ext. intros j. f_equal. lia.
Qed.

Lemma sorted_from_weaken a b es : a <= b -> sorted_from b es -> sorted_from a es.
Proof. destruct es as [|[c k] r]; cbn; [tauto|]. intros H [H1 H2]. split; [lia|exact H2]. Qed.

Lemma sorted_from_run column code r k rest' offset :
  sorted_from offset (run_entries column code r k ++ rest') ->
  offset <= column + r ->
  sorted_from (column + r + N.of_nat k) rest' \/ (k = 0%nat /\ sorted_from offset rest').
Proof.
  revert r offset. induction k as [|k IH]; intros r offset H Ho.
  - right. split; [reflexivity|exact H].
  - left. unfold run_entries in H. cbn [seq map app] in H. rewrite <- seq_shift, map_map in H.
    destruct H as [_ H].
    assert (H' : sorted_from (column + r + N.of_nat 0 + 1) (run_entries column code (r + 1) k ++ rest')).
    { unfold run_entries. erewrite map_ext; [exact H|]. intros j. cbn beta. f_equal. lia. }
    destruct (IH (r + 1) _ H' ltac:(lia)) as [H1|[-> H1]].
    + eapply sorted_from_weaken; [|exact H1]. lia.
    + eapply sorted_from_weaken; [|exact H1]. lia.
Qed.

Section Strip.
  Variable shift_min repeat_min : N.

  Lemma strip_bytes_run fuel : forall offset es y c regs ras ev v,
    (length es <= fuel)%nat -> sorted_from offset es -> codes_ok es -> reg_lookup c regs = Some v ->
    exists bytes x',
      strip_bytes shift_min repeat_min fuel offset es = Ok bytes /\ starts_ok bytes /\
      nrun (good offset y (Some c) regs ras ev) bytes
      = good x' y (Some c) regs ras (rev (entries_events y v es) ++ ev).
  Proof.
    induction fuel as [|f IH]; intros offset es y c regs ras ev v Hlen Hs Hc Hv.
    - destruct es; [|cbn in Hlen; lia]. exists [], offset. split; [reflexivity|]. split; [exact I|].
      rewrite nrun_nil, flush_data by reflexivity. reflexivity.
    - destruct es as [|[column code] rest].
      { exists [], offset. split; [reflexivity|]. split; [exact I|].
        rewrite nrun_nil, flush_data by reflexivity. reflexivity. }
      cbn [strip_bytes]. destruct Hs as [Ho Hs]. inversion Hc as [|? ? Hcode Hcr]; subst. cbn [snd] in Hcode.
      replace (column <? offset) with false by lia.
      destruct (take_run column code 1 rest) as [n rest'] eqn:Et.
      destruct (take_run_spec _ _ _ _ _ _ Et) as (k & Hn & Hrest).
      assert (Hs' : sorted_from (column + n) rest').
      { rewrite Hrest in Hs. destruct (sorted_from_run _ _ _ _ _ _ Hs ltac:(lia)) as [H|[-> H]].
        - replace (column + n) with (column + 1 + N.of_nat k) by lia. exact H.
        - replace (column + n) with (column + 1) by lia. exact H. }
      assert (Hc' : codes_ok rest').
      { unfold codes_ok in *. rewrite Hrest in Hcr. apply Forall_app in Hcr. apply Hcr. }
      assert (Hl' : (length rest' <= f)%nat).
      { cbn [length] in Hlen. rewrite Hrest, app_length in Hlen. lia. }
      set (ev1 := rev (paint_cols column y v (code - 63) (N.to_nat n)) ++ ev).
      destruct (IH (column + n) rest' y c regs ras ev1 v Hl' Hs' Hc' Hv) as (tail & x' & -> & Hst & Hrun).
      cbn [bind]. eexists. exists x'. split; [reflexivity|].
      assert (Hrs : starts_ok (run_bytes repeat_min code n ++ tail)).
      { apply starts_ok_app; [apply run_starts, Hcode|]. intros _. exact Hst. }
      split.
      { apply starts_ok_app; [apply skip_starts|]. intros _. exact Hrs. }
      rewrite nrun_app by exact Hrs. rewrite (nrun_skip _ _ _ _ _ _ _ _ v Hv).
      replace (offset + (column - offset)) with column by lia.
      rewrite nrun_app by exact Hst. rewrite (nrun_run _ _ _ _ _ _ _ _ _ v Hcode Hv).
      fold ev1. rewrite Hrun. f_equal. unfold ev1. rewrite app_assoc. f_equal.
      rewrite <- rev_app_distr. f_equal.
      rewrite Hrest. unfold entries_events at 2. cbn [flat_map]. fold (entries_events y v (run_entries column code 1 k ++ rest')).
      unfold entries_events at 2. rewrite flat_map_app. fold (entries_events y v (run_entries column code 1 k)).
      fold (entries_events y v rest'). rewrite run_entries_events, app_assoc. f_equal.
      replace (N.to_nat n) with (1 + k)%nat by lia. cbn [Nat.add paint_cols]. reflexivity.
  Qed.
End Strip.
