(* C12 proofs, part 3: the interpreter run over a whole strip, band, body, palette and
   the complete sequence; the framing (ESC P q ... ESC \) is recognised. *)
From Coq Require Import List NArith Bool Lia Arith.
From Coq Require Import ZifyBool ZifyNat ZifyN.
From SNT Require Import Base.Outcome Image.KDTree Image.Sixel Image.SixelInterp Image.SixelStrip.
Import ListNotations.
Local Open Scope N_scope.

Arguments N.add : simpl never.
Arguments N.sub : simpl never.
Arguments N.mul : simpl never.
Arguments N.div : simpl never.
Arguments N.modulo : simpl never.
Arguments N.pow : simpl never.

(* printable, in particular not ESC *)
Definition plain (b : N) : Prop := 33 <= b <= 126.

Lemma plain_digits ds : Forall digit ds -> Forall plain ds.
Proof.
  intros H. eapply Forall_impl; [|exact H]. intros b Hb. unfold digit, is_digit in Hb. unfold plain. lia.
Qed.

Lemma plain_dec n : Forall plain (dec n).
Proof. apply plain_digits, dec_digits. Qed.

Lemma plain_repeat b n : plain b -> Forall plain (repeat b n).
Proof. intros H. apply Forall_forall. intros x Hx. apply repeat_spec in Hx. now subst. Qed.

Lemma data_plain b : data_char b -> plain b.
Proof. unfold data_char, plain. lia. Qed.

Lemma plain_params ps : Forall plain (params_bytes ps).
Proof.
  induction ps as [|p r IH]; [constructor|]. destruct r as [|p2 r]; [apply plain_dec|].
  change (params_bytes (p :: p2 :: r)) with (dec p ++ c_semi :: params_bytes (p2 :: r)).
  apply Forall_app. split; [apply plain_dec|]. constructor; [unfold plain, c_semi; lia|exact IH].
Qed.

Section Body.
  Variable shift_min repeat_min : N.
  Variable scale : N -> N.
  Hypothesis scale_le : forall x, scale x <= 100.

  Notation strip_entries' := (strip_entries 63).

  Lemma plain_skip shift : Forall plain (skip_bytes shift_min shift).
  Proof.
    unfold skip_bytes. destruct (0 <? shift); [|constructor]. destruct (shift_min <? shift).
    - constructor; [unfold plain, c_excl; lia|]. apply Forall_app. split; [apply plain_dec|].
      constructor; [unfold plain, c_quest; lia|constructor].
    - apply plain_repeat. unfold plain, c_quest. lia.
  Qed.

  Lemma plain_run code n : data_char code -> Forall plain (run_bytes repeat_min code n).
  Proof.
    intros H. unfold run_bytes. destruct (repeat_min <? n).
    - constructor; [unfold plain, c_excl; lia|]. apply Forall_app. split; [apply plain_dec|].
      constructor; [apply data_plain, H|constructor].
    - apply plain_repeat, data_plain, H.
  Qed.

  Lemma plain_strip_bytes fuel : forall offset es bytes,
    codes_ok es -> strip_bytes shift_min repeat_min fuel offset es = Ok bytes -> Forall plain bytes.
  Proof.
    induction fuel as [|f IH]; intros offset es bytes Hc H.
    - destruct es as [|[? ?] ?]; cbn in H; [inversion H; constructor|discriminate].
    - destruct es as [|[column code] rest]; cbn [strip_bytes] in H; [inversion H; constructor|].
      destruct (column <? offset); [discriminate|].
      destruct (take_run column code 1 rest) as [n rest'] eqn:Et.
      destruct (take_run_spec _ _ _ _ _ _ Et) as (k & Hn & Hrest).
      inversion Hc as [|? ? Hcode Hcr]; subst. cbn [snd] in Hcode.
      destruct (strip_bytes shift_min repeat_min f (column + (1 + N.of_nat k)) rest') as [tail| | |] eqn:Es;
        cbn [bind] in H; try discriminate.
      inversion H; subst. apply Forall_app. split; [apply plain_skip|]. apply Forall_app. split; [apply plain_run, Hcode|].
      eapply IH; [|exact Es]. unfold codes_ok in *. apply Forall_app in Hcr. apply Hcr.
  Qed.

  (* ---------- entries of a strip ---------- *)

  Lemma strip_entries_sorted c : forall cols col, sorted_from col (strip_entries' c col cols).
  Proof.
    induction cols as [|colm r IH]; intros col; cbn [strip_entries]; [exact I|].
    destruct (existsb (N.eqb c) colm).
    - cbn [sorted_from]. split; [lia|apply IH].
    - eapply sorted_from_weaken; [|apply IH]. lia.
  Qed.

  Lemma col_code_lt c colm : col_code c colm < 2 ^ N.of_nat (length colm).
  Proof.
    induction colm as [|x r IH]; [cbn; lia|]. cbn [col_code length].
    replace (N.of_nat (S (length r))) with (N.succ (N.of_nat (length r))) by lia.
    rewrite N.pow_succ_r'. destruct (x =? c); lia.
  Qed.

  Definition short_cols (cols : list (list N)) : Prop := Forall (fun colm => (length colm <= 6)%nat) cols.

  Lemma strip_entries_codes c : forall cols col, short_cols cols -> codes_ok (strip_entries' c col cols).
  Proof.
    induction cols as [|colm r IH]; intros col Hs; cbn [strip_entries]; [constructor|].
    inversion Hs as [|? ? Hl Hr]; subst. destruct (existsb (N.eqb c) colm); [|apply IH, Hr].
    constructor; [|apply IH, Hr]. cbn [snd]. unfold data_char. pose proof (col_code_lt c colm) as Hlt.
    assert (2 ^ N.of_nat (length colm) <= 2 ^ 6) by (apply N.pow_le_mono_r; lia).
    change (2 ^ 6) with 64 in H. lia.
  Qed.

  (* ---------- one strip ---------- *)

  Lemma strip_run c cols y c0 regs ras ev v :
    short_cols cols -> reg_lookup c regs = Some v ->
    exists bytes,
      strip shift_min repeat_min 63 c cols = Ok bytes /\ starts_ok bytes /\ bytes <> [] /\ Forall plain bytes /\
      nrun (good 0 y c0 regs ras ev) bytes
      = good 0 y (Some c) regs ras (rev (entries_events y v (strip_entries' c 0 cols)) ++ ev).
  Proof.
    intros Hs Hv. unfold strip.
    destruct (strip_bytes_run shift_min repeat_min (length (strip_entries' c 0 cols)) 0 (strip_entries' c 0 cols)
                y c regs ras ev v (le_n _) (strip_entries_sorted c cols 0) (strip_entries_codes c cols 0 Hs) Hv)
      as (body & x' & Hb & Hst & Hrun).
    rewrite Hb. cbn [bind]. eexists. split; [reflexivity|]. split; [reflexivity|]. split; [discriminate|].
    split.
    { constructor; [unfold plain, c_hash; lia|]. apply Forall_app. split; [apply plain_dec|].
      apply Forall_app. split; [eapply plain_strip_bytes; [|exact Hb]; apply strip_entries_codes, Hs|].
      constructor; [unfold plain, c_dollar; lia|constructor]. }
    change (c_hash :: dec c ++ body ++ [c_dollar]) with ((c_hash :: dec c) ++ (body ++ [c_dollar])).
    rewrite nrun_app.
    2:{ apply starts_ok_app; [exact Hst|]. intros _. reflexivity. }
    rewrite nrun_select. rewrite nrun_app by reflexivity. rewrite Hrun. apply nrun_dollar.
  Qed.

  (* ---------- one band ---------- *)

  Variable V : N -> rgb.     (* colour of a register *)

  Definition band_events (y : N) (order : list N) (cols : list (list N)) : list (N * N * rgb) :=
    flat_map (fun c => entries_events y (V c) (strip_entries' c 0 cols)) order.

  Lemma band_run order : forall cols y c0 regs ras ev,
    short_cols cols -> (forall c, In c order -> reg_lookup c regs = Some (V c)) ->
    exists bytes c1,
      band_bytes shift_min repeat_min 63 order cols = Ok bytes /\ starts_ok bytes /\ bytes <> [] /\
      Forall plain bytes /\
      nrun (good 0 y c0 regs ras ev) bytes
      = good 0 (y + 6) c1 regs ras (rev (band_events y order cols) ++ ev).
  Proof.
    induction order as [|c r IH]; intros cols y c0 regs ras ev Hs Hr; cbn [band_bytes].
    - exists [c_minus], c0. split; [reflexivity|]. split; [reflexivity|]. split; [discriminate|].
      split; [constructor; [unfold plain, c_minus; lia|constructor]|]. apply nrun_minus.
    - destruct (strip_run c cols y c0 regs ras ev (V c) Hs (Hr c (or_introl eq_refl)))
        as (sb & -> & Hst & Hne & Hpl & Hrun). cbn [bind].
      destruct (IH cols y (Some c) regs ras (rev (entries_events y (V c) (strip_entries' c 0 cols)) ++ ev) Hs
                   (fun c' Hc' => Hr c' (or_intror Hc'))) as (tb & c1 & -> & Hst' & Hne' & Hpl' & Hrun').
      cbn [bind]. exists (sb ++ tb), c1. split; [reflexivity|].
      split; [apply starts_ok_app; [exact Hst|]; intros E; congruence|].
      split; [destruct sb; [congruence|discriminate]|].
      split; [apply Forall_app; split; assumption|].
      rewrite nrun_app by exact Hst'. rewrite Hrun, Hrun'. f_equal.
      unfold band_events. cbn [flat_map]. rewrite rev_app_distr, <- app_assoc. reflexivity.
  Qed.

  (* ---------- the body ---------- *)

  Fixpoint body_events (w : nat) (y : N) (orders : list (list N)) (bs : list (list (list N)))
    : list (N * N * rgb) :=
    match bs with
    | [] => []
    | b :: r =>
        band_events y (match orders with o :: _ => o | [] => [] end) (columns w b)
        ++ body_events w (y + 6) (match orders with _ :: o => o | [] => [] end) r
    end.

  Lemma heads_length rows : length (heads rows) = length rows.
  Proof. induction rows as [|[|x r] rs IH]; cbn; auto. Qed.

  Lemma tails_length rows : length (tails rows) = length rows.
  Proof. unfold tails. apply map_length. Qed.

  Lemma columns_short w : forall rows, (length rows <= 6)%nat -> short_cols (columns w rows).
  Proof.
    induction w as [|w IH]; intros rows H; cbn [columns]; [constructor|].
    constructor; [now rewrite heads_length|]. apply IH. now rewrite tails_length.
  Qed.

  Lemma body_run w bs : forall orders y c0 regs ras ev,
    Forall (fun b => (length b <= 6)%nat) bs ->
    (forall o c, In o orders -> In c o -> reg_lookup c regs = Some (V c)) ->
    exists bytes c1,
      body_bytes shift_min repeat_min 63 w orders bs = Ok bytes /\ starts_ok bytes /\ Forall plain bytes /\
      nrun (good 0 y c0 regs ras ev) bytes
      = good 0 (y + 6 * N.of_nat (length bs)) c1 regs ras (rev (body_events w y orders bs) ++ ev).
  Proof.
    induction bs as [|b r IH]; intros orders y c0 regs ras ev Hb Hr; cbn [body_bytes].
    - exists [], c0. split; [reflexivity|]. split; [exact I|]. split; [constructor|].
      rewrite nrun_nil, flush_data by reflexivity. cbn [length body_events rev app]. unfold good. f_equal. lia.
    - inversion Hb as [|? ? Hb1 Hb2]; subst.
      set (o := match orders with o :: _ => o | [] => [] end).
      set (os := match orders with _ :: o => o | [] => [] end).
      assert (Ho : forall c, In c o -> reg_lookup c regs = Some (V c)).
      { intros c Hc. subst o. destruct orders as [|o' os']; [destruct Hc|]. apply (Hr o' c); [now left|exact Hc]. }
      assert (Hos : forall o' c, In o' os -> In c o' -> reg_lookup c regs = Some (V c)).
      { intros o' c Ho' Hc. subst os. destruct orders as [|o'' os']; [destruct Ho'|]. apply (Hr o' c); [now right|exact Hc]. }
      destruct (band_run o (columns w b) y c0 regs ras ev (columns_short w b Hb1) Ho)
        as (bb & c1 & -> & Hst & Hne & Hpl & Hrun). cbn [bind].
      destruct (IH os (y + 6) c1 regs ras (rev (band_events y o (columns w b)) ++ ev) Hb2 Hos)
        as (tb & c2 & -> & Hst' & Hpl' & Hrun'). cbn [bind].
      exists (bb ++ tb), c2. split; [reflexivity|].
      split; [apply starts_ok_app; [exact Hst|]; intros E; congruence|].
      split; [apply Forall_app; split; assumption|].
      rewrite nrun_app by exact Hst'. rewrite Hrun, Hrun'. cbn [length body_events]. fold o os.
      unfold good. f_equal; [lia|]. rewrite rev_app_distr, <- app_assoc. reflexivity.
  Qed.

  (* ---------- the palette ---------- *)

  Fixpoint regs_of (i : N) (pal : list rgb) (regs0 : list (N * rgb)) : list (N * rgb) :=
    match pal with
    | [] => regs0
    | (r, g, b) :: rest => regs_of (i + 1) rest ((i, (scale r, scale g, scale b)) :: regs0)
    end.

  Lemma palette_bytes_cons i r g b rest :
    palette_bytes scale i ((r, g, b) :: rest)
    = (c_hash :: params_bytes [i; 2; scale r; scale g; scale b]) ++ palette_bytes scale (i + 1) rest.
  Proof.
    cbn [palette_bytes params_bytes]. change (dec 2) with [50].
    cbn [app]. f_equal. repeat (rewrite <- app_assoc; cbn [app]). reflexivity.
  Qed.

  Lemma palette_starts i pal : starts_ok (palette_bytes scale i pal).
  Proof. destruct pal as [|[[r g] b] rest]; [exact I|reflexivity]. Qed.

  Lemma palette_run pal : forall i regs0 x y c ras ev,
    Forall plain (palette_bytes scale i pal) /\
    nrun (good x y c regs0 ras ev) (palette_bytes scale i pal) = good x y c (regs_of i pal regs0) ras ev.
  Proof.
    induction pal as [|[[r g] b] rest IH]; intros i regs0 x y c ras ev.
    - split; [constructor|]. rewrite nrun_nil, flush_data by reflexivity. reflexivity.
    - rewrite palette_bytes_cons. destruct (IH (i + 1) ((i, (scale r, scale g, scale b)) :: regs0) x y c ras ev) as [Hp Hr].
      split.
      + apply Forall_app. split; [|exact Hp]. constructor; [unfold plain, c_hash; lia|apply plain_params].
      + rewrite nrun_app by apply palette_starts. rewrite nrun_define by apply scale_le. exact Hr.
  Qed.

  Lemma regs_of_lookup pal : forall i regs0 c,
    reg_lookup c (regs_of i pal regs0)
    = if (i <=? c) && (c <? i + N.of_nat (length pal))
      then option_map (fun p => map3 scale p) (nth_error pal (N.to_nat (c - i)))
      else reg_lookup c regs0.
  Proof.
    induction pal as [|[[r g] b] rest IH]; intros i regs0 c.
    - cbn [regs_of length]. replace ((i <=? c) && (c <? i + N.of_nat 0)) with false by lia. reflexivity.
    - cbn [regs_of]. rewrite IH. cbn [length].
      destruct ((i + 1 <=? c) && (c <? i + 1 + N.of_nat (length rest))) eqn:E1.
      + replace ((i <=? c) && (c <? i + N.of_nat (S (length rest)))) with true by lia.
        replace (N.to_nat (c - i)) with (S (N.to_nat (c - (i + 1)))) by lia. reflexivity.
      + cbn [reg_lookup]. destruct (i =? c) eqn:E2.
        * assert (i = c) by lia. subst c.
          replace ((i <=? i) && (i <? i + N.of_nat (S (length rest)))) with true by lia.
          replace (N.to_nat (i - i)) with 0%nat by lia. reflexivity.
        * replace ((i <=? c) && (c <? i + N.of_nat (S (length rest)))) with false by lia. reflexivity.
  Qed.

  (* ---------- framing ---------- *)

  Lemma split_st_app body : Forall plain body -> split_st (body ++ [ESC; c_bslash]) = Some body.
  Proof.
    induction body as [|a r IH]; intros H; [reflexivity|].
    inversion H as [|? ? Ha Hr]; subst. specialize (IH Hr).
    assert (Ea : (a =? ESC) = false) by (unfold plain, ESC in *; lia).
    destruct r as [|b r']; [cbn; rewrite Ea; reflexivity|].
    destruct r' as [|b' r'']; cbn [app split_st] in *; rewrite Ea; rewrite IH; reflexivity.
  Qed.

  Lemma header_bytes_eq w h :
    header_bytes w h = [ESC; c_P; c_q] ++ c_quote :: params_bytes [1; 1; w; h].
  Proof. reflexivity. Qed.

  (* the whole sequence *)
  Theorem encode_run pal q w orders :
    Forall (fun b => (length b <= 6)%nat) (bands (length q) q) ->
    (forall o c, In o orders -> In c o -> (c < N.of_nat (length pal))) ->
    (forall c, c < N.of_nat (length pal) ->
               V c = match nth_error pal (N.to_nat c) with Some p => map3 scale p | None => (0, 0, 0) end) ->
    exists bytes,
      encode shift_min repeat_min 63 scale pal q w orders = Ok bytes /\
      sixel_decode bytes
      = Some (mkPic (N.of_nat w) (N.of_nat (length q)) (regs_of 0 pal [])
                    (rev (body_events w 0 orders (bands (length q) q)))).
  Proof.
    intros Hb Ho HV. unfold encode.
    set (regs := regs_of 0 pal []).
    assert (Hregs : forall o c, In o orders -> In c o -> reg_lookup c regs = Some (V c)).
    { intros o c Ho' Hc. specialize (Ho o c Ho' Hc). unfold regs. rewrite regs_of_lookup.
      replace ((0 <=? c) && (c <? 0 + N.of_nat (length pal))) with true by lia.
      rewrite (HV c Ho), N.sub_0_r.
      destruct (nth_error pal (N.to_nat c)) eqn:E; [reflexivity|].
      apply nth_error_None in E. lia. }
    destruct (body_run w (bands (length q) q) orders 0 None regs (Some (1, 1, N.of_nat w, N.of_nat (length q))) [] Hb Hregs)
      as (body & c1 & -> & Hst & Hpl & Hrun). cbn [bind].
    eexists. split; [reflexivity|].
    rewrite header_bytes_eq.
    set (ras := c_quote :: params_bytes [1; 1; N.of_nat w; N.of_nat (length q)]).
    destruct (palette_run pal 0 [] 0 0 None (Some (1, 1, N.of_nat w, N.of_nat (length q))) []) as [Hpp Hpr].
    assert (Hplain : Forall plain (ras ++ palette_bytes scale 0 pal ++ body)).
    { apply Forall_app. split.
      - subst ras. constructor; [unfold plain, c_quote; lia|apply plain_params].
      - apply Forall_app. split; assumption. }
    replace (([ESC; c_P; c_q] ++ ras) ++ palette_bytes scale 0 pal ++ body ++ [ESC; c_bslash])
      with (ESC :: c_P :: c_q :: ((ras ++ palette_bytes scale 0 pal ++ body) ++ [ESC; c_bslash])).
    2:{ cbn [app]. rewrite <- !app_assoc. reflexivity. }
    unfold sixel_decode.
    replace ((ESC =? ESC) && (c_P =? c_P)) with true by reflexivity.
    cbn [skip_params]. replace (is_param_byte c_q) with false by reflexivity.
    replace (c_q =? c_q) with true by reflexivity.
    rewrite (split_st_app _ Hplain).
    change (flush (srun s_init (ras ++ palette_bytes scale 0 pal ++ body)))
      with (nrun (good 0 0 None [] None []) (ras ++ palette_bytes scale 0 pal ++ body)).
    rewrite nrun_app.
    2:{ apply starts_ok_app; [apply palette_starts|]. intros _. exact Hst. }
    subst ras. rewrite nrun_raster. rewrite nrun_app by exact Hst. rewrite Hpr. fold regs. rewrite Hrun.
    unfold good. cbn [s_err s_repeat s_raster s_regs s_events]. rewrite app_nil_r. reflexivity.
  Qed.
End Body.
