(* Proofs about Image/Quantize.v, part 2: an image whose distinct colours fit the
   palette (and that is not subsampled) is reproduced exactly, with or without
   Floyd-Steinberg dithering: every look-up hits its own colour, so every error
   term stays zero. *)
From Coq Require Import List NArith ZArith Bool Lia Arith.
From Coq Require Import ZifyBool ZifyNat ZifyN.
From SNT Require Import Base.Outcome Image.KDTree Image.KDTreeProofs Image.Octree Image.OctreeProofs
     Image.OctreeExact Image.Quantize Image.QuantizeProofs.
Import ListNotations.

Arguments N.add : simpl never.
Arguments N.sub : simpl never.
Arguments N.mul : simpl never.
Arguments N.eqb : simpl never.
Arguments N.ltb : simpl never.
Arguments N.leb : simpl never.
Arguments N.div : simpl never.
Arguments N.modulo : simpl never.
Arguments N.max : simpl never.
Arguments Z.mul : simpl never.
Arguments Z.div : simpl never.

Definition zeros (l : list err) : Prop := Forall (fun e => e = err0) l.

Lemma err_apply_zero c : rgb_ok c = true -> err_apply err0 c = c.
Proof.
  destruct c as [[r g] b]. unfold rgb_ok, err_apply, err0, clamp16. intros H.
  assert (r < 256 /\ g < 256 /\ b < 256)%N as (Hr & Hg & Hb) by lia.
  assert (forall x, (x < 256)%N -> Z.to_N ((if (16 * Z.of_N x + 0 <? 0)%Z then 0%Z
            else if (16 * Z.of_N x + 0 >? 4080)%Z then 4080%Z else (16 * Z.of_N x + 0)%Z) / 16) = x) as Hx.
  { intros x Hx. destruct (16 * Z.of_N x + 0 <? 0)%Z eqn:E1; [lia|].
    destruct (16 * Z.of_N x + 0 >? 4080)%Z eqn:E2; [lia|].
    replace (16 * Z.of_N x + 0)%Z with (Z.of_N x * 16)%Z by lia. rewrite Z.div_mul by lia. lia. }
  rewrite !Hx by assumption. reflexivity.
Qed.

Lemma err_between_same k c : err_between k c c = err0.
Proof. destruct c as [[r g] b]. unfold err_between, err0. repeat f_equal; lia. Qed.

Lemma err_plus_zero e : err_plus e err0 = e.
Proof. destruct e as [[a b] c]. unfold err_plus, err0. repeat f_equal; lia. Qed.

Lemma add_at_zeros k l : zeros l -> zeros (add_at k err0 l).
Proof.
  unfold zeros. revert k. induction l as [|x r IH]; intros k H; [destruct k; cbn [add_at]; constructor|].
  inversion H; subst. destruct k; cbn [add_at]; constructor; auto.
Qed.

Lemma nth_zeros k l : zeros l -> nth k l err0 = err0.
Proof.
  intros H. destruct (Nat.lt_ge_cases k (length l)) as [Hk|Hk].
  - unfold zeros in H. rewrite Forall_forall in H. apply H, nth_In, Hk.
  - apply nth_overflow. lia.
Qed.

Lemma repeat_zeros n : zeros (repeat err0 n).
Proof. unfold zeros. apply Forall_forall. intros x Hx. now apply repeat_spec in Hx. Qed.

Section Exact.
  Variable find : rgb -> outcome (N * rgb).
  Variable dither : bool.
  Variable Q : rgb -> N -> Prop.

  Definition hits (p : rgb) : Prop := rgb_ok p = true /\ exists i, find p = Ok (i, p) /\ Q p i.

  Lemma quant_row_exact px : forall col cur nxt,
    Forall hits px -> zeros cur -> zeros nxt ->
    exists ixs cur' nxt', quant_row find dither col px cur nxt = Ok (ixs, cur', nxt') /\
                          Forall2 Q px ixs /\ zeros cur' /\ zeros nxt'.
  Proof.
    induction px as [|c rest IH]; intros col cur nxt Hh Hc Hn; cbn [quant_row].
    - exists [], cur, nxt. split; [reflexivity|]. split; [constructor|]. split; assumption.
    - inversion Hh as [|? ? [Hok (i & Hf & Hq)] Hrest]; subst.
      assert (E : (if dither then err_apply (nth (col + 1) cur err0) c else c) = c).
      { destruct dither; [|reflexivity]. rewrite (nth_zeros _ _ Hc). apply err_apply_zero, Hok. }
      rewrite E, Hf. cbn [bind]. rewrite !err_between_same.
      match goal with |- context [quant_row find dither (S col) rest ?a ?b] =>
        destruct (IH (S col) a b Hrest) as (ixs & cur' & nxt' & -> & H2 & Hc' & Hn') end.
      + destruct dither; [apply add_at_zeros|]; assumption.
      + destruct dither; [repeat apply add_at_zeros|]; assumption.
      + cbn [bind]. exists (i :: ixs), cur', nxt'. split; [reflexivity|].
        split; [constructor; assumption|]. split; assumption.
  Qed.

  Lemma quant_rows_exact ew rows : forall cur nxt,
    Forall (Forall hits) rows -> zeros cur -> zeros nxt ->
    exists q, quant_rows find dither ew rows cur nxt = Ok q /\ Forall2 (Forall2 Q) rows q.
  Proof.
    induction rows as [|row rest IH]; intros cur nxt Hh Hc Hn; cbn [quant_rows].
    - exists []. split; [reflexivity|constructor].
    - inversion Hh as [|? ? Hrow Hrest]; subst.
      match goal with |- context [quant_row find dither O row ?a ?b] =>
        destruct (quant_row_exact row O a b Hrow) as (ixs & cur' & nxt' & -> & H2 & Hc' & Hn') end.
      + destruct dither; assumption.
      + destruct dither; [apply repeat_zeros|assumption].
      + cbn [bind]. destruct (IH cur' nxt' Hrest Hc' Hn') as (q & -> & Hq). cbn [bind].
        exists (ixs :: q). split; [reflexivity|constructor; assumption].
  Qed.
End Exact.

Lemma palette_of_image_exact im k :
  img_ok im -> (1 <= k)%N ->
  (distinct_colors im <= N.max k 8)%N -> (sample_of im k < 2)%N ->
  exists pal, palette_of_image im k = Ok pal /\ forall c, In c (img_pixels im) -> In c pal.
Proof.
  intros Hi Hk Hd Hs. pose proof Hi as (Hne & Hw & Hr & Hok & Hmax). unfold palette_of_image.
  assert (E1 : (img_height im =? 0)%N = false) by (unfold img_height; destruct im; [congruence|cbn [length]; lia]).
  assert (E2 : (img_width im =? 0)%N = false) by lia.
  assert (E3 : (k =? 0)%N = false) by lia.
  rewrite E1, E2, E3. cbn [orb]. unfold image_octree.
  assert (E4 : (sample_of im k <? 2)%N = true) by lia. rewrite E4.
  destruct (palette_exact (img_pixels im) k (img_pixels_ok im Hok) Hmax Hd) as (t & pal & H1 & H2 & H3 & Hin).
  rewrite H1. cbn [bind]. rewrite H2. cbn [bind]. rewrite H3. cbn [bind]. destruct pal as [|p pal].
  - exfalso. destruct (img_pixels im) as [|c r] eqn:E.
    + pose proof (img_pixels_length im Hr) as HL. rewrite E in HL. cbn [length] in HL.
      unfold img_height in HL. destruct im; [congruence|]. cbn [length] in HL. lia.
    + apply (Hin c). now left.
  - exists (p :: pal). split; [reflexivity|exact Hin].
Qed.

Lemma Forall_concat {A} (P : A -> Prop) (ll : list (list A)) :
  Forall P (concat ll) -> Forall (Forall P) ll.
Proof.
  induction ll as [|l r IH]; intros H; [constructor|]. cbn [concat] in H.
  apply Forall_app in H. destruct H. constructor; auto.
Qed.

Theorem quantize_exact im k dither :
  img_ok im -> (1 <= k)%N ->
  (distinct_colors im <= N.max k 8)%N -> (sample_of im k < 2)%N ->
  exists pal q,
    quantize im k dither = Ok (pal, q) /\
    Forall2 (Forall2 (fun p i => nth_error pal (N.to_nat i) = Some p)) im q.
Proof.
  intros Hi Hk Hd Hs. destruct (palette_of_image_exact im k Hi Hk Hd Hs) as (pal & Hpal & Hin).
  pose proof Hi as (Hne & Hw & Hr & Hok & Hmax).
  unfold quantize. rewrite Hpal. cbn [bind].
  set (Q := fun (p : rgb) (i : N) => nth_error pal (N.to_nat i) = Some p).
  assert (Hh : Forall (Forall (hits (kd_find (build pal)) Q)) im).
  { apply Forall_concat. apply Forall_forall. intros p Hp. split.
    - pose proof (img_pixels_ok im Hok) as H. rewrite Forall_forall in H. apply H, Hp.
    - destruct (kd_find_exact pal p (Hin p Hp)) as (i & Hf & Hn). exists i. split; assumption. }
  match goal with |- context [quant_rows ?f dither ?ew im ?a ?b] =>
    destruct (quant_rows_exact f dither Q ew im a b Hh) as (q & -> & Hq) end.
  - destruct dither; [apply repeat_zeros|constructor].
  - destruct dither; [apply repeat_zeros|constructor].
  - cbn [bind]. exists pal, q. split; [reflexivity|exact Hq].
Qed.
