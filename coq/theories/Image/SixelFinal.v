(* C12 proofs, part 5: SixelImageHandler::draw as a whole.  The regenerated tables
   (Gen/TabSixel.v) are checked here by complete sweeps, so these lemmas are
   re-proved against the current source on every run. *)
From Coq Require Import List NArith Bool Lia Arith.
From Coq Require Import ZifyBool ZifyNat ZifyN.
From SNT Require Import Base.Outcome Base.Sweep Image.KDTree Image.KDTreeProofs Image.Octree Image.OctreeProofs Image.OctreeExact
     Image.Quantize Image.QuantizeProofs Image.QuantizeExact
     Image.Sixel Image.SixelInterp Image.SixelStrip Image.SixelBody Image.SixelPicture Image.SixelDraw Image.SixelCache Gen.TabSixel.
Import ListNotations.
Local Open Scope N_scope.

Arguments N.add : simpl never.
Arguments N.sub : simpl never.
Arguments N.mul : simpl never.
Arguments N.div : simpl never.
Arguments N.modulo : simpl never.
Arguments N.pow : simpl never.

(* ---------- the regenerated tables ---------- *)

Lemma tables_length : length sixel_pre_tbl = 256%nat /\ length sixel_scale_tbl = 256%nat.
Proof. split; reflexivity. Qed.

Lemma code_offset_63 : sixel_code_offset = 63.
Proof. reflexivity. Qed.

(* the band height the encoder uses (height truncation, step, sixel array) is sixel's six *)
Lemma band_height_6 : sixel_band = 6%nat.
Proof. reflexivity. Qed.

Lemma palette_size_256 : sixel_palette_size <= 256 /\ 1 <= sixel_palette_size.
Proof. split; vm_compute; discriminate. Qed.

Lemma scale_le_100 x : scale x <= 100.
Proof.
  unfold scale, tbl.
  assert (H : forallb (fun v => v <=? 100) sixel_scale_tbl = true) by (vm_compute; reflexivity).
  rewrite forallb_forall in H.
  destruct (Nat.lt_ge_cases (N.to_nat x) (length sixel_scale_tbl)) as [Hx|Hx].
  - specialize (H _ (nth_In _ 0 Hx)). lia.
  - rewrite nth_overflow by exact Hx. lia.
Qed.

Lemma pre_byte x : pre x < 256.
Proof.
  unfold pre, tbl.
  assert (H : forallb (fun v => v <? 256) sixel_pre_tbl = true) by (vm_compute; reflexivity).
  rewrite forallb_forall in H.
  destruct (Nat.lt_ge_cases (N.to_nat x) (length sixel_pre_tbl)) as [Hx|Hx].
  - specialize (H _ (nth_In _ 0 Hx)). lia.
  - rewrite nth_overflow by exact Hx. lia.
Qed.

(* the value written for a channel is sixel's 0..100 value of the source channel: the
   reduction applied before quantisation does not move a colour off its 0..100 class *)
Lemma scale_pre_spec x : x < 256 -> scale (pre x) = spec100 x.
Proof.
  intros Hx.
  assert (H : sweep1 256 (fun x => scale (pre x) =? spec100 x) = true) by (vm_compute; reflexivity).
  assert (Hx' : x < N.of_nat 256) by (change (N.of_nat 256) with 256; exact Hx).
  pose proof (sweep1_sound 256 _ H x Hx') as Hz. cbv beta in Hz. lia.
Qed.

Lemma channel_scaling : forall x, x < 256 ->
  scale (pre x) = spec100 x /\ scale x <= 100 /\ pre x < 256 /\
  sixel_band = 6%nat /\ sixel_code_offset = 63 /\ sixel_palette_size <= 256.
Proof.
  intros x Hx. split; [exact (scale_pre_spec x Hx)|]. split; [apply scale_le_100|]. split; [apply pre_byte|].
  split; [reflexivity|]. split; [reflexivity|apply palette_size_256].
Qed.

(* ---------- reading a decoded picture ---------- *)

Lemma pixel_at_unique evs x y v :
  (forall v', In (x, y, v') evs -> v' = v) -> (exists v', In (x, y, v') evs) ->
  pixel_at evs x y = Some v.
Proof.
  induction evs as [|[[ex ey] ev] r IH]; intros Hu (v' & Hin); [destruct Hin|].
  cbn [pixel_at]. destruct ((ex =? x) && (ey =? y)) eqn:E.
  - assert (ex = x /\ ey = y) as [-> ->] by lia. f_equal. apply Hu. now left.
  - apply IH.
    + intros v'' H. apply Hu. now right.
    + destruct Hin as [H|H]; [inversion H; subst; lia|eauto].
Qed.

Lemma nrange_from_In n : forall a b, In b (nrange_from a n) <-> a <= b < a + N.of_nat n.
Proof.
  induction n as [|n IH]; intros a b; cbn [nrange_from In]; [lia|]. rewrite IH. lia.
Qed.

(* ---------- source images ---------- *)

Definition spx_ok (p : spx) : Prop :=
  match p with
  | Opaque c => rgb_ok c = true
  | Transp _ _ bl => rgb_ok bl = true
  end.

(* height >= 6, at least one column, rectangular, byte colours *)
Definition src_ok (rows : list (list spx)) (w : nat) : Prop :=
  (6 <= length rows)%nat /\ (1 <= w)%nat /\
  Forall (fun r => length r = w) rows /\ Forall (Forall spx_ok) rows /\
  (N.of_nat (length rows * w) <= max_pixels)%N.        (* the assumption OctreeProofs.max_pixels *)

Lemma height6_pos rows : (6 <= length rows)%nat -> (6 <= height6 rows <= length rows)%nat.
Proof.
  intros H. unfold height6. pose proof (Nat.div_mod (length rows) 6 ltac:(lia)).
  pose proof (Nat.mod_upper_bound (length rows) 6 ltac:(lia)).
  assert (1 <= length rows / 6)%nat by (apply Nat.div_le_lower_bound; lia). lia.
Qed.

Lemma eff_px_ok p : rgb_ok (eff_px sixel_pre_tbl p) = true.
Proof.
  destruct p as [[[r g] b]|c a [[r g] b]]; cbn [eff_px map3]; unfold rgb_ok;
    pose proof (pre_byte r); pose proof (pre_byte g); pose proof (pre_byte b); unfold pre in *; lia.
Qed.

Lemma In_firstn {A} (x : A) n l : In x (firstn n l) -> In x l.
Proof. intros H. rewrite <- (firstn_skipn n l). apply in_or_app. now left. Qed.

Lemma sixel_eff_ok rows w :
  src_ok rows w ->
  img_ok (sixel_eff rows) /\ length (sixel_eff rows) = height6 rows /\
  img_width (sixel_eff rows) = N.of_nat w /\ Forall (fun r => length r = w) (sixel_eff rows).
Proof.
  intros (Hh & Hw & Hrect & _ & Hmax). pose proof (height6_pos rows Hh) as H6.
  unfold sixel_eff, rows6. remember (map (map (eff_px sixel_pre_tbl)) (firstn (height6 rows) rows)) as eff eqn:Eeff.
  assert (Hl : length eff = height6 rows) by (subst eff; rewrite map_length, firstn_length; lia).
  assert (Hr : Forall (fun r => length r = w) eff).
  { subst eff. apply Forall_forall. intros r Hr. apply in_map_iff in Hr. destruct Hr as (r0 & <- & Hr0).
    rewrite map_length. rewrite Forall_forall in Hrect. apply Hrect. eapply In_firstn, Hr0. }
  assert (Hwd : img_width eff = N.of_nat w).
  { clear Eeff. destruct eff as [|r0 rest]; [cbn [length] in Hl; lia|]. cbn [img_width]. inversion Hr; subst. reflexivity. }
  split; [|split; [exact Hl|split; [exact Hwd|exact Hr]]].
  split; [intros E0; rewrite E0 in Hl; cbn [length] in Hl; lia|]. split; [lia|]. split; [|split].
  - unfold rect. apply forallb_forall. intros r Hin. rewrite Forall_forall in Hr. rewrite (Hr r Hin), Hwd.
    apply Nat.eqb_eq. lia.
  - subst eff. apply Forall_forall. intros r Hin. apply in_map_iff in Hin. destruct Hin as (r0 & <- & _).
    apply Forall_forall. intros p Hp. apply in_map_iff in Hp. destruct Hp as (p0 & <- & _). apply eff_px_ok.
  - unfold img_pixels. rewrite (concat_length_rect eff w Hr), Hl. nia.
Qed.

(* ---------- draw ---------- *)

Lemma Forall2_lengths_rect (im : img) (q : list (list N)) w :
  Forall (fun r => length r = w) im ->
  Forall2 (fun (row : list rgb) (qrow : list N) => length qrow = length row) im q ->
  Forall (fun r => length r = w) q /\ length q = length im.
Proof.
  intros Hr H. induction H as [|row qrow im' q' Hl H IH]; [split; [constructor|reflexivity]|].
  inversion Hr; subst. destruct (IH H3) as [H1 H2]. split; [constructor; [congruence|exact H1]|cbn; congruence].
Qed.

(* Every first draw of an image of height >= 6: for EVERY iteration order of the
   colour strips, the bytes are one well-formed sixel sequence that the reference
   interpreter decodes to a picture of size w x (h - h mod 6) in which every pixel is
   painted with the colour of its palette entry, nothing is painted outside, and at
   most 256 registers are defined. *)
Theorem draw_decodes : forall (rows : list (list spx)) (w : nat),
  src_ok rows w ->
  exists pal q,
    quantize (sixel_eff rows) sixel_palette_size sixel_dither = Ok (pal, q) /\
    (length pal <= 256)%nat /\
    forall orders, orders_ok q orders = true ->
    exists bytes pic,
      sixel_draw rows orders = Ok bytes /\ sixel_decode bytes = Some pic /\
      picture_ok (N.of_nat w) (N.of_nat (height6 rows)) pic = true /\
      forall xn yn, (xn < w)%nat -> (yn < height6 rows)%nat ->
        exists c p, nth_error (nth yn q []) xn = Some c /\ nth_error pal (N.to_nat c) = Some p /\
                    pixel_at (p_events pic) (N.of_nat xn) (N.of_nat yn) = Some (map3 scale p).
Proof.
  intros rows w Hsrc. destruct (sixel_eff_ok rows w Hsrc) as (Hio & Hlen & Hwd & Hrect).
  destruct palette_size_256 as [Hps1 Hps2].
  destruct (quantize_spec (sixel_eff rows) sixel_palette_size sixel_dither Hio Hps2)
    as (pal & q & Hq & Hp1 & Hp2 & Hdims & Hidx & _).
  exists pal, q. split; [exact Hq|].
  assert (Hpal : (length pal <= 256)%nat) by lia. split; [exact Hpal|].
  intros orders Hord.
  destruct (Forall2_lengths_rect _ _ _ Hrect Hdims) as [Hqrect Hqlen].
  assert (Hord2 : Forall2 (fun o b => order_ok o b = true) orders (bands (length q) q)).
  { unfold orders_ok in Hord. apply andb_true_iff in Hord. destruct Hord as [Hl Hf].
    apply Nat.eqb_eq in Hl. rewrite forallb_forall in Hf.
    revert Hl Hf. generalize (bands (length q) q). intros bs. revert bs.
    induction orders as [|o os IH]; intros bs Hl Hf; destruct bs as [|b bs]; try discriminate; constructor.
    - apply (Hf (o, b)). now left.
    - apply IH; [cbn in Hl; lia|]. intros p Hp. apply Hf. now right. }
  destruct (sixel_roundtrip sixel_shift_min sixel_repeat_min scale pal q w orders scale_le_100 Hqrect Hidx Hord2)
    as (bytes & pic & Henc & Hdec & Hpw & Hph & Hregs & Hsound & Hcompl).
  exists bytes, pic. split.
  { unfold sixel_draw. rewrite Hq. unfold sixel_encode. rewrite code_offset_63, Hwd.
    replace (N.to_nat (N.of_nat w)) with w by lia. exact Henc. }
  split; [exact Hdec|].
  assert (Hh : length q = height6 rows) by congruence.
  assert (Hsound' : forall x y v, In (x, y, v) (p_events pic) ->
            x < N.of_nat w /\ y < N.of_nat (height6 rows) /\
            exists c, nth_error (nth (N.to_nat y) q []) (N.to_nat x) = Some c /\ v = reg_color scale pal c).
  { intros x y v Hin. destruct (Hsound x y v Hin) as (row & c & Hrow & Hc & Hv).
    assert (N.to_nat y < length q)%nat by (apply nth_error_Some; congruence).
    assert (N.to_nat x < length row)%nat by (apply nth_error_Some; congruence).
    assert (length row = w) by (rewrite Forall_forall in Hqrect; eapply Hqrect, nth_error_In, Hrow).
    split; [lia|]. split; [lia|]. exists c. split; [|exact Hv].
    rewrite (nth_error_nth _ _ _ Hrow). exact Hc. }
  split.
  - unfold picture_ok. rewrite Hpw, Hph, Hh, Hregs. rewrite !N.eqb_refl. cbn [andb].
    rewrite (regs_ok_palette scale pal Hpal), andb_true_r. apply andb_true_iff. split.
    + apply forallb_forall. intros [[x y] v] Hin. destruct (Hsound' x y v Hin) as (Hx & Hy & _).
      unfold ev_in. lia.
    + apply forallb_forall. intros y Hy. apply forallb_forall. intros x Hx.
      apply nrange_from_In in Hy. apply nrange_from_In in Hx.
      assert (Hyn : (N.to_nat y < length q)%nat) by lia.
      destruct (nth_error q (N.to_nat y)) as [row|] eqn:Erow; [|apply nth_error_None in Erow; lia].
      destruct (Hcompl (N.to_nat x) (N.to_nat y) row Erow ltac:(lia)) as (v & Hin).
      rewrite !N2Nat.id in Hin. unfold painted. apply existsb_exists. exists (x, y, v). split; [exact Hin|lia].
  - intros xn yn Hx Hy.
    assert (Hyn : (yn < length q)%nat) by lia.
    destruct (nth_error q yn) as [row|] eqn:Erow; [|apply nth_error_None in Erow; lia].
    assert (Hrl : length row = w) by (rewrite Forall_forall in Hqrect; eapply Hqrect, nth_error_In, Erow).
    destruct (nth_error row xn) as [c|] eqn:Ec; [|apply nth_error_None in Ec; lia].
    assert (Hcl : c < N.of_nat (length pal)).
    { rewrite Forall_forall in Hidx. specialize (Hidx row (nth_error_In _ _ Erow)).
      rewrite Forall_forall in Hidx. apply Hidx, (nth_error_In _ _ Ec). }
    destruct (nth_error pal (N.to_nat c)) as [pc|] eqn:Epc; [|apply nth_error_None in Epc; lia].
    exists c, pc. rewrite (nth_error_nth _ _ _ Erow). split; [exact Ec|]. split; [exact Epc|].
    replace (map3 scale pc) with (reg_color scale pal c) by (unfold reg_color; now rewrite Epc).
    apply pixel_at_unique.
    + intros v' Hin. destruct (Hsound' _ _ _ Hin) as (_ & _ & c' & Hc' & ->).
      rewrite !Nat2N.id, (nth_error_nth _ _ _ Erow), Ec in Hc'. now inversion Hc'.
    + apply (Hcompl xn yn row Erow Hx).
Qed.

Lemma draw_decodes_view : forall (parent : list (list spx)) crop (w : nat),
  src_ok (view_rows parent crop) w ->
  exists pal q,
    quantize (sixel_eff (view_rows parent crop)) sixel_palette_size sixel_dither = Ok (pal, q) /\
    (length pal <= 256)%nat /\
    forall orders, orders_ok q orders = true ->
    exists bytes pic,
      sixel_draw (view_rows parent crop) orders = Ok bytes /\ sixel_decode bytes = Some pic /\
      picture_ok (N.of_nat w) (N.of_nat (height6 (view_rows parent crop))) pic = true.
Proof.
  intros parent crop w H. destruct (draw_decodes _ w H) as (pal & q & Hq & Hl & Hd).
  exists pal, q. split; [exact Hq|]. split; [exact Hl|]. intros orders Ho.
  destruct (Hd orders Ho) as (bytes & pic & Hb & Hp & Hok & _). exists bytes, pic. auto.
Qed.

(* the source pixel a position of the (truncated) image refers to *)
Definition src_px (rows : list (list spx)) (xn yn : nat) : option spx :=
  match nth_error rows yn with Some r => nth_error r xn | None => None end.

Lemma Forall2_nth_pair {A B} (P : A -> B -> Prop) la lb k a :
  Forall2 P la lb -> nth_error la k = Some a -> exists b, nth_error lb k = Some b /\ P a b.
Proof.
  intros H. revert k. induction H as [|x y la' lb' Hxy H IH]; intros k Hk; [destruct k; discriminate|].
  destruct k as [|k]; [cbn in *; inversion Hk; subst; eauto|]. cbn in *. apply IH, Hk.
Qed.

Lemma src100_scale p : spx_ok p -> map3 scale (eff_px sixel_pre_tbl p) = src100 p.
Proof.
  destruct p as [[[r g] b]|c a [[r g] b]]; cbn [spx_ok eff_px src100 map3]; unfold rgb_ok; intros H;
    assert (r < 256 /\ g < 256 /\ b < 256) as (Hr & Hg & Hb) by lia;
    fold (pre r) (pre g) (pre b); rewrite !scale_pre_spec by assumption; reflexivity.
Qed.

(* If the (composited, reduced) image has at most 256 distinct colours — and it is below
   the subsampling threshold — the decoded picture equals the source at 0..100 resolution. *)
Theorem draw_exact : forall (rows : list (list spx)) (w : nat),
  src_ok rows w ->
  distinct_colors (sixel_eff rows) <= 256 -> sample_of (sixel_eff rows) sixel_palette_size < 2 ->
  exists pal q,
    quantize (sixel_eff rows) sixel_palette_size sixel_dither = Ok (pal, q) /\
    forall orders, orders_ok q orders = true ->
    exists bytes pic,
      sixel_draw rows orders = Ok bytes /\ sixel_decode bytes = Some pic /\
      forall xn yn p, (xn < w)%nat -> (yn < height6 rows)%nat -> src_px rows xn yn = Some p ->
        pixel_at (p_events pic) (N.of_nat xn) (N.of_nat yn) = Some (src100 p).
Proof.
  intros rows w Hsrc Hd Hs. destruct (sixel_eff_ok rows w Hsrc) as (Hio & Hlen & Hwd & Hrect).
  destruct palette_size_256 as [Hps1 Hps2].
  assert (Hd' : distinct_colors (sixel_eff rows) <= N.max sixel_palette_size 8).
  { change sixel_palette_size with 256. lia. }
  destruct (quantize_exact (sixel_eff rows) sixel_palette_size sixel_dither Hio Hps2 Hd' Hs) as (pal & q & Hq & Hex).
  destruct (draw_decodes rows w Hsrc) as (pal' & q' & Hq' & _ & Hdec).
  rewrite Hq in Hq'. inversion Hq'; subst pal' q'.
  exists pal, q. split; [exact Hq|]. intros orders Hord.
  destruct (Hdec orders Hord) as (bytes & pic & Hb & Hp & _ & Hpix).
  exists bytes, pic. split; [exact Hb|]. split; [exact Hp|].
  intros xn yn p Hx Hy Hsp. destruct (Hpix xn yn Hx Hy) as (c & pc & Hc & Hpc & Hpa). rewrite Hpa. f_equal.
  (* the palette entry of this pixel is its effective colour *)
  unfold src_px in Hsp. destruct (nth_error rows yn) as [srow|] eqn:Esrow; [|discriminate].
  assert (Heffrow : nth_error (sixel_eff rows) yn = Some (map (eff_px sixel_pre_tbl) srow)).
  { unfold sixel_eff, rows6. rewrite nth_error_map, nth_error_firstn_lt by exact Hy. now rewrite Esrow. }
  destruct (Forall2_nth_pair _ _ _ _ _ Hex Heffrow) as (qrow & Hqrow & Hrow2).
  assert (Hpx : nth_error (map (eff_px sixel_pre_tbl) srow) xn = Some (eff_px sixel_pre_tbl p))
    by (rewrite nth_error_map, Hsp; reflexivity).
  destruct (Forall2_nth_pair _ _ _ _ _ Hrow2 Hpx) as (i & Hi & Hpal).
  rewrite (nth_error_nth _ _ _ Hqrow), Hi in Hc. inversion Hc; subst i.
  rewrite Hpal in Hpc. inversion Hpc; subst pc. apply src100_scale.
  destruct Hsrc as (_ & _ & _ & Hok & _). rewrite Forall_forall in Hok.
  specialize (Hok srow (nth_error_In _ _ Esrow)). rewrite Forall_forall in Hok. apply Hok, (nth_error_In _ _ Hsp).
Qed.

(* ---------- "at most 256 distinct colours at 0..100 resolution" ---------- *)

Definition base_color (p : spx) : rgb :=
  match p with Opaque c => c | Transp _ _ bl => bl end.

Lemma eff_px_base p : eff_px sixel_pre_tbl p = map3 pre (base_color p).
Proof. destruct p; reflexivity. Qed.

Lemma src100_base p : src100 p = map3 spec100 (base_color p).
Proof. destruct p; reflexivity. Qed.

(* the reduction identifies exactly the bytes that sixel's resolution identifies *)
Lemma pre_classes x y : x < 256 -> y < 256 -> (pre x = pre y <-> spec100 x = spec100 y).
Proof.
  intros Hx Hy.
  assert (H : sweep2 256 256 (fun x y => Bool.eqb (pre x =? pre y) (spec100 x =? spec100 y)) = true)
    by (vm_compute; reflexivity).
  assert (Hx' : x < N.of_nat 256) by (change (N.of_nat 256) with 256; exact Hx).
  assert (Hy' : y < N.of_nat 256) by (change (N.of_nat 256) with 256; exact Hy).
  pose proof (sweep2_sound 256 256 _ H x y Hx' Hy') as Hz. cbv beta in Hz.
  apply Bool.eqb_prop in Hz. split; intros E.
  - assert ((pre x =? pre y) = true) by lia. rewrite H0 in Hz. symmetry in Hz. lia.
  - assert ((spec100 x =? spec100 y) = true) by lia. rewrite H0 in Hz. lia.
Qed.

Lemma map3_classes a b :
  rgb_ok a = true -> rgb_ok b = true -> (map3 pre a = map3 pre b <-> map3 spec100 a = map3 spec100 b).
Proof.
  destruct a as [[r1 g1] b1], b as [[r2 g2] b2]. unfold rgb_ok. cbn [map3]. intros Ha Hb.
  assert (r1 < 256 /\ g1 < 256 /\ b1 < 256 /\ r2 < 256 /\ g2 < 256 /\ b2 < 256) as (?&?&?&?&?&?) by lia.
  pose proof (pre_classes r1 r2 ltac:(assumption) ltac:(assumption)) as Pr.
  pose proof (pre_classes g1 g2 ltac:(assumption) ltac:(assumption)) as Pg.
  pose proof (pre_classes b1 b2 ltac:(assumption) ltac:(assumption)) as Pb.
  split; intros E; injection E as E1 E2 E3.
  - rewrite (proj1 Pr E1), (proj1 Pg E2), (proj1 Pb E3). reflexivity.
  - rewrite (proj2 Pr E1), (proj2 Pg E2), (proj2 Pb E3). reflexivity.
Qed.

Lemma nodup_len_equiv {A} (f g : A -> rgb) (l : list A) :
  (forall a b, In a l -> In b l -> (f a = f b <-> g a = g b)) ->
  length (nodup_rgb (map f l)) = length (nodup_rgb (map g l)).
Proof.
  induction l as [|a r IH]; intros H; [reflexivity|]. cbn [map nodup_rgb].
  assert (Hm : mem (f a) (map f r) = mem (g a) (map g r)).
  { destruct (mem (f a) (map f r)) eqn:E1, (mem (g a) (map g r)) eqn:E2; try reflexivity; exfalso.
    - apply mem_In in E1. apply in_map_iff in E1. destruct E1 as (b & Eb & Hb).
      assert (mem (g a) (map g r) = true); [|congruence]. apply mem_In. apply in_map_iff. exists b. split; [|exact Hb].
      apply (H b a); [now right|now left|exact Eb].
    - apply mem_In in E2. apply in_map_iff in E2. destruct E2 as (b & Eb & Hb).
      assert (mem (f a) (map f r) = true); [|congruence]. apply mem_In. apply in_map_iff. exists b. split; [|exact Hb].
      apply (H b a); [now right|now left|exact Eb]. }
  rewrite Hm. assert (IH' := IH (fun x y Hx Hy => H x y (or_intror Hx) (or_intror Hy))).
  destruct (mem (g a) (map g r)); cbn [length]; congruence.
Qed.

Theorem distinct100_eff rows w :
  src_ok rows w -> distinct_colors (sixel_eff rows) = distinct100 rows.
Proof.
  intros (_ & _ & _ & Hok & _). unfold distinct_colors, distinct100, img_pixels, sixel_eff, sixel_src100.
  rewrite <- !concat_map. f_equal.
  erewrite (map_ext (eff_px sixel_pre_tbl)); [|apply eff_px_base].
  erewrite (map_ext src100); [|apply src100_base].
  rewrite <- (map_map base_color (map3 pre)), <- (map_map base_color (map3 spec100)).
  apply nodup_len_equiv. intros a b Ha Hb.
  assert (Hall : forall c, In c (map base_color (concat (rows6 rows))) -> rgb_ok c = true).
  { intros c Hc. apply in_map_iff in Hc. destruct Hc as (p & <- & Hp). apply in_concat in Hp.
    destruct Hp as (r & Hr & Hp). unfold rows6 in Hr. apply In_firstn in Hr.
    rewrite Forall_forall in Hok. specialize (Hok r Hr). rewrite Forall_forall in Hok. specialize (Hok p Hp).
    destruct p; exact Hok. }
  apply map3_classes; apply Hall; assumption.
Qed.

(* ---------- repeated draws on one handler ---------- *)

(* what a computation of this draw writes and caches: nothing when quantize returned None *)
Definition fresh_of (o : outcome (list N)) : option (list N) :=
  match o with Ok (b :: r) => Some (b :: r) | _ => None end.

Definition draw_req := (N * list (list spx) * list (list N))%type.   (* content hash, view, strip orders *)

Definition cache_req (d : draw_req) : N * option (list N) :=
  let '(key, rows, ord) := d in (key, fresh_of (sixel_draw rows ord)).

(* SixelImageHandler::draw called on each request in turn: the cache of Image/SixelCache.v with
   the regenerated IMAGE_CACHE_SIZE, fresh encodings by sixel_draw under that draw's own
   hash-map order *)
Definition handler_run (ds : list draw_req) : list (list N) :=
  hrun sixel_cache_limit ([], 0) (map cache_req ds).

Theorem repeat_draw : forall (ds : list draw_req) i j key rows oi rows' oj b,
  total (map cache_req ds) <= sixel_cache_limit ->
  nth_error ds i = Some (key, rows, oi) -> sixel_draw rows oi = Ok b -> b <> [] ->
  (forall i' d, (i' < i)%nat -> nth_error ds i' = Some d -> fst (fst d) <> key) ->
  (i < j)%nat -> nth_error ds j = Some (key, rows', oj) ->
  nth_error (handler_run ds) i = Some b /\ nth_error (handler_run ds) j = Some b.
Proof.
  intros ds i j key rows oi rows' oj b Htot Hi Hb Hne Hfirst Hij Hj. unfold handler_run.
  apply (second_draw_identical sixel_cache_limit (map cache_req ds) key b i j (fresh_of (sixel_draw rows' oj))).
  - exact Htot.
  - rewrite nth_error_map, Hi. cbn [option_map cache_req]. rewrite Hb. destruct b; [congruence|reflexivity].
  - intros i' Hi' f E. rewrite nth_error_map in E. destruct (nth_error ds i') as [[[k r] o]|] eqn:Ed; [|discriminate].
    cbn [option_map cache_req] in E. inversion E; subst. apply (Hfirst i' _ Hi' Ed). reflexivity.
  - exact Hij.
  - rewrite nth_error_map, Hj. reflexivity.
Qed.
