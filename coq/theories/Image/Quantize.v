(* Model of ColorPalette::{new, from_image, find} (src/image.rs:1651-1722), of
   common::Rnd (src/common.rs:229-258) and of Image::quantize (src/image.rs:153-202).
   Executable definitions only.

   An image is given as the list of its rows, every pixel already *effective*:
   a pixel with alpha < 255 has been replaced by `bg.blend_over(pixel)`, which is
   rasterize's floating point compositing and enters as an oracle value supplied by
   the caller (both from_image and quantize apply it under the same test and only
   ever look at the r,g,b bytes of the result).

   Floyd-Steinberg: ColorError holds f32 values that are always integer multiples
   of 1/16 of magnitude <= 255 (an error is a difference of two bytes times
   7/16, 3/16, 5/16, 1/16; at most 7+3+5+1 sixteenths of 255 accumulate in a slot),
   so every f32 operation of the code is exact and the model works in Z, in
   sixteenths. *)
From Coq Require Import List NArith ZArith Bool.
From SNT Require Import Base.Outcome Image.KDTree Image.Octree.
Import ListNotations.
Local Open Scope N_scope.

(* ---------- common::Rnd ---------- *)

Definition rnd_step (s : N) : N * N :=
  (* wrapping_mul / wrapping_add keep the low 32 bits (N.land .. 0xffffffff = mod 2^32, cheaper to evaluate) *)
  let s' := N.land (N.land (s * 214013 + 2531011) 0xffffffff) 0x7fffffff in
  (N.shiftr s' 16, s').

Definition next_u32 (s : N) : N * N :=
  let '(a, s1) := rnd_step s in
  let '(b, s2) := rnd_step s1 in
  (N.lor (N.shiftl (N.land a 0xffff) 16) (N.land b 0xffff), s2).

(* ---------- ColorPalette::from_image ---------- *)

(* while let Some(color) = colors.nth(rnd.next_u32() % sample) { insert } ;
   every round consumes at least one pixel, so length+1 rounds of fuel suffice *)
Fixpoint sample_loop (fuel : nat) (sample : N) (st : N) (l : list rgb) (t : octree)
  : outcome octree :=
  match fuel with
  | O => OutOfFuel
  | S f =>
      let '(v, st') := next_u32 st in
      match skipn (N.to_nat (v mod sample)) l with
      | [] => Ok t
      | c :: rest => let* t' := oc_insert t c in sample_loop f sample st' rest t'
      end
  end.

Definition img := list (list rgb).

Definition img_height (im : img) : N := N.of_nat (length im).
Definition img_width (im : img) : N :=
  match im with [] => 0 | r :: _ => N.of_nat (length r) end.
Definition img_pixels (im : img) : list rgb := concat im.

(* (height * width / palette_size.saturating_mul(100)) as u32 *)
Definition sat_mul100 (k : N) : N := N.min (k * 100) 18446744073709551615.
Definition sample_of (im : img) (k : N) : N :=
  ((img_height im * img_width im) / sat_mul100 k) mod 4294967296.

(* the octree from_image builds before pruning *)
Definition image_octree (im : img) (k : N) : outcome octree :=
  let sample := sample_of im k in
  if sample <? 2 then oc_extend oc_new (img_pixels im)
  else sample_loop (S (length (img_pixels im))) sample 0 (img_pixels im) oc_new.

(* Err 0 = the function returned None *)
Definition palette_of_image (im : img) (k : N) : outcome (list rgb) :=
  if (img_height im =? 0) || (img_width im =? 0) then Err 0
  else if k =? 0 then Panic 13007                            (* division by zero *)
  else
    let* t := image_octree im k in
    let* t' := prune_until k t in
    let* pal := build_palette t' in
    match pal with [] => Err 0 | _ => Ok pal end.

(* ---------- Floyd-Steinberg error rows ---------- *)

Definition err := (Z * Z * Z)%type.               (* sixteenths *)
Definition err0 : err := (0, 0, 0)%Z.

Definition clamp16 (v : Z) : Z :=
  if (v <? 0)%Z then 0%Z else if (v >? 4080)%Z then 4080%Z else v.

(* ColorError::add: clamp(r as f32 + re, 0.0, 255.0) as u8 *)
Definition err_apply (e : err) (c : rgb) : rgb :=
  let '(er, eg, eb) := e in
  let '(r, g, b) := c in
  (Z.to_N (clamp16 (16 * Z.of_N r + er) / 16),
   Z.to_N (clamp16 (16 * Z.of_N g + eg) / 16),
   Z.to_N (clamp16 (16 * Z.of_N b + eb) / 16)).

(* ColorError::between(c0, c1) * (k/16) *)
Definition err_between (k : Z) (c0 c1 : rgb) : err :=
  let '(r0, g0, b0) := c0 in
  let '(r1, g1, b1) := c1 in
  (k * (Z.of_N r0 - Z.of_N r1), k * (Z.of_N g0 - Z.of_N g1), k * (Z.of_N b0 - Z.of_N b1))%Z.

Definition err_plus (a b : err) : err :=
  let '(a0, a1, a2) := a in let '(b0, b1, b2) := b in (a0 + b0, a1 + b1, a2 + b2)%Z.

(* errors[k] += e *)
Fixpoint add_at (k : nat) (e : err) (l : list err) : list err :=
  match l with
  | [] => []
  | x :: r => match k with O => err_plus x e :: r | S k' => x :: add_at k' e r end
  end.

Section Quantize.
  (* palette.find *)
  Variable find : rgb -> outcome (N * rgb).
  Variable dither : bool.

  (* inner loop over the columns of one row; cur/nxt = errors[..ewidth], errors[ewidth..] *)
  Fixpoint quant_row (col : nat) (px : list rgb) (cur nxt : list err)
    : outcome (list N * list err * list err) :=
    match px with
    | [] => Ok ([], cur, nxt)
    | c :: rest =>
        let c1 := if dither then err_apply (nth (col + 1) cur err0) c else c in
        let* (qi, qc) := find c1 in
        let cur' := if dither then add_at (col + 2) (err_between 7 c1 qc) cur else cur in
        let nxt' :=
          if dither then
            add_at (col + 2) (err_between 1 c1 qc)
              (add_at (col + 1) (err_between 5 c1 qc)
                 (add_at col (err_between 3 c1 qc) nxt))
          else nxt in
        let* (ixs, cur'', nxt'') := quant_row (S col) rest cur' nxt' in
        Ok (qi :: ixs, cur'', nxt'')
    end.

  Fixpoint quant_rows (ew : nat) (rows : img) (cur nxt : list err) : outcome (list (list N)) :=
    match rows with
    | [] => Ok []
    | row :: rest =>
        (* swap error rows *)
        let cur0 := if dither then nxt else cur in
        let nxt0 := if dither then repeat err0 ew else nxt in
        let* (ixs, cur1, nxt1) := quant_row O row cur0 nxt0 in
        let* r := quant_rows ew rest cur1 nxt1 in
        Ok (ixs :: r)
    end.
End Quantize.

(* Image::quantize(palette_size, dither, bg) on the effective image *)
Definition quantize (im : img) (k : N) (dither : bool) : outcome (list rgb * list (list N)) :=
  let* pal := palette_of_image im k in
  let t := build pal in
  let ew := (N.to_nat (img_width im) + 2)%nat in
  let errs := if dither then repeat err0 ew else [] in
  let* q := quant_rows (kd_find t) dither ew im errs errs in
  Ok (pal, q).

(* ---------- specification side ---------- *)

Definition distinct_colors (im : img) : N := N.of_nat (length (nodup_rgb (img_pixels im))).

Definition rect (im : img) : bool :=
  forallb (fun r => (length r =? N.to_nat (img_width im))%nat) im.

Definition same_dims {A B} (a : list (list A)) (b : list (list B)) : bool :=
  ((length a =? length b)%nat &&
   forallb (fun p => (length (fst p) =? length (snd p))%nat) (combine a b)).

Definition forall2b {A B} (f : A -> B -> bool) (a : list (list A)) (b : list (list B)) : bool :=
  forallb (fun p => forallb (fun q => f (fst q) (snd q)) (combine (fst p) (snd p))) (combine a b).

(* the property, evaluated on an observed result (pal, q) for image im *)
Definition quantize_holds (im : img) (k : N) (dither : bool)
           (pal : list rgb) (q : list (list N)) : bool :=
  let np := N.of_nat (length pal) in
  (1 <=? np) && (np <=? N.max k 8) &&
  same_dims im q &&
  forall2b (fun (_ : rgb) i => i <? np) im q &&
  (dither ||
   forall2b (fun c i => is_nearestb pal c i (nth (N.to_nat i) pal (0, 0, 0))) im q) &&
  (* (`if`, not `&&`: the count of distinct colours is only computed for images that are not subsampled) *)
  (if (if sample_of im k <? 2 then distinct_colors im <=? k else false)
   then forall2b (fun c i => rgb_eqb (nth (N.to_nat i) pal (256, 256, 256)) c) im q else true).
