(* Proofs about Image/Quantize.v, part 1: for every non-empty rectangular image of
   byte colours with at most 2^56 pixels (img_ok) and every requested size k >= 1, palette extraction (with or
   without subsampling) succeeds with 1 <= |palette| <= max(k,8); quantize succeeds,
   the index image has the size of the input, every index is below |palette|
   (whatever the dithering error did to the query colour), and without dithering
   every pixel is mapped to a palette entry at minimal distance. *)
From Coq Require Import List NArith ZArith Bool Lia Arith.
From Coq Require Import ZifyBool ZifyNat ZifyN.
From SNT Require Import Base.Outcome Image.KDTree Image.KDTreeProofs Image.Octree Image.OctreeProofs
     Image.Quantize.
Import ListNotations.

Arguments N.add : simpl never.
Arguments N.sub : simpl never.
Arguments N.mul : simpl never.
Arguments N.eqb : simpl never.
Arguments N.ltb : simpl never.
Arguments N.leb : simpl never.
Arguments N.div : simpl never.
Arguments N.modulo : simpl never.
Arguments N.max : simpl never.

Definition px_ok (c : rgb) : Prop := rgb_ok c = true.

(* a non-empty rectangular image of byte colours *)
Definition img_ok (im : img) : Prop :=
  im <> [] /\ img_width im <> 0%N /\ rect im = true /\ Forall (Forall px_ok) im /\
  (N.of_nat (length (img_pixels im)) <= max_pixels)%N.       (* the assumption of OctreeProofs.max_pixels *)

(* ---------- images ---------- *)

Lemma concat_length_rect (im : img) w :
  Forall (fun r => length r = w) im -> length (concat im) = (length im * w)%nat.
Proof. induction 1 as [|r rs Hr Hrs IH]; [reflexivity|]. cbn [concat length]. rewrite app_length, IH, Hr. lia. Qed.

Lemma rect_rows im : rect im = true -> Forall (fun r => length r = N.to_nat (img_width im)) im.
Proof.
  unfold rect. rewrite forallb_forall. intros H. apply Forall_forall. intros r Hr.
  specialize (H r Hr). apply Nat.eqb_eq in H. exact H.
Qed.

Lemma img_pixels_length im :
  rect im = true -> N.of_nat (length (img_pixels im)) = (img_height im * img_width im)%N.
Proof.
  intros H. unfold img_pixels. rewrite (concat_length_rect im _ (rect_rows im H)).
  unfold img_height. lia.
Qed.

Lemma img_pixels_ok im : Forall (Forall px_ok) im -> Forall px_ok (img_pixels im).
Proof.
  unfold img_pixels. induction 1 as [|r rs Hr Hrs IH]; [constructor|].
  cbn [concat]. apply Forall_app. split; assumption.
Qed.

Lemma Forall_skipn_local {A} (P : A -> Prop) n l : Forall P l -> Forall P (skipn n l).
Proof.
  revert l. induction n as [|n IH]; intros l H; [exact H|].
  destruct l as [|x r]; [constructor|]. cbn [skipn]. apply IH. now inversion H.
Qed.

(* ---------- sampling ---------- *)

Lemma sample_loop_spec fuel : forall sample st l t,
  wf_oc t -> Forall px_ok l -> (length l < fuel)%nat ->
  fits_bound (oc_mass t + N.of_nat (length l)) ->
  exists t', sample_loop fuel sample st l t = Ok t' /\ wf_oc t' /\
    (lsum nleaves (o_children t) <= lsum nleaves (o_children t'))%nat /\
    ((N.to_nat (fst (next_u32 st) mod sample) < length l)%nat ->
     (1 <= lsum nleaves (o_children t'))%nat) /\
    (oc_mass t' <= oc_mass t + N.of_nat (length l))%N.
Proof.
  induction fuel as [|f IH]; intros sample st l t Hw Hok Hlen Hfit; [lia|].
  cbn [sample_loop]. destruct (next_u32 st) as [v st'] eqn:En. cbn [fst].
  set (n := N.to_nat (v mod sample)).
  destruct (skipn n l) as [|c rest] eqn:Es.
  - exists t. split; [reflexivity|]. split; [exact Hw|]. split; [lia|]. split; [|lia].
    intros Hn. assert (length (skipn n l) = 0%nat) by (rewrite Es; reflexivity).
    rewrite skipn_length in H. lia.
  - assert (Hok' : Forall px_ok (c :: rest)) by (rewrite <- Es; apply Forall_skipn_local, Hok).
    inversion Hok' as [|? ? Hc Hrest]; subst.
    assert (Hl : (length rest < f)%nat /\ (S (length rest) <= length l)%nat).
    { assert (length (skipn n l) = S (length rest)) by (rewrite Es; reflexivity).
      rewrite skipn_length in H. lia. }
    destruct Hl as [Hl Hl2].
    assert (Hf1 : fits_bound (oc_mass t + 1)) by (eapply fits_bound_mono; [|exact Hfit]; lia).
    destruct (oc_insert_wf t c Hw Hc Hf1) as (t1 & -> & Hw1 & Hp1 & Hle1 & Hm1). cbn [bind].
    assert (Hf2 : fits_bound (oc_mass t1 + N.of_nat (length rest))) by (eapply fits_bound_mono; [|exact Hfit]; lia).
    destruct (IH sample st' rest t1 Hw1 Hrest Hl Hf2) as (t' & -> & Hw' & Hle' & _ & Hm').
    exists t'. split; [reflexivity|]. split; [exact Hw'|]. split; [lia|]. split; [intros _; lia|lia].
Qed.

Lemma sample_of_le im k :
  (1 <= k)%N -> rect im = true -> (sample_of im k <= N.of_nat (length (img_pixels im)))%N.
Proof.
  intros Hk Hr. unfold sample_of. rewrite (img_pixels_length im Hr).
  set (p := (img_height im * img_width im)%N).
  eapply N.le_trans; [apply N.mod_le; lia|].
  assert (Hd : (1 <= sat_mul100 k)%N) by (unfold sat_mul100; lia).
  apply N.div_le_upper_bound; [lia|]. nia.
Qed.

Lemma image_octree_ok im k :
  img_ok im -> (1 <= k)%N ->
  exists t, image_octree im k = Ok t /\ wf_oc t /\ (1 <= lsum nleaves (o_children t))%nat /\
            fits_bound (oc_mass t).
Proof.
  intros (Hne & Hw & Hr & Hok & Hmax) Hk. unfold image_octree. pose proof (widths_adequate _ Hmax) as Hfit.
  pose proof (img_pixels_ok im Hok) as Hpx.
  assert (Hpos : img_pixels im <> []).
  { intros E. pose proof (img_pixels_length im Hr) as HL. rewrite E in HL. cbn [length] in HL.
    unfold img_height in HL. destruct im; [congruence|]. cbn [length] in HL. lia. }
  destruct (sample_of im k <? 2)%N eqn:Es.
  - destruct (oc_extend_wf (img_pixels im) oc_new oc_new_wf Hpx) as (t & Ht & Hwt & _ & Hp & Hm);
      [rewrite oc_new_mass; exact Hfit|].
    exists t. split; [exact Ht|]. split; [exact Hwt|]. split; [apply Hp, Hpos|].
    rewrite Hm, oc_new_mass. exact Hfit.
  - destruct (sample_loop_spec (S (length (img_pixels im))) (sample_of im k) 0 (img_pixels im) oc_new
                               oc_new_wf Hpx ltac:(lia)) as (t & Ht & Hwt & _ & Hp & Hm);
      [rewrite oc_new_mass; exact Hfit|].
    exists t. split; [exact Ht|]. split; [exact Hwt|]. split.
    + apply Hp. pose proof (sample_of_le im k Hk Hr).
      pose proof (N.mod_upper_bound (fst (next_u32 0)) (sample_of im k)). lia.
    + rewrite oc_new_mass in Hm. eapply fits_bound_mono; [exact Hm|exact Hfit].
Qed.

Theorem palette_of_image_bounds im k :
  img_ok im -> (1 <= k)%N ->
  exists pal, palette_of_image im k = Ok pal /\
              (1 <= length pal)%nat /\ (N.of_nat (length pal) <= N.max k 8)%N.
Proof.
  intros Hi Hk. pose proof Hi as (Hne & Hw & Hr & Hok & Hmax). unfold palette_of_image.
  assert (E1 : (img_height im =? 0)%N = false) by (unfold img_height; destruct im; [congruence|cbn [length]; lia]).
  assert (E2 : (img_width im =? 0)%N = false) by lia.
  assert (E3 : (k =? 0)%N = false) by lia.
  rewrite E1, E2, E3. cbn [orb].
  destruct (image_octree_ok im k Hi Hk) as (t & -> & Hwt & Hp & Hft). cbn [bind].
  destruct (prune_until_terminates k t Hwt Hft) as (t' & -> & Hw' & Hb' & Hp'). cbn [bind]. specialize (Hp' Hp).
  destruct (build_palette_ok t' Hw') as (pal & -> & Hlen). cbn [bind].
  pose proof (wo_bound _ Hw').
  destruct pal as [|p pal]; [cbn [length] in Hlen; lia|].
  exists (p :: pal). split; [reflexivity|]. split; [cbn [length]; lia|]. rewrite Hlen. lia.
Qed.

(* ---------- the quantisation loops ---------- *)

Section Loops.
  Variable find : rgb -> outcome (N * rgb).
  Variable dither : bool.
  Variable P : N -> Prop.
  Hypothesis find_total : forall q, exists i c, find q = Ok (i, c) /\ P i.

  Lemma quant_row_total px : forall col cur nxt,
    exists ixs cur' nxt', quant_row find dither col px cur nxt = Ok (ixs, cur', nxt') /\
                          length ixs = length px /\ Forall P ixs.
  Proof.
    induction px as [|c rest IH]; intros col cur nxt; cbn [quant_row].
    - exists [], cur, nxt. split; [reflexivity|]. split; [reflexivity|constructor].
    - match goal with |- context [find ?q] => destruct (find_total q) as (i & qc & -> & Hi) end.
      cbn [bind].
      match goal with |- context [quant_row find dither (S col) rest ?a ?b] =>
        destruct (IH (S col) a b) as (ixs & cur' & nxt' & -> & Hl & Hf) end.
      cbn [bind]. exists (i :: ixs), cur', nxt'. split; [reflexivity|].
      split; [cbn [length]; lia|constructor; assumption].
  Qed.

  Lemma quant_rows_total ew rows : forall cur nxt,
    exists q, quant_rows find dither ew rows cur nxt = Ok q /\
              Forall2 (fun (row : list rgb) (qrow : list N) => length qrow = length row) rows q /\
              Forall (Forall P) q.
  Proof.
    induction rows as [|row rest IH]; intros cur nxt; cbn [quant_rows].
    - exists []. split; [reflexivity|]. split; constructor.
    - match goal with |- context [quant_row find dither O row ?a ?b] =>
        destruct (quant_row_total row O a b) as (ixs & cur' & nxt' & -> & Hl & Hf) end.
      cbn [bind]. destruct (IH cur' nxt') as (q & -> & H2 & HP). cbn [bind].
      exists (ixs :: q). split; [reflexivity|]. split; constructor; assumption.
  Qed.
End Loops.

Section NoDither.
  Variable find : rgb -> outcome (N * rgb).

  Lemma quant_row_nodither px : forall col cur nxt ixs cur' nxt',
    quant_row find false col px cur nxt = Ok (ixs, cur', nxt') ->
    Forall2 (fun p i => exists c, find p = Ok (i, c)) px ixs.
  Proof.
    induction px as [|c rest IH]; intros col cur nxt ixs cur' nxt'; cbn [quant_row].
    - intros H. inversion H. constructor.
    - destruct (find c) as [[i qc]| | |] eqn:Ef; cbn [bind]; try discriminate.
      destruct (quant_row find false (S col) rest cur nxt) as [[[ixs0 c0] n0]| | |] eqn:Er;
        cbn [bind]; try discriminate.
      intros H. inversion H; subst. constructor; [eauto|]. eapply IH, Er.
  Qed.

  Lemma quant_rows_nodither ew rows : forall cur nxt q,
    quant_rows find false ew rows cur nxt = Ok q ->
    Forall2 (Forall2 (fun p i => exists c, find p = Ok (i, c))) rows q.
  Proof.
    induction rows as [|row rest IH]; intros cur nxt q; cbn [quant_rows].
    - intros H. inversion H. constructor.
    - destruct (quant_row find false 0 row cur nxt) as [[[ixs0 c0] n0]| | |] eqn:Er;
        cbn [bind]; try discriminate.
      destruct (quant_rows find false ew rest c0 n0) as [q0| | |] eqn:Eq; cbn [bind]; try discriminate.
      intros H. inversion H; subst. constructor; [eapply quant_row_nodither, Er|eapply IH, Eq].
  Qed.
End NoDither.

Lemma Forall2_imp {A B} (P Q : A -> B -> Prop) l m :
  (forall a b, P a b -> Q a b) -> Forall2 P l m -> Forall2 Q l m.
Proof. intros H. induction 1; constructor; auto. Qed.

(* ---------- Image::quantize ---------- *)

Theorem quantize_spec im k dither :
  img_ok im -> (1 <= k)%N ->
  exists pal q,
    quantize im k dither = Ok (pal, q) /\
    (1 <= length pal)%nat /\ (N.of_nat (length pal) <= N.max k 8)%N /\
    Forall2 (fun (row : list rgb) (qrow : list N) => length qrow = length row) im q /\
    Forall (Forall (fun i => (i < N.of_nat (length pal))%N)) q /\
    (dither = false ->
     Forall2 (Forall2 (fun p i => exists c, is_nearest pal p i c)) im q).
Proof.
  intros Hi Hk. destruct (palette_of_image_bounds im k Hi Hk) as (pal & Hpal & H1 & H2).
  unfold quantize. rewrite Hpal. cbn [bind].
  assert (Hne : pal <> []) by (destruct pal; [cbn in H1; lia|discriminate]).
  assert (Hfind : forall q, exists i c, kd_find (build pal) q = Ok (i, c) /\ (i < N.of_nat (length pal))%N).
  { intros q. destruct (kd_nearest pal q Hne) as (i & c & Hf & _). exists i, c. split; [exact Hf|].
    apply (kd_find_index pal q i c Hf). }
  match goal with |- context [quant_rows ?f dither ?ew im ?a ?b] =>
    destruct (quant_rows_total f dither _ Hfind ew im a b) as (q & Hq & Hd & Hp) end.
  rewrite Hq. cbn [bind]. exists pal, q. split; [reflexivity|].
  split; [exact H1|]. split; [exact H2|]. split; [exact Hd|]. split; [exact Hp|].
  intros ->. cbn [repeat] in Hq. apply quant_rows_nodither in Hq.
  eapply Forall2_imp; [|exact Hq]. intros row qrow Hrow.
  eapply Forall2_imp; [|exact Hrow]. intros p i (c & Hf). exists c.
  destruct (kd_nearest pal p Hne) as (i' & c' & Hf' & Hn). rewrite Hf in Hf'. inversion Hf'; subst. exact Hn.
Qed.
